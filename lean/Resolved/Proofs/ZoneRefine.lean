/-
  C02 refinement, step (iv): `ZNode.resolve` on a tree representing the entry list `es` agrees with
  the flat specification `ZSpec.lookup es` under hypothesis D1.
-/
import Resolved.Proofs.ZoneSpecLemmas
import Resolved.Proofs.ZoneOps

namespace Resolved

open Gen ZSpec

/-- facts about the node owning an existing name. -/
theorem TreeRepr.node_of_exists {root : ZNode} {es : List Entry} (h : TreeRepr root es)
    (rel : List Label) (hex : existsNode es rel = true) :
    ∃ n, root.descend rel.reverse = some n ∧
      RecRepr n.this (recordsAt es rel false) ∧ WildRepr n.wildcards (recordsAt es rel true) ∧
      absName rel root.nsdname = some n.nsdname := by
  have h1 := h.exist rel.reverse
  rw [List.reverse_reverse, hex] at h1
  obtain ⟨n, hn⟩ := Option.isSome_iff_exists.mp h1
  have h2 := h.recs rel.reverse
  simp only [ZNode.baseView, hn, List.reverse_reverse] at h2
  have h3 := h.names rel.reverse n hn
  rw [List.reverse_reverse] at h3
  exact ⟨n, hn, h2.1, h2.2, h3⟩

theorem RecRepr.get_ns {m : RecMap} {zrs : List ZoneRecord} (h : RecRepr m zrs) :
    m.get RT_NS = if ofType zrs RT_NS = [] then none else some (ofType zrs RT_NS) := h.2 RT_NS

section Refine

variable {root : ZNode} {es : List Entry} {apex qname : Name} {qtype : Nat}

/-- the query name exists (and no referral applies): both sides classify the same record set. -/
theorem refine_exists (h : TreeRepr root es) (rel : List Label)
    (hex : existsNode es rel = true)
    (hnd : rel = [] ∨ qtype = RT_NS ∨ ofType (recordsAt es rel false) RT_NS = []) :
    sameResult (root.resolve qname qtype rel true)
      (classify (recordsAt es rel false) qname qtype (absName rel apex) false) = true := by
  obtain ⟨n, hn, hr, _, _⟩ := h.node_of_exists rel hex
  rw [resolve_of_nodeAt root n qname qtype rel true hn, classify_eq]
  simp only [Bool.false_and, Bool.false_eq_true, if_false]
  rw [zoneResultHelper_no_deleg_eq]
  · exact helperData_classifyData _ _ _ _ hr
  · rcases hnd with h1 | h1 | h1
    · left; simp [h1]
    · right; left; exact h1
    · right; right; rw [hr.nsOf_eq]; exact h1

/-- the query name does not exist and no ancestor is a delegation point: closest encloser and
    wildcard synthesis, or a name error. -/
theorem refine_absent (h : TreeRepr root es) (hap : root.nsdname = apex)
    (hq : Name.fromLabels qname.labels = some qname) (rel : List Label)
    (hrel : rel ++ apex.labels = qname.labels)
    (hex : existsNode es rel = false)
    (hnons : ∀ d, d ≠ [] → d <:+ rel → ofType (recordsAt es d false) RT_NS = []) :
    sameResult (root.resolve qname qtype rel true) (specExact es apex qname rel qtype false) = true := by
  have hnone : root.descend rel.reverse = none := by
    have h1 := h.exist rel.reverse
    rw [List.reverse_reverse, hex] at h1
    cases hd : root.descend rel.reverse with
    | none => rfl
    | some x => simp [hd] at h1
  obtain ⟨r1, l, r2, n, hr, hd, hc⟩ := ZNode.descend_none_split _ root hnone
  have hrel' : rel = r2.reverse ++ l :: r1.reverse := by
    have := congrArg List.reverse hr
    simpa using this
  -- model side
  have hmodel : root.resolve qname qtype rel true =
      ZNode.stopResult n qname qtype l (true && r1.isEmpty) := by
    rw [ZNode.resolve_eq_rev, hr, ZNode.resolveRev_descend qname qtype r1 (l :: r2) root n true hd,
      ZNode.resolveRev_stop _ _ _ _ _ _ hc]
  -- spec side
  have hcex : existsNode es r1.reverse = true := by
    have := h.exist r1; rw [hd] at this; exact this.symm
  have hlex : existsNode es (l :: r1.reverse) = false := by
    have := h.exist (r1 ++ [l])
    rw [ZNode.descend_append, hd] at this
    simp only [Option.bind_some, ZNode.descend_cons, hc, Option.bind_none, Option.isSome_none,
      List.reverse_append, List.reverse_cons, List.reverse_nil, List.nil_append,
      List.singleton_append] at this
    exact this.symm
  have hce := closestEncloser_eq es r2.reverse l r1.reverse hcex hlex
  rw [← hrel'] at hce
  obtain ⟨_, _, hrn, hwn, hname⟩ := h.node_of_exists r1.reverse hcex
  rename_i n2 hn2
  have hn2' : n2 = n := by
    rw [List.reverse_reverse, hd] at hn2; exact (Option.some.inj hn2).symm
  subst hn2'
  unfold specExact
  simp only [hex, Bool.false_eq_true, if_false, hce]
  rw [hmodel]
  unfold ZNode.stopResult
  cases hw : n2.wildcards with
  | none =>
    rw [hw] at hwn
    simp only [WildRepr] at hwn
    simp only [hwn, List.isEmpty_nil, if_true]
    cases hr1 : r1.isEmpty with
    | true => simp [sameResult]
    | false =>
      simp only [Bool.and_false, Bool.false_eq_true, if_false]
      have hne : r1.reverse ≠ [] := by
        intro hh; simp only [List.reverse_eq_nil_iff] at hh; rw [hh] at hr1; simp at hr1
      have hsuf : r1.reverse <:+ rel := by
        rw [hrel']; exact ⟨r2.reverse ++ [l], by simp⟩
      have := hnons r1.reverse hne hsuf
      have hg := hrn.get_ns
      rw [this] at hg
      simp only [if_true] at hg
      rw [hg]
      simp [sameResult]
  | some wsm =>
    rw [hw] at hwn
    simp only [WildRepr] at hwn
    obtain ⟨hwne, hwr⟩ := hwn
    have : (recordsAt es r1.reverse true).isEmpty = false := by
      cases hh : recordsAt es r1.reverse true with
      | nil => exact absurd hh hwne
      | cons _ _ => rfl
    simp only [this, Bool.false_eq_true, if_false]
    -- the synthesised owner name
    have hlab : n2.nsdname.labels = r1.reverse ++ apex.labels := by
      have := ZNode.fromLabels_labels hname
      rw [hap] at this; exact this
    have habs : absName (l :: r1.reverse) apex = Name.fromLabels (l :: n2.nsdname.labels) := by
      unfold absName; rw [hlab]; rfl
    have hsome : (Name.fromLabels (l :: n2.nsdname.labels)).isSome := by
      apply ZNode.fromLabels_suffix_isSome r2.reverse (l :: n2.nsdname.labels) (by simp)
      have : r2.reverse ++ l :: n2.nsdname.labels = qname.labels := by
        rw [hlab, ← hrel, hrel']; simp
      rw [this, hq]; rfl
    obtain ⟨nsd, hnsd⟩ := Option.isSome_iff_exists.mp hsome
    rw [habs, hnsd]
    exact helper_classify wsm _ qname qtype nsd true hwr

/-- MAIN step (iv): a tree representing `es` resolves like the flat specification, under D1. -/
theorem resolve_refines_lookup (h : TreeRepr root es) (hap : root.nsdname = apex)
    (hq : Name.fromLabels qname.labels = some qname) (rel : List Label)
    (hrel : rel ++ apex.labels = qname.labels) (hd1 : d1 es = true) :
    sameResult (root.resolve qname qtype rel true) (lookup es apex qname rel qtype) = true := by
  rw [lookup_eq]
  cases hdp : delegationPoint es rel with
  | none =>
    simp only
    have hnons := delegationPoint_none hdp
    cases hex : existsNode es rel with
    | true =>
      have := refine_exists (apex := apex) (qname := qname) (qtype := qtype) h rel hex (by
        by_cases hr : rel = []
        · exact Or.inl hr
        · exact Or.inr (Or.inr (hnons rel hr (List.suffix_refl _))))
      unfold specExact
      simpa only [hex, if_true] using this
    | false => exact refine_absent h hap hq rel hrel hex hnons
  | some d =>
    simp only
    obtain ⟨hdne, hdsuf, hdns⟩ := delegationPoint_some hdp
    -- the delegation point owns records, so it exists
    obtain ⟨zr, hzr⟩ := List.exists_mem_of_ne_nil _ hdns
    have hrne : recordsAt es d false ≠ [] := by
      intro hh; rw [hh] at hzr; simp [ofType] at hzr
    obtain ⟨e, he, herel, _⟩ := exists_entry_of_recordsAt_ne_nil hrne
    have hdex : existsNode es d = true := by rw [← herel]; exact existsNode_of_entry he
    obtain ⟨n, hn, hrn, hwn, hname⟩ := h.node_of_exists d hdex
    rw [hap] at hname
    by_cases hcond : (d == rel && qtype == RT_NS) = true
    · simp only [hcond, if_true]
      simp only [Bool.and_eq_true, beq_iff_eq] at hcond
      obtain ⟨rfl, hqt⟩ := hcond
      have := refine_exists (apex := apex) (qname := qname) (qtype := qtype) h d hdex (Or.inr (Or.inl hqt))
      unfold specExact
      simpa only [hdex, if_true] using this
    · simp only [hcond, Bool.false_eq_true, if_false, hname]
      apply sameResult_of_eq
      by_cases hdr : d = rel
      · subst hdr
        have hqt : qtype ≠ RT_NS := by
          intro hh; apply hcond; simp [hh]
        rw [resolve_of_nodeAt root n qname qtype d true hn, zoneResultHelper_eq, hrn.nsOf_eq]
        have hde : d.isEmpty = false := by cases d <;> simp_all
        rw [if_pos]
        simp only [hde, Bool.and_false, Bool.not_false, Bool.true_and, Bool.and_eq_true, bne_iff_ne, ne_eq,
          hqt, not_false_eq_true, Bool.not_eq_eq_eq_not, Bool.not_true, true_and]
        cases hh : ofType (recordsAt es d false) RT_NS with
        | nil => exact absurd hh hdns
        | cons _ _ => rfl
      · -- strictly beneath the delegation point: the descent stops at it
        obtain ⟨pre, hpre⟩ := hdsuf
        have hprene : pre ≠ [] := by
          intro hh; apply hdr; rw [← hpre, hh]; rfl
        obtain ⟨pre', l, hpl⟩ : ∃ pre' l, pre = pre' ++ [l] :=
          ⟨pre.dropLast, pre.getLast hprene, (List.dropLast_concat_getLast hprene).symm⟩
        have hR : rel.reverse = d.reverse ++ l :: pre'.reverse := by
          rw [← hpre, hpl]; simp
        have hchild : ZNode.childGet n.children l = none := by
          have h1 := h.exist (d.reverse ++ [l])
          rw [ZNode.descend_append, hn] at h1
          simp only [Option.bind_some, ZNode.descend_cons, List.reverse_append, List.reverse_cons,
            List.reverse_nil, List.nil_append, List.singleton_append, List.reverse_reverse,
            d1_no_child hd1 d hdne hdns l] at h1
          cases hc : ZNode.childGet n.children l with
          | none => rfl
          | some c => simp [hc] at h1
        have hwild : n.wildcards = none := by
          have := d1_no_wild hd1 d hdne hdns
          rw [this] at hwn
          cases hw : n.wildcards with
          | none => rfl
          | some ws => rw [hw] at hwn; exact absurd rfl hwn.1
        rw [ZNode.resolve_eq_rev, hR, ZNode.resolveRev_descend qname qtype _ _ root n true hn,
          ZNode.resolveRev_stop _ _ _ _ _ _ hchild]
        unfold ZNode.stopResult
        have hde : d.reverse.isEmpty = false := by cases d <;> simp_all
        simp only [hwild, hde, Bool.and_false, Bool.false_eq_true, if_false]
        have hg := hrn.get_ns
        rw [if_neg hdns] at hg
        rw [hg]
        cases hh : ofType (recordsAt es d false) RT_NS with
        | nil => exact absurd hh hdns
        | cons _ _ => rfl

end Refine

end Resolved
