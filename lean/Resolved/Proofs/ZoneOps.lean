/-
  Zones as built by configuration: `Zone.new` followed by a sequence of `insert` /
  `insert_wildcard` calls, and the flat entry list of that sequence (mirrors `buildZone` /
  `entriesOf` of Driver/ZoneCmds.lean).
-/
import Resolved.Proofs.ZoneRepr

namespace Resolved

open Gen ZSpec

/-- one `Zone::insert` (`wild = false`) or `Zone::insert_wildcard` (`wild = true`) call. -/
structure ZoneOp where
  name : Name
  rtype : Nat
  fields : List FieldVal
  ttl : Nat
  wild : Bool
deriving Repr, DecidableEq

namespace Zone

def applyOp (z : Zone) (op : ZoneOp) : Option Zone :=
  z.insert op.name op.rtype op.fields op.ttl op.wild

/-- replay a sequence of insertions; `none` = a modelled panic. -/
def applyOps (z : Zone) : List ZoneOp → Option Zone
  | [] => some z
  | op :: ops =>
    match z.applyOp op with
    | some z' => z'.applyOps ops
    | none => none

/-- `Zone::new` followed by the insertions. -/
def build (apex : Name) (soa : Option SOA) (ops : List ZoneOp) : Option Zone :=
  (Zone.new apex soa).applyOps ops

/-- the record a zone with this SOA stores at its apex. -/
def soaRecord (s : SOA) : ZoneRecord := ⟨RT_SOA, s.toFields, s.minimum⟩

end Zone

namespace ZSpec

/-- the entry an insertion contributes (none when the name lies outside the zone). -/
def opEntry (z0 : Zone) (op : ZoneOp) : Option Entry :=
  match z0.relativeDomain op.name with
  | some rel => some { rel, wild := op.wild, zr := ⟨op.rtype, op.fields, z0.actualTtl op.ttl⟩ }
  | none => none

/-- the flat entry list of a configuration: the SOA entry first (when the zone has an SOA), then one
    entry per insertion, TTL clamped by `actual_ttl`, names outside the apex skipped. -/
def entriesOf (apex : Name) (soa : Option SOA) (ops : List ZoneOp) : List Entry :=
  (match soa with
   | some s => [{ rel := [], wild := false, zr := Zone.soaRecord s }]
   | none => []) ++ ops.filterMap (opEntry (Zone.new apex soa))

end ZSpec

namespace ZSpec

/-- `opEntry` depends on the zone only through its apex and SOA. -/
def opEntry' (apex : Name) (soa : Option SOA) (op : ZoneOp) : Option Entry :=
  opEntry { apex, soa, records := ZNode.new apex } op

end ZSpec

namespace Zone

theorem new_apex_soa (apex : Name) (soa : Option SOA) :
    (Zone.new apex soa).apex = apex ∧ (Zone.new apex soa).soa = soa := by
  unfold Zone.new
  cases soa with
  | none => exact ⟨rfl, rfl⟩
  | some s => simp only; split <;> exact ⟨rfl, rfl⟩

theorem _root_.Resolved.ZSpec.entriesOf_eq (apex : Name) (soa : Option SOA) (ops : List ZoneOp) :
    entriesOf apex soa ops =
      (match soa with
       | some s => [{ rel := [], wild := false, zr := Zone.soaRecord s }]
       | none => []) ++ ops.filterMap (opEntry' apex soa) := by
  have hf : opEntry (Zone.new apex soa) = opEntry' apex soa := by
    funext op
    obtain ⟨h1, h2⟩ := new_apex_soa apex soa
    unfold opEntry' opEntry Zone.relativeDomain Zone.actualTtl
    rw [h1, h2]
  unfold entriesOf
  rw [hf]

theorem new_records_none (apex : Name) : (Zone.new apex none).records = ZNode.new apex := rfl

theorem new_records_some (apex : Name) (s : SOA) :
    (ZNode.new apex).insertRev [] (soaRecord s) false = some (Zone.new apex (some s)).records := by
  unfold Zone.new
  simp only [ZNode.insert_eq_rev, List.reverse_nil]
  simp only [ZNode.insertRev, Bool.false_eq_true, if_false, soaRecord]

/-- `Zone::insert` in terms of the reversed-path insertion. -/
theorem insert_cases (z z' : Zone) (name : Name) (rtype : Nat) (fields : List FieldVal) (ttl : Nat)
    (wild : Bool) (h : z.insert name rtype fields ttl wild = some z') :
    z'.apex = z.apex ∧ z'.soa = z.soa ∧
    ((z.relativeDomain name = none ∧ z' = z) ∨
     (∃ rel, z.relativeDomain name = some rel ∧
        z.records.insertRev rel.reverse ⟨rtype, fields, z.actualTtl ttl⟩ wild = some z'.records)) := by
  unfold Zone.insert at h
  cases hr : z.relativeDomain name with
  | none => simp only [hr, Option.some.injEq] at h; subst h; exact ⟨rfl, rfl, Or.inl ⟨rfl, rfl⟩⟩
  | some rel =>
    simp only [hr] at h
    cases hi : z.records.insert rel ⟨rtype, fields, z.actualTtl ttl⟩ wild with
    | none => simp [hi] at h
    | some r =>
      simp only [hi, Option.some.injEq] at h
      subst h
      refine ⟨rfl, rfl, Or.inr ⟨rel, rfl, ?_⟩⟩
      rw [← ZNode.insert_eq_rev]; exact hi

/-- `Zone::insert` with the tree insertion in its structurally recursive (evaluable) form. -/
theorem insert_eq_insertRev (z : Zone) (name : Name) (rtype : Nat) (fields : List FieldVal) (ttl : Nat)
    (wild : Bool) :
    z.insert name rtype fields ttl wild =
      match z.relativeDomain name with
      | some rel =>
        match z.records.insertRev rel.reverse ⟨rtype, fields, z.actualTtl ttl⟩ wild with
        | some r => some { z with records := r }
        | none => none
      | none => some z := by
  unfold Zone.insert
  cases z.relativeDomain name with
  | none => rfl
  | some rel => simp only [ZNode.insert_eq_rev]; rfl

theorem relativeDomain_congr (z z' : Zone) (h : z'.apex = z.apex) (name : Name) :
    z'.relativeDomain name = z.relativeDomain name := by
  unfold Zone.relativeDomain; rw [h]

theorem actualTtl_congr (z z' : Zone) (h : z'.soa = z.soa) (ttl : Nat) :
    z'.actualTtl ttl = z.actualTtl ttl := by
  unfold Zone.actualTtl; rw [h]

theorem applyOps_apex_soa (ops : List ZoneOp) : ∀ (z z' : Zone), z.applyOps ops = some z' →
    z'.apex = z.apex ∧ z'.soa = z.soa := by
  induction ops with
  | nil => intro z z' h; simp only [applyOps, Option.some.injEq] at h; subst h; exact ⟨rfl, rfl⟩
  | cons op ops ih =>
    intro z z' h
    simp only [applyOps] at h
    cases ho : z.applyOp op with
    | none => simp [ho] at h
    | some z1 =>
      simp only [ho] at h
      obtain ⟨h1, h2, _⟩ := insert_cases z z1 _ _ _ _ _ ho
      obtain ⟨h3, h4⟩ := ih z1 z' h
      exact ⟨h3.trans h1, h4.trans h2⟩

theorem applyOps_append (z : Zone) (a b : List ZoneOp) :
    z.applyOps (a ++ b) = (z.applyOps a).bind (fun z' => z'.applyOps b) := by
  induction a generalizing z with
  | nil => rfl
  | cons op ops ih =>
    simp only [List.cons_append, applyOps]
    cases z.applyOp op with
    | none => rfl
    | some z1 => exact ih z1

/-- zones reachable from `Zone::new` by insertions (the sequence is recorded, oldest first). -/
inductive Reachable (apex : Name) (soa : Option SOA) : List ZoneOp → Zone → Prop
  | new : Reachable apex soa [] (Zone.new apex soa)
  | step (ops : List ZoneOp) (op : ZoneOp) (z z' : Zone) :
      Reachable apex soa ops z → z.applyOp op = some z' → Reachable apex soa (ops ++ [op]) z'

theorem reachable_iff_build (apex : Name) (soa : Option SOA) (ops : List ZoneOp) (z : Zone) :
    Reachable apex soa ops z ↔ build apex soa ops = some z := by
  constructor
  · intro h
    induction h with
    | new => rfl
    | step ops op z z' _ ho ih =>
      unfold build at ih ⊢
      rw [applyOps_append, ih]
      simp [applyOps, ho]
  · intro h
    have gen : ∀ (ops2 ops1 : List ZoneOp) (z1 : Zone), Reachable apex soa ops1 z1 →
        z1.applyOps ops2 = some z → Reachable apex soa (ops1 ++ ops2) z := by
      intro ops2
      induction ops2 with
      | nil =>
        intro ops1 z1 hr ha
        simp only [applyOps, Option.some.injEq] at ha; subst ha; simpa using hr
      | cons op ops2 ih =>
        intro ops1 z1 hr ha
        simp only [applyOps] at ha
        cases h2 : z1.applyOp op with
        | none => simp [h2] at ha
        | some z2 =>
          simp only [h2] at ha
          have := ih (ops1 ++ [op]) z2 (Reachable.step ops1 op z1 z2 hr h2) ha
          simpa using this
    have := gen ops [] (Zone.new apex soa) Reachable.new h
    simpa using this

/-! ### the apex record map under insertions -/

theorem _root_.Resolved.ZNode.insertRev_root_this (zr : ZoneRecord) (wild : Bool) (r : List Label)
    (root root' : ZNode) (hi : root.insertRev r zr wild = some root') :
    root'.this = if r = [] ∧ wild = false then root.this.insertRecord zr else root.this := by
  obtain ⟨n', hd, hv⟩ := ZNode.insertRev_descend_on zr wild r root root' [] hi List.nil_prefix
  simp only [ZNode.descend_nil, Option.some.injEq] at hd
  subst hd
  have h1 : root'.this = (ZNode.view root').1 := rfl
  rw [h1, hv]
  have hb : ZNode.baseView root [] = ZNode.view root := rfl
  rw [hb]
  by_cases hr : r = []
  · subst hr
    cases wild <;> simp [ZNode.updView, ZNode.view]
  · have : ¬ ([] : List Label) = r := fun e => hr e.symm
    simp [this, hr, ZNode.view]

/-- inserting records of types other than `k` leaves the apex's `k` record set alone, and the apex
    record map keeps distinct keys. -/
theorem applyOps_apex_get (k : Nat) (ops : List ZoneOp) (hops : ∀ op ∈ ops, op.rtype ≠ k) :
    ∀ (z z' : Zone), z.applyOps ops = some z' → z.records.this.keys.Nodup →
      z'.records.this.keys.Nodup ∧ z'.records.this.get k = z.records.this.get k := by
  induction ops with
  | nil => intro z z' h hn; simp only [applyOps, Option.some.injEq] at h; subst h; exact ⟨hn, rfl⟩
  | cons op ops ih =>
    intro z z' h hn
    simp only [applyOps] at h
    cases ho : z.applyOp op with
    | none => simp [ho] at h
    | some z1 =>
      simp only [ho] at h
      have hk : op.rtype ≠ k := hops op (List.mem_cons_self)
      have step : z1.records.this.keys.Nodup ∧ z1.records.this.get k = z.records.this.get k := by
        obtain ⟨_, _, hc⟩ := insert_cases z z1 _ _ _ _ _ ho
        rcases hc with ⟨_, rfl⟩ | ⟨rel, _, hi⟩
        · exact ⟨hn, rfl⟩
        · rw [ZNode.insertRev_root_this _ _ _ _ _ hi]
          split
          · refine ⟨RecMap.keys_nodup_insertRecord _ _ hn, ?_⟩
            rw [RecMap.get_insertRecord]; simp [hk]
          · exact ⟨hn, rfl⟩
      obtain ⟨h1, h2⟩ := ih (fun o ho' => hops o (List.mem_cons_of_mem _ ho')) z1 z' h step.1
      exact ⟨h1, h2.trans step.2⟩

theorem new_apex_this (apex : Name) (soa : Option SOA) :
    (Zone.new apex soa).records.this = match soa with | some s => [(RT_SOA, [soaRecord s])] | none => [] := by
  cases soa with
  | none => rfl
  | some s =>
    have := new_records_some apex s
    have h2 := ZNode.insertRev_root_this _ _ _ _ _ this
    simpa [RecMap.insertRecord, RecMap.get, RecMap.set, soaRecord] using h2

end Zone

end Resolved
