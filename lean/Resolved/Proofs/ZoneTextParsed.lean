/-
  C13, the converse side: every zone OBTAINED BY PARSING (`Zone::deserialise t = Ok z`) satisfies
  the hypotheses of the round-trip theorem `C13_roundtrip` — it is built through the insertion API,
  holds no stray SOA-typed record, and all its names / RDATA / TTLs are of the kind the serialiser
  writes back faithfully — except for the `NoStar` clause (open finding C13-K1).
  All names are prefixed `zp_`.
-/
import Resolved.Proofs.ZoneTextTree

namespace Resolved.ZoneText

open Resolved Resolved.IpText Gen ZSpec

/-! ## numbers: what `u32::from_str` / `u16::from_str` return fits the type -/

theorem zp_parseUnsigned_le {max : Nat} {s : List Char} {v : Nat} (h : parseUnsigned max s = some v) :
    v ≤ max := by
  unfold parseUnsigned at h
  split at h
  · cases h
  · split at h
    · cases h
    · split at h
      · split at h
        · cases h; assumption
        · cases h
      · cases h
  · simp only at h
    split at h
    · split at h
      · cases h; assumption
      · cases h
    · cases h

theorem zp_parseU32_lt {s : List Char} {v : Nat} (h : parseU32 s = some v) : v < 4294967296 := by
  have := zp_parseUnsigned_le h; omega

theorem zp_parseU16_lt {s : List Char} {v : Nat} (h : parseU16 s = some v) : v < 65536 := by
  have := zp_parseUnsigned_le h; omega

/-! ## addresses: what `Ipv4Addr::from_str` / `Ipv6Addr::from_str` return is an address -/

open Ip in
theorem zp_readNumber_le {radix m : Nat} {z : Bool} {mx : Nat} {s : List UInt8} {g : Nat}
    {rest : List UInt8} (h : readNumber radix m z mx s = some (g, rest)) : g ≤ mx := by
  unfold readNumber at h
  simp only at h
  split at h
  · cases h
  · split at h
    · cases h
    · split at h
      · cases h
      · split at h
        · rename_i hle
          simp only [Option.some.injEq, Prod.mk.injEq] at h
          rw [← h.1]; exact hle
        · cases h

open Ip in
theorem zp_readSeparator_some {α : Type} {sep : UInt8} {i : Nat} {inner : List UInt8 → Option (α × List UInt8)}
    {s : List UInt8} {r : α × List UInt8} (h : readSeparator sep i inner s = some r) :
    ∃ s0, inner s0 = some r := by
  unfold readSeparator at h
  split at h
  · split at h
    · exact ⟨_, h⟩
    · cases h
  · exact ⟨_, h⟩

open Ip in
theorem zp_readIpv4Loop_bound : ∀ (n i : Nat) (s : List UInt8) (gs : List Nat) (s' : List UInt8),
    readIpv4Loop n i s = some (gs, s') → gs.length = n ∧ ∀ g ∈ gs, g ≤ 255
  | 0, i, s, gs, s', h => by
    simp only [readIpv4Loop, Option.some.injEq, Prod.mk.injEq] at h
    rw [← h.1]; simp
  | n + 1, i, s, gs, s', h => by
    simp only [readIpv4Loop] at h
    split at h
    · cases h
    · rename_i g s1 hsep
      split at h
      · cases h
      · rename_i gs1 s2 hrec
        simp only [Option.some.injEq, Prod.mk.injEq] at h
        obtain ⟨hl, hb⟩ := zp_readIpv4Loop_bound n (i + 1) s1 gs1 s2 hrec
        obtain ⟨s0, h0⟩ := zp_readSeparator_some hsep
        have hg := zp_readNumber_le h0
        rw [← h.1]
        refine ⟨by simp [hl], ?_⟩
        intro x hx
        simp only [List.mem_cons] at hx
        rcases hx with rfl | hx
        · exact hg
        · exact hb x hx

open Ip in
theorem zp_readIpv4Addr_lt {s : List UInt8} {a : Nat} {rest : List UInt8}
    (h : readIpv4Addr s = some (a, rest)) : a < 4294967296 := by
  unfold readIpv4Addr at h
  split at h
  · rename_i gs s' hl
    simp only [Option.some.injEq, Prod.mk.injEq] at h
    obtain ⟨hlen, hb⟩ := zp_readIpv4Loop_bound 4 0 s gs s' hl
    rw [← h.1]
    match gs, hlen, hb with
    | [a, b, c, d], _, hb =>
      have ha := hb a (by simp)
      have hb' := hb b (by simp)
      have hc := hb c (by simp)
      have hd := hb d (by simp)
      simp only [octetsToU32]
      omega
  · cases h

theorem zp_ipv4FromStr_lt {s : List Char} {a : Nat} (h : ipv4FromStr s = some a) : a < 4294967296 := by
  unfold ipv4FromStr at h
  simp only at h
  split at h
  · cases h
  · split at h
    · rename_i a' hr
      cases h
      exact zp_readIpv4Addr_lt hr
    · cases h

open Ip in
/-- `read_groups`: at most `n` groups, each a `u16`. -/
theorem zp_readGroups_bound (limit : Nat) : ∀ (n i : Nat) (s : List UInt8), limit ≤ i + n →
    (readGroups limit n i s).1.length ≤ n ∧ ∀ g ∈ (readGroups limit n i s).1, g < 65536
  | 0, i, s, _ => by simp [readGroups]
  | n + 1, i, s, hle => by
    simp only [readGroups]
    split
    · rename_i a s' hv4
      split at hv4
      · rename_i hlt
        obtain ⟨s0, h0⟩ := zp_readSeparator_some hv4
        have ha := zp_readIpv4Addr_lt h0
        refine ⟨by simp; omega, ?_⟩
        intro g hg
        simp only [List.mem_cons, List.not_mem_nil, or_false] at hg
        rcases hg with rfl | rfl <;> omega
      · cases hv4
    · split
      · rename_i g s' hsep
        obtain ⟨s0, h0⟩ := zp_readSeparator_some hsep
        have hg := zp_readNumber_le h0
        obtain ⟨hl, hb⟩ := zp_readGroups_bound limit n (i + 1) s' (by omega)
        refine ⟨by simp; omega, ?_⟩
        intro x hx
        simp only [List.mem_cons] at hx
        rcases hx with rfl | hx
        · omega
        · exact hb x hx
      · simp

open Ip in
theorem zp_readIpv6Addr_wf {s : List UInt8} {gs : List Nat} {rest : List UInt8}
    (h : readIpv6Addr s = some (gs, rest)) : gs.length = 8 ∧ ∀ g ∈ gs, g < 65536 := by
  unfold readIpv6Addr at h
  obtain ⟨hl1, hb1⟩ := zp_readGroups_bound 8 8 0 s (by omega)
  generalize readGroups 8 8 0 s = r1 at h hl1 hb1
  obtain ⟨head, headV4, s1⟩ := r1
  simp only at h hl1 hb1
  split at h
  · rename_i h8
    simp only [Option.some.injEq, Prod.mk.injEq] at h
    rw [← h.1]; exact ⟨h8, hb1⟩
  · rename_i hne
    split at h
    · cases h
    · split at h
      · cases h
      · rename_i s2 _
        split at h
        · cases h
        · rename_i s3 _
          obtain ⟨hl2, hb2⟩ := zp_readGroups_bound (8 - (head.length + 1)) (8 - (head.length + 1)) 0 s3 (by omega)
          generalize readGroups (8 - (head.length + 1)) (8 - (head.length + 1)) 0 s3 = r2 at h hl2 hb2
          obtain ⟨tail, f, s4⟩ := r2
          simp only [Option.some.injEq, Prod.mk.injEq] at h hl2 hb2
          rw [← h.1]
          refine ⟨by simp; omega, ?_⟩
          intro g hg
          simp only [List.mem_append, List.mem_replicate] at hg
          rcases hg with (hg | hg) | hg
          · exact hb1 g hg
          · omega
          · exact hb2 g hg

theorem zp_ipv6FromStr_wf {s : List Char} {gs : List Nat} (h : ipv6FromStr s = some gs) :
    gs.length = 8 ∧ ∀ g ∈ gs, g < 65536 := by
  unfold ipv6FromStr at h
  split at h
  · rename_i gs' hr
    cases h
    exact zp_readIpv6Addr_wf hr
  · cases h

/-! ## names: every name the parser produces is a text name -/

theorem zp_splitDot_mem : ∀ (s : List UInt8), ∀ c ∈ Name.splitDot s, ∀ b ∈ c, b ∈ s ∧ b ≠ 46
  | [], c, hc, b, hb => by
    simp only [Name.splitDot, List.mem_singleton] at hc
    subst hc; simp at hb
  | x :: xs, c, hc, b, hb => by
    have ih := zp_splitDot_mem xs
    simp only [Name.splitDot] at hc
    split at hc
    · simp only [List.mem_cons] at hc
      rcases hc with rfl | hc
      · simp at hb
      · have := ih c hc b hb
        exact ⟨List.mem_cons_of_mem _ this.1, this.2⟩
    · rename_i hx
      split at hc
      · simp only [List.mem_singleton] at hc
        subst hc
        simp only [List.mem_singleton] at hb
        subst hb
        exact ⟨by simp, hx⟩
      · rename_i c0 cs heq
        simp only [List.mem_cons] at hc
        rcases hc with rfl | hc
        · simp only [List.mem_cons] at hb
          rcases hb with rfl | hb
          · exact ⟨by simp, hx⟩
          · have := ih c0 (by rw [heq]; simp) b hb
            exact ⟨List.mem_cons_of_mem _ this.1, this.2⟩
        · have := ih c (by rw [heq]; simp [hc]) b hb
          exact ⟨List.mem_cons_of_mem _ this.1, this.2⟩

theorem zp_chunks_labels : ∀ (cs : List (List UInt8)) (ls : List Label),
    Name.dottedChunksToLabels cs = some ls → ∀ l ∈ ls, ∃ c ∈ cs, Label.tryFrom c = some l
  | [], ls, h, l, hl => by
    simp only [Name.dottedChunksToLabels, Option.some.injEq] at h
    subst h; simp at hl
  | [c], ls, h, l, hl => by
    simp only [Name.dottedChunksToLabels, Option.map_eq_some_iff] at h
    obtain ⟨l0, h0, rfl⟩ := h
    simp only [List.mem_singleton] at hl
    subst hl
    exact ⟨c, by simp, h0⟩
  | c :: c2 :: cs, ls, h, l, hl => by
    simp only [Name.dottedChunksToLabels] at h
    split at h
    · cases h
    · split at h
      · cases h
      · rename_i l0 h0
        simp only [Option.map_eq_some_iff] at h
        obtain ⟨ls0, hrec, rfl⟩ := h
        simp only [List.mem_cons] at hl
        rcases hl with rfl | hl
        · exact ⟨c, by simp, h0⟩
        · obtain ⟨c', hc', ht⟩ := zp_chunks_labels (c2 :: cs) ls0 hrec l hl
          exact ⟨c', List.mem_cons_of_mem _ hc', ht⟩

theorem zp_root_textName : TextName Name.root := by
  refine ⟨by decide, ?_⟩
  intro l hl
  simp [Name.root] at hl
  subst hl
  exact ⟨by simp, by simp⟩

theorem zp_lowerByte_props (b : UInt8) (h1 : b.toNat < 128) (h2 : b ≠ 46) :
    (lowerByte b).toNat < 128 ∧ lowerByte b ≠ 46 := by
  unfold lowerByte
  split
  · rename_i hu
    have : (UInt8.ofNat (b.toNat + 32)).toNat = b.toNat + 32 := by simp; omega
    refine ⟨by omega, ?_⟩
    intro he
    have := congrArg UInt8.toNat he
    simp at this
    omega
  · exact ⟨h1, h2⟩

/-- **`from_dotted_string` of an ASCII string is a text name**: labels are the chunks between the
    dots (so they hold no `.`: an escaped dot `\.` in the source splits the label like a bare one,
    `C11_K2_escaped_dot_splits_label`), lower-cased, at most 63 octets each. -/
theorem zp_fromDotted_text {s : List UInt8} {n : Name} (hs : ∀ b ∈ s, b.toNat < 128)
    (h : Name.fromDotted s = some n) : TextName n := by
  unfold Name.fromDotted at h
  split at h
  · cases h; exact zp_root_textName
  · split at h
    · cases h
    · rename_i labels hch
      have hlab := ZNode.fromLabels_labels h
      refine ⟨by rw [hlab]; exact h, ?_⟩
      intro l hl
      rw [hlab] at hl
      obtain ⟨c, hc, ht⟩ := zp_chunks_labels _ _ hch l hl
      obtain ⟨rfl, hlen, -⟩ := Label.tryFrom_some ht
      refine ⟨by simpa using hlen, ?_⟩
      intro b hb
      simp only [List.mem_map] at hb
      obtain ⟨a, ha, rfl⟩ := hb
      obtain ⟨hmem, hdot⟩ := zp_splitDot_mem s c hc a ha
      have := zp_lowerByte_props a (hs a hmem) hdot
      exact ⟨this.1, this.2, lowerByte_not_upper a⟩

theorem zp_fromRelativeDotted_text {o : Name} {s : List UInt8} {n : Name} (ho : TextName o)
    (hs : ∀ b ∈ s, b.toNat < 128) (h : Name.fromRelativeDotted o s = some n) : TextName n := by
  unfold Name.fromRelativeDotted at h
  have hod := toDotted_ascii ho
  split at h
  · cases h; exact ho
  · split at h
    · exact zp_fromDotted_text hs h
    · simp only at h
      split at h
      · refine zp_fromDotted_text ?_ h
        intro b hb
        simp only [List.mem_append] at hb
        rcases hb with hb | hb
        · exact hs b hb
        · exact hod b hb
      · refine zp_fromDotted_text ?_ h
        intro b hb
        simp only [List.mem_append, List.mem_singleton] at hb
        rcases hb with (hb | hb) | hb
        · exact hs b hb
        · subst hb; decide
        · exact hod b hb

theorem zp_charAsU8_ascii {c : Char} (h : isAscii c = true) : (charAsU8 c).toNat < 128 := by
  unfold isAscii at h
  unfold charAsU8
  simp only [decide_eq_true_eq] at h
  simp only [UInt8.toNat_ofNat']
  omega

/-- the origin in force is a text name (or there is none). -/
def zp_OriginOK (o : Option Name) : Prop := ∀ on, o = some on → TextName on

theorem zp_map_charAsU8_ascii {s : List Char} (h : s.all isAscii = true) :
    ∀ b ∈ s.map charAsU8, b.toNat < 128 := by
  intro b hb
  simp only [List.mem_map] at hb
  obtain ⟨c, hc, rfl⟩ := hb
  exact zp_charAsU8_ascii (List.all_eq_true.mp h c hc)

/-- **`parse_domain` returns text names only.** -/
theorem zp_parseDomain_text {o : Option Name} (ho : zp_OriginOK o) {s : List Char} {n : Name}
    (h : parseDomain o s = .ok n) : TextName n := by
  unfold parseDomain at h
  split at h
  · cases h
  · split at h
    · cases h
    · rename_i hasc
      have hasc' : s.all isAscii = true := by simpa using hasc
      have hbytes := zp_map_charAsU8_ascii hasc'
      split at h
      · split at h
        · rename_i name
          cases h; exact ho _ rfl
        · cases h
      · split at h
        · cases h
        · split at h
          · split at h
            · rename_i d hd
              cases h; exact zp_fromDotted_text hbytes hd
            · cases h
          · split at h
            · rename_i name
              split at h
              · rename_i d hd
                cases h; exact zp_fromRelativeDotted_text (ho _ rfl) hbytes hd
              · cases h
            · cases h

/-- the owner of a line is a text name, wildcard or not. -/
def zp_MwOK : MaybeWildcard → Prop
  | .normal n => TextName n
  | .wildcard n => TextName n

theorem zp_parseDomainOrWildcard_text {o : Option Name} (ho : zp_OriginOK o) {s : List Char}
    {w : MaybeWildcard} (h : parseDomainOrWildcard o s = .ok w) : zp_MwOK w := by
  have hnormal : ∀ w, (match parseDomain o s with
      | .ok name => (Except.ok (MaybeWildcard.normal name) : Except Error MaybeWildcard)
      | .error e => .error e) = .ok w → zp_MwOK w := by
    intro w hw
    split at hw
    · rename_i name hn
      cases hw
      exact zp_parseDomain_text ho hn
    · cases hw
  unfold parseDomainOrWildcard at h
  simp only at h
  split at h
  · cases h
  · split at h
    · split at h
      · cases h; exact ho _ rfl
      · cases h
    · split at h
      · split at h
        · split at h
          · cases h; exact zp_root_textName
          · split at h
            · rename_i name hn
              cases h
              exact zp_parseDomain_text ho hn
            · cases h
        · exact hnormal w h
      · exact hnormal w h

/-! ## RDATA: what `try_parse_rtype_with_data` returns fits its type -/

/-- RDATA the parser builds: one of the 17 non-SOA types laid out as the serialiser expects
    (`RdataOK`), or a SOA with text names and `u32` numbers. -/
def zp_RdOK (rd : RData) : Prop :=
  RdataOK rd.rtype rd.fields ∨ (rd.rtype = 6 ∧ ∃ s : SOA, rd.fields = s.toFields ∧ SoaOK s)

theorem zp_optName_text {o : Option Name} (ho : zp_OriginOK o) {s : List Char} {n : Name}
    (h : optName o s = some n) : TextName n := by
  unfold optName at h
  split at h
  · rename_i n' hn
    cases h
    exact zp_parseDomain_text ho hn
  · cases h

set_option hygiene false in
/-- closes `zp_RdOK rd` from `h : <one arm of try_parse_rtype_with_data> = some rd`. -/
local macro "zp_rd_arm" : tactic => `(tactic| (
  repeat' (split at h)
  all_goals first
    | (cases h; done)
    | (simp only [Option.map_eq_some_iff] at h
       obtain ⟨x, hx, rfl⟩ := h
       unfold zp_RdOK
       dsimp only
       first
         | exact Or.inl (.a _ (zp_ipv4FromStr_lt hx))
         | exact Or.inl (.oneName _ (by decide) _ (zp_optName_text ho hx))
         | exact Or.inl (.aaaa _ (zp_ipv6FromStr_wf hx)))
    | (cases h; unfold zp_RdOK; dsimp only; exact Or.inl (.octets _ (by decide) _))
    | (cases h
       exact Or.inl (.minfo _ _ (zp_optName_text ho (by assumption)) (zp_optName_text ho (by assumption))))
    | (cases h
       exact Or.inl (.mx _ _ (zp_parseU16_lt (by assumption)) (zp_optName_text ho (by assumption))))
    | (cases h
       exact Or.inl (.srv _ _ _ _ (zp_parseU16_lt (by assumption)) (zp_parseU16_lt (by assumption))
         (zp_parseU16_lt (by assumption)) (zp_optName_text ho (by assumption))))
    | (cases h
       rename_i mname rname serial refresh retry expire minimum h1 h2 h3 h4 h5 h6 h7
       exact Or.inr ⟨rfl, ⟨mname, rname, serial, refresh, retry, expire, minimum⟩, rfl,
         zp_optName_text ho h1, zp_optName_text ho h2, zp_parseU32_lt h3, zp_parseU32_lt h4,
         zp_parseU32_lt h5, zp_parseU32_lt h6, zp_parseU32_lt h7⟩)))

/-- **`try_parse_rtype_with_data` returns RDATA that fits its type**: names are text names, numbers
    fit their width, addresses are addresses; `TYPE<n>` for an `n` outside the 18 named types is
    not accepted at all. -/
theorem zp_tryParse_ok {o : Option Name} (ho : zp_OriginOK o) {tokens : List Token} {rd : RData}
    (h : tryParseRtypeWithData o tokens = some rd) : zp_RdOK rd := by
  unfold tryParseRtypeWithData at h
  split at h
  · cases h
  · rename_i t0 args
    split at h
    · cases h
    · rename_i code hcode
      simp only at h
      by_cases c1 : code = 1
      · rw [if_pos c1] at h; zp_rd_arm
      rw [if_neg c1] at h
      by_cases c2 : code = 2
      · rw [if_pos c2] at h; zp_rd_arm
      rw [if_neg c2] at h
      by_cases c3 : code = 3
      · rw [if_pos c3] at h; zp_rd_arm
      rw [if_neg c3] at h
      by_cases c4 : code = 4
      · rw [if_pos c4] at h; zp_rd_arm
      rw [if_neg c4] at h
      by_cases c5 : code = 5
      · rw [if_pos c5] at h; zp_rd_arm
      rw [if_neg c5] at h
      by_cases c6 : code = 6
      · rw [if_pos c6] at h; zp_rd_arm
      rw [if_neg c6] at h
      by_cases c7 : code = 7
      · rw [if_pos c7] at h; zp_rd_arm
      rw [if_neg c7] at h
      by_cases c8 : code = 8
      · rw [if_pos c8] at h; zp_rd_arm
      rw [if_neg c8] at h
      by_cases c9 : code = 9
      · rw [if_pos c9] at h; zp_rd_arm
      rw [if_neg c9] at h
      by_cases c10 : code = 10
      · rw [if_pos c10] at h; zp_rd_arm
      rw [if_neg c10] at h
      by_cases c11 : code = 11
      · rw [if_pos c11] at h; zp_rd_arm
      rw [if_neg c11] at h
      by_cases c12 : code = 12
      · rw [if_pos c12] at h; zp_rd_arm
      rw [if_neg c12] at h
      by_cases c13 : code = 13
      · rw [if_pos c13] at h; zp_rd_arm
      rw [if_neg c13] at h
      by_cases c14 : code = 14
      · rw [if_pos c14] at h; zp_rd_arm
      rw [if_neg c14] at h
      by_cases c15 : code = 15
      · rw [if_pos c15] at h; zp_rd_arm
      rw [if_neg c15] at h
      by_cases c16 : code = 16
      · rw [if_pos c16] at h; zp_rd_arm
      rw [if_neg c16] at h
      by_cases c28 : code = 28
      · rw [if_pos c28] at h; zp_rd_arm
      rw [if_neg c28] at h
      by_cases c33 : code = 33
      · rw [if_pos c33] at h; zp_rd_arm
      rw [if_neg c33] at h
      cases h

/-! ## entries: what `parse_entry` returns -/

/-- a record as the parser hands it to `Zone::deserialise`: owner a text name, TTL a `u32`, RDATA
    fitting its type (`RdataOK`) or a well-formed SOA. -/
def zp_RROK (rr : RR) : Prop :=
  TextName rr.name ∧ rr.ttl < 4294967296 ∧
  (RdataOK rr.rtype rr.fields ∨ (rr.rtype = 6 ∧ ∃ s : SOA, rr.fields = s.toFields ∧ SoaOK s))

def zp_EntryOK : Entry → Prop
  | .origin n => TextName n
  | .include _ _ => True
  | .rr rr => zp_RROK rr
  | .wildcardRR rr => zp_RROK rr

def zp_PdOK (pd : Option MaybeWildcard) : Prop := ∀ w, pd = some w → zp_MwOK w
def zp_PtOK (pt : Option Nat) : Prop := ∀ t, pt = some t → t < 4294967296

theorem zp_parseU32E_lt {s : List Char} {v : Nat} (h : parseU32E s = .ok v) : v < 4294967296 := by
  unfold parseU32E at h
  split at h
  · rename_i v' hv
    cases h
    exact zp_parseU32_lt hv
  · cases h

/-- the TTL `to_rr` settles on (the SOA's MINIMUM for a SOA) is a `u32`. -/
theorem zp_toRr_ttl {rd : RData} (hrd : zp_RdOK rd) {ttl : Nat} (ht : ttl < 4294967296) :
    (match rd.rtype, rd.fields with
      | 6, [_, _, _, _, _, _, .u32 minimum] => minimum
      | _, _ => ttl) < 4294967296 := by
  split
  · rename_i minimum h6 hf
    rcases hrd with hrd | ⟨-, s, hs, hok⟩
    · exact absurd h6 hrd.not_soa
    · rw [hs] at hf
      simp only [SOA.toFields, List.cons.injEq, FieldVal.u32.injEq, and_true] at hf
      rw [← hf.2.2.2.2.2.2]
      exact hok.2.2.2.2.2.2
  · exact ht

theorem zp_toRr_ok {w : MaybeWildcard} {rd : RData} {ttl : Nat} (hw : zp_MwOK w) (hrd : zp_RdOK rd)
    (ht : ttl < 4294967296) : zp_EntryOK (toRr w rd ttl) := by
  have httl := zp_toRr_ttl hrd ht
  unfold toRr
  cases w with
  | normal name => exact ⟨hw, httl, hrd⟩
  | wildcard name => exact ⟨hw, httl, hrd⟩

theorem zp_withInheritedTtl_ok {w : MaybeWildcard} {rd : RData} {pt : Option Nat} (hw : zp_MwOK w)
    (hrd : zp_RdOK rd) (hpt : zp_PtOK pt) {e : Entry} (h : withInheritedTtl w rd pt = .ok e) :
    zp_EntryOK e := by
  unfold withInheritedTtl at h
  split at h
  · rename_i ttl
    cases h
    exact zp_toRr_ok hw hrd (hpt _ rfl)
  · split at h
    · cases h
      exact zp_toRr_ok hw hrd (by decide)
    · cases h

set_option hygiene false in
/-- closes `zp_EntryOK e` from `he : <one arm of parse_rr> = .ok e`. -/
local macro "zp_rr_arm" : tactic => `(tactic| (
  repeat' (split at he)
  all_goals first
    | (cases he; done)
    | (refine zp_withInheritedTtl_ok ?_ (zp_tryParse_ok ho (by assumption)) hpt he
       first
         | exact zp_parseDomainOrWildcard_text ho (by assumption)
         | exact hpd _ rfl)
    | (cases he
       refine zp_toRr_ok ?_ (zp_tryParse_ok ho (by assumption)) ?_
       · first
           | exact zp_parseDomainOrWildcard_text ho (by assumption)
           | exact hpd _ rfl
       · first
           | exact zp_parseU32E_lt (by assumption)
           | exact hpt _ rfl)))

theorem zp_parseRr4_ok {o : Option Name} (ho : zp_OriginOK o) {tokens : List Token}
    {r : Except Error Entry} (h : parseRr4 o tokens = some r) {e : Entry} (he : r = .ok e) :
    zp_EntryOK e := by
  have hpd : zp_PdOK none := fun _ h => by cases h
  have hpt : zp_PtOK none := fun _ h => by cases h
  unfold parseRr4 at h
  split at h
  · split at h
    · cases h
    · simp only [Option.some.injEq] at h
      subst h
      zp_rr_arm
  · cases h

theorem zp_parseRr3_ok {o : Option Name} (ho : zp_OriginOK o) {pd : Option MaybeWildcard}
    (hpd : zp_PdOK pd) {pt : Option Nat} (hpt : zp_PtOK pt) {tokens : List Token}
    {r : Except Error Entry} (h : parseRr3 o pd pt tokens = some r) {e : Entry} (he : r = .ok e) :
    zp_EntryOK e := by
  unfold parseRr3 at h
  split at h
  · split at h
    · cases h
    · simp only [Option.some.injEq] at h
      subst h
      zp_rr_arm
  · cases h

theorem zp_parseRr2_ok {o : Option Name} (ho : zp_OriginOK o) {pd : Option MaybeWildcard}
    (hpd : zp_PdOK pd) {pt : Option Nat} (hpt : zp_PtOK pt) {tokens : List Token}
    {r : Except Error Entry} (h : parseRr2 o pd pt tokens = some r) {e : Entry} (he : r = .ok e) :
    zp_EntryOK e := by
  unfold parseRr2 at h
  split at h
  · split at h
    · cases h
    · simp only [Option.some.injEq] at h
      subst h
      zp_rr_arm
  · cases h

theorem zp_parseRr1_ok {o : Option Name} (ho : zp_OriginOK o) {pd : Option MaybeWildcard}
    (hpd : zp_PdOK pd) {pt : Option Nat} (hpt : zp_PtOK pt) {tokens : List Token}
    {r : Except Error Entry} (h : parseRr1 o pd pt tokens = some r) {e : Entry} (he : r = .ok e) :
    zp_EntryOK e := by
  unfold parseRr1 at h
  split at h
  · split at h
    · cases h
    · simp only [Option.some.injEq] at h
      subst h
      zp_rr_arm
  · cases h

/-- **`parse_rr` returns well-formed records only.** -/
theorem zp_parseRr_ok {o : Option Name} (ho : zp_OriginOK o) {pd : Option MaybeWildcard}
    (hpd : zp_PdOK pd) {pt : Option Nat} (hpt : zp_PtOK pt) {tokens : List Token} {e : Entry}
    (h : parseRr o pd pt tokens = .ok e) : zp_EntryOK e := by
  unfold parseRr at h
  split at h
  · cases h
  · split at h
    · rename_i r hr; exact zp_parseRr4_ok ho hr h
    · split at h
      · rename_i r hr; exact zp_parseRr3_ok ho hpd hpt hr h
      · split at h
        · rename_i r hr; exact zp_parseRr2_ok ho hpd hpt hr h
        · split at h
          · rename_i r hr; exact zp_parseRr1_ok ho hpd hpt hr h
          · cases h

theorem zp_parseOrigin_ok {o : Option Name} (ho : zp_OriginOK o) {tokens : List Token} {e : Entry}
    (h : parseOrigin o tokens = .ok e) : zp_EntryOK e := by
  unfold parseOrigin at h
  split at h
  · split at h
    · cases h
    · split at h
      · rename_i name hn
        cases h
        exact zp_parseDomain_text ho hn
      · cases h
  · cases h

theorem zp_parseInclude_ok {o : Option Name} {tokens : List Token} {e : Entry}
    (h : parseInclude o tokens = .ok e) : zp_EntryOK e := by
  rcases parseInclude_shape o tokens with ⟨e', he⟩ | ⟨p, oo, he⟩
  · rw [he] at h; cases h
  · rw [he] at h; cases h; trivial

/-- **`parse_entry` returns well-formed entries only**, whatever the text. -/
theorem zp_parseEntry_ok : ∀ (fuel : Nat) {o : Option Name} {pd : Option MaybeWildcard} {pt : Option Nat}
    {s : List Char} {e : Entry} {rest : List Char}, zp_OriginOK o → zp_PdOK pd → zp_PtOK pt →
    parseEntry fuel o pd pt s = .ok (some e) rest → zp_EntryOK e
  | 0, _, _, _, _, _, _, _, _, _, h => by simp [parseEntry] at h
  | fuel + 1, o, pd, pt, s, e, rest, ho, hpd, hpt, h => by
    simp only [parseEntry] at h
    split at h
    · cases h
    · rename_i tokens rest' htok
      split at h
      · split at h
        · cases h
        · exact zp_parseEntry_ok fuel ho hpd hpt h
      · rename_i t0 ts
        split at h
        · rename_i e' hr
          simp only [PEResult.ok.injEq, Option.some.injEq] at h
          obtain ⟨rfl, -⟩ := h
          split at hr
          · exact zp_parseOrigin_ok ho hr
          · split at hr
            · exact zp_parseInclude_ok hr
            · exact zp_parseRr_ok ho hpd hpt hr
        · cases h

/-! ## the entry loop keeps its local state well formed -/

/-- invariant of the local variables of `Zone::deserialise`. -/
structure zp_StOK (st : DState) : Prop where
  origin : zp_OriginOK st.origin
  pd : zp_PdOK st.previousDomain
  pt : zp_PtOK st.previousTtl
  rrs : ∀ rr ∈ st.rrs, TextName rr.name ∧ rr.ttl < 4294967296 ∧ RdataOK rr.rtype rr.fields
  wild : ∀ rr ∈ st.wildcardRrs, TextName rr.name ∧ rr.ttl < 4294967296 ∧ RdataOK rr.rtype rr.fields
  soa : ∀ a s, st.apexAndSoa = some (a, s) → TextName a ∧ SoaOK s

theorem zp_stOK_init : zp_StOK {} :=
  ⟨fun _ h => (by cases h), fun _ h => (by cases h), fun _ h => (by cases h),
   fun _ h => (by simp at h), fun _ h => (by simp at h), fun _ _ h => (by cases h)⟩

theorem zp_soaOfRR_of_fields {rr : RR} {s : SOA} (h6 : rr.rtype = 6) (hf : rr.fields = s.toFields) :
    soaOfRR rr = some s := by
  obtain ⟨name, rtype, fields, rclass, ttl⟩ := rr
  simp only at h6 hf
  subst h6; subst hf
  simp [soaOfRR, SOA.toFields]

theorem zp_soaOfRR_some {rr : RR} (h : zp_RROK rr) {soa : SOA} (hs : soaOfRR rr = some soa) : SoaOK soa := by
  rcases h.2.2 with hrd | ⟨h6, s, hf, hok⟩
  · rw [soaOfRR_none_of_ne hrd.not_soa] at hs; cases hs
  · rw [zp_soaOfRR_of_fields h6 hf] at hs
    cases hs; exact hok

theorem zp_soaOfRR_none {rr : RR} (h : zp_RROK rr) (hs : soaOfRR rr = none) : RdataOK rr.rtype rr.fields := by
  rcases h.2.2 with hrd | ⟨h6, s, hf, hok⟩
  · exact hrd
  · rw [zp_soaOfRR_of_fields h6 hf] at hs; cases hs

theorem zp_not_soa {rr : RR} (h : zp_RROK rr) (hs : (rr.rtype == RT_SOA) = false) :
    RdataOK rr.rtype rr.fields := by
  rcases h.2.2 with hrd | ⟨h6, -⟩
  · exact hrd
  · rw [h6] at hs; cases hs

theorem zp_entryStep_stop {st : DState} {e : Entry} {rest : List Char} {r : Except Error DState}
    (h : entryStep st e rest = .stop r) : ∃ err, r = .error err := by
  unfold entryStep at h
  cases e with
  | origin name => cases h
  | «include» p oo => cases h; exact ⟨_, rfl⟩
  | rr rr =>
    simp only at h
    split at h
    · split at h
      · cases h; exact ⟨_, rfl⟩
      · cases h
    · cases h
  | wildcardRR rr =>
    simp only at h
    split at h
    · cases h; exact ⟨_, rfl⟩
    · cases h

theorem zp_entryStep_ok {st st' : DState} {e : Entry} {rest rest' : List Char} (hst : zp_StOK st)
    (he : zp_EntryOK e) (h : entryStep st e rest = .cont st' rest') : zp_StOK st' := by
  unfold entryStep at h
  cases e with
  | origin name =>
    cases h
    exact ⟨fun on h => by cases h; exact he, hst.pd, hst.pt, hst.rrs, hst.wild, hst.soa⟩
  | «include» p oo => cases h
  | rr rr =>
    have he' : zp_RROK rr := he
    have hpd : zp_PdOK (some (MaybeWildcard.normal rr.name)) := fun w hw => by cases hw; exact he'.1
    have hpt : zp_PtOK (some rr.ttl) := fun t ht => by cases ht; exact he'.2.1
    simp only at h
    split at h
    · rename_i soa hsoa
      split at h
      · cases h
      · cases h
        exact ⟨hst.origin, hpd, hpt, hst.rrs, hst.wild,
          fun a s hs => by cases hs; exact ⟨he'.1, zp_soaOfRR_some he' hsoa⟩⟩
    · rename_i hsoa
      cases h
      refine ⟨hst.origin, hpd, hpt, ?_, hst.wild, hst.soa⟩
      intro x hx
      simp only [List.mem_cons] at hx
      rcases hx with rfl | hx
      · exact ⟨he'.1, he'.2.1, zp_soaOfRR_none he' hsoa⟩
      · exact hst.rrs x hx
  | wildcardRR rr =>
    have he' : zp_RROK rr := he
    have hpd : zp_PdOK (some (MaybeWildcard.wildcard rr.name)) := fun w hw => by cases hw; exact he'.1
    have hpt : zp_PtOK (some rr.ttl) := fun t ht => by cases ht; exact he'.2.1
    simp only at h
    split at h
    · cases h
    · rename_i hns
      cases h
      refine ⟨hst.origin, hpd, hpt, hst.rrs, ?_, hst.soa⟩
      intro x hx
      simp only [List.mem_cons] at hx
      rcases hx with rfl | hx
      · exact ⟨he'.1, he'.2.1, zp_not_soa he' (by simpa using hns)⟩
      · exact hst.wild x hx

theorem zp_loopStep_ok {st : DState} {s : List Char} (hst : zp_StOK st) :
    (∀ st', loopStep st s = some (.stop (.ok st')) → st' = st) ∧
    (∀ st' rest, loopStep st s = some (.cont st' rest) → zp_StOK st') := by
  unfold loopStep
  constructor
  · intro st' h
    split at h
    · cases h
    · cases h
    · cases h; rfl
    · rename_i entry rest hp
      simp only [Option.some.injEq] at h
      obtain ⟨err, herr⟩ := zp_entryStep_stop h
      cases herr
  · intro st' rest h
    split at h
    · cases h
    · cases h
    · cases h
    · rename_i entry rest' hp
      simp only [Option.some.injEq] at h
      exact zp_entryStep_ok hst (zp_parseEntry_ok _ hst.origin hst.pd hst.pt hp) h

/-- **whatever the text, the state the entry loop ends in is well formed.** -/
theorem zp_loop_ok : ∀ (f : Nat) (st : DState) (s : List Char) (st' : DState), zp_StOK st →
    deserialiseLoop f st s = some (.ok st') → zp_StOK st'
  | 0, _, _, _, _, h => by simp [deserialiseLoop] at h
  | f + 1, st, s, st', hst, h => by
    rw [deserialiseLoop_succ] at h
    cases hs : loopStep st s with
    | none => rw [hs] at h; cases h
    | some step =>
      rw [hs] at h
      cases step with
      | stop r =>
        simp only [Option.some.injEq] at h
        subst h
        rw [(zp_loopStep_ok hst).1 st' hs]; exact hst
      | cont st1 rest =>
        exact zp_loop_ok f st1 rest st' ((zp_loopStep_ok hst).2 st1 rest hs) h

/-! ## the zone built from that state -/

/-- the SOA `Zone::deserialise` settles on. -/
def zp_soa (st : DState) : Option SOA := st.apexAndSoa.map (·.2)

/-- the insertions `Zone::deserialise` performs, in order. -/
def zp_ops (st : DState) : List ZoneOp :=
  st.rrs.reverse.map (toOp false) ++ st.wildcardRrs.reverse.map (toOp true)

theorem zp_buildZone_eq (st : DState) :
    buildZone st = insertBoth (Zone.new st.apex (zp_soa st)) st.rrs.reverse st.wildcardRrs.reverse := by
  rw [buildZone_eq]
  unfold DState.apex zp_soa
  cases st.apexAndSoa with
  | none => rfl
  | some p => rfl

theorem zp_insertBoth_sub {z0 z : Zone} {R W : List RR} (h : insertBoth z0 R W = .ok z) :
    (∀ rr ∈ R, rr.name.isSubdomainOf z0.apex = true) ∧ (∀ rr ∈ W, rr.name.isSubdomainOf z0.apex = true) := by
  constructor
  · intro rr hrr
    cases hsub : rr.name.isSubdomainOf z0.apex with
    | true => rfl
    | false => exact absurd h (insertBoth_outside z0 R W ⟨rr, Or.inl hrr, hsub⟩ z)
  · intro rr hrr
    cases hsub : rr.name.isSubdomainOf z0.apex with
    | true => rfl
    | false => exact absurd h (insertBoth_outside z0 R W ⟨rr, Or.inr hrr, hsub⟩ z)

/-- **a parsed zone is built through the insertion API**: `Zone::new(apex, soa)` followed by
    `insert` / `insert_wildcard` calls. -/
theorem zp_buildZone_build {st : DState} {z : Zone} (h : buildZone st = .ok z) :
    Zone.build st.apex (zp_soa st) (zp_ops st) = some z := by
  rw [zp_buildZone_eq] at h
  obtain ⟨hR, hW⟩ := zp_insertBoth_sub h
  rw [insertBoth_eq_applyOps _ _ _ hR hW] at h
  unfold Zone.build zp_ops
  cases ha : (Zone.new st.apex (zp_soa st)).applyOps
      (st.rrs.reverse.map (toOp false) ++ st.wildcardRrs.reverse.map (toOp true)) with
  | none => rw [ha] at h; cases h
  | some z1 => rw [ha] at h; cases h; rfl

theorem zp_apex_text {st : DState} (hst : zp_StOK st) : TextName st.apex := by
  unfold DState.apex
  cases h : st.apexAndSoa with
  | none => exact zp_root_textName
  | some p => obtain ⟨a, s⟩ := p; exact (hst.soa a s h).1

theorem zp_soa_ok {st : DState} (hst : zp_StOK st) : ∀ s, zp_soa st = some s → SoaOK s := by
  intro s hs
  unfold zp_soa at hs
  cases h : st.apexAndSoa with
  | none => rw [h] at hs; cases hs
  | some p =>
    obtain ⟨a, s'⟩ := p
    rw [h] at hs
    cases hs
    exact (hst.soa a s' h).2

theorem zp_soa_none_root {st : DState} (h : zp_soa st = none) : st.apex = Name.root := by
  unfold zp_soa at h
  unfold DState.apex
  cases hs : st.apexAndSoa with
  | none => rfl
  | some p => rw [hs] at h; cases h

/-- the entries of the configuration a parsed zone is built from. -/
theorem zp_entries_char (apex : Name) (soa : Option SOA) (R W : List RR) (e : ZSpec.Entry)
    (he : e ∈ entriesOf apex soa (R.map (toOp false) ++ W.map (toOp true))) :
    (∃ s, soa = some s ∧ e = ⟨[], false, Zone.soaRecord s⟩) ∨
    (∃ rr, ((rr ∈ R ∧ e.wild = false) ∨ (rr ∈ W ∧ e.wild = true)) ∧
       e.rel ++ apex.labels = rr.name.labels ∧
       e.zr = ⟨rr.rtype, rr.fields, (Zone.new apex soa).actualTtl rr.ttl⟩) := by
  unfold entriesOf at he
  simp only [List.mem_append, List.mem_filterMap, List.mem_map] at he
  rcases he with he | ⟨op, hop, hoe⟩
  · cases soa with
    | none => simp at he
    | some s =>
      simp only [List.mem_singleton] at he
      exact Or.inl ⟨s, rfl, he⟩
  · right
    unfold opEntry at hoe
    split at hoe
    · rename_i rel hrel
      cases hoe
      have hl := Zone.relativeDomain_some hrel
      rw [(Zone.new_apex_soa apex soa).1] at hl
      rcases hop with ⟨rr, hrr, rfl⟩ | ⟨rr, hrr, rfl⟩
      · exact ⟨rr, Or.inl ⟨hrr, rfl⟩, hl, rfl⟩
      · exact ⟨rr, Or.inr ⟨hrr, rfl⟩, hl, rfl⟩
    · cases hoe

theorem zp_actualTtl_lt (apex : Name) (soa : Option SOA) (hs : ∀ s, soa = some s → SoaOK s) {ttl : Nat}
    (ht : ttl < 4294967296) : (Zone.new apex soa).actualTtl ttl < 4294967296 := by
  unfold Zone.actualTtl
  rw [(Zone.new_apex_soa apex soa).2]
  cases soa with
  | none => exact ht
  | some s =>
    have := (hs s rfl).2.2.2.2.2.2
    simp only
    exact Nat.max_lt.mpr ⟨this, ht⟩

/-- what the text side of the round trip needs of a zone — `ZoneTextOK` of Proofs/ZoneTextZone.lean
    WITHOUT the clause that no ordinary owner's first label starts with `*` (`NoStar`; that clause
    is the gap of open finding C13-K1 and is false for some parsed zones). -/
structure zp_ZoneTextOK (z : Zone) : Prop where
  apex : TextName z.apex
  nonauth_root : z.soa = none → z.apex = Name.root
  soa : ∀ s, z.soa = some s → SoaOK s
  records : ∀ p ∈ z.allRecords, TextName p.1 ∧
    ∀ zr ∈ p.2, zr.rtype ≠ RT_SOA → RdataOK zr.rtype zr.fields ∧ zr.ttl < 4294967296
  wildcards : ∀ p ∈ z.allWildcardRecords, TextName p.1 ∧
    ∀ zr ∈ p.2, RdataOK zr.rtype zr.fields ∧ zr.ttl < 4294967296

theorem zp_zoneTextOK_iff (z : Zone) :
    ZoneTextOK z ↔ zp_ZoneTextOK z ∧ ∀ p ∈ z.allRecords, NoStar p.1 := by
  constructor
  · intro h
    exact ⟨⟨h.apex, h.nonauth_root, h.soa, fun p hp => ⟨(h.records p hp).1, (h.records p hp).2.2⟩, h.wildcards⟩,
      fun p hp => (h.records p hp).2.1⟩
  · rintro ⟨h, hs⟩
    exact ⟨h.apex, h.nonauth_root, h.soa, fun p hp => ⟨(h.records p hp).1, hs p hp, (h.records p hp).2⟩,
      h.wildcards⟩

/-- the records a parsed zone lists are its SOA record at the apex and the records of the file
    (TTL raised to the SOA's MINIMUM by `actual_ttl`). -/
theorem zp_flat_char {st : DState} (hst : zp_StOK st) {z : Zone} (h : buildZone st = .ok z) :
    (∀ n zr, FlatRec z n zr →
      (n = st.apex ∧ ∃ s, zp_soa st = some s ∧ zr = Zone.soaRecord s) ∨
      (TextName n ∧ RdataOK zr.rtype zr.fields ∧ zr.ttl < 4294967296)) ∧
    (∀ n zr, FlatWild z n zr → TextName n ∧ RdataOK zr.rtype zr.fields ∧ zr.ttl < 4294967296) := by
  have hb := zp_buildZone_build h
  have hat := zp_apex_text hst
  obtain ⟨hr, hk⟩ := built_repr st.apex (zp_soa st) (zp_ops st) z hat.1 hb
  have hrr : ∀ rr : RR, rr ∈ st.rrs.reverse ∨ rr ∈ st.wildcardRrs.reverse →
      TextName rr.name ∧ rr.ttl < 4294967296 ∧ RdataOK rr.rtype rr.fields := by
    intro rr hrr
    rcases hrr with hrr | hrr
    · exact hst.rrs rr (by simpa using hrr)
    · exact hst.wild rr (by simpa using hrr)
  have hop : ∀ (e : ZSpec.Entry) (n : Name) (rr : RR),
      rr ∈ st.rrs.reverse ∨ rr ∈ st.wildcardRrs.reverse →
      e.rel ++ st.apex.labels = rr.name.labels →
      e.zr = ⟨rr.rtype, rr.fields, (Zone.new st.apex (zp_soa st)).actualTtl rr.ttl⟩ →
      Name.fromLabels (e.rel ++ st.apex.labels) = some n →
      TextName n ∧ RdataOK e.zr.rtype e.zr.fields ∧ e.zr.ttl < 4294967296 := by
    intro e n rr hmem hl hz hn
    obtain ⟨h1, h2, h3⟩ := hrr rr hmem
    rw [hl, h1.1] at hn
    cases hn
    rw [hz]
    exact ⟨h1, h3, zp_actualTtl_lt _ _ (zp_soa_ok hst) h2⟩
  constructor
  · intro n zr hfl
    obtain ⟨e, he, hw, hz, hn⟩ := (flatRec_iff hr hk n zr).mp hfl
    rcases zp_entries_char _ _ _ _ e he with ⟨s, hs, rfl⟩ | ⟨rr, hmem, hl, hzr⟩
    · left
      simp only [List.nil_append] at hn
      rw [hat.1] at hn
      cases hn
      exact ⟨rfl, s, hs, hz.symm⟩
    · right
      rw [← hz]
      refine hop e n rr ?_ hl hzr hn
      rcases hmem with ⟨hm, -⟩ | ⟨hm, -⟩
      · exact Or.inl hm
      · exact Or.inr hm
  · intro n zr hfl
    obtain ⟨e, he, hw, hz, hn⟩ := (flatWild_iff hr hk n zr).mp hfl
    rcases zp_entries_char _ _ _ _ e he with ⟨s, hs, rfl⟩ | ⟨rr, hmem, hl, hzr⟩
    · cases hw
    · rw [← hz]
      refine hop e n rr ?_ hl hzr hn
      rcases hmem with ⟨hm, -⟩ | ⟨hm, -⟩
      · exact Or.inl hm
      · exact Or.inr hm

theorem zp_allRecords_nonempty {z : Zone} (hk : KeysOK z.records) {p : Name × List ZoneRecord}
    (hp : p ∈ z.allRecords) : ∃ zr, zr ∈ p.2 := by
  obtain ⟨path, nd, -, hx, hne⟩ := (mem_allRecords_descend hk p).mp hp
  rw [hx]
  exact List.exists_mem_of_ne_nil _ hne

theorem zp_allWildcardRecords_nonempty {z : Zone} (hk : KeysOK z.records) {p : Name × List ZoneRecord}
    (hp : p ∈ z.allWildcardRecords) : ∃ zr, zr ∈ p.2 := by
  obtain ⟨path, nd, ws, -, -, hx, hne⟩ := (mem_allWildcardRecords_descend hk p).mp hp
  rw [hx]
  exact List.exists_mem_of_ne_nil _ hne

/-- **every zone obtained from a well-formed loop state satisfies the hypotheses of the round trip**
    (all but `NoStar`). -/
theorem zp_buildZone_props {st : DState} (hst : zp_StOK st) {z : Zone} (h : buildZone st = .ok z) :
    (NameOK st.apex ∧ Zone.build st.apex (zp_soa st) (zp_ops st) = some z) ∧ OnlyOwnSoa z ∧
    zp_ZoneTextOK z := by
  have hb := zp_buildZone_build h
  have hat := zp_apex_text hst
  obtain ⟨hr, hk⟩ := built_repr st.apex (zp_soa st) (zp_ops st) z hat.1 hb
  obtain ⟨hfr, hfw⟩ := zp_flat_char hst h
  refine ⟨⟨hat.1, hb⟩, ?_, ?_⟩
  · intro n zr hfl h6
    rcases hfr n zr hfl with ⟨hn, s, hs, hz⟩ | ⟨-, hrd, -⟩
    · exact ⟨by rw [hr.apex_eq]; exact hn, s, by rw [hr.soa_eq]; exact hs, hz⟩
    · exact absurd h6 hrd.not_soa
  · refine ⟨by rw [hr.apex_eq]; exact hat, ?_, ?_, ?_, ?_⟩
    · intro hs
      rw [hr.soa_eq] at hs
      rw [hr.apex_eq]
      exact zp_soa_none_root hs
    · intro s hs
      rw [hr.soa_eq] at hs
      exact zp_soa_ok hst s hs
    · intro p hp
      obtain ⟨n, zrs⟩ := p
      obtain ⟨zr0, hzr0⟩ := zp_allRecords_nonempty hk hp
      refine ⟨?_, ?_⟩
      · rcases hfr n zr0 ⟨zrs, hp, hzr0⟩ with ⟨hn, -⟩ | ⟨hn, -⟩
        · rw [hn]; exact hat
        · exact hn
      · intro zr hzr hns
        rcases hfr n zr ⟨zrs, hp, hzr⟩ with ⟨-, s, -, hz⟩ | ⟨-, hrd, httl⟩
        · rw [hz] at hns; exact absurd rfl hns
        · exact ⟨hrd, httl⟩
    · intro p hp
      obtain ⟨n, zrs⟩ := p
      obtain ⟨zr0, hzr0⟩ := zp_allWildcardRecords_nonempty hk hp
      refine ⟨(hfw n zr0 ⟨zrs, hp, hzr0⟩).1, ?_⟩
      intro zr hzr
      exact (hfw n zr ⟨zrs, hp, hzr⟩).2

/-- `Zone::deserialise t = Ok z`: the entry loop ended in some state, from which `z` was built. -/
theorem zp_deserialise_ok {t : List Char} {z : Zone} (h : deserialise t = .ok z) :
    ∃ st, deserialiseLoop (t.length + 1) {} t = some (.ok st) ∧ buildZone st = .ok z := by
  unfold deserialise at h
  split at h
  · cases h
  · cases h
  · rename_i st hl
    exact ⟨st, hl, h⟩

/-- **every zone obtained by parsing satisfies the hypotheses of `C13_roundtrip`** except `NoStar`. -/
theorem zp_parsed_props {t : List Char} {z : Zone} (h : deserialise t = .ok z) :
    (∃ apex soa ops, NameOK apex ∧ Zone.build apex soa ops = some z) ∧ OnlyOwnSoa z ∧ zp_ZoneTextOK z := by
  obtain ⟨st, hl, hb⟩ := zp_deserialise_ok h
  have hst := zp_loop_ok _ _ _ _ zp_stOK_init hl
  obtain ⟨h1, h2, h3⟩ := zp_buildZone_props hst hb
  exact ⟨⟨_, _, _, h1⟩, h2, h3⟩

/-! ## when parsing succeeds; a kernel-evaluable form of the zone construction -/

/-- **parsing succeeds as soon as the entry loop does and every record lies under the apex**: the
    insertion loops never panic on what the parser hands them. -/
theorem zp_deserialise_of_loop {t : List Char} {st : DState}
    (hl : deserialiseLoop (t.length + 1) {} t = some (.ok st))
    (hsub : ∀ rr, rr ∈ st.rrs ∨ rr ∈ st.wildcardRrs → rr.name.isSubdomainOf st.apex = true) :
    ∃ z, deserialise t = .ok z := by
  have hst := zp_loop_ok _ _ _ _ zp_stOK_init hl
  have hat := zp_apex_text hst
  have hd : deserialise t = buildZone st := by unfold deserialise; rw [hl]
  have hna := (Zone.new_apex_soa st.apex (zp_soa st)).1
  rw [hd, zp_buildZone_eq, insertBoth_eq_applyOps _ _ _
    (fun rr hrr => by rw [hna]; exact hsub rr (Or.inl (by simpa using hrr)))
    (fun rr hrr => by rw [hna]; exact hsub rr (Or.inr (by simpa using hrr)))]
  have hops : ∀ op ∈ st.rrs.reverse.map (toOp false) ++ st.wildcardRrs.reverse.map (toOp true),
      NameOK op.name := by
    intro op hop
    simp only [List.mem_append, List.mem_map, List.mem_reverse] at hop
    rcases hop with ⟨rr, hrr, rfl⟩ | ⟨rr, hrr, rfl⟩
    · exact (hst.rrs rr hrr).1.1
    · exact (hst.wild rr hrr).1.1
  have hsome := Zone.applyOps_isSome st.apex (zp_soa st) _ hops (Zone.new st.apex (zp_soa st)) _
    (Zone.repr_new st.apex (zp_soa st) hat.1)
  obtain ⟨z, hz⟩ := Option.isSome_iff_exists.mp hsome
  exact ⟨z, by rw [hz]; rfl⟩

/-- `Zone::insert` through the structurally recursive `insertRev` (kernel-evaluable). -/
def zp_insertC (z : Zone) (name : Name) (rtype : Nat) (fields : List FieldVal) (ttl : Nat) (wild : Bool) :
    Option Zone :=
  match z.relativeDomain name with
  | some rel =>
    match z.records.insertRev rel.reverse ⟨rtype, fields, z.actualTtl ttl⟩ wild with
    | some r => some { z with records := r }
    | none => none
  | none => some z

theorem zp_insert_eq (z : Zone) (name : Name) (rtype : Nat) (fields : List FieldVal) (ttl : Nat) (wild : Bool) :
    z.insert name rtype fields ttl wild = zp_insertC z name rtype fields ttl wild := by
  unfold Zone.insert zp_insertC
  cases z.relativeDomain name with
  | none => rfl
  | some rel => simp only [ZNode.insert_eq_rev]; rfl

def zp_newC (apex : Name) (soa : Option SOA) : Zone :=
  match soa with
  | some s =>
    match (ZNode.new apex).insertRev [] ⟨RT_SOA, s.toFields, s.minimum⟩ false with
    | some r => { apex, soa, records := r }
    | none => { apex, soa, records := ZNode.new apex }
  | none => { apex, soa, records := ZNode.new apex }

theorem zp_new_eq (apex : Name) (soa : Option SOA) : Zone.new apex soa = zp_newC apex soa := by
  unfold Zone.new zp_newC
  cases soa with
  | none => rfl
  | some s => simp only [ZNode.insert_eq_rev, List.reverse_nil]; rfl

def zp_insertAllC (wild : Bool) : Zone → List RR → DResult
  | zone, [] => .ok zone
  | zone, rr :: rest =>
    if !rr.name.isSubdomainOf zone.apex then .err .notSubdomainOfApex
    else
      match zp_insertC zone rr.name rr.rtype rr.fields rr.ttl wild with
      | none => .panic
      | some zone' => zp_insertAllC wild zone' rest

theorem zp_insertAll_eq (wild : Bool) (rrs : List RR) : ∀ z, insertAll wild z rrs = zp_insertAllC wild z rrs := by
  induction rrs with
  | nil => intro z; rfl
  | cons rr rest ih =>
    intro z
    simp only [insertAll, zp_insertAllC, zp_insert_eq]
    cases hsub : (!rr.name.isSubdomainOf z.apex) with
    | true => rfl
    | false =>
      simp only [Bool.false_eq_true, if_false]
      cases zp_insertC z rr.name rr.rtype rr.fields rr.ttl wild with
      | none => rfl
      | some z1 => exact ih z1

def zp_buildZoneC (st : DState) : DResult :=
  let zone :=
    match st.apexAndSoa with
    | some (apex, soa) => zp_newC apex (some soa)
    | none => zp_newC Name.root none
  match zp_insertAllC false zone st.rrs.reverse with
  | .ok zone => zp_insertAllC true zone st.wildcardRrs.reverse
  | r => r

theorem zp_buildZone_eqC (st : DState) : buildZone st = zp_buildZoneC st := by
  unfold buildZone zp_buildZoneC
  simp only [zp_insertAll_eq, Zone.default, zp_new_eq]
  rfl

/-- evaluation of `Zone::deserialise` on a concrete text: run the entry loop, then the (evaluable)
    insertion loops. -/
theorem zp_deserialise_evalC {t : List Char} {st : DState}
    (hl : deserialiseLoop (t.length + 1) {} t = some (.ok st)) : deserialise t = zp_buildZoneC st := by
  unfold deserialise
  rw [hl]
  exact zp_buildZone_eqC st

/-- a parsed zone's tree has distinct child keys, so every owner it lists has at least one record. -/
theorem zp_parsed_allRecords_nonempty {t : List Char} {z : Zone} (h : deserialise t = .ok z)
    {p : Name × List ZoneRecord} (hp : p ∈ z.allRecords) : ∃ zr, zr ∈ p.2 := by
  obtain ⟨⟨apex, soa, ops, hap, hb⟩, -, -⟩ := zp_parsed_props h
  exact zp_allRecords_nonempty (built_repr apex soa ops z hap hb).2 hp

end Resolved.ZoneText
