/-
  `Reach`: the primitive guarded steps of the recursive machine, and the proof (simultaneous
  induction on the fuel over the mutual block) that every function of the machine returns a state
  reachable from its input state, with the question stack restored.
-/
import Resolved.Proofs.ResolverMachineSteps

namespace Resolved

open Gen

/-! ## `tryTypes` one step at a time -/

/-- one iteration of the `for rtype in rtypes` loop of `resolve_hostname_to_ip`: the lookup of one
    record type (locally or recursively) and the address found in its result, if any. -/
def lookupStep (cfg : RecCfg) (fuel : Nat) (st : St) (locally : Bool) (hostname : Name) (rtype : Nat) :
    St × Option FieldVal :=
  if locally then
    (⟨(resolveLocal (RECURSION_LIMIT + 1) st.ctx { name := hostname, qclass := CLASS_IN, qtype := rtype }).1, st.run⟩,
      match (resolveLocal (RECURSION_LIMIT + 1) st.ctx { name := hostname, qclass := CLASS_IN, qtype := rtype }).2 with
      | .ok (.done resolved) => getIp resolved.rrs hostname rtype
      | _ => none)
  else
    ((resolveRec cfg fuel st { name := hostname, qclass := CLASS_IN, qtype := rtype }).1,
      match (resolveRec cfg fuel st { name := hostname, qclass := CLASS_IN, qtype := rtype }).2 with
      | .ok result => getIp result.rrs hostname rtype
      | .error _ => none)

theorem tryTypes_cons (cfg : RecCfg) (fuel : Nat) (st : St) (locally : Bool) (hostname : Name)
    (rtype : Nat) (more : List Nat) :
    tryTypes cfg (fuel + 1) st locally hostname (rtype :: more) =
      if st.run.timedOut then (st, none)
      else
        match (lookupStep cfg fuel st locally hostname rtype).2 with
        | some a => ((lookupStep cfg fuel st locally hostname rtype).1, some a)
        | none => tryTypes cfg fuel (lookupStep cfg fuel st locally hostname rtype).1 locally hostname more := by
  rw [tryTypes]
  split
  · rfl
  · unfold lookupStep
    cases locally with
    | true =>
      simp only [if_true]
      cases h : (resolveLocal (RECURSION_LIMIT + 1) st.ctx { name := hostname, qclass := CLASS_IN, qtype := rtype }).2 with
      | error e => simp
      | ok lr =>
        cases lr with
        | done resolved =>
          simp only
          cases getIp resolved.rrs hostname rtype <;> simp
        | _ => simp
    | false =>
      simp only [Bool.false_eq_true, if_false]
      cases h : (resolveRec cfg fuel st { name := hostname, qclass := CLASS_IN, qtype := rtype }) with
      | mk st1 r =>
        cases r with
        | error e => simp
        | ok res =>
          simp only
          cases getIp res.rrs hostname rtype <;> simp

theorem tryTypes_zero (cfg : RecCfg) (st : St) (locally : Bool) (hostname : Name) (types : List Nat) :
    tryTypes cfg 0 st locally hostname types = (st, none) := by
  rw [tryTypes]

theorem tryTypes_nil (cfg : RecCfg) (fuel : Nat) (st : St) (locally : Bool) (hostname : Name) :
    tryTypes cfg fuel st locally hostname [] = (st, none) := by
  cases fuel <;> rw [tryTypes]

theorem lookupStep_source {cfg : RecCfg} {fuel : Nat} {st : St} {locally : Bool} {hostname : Name}
    {rtype : Nat} {a : FieldVal} (h : (lookupStep cfg fuel st locally hostname rtype).2 = some a) :
    ∃ rrs, getIp rrs hostname rtype = some a := by
  unfold lookupStep at h
  split at h
  · simp only at h
    split at h
    · exact ⟨_, h⟩
    · cases h
  · simp only at h
    split at h
    · exact ⟨_, h⟩
    · cases h

/-- any address `tryTypes` returns was extracted by `getIp` for one of the listed record types. -/
theorem tryTypes_source (cfg : RecCfg) (hostname : Name) : ∀ (fuel : Nat) (st : St) (locally : Bool)
    (types : List Nat) (a : FieldVal), (tryTypes cfg fuel st locally hostname types).2 = some a →
    ∃ rtype ∈ types, ∃ rrs, getIp rrs hostname rtype = some a := by
  intro fuel
  induction fuel with
  | zero => intro st locally types a h; rw [tryTypes_zero] at h; cases h
  | succ fuel ih =>
    intro st locally types a h
    cases types with
    | nil => rw [tryTypes_nil] at h; cases h
    | cons t more =>
      rw [tryTypes_cons] at h
      split at h
      · cases h
      · split at h
        · rename_i a' ha
          simp only at h; cases h
          obtain ⟨rrs, hr⟩ := lookupStep_source ha
          exact ⟨t, List.mem_cons_self, rrs, hr⟩
        · obtain ⟨t', ht', hr⟩ := ih _ _ _ _ h
          exact ⟨t', List.mem_cons_of_mem _ ht', hr⟩

/-- under only-v4 `tryTypes` only yields IPv4 addresses, under only-v6 only IPv6 addresses. -/
theorem tryTypes_family (cfg : RecCfg) (fuel : Nat) (st : St) (locally : Bool) (hostname : Name)
    (a : FieldVal) (h : (tryTypes cfg fuel st locally hostname (rtypesFor cfg.mode)).2 = some a) :
    FamOK cfg.mode a := by
  obtain ⟨t, ht, rrs, hr⟩ := tryTypes_source cfg hostname fuel st locally _ a h
  have hf := getIp_family rrs hostname t a hr
  constructor
  · intro hm
    rw [hm] at ht
    simp only [rtypesFor, List.mem_singleton] at ht
    exact hf.1 ht
  · intro hm
    rw [hm] at ht
    simp only [rtypesFor, List.mem_singleton] at ht
    exact hf.2 ht

/-! ## Reachability -/

/-- How a machine talks to upstream: the oracle, the port, the RD flag of its requests and the
    addresses it may contact. -/
structure Net where
  oracle : Oracle
  port : Nat
  rd : Bool
  addrOK : FieldVal → Prop

/-- the recursive resolver: configured port, RD clear, addresses of the allowed family. -/
@[reducible] def RecCfg.net (cfg : RecCfg) : Net := ⟨cfg.oracle, cfg.port, false, FamOK cfg.mode⟩

/-- the forwarding resolver: configured port, RD set, only the forwarder's address. -/
@[reducible] def FwdCfg.net (cfg : FwdCfg) : Net := ⟨cfg.oracle, cfg.port, true, fun a => a = cfg.addr⟩

/-- The primitive steps of a resolver machine on its state (context + run), with the guards
    under which the machine takes them. -/
inductive Reach (n : Net) : St → St → Prop
  | refl (st : St) : Reach n st st
  | trans {a b c : St} : Reach n a b → Reach n b c → Reach n a c
  /-- a local lookup (zones + cache) -/
  | loc (st : St) (fuel : Nat) (q : Question) : Reach n st ⟨(resolveLocal fuel st.ctx q).1, st.run⟩
  /-- a question is pushed only when the run is live, the stack is below the limit and the
      question is not on it -/
  | push (st : St) (q : Question) : st.run.timedOut = false → st.ctx.atRecursionLimit = false →
      st.ctx.isDuplicate q = false → Reach n st ⟨st.ctx.push q, st.run⟩
  | pop (st : St) : Reach n st ⟨st.ctx.pop, st.run⟩
  /-- only records of replies to logged exchanges are inserted into the cache -/
  | cache (st : St) (rrs : List RR) : (∀ r ∈ rrs, FromLog n.oracle st.run.log r) →
      Reach n st ⟨st.ctx.cacheInsertAll rrs, st.run⟩
  /-- an upstream query: live run, allowed address, configured port, the machine's RD flag -/
  | query (st : St) (addr : FieldVal) (q : Question) : n.addrOK addr → st.run.timedOut = false →
      Reach n st ⟨st.ctx, (queryNameserver n.oracle st.run addr n.port q n.rd).1⟩

/-- reachable, and the question stack is the same. -/
def Good (n : Net) (st st' : St) : Prop := Reach n st st' ∧ st'.ctx.stack = st.ctx.stack

theorem Good.refl (n : Net) (st : St) : Good n st st := ⟨Reach.refl st, rfl⟩

theorem Good.trans {n : Net} {a b c : St} (h1 : Good n a b) (h2 : Good n b c) : Good n a c :=
  ⟨Reach.trans h1.1 h2.1, h2.2.trans h1.2⟩

theorem Good.loc (n : Net) (st : St) (fuel : Nat) (q : Question) :
    Good n st ⟨(resolveLocal fuel st.ctx q).1, st.run⟩ :=
  ⟨Reach.loc st fuel q, resolveLocal_stack fuel st.ctx q⟩

theorem Good.cache (n : Net) (st : St) (rrs : List RR) (h : ∀ r ∈ rrs, FromLog n.oracle st.run.log r) :
    Good n st ⟨st.ctx.cacheInsertAll rrs, st.run⟩ :=
  ⟨Reach.cache st rrs h, rfl⟩

theorem Good.query (n : Net) (st : St) (addr : FieldVal) (q : Question) (hf : n.addrOK addr)
    (ht : st.run.timedOut = false) :
    Good n st ⟨st.ctx, (queryNameserver n.oracle st.run addr n.port q n.rd).1⟩ :=
  ⟨Reach.query st addr q hf ht, rfl⟩

/-- push … pop around a stack-preserving computation. -/
theorem Good.bracket {n : Net} {st st2 : St} (q : Question) (ht : st.run.timedOut = false)
    (hl : st.ctx.atRecursionLimit = false) (hd : st.ctx.isDuplicate q = false)
    (h : Good n ⟨st.ctx.push q, st.run⟩ st2) : Good n st ⟨st2.ctx.pop, st2.run⟩ := by
  refine ⟨Reach.trans (Reach.push st q ht hl hd) (Reach.trans h.1 (Reach.pop st2)), ?_⟩
  simp [Ctx.pop, h.2, Ctx.push]

theorem candidateNameservers_good (cfg : Net) : ∀ (labels : List Label) (st : St),
    Good cfg st (candidateNameservers st labels).1 := by
  intro labels
  induction labels with
  | nil => intro st; exact Good.refl cfg st
  | cons l ls ih =>
    intro st
    rw [candidateNameservers]
    split
    · exact ih st
    · simp only
      repeat' split
      all_goals first
        | exact Good.loc cfg st _ _
        | exact (Good.loc cfg st _ _).trans (ih _)

/-- the combined statement for the four functions of the mutual block. -/
def MachineGood (cfg : RecCfg) (fuel : Nat) : Prop :=
  (∀ st q, Good cfg.net st (resolveRec cfg fuel st q).1) ∧
  (∀ st q combined mc cands next locally,
    Good cfg.net st (candidateLoop cfg fuel st q combined mc cands next locally).1) ∧
  (∀ st rrs q, Good cfg.net st (resolveCombined cfg fuel st rrs q).1) ∧
  (∀ st locally host types, Good cfg.net st (tryTypes cfg fuel st locally host types).1)

theorem machine_good (cfg : RecCfg) : ∀ fuel, MachineGood cfg fuel := by
  intro fuel
  induction fuel with
  | zero =>
    refine ⟨?_, ?_, ?_, ?_⟩
    · intro st q; rw [resolveRec]; exact Good.refl _ _
    · intro st q combined mc cands next locally; rw [candidateLoop]; exact Good.refl _ _
    · intro st rrs q; rw [resolveCombined]; exact Good.refl _ _
    · intro st locally host types; rw [tryTypes_zero]; exact Good.refl _ _
  | succ fuel ih =>
    obtain ⟨ihR, ihL, ihC, ihT⟩ := ih
    refine ⟨?_, ?_, ?_, ?_⟩
    · intro st q
      rw [resolveRec_succ]
      split
      · exact Good.refl _ _
      split
      · exact Good.refl _ _
      split
      · exact Good.refl _ _
      rename_i ht hl hd
      have ht' : st.run.timedOut = false := eq_false_of_ne_true ht
      have hloc := Good.loc cfg.net st (RECURSION_LIMIT + 1) q
      -- the guards also hold after the local lookup (same stack)
      have hl' : (⟨(resolveLocal (RECURSION_LIMIT + 1) st.ctx q).1, st.run⟩ : St).ctx.atRecursionLimit = false := by
        simp only [Ctx.atRecursionLimit, resolveLocal_stack]
        exact eq_false_of_ne_true hl
      have hd' : (⟨(resolveLocal (RECURSION_LIMIT + 1) st.ctx q).1, st.run⟩ : St).ctx.isDuplicate q = false := by
        simp only [Ctx.isDuplicate, resolveLocal_stack]
        exact eq_false_of_ne_true hd
      split
      · exact hloc
      · exact hloc.trans (Good.bracket q ht' hl' hd' (ihC _ _ _))
      · refine hloc.trans ?_
        unfold recUpstream
        have hcand : Good cfg.net ⟨(resolveLocal (RECURSION_LIMIT + 1) st.ctx q).1.push q, st.run⟩
            (initialCandidates ⟨(resolveLocal (RECURSION_LIMIT + 1) st.ctx q).1.push q, st.run⟩ q
              (resolveLocal (RECURSION_LIMIT + 1) st.ctx q).2).1 := by
          unfold initialCandidates
          split
          · exact Good.refl _ _
          · exact candidateNameservers_good cfg.net _ _
        split
        · exact Good.bracket (st := ⟨(resolveLocal (RECURSION_LIMIT + 1) st.ctx q).1, st.run⟩) q ht' hl' hd' hcand
        · exact Good.bracket (st := ⟨(resolveLocal (RECURSION_LIMIT + 1) st.ctx q).1, st.run⟩) q ht' hl' hd'
            (hcand.trans (ihL _ _ _ _ _ _ _))
    · intro st q combined mc cands next locally
      rw [candidateLoop_succ]
      split
      · exact Good.refl _ _
      split
      · exact Good.refl _ _
      rename_i candidate _
      have htry := ihT st locally candidate (rtypesFor cfg.mode)
      split
      · exact htry
      rename_i ht1
      split
      · rename_i addr haddr
        refine htry.trans ?_
        have hfam := tryTypes_family cfg fuel st locally candidate addr haddr
        generalize (tryTypes cfg fuel st locally candidate (rtypesFor cfg.mode)).1 = st1 at ht1 ⊢
        have hq := Good.query cfg.net st1 addr q hfam (eq_false_of_ne_true ht1)
        unfold loopQuery
        split
        · exact hq
        refine hq.trans ?_
        cases hresp : (queryNameserver cfg.oracle st1.run addr cfg.port q false).2.bind
            (fun res => validateNameserverResponse q res mc) with
        | none => exact Good.refl _ _
        | some resp =>
          have hsrc := query_validated_fromLog hresp
          generalize (queryNameserver cfg.oracle st1.run addr cfg.port q false).1 = run2 at hsrc ⊢
          cases resp with
          | answer rrs soa => exact Good.cache cfg.net ⟨st1.ctx, run2⟩ rrs hsrc
          | cname rrs c => exact (Good.cache cfg.net ⟨st1.ctx, run2⟩ rrs hsrc).trans (ihC _ _ _)
          | delegation rrs hs name =>
            unfold loopAfterReply
            simp only
            split
            · exact Good.cache cfg.net ⟨st1.ctx, run2⟩ rrs hsrc
            · exact (Good.cache cfg.net ⟨st1.ctx, run2⟩ rrs hsrc).trans (ihL _ _ _ _ _ _ _)
      · refine htry.trans ?_
        unfold loopNoAddr
        split
        · split
          · exact ihL _ _ _ _ _ _ _
          · exact ihL _ _ _ _ _ _ _
        · exact ihL _ _ _ _ _ _ _
    · intro st rrs q
      rw [resolveCombined_succ]
      split <;> exact ihR st q
    · intro st locally host types
      cases types with
      | nil => rw [tryTypes_nil]; exact Good.refl _ _
      | cons t more =>
        rw [tryTypes_cons]
        have hstep : Good cfg.net st (lookupStep cfg fuel st locally host t).1 := by
          unfold lookupStep
          split
          · exact Good.loc cfg.net st _ _
          · exact ihR st _
        split
        · exact Good.refl _ _
        · split
          · exact hstep
          · exact hstep.trans (ihT _ _ _ _)

/-! ## The forwarding machine -/

theorem resolveFwd_good (cfg : FwdCfg) : ∀ (fuel : Nat) (st : St) (q : Question),
    Good cfg.net st (resolveFwd cfg fuel st q).1 := by
  intro fuel
  induction fuel with
  | zero => intro st q; rw [resolveFwd]; exact Good.refl _ _
  | succ fuel ih =>
    intro st q
    rw [resolveFwd]
    split
    · exact Good.refl _ _
    split
    · exact Good.refl _ _
    split
    · exact Good.refl _ _
    rename_i ht hl hd
    have ht' : st.run.timedOut = false := eq_false_of_ne_true ht
    have hloc := Good.loc cfg.net st (RECURSION_LIMIT + 1) q
    have hl' : (⟨(resolveLocal (RECURSION_LIMIT + 1) st.ctx q).1, st.run⟩ : St).ctx.atRecursionLimit = false := by
      simp only [Ctx.atRecursionLimit, resolveLocal_stack]
      exact eq_false_of_ne_true hl
    have hd' : (⟨(resolveLocal (RECURSION_LIMIT + 1) st.ctx q).1, st.run⟩ : St).ctx.isDuplicate q = false := by
      simp only [Ctx.isDuplicate, resolveLocal_stack]
      exact eq_false_of_ne_true hd
    simp only []
    split
    · exact hloc
    · rename_i rrs cq _
      have hb := hloc.trans (Good.bracket q ht' hl' hd' (ih _ cq))
      split <;> exact hb
    · have hq := Good.query cfg.net ⟨(resolveLocal (RECURSION_LIMIT + 1) st.ctx q).1, st.run⟩ cfg.addr q rfl ht'
      split
      · exact hloc.trans hq
      · split
        · rename_i response hresp
          refine hloc.trans (hq.trans ?_)
          refine Good.cache cfg.net ⟨_, _⟩ response.answers ?_
          intro r hr
          obtain ⟨⟨ex, hex, ho⟩, _⟩ := queryNameserver_reply hresp
          exact ⟨ex, hex, response, ho, by simp [Message.allRrs, hr]⟩
        · exact hloc.trans hq

end Resolved
