/-
  Tree-level lemmas about `ZNode.merge` / `mergeChildren` (C12).
-/
import Resolved.Proofs.ZoneListLemmas

namespace Resolved

open Gen

namespace ZNode

/-- the wildcard component of a merge. -/
def mergeWild (mine other : Option RecMap) : Option RecMap :=
  match other with
  | some ow =>
    match mine with
    | some mw => some (mergeZrs mw ow)
    | none => some ow
  | none => mine

theorem merge_mk (n1 : Name) (t1 : RecMap) (w1 : Option RecMap) (c1 : List (Label × ZNode))
    (n2 : Name) (t2 : RecMap) (w2 : Option RecMap) (c2 : List (Label × ZNode)) :
    ZNode.merge (.mk n1 t1 w1 c1) (.mk n2 t2 w2 c2) =
      .mk n1 (mergeZrs t1 t2) (mergeWild w1 w2) (mergeChildren c1 c2) := by
  rw [ZNode.merge.eq_def]; rfl

theorem merge_eq (a b : ZNode) :
    ZNode.merge a b =
      .mk a.nsdname (mergeZrs a.this b.this) (mergeWild a.wildcards b.wildcards)
        (mergeChildren a.children b.children) := by
  cases a; cases b; exact merge_mk _ _ _ _ _ _ _ _

@[simp] theorem merge_nsdname (a b : ZNode) : (ZNode.merge a b).nsdname = a.nsdname := by
  rw [merge_eq]; rfl
@[simp] theorem merge_this (a b : ZNode) : (ZNode.merge a b).this = mergeZrs a.this b.this := by
  rw [merge_eq]; rfl
@[simp] theorem merge_wildcards (a b : ZNode) :
    (ZNode.merge a b).wildcards = mergeWild a.wildcards b.wildcards := by
  rw [merge_eq]; rfl
@[simp] theorem merge_children (a b : ZNode) :
    (ZNode.merge a b).children = mergeChildren a.children b.children := by
  rw [merge_eq]; rfl

/-! ### childGet / childSet -/

def childKeys (cs : List (Label × ZNode)) : List Label := cs.map (·.1)

theorem childGet_childSet_self (cs : List (Label × ZNode)) (l : Label) (n : ZNode) :
    childGet (childSet cs l n) l = some n := by
  induction cs with
  | nil => simp [childSet, childGet]
  | cons kv rest ih =>
    obtain ⟨k, v⟩ := kv
    simp only [childSet]
    split
    · rename_i h; simp [childGet, h]
    · rename_i h; simp [childGet, h, ih]

theorem childGet_childSet_ne (cs : List (Label × ZNode)) (l l2 : Label) (n : ZNode) (hne : l ≠ l2) :
    childGet (childSet cs l n) l2 = childGet cs l2 := by
  induction cs with
  | nil => simp [childSet, childGet, hne]
  | cons kv rest ih =>
    obtain ⟨k, v⟩ := kv
    simp only [childSet]
    split
    · rename_i h; subst h; simp [childGet, hne]
    · rename_i h; simp only [childGet]; split <;> simp [ih]

theorem childGet_childSet (cs : List (Label × ZNode)) (l l2 : Label) (n : ZNode) :
    childGet (childSet cs l n) l2 = if l = l2 then some n else childGet cs l2 := by
  split
  · rename_i h; subst h; exact childGet_childSet_self cs l n
  · rename_i h; exact childGet_childSet_ne cs l l2 n h

theorem childGet_eq_none_iff (cs : List (Label × ZNode)) (l : Label) :
    childGet cs l = none ↔ l ∉ childKeys cs := by
  induction cs with
  | nil => simp [childKeys, childGet]
  | cons kv rest ih =>
    obtain ⟨k, v⟩ := kv
    simp only [childGet, childKeys, List.map_cons, List.mem_cons, not_or]
    split
    · rename_i h; subst h; simp
    · rename_i h
      rw [ih]; simp only [childKeys]
      constructor
      · intro h2; exact ⟨fun e => h e.symm, h2⟩
      · intro h2; exact h2.2

theorem childKeys_childSet (cs : List (Label × ZNode)) (l : Label) (n : ZNode) :
    childKeys (childSet cs l n) = if l ∈ childKeys cs then childKeys cs else childKeys cs ++ [l] := by
  induction cs with
  | nil => simp [childSet, childKeys]
  | cons kv rest ih =>
    obtain ⟨k, v⟩ := kv
    simp only [childSet]
    split
    · rename_i h; subst h; simp [childKeys]
    · rename_i h
      simp only [childKeys, List.map_cons, List.mem_cons] at ih ⊢
      rw [ih]
      have : ¬ l = k := fun e => h e.symm
      simp only [this, false_or]
      split <;> rename_i h2 <;> simp [h2]

theorem childKeys_nodup_childSet (cs : List (Label × ZNode)) (l : Label) (n : ZNode)
    (h : (childKeys cs).Nodup) : (childKeys (childSet cs l n)).Nodup := by
  rw [childKeys_childSet]
  split
  · exact h
  · rename_i hk
    rw [List.nodup_append]
    refine ⟨h, by simp, ?_⟩
    intro a ha b hb
    simp only [List.mem_singleton] at hb
    subst hb; rintro rfl; exact hk ha

/-- the child of a merged node, given distinct child keys in the merged-in node. -/
theorem childGet_mergeChildren (ch och : List (Label × ZNode)) (l : Label)
    (hb : (childKeys och).Nodup) :
    childGet (mergeChildren ch och) l =
      match childGet ch l, childGet och l with
      | some x, some y => some (ZNode.merge x y)
      | some x, none => some x
      | none, some y => some y
      | none, none => none := by
  induction och generalizing ch with
  | nil => rw [mergeChildren]; simp only [childGet]; cases childGet ch l <;> rfl
  | cons kv rest ih =>
    obtain ⟨k, o⟩ := kv
    simp only [childKeys, List.map_cons, List.nodup_cons] at hb
    rw [mergeChildren, ih _ hb.2]
    by_cases hk : k = l
    · subst hk
      have hr : childGet rest k = none := (childGet_eq_none_iff rest k).mpr hb.1
      simp only [hr, childGet, if_true]
      cases ha : childGet ch k with
      | none => simp [childGet_childSet_self]
      | some x => simp [childGet_childSet_self]
    · simp only [childGet, hk, if_false]
      have : ∀ v, childGet (childSet ch k v) l = childGet ch l :=
        fun v => childGet_childSet_ne ch k l v hk
      cases ha : childGet ch k with
      | none => simp only [this]
      | some x => simp only [this]

theorem childKeys_nodup_mergeChildren (ch och : List (Label × ZNode)) (h : (childKeys ch).Nodup) :
    (childKeys (mergeChildren ch och)).Nodup := by
  induction och generalizing ch with
  | nil => rw [mergeChildren]; exact h
  | cons kv rest ih =>
    obtain ⟨k, o⟩ := kv
    rw [mergeChildren]
    apply ih
    split <;> exact childKeys_nodup_childSet _ _ _ h

/-- every node of the tree has pairwise distinct child labels (what a `HashMap` guarantees). -/
def KeysNodup (node : ZNode) : Prop :=
  ∀ p n, node.descend p = some n → (childKeys n.children).Nodup

theorem KeysNodup.child {node c : ZNode} {l : Label} (h : KeysNodup node)
    (hc : childGet node.children l = some c) : KeysNodup c := by
  intro p n hp
  apply h (l :: p) n
  simp [descend_cons, hc, hp]

theorem KeysNodup.here {node : ZNode} (h : KeysNodup node) : (childKeys node.children).Nodup :=
  h [] node rfl

theorem keysNodup_new (nsd : Name) : KeysNodup (ZNode.new nsd) := by
  intro p n hp
  cases p with
  | nil => simp at hp; subst hp; simp [ZNode.new, ZNode.children, childKeys]
  | cons l rest => simp [descend_cons, ZNode.new, ZNode.children, childGet] at hp

theorem keysNodup_of (node : ZNode) (h0 : (childKeys node.children).Nodup)
    (h1 : ∀ l c, childGet node.children l = some c → KeysNodup c) : KeysNodup node := by
  intro p n hp
  cases p with
  | nil => simp at hp; subst hp; exact h0
  | cons l rest =>
    simp only [descend_cons] at hp
    cases hc : childGet node.children l with
    | none => simp [hc] at hp
    | some c =>
      simp only [hc, Option.bind_some] at hp
      exact h1 l c hc rest n hp

theorem keysNodup_insertRev (r : List Label) (zr : ZoneRecord) (wild : Bool) :
    ∀ (node node' : ZNode), KeysNodup node → node.insertRev r zr wild = some node' →
      KeysNodup node' := by
  induction r with
  | nil =>
    intro node node' h hi
    simp only [insertRev] at hi
    have key : node'.children = node.children := by
      split at hi
      · split at hi <;> (cases hi; rfl)
      · cases hi; rfl
    apply keysNodup_of
    · rw [key]; exact h.here
    · intro l c hc; rw [key] at hc; exact h.child hc
  | cons lbl rest ih =>
    intro node node' h hi
    simp only [insertRev] at hi
    have main : ∀ (child child' : ZNode), KeysNodup child → child.insertRev rest zr wild = some child' →
        KeysNodup (.mk node.nsdname node.this node.wildcards (childSet node.children lbl child')) := by
      intro child child' hk hci
      apply keysNodup_of
      · exact childKeys_nodup_childSet _ _ _ h.here
      · intro l c hc
        simp only [ZNode.children, childGet_childSet] at hc
        split at hc
        · cases hc; exact ih child _ hk hci
        · exact h.child hc
    split at hi
    · rename_i child hc
      split at hi
      · rename_i child' hci
        cases hi
        exact main child child' (h.child hc) hci
      · cases hi
    · split at hi
      · cases hi
      · rename_i nsd hn
        split at hi
        · rename_i child' hci
          cases hi
          exact main _ child' (keysNodup_new nsd) hci
        · cases hi

/-- the node at any path of a merged tree is the merge of the nodes at that path. -/
theorem descend_merge (p : List Label) : ∀ (a b : ZNode), KeysNodup b →
    (ZNode.merge a b).descend p =
      match a.descend p, b.descend p with
      | some x, some y => some (ZNode.merge x y)
      | some x, none => some x
      | none, some y => some y
      | none, none => none := by
  induction p with
  | nil => intro a b _; simp
  | cons l rest ih =>
    intro a b hb
    simp only [descend_cons, merge_children]
    rw [childGet_mergeChildren _ _ _ hb.here]
    cases ha : childGet a.children l with
    | none =>
      cases hc : childGet b.children l with
      | none => simp
      | some y => simp only [Option.bind_some, Option.bind_none]; cases y.descend rest <;> rfl
    | some x =>
      cases hc : childGet b.children l with
      | none => simp only [Option.bind_some, Option.bind_none]; cases x.descend rest <;> rfl
      | some y => simp only [Option.bind_some]; exact ih x y (hb.child hc)

end ZNode

end Resolved
