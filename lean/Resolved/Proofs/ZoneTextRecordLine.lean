/-
  C13, line level: a record line written by `Zone::serialise` is read back by `parse_entry` as that
  record.
-/
import Resolved.Proofs.ZoneTextLines

namespace Resolved.ZoneText

open Resolved Resolved.IpText Gen

/-! ## RDATA that fits its type -/

inductive RdataOK : Nat → List FieldVal → Prop where
  | a (addr : Nat) (h : addr < 4294967296) : RdataOK 1 [.a addr]
  | oneName (c : Nat) (hc : c = 2 ∨ c = 3 ∨ c = 4 ∨ c = 5 ∨ c = 7 ∨ c = 8 ∨ c = 9 ∨ c = 12) (n : Name)
      (hn : TextName n) : RdataOK c [.name n]
  | octets (c : Nat) (hc : c = 10 ∨ c = 11 ∨ c = 13 ∨ c = 16) (bs : List UInt8) : RdataOK c [.opaque bs]
  | minfo (r e : Name) (hr : TextName r) (he : TextName e) : RdataOK 14 [.name r, .name e]
  | mx (p : Nat) (e : Name) (hp : p < 65536) (he : TextName e) : RdataOK 15 [.u16 p, .name e]
  | aaaa (gs : List Nat) (h : FieldOK (.aaaa gs)) : RdataOK 28 [.aaaa gs]
  | srv (p w port : Nat) (t : Name) (hp : p < 65536) (hw : w < 65536) (hport : port < 65536)
      (ht : TextName t) : RdataOK 33 [.u16 p, .u16 w, .u16 port, .name t]

theorem RdataOK.fields {c : Nat} {fs : List FieldVal} (h : RdataOK c fs) : ∀ f ∈ fs, FieldOK f := by
  cases h <;> intro f hf <;> simp at hf
  all_goals first
    | (subst hf; assumption)
    | (rcases hf with hf | hf <;> subst hf <;> assumption)
    | (rcases hf with hf | hf | hf | hf <;> subst hf <;> assumption)
    | (subst hf; trivial)

theorem RdataOK.ne_nil {c : Nat} {fs : List FieldVal} (h : RdataOK c fs) : fs ≠ [] := by
  cases h <;> simp

theorem RdataOK.known {c : Nat} {fs : List FieldVal} (h : RdataOK c fs) :
    (c, showRtype c) ∈ rtypeNames ∧ c ≠ 6 := by
  cases h with
  | a => exact ⟨by decide, by decide⟩
  | oneName c hc n hn =>
    rcases hc with h | h | h | h | h | h | h | h <;> subst h <;> exact ⟨by decide, by decide⟩
  | octets c hc bs =>
    rcases hc with h | h | h | h <;> subst h <;> exact ⟨by decide, by decide⟩
  | minfo => exact ⟨by decide, by decide⟩
  | mx => exact ⟨by decide, by decide⟩
  | aaaa => exact ⟨by decide, by decide⟩
  | srv => exact ⟨by decide, by decide⟩

/-- `serialise_rdata` writes the fields separated by one blank. -/
theorem serialiseRdata_eq (z : Zone) {c : Nat} {fs : List FieldVal} (h : RdataOK c fs) :
    serialiseRdata z c fs = joinSp (fs.map (fieldPiece z)) := by
  cases h with
  | a => simp [serialiseRdata, joinSp, fieldPiece]
  | oneName c hc n hn => simp [serialiseRdata, joinSp, fieldPiece]
  | octets c hc bs => simp [serialiseRdata, joinSp, fieldPiece]
  | minfo => simp [serialiseRdata, joinSp, fieldPiece, sp]
  | mx => simp [serialiseRdata, joinSp, fieldPiece, sp]
  | aaaa => simp [serialiseRdata, joinSp, fieldPiece]
  | srv => simp [serialiseRdata, joinSp, fieldPiece, sp]

/-! ## reading the RDATA back -/

theorem optName_domainStr (z : Zone) (ha : TextName z.apex) (n : Name) (hn : TextName n) :
    optName (emittedOrigin z) ((domainStr z n).map octetAsChar) = some n := by
  unfold optName
  rw [(domainStr_roundtrip z n hn ha).2.2]

theorem wordToken_fst (s : List Char) : (wordToken s).1 = s := rfl

/-- `try_parse_rtype_with_data` on the tokens of `<type> <rdata>` as written gives the RDATA back. -/
theorem tryParse_written (z : Zone) (ha : TextName z.apex) {c : Nat} {fs : List FieldVal} (h : RdataOK c fs) :
    tryParseRtypeWithData (emittedOrigin z) (wordToken (showRtype c) :: fs.map (fieldToken z)) = some ⟨c, fs⟩ := by
  obtain ⟨hmem, -⟩ := h.known
  have hty : rtypeFromStr (showRtype c) = some c := rtypeFromStr_showRtype (c, showRtype c) hmem
  unfold tryParseRtypeWithData
  simp only [wordToken_fst, hty]
  cases h with
  | a addr haddr =>
    simp [fieldToken, wordToken_fst, ipv4FromStr_showIpv4 addr haddr]
  | oneName c hc n hn =>
    have := optName_domainStr z ha n hn
    rcases hc with h | h | h | h | h | h | h | h <;> subst h <;> simp [fieldToken, this]
  | octets c hc bs =>
    rcases hc with h | h | h | h <;> subst h <;> simp [fieldToken]
  | minfo r e hr he =>
    simp [fieldToken, optName_domainStr z ha r hr, optName_domainStr z ha e he]
  | mx p e hp he =>
    simp [fieldToken, wordToken_fst, parseU16_showDec p hp, optName_domainStr z ha e he]
  | aaaa gs hgs =>
    simp [fieldToken, wordToken_fst, ipv6FromStr_showIpv6 gs hgs.1 hgs.2]
  | srv p w port t hp hw hport ht =>
    simp [fieldToken, wordToken_fst, parseU16_showDec p hp, parseU16_showDec w hw,
      parseU16_showDec port hport, optName_domainStr z ha t ht]

/-! ## the line -/

theorem readsAll_fields (z : Zone) (ha : TextName z.apex) (fs : List FieldVal) (h : ∀ f ∈ fs, FieldOK f) :
    ReadsAll (fs.map (fieldPiece z)) (fs.map (fieldToken z)) := by
  induction fs with
  | nil => exact .nil
  | cons f fs ih =>
    exact .cons (reads_field z ha f (h f (by simp))) (ih (fun g hg => h g (by simp [hg])))

theorem reads_word {s : List Char} (hne : s ≠ []) (h : ∀ c ∈ s, wordChar c = true) : Reads s (wordToken s) :=
  reads_plain (plainWord_of_wordChars hne h)

/-- the tokens of a record line. -/
def lineTokens (z : Zone) (domain : Name) (zr : ZoneRecord) : List Token :=
  ((domainStr z domain).map octetAsChar, domainStr z domain) :: wordToken (showDec zr.ttl) :: tIN
    :: wordToken (showRtype zr.rtype) :: zr.fields.map (fieldToken z)

/-- **tokenisation of a record line**: exactly owner, TTL, `IN`, type and the RDATA fields; the line
    feed ends the entry. -/
theorem recordLine_tokenise (z : Zone) (ha : TextName z.apex) (domain : Name) (hd : TextName domain)
    (hasWildcards : Bool) (zr : ZoneRecord) (hzr : RdataOK zr.rtype zr.fields) (rest : List Char) :
    tokeniseEntry (serialiseRecordLine z domain hasWildcards zr ++ rest)
      = .ok (lineTokens z domain zr, rest) := by
  obtain ⟨hmem, -⟩ := hzr.known
  have hline : serialiseRecordLine z domain hasWildcards zr ++ rest =
      joinSp ([serialiseDomain z domain ++ (if hasWildcards then [' ', ' '] else []), showDec zr.ttl, sIN,
        showRtype zr.rtype] ++ zr.fields.map (fieldPiece z)) ++ '\n' :: rest := by
    rw [joinSp_append _ _ (by simp) (by simpa using hzr.ne_nil)]
    simp only [serialiseRecordLine, serialiseRdata_eq z hzr, joinSp, sp, nl, List.append_assoc,
      List.cons_append, List.nil_append]
  have howner : Reads (serialiseDomain z domain ++ (if hasWildcards then [' ', ' '] else []))
      ((domainStr z domain).map octetAsChar, domainStr z domain) := by
    have h0 := reads_serialiseOctets_unquoted _ (domainStr_roundtrip z domain hd ha).1
    cases hasWildcards with
    | false => simpa [serialiseDomain] using h0
    | true =>
      have := (Reads.append_space (Reads.append_space h0))
      simpa [serialiseDomain, List.append_assoc] using this
  have hall : ReadsAll ([serialiseDomain z domain ++ (if hasWildcards then [' ', ' '] else []),
        showDec zr.ttl, sIN, showRtype zr.rtype] ++ zr.fields.map (fieldPiece z)) (lineTokens z domain zr) := by
    unfold lineTokens
    refine .cons howner (.cons (reads_word (showDec_words _).1 (showDec_words _).2) (.cons ?_ (.cons ?_ ?_)))
    · exact reads_word (by decide) (by decide)
    · exact reads_word (showRtype_ne_nil _ hmem) (showRtype_words _ hmem)
    · exact readsAll_fields z ha _ hzr.fields
  unfold tokeniseEntry
  rw [hline, reads_seq _ _ hall (by simp)]
  simp

/-- what `serialise_domain` writes contains no upper-case letter, so it is never `$ORIGIN` / `$INCLUDE`. -/
theorem dottedLabels_not_upper (ls : List Label) (first : Bool)
    (h : ∀ l ∈ ls, ∀ b ∈ l, b.toNat < 128 ∧ ¬ isUpper b) : ∀ b ∈ Name.dottedLabels ls first, ¬ isUpper b := by
  induction ls generalizing first with
  | nil => intro b hb; simp [Name.dottedLabels] at hb
  | cons l ls ih =>
    intro b hb
    have hl := h l (by simp)
    have hla : ∀ x ∈ l, x.toNat < 128 := fun x hx => (hl x hx).1
    cases first
    · rw [dottedLabels_cons_false l ls hla] at hb
      simp only [List.mem_cons, List.mem_append] at hb
      rcases hb with hb | hb | hb
      · subst hb; decide
      · exact (hl b hb).2
      · exact ih false (fun x hx => h x (by simp [hx])) b hb
    · rw [dottedLabels_cons_true l ls hla] at hb
      simp only [List.mem_append] at hb
      rcases hb with hb | hb
      · exact (hl b hb).2
      · exact ih false (fun x hx => h x (by simp [hx])) b hb

theorem domainStr_not_upper (z : Zone) (name : Name) (hn : TextName name) (ha : TextName z.apex) :
    ∀ b ∈ domainStr z name, ¬ isUpper b := by
  have hlab : ∀ l ∈ name.labels, ∀ b ∈ l, b.toNat < 128 ∧ ¬ isUpper b :=
    fun l hl b hb => ⟨((hn.2 l hl).2 b hb).1, ((hn.2 l hl).2 b hb).2.2⟩
  have habs : ∀ b ∈ name.toDotted, ¬ isUpper b := by
    unfold Name.toDotted
    split
    · intro b hb; simp at hb; subst hb; decide
    · exact dottedLabels_not_upper _ _ hlab
  rcases domainStr_cases z name hn ha with h | h | ⟨r0, rs, hlabels, -, -, h⟩
  · rw [h]; exact habs
  · rw [h]; intro b hb; simp at hb; subst hb; decide
  · rw [h]
    apply dottedLabels_not_upper
    intro l hl
    exact hlab l (by rw [hlabels]; exact List.mem_append_left _ hl)

theorem owner_not_directive (z : Zone) (name : Name) (hn : TextName name) (ha : TextName z.apex) :
    (domainStr z name).map octetAsChar ≠ sORIGIN ∧ (domainStr z name).map octetAsChar ≠ sINCLUDE := by
  have hup := domainStr_not_upper z name hn ha
  have key : ∀ (s : List Char), 'I' ∈ s → (domainStr z name).map octetAsChar ≠ s := by
    intro s hs he
    rw [← he] at hs
    simp only [List.mem_map] at hs
    obtain ⟨b, hb, hbc⟩ := hs
    have : b = 73 := octetAsChar_inj (hbc.trans (show 'I' = octetAsChar 73 from rfl))
    subst this
    exact hup 73 hb (by decide)
  exact ⟨key _ (by decide), key _ (by decide)⟩

/-- **C13, lines**: a record line written by `Zone::serialise` for an ordinary owner is read back by
    `parse_entry`, under the origin the serialiser emitted and whatever the previous owner and TTL,
    as exactly that record; the rest of the stream is what followed the line. -/
theorem recordLine_roundtrip (z : Zone) (ha : TextName z.apex) (domain : Name) (hd : TextName domain)
    (hs : NoStar domain) (hasWildcards : Bool) (zr : ZoneRecord) (hzr : RdataOK zr.rtype zr.fields)
    (httl : zr.ttl < 4294967296) (pd : Option MaybeWildcard) (pt : Option Nat) (fuel : Nat)
    (rest : List Char) :
    parseEntry (fuel + 1) (emittedOrigin z) pd pt (serialiseRecordLine z domain hasWildcards zr ++ rest)
      = .ok (some (.rr (zr.toRR domain))) rest := by
  obtain ⟨hmem, hne6⟩ := hzr.known
  have hnd := owner_not_directive z domain hd ha
  simp only [parseEntry, recordLine_tokenise z ha domain hd hasWildcards zr hzr rest, lineTokens,
    hnd.1, hnd.2, if_false]
  have hshape := shape_domain_ttl_class (emittedOrigin z) pd pt
    ((domainStr z domain).map octetAsChar, domainStr z domain) (wordToken (showDec zr.ttl))
    (wordToken (showRtype zr.rtype)) (zr.fields.map (fieldToken z)) ⟨zr.rtype, zr.fields⟩
    (.normal domain) zr.ttl (tryParse_written z ha hzr) (owner_roundtrip z domain hd ha hs)
    (parseU32_showDec zr.ttl httl)
  rw [hshape]
  simp only
  have : toRr (.normal domain) ⟨zr.rtype, zr.fields⟩ zr.ttl = .rr (zr.toRR domain) := by
    unfold toRr ZoneRecord.toRR
    simp only
    split
    · rename_i h6 _; exact absurd h6 hne6
    · rfl
  rw [this]

/-! ## wildcard lines -/

theorem reads_wildcard_owner (bs : List UInt8) :
    Reads ('*' :: '.' :: serialiseOctets bs false) ('*' :: '.' :: bs.map octetAsChar, 42 :: 46 :: bs) := by
  apply Reads.ofUnquoted (by simp)
  intro rest rtoks lc
  simp only [serialiseOctets, Bool.false_eq_true, if_false, List.nil_append, List.append_nil, List.cons_append]
  rw [tokLoop_init_plain (c := '*') (by decide), tokLoop_unq_plain (c := '.') (by decide),
    tokLoop_serialise_unquoted_body]
  simp only [List.reverse_cons, List.append_assoc, List.cons_append, List.nil_append]
  rfl

def wildcardLineTokens (z : Zone) (domain : Name) (zr : ZoneRecord) : List Token :=
  ('*' :: '.' :: (domainStr z domain).map octetAsChar, 42 :: 46 :: domainStr z domain)
    :: wordToken (showDec zr.ttl) :: tIN :: wordToken (showRtype zr.rtype) :: zr.fields.map (fieldToken z)

theorem wildcardLine_tokenise (z : Zone) (ha : TextName z.apex) (domain : Name)
    (zr : ZoneRecord) (hzr : RdataOK zr.rtype zr.fields) (rest : List Char) :
    tokeniseEntry (serialiseWildcardLine z domain zr ++ rest) = .ok (wildcardLineTokens z domain zr, rest) := by
  obtain ⟨hmem, -⟩ := hzr.known
  have hline : serialiseWildcardLine z domain zr ++ rest =
      joinSp (['*' :: '.' :: serialiseDomain z domain, showDec zr.ttl, sIN, showRtype zr.rtype]
        ++ zr.fields.map (fieldPiece z)) ++ '\n' :: rest := by
    rw [joinSp_append _ _ (by simp) (by simpa using hzr.ne_nil)]
    simp only [serialiseWildcardLine, serialiseRdata_eq z hzr, joinSp, sp, nl, List.append_assoc,
      List.cons_append, List.nil_append]
  have hall : ReadsAll (['*' :: '.' :: serialiseDomain z domain, showDec zr.ttl, sIN, showRtype zr.rtype]
        ++ zr.fields.map (fieldPiece z)) (wildcardLineTokens z domain zr) := by
    unfold wildcardLineTokens
    refine .cons (reads_wildcard_owner _) (.cons (reads_word (showDec_words _).1 (showDec_words _).2)
      (.cons ?_ (.cons ?_ ?_)))
    · exact reads_word (by decide) (by decide)
    · exact reads_word (showRtype_ne_nil _ hmem) (showRtype_words _ hmem)
    · exact readsAll_fields z ha _ hzr.fields
  unfold tokeniseEntry
  rw [hline, reads_seq _ _ hall (by simp)]
  simp

/-- **C13, wildcard lines**: `*.<owner> <ttl> IN <type> <rdata>` as written is read back as that
    wildcard record. -/
theorem wildcardLine_roundtrip (z : Zone) (ha : TextName z.apex) (domain : Name) (hd : TextName domain)
    (zr : ZoneRecord) (hzr : RdataOK zr.rtype zr.fields) (httl : zr.ttl < 4294967296)
    (pd : Option MaybeWildcard) (pt : Option Nat) (fuel : Nat) (rest : List Char) :
    parseEntry (fuel + 1) (emittedOrigin z) pd pt (serialiseWildcardLine z domain zr ++ rest)
      = .ok (some (.wildcardRR (zr.toRR domain))) rest := by
  obtain ⟨hmem, hne6⟩ := hzr.known
  have hnd : ('*' :: '.' :: (domainStr z domain).map octetAsChar) ≠ sORIGIN ∧
      ('*' :: '.' :: (domainStr z domain).map octetAsChar) ≠ sINCLUDE := by
    constructor <;> (intro h; simp [sORIGIN, sINCLUDE] at h)
  simp only [parseEntry, wildcardLine_tokenise z ha domain zr hzr rest, wildcardLineTokens,
    hnd.1, hnd.2, if_false]
  have hshape := shape_domain_ttl_class (emittedOrigin z) pd pt
    ('*' :: '.' :: (domainStr z domain).map octetAsChar, 42 :: 46 :: domainStr z domain)
    (wordToken (showDec zr.ttl)) (wordToken (showRtype zr.rtype)) (zr.fields.map (fieldToken z))
    ⟨zr.rtype, zr.fields⟩ (.wildcard domain) zr.ttl (tryParse_written z ha hzr)
    (wildcard_owner_roundtrip z domain hd ha) (parseU32_showDec zr.ttl httl)
  rw [hshape]
  simp only
  have : toRr (.wildcard domain) ⟨zr.rtype, zr.fields⟩ zr.ttl = .wildcardRR (zr.toRR domain) := by
    unfold toRr ZoneRecord.toRR
    simp only
    split
    · rename_i h6 _; exact absurd h6 hne6
    · rfl
  rw [this]

end Resolved.ZoneText
