/-
  Helper lemmas for C04 (encoder/decoder round trip), part 1:
  octet arithmetic, big-endian integers, header flag octets, RDATA layout tables.
-/
import Resolved.Spec.Wire

namespace Resolved

open Gen

/-! ## Octets -/

theorem u8_toNat (n : Nat) (h : n < 256) : (u8 n).toNat = n := by
  simp [u8]; omega

theorem u8_toNat_mod (n : Nat) : (u8 n).toNat = n % 256 := by
  simp [u8]

@[simp] theorem u16Bytes_length (v : Nat) : (u16Bytes v).length = 2 := rfl
@[simp] theorem u32Bytes_length (v : Nat) : (u32Bytes v).length = 4 := rfl

/-! ## Big-endian integers -/

theorem nextU8_at (pre post : List UInt8) (o : UInt8) :
    nextU8 (pre ++ o :: post) pre.length = some (o.toNat, pre.length + 1) := by
  unfold nextU8
  simp

theorem nextU16_at (pre post : List UInt8) (v : Nat) (h : v < 65536) :
    nextU16 (pre ++ u16Bytes v ++ post) pre.length = some (v, pre.length + 2) := by
  unfold nextU16 u16Bytes
  simp [u8_toNat_mod]
  omega

theorem nextU32_at (pre post : List UInt8) (v : Nat) (h : v < 4294967296) :
    nextU32 (pre ++ u32Bytes v ++ post) pre.length = some (v, pre.length + 4) := by
  unfold nextU32 u32Bytes
  simp [u8_toNat_mod]
  omega

theorem takeN_at (pre bs post : List UInt8) :
    takeN (pre ++ bs ++ post) pre.length bs.length = some (bs, pre.length + bs.length) := by
  unfold takeN
  simp

/-! ## RDATA layouts -/

theorem rdataLayouts_eq : Gen.rdataDecodeLayout = Gen.rdataEncodeLayout := by decide

theorem decodeLayoutOf_eq (code : Nat) : decodeLayoutOf code = encodeLayoutOf code := by
  unfold decodeLayoutOf encodeLayoutOf; rw [rdataLayouts_eq]

/-- `.opaque` consumes the whole RDATA, so it must be the only field of its layout. -/
def LayoutOK (l : List Field) : Prop := l = [.opaque] ∨ Field.opaque ∉ l

instance (l : List Field) : Decidable (LayoutOK l) := by unfold LayoutOK; infer_instance

theorem rdataEncodeLayout_ok : ∀ e ∈ Gen.rdataEncodeLayout, LayoutOK e.2 := by decide

theorem lookupStr_mem {α} (tbl : List (String × α)) (k : String) (v : α)
    (h : lookupStr tbl k = some v) : (k, v) ∈ tbl := by
  induction tbl with
  | nil => simp [lookupStr] at h
  | cons e rest ih =>
    obtain ⟨k', v'⟩ := e
    simp only [lookupStr] at h
    split at h
    · rename_i hk; cases h; subst hk; simp
    · exact List.mem_cons_of_mem _ (ih h)

theorem encodeLayoutOf_ok (code : Nat) : LayoutOK (encodeLayoutOf code) := by
  unfold encodeLayoutOf
  split
  · rename_i l hl
    exact rdataEncodeLayout_ok _ (lookupStr_mem _ _ _ hl)
  · exact Or.inl rfl

/-! ## Header flag octets -/

/-- first flag octet as `Header::serialise` computes it -/
def flagOctet1 (qr : Bool) (opcode : Nat) (aa tc rd : Bool) : Nat :=
  flag qr HEADER_MASK_QR ||| (HEADER_MASK_OPCODE &&& ((opcode <<< HEADER_OFFSET_OPCODE) % 256))
    ||| flag aa HEADER_MASK_AA ||| flag tc HEADER_MASK_TC ||| flag rd HEADER_MASK_RD

/-- second flag octet as `Header::serialise` computes it -/
def flagOctet2 (ra : Bool) (rcode : Nat) : Nat :=
  flag ra HEADER_MASK_RA ||| (HEADER_MASK_RCODE &&& ((rcode <<< HEADER_OFFSET_RCODE) % 256))

theorem flagOctet1_fin : ∀ (qr aa tc rd : Bool) (op : Fin 16),
    flagOctet1 qr op.val aa tc rd < 256 ∧
    testBit (flagOctet1 qr op.val aa tc rd) HEADER_MASK_QR = qr ∧
    opcodeFromU8 ((flagOctet1 qr op.val aa tc rd &&& HEADER_MASK_OPCODE) >>> HEADER_OFFSET_OPCODE)
      = op.val ∧
    testBit (flagOctet1 qr op.val aa tc rd) HEADER_MASK_AA = aa ∧
    testBit (flagOctet1 qr op.val aa tc rd) HEADER_MASK_TC = tc ∧
    testBit (flagOctet1 qr op.val aa tc rd) HEADER_MASK_RD = rd := by decide

theorem flagOctet2_fin : ∀ (ra : Bool) (rc : Fin 16),
    flagOctet2 ra rc.val < 256 ∧
    testBit (flagOctet2 ra rc.val) HEADER_MASK_RA = ra ∧
    rcodeFromU8 ((flagOctet2 ra rc.val &&& HEADER_MASK_RCODE) >>> HEADER_OFFSET_RCODE) = rc.val := by
  decide

theorem flagOctet1_spec (qr aa tc rd : Bool) (op : Nat) (h : op < 16) :
    flagOctet1 qr op aa tc rd < 256 ∧
    testBit (flagOctet1 qr op aa tc rd) HEADER_MASK_QR = qr ∧
    opcodeFromU8 ((flagOctet1 qr op aa tc rd &&& HEADER_MASK_OPCODE) >>> HEADER_OFFSET_OPCODE) = op ∧
    testBit (flagOctet1 qr op aa tc rd) HEADER_MASK_AA = aa ∧
    testBit (flagOctet1 qr op aa tc rd) HEADER_MASK_TC = tc ∧
    testBit (flagOctet1 qr op aa tc rd) HEADER_MASK_RD = rd :=
  flagOctet1_fin qr aa tc rd ⟨op, h⟩

theorem flagOctet2_spec (ra : Bool) (rc : Nat) (h : rc < 16) :
    flagOctet2 ra rc < 256 ∧
    testBit (flagOctet2 ra rc) HEADER_MASK_RA = ra ∧
    rcodeFromU8 ((flagOctet2 ra rc &&& HEADER_MASK_RCODE) >>> HEADER_OFFSET_RCODE) = rc :=
  flagOctet2_fin ra ⟨rc, h⟩

theorem decodeFlags_flagOctets (h : Header) (hwf : HeaderWF h) :
    decodeFlags h.id
      (flagOctet1 h.isResponse h.opcode h.isAuthoritative h.isTruncated h.recursionDesired)
      (flagOctet2 h.recursionAvailable h.rcode) = h := by
  obtain ⟨_, hop, hrc⟩ := hwf
  obtain ⟨_, a1, a2, a3, a4, a5⟩ :=
    flagOctet1_spec h.isResponse h.isAuthoritative h.isTruncated h.recursionDesired h.opcode hop
  obtain ⟨_, b1, b2⟩ := flagOctet2_spec h.recursionAvailable h.rcode hrc
  unfold decodeFlags
  rw [a1, a2, a3, a4, a5, b1, b2]

/-- the octets `Header::serialise` appends -/
def headerBytes (h : Header) : List UInt8 :=
  u16Bytes h.id ++
    [u8 (flagOctet1 h.isResponse h.opcode h.isAuthoritative h.isTruncated h.recursionDesired),
     u8 (flagOctet2 h.recursionAvailable h.rcode)]

theorem encodeHeader_eq (b : WBuf) (h : Header) :
    encodeHeader b h = ⟨b.octets ++ headerBytes h, b.namePointers⟩ := by
  simp [encodeHeader, headerBytes, WBuf.writeU16, WBuf.writeU8, WBuf.writeOctets, flagOctet1,
    flagOctet2]

end Resolved
