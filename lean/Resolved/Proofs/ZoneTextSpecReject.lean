/-
  C11: rejected files — `denote ds = .error e` ⇒ parsing `render ds v` gives an error
  (except in the situation of the open finding C11-K1).
-/
import Resolved.Proofs.ZoneTextSpecZone

namespace Resolved.ZoneText

open Resolved Resolved.IpText Gen ZTSpec

/-! ## the insertion loops never panic on acceptable names -/

section nopanic
open ZSpec ZNode

theorem insertAll_ok_or_outside (wild : Bool) (apex : Name) (soa : Option SOA) (rrs : List RR)
    (hn : ∀ rr ∈ rrs, NameOK rr.name) :
    ∀ (z : Zone) (es : List ZSpec.Entry), Zone.Repr z apex soa es →
      (∃ z' es', insertAll wild z rrs = .ok z' ∧ Zone.Repr z' apex soa es') ∨
      insertAll wild z rrs = .err .notSubdomainOfApex := by
  induction rrs with
  | nil => intro z es hr; exact Or.inl ⟨z, es, rfl, hr⟩
  | cons rr rest ih =>
    intro z es hr
    simp only [insertAll]
    by_cases hsub : rr.name.isSubdomainOf z.apex = true
    · simp only [hsub, Bool.not_true, Bool.false_eq_true, if_false]
      have hsome := Zone.insert_isSome z rr.name rr.rtype rr.fields rr.ttl wild hr.tree.names
        (hr.root_name.trans hr.apex_eq.symm) (hn rr (by simp))
      obtain ⟨z1, hz1⟩ := Option.isSome_iff_exists.mp hsome
      rw [hz1]
      simp only
      have hr1 := Zone.repr_applyOp z z1 apex soa es ⟨rr.name, rr.rtype, rr.fields, rr.ttl, wild⟩ hr hz1
      exact ih (fun x hx => hn x (by simp [hx])) z1 _ hr1
    · have : rr.name.isSubdomainOf z.apex = false := by simpa using hsub
      simp [this]

/-- the zone-building phase on acceptable names ends in a zone or in `NotSubdomainOfApex`. -/
theorem insertBoth_ok_or_outside (apex : Name) (soa : Option SOA) (hap : NameOK apex) (R W : List RR)
    (hR : ∀ rr ∈ R, NameOK rr.name) (hW : ∀ rr ∈ W, NameOK rr.name) :
    (∃ z, insertBoth (Zone.new apex soa) R W = .ok z) ∨
    insertBoth (Zone.new apex soa) R W = .err .notSubdomainOfApex := by
  unfold insertBoth
  rcases insertAll_ok_or_outside false apex soa R hR _ _ (Zone.repr_new apex soa hap) with ⟨z1, es1, h1, hr1⟩ | h1
  · rw [h1]
    simp only
    rcases insertAll_ok_or_outside true apex soa W hW z1 es1 hr1 with ⟨z2, es2, h2, -⟩ | h2
    · exact Or.inl ⟨z2, h2⟩
    · exact Or.inr h2
  · rw [h1]
    exact Or.inr rfl

end nopanic

/-- **a record outside the apex**: when the specification rejects the file at its final check
    (`outsideApex`), `Zone::deserialise` ends in `NotSubdomainOfApex`. -/
theorem parse_render_outside (ds : List Directive) (v : FileVar) (hu : Unambiguous ds = true)
    (hv : VariantOk v) (dstF : DenoteState) (hall : denoteAll {} ds = .ok dstF)
    (hout : ((dstF.records ++ dstF.wildcards).all (fun r => ZTSpec.isSuffix (apexOf dstF) r.owner)) = false) :
    deserialise (render ds v) = .err .notSubdomainOfApex := by
  have hok := unambiguous_directives hu
  obtain ⟨stF, hdes, hrel⟩ := deserialise_render ds v hv hok dstF hall
  have hnames := denoteAll_names ds {} dstF dstNames_init hok hall
  let apex : Name := apexOf dstF
  let soa : Option SOA := dstF.soa.map (·.2)
  have hapex : NameOK apex := by
    show Name.fromLabels apex.labels = some apex
    cases hs : dstF.soa with
    | none => simp only [apex, apexOf, hs]; decide
    | some p => simp only [apex, apexOf, hs]; exact (hnames.soa p hs).1
  have hbz : buildZone stF = insertBoth (Zone.new apex soa) (dstF.records.map frRR) (dstF.wildcards.map frRR) := by
    rw [buildZone_eq, hrel.soa, hrel.rrs, hrel.wrrs]
    cases hs : dstF.soa with
    | none => simp only [apex, soa, apexOf, hs]; rfl
    | some p => simp only [apex, soa, apexOf, hs]; rfl
  have hR : ∀ rr ∈ dstF.records.map frRR, NameOK rr.name := by
    intro rr hrr
    simp only [List.mem_map] at hrr
    obtain ⟨fr, hfr, rfl⟩ := hrr
    exact (hnames.recs fr hfr).1
  have hW : ∀ rr ∈ dstF.wildcards.map frRR, NameOK rr.name := by
    intro rr hrr
    simp only [List.mem_map] at hrr
    obtain ⟨fr, hfr, rfl⟩ := hrr
    exact (hnames.wilds fr hfr).1
  rw [hdes, hbz]
  rcases insertBoth_ok_or_outside apex soa hapex _ _ hR hW with ⟨z, hz⟩ | h
  · exfalso
    -- a record outside the apex makes the loops fail
    simp only [List.all_eq_false, List.mem_append] at hout
    obtain ⟨fr, hfr, hbad⟩ := hout
    have hbad' : fr.owner.isSubdomainOf (Zone.new apex soa).apex = false := by
      rw [(Zone.new_apex_soa apex soa).1]
      have hb : ZTSpec.isSuffix (apexOf dstF) fr.owner = false := by simpa using hbad
      exact hb
    refine insertBoth_outside (Zone.new apex soa) _ _ ⟨frRR fr, ?_, hbad'⟩ z hz
    rcases hfr with h | h
    · exact Or.inl (List.mem_map_of_mem h)
    · exact Or.inr (List.mem_map_of_mem h)
  · exact h

/-! ## rejected record lines: what `parse_rr` does -/

/-- when the type token with its RDATA does not parse and no other token spells a type, every one of
    the four positions `try_parse_rtype_with_data` is tried at fails. -/
theorem tryParse_drop_none (o : Option Name) (ty : Token) (rd : List Token) (hrd : NoType rd)
    (hty : tryParseRtypeWithData o (ty :: rd) = none) :
    ∀ (pre : List Token), NoType pre → ∀ j, tryParseRtypeWithData o ((pre ++ ty :: rd).drop j) = none := by
  intro pre
  induction pre with
  | nil =>
    intro _ j
    cases j with
    | zero => exact hty
    | succ j =>
      simp only [List.nil_append, List.drop_succ_cons]
      exact tryParse_noType o _ (fun t ht => hrd t (List.mem_of_mem_drop ht))
  | cons p ps ih =>
    intro hpre j
    cases j with
    | zero => exact tryParse_head_none o p _ (hpre p (by simp))
    | succ j =>
      simp only [List.cons_append, List.drop_succ_cons]
      exact ih (fun t ht => hpre t (by simp [ht])) j

theorem parseRr4_none_of_drop (o : Option Name) (l : List Token)
    (h : tryParseRtypeWithData o (l.drop 3) = none) : parseRr4 o l = none := by
  unfold parseRr4
  split
  · simp only [List.drop_succ_cons, List.drop_zero] at h; rw [h]
  · rfl

theorem parseRr3_none_of_drop (o : Option Name) (pd : Option MaybeWildcard) (pt : Option Nat) (l : List Token)
    (h : tryParseRtypeWithData o (l.drop 2) = none) : parseRr3 o pd pt l = none := by
  unfold parseRr3
  split
  · simp only [List.drop_succ_cons, List.drop_zero] at h; rw [h]
  · rfl

theorem parseRr2_none_of_drop (o : Option Name) (pd : Option MaybeWildcard) (pt : Option Nat) (l : List Token)
    (h : tryParseRtypeWithData o (l.drop 1) = none) : parseRr2 o pd pt l = none := by
  unfold parseRr2
  split
  · simp only [List.drop_succ_cons, List.drop_zero] at h; rw [h]
  · rfl

theorem parseRr1_none_of_drop (o : Option Name) (pd : Option MaybeWildcard) (pt : Option Nat) (l : List Token)
    (h : tryParseRtypeWithData o l = none) : parseRr1 o pd pt l = none := by
  unfold parseRr1
  split
  · rw [h]
  · rfl

/-- **`<type> <rdata>` unreadable ⇒ `MissingType`**: when the RDATA does not parse for the type written
    (a name that cannot be resolved, …) and no other token of the line spells a type, `parse_rr`
    answers `MissingType`. -/
theorem parseRr_missingType (o : Option Name) (pd : Option MaybeWildcard) (pt : Option Nat)
    (pre : List Token) (ty : Token) (rd : List Token) (hpre : NoType pre) (hrd : NoType rd)
    (hty : tryParseRtypeWithData o (ty :: rd) = none) :
    parseRr o pd pt (pre ++ ty :: rd) = .error .missingType := by
  have hd := tryParse_drop_none o ty rd hrd hty pre hpre
  have hne : (pre ++ ty :: rd).isEmpty = false := by cases pre <;> rfl
  unfold parseRr
  rw [hne, parseRr4_none_of_drop o _ (hd 3), parseRr3_none_of_drop o pd pt _ (hd 2),
    parseRr2_none_of_drop o pd pt _ (hd 1), parseRr1_none_of_drop o pd pt _ (by simpa using hd 0)]
  rfl

/-- **a name of the RDATA that cannot be resolved ⇒ `try_parse_rtype_with_data` fails**. -/
theorem tryParse_spec_err (o : Option Name) (ho : ∀ on, o = some on → TextName on) (lv : LineVar)
    (code : Nat) (rd : List RField) (hfit : SpecRdata code rd) (hnames : RdataNamesOk rd)
    (e : SpecError) (hres : resolveFields o rd = .error e) :
    tryParseRtypeWithData o (tokenOf (asciiAtoms (typeText lv.typeNumeric code)) :: rd.map (fieldTok lv))
      = none := by
  obtain ⟨s, htok, hty, -⟩ := typeToken_spec lv.typeNumeric code hfit.known
  rw [htok]
  unfold tryParseRtypeWithData
  simp only [hty]
  have hname : ∀ n, RField.name n ∈ rd → nameRefOk false n = true := fun n hn => hnames _ hn
  cases hfit with
  | a x hx => simp [resolveFields, resolveField] at hres
  | oneName c hc n =>
    simp only [resolveFields, resolveField] at hres
    cases hr : resolve o n with
    | ok nm => rw [hr] at hres; simp [Except.map] at hres
    | error x =>
      have := optName_spec_err o ho n (hname n (by simp)) hr
      rcases hc with h | h | h | h | h | h | h | h <;> subst h <;> simp [fieldTok_name, this]
  | octets c hc bs => simp [resolveFields, resolveField] at hres
  | minfo r e' =>
    simp only [resolveFields, resolveField] at hres
    cases hr : resolve o r with
    | error x => simp [fieldTok_name, optName_spec_err o ho r (hname r (by simp)) hr]
    | ok rn =>
      cases he : resolve o e' with
      | error x =>
        simp [fieldTok_name, optName_spec_err o ho e' (hname e' (by simp)) he]
      | ok en => rw [hr, he] at hres; simp [Except.map] at hres
  | mx p e' hp =>
    simp only [resolveFields, resolveField] at hres
    cases he : resolve o e' with
    | error x => simp [fieldTok_name, optName_spec_err o ho e' (hname e' (by simp)) he]
    | ok en => rw [he] at hres; simp [Except.map] at hres
  | aaaa gs hl hg => simp [resolveFields, resolveField] at hres
  | srv p w port t hp hw hport =>
    simp only [resolveFields, resolveField] at hres
    cases ht : resolve o t with
    | error x => simp [fieldTok_name, optName_spec_err o ho t (hname t (by simp)) ht]
    | ok tn => rw [ht] at hres; simp [Except.map] at hres
  | soa m r a b c d e' ha hb hc hd he =>
    simp only [resolveFields, resolveField] at hres
    cases hm : resolve o m with
    | error x => simp [fieldTok_name, optName_spec_err o ho m (hname m (by simp)) hm]
    | ok mn =>
      cases hr : resolve o r with
      | error x => simp [fieldTok_name, optName_spec_err o ho r (hname r (by simp)) hr]
      | ok rn => rw [hm, hr] at hres; simp [Except.map] at hres

/-! ## an owner that cannot be resolved, in each of the five shapes with an owner field -/

section ownerErr

variable (o : Option Name) (pd : Option MaybeWildcard) (pt : Option Nat)
variable (d t ty : Token) (rd : List Token) (rdat : RData) (e : Error)

theorem ownerErr_ttl_class (hty : tryParseRtypeWithData o (ty :: rd) = some rdat)
    (hd : parseDomainOrWildcard o d.1 = .error e) :
    parseRr o pd pt (d :: t :: tIN :: ty :: rd) = .error e := by
  simp [parseRr, parseRr4, hty, hd]

theorem ownerErr_class_ttl (hty : tryParseRtypeWithData o (ty :: rd) = some rdat)
    (hd : parseDomainOrWildcard o d.1 = .error e) :
    parseRr o pd pt (d :: tIN :: t :: ty :: rd) = .error e := by
  simp [parseRr, parseRr4, hty, hd]

theorem ownerErr_ttl (hty : tryParseRtypeWithData o (ty :: rd) = some rdat) (hrd : NoType rd)
    (hd : parseDomainOrWildcard o d.1 = .error e) (htIN : t.1 ≠ sIN) (hdIN : d.1 ≠ sIN) :
    parseRr o pd pt (d :: t :: ty :: rd) = .error e := by
  have h4 : parseRr4 o (d :: t :: ty :: rd) = none := by
    cases rd with
    | nil => rfl
    | cons r rs => simp [parseRr4, tryParse_noType o _ hrd]
  simp [parseRr, h4, parseRr3, hty, hd, htIN, hdIN]

theorem ownerErr_class (hty : tryParseRtypeWithData o (ty :: rd) = some rdat) (hrd : NoType rd)
    (hd : parseDomainOrWildcard o d.1 = .error e) (hdig : allDigits d.1 = false) :
    parseRr o pd pt (d :: tIN :: ty :: rd) = .error e := by
  have h4 : parseRr4 o (d :: tIN :: ty :: rd) = none := by
    cases rd with
    | nil => rfl
    | cons r rs => simp [parseRr4, tryParse_noType o _ hrd]
  simp [parseRr, h4, parseRr3, hty, hd, tIN_fst, hdig]

theorem ownerErr_bare (hty : tryParseRtypeWithData o (ty :: rd) = some rdat) (hrd : NoType rd)
    (hd : parseDomainOrWildcard o d.1 = .error e) (hdig : allDigits d.1 = false) (hdIN : d.1 ≠ sIN) :
    parseRr o pd pt (d :: ty :: rd) = .error e := by
  have h4 : parseRr4 o (d :: ty :: rd) = none := by
    cases rd with
    | nil => rfl
    | cons r rs =>
      cases rs with
      | nil => rfl
      | cons r2 rs2 => simp [parseRr4, tryParse_noType o _ hrd.tail]
  have h3 : parseRr3 o pd pt (d :: ty :: rd) = none := by
    cases rd with
    | nil => rfl
    | cons r rs => simp [parseRr3, tryParse_noType o _ hrd]
  simp [parseRr, h4, h3, parseRr2, hty, hd, hdig, hdIN]

end ownerErr

/-- **an owner that cannot be resolved ⇒ its error**, whatever optional fields follow. -/
theorem parseRr_owner_err (o : Option Name) (pd : Option MaybeWildcard) (pt : Option Nat) (lv : LineVar)
    (r : Rec) (hcls : r.cls = none ∨ r.cls = some clsIN) (rdat : RData)
    (hty : tryParseRtypeWithData o (typeT lv r.rtype :: r.rdata.map (fieldTok lv)) = some rdat)
    (hnt : NoType (r.rdata.map (fieldTok lv)))
    (ow : OwnerRef) (hown : r.owner = some ow) (e : Error)
    (hd : parseDomainOrWildcard o (ownerChars ow) = .error e)
    (hdig : allDigits (ownerChars ow) = false) (hdIN : ownerChars ow ≠ sIN) :
    parseRr o pd pt (recordTokens lv r) = .error e := by
  unfold recordTokens
  rw [hown]
  cases httl' : r.ttl with
  | some t =>
    rcases hcls with hc | hc <;> rw [hc]
    · simp only [List.cons_append, List.nil_append, List.append_nil, ite_self]
      exact ownerErr_ttl o pd pt (ownerT ow) (ttlT t) (typeT lv r.rtype) _ rdat e hty hnt
        (by rw [ownerT_fst]; exact hd) (by rw [ttlT_fst]; exact showDec_ne_sIN t) (by rw [ownerT_fst]; exact hdIN)
    · cases lv.classFirst with
      | false =>
        simp only [Bool.false_eq_true, if_false, List.cons_append, List.nil_append]
        exact ownerErr_ttl_class o pd pt (ownerT ow) (ttlT t) (typeT lv r.rtype) _ rdat e hty
          (by rw [ownerT_fst]; exact hd)
      | true =>
        simp only [if_true, List.cons_append, List.nil_append]
        exact ownerErr_class_ttl o pd pt (ownerT ow) (ttlT t) (typeT lv r.rtype) _ rdat e hty
          (by rw [ownerT_fst]; exact hd)
  | none =>
    rcases hcls with hc | hc <;> rw [hc]
    · simp only [List.cons_append, List.nil_append, List.append_nil, ite_self]
      exact ownerErr_bare o pd pt (ownerT ow) (typeT lv r.rtype) _ rdat e hty hnt
        (by rw [ownerT_fst]; exact hd) (by rw [ownerT_fst]; exact hdig) (by rw [ownerT_fst]; exact hdIN)
    · simp only [List.cons_append, List.nil_append, List.append_nil, ite_self]
      exact ownerErr_class o pd pt (ownerT ow) (typeT lv r.rtype) _ rdat e hty hnt
        (by rw [ownerT_fst]; exact hd) (by rw [ownerT_fst]; exact hdig)

/-! ## the tokens of a record line of any class -/

def clsT (c : List UInt8) : Token := tokenOf (plainAtoms c)

/-- the tokens of a record line as the tokeniser hands them over (any class). -/
def recTokens (lv : LineVar) (r : Rec) : List Token :=
  (match r.owner with | some ow => [ownerT ow] | none => [])
    ++ (if lv.classFirst then (match r.cls with | some c => [clsT c] | none => []) ++ (match r.ttl with | some t => [ttlT t] | none => [])
        else (match r.ttl with | some t => [ttlT t] | none => []) ++ (match r.cls with | some c => [clsT c] | none => []))
    ++ typeT lv r.rtype :: r.rdata.map (fieldTok lv)

theorem recTokens_eq (lv : LineVar) (r : Rec) :
    (directiveTokens lv (.record r)).map tokenOf = recTokens lv r := by
  unfold directiveTokens recTokens
  simp only
  cases r.cls <;> cases r.owner <;> cases r.ttl <;> cases lv.classFirst <;>
    simp [ownerT, ttlT, typeT, fieldTok, clsT, Function.comp_def]

theorem recTokens_IN (lv : LineVar) (r : Rec) (hcls : r.cls = none ∨ r.cls = some clsIN) :
    recTokens lv r = recordTokens lv r := by
  rw [← recTokens_eq, recordTokens_eq lv r hcls]

theorem tokenise_record_line_any (lv : LineVar) (eol : List Char) (heol : IsEol eol) (hc : CommentOk lv)
    (r : Rec) (tailE rest : List Char) (hle : LineEnd eol tailE rest) :
    tokeniseEntry (renderLine lv eol (.record r) ++ tailE ++ rest) = .ok (recTokens lv r, rest) := by
  rw [renderLine_eq lv eol (.record r) (fun c h => by cases h)]
  obtain ⟨t, ts, hts⟩ := directiveTokens_record_ne_nil lv r
  rw [hts, tokenise_lineBody_le lv eol heol hc _ t ts
    (by rw [← hts]; exact directiveTokens_structural lv (.record r)) tailE rest hle, ← hts,
    recTokens_eq lv r]

/-- the class tokens other than `IN`: not `IN`, not a number, not a type, not a directive keyword. -/
theorem clsT_facts : ∀ c ∈ knownClasses, c ≠ clsIN →
    (clsT c).1 ≠ sIN ∧ parseU32 (clsT c).1 = none ∧ rtypeFromStr (clsT c).1 = none ∧
    (clsT c).1 ≠ sORIGIN ∧ (clsT c).1 ≠ sINCLUDE := by
  intro c hc hne
  have hcl : clsT c = (c.map octetAsChar, c) := tokenOf_plainAtoms c
  rw [hcl]
  simp only [knownClasses, List.mem_cons, List.not_mem_nil, or_false] at hc
  rcases hc with h | h | h | h
  · exact absurd h hne
  all_goals (subst h; decide)

/-- a token beginning with `*` does not spell a record type. -/
theorem rtypeFromStr_star (cs : List Char) : rtypeFromStr ('*' :: cs) = none := by
  simp [rtypeFromStr, lookupByName, rtypeNames, sTYPE]

theorem ownerT_noType (ow : OwnerRef) (h : ownerRefOk false ow = true) : rtypeFromStr (ownerT ow).1 = none := by
  rw [ownerT_fst]
  cases ow with
  | star => exact rtypeFromStr_star []
  | wild n =>
    have : ownerChars (.wild n) = '*' :: ('.' :: nameChars n) := by
      simp [ownerChars, ownerAtoms, nameChars, atomOctets, dot]
      exact ⟨rfl, rfl⟩
    rw [this]; exact rtypeFromStr_star _
  | name n =>
    simp only [ownerRefOk, Bool.and_eq_true, Bool.not_eq_true', bne_iff_ne, ne_eq] at h
    exact rtypeFromStr_none_of_not_spells _ h.1.1.2

theorem ttlT_noType (t : Nat) : rtypeFromStr (ttlT t).1 = none := by
  rw [ttlT_fst]
  have hd := (showDec_digits t)
  cases hs : showDec t with
  | nil => exact absurd hs hd.1
  | cons c cs =>
    have hc : isAsciiDigit c = true := hd.2 c (by rw [hs]; simp)
    simp only [isAsciiDigit, Bool.and_eq_true, decide_eq_true_eq] at hc
    have hne : ∀ x : Char, 65 ≤ x.toNat → c ≠ x := by
      intro x hx he; subst he; omega
    simp [rtypeFromStr, lookupByName, rtypeNames, sTYPE, hne]

/-! ## one rejected record line in the entry loop -/

theorem loopStep_tokens (st : DState) (s : List Char) (t0 : Token) (ts : List Token) (rest : List Char)
    (htok : tokeniseEntry s = .ok (t0 :: ts, rest)) (hO : t0.1 ≠ sORIGIN) (hI : t0.1 ≠ sINCLUDE) :
    loopStep st s =
      match parseRr st.origin st.previousDomain st.previousTtl (t0 :: ts) with
      | .ok e => some (entryStep st e rest)
      | .error e => some (.stop (.error e)) := by
  unfold loopStep
  simp only [parseEntry, htok, hO, hI, if_false]
  cases parseRr st.origin st.previousDomain st.previousTtl (t0 :: ts) <;> rfl

theorem typeT_head (lv : LineVar) (code : Nat) (hknown : KnownCode code) :
    (typeT lv code).1 ≠ sORIGIN ∧ (typeT lv code).1 ≠ sINCLUDE := by
  obtain ⟨s, htok, hty, -⟩ := typeToken_spec lv.typeNumeric code hknown
  unfold typeT
  rw [htok]
  simp only
  have n1 : rtypeFromStr sORIGIN = none := by decide
  have n2 : rtypeFromStr sINCLUDE = none := by decide
  constructor <;> intro h <;> rw [h] at hty
  · rw [n1] at hty; cases hty
  · rw [n2] at hty; cases hty

/-- the tokens before the type token of a rendered record line. -/
def preTokens (lv : LineVar) (r : Rec) : List Token :=
  (match r.owner with | some ow => [ownerT ow] | none => [])
    ++ (if lv.classFirst then (match r.cls with | some c => [clsT c] | none => []) ++ (match r.ttl with | some t => [ttlT t] | none => [])
        else (match r.ttl with | some t => [ttlT t] | none => []) ++ (match r.cls with | some c => [clsT c] | none => []))

theorem recTokens_pre (lv : LineVar) (r : Rec) :
    recTokens lv r = preTokens lv r ++ typeT lv r.rtype :: r.rdata.map (fieldTok lv) := rfl

theorem mem_preTokens {lv : LineVar} {r : Rec} {t : Token} (h : t ∈ preTokens lv r) :
    (∃ ow, r.owner = some ow ∧ t = ownerT ow) ∨ (∃ x, r.ttl = some x ∧ t = ttlT x) ∨
    (∃ c, r.cls = some c ∧ t = clsT c) := by
  unfold preTokens at h
  cases ho : r.owner <;> cases ht : r.ttl <;> cases hc : r.cls <;> cases hcf : lv.classFirst <;>
    simp only [ho, ht, hc, hcf, List.nil_append, List.append_nil, List.cons_append, if_true, Bool.false_eq_true,
      if_false, List.mem_cons, List.not_mem_nil, or_false] at h <;>
    (first
      | (rcases h with h | h | h <;> subst h <;> simp)
      | (rcases h with h | h <;> subst h <;> simp)
      | (subst h; simp))

theorem sIN_noType : rtypeFromStr sIN = none := by decide

/-- no token before the type token spells a type. -/
theorem preTokens_noType (lv : LineVar) (r : Rec)
    (hown : ∀ ow, r.owner = some ow → ownerRefOk false ow = true)
    (hcls : ∀ c, r.cls = some c → c ∈ knownClasses) : NoType (preTokens lv r) := by
  intro t ht
  rcases mem_preTokens ht with ⟨ow, ho, rfl⟩ | ⟨x, -, rfl⟩ | ⟨c, hc, rfl⟩
  · exact ownerT_noType ow (hown ow ho)
  · exact ttlT_noType x
  · by_cases hin : c = clsIN
    · subst hin
      have : clsT clsIN = tIN := clsT_eq
      rw [this]; exact sIN_noType
    · exact (clsT_facts c (hcls c hc) hin).2.2.1

theorem recTokens_head (lv : LineVar) (r : Rec) (hknown : KnownCode r.rtype)
    (hown : ∀ ow, r.owner = some ow → ownerRefOk false ow = true)
    (hcls : ∀ c, r.cls = some c → c ∈ knownClasses) :
    ∃ t0 ts, recTokens lv r = t0 :: ts ∧ t0.1 ≠ sORIGIN ∧ t0.1 ≠ sINCLUDE := by
  have hty := typeT_head lv r.rtype hknown
  rw [recTokens_pre]
  cases hp : preTokens lv r with
  | nil => exact ⟨_, _, rfl, hty.1, hty.2⟩
  | cons t0 ts =>
    refine ⟨t0, ts ++ typeT lv r.rtype :: r.rdata.map (fieldTok lv), rfl, ?_⟩
    have hmem : t0 ∈ preTokens lv r := by rw [hp]; simp
    rcases mem_preTokens hmem with ⟨ow, ho, rfl⟩ | ⟨x, -, rfl⟩ | ⟨c, hc, rfl⟩
    · have := ownerRefOk_chars (hown ow ho)
      rw [ownerT_fst]; exact ⟨this.2.2.1, this.2.2.2⟩
    · rw [ttlT_fst]
      constructor <;> intro h <;>
        (have := (showDec_digits x).2 '$' (by rw [h]; decide); revert this; decide)
    · by_cases hin : c = clsIN
      · subst hin
        have : clsT clsIN = tIN := clsT_eq
        rw [this]; decide
      · have := clsT_facts c (hcls c hc) hin
        exact ⟨this.2.2.2.1, this.2.2.2.2⟩

/-- **a rejected record line, in the entry loop**: if the specification rejects the record in the
    state that corresponds to the parser's — and the situation is not that of finding C11-K1 (class
    other than `IN`, owner omitted, class token first on the line) — the loop stops with an error. -/
theorem record_err_step (dst : DenoteState) (st : DState) (hrel : StRel dst st) (r : Rec)
    (hok : directiveOk false (.record r) = true) (e : SpecError) (hden : denoteRecord dst r = .error e)
    (hnb : e ≠ .badRdata) (lv : LineVar)
    (hk1 : ¬ (e = .classNotIN ∧ r.owner = none ∧ (r.ttl = none ∨ lv.classFirst = true)))
    (eol : List Char) (heol : IsEol eol) (hc : CommentOk lv) (tailE rest : List Char)
    (hle : LineEnd eol tailE rest) :
    ∃ e', loopStep st (renderLine lv eol (.record r) ++ tailE ++ rest) = some (.stop (.error e')) := by
  obtain ⟨hownOk, httl, hfits, hfields⟩ := directiveOk_record hok
  have hclsOk : ∀ c, r.cls = some c → c ∈ knownClasses := by
    intro c hcl
    simp only [directiveOk, Bool.and_eq_true] at hok
    have := hok.1.1.2
    rw [hcl] at this
    simpa using this
  have hoOk : ∀ on, st.origin = some on → TextName on := fun on h => hrel.originOk on (by rw [← hrel.origin]; exact h)
  have hspec := specRdata_of_fits r.rtype r.rdata hfits
  have hnames : RdataNamesOk r.rdata := by
    intro f hf
    cases f with
    | name n => have := (hfields _ hf).1; simp only [fieldOk, Bool.and_eq_true] at this; exact this.1
    | _ => trivial
  have hnt := noType_rdata lv r.rdata hfields
  have hpre := preTokens_noType lv r hownOk hclsOk
  obtain ⟨t0, ts, htoks, hnO, hnI⟩ := recTokens_head lv r hspec.known hownOk hclsOk
  have htokl := tokenise_record_line_any lv eol heol hc r tailE rest hle
  -- it is enough to look at `parse_rr` on the tokens
  have hreduce : ((∃ e', parseRr st.origin st.previousDomain st.previousTtl (recTokens lv r) = .error e') ∨
      (∃ entry e', parseRr st.origin st.previousDomain st.previousTtl (recTokens lv r) = .ok entry ∧
        entryStep st entry rest = .stop (.error e'))) →
      ∃ e', loopStep st (renderLine lv eol (.record r) ++ tailE ++ rest) = some (.stop (.error e')) := by
    intro h
    rw [htoks] at htokl h
    rw [loopStep_tokens st _ t0 ts rest htokl hnO hnI]
    rcases h with ⟨e', he⟩ | ⟨entry, e', he, hs⟩
    · rw [he]; exact ⟨e', rfl⟩
    · rw [he]; exact ⟨e', by simp only [hs]⟩
  apply hreduce
  have hmiss : tryParseRtypeWithData st.origin (typeT lv r.rtype :: r.rdata.map (fieldTok lv)) = none →
      ∃ e', parseRr st.origin st.previousDomain st.previousTtl (recTokens lv r) = .error e' := by
    intro h
    exact ⟨_, by rw [recTokens_pre]; exact parseRr_missingType _ _ _ _ _ _ hpre hnt h⟩
  by_cases hclass : ∃ c, r.cls = some c ∧ c ≠ clsIN
  · -- a class other than IN
    obtain ⟨c, hcl, hne⟩ := hclass
    have hec : e = .classNotIN := by
      unfold denoteRecord at hden
      rw [hcl] at hden
      simp only [ne_eq, hne, not_false_eq_true, if_true] at hden
      cases hden; rfl
    obtain ⟨f1, f2, -, -, -⟩ := clsT_facts c (hclsOk c hcl) hne
    left
    cases hty : tryParseRtypeWithData st.origin (typeT lv r.rtype :: r.rdata.map (fieldTok lv)) with
    | none => exact hmiss hty
    | some rdat =>
      unfold recTokens
      rw [hcl]
      cases ho : r.owner with
      | some ow =>
        have hoIN : (ownerT ow).1 ≠ sIN := by rw [ownerT_fst]; exact (ownerRefOk_chars (hownOk ow ho)).2.1
        cases ht : r.ttl with
        | some t =>
          have htIN : (ttlT t).1 ≠ sIN := by rw [ttlT_fst]; exact showDec_ne_sIN t
          cases hcf : lv.classFirst with
          | false =>
            simp only [Bool.false_eq_true, if_false, List.cons_append, List.nil_append]
            exact class_not_IN_four _ _ _ (ownerT ow) (ttlT t) (clsT c) (typeT lv r.rtype) _ rdat hty htIN f1
          | true =>
            simp only [if_true, List.cons_append, List.nil_append]
            exact class_not_IN_four _ _ _ (ownerT ow) (clsT c) (ttlT t) (typeT lv r.rtype) _ rdat hty f1 htIN
        | none =>
          simp only [List.cons_append, List.nil_append, List.append_nil, ite_self]
          exact class_not_IN_three _ _ _ (ownerT ow) (clsT c) (typeT lv r.rtype) _ rdat hty hnt f1 f2 hoIN
      | none =>
        cases ht : r.ttl with
        | none => exact absurd ⟨hec, ho, Or.inl ht⟩ hk1
        | some t =>
          have htIN : (ttlT t).1 ≠ sIN := by rw [ttlT_fst]; exact showDec_ne_sIN t
          cases hcf : lv.classFirst with
          | true => exact absurd ⟨hec, ho, Or.inr hcf⟩ hk1
          | false =>
            simp only [Bool.false_eq_true, if_false, List.cons_append, List.nil_append]
            exact class_not_IN_three _ _ _ (ttlT t) (clsT c) (typeT lv r.rtype) _ rdat hty hnt f1 f2 htIN
  · -- class IN, written or not
    have hcls : r.cls = none ∨ r.cls = some clsIN := by
      cases hcl : r.cls with
      | none => exact Or.inl rfl
      | some c =>
        by_cases h : c = clsIN
        · subst h; exact Or.inr rfl
        · exact absurd ⟨c, hcl, h⟩ hclass
    have hden' : denoteRecord.denoteRecordIN dst r = .error e := by
      unfold denoteRecord at hden
      rcases hcls with h | h <;> rw [h] at hden
      · exact hden
      · simpa [clsIN] using hden
    rw [recTokens_IN lv r hcls] at hmiss ⊢
    unfold denoteRecord.denoteRecordIN at hden'
    simp only at hden'
    split at hden'
    · -- the owner
      rename_i eo howner
      left
      cases hty : tryParseRtypeWithData st.origin (typeT lv r.rtype :: r.rdata.map (fieldTok lv)) with
      | none => exact hmiss hty
      | some rdat =>
        cases ho : r.owner with
        | some ow =>
          rw [ho] at howner
          simp only at howner
          have hp := parseOwner_spec dst.origin hrel.originOk ow (hownOk ow ho)
          rw [howner] at hp
          obtain ⟨hd1, hd2, -, -⟩ := ownerRefOk_chars (hownOk ow ho)
          exact ⟨_, parseRr_owner_err st.origin _ _ lv r hcls rdat hty hnt ow ho _
            (by rw [hrel.origin]; exact hp) hd1 hd2⟩
        | none =>
          rw [ho] at howner
          simp only at howner
          have hpo : dst.prevOwner = none := by
            cases h : dst.prevOwner with
            | none => rfl
            | some p => rw [h] at howner; cases howner
          have hpd : st.previousDomain = none := by rw [hrel.prevOwner, hpo]; rfl
          have := parseRr_record st.origin st.previousDomain st.previousTtl lv r hcls rdat hty hnt httl none
            (fun ow h => by rw [ho] at h; cases h) (fun _ => rfl)
          rw [this, hpd]
          exact ⟨_, rfl⟩
    · rename_i wild name howner
      simp only [hfits, Bool.not_true, Bool.false_eq_true, if_false] at hden'
      split at hden'
      · -- a name of the RDATA
        rename_i ef hres
        left
        exact hmiss (tryParse_spec_err st.origin hoOk lv r.rtype r.rdata hspec hnames ef
          (by rw [hrel.origin]; exact hres))
      · rename_i fields hres
        have hty := tryParse_spec st.origin hoOk lv r.rtype r.rdata hspec hnames fields (by rw [hrel.origin]; exact hres)
        obtain ⟨w, hw1, hw2⟩ : ∃ w : Option MaybeWildcard,
            (∀ ow, r.owner = some ow → w = some (mwOf (wild, name))) ∧ (r.owner = none → w = none) := by
          cases r.owner with
          | some ow => exact ⟨some _, (fun _ _ => rfl), (fun h => by cases h)⟩
          | none => exact ⟨none, (fun _ h => by cases h), (fun _ => rfl)⟩
        have hparse : parseRr st.origin st.previousDomain st.previousTtl (recordTokens lv r)
            = expectRr st.previousDomain st.previousTtl w r.ttl ⟨r.rtype, fields⟩ := by
          apply parseRr_record st.origin _ _ lv r hcls ⟨r.rtype, fields⟩ hty hnt httl w
          · intro ow ho
            rw [ho] at howner
            simp only at howner
            have hp := parseOwner_spec dst.origin hrel.originOk ow (hownOk ow ho)
            rw [howner] at hp
            obtain ⟨hd1, hd2, -, -⟩ := ownerRefOk_chars (hownOk ow ho)
            exact ⟨mwOf (wild, name), hw1 ow ho, by rw [hrel.origin]; exact hp, hd1, hd2⟩
          · exact hw2
        have hprev : r.owner = none → st.previousDomain = some (mwOf (wild, name)) := by
          intro ho
          rw [ho] at howner
          simp only at howner
          rw [hrel.prevOwner]
          cases hpo : dst.prevOwner with
          | none => rw [hpo] at howner; cases howner
          | some p => rw [hpo] at howner; cases howner; rfl
        have hexp : expectRr st.previousDomain st.previousTtl w r.ttl ⟨r.rtype, fields⟩ =
            (match r.ttl with
             | some t => .ok (toRr (mwOf (wild, name)) ⟨r.rtype, fields⟩ t)
             | none => withInheritedTtl (mwOf (wild, name)) ⟨r.rtype, fields⟩ st.previousTtl) := by
          cases ho : r.owner with
          | some ow => rw [hw1 ow ho]; rfl
          | none => rw [hw2 ho, hprev ho]; rfl
        split at hden'
        · -- SOA
          rename_i h6
          split at hden'
          · cases hden'; exact absurd rfl hnb
          · rename_i soa hso
            have hf := soaOf_fields hso
            have hres' : parseRr st.origin st.previousDomain st.previousTtl (recordTokens lv r)
                = .ok (toRr (mwOf (wild, name)) ⟨6, soa.toFields⟩ 0) := by
              rw [hparse, hexp, h6, hf]
              cases r.ttl with
              | some t => simp only; rw [toRr_soa, toRr_soa]
              | none => simp only; rw [withInheritedTtl_soa']
            right
            split at hden'
            · -- wildcard SOA
              rename_i hwild
              have hwt : wild = true := by simpa using hwild
              subst hwt
              refine ⟨_, .wildcardSOA, hres', ?_⟩
              rw [toRr_soa]
              simp [mwOf, entryStep, RT_SOA]
            · rename_i hwild
              have hwf : wild = false := by simpa using hwild
              subst hwf
              split at hden'
              · -- a second SOA
                rename_i hsoa
                refine ⟨_, .multipleSOA, hres', ?_⟩
                rw [toRr_soa]
                have : st.apexAndSoa.isSome = true := by rw [hrel.soa]; exact hsoa
                simp [mwOf, entryStep, soaOfRR_toFields, this]
              · cases hden'
        · -- any other type: the TTL
          rename_i h6
          split at hden'
          · rename_i et httlv
            left
            have hrt : r.ttl = none := by
              cases h : r.ttl with
              | none => rfl
              | some t => rw [h] at httlv; cases httlv
            have hpt : dst.prevTtl = none := by
              rw [hrt] at httlv
              cases h : dst.prevTtl with
              | none => rfl
              | some t => rw [h] at httlv; cases httlv
            refine ⟨.missingTTL, ?_⟩
            rw [hparse, hexp, hrt]
            simp only
            rw [hrel.prevTtl, hpt]
            exact withInheritedTtl_none _ _ (by simpa [RData.isSOA, RT_SOA] using h6)
          · cases hden'

/-! ## rejected `$ORIGIN` and `$INCLUDE` lines -/

/-- **an `$ORIGIN` whose name cannot be resolved** stops the loop with an error. -/
theorem origin_err_step (dst : DenoteState) (st : DState) (hrel : StRel dst st) (n : NameRef)
    (hok : directiveOk false (.origin n) = true) (e : SpecError)
    (hden : denoteDirective dst (.origin n) = .error e)
    (lv : LineVar) (eol : List Char) (heol : IsEol eol) (hc : CommentOk lv) (tailE rest : List Char)
    (hle : LineEnd eol tailE rest) :
    ∃ e', loopStep st (renderLine lv eol (.origin n) ++ tailE ++ rest) = some (.stop (.error e')) := by
  have hn : nameRefOk false n = true := hok
  simp only [denoteDirective] at hden
  cases hr : resolve dst.origin n with
  | ok o' => rw [hr] at hden; cases hden
  | error e0 =>
    have htok : tokeniseEntry (renderLine lv eol (.origin n) ++ tailE ++ rest)
        = .ok ([(sORIGIN, asciiOctets sORIGIN), (nameChars n, atomOctets (nameAtoms n))], rest) := by
      rw [renderLine_eq lv eol (.origin n) (fun c h => by cases h)]
      have hts : directiveTokens lv (.origin n) = [asciiAtoms sORIGIN, nameAtoms n] := rfl
      rw [hts, tokenise_lineBody_le lv eol heol hc _ _ _
        (by rw [← hts]; exact directiveTokens_structural lv (.origin n)) tailE rest hle]
      simp only [List.map_cons, List.map_nil, tokenOf_asciiAtoms sORIGIN (by decide)]
      rfl
    have hp : parseDomain st.origin (nameChars n) = .error (nameErr e0) := by
      rw [hrel.origin, parseDomain_spec dst.origin hrel.originOk n hn, hr]; rfl
    refine ⟨nameErr e0, ?_⟩
    unfold loopStep
    simp only [parseEntry, htok, if_true, parseOrigin, ne_eq, not_true_eq_false, if_false, hp]

/-- **an `$INCLUDE` line** stops the loop with an error. -/
theorem include_err_step (st : DState) (path : List UInt8) (o : Option NameRef)
    (lv : LineVar) (eol : List Char) (heol : IsEol eol) (hc : CommentOk lv) (tailE rest : List Char)
    (hle : LineEnd eol tailE rest) :
    ∃ e', loopStep st (renderLine lv eol (.include path o) ++ tailE ++ rest) = some (.stop (.error e')) := by
  have hts : ∃ ts, directiveTokens lv (.include path o) = asciiAtoms sINCLUDE :: ts := ⟨_, rfl⟩
  obtain ⟨ts, hts⟩ := hts
  have htok : tokeniseEntry (renderLine lv eol (.include path o) ++ tailE ++ rest)
      = .ok (tokenOf (asciiAtoms sINCLUDE) :: ts.map tokenOf, rest) := by
    rw [renderLine_eq lv eol (.include path o) (fun c h => by cases h), hts,
      tokenise_lineBody_le lv eol heol hc _ _ _
        (by rw [← hts]; exact directiveTokens_structural lv (.include path o)) tailE rest hle]
    rfl
  exact loopStep_include st _ _ _ rest htok (by rw [tokenOf_asciiAtoms sINCLUDE (by decide)])

/-! ## the whole file -/

/-- the situation of finding C11-K1 does not arise at the first rejected directive (indices from `i`). -/
def NoK1From (v : FileVar) : DenoteState → Nat → List Directive → Prop
  | _, _, [] => True
  | dst, i, d :: ds =>
    match denoteDirective dst d with
    | .ok dst' => NoK1From v dst' (i + 1) ds
    | .error e =>
      ¬ (e = .classNotIN ∧ ∃ r, d = .record r ∧ r.owner = none ∧ (r.ttl = none ∨ (cyc v.lines i).classFirst = true))

/-- **the entry loop on a rendered file that the specification rejects at a directive**. -/
theorem loop_render_err (v : FileVar) (hv : VariantOk v) (ds : List Directive) :
    ∀ (i : Nat) (dst : DenoteState) (st : DState) (e : SpecError), StRel dst st →
      (∀ d ∈ ds, directiveOk false d = true) → denoteAll dst ds = .error e → e ≠ .badRdata →
      NoK1From v dst i ds →
      ∀ f, (renderFrom v (eolOf v) i ds).length < f →
        ∃ e', deserialiseLoop f st (renderFrom v (eolOf v) i ds) = some (.error e') := by
  induction ds with
  | nil => intro i dst st e _ _ hden; simp [denoteAll] at hden
  | cons d ds ih =>
    intro i dst st e hrel hok hden hnb hk f hf
    obtain ⟨tailE, hrf, hle⟩ := renderFrom_cons v (eolOf v) i d ds
    rw [hrf] at hf ⊢
    obtain ⟨g, rfl⟩ : ∃ g, f = g + 1 := ⟨f - 1, by omega⟩
    have hdOk := hok d (by simp)
    have hrestOk : ∀ x ∈ ds, directiveOk false x = true := fun x hx => hok x (by simp [hx])
    have heol := eolOf_isEol v
    have hc := cyc_commentOk v hv i
    simp only [denoteAll] at hden
    simp only [NoK1From] at hk
    cases hdd : denoteDirective dst d with
    | error e0 =>
      rw [hdd] at hden hk
      simp only [Except.error.injEq] at hden
      subst hden
      simp only at hk
      have hstop : ∃ e', loopStep st (renderLine (cyc v.lines i) (eolOf v) d ++ tailE ++ renderFrom v (eolOf v) (i + 1) ds)
          = some (.stop (.error e')) := by
        cases d with
        | blank c => simp [denoteDirective] at hdd
        | «include» p o => exact include_err_step st p o _ _ heol hc tailE _ hle
        | origin n => exact origin_err_step dst st hrel n hdOk e0 hdd _ _ heol hc tailE _ hle
        | record r =>
          refine record_err_step dst st hrel r hdOk e0 hdd hnb _ ?_ _ heol hc tailE _ hle
          rintro ⟨h1, h2, h3⟩
          exact hk ⟨h1, r, rfl, h2, h3⟩
      obtain ⟨e', he'⟩ := hstop
      exact ⟨e', by rw [deserialiseLoop_succ, he']⟩
    | ok dst1 =>
      rw [hdd] at hden hk
      simp only at hden hk
      cases d with
      | blank c =>
        simp only [denoteDirective, Except.ok.injEq] at hdd
        subst hdd
        rw [deserialiseLoop_succ, blank_step st c hdOk _ _ heol tailE _ hle, ← deserialiseLoop_succ]
        exact ih (i + 1) dst st e hrel hrestOk hden hnb hk (g + 1) (by
          simp only [List.length_append] at hf; omega)
      | «include» p o => simp [denoteDirective] at hdd
      | origin n =>
        obtain ⟨st', hstep, hrel'⟩ := origin_step dst st hrel n hdOk dst1 hdd _ _ heol hc tailE _ hle
        rw [loop_cont g hstep]
        have hlt := loopStep_cont_lt hstep
        exact ih (i + 1) dst1 st' e hrel' hrestOk hden hnb hk g (by omega)
      | record r =>
        obtain ⟨st', hstep, hrel'⟩ := record_step dst st hrel r hdOk dst1 hdd _ _ heol hc tailE _ hle
        rw [loop_cont g hstep]
        have hlt := loopStep_cont_lt hstep
        exact ih (i + 1) dst1 st' e hrel' hrestOk hden hnb hk g (by omega)

/-- `isK1` with the list and the first error as parameters. -/
def k1At (v : FileVar) (ds : List Directive) (fe : Option (Nat × SpecError)) : Bool :=
  match fe with
  | some (i, .classNotIN) =>
    match ds[i]? with
    | some (.record r) => r.owner.isNone && (r.ttl.isNone || (cyc v.lines i).classFirst)
    | _ => false
  | _ => false

theorem isK1_eq (ds : List Directive) (v : FileVar) : isK1 ds v = k1At v ds (firstError {} 0 ds) := rfl

theorem noK1From_of_k1At (v : FileVar) :
    ∀ (rest pre : List Directive) (dst : DenoteState),
      k1At v (pre ++ rest) (firstError dst pre.length rest) = false → NoK1From v dst pre.length rest := by
  intro rest
  induction rest with
  | nil => intro pre dst _; trivial
  | cons d rest ih =>
    intro pre dst h
    simp only [NoK1From]
    simp only [firstError] at h
    cases hdd : denoteDirective dst d with
    | ok dst' =>
      rw [hdd] at h
      simp only at h ⊢
      have := ih (pre ++ [d]) dst' (by simpa using h)
      simpa using this
    | error e0 =>
      rw [hdd] at h
      simp only at h ⊢
      rintro ⟨rfl, r, rfl, ho, ht⟩
      simp only [k1At, List.getElem?_append_right (Nat.le_refl _), Nat.sub_self, List.getElem?_cons_zero,
        ho, Option.isNone_none, Bool.true_and, Bool.or_eq_false_iff] at h
      rcases ht with ht | ht
      · rw [ht] at h; simp at h
      · rw [ht] at h; simp at h

theorem firstError_of_denoteAll :
    ∀ (ds : List Directive) (dst : DenoteState) (i : Nat) (e : SpecError), denoteAll dst ds = .error e →
      ∃ j, firstError dst i ds = some (j, e) := by
  intro ds
  induction ds with
  | nil => intro dst i e h; simp [denoteAll] at h
  | cons d ds ih =>
    intro dst i e h
    simp only [denoteAll] at h
    simp only [firstError]
    cases hdd : denoteDirective dst d with
    | ok dst' => rw [hdd] at h; exact ih dst' (i + 1) e h
    | error e0 => rw [hdd] at h; cases h; exact ⟨i, rfl⟩

/-- **`parse (render ds v)` on rejected files**: if the specification rejects an unambiguous list
    of directives, `Zone::deserialise` of any of its renderings is an `Err` — unless the situation is
    that of the open finding C11-K1 (`isK1`: class other than `IN`, owner omitted, class token first
    on the line, at the first rejected directive). -/
theorem parse_render_rejected (ds : List Directive) (v : FileVar) (hu : Unambiguous ds = true)
    (hv : VariantOk v) (e : SpecError) (hden : denote ds = .error e) :
    isK1 ds v = true ∨ ∃ e', deserialise (render ds v) = .err e' := by
  have hok := unambiguous_directives hu
  rw [denote_eq] at hden
  cases hall : denoteAll {} ds with
  | ok dstF =>
    rw [hall] at hden
    simp only at hden
    split at hden
    · cases hden
    · rename_i hout
      exact Or.inr ⟨_, parse_render_outside ds v hu hv dstF hall (by simpa using hout)⟩
  | error e0 =>
    cases hk : isK1 ds v with
    | true => exact Or.inl rfl
    | false =>
      right
      obtain ⟨j, hfe⟩ := firstError_of_denoteAll ds {} 0 e0 hall
      have hnb : e0 ≠ .badRdata := by
        intro he
        subst he
        simp only [Unambiguous, Bool.and_eq_true] at hu
        have := hu.2
        simp [noNameError, hfe] at this
      have hnk : NoK1From v {} 0 ds := by
        rw [isK1_eq] at hk
        exact noK1From_of_k1At v ds [] {} (by simpa using hk)
      obtain ⟨e', hloop⟩ := loop_render_err v hv ds 0 {} {} e0 stRel_init hok hall hnb hnk
        ((render ds v).length + 1) (by unfold render eolOf; omega)
      refine ⟨e', ?_⟩
      unfold deserialise
      have : render ds v = renderFrom v (eolOf v) 0 ds := rfl
      rw [this] at hloop ⊢
      rw [hloop]

end Resolved.ZoneText
