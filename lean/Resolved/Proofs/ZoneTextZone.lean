/-
  C13, zone level, the text side: reading `Zone::serialise z` back amounts to inserting, into a
  fresh zone with the apex and SOA of `z`, exactly the records `z` lists (per owner, in the order
  written).
-/
import Resolved.Proofs.ZoneTextRecordLine
import Resolved.Proofs.ZoneTextReject

namespace Resolved.ZoneText

open Resolved Resolved.IpText Gen

/-! ## blank lines -/

theorem tokeniseEntry_newline (s : List Char) : tokeniseEntry ('\n' :: s) = .ok ([], s) := by
  simp [tokeniseEntry, tokLoop, pushNonEmpty]

/-- an empty line is skipped by the entry loop. -/
theorem loopStep_blank (st : DState) (s : List Char) : loopStep st ('\n' :: s) = loopStep st s := by
  unfold loopStep
  simp only [List.length_cons, parseEntry, tokeniseEntry_newline]
  cases s with
  | nil => simp [parseEntry, tokeniseEntry_nil]
  | cons c cs => simp

theorem deserialiseLoop_blank (f : Nat) (st : DState) (s : List Char) :
    deserialiseLoop (f + 1) st ('\n' :: s) = deserialiseLoop (f + 1) st s := by
  rw [deserialiseLoop_succ, deserialiseLoop_succ, loopStep_blank]

/-! ## the lines of the body -/

inductive Item where
  | recLine (d : Name) (hw : Bool) (zr : ZoneRecord)
  | wildLine (d : Name) (zr : ZoneRecord)
  | blank

def Item.text (z : Zone) : Item → List Char
  | .recLine d hw zr => serialiseRecordLine z d hw zr
  | .wildLine d zr => serialiseWildcardLine z d zr
  | .blank => nl

def Item.apply (st : DState) : Item → DState
  | .recLine d _ zr =>
    { st with previousDomain := some (.normal d), previousTtl := some zr.ttl, rrs := zr.toRR d :: st.rrs }
  | .wildLine d zr =>
    { st with previousDomain := some (.wildcard d), previousTtl := some zr.ttl,
              wildcardRrs := zr.toRR d :: st.wildcardRrs }
  | .blank => st

def Item.cost : Item → Nat
  | .blank => 0
  | _ => 1

def Item.OK : Item → Prop
  | .recLine d _ zr => TextName d ∧ NoStar d ∧ RdataOK zr.rtype zr.fields ∧ zr.ttl < 4294967296
  | .wildLine d zr => TextName d ∧ RdataOK zr.rtype zr.fields ∧ zr.ttl < 4294967296
  | .blank => True

def scriptText (z : Zone) (items : List Item) : List Char := items.flatMap (Item.text z)
def scriptCost (items : List Item) : Nat := (items.map Item.cost).sum
def applyItems (st : DState) (items : List Item) : DState := items.foldl Item.apply st

theorem RdataOK.not_soa {c : Nat} {fs : List FieldVal} (h : RdataOK c fs) : c ≠ 6 := h.known.2

theorem soaOfRR_none_of_ne {rr : RR} (h : rr.rtype ≠ 6) : soaOfRR rr = none := by
  unfold soaOfRR
  split
  · rename_i h6 _; exact absurd h6 h
  · rfl

/-- one line of the body, in the entry loop. -/
theorem loopStep_item (z : Zone) (ha : TextName z.apex) (st : DState) (ho : st.origin = emittedOrigin z)
    (i : Item) (hi : i.OK) (hcost : i.cost = 1) (rest : List Char) :
    loopStep st (i.text z ++ rest) = some (.cont (i.apply st) rest) := by
  cases i with
  | blank => simp [Item.cost] at hcost
  | recLine d hw zr =>
    obtain ⟨hd, hs, hzr, httl⟩ := hi
    unfold loopStep
    simp only [Item.text]
    rw [ho, recordLine_roundtrip z ha d hd hs hw zr hzr httl]
    simp only [entryStep, Item.apply]
    have : soaOfRR (zr.toRR d) = none := soaOfRR_none_of_ne (by simpa [ZoneRecord.toRR] using hzr.not_soa)
    rw [this]
    rfl
  | wildLine d zr =>
    obtain ⟨hd, hzr, httl⟩ := hi
    unfold loopStep
    simp only [Item.text]
    rw [ho, wildcardLine_roundtrip z ha d hd zr hzr httl]
    simp only [entryStep, Item.apply]
    have : ((zr.toRR d).rtype == RT_SOA) = false := by
      simpa [ZoneRecord.toRR, RT_SOA] using hzr.not_soa
    rw [this]
    rfl

theorem Item.apply_origin (st : DState) (i : Item) : (i.apply st).origin = st.origin := by
  cases i <;> rfl

/-- **the body**: the entry loop reads a script of record lines, wildcard lines and blank lines as
    the corresponding sequence of state updates. -/
theorem loop_items (z : Zone) (ha : TextName z.apex) (items : List Item) :
    ∀ (st : DState) (tail : List Char) (f : Nat), st.origin = emittedOrigin z → (∀ i ∈ items, i.OK) →
      deserialiseLoop (f + 1 + scriptCost items) st (scriptText z items ++ tail)
        = deserialiseLoop (f + 1) (applyItems st items) tail := by
  induction items with
  | nil => intro st tail f _ _; simp [scriptCost, scriptText, applyItems]
  | cons i is ih =>
    intro st tail f ho hok
    have hi := hok i (by simp)
    have his : ∀ j ∈ is, j.OK := fun j hj => hok j (by simp [hj])
    simp only [scriptText, List.flatMap_cons, List.append_assoc, applyItems, List.foldl_cons]
    cases hc : i.cost with
    | zero =>
      cases i with
      | blank =>
        have : scriptCost (Item.blank :: is) = scriptCost is := by simp [scriptCost, Item.cost]
        rw [this]
        simp only [Item.text, nl, List.cons_append, List.nil_append]
        rw [show f + 1 + scriptCost is = (f + scriptCost is) + 1 by omega, deserialiseLoop_blank,
          show (f + scriptCost is) + 1 = f + 1 + scriptCost is by omega]
        exact ih st tail f ho his
      | recLine => simp [Item.cost] at hc
      | wildLine => simp [Item.cost] at hc
    | succ k =>
      have hc1 : i.cost = 1 := by cases i <;> simp_all [Item.cost]
      have : scriptCost (i :: is) = scriptCost is + 1 := by simp [scriptCost, hc1]; omega
      rw [this, show f + 1 + (scriptCost is + 1) = (f + 1 + scriptCost is) + 1 by omega,
        deserialiseLoop_succ, loopStep_item z ha st ho i hi hc1]
      simp only
      exact ih (i.apply st) tail f (by rw [Item.apply_origin]; exact ho) his

/-! ## the body of `Zone::serialise` as a script -/

def recordsOf (m : List (Name × List ZoneRecord)) (d : Name) : List ZoneRecord :=
  (lookupOwner m d).getD []

/-- the script of one owner block. -/
def blockItems (z : Zone) (d : Name) : List Item :=
  ((recordsOf z.allRecords d).filter (fun zr => zr.rtype != RT_SOA)).map
      (Item.recLine d (lookupOwner z.allWildcardRecords d).isSome)
    ++ (recordsOf z.allWildcardRecords d).map (Item.wildLine d) ++ [.blank]

def bodyItems (z : Zone) : List Item := (sortedDomains z).flatMap (blockItems z)

theorem block_text (z : Zone) (d : Name) :
    (ownerBlockLines z z.allRecords z.allWildcardRecords d).flatten ++ nl = scriptText z (blockItems z d) := by
  unfold ownerBlockLines blockItems scriptText recordsOf
  cases h1 : lookupOwner z.allRecords d <;> cases h2 : lookupOwner z.allWildcardRecords d <;>
    simp [List.flatMap_append, List.flatMap_map, Item.text, List.flatten_eq_flatMap, Function.comp_def]

theorem body_text (z : Zone) :
    (sortedDomains z).flatMap (fun d => (ownerBlockLines z z.allRecords z.allWildcardRecords d).flatten ++ nl)
      = scriptText z (bodyItems z) := by
  unfold bodyItems scriptText
  rw [List.flatMap_assoc]
  congr 1
  funext d
  exact block_text z d

/-! ## tokens that do not spell a record type -/

def isUpperChar (c : Char) : Bool := 65 ≤ c.toNat && c.toNat ≤ 90

theorem rtypeNames_upper : ∀ p ∈ rtypeNames, ∃ c ∈ p.2, isUpperChar c = true := by decide

theorem lookupByName_none (l : List (Nat × List Char)) (s : List Char) (h : ∀ p ∈ l, s ≠ p.2) :
    lookupByName l s = none := by
  induction l with
  | nil => rfl
  | cons p ps ih =>
    obtain ⟨c, n⟩ := p
    simp only [lookupByName]
    rw [if_neg (h (c, n) (by simp)), ih (fun q hq => h q (by simp [hq]))]

/-- a string without upper-case letters spells no record type. -/
theorem rtypeFromStr_none_of_no_upper (s : List Char) (h : ∀ c ∈ s, isUpperChar c = false) :
    rtypeFromStr s = none := by
  unfold rtypeFromStr
  rw [lookupByName_none]
  · simp only
    rw [if_neg]
    intro ht
    have : 'T' ∈ s.take 4 := by rw [ht]; decide
    have := h 'T' (List.mem_of_mem_take this)
    simp [isUpperChar] at this
  · intro p hp he
    obtain ⟨c, hc, hup⟩ := rtypeNames_upper p hp
    rw [← he] at hc
    rw [h c hc] at hup
    cases hup

theorem noUpper_domainStr (z : Zone) (n : Name) (hn : TextName n) (ha : TextName z.apex) :
    ∀ c ∈ (domainStr z n).map octetAsChar, isUpperChar c = false := by
  intro c hc
  simp only [List.mem_map] at hc
  obtain ⟨b, hb, rfl⟩ := hc
  have := domainStr_not_upper z n hn ha b hb
  unfold isUpper at this
  unfold isUpperChar
  rw [octetAsChar_toNat]
  simp only [Bool.and_eq_false_iff, decide_eq_false_iff_not]
  omega

theorem noUpper_showDec (n : Nat) : ∀ c ∈ showDec n, isUpperChar c = false := by
  intro c hc
  have := (showDec_digits n).2 c hc
  simp only [isAsciiDigit, Bool.and_eq_true, decide_eq_true_eq] at this
  unfold isUpperChar
  simp only [Bool.and_eq_false_iff, decide_eq_false_iff_not]
  omega

/-! ## the header: `$ORIGIN` line and SOA line -/

def originLine (z : Zone) : List Char :=
  sORIGIN ++ ' ' :: serialiseOctets z.apex.toDotted false ++ nl

theorem originLine_roundtrip (z : Zone) (ha : TextName z.apex) (pd : Option MaybeWildcard) (pt : Option Nat)
    (fuel : Nat) (rest : List Char) :
    parseEntry (fuel + 1) none pd pt (originLine z ++ rest) = .ok (some (.origin z.apex)) rest := by
  have hR : ReadsAll [sORIGIN, serialiseOctets z.apex.toDotted false]
      [wordToken sORIGIN, (z.apex.toDotted.map octetAsChar, z.apex.toDotted)] :=
    .cons (reads_plain ⟨'$', _, rfl, by decide, by decide⟩)
      (.cons (reads_serialiseOctets_unquoted _ (toDotted_ne_nil ha)) .nil)
  have hline : originLine z ++ rest = joinSp [sORIGIN, serialiseOctets z.apex.toDotted false] ++ '\n' :: rest := by
    simp [originLine, joinSp, nl, List.append_assoc]
  have htok : tokeniseEntry (originLine z ++ rest)
      = .ok ([wordToken sORIGIN, (z.apex.toDotted.map octetAsChar, z.apex.toDotted)], rest) := by
    unfold tokeniseEntry
    rw [hline, reads_seq _ _ hR (by simp)]
    simp
  simp only [parseEntry, htok, wordToken_fst, if_true, parseOrigin, ne_eq, not_true_eq_false, if_false,
    parseDomain_absolute none ha]

/-- the SOA line: `ownerPiece IN SOA <mname> <rname> <serial> <refresh> <retry> <expire> <minimum>`. -/
def soaLine (z : Zone) (soa : SOA) (ownerPiece : List Char) : List Char :=
  ownerPiece ++ sp ++ sIN ++ sp ++ ['S', 'O', 'A'] ++ sp ++ serialiseRdata z RT_SOA soa.toFields ++ nl

def SoaOK (soa : SOA) : Prop :=
  TextName soa.mname ∧ TextName soa.rname ∧ soa.serial < 4294967296 ∧ soa.refresh < 4294967296 ∧
  soa.retry < 4294967296 ∧ soa.expire < 4294967296 ∧ soa.minimum < 4294967296

theorem soaLine_roundtrip (z : Zone) (ha : TextName z.apex) (soa : SOA) (hsoa : SoaOK soa)
    (ownerPiece : List Char) (ownerTok : Token) (hR : Reads ownerPiece ownerTok)
    (howner : parseDomainOrWildcard (emittedOrigin z) ownerTok.1 = .ok (.normal z.apex))
    (hdig : allDigits ownerTok.1 = false) (hnd : ownerTok.1 ≠ sORIGIN ∧ ownerTok.1 ≠ sINCLUDE)
    (pd : Option MaybeWildcard) (fuel : Nat) (rest : List Char) :
    parseEntry (fuel + 1) (emittedOrigin z) pd none (soaLine z soa ownerPiece ++ rest)
      = .ok (some (.rr { name := z.apex, rtype := 6, fields := soa.toFields, rclass := 1, ttl := soa.minimum })) rest := by
  obtain ⟨hm, hr, h1, h2, h3, h4, h5⟩ := hsoa
  have hfields : ∀ f ∈ soa.toFields, FieldOK f := by
    intro f hf
    simp only [SOA.toFields, List.mem_cons, List.not_mem_nil, or_false] at hf
    rcases hf with h | h | h | h | h | h | h <;> subst h <;> assumption
  let rdToks := soa.toFields.map (fieldToken z)
  have hline : soaLine z soa ownerPiece ++ rest =
      joinSp ([ownerPiece, sIN, ['S', 'O', 'A']] ++ soa.toFields.map (fieldPiece z)) ++ '\n' :: rest := by
    rw [joinSp_append _ _ (by simp) (by simp [SOA.toFields])]
    simp only [soaLine, serialiseRdata, SOA.toFields, RT_SOA, if_true, joinSp, sp, nl, List.append_assoc,
      List.cons_append, List.nil_append, List.map_cons, List.map_nil, fieldPiece]
  have hall : ReadsAll ([ownerPiece, sIN, ['S', 'O', 'A']] ++ soa.toFields.map (fieldPiece z))
      (ownerTok :: tIN :: wordToken ['S', 'O', 'A'] :: rdToks) :=
    .cons hR (.cons (reads_word (by decide) (by decide)) (.cons (reads_word (by decide) (by decide))
      (readsAll_fields z ha _ hfields)))
  have htok : tokeniseEntry (soaLine z soa ownerPiece ++ rest)
      = .ok (ownerTok :: tIN :: wordToken ['S', 'O', 'A'] :: rdToks, rest) := by
    unfold tokeniseEntry
    rw [hline, reads_seq _ _ hall (by simp)]
    simp
  have hty : tryParseRtypeWithData (emittedOrigin z) (wordToken ['S', 'O', 'A'] :: rdToks)
      = some ⟨6, soa.toFields⟩ := by
    simp [tryParseRtypeWithData, wordToken_fst, rdToks, SOA.toFields, fieldToken,
      show rtypeFromStr ['S', 'O', 'A'] = some 6 from by decide,
      optName_domainStr z ha _ hm, optName_domainStr z ha _ hr, parseU32_showDec _ h1, parseU32_showDec _ h2,
      parseU32_showDec _ h3, parseU32_showDec _ h4, parseU32_showDec _ h5]
  have hnt : NoType rdToks := by
    intro t ht
    simp only [rdToks, SOA.toFields, List.map_cons, List.map_nil, List.mem_cons, List.not_mem_nil,
      or_false, fieldToken] at ht
    rcases ht with h | h | h | h | h | h | h <;> subst h
    · exact rtypeFromStr_none_of_no_upper _ (noUpper_domainStr z _ hm ha)
    · exact rtypeFromStr_none_of_no_upper _ (noUpper_domainStr z _ hr ha)
    all_goals exact rtypeFromStr_none_of_no_upper _ (noUpper_showDec _)
  have hshape := shape_domain_class (emittedOrigin z) pd none ownerTok (wordToken ['S', 'O', 'A']) rdToks
    ⟨6, soa.toFields⟩ (.normal z.apex) hty hnt howner hdig
  simp only [parseEntry, htok, hnd.1, hnd.2, if_false, hshape]
  simp [withInheritedTtl, RData.isSOA, RT_SOA, toRr, SOA.toFields, CLASS_IN]

/-! ## assembling the file -/

theorem loop_cont (f : Nat) {st st' : DState} {s rest : List Char} (h : loopStep st s = some (.cont st' rest)) :
    deserialiseLoop (f + 1) st s = deserialiseLoop f st' rest := by
  rw [deserialiseLoop_succ, h]

theorem loop_end (f : Nat) (st : DState) : deserialiseLoop (f + 1) st [] = some (.ok st) := by
  rw [deserialiseLoop_succ]
  simp [loopStep, parseEntry, tokeniseEntry_nil]

theorem Item.text_length (z : Zone) (i : Item) : i.cost ≤ (i.text z).length := by
  cases i <;> simp [Item.cost, Item.text, serialiseRecordLine, serialiseWildcardLine, nl] <;> omega

theorem scriptCost_le (z : Zone) (items : List Item) : scriptCost items ≤ (scriptText z items).length := by
  induction items with
  | nil => simp [scriptCost, scriptText]
  | cons i is ih =>
    have := Item.text_length z i
    simp only [scriptCost, scriptText, List.map_cons, List.sum_cons, List.flatMap_cons, List.length_append] at ih ⊢
    omega

/-- the body read from any state whose origin is the emitted one, up to the end of the text. -/
theorem loop_body_to_end (z : Zone) (ha : TextName z.apex) (items : List Item) (hok : ∀ i ∈ items, i.OK)
    (st : DState) (ho : st.origin = emittedOrigin z) (f : Nat) (hf : scriptCost items < f) :
    deserialiseLoop f st (scriptText z items) = some (.ok (applyItems st items)) := by
  obtain ⟨g, rfl⟩ : ∃ g, f = g + 1 + scriptCost items := ⟨f - 1 - scriptCost items, by omega⟩
  have := loop_items z ha items st [] g ho hok
  rw [List.append_nil] at this
  rw [this, loop_end]

theorem lookupOwner_mem {m : List (Name × List ZoneRecord)} {d : Name} {zrs : List ZoneRecord}
    (h : lookupOwner m d = some zrs) : (d, zrs) ∈ m := by
  induction m with
  | nil => simp [lookupOwner] at h
  | cons p ps ih =>
    obtain ⟨k, v⟩ := p
    simp only [lookupOwner] at h
    split at h
    · rename_i hk; cases h; subst hk; simp
    · simp [ih h]

/-- what the text side needs of a zone (implied by `WFZone`, Props/C13.lean). -/
structure ZoneTextOK (z : Zone) : Prop where
  apex : TextName z.apex
  nonauth_root : z.soa = none → z.apex = Name.root
  soa : ∀ s, z.soa = some s → SoaOK s
  records : ∀ p ∈ z.allRecords, TextName p.1 ∧ NoStar p.1 ∧
    ∀ zr ∈ p.2, zr.rtype ≠ RT_SOA → RdataOK zr.rtype zr.fields ∧ zr.ttl < 4294967296
  wildcards : ∀ p ∈ z.allWildcardRecords, TextName p.1 ∧
    ∀ zr ∈ p.2, RdataOK zr.rtype zr.fields ∧ zr.ttl < 4294967296

theorem bodyItems_ok (z : Zone) (h : ZoneTextOK z) : ∀ i ∈ bodyItems z, i.OK := by
  intro i hi
  simp only [bodyItems, List.mem_flatMap] at hi
  obtain ⟨d, -, hi⟩ := hi
  simp only [blockItems, List.mem_append, List.mem_map, List.mem_filter, List.mem_singleton] at hi
  rcases hi with (⟨zr, ⟨hzr, hns⟩, rfl⟩ | ⟨zr, hzr, rfl⟩) | rfl
  · unfold recordsOf at hzr
    cases hl : lookupOwner z.allRecords d with
    | none => rw [hl] at hzr; simp at hzr
    | some zrs =>
      rw [hl] at hzr
      simp only [Option.getD_some] at hzr
      obtain ⟨h1, h2, h3⟩ := h.records _ (lookupOwner_mem hl)
      have := h3 zr hzr (by simpa using hns)
      exact ⟨h1, h2, this.1, this.2⟩
  · unfold recordsOf at hzr
    cases hl : lookupOwner z.allWildcardRecords d with
    | none => rw [hl] at hzr; simp at hzr
    | some zrs =>
      rw [hl] at hzr
      simp only [Option.getD_some] at hzr
      obtain ⟨h1, h3⟩ := h.wildcards _ (lookupOwner_mem hl)
      exact ⟨h1, (h3 zr hzr).1, (h3 zr hzr).2⟩
  · trivial

/-- the local state of `Zone::deserialise` after the header of `serialise z`. -/
def headerState (z : Zone) : DState :=
  match z.soa with
  | none => {}
  | some soa =>
    { origin := emittedOrigin z, previousDomain := some (.normal z.apex), previousTtl := some soa.minimum,
      apexAndSoa := some (z.apex, soa) }

theorem headerState_origin (z : Zone) : (headerState z).origin = emittedOrigin z := by
  unfold headerState
  cases h : z.soa with
  | none => simp [emittedOrigin, Zone.isAuthoritative, h]
  | some s => rfl

theorem soaOfRR_toFields (name : Name) (soa : SOA) (ttl : Nat) :
    soaOfRR { name, rtype := 6, fields := soa.toFields, rclass := 1, ttl } = some soa := by
  simp [soaOfRR, SOA.toFields]

theorem isRoot_eq_root {n : Name} (h : TextName n) (hr : n.isRoot = true) : n = Name.root := by
  obtain ⟨⟨hne, hlast, -⟩, -, hn⟩ := h.shape
  unfold Name.isRoot at hr
  rw [hn] at hr ⊢
  cases hl : n.labels with
  | nil => exact absurd hl hne
  | cons l ls =>
    rw [hl] at hr hlast
    simp only [List.length_cons, sumLen_cons, Bool.and_eq_true, beq_iff_eq, List.isEmpty_iff] at hr
    obtain ⟨hlen, hl0⟩ := hr
    subst hl0
    cases ls with
    | nil => rfl
    | cons m ms => simp at hlen; omega

/-- the local state after the SOA line. -/
def afterSoa (o : Option Name) (apex : Name) (soa : SOA) : DState :=
  { origin := o, previousDomain := some (.normal apex), previousTtl := some soa.minimum,
    apexAndSoa := some (apex, soa) }

/-- **the header** of `serialise z` followed by anything: the loop arrives at `headerState z`. -/
theorem loop_header (z : Zone) (h : ZoneTextOK z) (tail : List Char) (f : Nat) :
    deserialiseLoop (f + 2) {} (serialiseHeader z ++ tail) = deserialiseLoop (if z.soa.isSome then
        (if z.apex.isRoot then f + 1 else f) else f + 2) (headerState z) tail := by
  unfold serialiseHeader headerState
  cases hs : z.soa with
  | none => simp
  | some soa =>
    have hsoa := h.soa soa hs
    have hauth : z.isAuthoritative = true := by simp [Zone.isAuthoritative, hs]
    simp only [Option.isSome_some, if_true]
    cases hr : z.apex.isRoot with
    | false =>
      have ho : emittedOrigin z = some z.apex := by simp [emittedOrigin, hauth, hr]
      simp only [Bool.not_false, if_true, Bool.false_eq_true, if_false]
      have htext : (['$', 'O', 'R', 'I', 'G', 'I', 'N', ' '] ++ serialiseOctets z.apex.toDotted false ++ nl ++ nl)
          ++ ['@'] ++ sp ++ sIN ++ sp ++ ['S', 'O', 'A'] ++ sp ++ serialiseRdata z RT_SOA soa.toFields ++ nl ++ nl
          ++ tail = originLine z ++ ('\n' :: (soaLine z soa ['@'] ++ ('\n' :: tail))) := by
        simp [originLine, soaLine, sORIGIN, nl, sp, List.append_assoc]
      rw [htext]
      have h1 : loopStep {} (originLine z ++ ('\n' :: (soaLine z soa ['@'] ++ ('\n' :: tail))))
          = some (.cont { origin := some z.apex } ('\n' :: (soaLine z soa ['@'] ++ ('\n' :: tail)))) := by
        unfold loopStep
        rw [show ({} : DState).origin = none from rfl, originLine_roundtrip z h.apex]
        rfl
      rw [loop_cont (f + 1) h1, deserialiseLoop_blank]
      have h2 : loopStep { origin := some z.apex } (soaLine z soa ['@'] ++ ('\n' :: tail))
          = some (.cont (afterSoa (some z.apex) z.apex soa) ('\n' :: tail)) := by
        unfold loopStep
        simp only
        rw [← ho, soaLine_roundtrip z h.apex soa hsoa ['@'] (['@'], [64])
          (reads_plain ⟨'@', [], rfl, by decide, by simp⟩) (by rw [ho]; rfl) (by decide) (by decide)]
        simp only [entryStep, soaOfRR_toFields]
        rfl
      rw [loop_cont f h2]
      cases f with
      | zero => simp [deserialiseLoop]
      | succ g => rw [deserialiseLoop_blank, ho]; rfl
    | true =>
      have ho : emittedOrigin z = none := by simp [emittedOrigin, hr]
      have hroot := isRoot_eq_root h.apex hr
      simp only [Bool.not_true, Bool.false_eq_true, if_false, if_true, List.nil_append]
      have hdot : z.apex.toDotted = [46] := by simp [Name.toDotted, hr]
      have htext : serialiseOctets z.apex.toDotted false ++ sp ++ sIN ++ sp ++ ['S', 'O', 'A'] ++ sp
          ++ serialiseRdata z RT_SOA soa.toFields ++ nl ++ nl ++ tail
          = soaLine z soa (serialiseOctets [46] false) ++ ('\n' :: tail) := by
        simp [soaLine, hdot, nl, List.append_assoc]
      rw [htext]
      have h2 : loopStep {} (soaLine z soa (serialiseOctets [46] false) ++ ('\n' :: tail))
          = some (.cont (afterSoa none z.apex soa) ('\n' :: tail)) := by
        unfold loopStep
        rw [show ({} : DState).origin = emittedOrigin z from ho.symm, show ({} : DState).previousTtl = none from rfl,
          soaLine_roundtrip z h.apex soa hsoa (serialiseOctets [46] false) ([46].map octetAsChar, [46])
            (reads_serialiseOctets_unquoted [46] (by simp)) (by rw [ho, hroot]; rfl) (by decide) (by decide)]
        simp only [entryStep, soaOfRR_toFields]
        rfl
      rw [loop_cont (f + 1) h2, deserialiseLoop_blank, ho]
      rfl

/-- the local state of `Zone::deserialise` at the end of `serialise z`. -/
def finalState (z : Zone) : DState := applyItems (headerState z) (bodyItems z)

theorem serialiseHeader_length (z : Zone) (soa : SOA) (h : z.soa = some soa) : 1 ≤ (serialiseHeader z).length := by
  unfold serialiseHeader
  rw [h]
  simp [nl]
  omega

/-- **the text side of the zone round trip**: reading `serialise z` back runs the entry loop to the
    end of the text without error and leaves exactly the state `finalState z`; the result of
    `Zone::deserialise` is then the two insertion loops on that state. -/
theorem deserialise_serialise (z : Zone) (h : ZoneTextOK z) :
    deserialise (serialise z) = buildZone (finalState z) := by
  have hbody : serialise z = serialiseHeader z ++ scriptText z (bodyItems z) := by
    unfold serialise
    simp only
    rw [body_text]
  have hcost := scriptCost_le z (bodyItems z)
  have hloop : deserialiseLoop ((serialise z).length + 1) {} (serialise z) = some (.ok (finalState z)) := by
    rw [deserialiseLoop_fuel_irrelevant _ ((serialise z).length + 2) _ _ (by omega) (by omega)]
    have hlen : (serialise z).length = (serialiseHeader z).length + (scriptText z (bodyItems z)).length := by
      rw [hbody, List.length_append]
    conv => lhs; arg 3; rw [hbody]
    rw [loop_header z h]
    apply loop_body_to_end z h.apex _ (bodyItems_ok z h) _ (headerState_origin z)
    cases hs : z.soa with
    | none => simp; omega
    | some soa =>
      have := serialiseHeader_length z soa hs
      simp only [Option.isSome_some, if_true]
      split <;> omega
  unfold deserialise
  rw [hloop]

theorem applyItems_apexAndSoa (st : DState) (items : List Item) :
    (applyItems st items).apexAndSoa = st.apexAndSoa := by
  unfold applyItems
  induction items generalizing st with
  | nil => rfl
  | cons i is ih =>
    simp only [List.foldl_cons]
    rw [ih]
    cases i <;> rfl

/-- the ordinary / wildcard records a script adds, in the order written. -/
def itemsRRs : List Item → List RR
  | [] => []
  | .recLine d _ zr :: is => zr.toRR d :: itemsRRs is
  | _ :: is => itemsRRs is

def itemsWildRRs : List Item → List RR
  | [] => []
  | .wildLine d zr :: is => zr.toRR d :: itemsWildRRs is
  | _ :: is => itemsWildRRs is

theorem applyItems_rrs (items : List Item) : ∀ st : DState,
    (applyItems st items).rrs.reverse = st.rrs.reverse ++ itemsRRs items ∧
    (applyItems st items).wildcardRrs.reverse = st.wildcardRrs.reverse ++ itemsWildRRs items := by
  unfold applyItems
  induction items with
  | nil => intro st; simp [itemsRRs, itemsWildRRs]
  | cons i is ih =>
    intro st
    simp only [List.foldl_cons]
    have := ih (i.apply st)
    cases i <;> simp_all [Item.apply, itemsRRs, itemsWildRRs]

/-- **C13, the text side of the whole-zone round trip.**  For a zone satisfying `ZoneTextOK`:
    `deserialise (serialise z)` is exactly the result of inserting — into `Zone::new(apex, soa)` with
    the apex and SOA of `z` — the ordinary records that `z` lists (all but SOA-typed ones, per owner
    in `Ord` order of the owners, in the order `all_records` gives them), then its wildcard records. -/
theorem deserialise_serialise_eq_reinsert (z : Zone) (h : ZoneTextOK z) :
    deserialise (serialise z)
      = insertBoth (Zone.new z.apex z.soa) (itemsRRs (bodyItems z)) (itemsWildRRs (bodyItems z)) := by
  rw [deserialise_serialise z h, buildZone_eq]
  have hsoa : (finalState z).apexAndSoa = z.soa.map (fun s => (z.apex, s)) := by
    unfold finalState
    rw [applyItems_apexAndSoa]
    unfold headerState
    cases z.soa <;> rfl
  have hrr := applyItems_rrs (bodyItems z) (headerState z)
  have hh : (headerState z).rrs = [] ∧ (headerState z).wildcardRrs = [] := by
    unfold headerState
    cases z.soa <;> exact ⟨rfl, rfl⟩
  unfold finalState at hsoa ⊢
  rw [hrr.1, hrr.2, hh.1, hh.2, hsoa]
  simp only [List.reverse_nil, List.nil_append]
  cases hs : z.soa with
  | none =>
    simp only [Option.map_none]
    rw [h.nonauth_root hs]
    rfl
  | some s => rfl

end Resolved.ZoneText
