/-
  Small facts about `resolveLocal` that the machine proofs need: it never changes the zones, the
  clock or the question stack of the context it is given.
-/
import Resolved.Model.Resolver

namespace Resolved

open Gen

/-- the parts of the context `resolveLocal` leaves alone. -/
def CtxSame (c c' : Ctx) : Prop := c'.stack = c.stack ∧ c'.zones = c.zones ∧ c'.now = c.now

theorem CtxSame.refl (c : Ctx) : CtxSame c c := ⟨rfl, rfl, rfl⟩

theorem CtxSame.trans {a b c : Ctx} (h1 : CtxSame a b) (h2 : CtxSame b c) : CtxSame a c :=
  ⟨h2.1.trans h1.1, h2.2.1.trans h1.2.1, h2.2.2.trans h1.2.2⟩

theorem cacheGet_same (c : Ctx) (n : Name) (t : Nat) : CtxSame c (c.cacheGet n t).1 := by
  simp [Ctx.cacheGet, CtxSame]

theorem cacheInsertAll_same (c : Ctx) (rrs : List RR) : CtxSame c (c.cacheInsertAll rrs) := by
  simp [Ctx.cacheInsertAll, CtxSame]

theorem push_pop_same {c c' : Ctx} (q : Question) (h : CtxSame (c.push q) c') : CtxSame c c'.pop := by
  obtain ⟨h1, h2, h3⟩ := h
  refine ⟨?_, ?_, ?_⟩
  · simp [Ctx.pop, h1, Ctx.push]
  · simpa [Ctx.pop, Ctx.push] using h2
  · simpa [Ctx.pop, Ctx.push] using h3

theorem resolveLocal_same : ∀ (fuel : Nat) (ctx : Ctx) (q : Question),
    CtxSame ctx (resolveLocal fuel ctx q).1 := by
  intro fuel
  induction fuel with
  | zero => intro ctx q; simp [resolveLocal, CtxSame]
  | succ fuel ih =>
    intro ctx q
    rw [resolveLocal]
    split
    · exact CtxSame.refl _
    split
    · exact CtxSame.refl _
    simp only []
    split
    · rename_i zp ctx' r heq
      have h1 := congrArg Prod.fst heq
      simp only at h1
      repeat' split at h1
      all_goals (subst h1)
      all_goals first
        | exact CtxSame.refl _
        | exact push_pop_same q (ih _ _)
    · rename_i zp ctx' r heq
      have h1 : CtxSame ctx ctx' := by
        have h1 := congrArg Prod.fst heq
        simp only at h1
        repeat' split at h1
        all_goals (subst h1)
        all_goals first
          | exact CtxSame.refl _
          | exact push_pop_same q (ih _ _)
      clear heq
      have hc : ∀ {cp : Ctx × Except ResolutionError (List RR × Option Name)} {c6 x},
          cp = (c6, x) → CtxSame ctx cp.1 → CtxSame ctx c6 := by
        intro cp c6 x h hh; subst h; exact hh
      have g1 := cacheGet_same ctx' q.name q.qtype
      have g2 := cacheGet_same (ctx'.cacheGet q.name q.qtype).fst q.name CNAME_QTYPE
      have g12 := h1.trans (g1.trans g2)
      split
      · rename_i cp c6 e heq
        have h2 := congrArg Prod.fst heq
        simp only at h2
        repeat' split at h2
        all_goals (subst h2)
        all_goals first
          | exact h1.trans g1
          | exact g12
          | exact h1.trans (g1.trans (g2.trans (push_pop_same q (ih _ _))))
      · rename_i cp c6 e fc heq
        have h3 : CtxSame ctx c6 := by
          have h2 := congrArg Prod.fst heq
          simp only at h2
          repeat' split at h2
          all_goals (subst h2)
          all_goals first
            | exact h1.trans g1
            | exact g12
            | exact h1.trans (g1.trans (g2.trans (push_pop_same q (ih _ _))))
        repeat' split
        all_goals exact h3

theorem resolveLocal_stack (fuel : Nat) (ctx : Ctx) (q : Question) :
    (resolveLocal fuel ctx q).1.stack = ctx.stack := (resolveLocal_same fuel ctx q).1

theorem resolveLocal_zones (fuel : Nat) (ctx : Ctx) (q : Question) :
    (resolveLocal fuel ctx q).1.zones = ctx.zones := (resolveLocal_same fuel ctx q).2.1

theorem resolveLocal_now (fuel : Nat) (ctx : Ctx) (q : Question) :
    (resolveLocal fuel ctx q).1.now = ctx.now := (resolveLocal_same fuel ctx q).2.2

end Resolved
