/-
  Helper lemmas for C04, part 5: every decoder output is well-formed (`WfMsg`), the encoder accepts
  every decoder output, hence decode ∘ encode ∘ decode = decode; and the strong pointer-table
  invariant along `Message::to_octets`.
-/
import Resolved.Proofs.WireEncodeGrammar
import Resolved.Proofs.WireDecodeLemmas

namespace Resolved

open Gen

/-! ## Ranges of what the decoder reads -/

theorem nextU8_lt {buf : List UInt8} {pos v p' : Nat} (h : nextU8 buf pos = some (v, p')) :
    v < 256 := by
  obtain ⟨_, rfl, _⟩ := nextU8_some h
  exact UInt8.toNat_lt _

theorem nextU16_lt {buf : List UInt8} {pos v p' : Nat} (h : nextU16 buf pos = some (v, p')) :
    v < 65536 := by
  obtain ⟨hlt, rfl, _⟩ := nextU16_some h
  have h1 := UInt8.toNat_lt (buf[pos]'(by omega))
  have h2 := UInt8.toNat_lt (buf[pos + 1]'hlt)
  omega

theorem nextU32_lt {buf : List UInt8} {pos v p' : Nat} (h : nextU32 buf pos = some (v, p')) :
    v < 4294967296 := by
  unfold nextU32 at h
  split at h
  · rename_i hlt
    cases h
    have h0 := UInt8.toNat_lt (buf[pos]'(by omega))
    have h1 := UInt8.toNat_lt (buf[pos + 1]'(by omega))
    have h2 := UInt8.toNat_lt (buf[pos + 2]'(by omega))
    have h3 := UInt8.toNat_lt (buf[pos + 3]'hlt)
    omega
  · cases h

theorem decodeGroups_lt {id : Nat} {buf : List UInt8} (k : Nat) :
    ∀ {pos : Nat} {gs : List Nat} {e : Nat}, decodeGroups id buf k pos = .ok (gs, e) →
      ∀ g ∈ gs, g < 65536 := by
  induction k with
  | zero => intro pos gs e h; cases h; intro g hg; cases hg
  | succ k ih =>
    intro pos gs e h
    unfold decodeGroups at h
    split at h
    · cases h
    · rename_i g pos' hg
      split at h
      · cases h
      · rename_i gs' pos'' hrec
        cases h
        intro x hx
        rcases List.mem_cons.mp hx with rfl | hx
        · exact nextU16_lt hg
        · exact ih hrec x hx

/-- the header the decoder builds is well-formed -/
theorem decodeFlags_wf (id f1 f2 : Nat) (hid : id < 65536) : HeaderWF (decodeFlags id f1 f2) := by
  refine ⟨hid, ?_, ?_⟩
  · have : opcodeFromU8 ((f1 &&& HEADER_MASK_OPCODE) >>> HEADER_OFFSET_OPCODE) ≤ 15 :=
      Nat.and_le_right
    exact Nat.lt_succ_of_le this
  · have : rcodeFromU8 ((f2 &&& HEADER_MASK_RCODE) >>> HEADER_OFFSET_RCODE) ≤ 15 :=
      Nat.and_le_right
    exact Nat.lt_succ_of_le this

theorem decodeName_wf {id : Nat} {buf : List UInt8} {pos : Nat} {n : Name} {e : Nat}
    (h : decodeName id buf pos = .ok (n, e)) : NameWF n := by
  obtain ⟨hw, hle⟩ := decodeName_sound h
  obtain ⟨h1, h2, h3⟩ := hw.wf
  exact ⟨h1, h2, h3, by rw [dml]; exact hle⟩

theorem decodeField_wf {id : Nat} {buf : List UInt8} {rdlength : Nat} {f : Field} {pos : Nat}
    {v : FieldVal} {e : Nat} (hrdl : rdlength < 65536)
    (h : decodeField id buf rdlength f pos = .ok (v, e)) : FieldValWF f v := by
  cases f with
  | u16 =>
    obtain ⟨⟨n, p⟩, hx, hv⟩ := Except_map_ok h
    cases hv
    exact nextU16_lt (orRRShort_ok hx)
  | u32 =>
    obtain ⟨⟨n, p⟩, hx, hv⟩ := Except_map_ok h
    cases hv
    exact nextU32_lt (orRRShort_ok hx)
  | a =>
    obtain ⟨⟨n, p⟩, hx, hv⟩ := Except_map_ok h
    cases hv
    exact nextU32_lt (orRRShort_ok hx)
  | aaaa =>
    obtain ⟨⟨gs, p⟩, hx, hv⟩ := Except_map_ok h
    cases hv
    exact ⟨(decodeGroups_ok 8 hx).2.2, decodeGroups_lt 8 hx⟩
  | «opaque» =>
    obtain ⟨⟨bs, p⟩, hx, hv⟩ := Except_map_ok h
    cases hv
    obtain ⟨hle, _, rfl⟩ := takeN_some (orRRShort_ok hx)
    show ((buf.drop pos).take rdlength).length < 65536
    rw [List.length_take, List.length_drop]
    omega
  | name c =>
    obtain ⟨⟨n, p⟩, hx, hv⟩ := Except_map_ok h
    cases hv
    exact decodeName_wf hx

theorem decodeFields_wf {id : Nat} {buf : List UInt8} {rdlength : Nat} (hrdl : rdlength < 65536)
    (fs : List Field) :
    ∀ {pos : Nat} {vs : List FieldVal} {e : Nat},
      decodeFields id buf rdlength fs pos = .ok (vs, e) → FieldsWF fs vs := by
  induction fs with
  | nil => intro pos vs e h; cases h; exact True.intro
  | cons f fs ih =>
    intro pos vs e h
    unfold decodeFields at h
    split at h
    · cases h
    · rename_i v pos' hf
      split at h
      · cases h
      · rename_i vs' pos'' hrec
        cases h
        exact ⟨decodeField_wf hrdl hf, ih hrec⟩

theorem decodeRR_wf {id : Nat} {buf : List UInt8} {pos : Nat} {rr : RR} {e : Nat}
    (h : decodeRR id buf pos = .ok (rr, e)) : RRWF rr := by
  obtain ⟨p1, rdlength, hn, h2, h3, h4, h5, hf, _⟩ := decodeRR_ok h
  rw [decodeLayoutOf_eq] at hf
  exact ⟨decodeName_wf hn, nextU16_lt h2, nextU16_lt h3, nextU32_lt h4,
    decodeFields_wf (nextU16_lt h5) _ hf⟩

theorem decodeQuestion_wf {id : Nat} {buf : List UInt8} {pos : Nat} {q : Question} {e : Nat}
    (h : decodeQuestion id buf pos = .ok (q, e)) : QuestionWF q := by
  obtain ⟨p1, hn, h2, h3, _⟩ := decodeQuestion_ok h
  exact ⟨decodeName_wf hn, nextU16_lt h2, nextU16_lt h3⟩

/-- Every decoder output is well-formed. -/
theorem decodeMessage_wf {buf : List UInt8} {m : Message} (h : decodeMessage buf = .ok m) :
    WfMsg m := by
  obtain ⟨id, f1, f2, qd, an, ns, ar, p8, p9, p10, p11, h1, _, _, _, _, _, _, hh, h8, h9, h10,
    h11⟩ := decodeMessage_ok h
  have hrr : ∀ {k p} {rs : List RR} {e}, decodeMany (decodeRR id buf) k p = .ok (rs, e) →
      ∀ r ∈ rs, RRWF r := by
    intro k p rs e hm r hr
    obtain ⟨p0, p', hd⟩ := decodeMany_mem k hm r hr
    exact decodeRR_wf hd
  refine ⟨hh ▸ decodeFlags_wf id f1 f2 (nextU16_lt h1), ?_, hrr h9, hrr h10, hrr h11⟩
  intro q hq
  obtain ⟨p0, p', hd⟩ := decodeMany_mem qd h8 q hq
  exact decodeQuestion_wf hd

/-- The section counts of a decoder output fit 16 bits. -/
theorem decodeMessage_counts {buf : List UInt8} {m : Message} (h : decodeMessage buf = .ok m) :
    m.questions.length < 65536 ∧ m.answers.length < 65536 ∧ m.authority.length < 65536 ∧
    m.additional.length < 65536 := by
  obtain ⟨id, f1, f2, qd, an, ns, ar, p8, p9, p10, p11, _, _, _, h4, h5, h6, h7, _, h8, h9, h10,
    h11⟩ := decodeMessage_ok h
  rw [decodeMany_length _ h8, decodeMany_length _ h9, decodeMany_length _ h10,
    decodeMany_length _ h11]
  exact ⟨nextU16_lt h4, nextU16_lt h5, nextU16_lt h6, nextU16_lt h7⟩

/-! ## The encoder accepts every well-formed message with 16-bit section counts -/

/-- most octets a well-formed value of this field kind can take on the wire (names counted
    uncompressed) -/
def fieldMaxLen : Field → Nat
  | .u16 => 2
  | .u32 => 4
  | .a => 4
  | .aaaa => 16
  | .opaque => 65535
  | .name _ => 255

def layoutMaxLen (fs : List Field) : Nat := (fs.map fieldMaxLen).sum

/-- every generated RDATA layout fits RDLENGTH even in the worst case -/
theorem rdataEncodeLayout_maxLen : ∀ e ∈ Gen.rdataEncodeLayout, layoutMaxLen e.2 < 65536 := by
  decide

theorem encodeLayoutOf_maxLen (code : Nat) : layoutMaxLen (encodeLayoutOf code) < 65536 := by
  unfold encodeLayoutOf
  split
  · rename_i l hl
    exact rdataEncodeLayout_maxLen _ (lookupStr_mem _ _ _ hl)
  · decide

theorem encodeName_length_le (b : WBuf) (n : Name) (c : Bool) (hwf : NameWF n) :
    (encodeName b n c).octets.length ≤ b.octets.length + 255 := by
  rw [encodeName_eq]
  split
  · simp only [List.length_append, u16Bytes_length]; omega
  · have := hwf.2.2.2
    rw [dml] at this
    simp only [List.length_append, hwf.len_eq]; omega

theorem encodeField_length_le (b : WBuf) (f : Field) (v : FieldVal) (hwf : FieldValWF f v) :
    (encodeField b f v).octets.length ≤ b.octets.length + fieldMaxLen f := by
  cases f <;> cases v <;> simp only [FieldValWF] at hwf
  case u16.u16 n => simp [encodeField, WBuf.writeU16, WBuf.writeOctets, fieldMaxLen]
  case u32.u32 n => simp [encodeField, WBuf.writeU32, WBuf.writeOctets, fieldMaxLen]
  case a.a n => simp [encodeField, WBuf.writeU32, WBuf.writeOctets, fieldMaxLen]
  case aaaa.aaaa gs =>
    simp only [encodeField, writeGroups_eq, List.length_append, groupBytes_length, hwf.1,
      fieldMaxLen]
    omega
  case opaque.opaque bs =>
    simp only [encodeField, WBuf.writeOctets, List.length_append, fieldMaxLen]
    omega
  case name.name c n => exact encodeName_length_le b n c hwf

theorem encodeFields_length_le (fs : List Field) :
    ∀ (vs : List FieldVal) (b : WBuf), FieldsWF fs vs →
    (encodeFields b fs vs).octets.length ≤ b.octets.length + layoutMaxLen fs := by
  induction fs with
  | nil =>
    intro vs b hwf
    cases vs with
    | nil => simp [encodeFields, layoutMaxLen]
    | cons _ _ => exact absurd hwf (by simp [FieldsWF])
  | cons f fs ih =>
    intro vs b hwf
    cases vs with
    | nil => exact absurd hwf (by simp [FieldsWF])
    | cons v vs =>
      have h1 := encodeField_length_le b f v hwf.1
      have h2 := ih vs (encodeField b f v) hwf.2
      simp only [encodeFields, layoutMaxLen, List.map_cons, List.sum_cons] at h2 ⊢
      omega

/-- `ResourceRecord::serialise` cannot fail on a well-formed record: the RDATA it writes is shorter
    than 65 536 octets. -/
theorem encodeRR_total (b : WBuf) (rr : RR) (hwf : RRWF rr) : ∃ b', encodeRR b rr = .ok b' := by
  unfold encodeRR
  simp only
  generalize (((encodeName b rr.name rrNameCompress).writeU16 rr.rtype).writeU16
    rr.rclass).writeU32 rr.ttl = X
  have h1 := encodeFields_length_le (encodeLayoutOf rr.rtype) rr.fields (X.writeU16 0) hwf.2.2.2.2
  have h2 := encodeLayoutOf_maxLen rr.rtype
  have h3 : (X.writeU16 0).octets.length = X.octets.length + 2 := by
    simp [WBuf.writeU16, WBuf.writeOctets]
  have hlt : (encodeFields (X.writeU16 0) (encodeLayoutOf rr.rtype) rr.fields).index - X.index - 2
      < 65536 := by
    unfold WBuf.index; omega
  simp only [usizeToU16, if_pos hlt]
  exact ⟨_, rfl⟩

theorem encodeRRs_total (rrs : List RR) :
    ∀ (b : WBuf), (∀ r ∈ rrs, RRWF r) → ∃ b', encodeRRs b rrs = .ok b' := by
  induction rrs with
  | nil => intro b _; exact ⟨b, rfl⟩
  | cons r rrs ih =>
    intro b hwf
    obtain ⟨b1, hb1⟩ := encodeRR_total b r (hwf r (by simp))
    obtain ⟨b', hb'⟩ := ih b1 (fun x hx => hwf x (by simp [hx]))
    exact ⟨b', by simp only [encodeRRs, hb1, hb']⟩

/-- `Message::to_octets` succeeds on every well-formed message whose four section counts fit
    16 bits. -/
theorem encodeMessage_total (m : Message) (hwf : WfMsg m) (hq : m.questions.length < 65536)
    (ha : m.answers.length < 65536) (hn : m.authority.length < 65536)
    (hr : m.additional.length < 65536) : ∃ bs, encodeMessage m = .ok bs := by
  obtain ⟨_, _, hwa, hwn, hwr⟩ := hwf
  unfold encodeMessage
  simp only [usizeToU16, if_pos hq, if_pos ha, if_pos hn, if_pos hr]
  generalize List.foldl encodeQuestion _ m.questions = bQ
  obtain ⟨bA, hA⟩ := encodeRRs_total m.answers bQ hwa
  obtain ⟨bN, hN⟩ := encodeRRs_total m.authority bA hwn
  obtain ⟨bR, hR⟩ := encodeRRs_total m.additional bN hwr
  simp only [hA, hN, hR]
  exact ⟨_, rfl⟩

/-! ## Pointer targets are earlier full copies of the same name -/

/-- `WireName` without the pointer constructor: an uncompressed name standing at `pos`. -/
inductive PlainWireName (buf : List UInt8) : Nat → List Label → Nat → Nat → Prop where
  | root {pos : Nat} : buf[pos]? = some 0 → PlainWireName buf pos [[]] 1 (pos + 1)
  | label {pos : Nat} {sz : UInt8} {rest : List Label} {rlen e : Nat} :
      buf[pos]? = some sz → 1 ≤ sz.toNat → sz.toNat ≤ 63 →
      pos + 1 + sz.toNat ≤ buf.length →
      PlainWireName buf (pos + 1 + sz.toNat) rest rlen e →
      PlainWireName buf pos (((buf.drop (pos + 1)).take sz.toNat).map lowerByte :: rest)
        (1 + sz.toNat + rlen) e

/-- a pointer-free name is a `WireName` whatever the pointer bound -/
theorem PlainWireName.toWireName {buf : List UInt8} {pos : Nat} {ls : List Label} {l e : Nat}
    (h : PlainWireName buf pos ls l e) (s : Nat) : WireName buf s pos ls l e := by
  induction h with
  | root h0 => exact WireName.root h0
  | label h0 h1 h2 h3 _ ih => exact WireName.label h0 h1 h2 h3 ih

/-- a pointer-free name is contiguous: it ends `len` octets after it starts -/
theorem PlainWireName.end_eq {buf : List UInt8} {pos : Nat} {ls : List Label} {l e : Nat}
    (h : PlainWireName buf pos ls l e) : e = pos + l := by
  induction h with
  | root _ => rfl
  | label _ _ _ _ _ ih => omega

theorem plainWireName_flatLabels (ls : List Label) :
    ∀ (pre post : List UInt8), LabelsShape ls → (∀ l ∈ ls, LabelOK l) →
    PlainWireName (pre ++ flatLabels ls ++ post) pre.length ls (ls.length + sumLen ls)
      (pre.length + (ls.length + sumLen ls)) := by
  induction ls with
  | nil => intro _ _ h; exact absurd rfl h.1
  | cons l ls ih =>
    intro pre post hshape hok
    rcases LabelsShape_cons l ls hshape with ⟨rfl, rfl⟩ | ⟨hls, hl, hshape'⟩
    · have : (pre ++ flatLabels [[]] ++ post)[pre.length]? = some 0 := by
        simp [flatLabels, u8]
      exact PlainWireName.root this
    · have hokl := hok l (by simp)
      have h63 : l.length ≤ 63 := hokl.1
      have h1 : 1 ≤ l.length := by
        cases l with
        | nil => exact absurd rfl hl
        | cons _ _ => simp
      have hsz : (u8 l.length).toNat = l.length := u8_toNat _ (by omega)
      have e2 : pre ++ flatLabels (l :: ls) ++ post
          = (pre ++ u8 l.length :: l) ++ flatLabels ls ++ post := by simp [flatLabels]
      have e3 : (pre ++ u8 l.length :: l).length = pre.length + 1 + (u8 l.length).toNat := by
        simp [hsz]; omega
      have ih' := ih (pre ++ u8 l.length :: l) post hshape' (fun x hx => hok x (by simp [hx]))
      rw [← e2, e3] at ih'
      have hget : (pre ++ flatLabels (l :: ls) ++ post)[pre.length]? = some (u8 l.length) := by
        simp [flatLabels]
      have hbound : pre.length + 1 + (u8 l.length).toNat
          ≤ (pre ++ flatLabels (l :: ls) ++ post).length := by
        simp [flatLabels, hsz]; omega
      have hw := PlainWireName.label hget (by omega) (by omega) hbound ih'
      have hlab : (((pre ++ flatLabels (l :: ls) ++ post).drop (pre.length + 1)).take
          (u8 l.length).toNat).map lowerByte = l := by
        rw [hsz]
        have : (pre ++ flatLabels (l :: ls) ++ post).drop (pre.length + 1)
            = l ++ (flatLabels ls ++ post) := by
          simp [flatLabels, List.drop_append]
        rw [this, List.take_left', map_lowerByte_of_ok l hokl]
        rfl
      rw [hlab, hsz] at hw
      have hlen : (l :: ls).length + sumLen (l :: ls) = 1 + l.length + (ls.length + sumLen ls) := by
        simp; omega
      have hend : pre.length + (1 + l.length + (ls.length + sumLen ls))
          = pre.length + 1 + l.length + (ls.length + sumLen ls) := by
        omega
      rw [hlen, hend]
      exact hw

theorem plainWireName_hasAt {buf : List UInt8} {off : Nat} {n : Name} (hwf : NameWF n)
    (h : HasAt buf off (flatLabels n.labels)) :
    PlainWireName buf off n.labels n.len (off + n.len) := by
  obtain ⟨pre, post, rfl, rfl⟩ := h
  have := plainWireName_flatLabels n.labels pre post hwf.1 hwf.2.1
  rw [← hwf.2.2.1] at this
  exact this

theorem HasAt.slice {buf : List UInt8} {off : Nat} {xs : List UInt8} (h : HasAt buf off xs) :
    (buf.drop off).take xs.length = xs := by
  obtain ⟨pre, post, rfl, rfl⟩ := h
  simp

/-- Under the strong invariant, the table entry found for `n` addresses a full uncompressed copy
    of `n` itself, written earlier. -/
theorem pointer_target (b : WBuf) (n : Name) (p : Nat) (hinv : NameInv b)
    (hp : b.namePointer n = some p) :
    ∃ off, p = 0xC000 + off ∧ off < 16384 ∧ off + n.len ≤ b.octets.length ∧
      off < b.octets.length ∧ NameWF n ∧
      (b.octets.drop off).take n.len = flatLabels n.labels ∧
      (∀ post, PlainWireName (b.octets ++ post) off n.labels n.len (off + n.len)) ∧
      (∀ id start post,
        decodeNameLoop id (b.octets ++ post) start off 0 [] = .ok (n, off + n.len)) := by
  obtain ⟨off, hpo, ho, hwf, hat⟩ := hinv n p (lookupName_mem _ _ _ hp)
  have h1 := hat.bound
  rw [hwf.len_eq] at h1
  have h2 := hwf.len_pos
  refine ⟨off, hpo, ho, h1, by omega, hwf, ?_, ?_, ?_⟩
  · have := hat.slice
    rwa [hwf.len_eq] at this
  · intro post; exact plainWireName_hasAt hwf (hat.append post)
  · intro id start post; exact decodeNameLoop_hasAt id start _ off n hwf (hat.append post)

/-! ## The strong invariant along `Message::to_octets` -/

theorem NameInv.encodeFields (fs : List Field) :
    ∀ (vs : List FieldVal) {b : WBuf}, NameInv b → FieldsWF fs vs →
      NameInv (encodeFields b fs vs) := by
  induction fs with
  | nil => intro vs b h _; simpa only [Resolved.encodeFields] using h
  | cons f fs ih =>
    intro vs b h hwf
    cases vs with
    | nil => simpa only [Resolved.encodeFields] using h
    | cons v vs =>
      simp only [Resolved.encodeFields]
      exact ih vs (encodeField_spec b f v h hwf.1).2.1 hwf.2

/-- Encoder states reached from the empty buffer by steps on well-formed arguments. All states
    in which `Message::to_octets` calls `DomainName::serialise` for a well-formed message are of
    this kind (`encodeMessage_reach`, `EncReachWF.*_prefix`), including the states inside a
    record before the RDLENGTH back-patch. -/
inductive EncReachWF : WBuf → Prop where
  | empty : EncReachWF WBuf.empty
  | writeU8 {b : WBuf} (o : Nat) : EncReachWF b → EncReachWF (b.writeU8 o)
  | writeU16 {b : WBuf} (v : Nat) : EncReachWF b → EncReachWF (b.writeU16 v)
  | writeU32 {b : WBuf} (v : Nat) : EncReachWF b → EncReachWF (b.writeU32 v)
  | writeOctets {b : WBuf} (x : List UInt8) : EncReachWF b → EncReachWF (b.writeOctets x)
  | encodeName {b : WBuf} (n : Name) (c : Bool) : NameWF n → EncReachWF b →
      EncReachWF (encodeName b n c)
  | encodeField {b : WBuf} (f : Field) (v : FieldVal) : FieldValWF f v → EncReachWF b →
      EncReachWF (encodeField b f v)
  | encodeFields {b : WBuf} (fs : List Field) (vs : List FieldVal) : FieldsWF fs vs →
      EncReachWF b → EncReachWF (encodeFields b fs vs)
  | encodeHeader {b : WBuf} (h : Header) : EncReachWF b → EncReachWF (encodeHeader b h)
  | encodeQuestion {b : WBuf} (q : Question) : QuestionWF q → EncReachWF b →
      EncReachWF (encodeQuestion b q)
  | encodeRR {b b' : WBuf} (rr : RR) : RRWF rr → EncReachWF b → encodeRR b rr = .ok b' →
      EncReachWF b'
  | encodeRRs {b b' : WBuf} (rrs : List RR) : (∀ r ∈ rrs, RRWF r) → EncReachWF b →
      encodeRRs b rrs = .ok b' → EncReachWF b'

theorem EncReachWF.nameInv {b : WBuf} (h : EncReachWF b) : NameInv b := by
  induction h with
  | empty => exact NameInv_empty
  | writeU8 o _ ih => exact ih.writeU8 o
  | writeU16 v _ ih => exact ih.writeU16 v
  | writeU32 v _ ih => exact ih.writeU32 v
  | writeOctets x _ ih => exact ih.writeOctets x
  | encodeName n c hwf _ ih => exact ih.encodeName hwf c
  | encodeField f v hwf _ ih => exact (encodeField_spec _ f v ih hwf).2.1
  | encodeFields fs vs hwf _ ih => exact NameInv.encodeFields fs vs ih hwf
  | encodeHeader h _ ih => rw [encodeHeader_eq]; exact ih.writeOctets _
  | encodeQuestion q hwf _ ih => exact (encodeQuestion_spec _ q ih hwf).2.1
  | encodeRR rr hwf _ he ih => exact (encodeRR_spec _ rr _ ih hwf he).2.1
  | encodeRRs rrs hwf _ he ih => exact (encodeRRs_spec rrs _ _ ih hwf he).2.1

theorem EncReachWF.reach {b : WBuf} (h : EncReachWF b) : EncReach b := by
  induction h with
  | empty => exact .empty
  | writeU8 o _ ih => exact .writeU8 o ih
  | writeU16 v _ ih => exact .writeU16 v ih
  | writeU32 v _ ih => exact .writeU32 v ih
  | writeOctets x _ ih => exact .writeOctets x ih
  | encodeName n c _ _ ih => exact .encodeName n c ih
  | encodeField f v _ _ ih => exact .encodeField f v ih
  | encodeFields fs vs _ _ ih => exact .encodeFields fs vs ih
  | encodeHeader h _ ih => exact .encodeHeader h ih
  | encodeQuestion q _ _ ih => exact .encodeQuestion q ih
  | encodeRR rr _ _ he ih => exact .encodeRR rr ih he
  | encodeRRs rrs _ _ he ih => exact .encodeRRs rrs ih he

theorem EncReachWF.foldl_encodeQuestion (qs : List Question) :
    ∀ {b : WBuf}, EncReachWF b → (∀ q ∈ qs, QuestionWF q) →
      EncReachWF (qs.foldl Resolved.encodeQuestion b) := by
  induction qs with
  | nil => intro b h _; exact h
  | cons q qs ih =>
    intro b h hwf
    exact ih (.encodeQuestion q (hwf q (by simp)) h) (fun x hx => hwf x (by simp [hx]))

/-- the state in which the `k`-th question is serialised -/
theorem EncReachWF.questions_prefix {b : WBuf} (h : EncReachWF b) {qs qs1 qs2 : List Question}
    {q : Question} (hwf : ∀ q ∈ qs, QuestionWF q) (hs : qs = qs1 ++ q :: qs2) :
    EncReachWF (qs1.foldl Resolved.encodeQuestion b) :=
  EncReachWF.foldl_encodeQuestion qs1 h (fun x hx => hwf x (by rw [hs]; simp [hx]))

theorem encodeRRs_append (r1 r2 : List RR) :
    ∀ (b b' : WBuf), Resolved.encodeRRs b (r1 ++ r2) = .ok b' →
      ∃ b1, Resolved.encodeRRs b r1 = .ok b1 ∧ Resolved.encodeRRs b1 r2 = .ok b' := by
  induction r1 with
  | nil => intro b b' h; exact ⟨b, rfl, h⟩
  | cons r r1 ih =>
    intro b b' h
    simp only [List.cons_append, Resolved.encodeRRs] at h ⊢
    split at h
    · cases h
    · rename_i bx hbx
      exact ih bx b' h

/-- the state in which the `k`-th record of a section is serialised -/
theorem EncReachWF.rrs_prefix {b b' : WBuf} (h : EncReachWF b) {rrs r1 r2 : List RR} {r : RR}
    (hwf : ∀ r ∈ rrs, RRWF r) (hs : rrs = r1 ++ r :: r2) (he : Resolved.encodeRRs b rrs = .ok b') :
    ∃ b1 b2, Resolved.encodeRRs b r1 = .ok b1 ∧ EncReachWF b1 ∧ Resolved.encodeRR b1 r = .ok b2 ∧
      Resolved.encodeRRs b2 r2 = .ok b' := by
  subst hs
  obtain ⟨b1, h1, h2⟩ := encodeRRs_append r1 (r :: r2) b b' he
  simp only [Resolved.encodeRRs] at h2
  split at h2
  · cases h2
  · rename_i b2 hb2
    exact ⟨b1, b2, h1, .encodeRRs r1 (fun x hx => hwf x (by simp [hx])) h h1, hb2, h2⟩

theorem FieldsWF.take (fs : List Field) :
    ∀ (vs : List FieldVal) (k : Nat), FieldsWF fs vs → FieldsWF (fs.take k) (vs.take k) := by
  induction fs with
  | nil =>
    intro vs k h
    cases vs with
    | nil => simpa using h
    | cons _ _ => exact absurd h (by simp [FieldsWF])
  | cons f fs ih =>
    intro vs k h
    cases vs with
    | nil => exact absurd h (by simp [FieldsWF])
    | cons v vs =>
      cases k with
      | zero => simp [FieldsWF]
      | succ k => exact ⟨h.1, ih vs k h.2⟩

theorem encodeFields_take_drop (fs : List Field) :
    ∀ (vs : List FieldVal) (k : Nat) (b : WBuf),
      Resolved.encodeFields b fs vs
        = Resolved.encodeFields (Resolved.encodeFields b (fs.take k) (vs.take k))
            (fs.drop k) (vs.drop k) := by
  induction fs with
  | nil => intro vs k b; cases vs <;> simp [Resolved.encodeFields]
  | cons f fs ih =>
    intro vs k b
    cases vs with
    | nil => cases k <;> simp [Resolved.encodeFields]
    | cons v vs =>
      cases k with
      | zero => simp [Resolved.encodeFields]
      | succ k => simp only [List.take_succ_cons, List.drop_succ_cons, Resolved.encodeFields]; exact ih vs k _

/-- inside a record: the (pre-patch) state in which the `k`-th RDATA field is serialised -/
theorem EncReachWF.rdata_prefix {b : WBuf} (h : EncReachWF b) {rr : RR} (hwf : RRWF rr) (k : Nat) :
    EncReachWF (Resolved.encodeFields
      (((((Resolved.encodeName b rr.name rrNameCompress).writeU16 rr.rtype).writeU16
        rr.rclass).writeU32 rr.ttl).writeU16 0)
      ((encodeLayoutOf rr.rtype).take k) (rr.fields.take k)) :=
  .encodeFields _ _ (FieldsWF.take _ _ k hwf.2.2.2.2)
    (.writeU16 0 (.writeU32 _ (.writeU16 _ (.writeU16 _ (.encodeName _ _ hwf.1 h)))))

/-- The states `Message::to_octets` goes through on a well-formed message: after the header and
    counts, after the questions, and after each record section; all satisfy `EncReachWF`. -/
theorem encodeMessage_reach (m : Message) (bs : List UInt8) (hwf : WfMsg m)
    (h : encodeMessage m = .ok bs) :
    ∃ b0 bQ bA bN bR : WBuf,
      b0 = ((((Resolved.encodeHeader WBuf.empty m.header).writeU16 m.questions.length).writeU16
        m.answers.length).writeU16 m.authority.length).writeU16 m.additional.length ∧
      bQ = m.questions.foldl Resolved.encodeQuestion b0 ∧
      Resolved.encodeRRs bQ m.answers = .ok bA ∧ Resolved.encodeRRs bA m.authority = .ok bN ∧
      Resolved.encodeRRs bN m.additional = .ok bR ∧ bR.octets = bs ∧
      EncReachWF b0 ∧ EncReachWF bQ ∧ EncReachWF bA ∧ EncReachWF bN ∧ EncReachWF bR := by
  obtain ⟨_, hq, han, hns, har⟩ := hwf
  unfold encodeMessage at h
  split at h; · cases h
  rename_i qd hqd
  split at h; · cases h
  rename_i an han'
  split at h; · cases h
  rename_i ns hns'
  split at h; · cases h
  rename_i ar har'
  obtain ⟨rfl, _⟩ := usizeToU16_ok hqd
  obtain ⟨rfl, _⟩ := usizeToU16_ok han'
  obtain ⟨rfl, _⟩ := usizeToU16_ok hns'
  obtain ⟨rfl, _⟩ := usizeToU16_ok har'
  simp only at h
  split at h; · cases h
  rename_i bA hbA
  split at h; · cases h
  rename_i bN hbN
  split at h; · cases h
  rename_i bR hbR
  cases h
  have r0 : EncReachWF (((((Resolved.encodeHeader WBuf.empty m.header).writeU16
      m.questions.length).writeU16 m.answers.length).writeU16 m.authority.length).writeU16
      m.additional.length) :=
    .writeU16 _ (.writeU16 _ (.writeU16 _ (.writeU16 _ (.encodeHeader _ .empty))))
  have rQ := EncReachWF.foldl_encodeQuestion m.questions r0 hq
  have rA := EncReachWF.encodeRRs m.answers han rQ hbA
  have rN := EncReachWF.encodeRRs m.authority hns rA hbN
  have rR := EncReachWF.encodeRRs m.additional har rN hbR
  exact ⟨_, _, bA, bN, bR, rfl, rfl, hbA, hbN, hbR, rfl, r0, rQ, rA, rN, rR⟩

end Resolved
