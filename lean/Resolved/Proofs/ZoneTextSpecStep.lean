/-
  C11: one directive of the specification's rendering, in the entry loop, against `denoteDirective`.
-/
import Resolved.Proofs.ZoneTextSpecRecord
import Resolved.Proofs.ZoneTextReject

namespace Resolved.ZoneText

open Resolved Resolved.IpText Gen ZTSpec

/-! ## tokens that do not spell a type -/

theorem map_charAsU8_eq_asciiOctets (s : List Char) : s.map charAsU8 = asciiOctets s := rfl

theorem rtypeFromStr_none_of_not_spells (bs : List UInt8) (h : spellsType bs = false) :
    rtypeFromStr (bs.map octetAsChar) = none := by
  simp only [spellsType, Bool.or_eq_false_iff, List.any_eq_false, beq_iff_eq] at h
  obtain ⟨h1, h2⟩ := h
  unfold rtypeFromStr
  rw [lookupByName_none]
  · simp only
    rw [if_neg]
    intro ht
    apply (by simpa using h2 : ¬ bs.take 4 = asciiOctets ['T', 'Y', 'P', 'E'])
    have := congrArg (List.map charAsU8) ht
    rw [← List.map_take, map_charAsU8_octetAsChar] at this
    rw [this]; rfl
  · intro p hp he
    have hp' : p ∈ mnemonics := hp
    have := h1 p hp'
    apply this
    have h3 := congrArg (List.map charAsU8) he
    rw [map_charAsU8_octetAsChar] at h3
    rw [h3]; rfl

theorem fieldAtoms_congr (lv lv' : LineVar) (h : lv.aaaaFull = lv'.aaaaFull) (f : RField) :
    fieldAtoms lv f = fieldAtoms lv' f := by
  cases f <;> simp [fieldAtoms, h]

theorem noType_rdata (lv : LineVar) (rd : List RField)
    (h : ∀ f ∈ rd, fieldOk false {} f = true ∧ fieldOk false { aaaaFull := true } f = true) :
    NoType (rd.map (fieldTok lv)) := by
  intro t ht
  simp only [List.mem_map] at ht
  obtain ⟨f, hf, rfl⟩ := ht
  obtain ⟨h1, h2⟩ := h f hf
  simp only [fieldOk, Bool.and_eq_true, Bool.not_eq_true'] at h1 h2
  have hsp : spellsType (fieldText lv f) = false := by
    cases hfull : lv.aaaaFull with
    | false =>
      have : fieldText lv f = fieldText {} f := by
        unfold fieldText; rw [fieldAtoms_congr lv {} (by rw [hfull]) f]
      rw [this]; exact h1.2
    | true =>
      have : fieldText lv f = fieldText { aaaaFull := true } f := by
        unfold fieldText; rw [fieldAtoms_congr lv { aaaaFull := true } (by rw [hfull]) f]
      rw [this]; exact h2.2
  exact rtypeFromStr_none_of_not_spells _ hsp

/-! ## the tokens of a record line -/

def ownerT (ow : OwnerRef) : Token := tokenOf (ownerAtoms ow)
def ttlT (t : Nat) : Token := tokenOf (asciiAtoms (showDec t))
def typeT (lv : LineVar) (code : Nat) : Token := tokenOf (asciiAtoms (typeText lv.typeNumeric code))

theorem ownerT_fst (ow : OwnerRef) : (ownerT ow).1 = ownerChars ow := rfl

theorem ttlT_fst (t : Nat) : (ttlT t).1 = showDec t := by
  simp [ttlT, tokenOf_asciiAtoms _ (showDec_ascii t)]

theorem clsT_eq : tokenOf (plainAtoms clsIN) = tIN := by
  rw [tokenOf_plainAtoms]; rfl

/-- the tokens of a record of class `IN` (or none), as the tokeniser hands them over. -/
def recordTokens (lv : LineVar) (r : Rec) : List Token :=
  (match r.owner with | some ow => [ownerT ow] | none => [])
    ++ (if lv.classFirst then (match r.cls with | some _ => [tIN] | none => []) ++ (match r.ttl with | some t => [ttlT t] | none => [])
        else (match r.ttl with | some t => [ttlT t] | none => []) ++ (match r.cls with | some _ => [tIN] | none => []))
    ++ typeT lv r.rtype :: r.rdata.map (fieldTok lv)

theorem recordTokens_eq (lv : LineVar) (r : Rec) (hcls : r.cls = none ∨ r.cls = some clsIN) :
    (directiveTokens lv (.record r)).map tokenOf = recordTokens lv r := by
  unfold directiveTokens recordTokens
  simp only
  rcases hcls with hc | hc <;> rw [hc] <;> cases r.owner <;> cases r.ttl <;> cases lv.classFirst <;>
    simp [ownerT, ttlT, typeT, fieldTok, clsT_eq, Function.comp_def]

/-! ## what `parse_rr` makes of them -/

/-- the reading of a record line: explicit owner or the previous one, explicit TTL or the previous one. -/
def expectRr (pd : Option MaybeWildcard) (pt : Option Nat) (owner : Option MaybeWildcard) (ttl : Option Nat)
    (rdat : RData) : Except Error Entry :=
  let withTtl (w : MaybeWildcard) : Except Error Entry :=
    match ttl with
    | some t => .ok (toRr w rdat t)
    | none => withInheritedTtl w rdat pt
  match owner with
  | some w => withTtl w
  | none => withPreviousDomain pd withTtl

theorem showDec_allDigits (n : Nat) : allDigits (showDec n) = true := by
  simp only [allDigits, List.all_eq_true]
  exact (showDec_digits n).2

theorem showDec_ne_sIN (n : Nat) : showDec n ≠ sIN := by
  intro h
  have := (showDec_digits n).2 'I' (by rw [h]; decide)
  revert this; decide

/-- **the ten shapes, assembled**: a rendered record of class `IN` (written or omitted), in either
    TTL–class order, is read as `expectRr` says. -/
theorem parseRr_record (o : Option Name) (pd : Option MaybeWildcard) (pt : Option Nat) (lv : LineVar)
    (r : Rec) (hcls : r.cls = none ∨ r.cls = some clsIN) (rdat : RData)
    (hty : tryParseRtypeWithData o (typeT lv r.rtype :: r.rdata.map (fieldTok lv)) = some rdat)
    (hnt : NoType (r.rdata.map (fieldTok lv)))
    (httl : ∀ t, r.ttl = some t → t < 4294967296)
    (w : Option MaybeWildcard)
    (howner : ∀ ow, r.owner = some ow →
      ∃ mw, w = some mw ∧ parseDomainOrWildcard o (ownerChars ow) = .ok mw ∧ allDigits (ownerChars ow) = false ∧
        ownerChars ow ≠ sIN)
    (hnone : r.owner = none → w = none) :
    parseRr o pd pt (recordTokens lv r) = expectRr pd pt w r.ttl rdat := by
  unfold recordTokens expectRr
  cases hown : r.owner with
  | some ow =>
    obtain ⟨mw, rfl, hd, hdig, hdIN⟩ := howner ow hown
    cases httl' : r.ttl with
    | some t =>
      have ht := parseU32_showDec t (httl t httl')
      rcases hcls with hc | hc <;> rw [hc]
      · -- owner ttl type
        simp only [List.cons_append, List.nil_append, List.append_nil, ite_self]
        exact shape_domain_ttl o pd pt (ownerT ow) (ttlT t) (typeT lv r.rtype) _ rdat mw t hty hnt
          (by rw [ownerT_fst]; exact hd) (by rw [ttlT_fst]; exact ht) (by rw [ttlT_fst]; exact showDec_ne_sIN t)
          (by rw [ownerT_fst]; exact hdIN)
      · cases lv.classFirst with
        | false =>
          simp only [Bool.false_eq_true, if_false, List.cons_append, List.nil_append]
          exact shape_domain_ttl_class o pd pt (ownerT ow) (ttlT t) (typeT lv r.rtype) _ rdat mw t hty
            (by rw [ownerT_fst]; exact hd) (by rw [ttlT_fst]; exact ht)
        | true =>
          simp only [if_true, List.cons_append, List.nil_append]
          exact shape_domain_class_ttl o pd pt (ownerT ow) (ttlT t) (typeT lv r.rtype) _ rdat mw t hty
            (by rw [ownerT_fst]; exact hd) (by rw [ttlT_fst]; exact ht) (by rw [ttlT_fst]; exact showDec_ne_sIN t)
    | none =>
      rcases hcls with hc | hc <;> rw [hc]
      · simp only [List.cons_append, List.nil_append, List.append_nil, ite_self]
        exact shape_domain o pd pt (ownerT ow) (typeT lv r.rtype) _ rdat mw hty hnt
          (by rw [ownerT_fst]; exact hd) (by rw [ownerT_fst]; exact hdig) (by rw [ownerT_fst]; exact hdIN)
      · simp only [List.cons_append, List.nil_append, List.append_nil, ite_self]
        exact shape_domain_class o pd pt (ownerT ow) (typeT lv r.rtype) _ rdat mw hty hnt
          (by rw [ownerT_fst]; exact hd) (by rw [ownerT_fst]; exact hdig)
  | none =>
    have hw := hnone hown
    subst hw
    cases httl' : r.ttl with
    | some t =>
      have ht := parseU32_showDec t (httl t httl')
      rcases hcls with hc | hc <;> rw [hc]
      · simp only [List.cons_append, List.nil_append, List.append_nil, ite_self]
        exact shape_ttl o pd pt (ttlT t) (typeT lv r.rtype) _ rdat t hty hnt
          (by rw [ttlT_fst]; exact showDec_allDigits t) (by rw [ttlT_fst]; exact ht)
          (by rw [ttlT_fst]; exact showDec_ne_sIN t)
      · cases lv.classFirst with
        | false =>
          simp only [Bool.false_eq_true, if_false, List.cons_append, List.nil_append]
          exact shape_ttl_class o pd pt (ttlT t) (typeT lv r.rtype) _ rdat t hty hnt
            (by rw [ttlT_fst]; exact showDec_allDigits t) (by rw [ttlT_fst]; exact ht)
        | true =>
          simp only [if_true, List.cons_append, List.nil_append]
          exact shape_class_ttl o pd pt (ttlT t) (typeT lv r.rtype) _ rdat t hty hnt
            (by rw [ttlT_fst]; exact ht) (by rw [ttlT_fst]; exact showDec_ne_sIN t)
    | none =>
      rcases hcls with hc | hc <;> rw [hc]
      · simp only [List.nil_append, List.append_nil, ite_self]
        exact shape_bare o pd pt (typeT lv r.rtype) _ rdat hty hnt
      · simp only [List.cons_append, List.nil_append, List.append_nil, ite_self]
        exact shape_class o pd pt (typeT lv r.rtype) _ rdat hty hnt

/-! ## the atoms of the specification's renderings -/

theorem spec_atoms_structural (n : ZTSpec.NameRef) (o : ZTSpec.OwnerRef) :
    (∀ a ∈ ZTSpec.nameAtoms n, StructuralOk a) ∧ (∀ a ∈ ZTSpec.ownerAtoms o, StructuralOk a) := by
  have hlab : ∀ l : Label, ∀ a ∈ ZTSpec.labelAtoms l, StructuralOk a := by
    intro l a ha hk
    simp only [ZTSpec.labelAtoms, List.mem_map] at ha
    obtain ⟨b, _, rfl⟩ := ha
    simp only at hk
    split at hk <;> cases hk
  have hdot : StructuralOk ZTSpec.dot := fun _ => Or.inl rfl
  have hdl : ∀ ls : List Label, ∀ a ∈ ZTSpec.dottedLabels ls, StructuralOk a := by
    intro ls
    induction ls with
    | nil => intro a ha; simp [ZTSpec.dottedLabels] at ha
    | cons l ls ih =>
      intro a ha
      cases ls with
      | nil => exact hlab l a (by simpa [ZTSpec.dottedLabels] using ha)
      | cons m ms =>
        simp only [ZTSpec.dottedLabels, List.mem_append, List.mem_cons, List.not_mem_nil, or_false] at ha
        rcases ha with (ha | ha) | ha
        · exact hlab l a ha
        · subst ha; exact hdot
        · exact ih a ha
  have hname : ∀ n : ZTSpec.NameRef, ∀ a ∈ ZTSpec.nameAtoms n, StructuralOk a := by
    intro n a ha
    unfold ZTSpec.nameAtoms at ha
    split at ha
    · simp at ha; subst ha; exact hdot
    · simp only [List.mem_append, List.mem_cons, List.not_mem_nil, or_false] at ha
      rcases ha with ha | ha
      · exact hdl _ a ha
      · subst ha; exact hdot
    · simp at ha; subst ha; intro hk; cases hk
    · exact hdl _ a ha
    · simp at ha; subst ha; exact fun _ => Or.inr (Or.inl rfl)
  refine ⟨hname n, ?_⟩
  intro a ha
  cases o with
  | name n => exact hname n a ha
  | wild n =>
    simp only [ZTSpec.ownerAtoms, List.cons_append, List.nil_append, List.mem_cons] at ha
    rcases ha with ha | ha | ha
    · subst ha; exact fun _ => Or.inr (Or.inr rfl)
    · subst ha; exact hdot
    · exact hname n a ha
  | star =>
    simp only [ZTSpec.ownerAtoms, List.mem_cons, List.not_mem_nil, or_false] at ha
    subst ha; exact fun _ => Or.inr (Or.inr rfl)

/-- **The tokeniser inverts the LINE renderings of the specification.**  `lineBody lv eol omitted toks`
    is what `ZTSpec.renderLine` writes for a directive with tokens `toks` (`C11_renderLine_eq`) in the
    lexical variant `lv`: leading blank when the owner is omitted, any separators, every token bare /
    `\X` / `\DDD` / quoted in any mixture, one line or parenthesised across lines (with or without a
    comment before each line break), an optional trailing comment; `eol` is `\n` or `\r\n`.
    Followed by the line end it is read as exactly the directive's tokens, and the entry ends there. -/
theorem C11_tokenise_render_line (lv : ZTSpec.LineVar) (eol : List Char) (heol : IsEol eol)
    (hc : CommentOk lv) (omitted : Bool) (t : List ZTSpec.Atom) (ts : List (List ZTSpec.Atom))
    (hs : ∀ x ∈ t :: ts, ∀ a ∈ x, StructuralOk a) (rest : List Char) :
    tokeniseEntry (lineBody lv eol omitted (t :: ts) ++ eol ++ rest) = .ok ((t :: ts).map tokenOf, rest) :=
  tokenise_lineBody lv eol heol hc omitted t ts hs rest

theorem C11_renderLine_eq (lv : ZTSpec.LineVar) (eol : List Char) (d : ZTSpec.Directive)
    (h : ∀ c, d ≠ .blank c) :
    ZTSpec.renderLine lv eol d = lineBody lv eol (ZTSpec.ownerOmitted d) (ZTSpec.directiveTokens lv d) :=
  renderLine_eq lv eol d h

/-- a blank or comment-only line is read as no token at all (the entry loop then goes on). -/
theorem C11_tokenise_blank_line (eol : List Char) (heol : IsEol eol) (c : Option (List Char))
    (hc : ∀ x, c = some x → '\n' ∉ x) (rest : List Char) :
    tokeniseEntry (ZTSpec.renderLine {} eol (.blank c) ++ eol ++ rest) = .ok ([], rest) :=
  tokenise_blank_line {} eol heol c hc rest

/-- **Open finding C11-K2.**  RFC 1035 §5.1: `\X` quotes a character "so that its special meaning
    does not apply" — `\.` places a dot INSIDE a label.  The tokeniser un-escapes before the name
    parser splits at dots: the token `a\.b` (relative to the origin `e.`) is handed over as the string
    `a.b` and read as the three-label name `a.b.e.`, whereas it denotes the two-label name whose first
    label is `a.b` (`ZTSpec.resolve`); the same for `a\046b`; and `\@` is still taken for the origin. -/
theorem C11_K2_escaped_dot_splits_label :
    let origin : Name := ⟨[[101], []], 3⟩
    tokeniseEntry ['a', '\\', '.', 'b'] = .ok ([(['a', '.', 'b'], [97, 46, 98])], []) ∧
    tokeniseEntry ['a', '\\', '0', '4', '6', 'b'] = .ok ([(['a', '.', 'b'], [97, 46, 98])], []) ∧
    parseDomain (some origin) ['a', '.', 'b'] = .ok ⟨[[97], [98], [101], []], 7⟩ ∧
    ZTSpec.resolve (some origin) (.rel [[97, 46, 98]]) = .ok ⟨[[97, 46, 98], [101], []], 7⟩ ∧
    tokeniseEntry ['\\', '@'] = .ok ([(['@'], [64])], []) ∧
    parseDomain (some origin) ['@'] = .ok origin ∧
    ZTSpec.resolve (some origin) (.rel [[64]]) = .ok ⟨[[64], [101], []], 5⟩ := by
  refine ⟨by rfl, by rfl, by rfl, by rfl, by rfl, by rfl, by rfl⟩


/-! ## all atoms of a directive are fine -/

theorem plainAtoms_structural (bs : List UInt8) : ∀ a ∈ plainAtoms bs, StructuralOk a := by
  intro a ha hk
  simp only [plainAtoms, List.mem_map] at ha
  obtain ⟨b, _, rfl⟩ := ha
  cases hk

theorem fieldAtoms_structural (lv : LineVar) (f : RField) : ∀ a ∈ fieldAtoms lv f, StructuralOk a := by
  cases f with
  | name n => exact (spec_atoms_structural n .star).1
  | u16 n => exact plainAtoms_structural _
  | u32 n => exact plainAtoms_structural _
  | a x => exact plainAtoms_structural _
  | aaaa gs => exact plainAtoms_structural _
  | octets bs => exact plainAtoms_structural _

theorem directiveTokens_structural (lv : LineVar) (d : Directive) :
    ∀ x ∈ directiveTokens lv d, ∀ a ∈ x, StructuralOk a := by
  intro x hx
  cases d with
  | blank c => simp [directiveTokens] at hx
  | origin n =>
    simp only [directiveTokens, List.mem_cons, List.not_mem_nil, or_false] at hx
    rcases hx with rfl | rfl
    · exact plainAtoms_structural _
    · exact (spec_atoms_structural n .star).1
  | «include» p o =>
    simp only [directiveTokens, List.mem_append, List.mem_cons, List.not_mem_nil, or_false] at hx
    rcases hx with (rfl | rfl) | hx
    · exact plainAtoms_structural _
    · exact plainAtoms_structural _
    · cases o with
      | none => simp at hx
      | some n => simp at hx; subst hx; exact (spec_atoms_structural n .star).1
  | record r =>
    obtain ⟨owner, ttl, cls, rtype, rdata⟩ := r
    have hmid : ∀ y ∈ (match ttl with | some t => [asciiAtoms (showDec t)] | none => ([] : List (List Atom)))
        ++ (match cls with | some c => [plainAtoms c] | none => []), ∀ a ∈ y, StructuralOk a := by
      intro y hy
      cases ttl <;> cases cls <;> simp at hy
      · subst hy; exact plainAtoms_structural _
      · subst hy; exact plainAtoms_structural _
      · rcases hy with rfl | rfl <;> exact plainAtoms_structural _
    have hmid' : ∀ y ∈ (match cls with | some c => [plainAtoms c] | none => ([] : List (List Atom)))
        ++ (match ttl with | some t => [asciiAtoms (showDec t)] | none => []), ∀ a ∈ y, StructuralOk a := by
      intro y hy
      exact hmid y (by simp only [List.mem_append] at hy ⊢; exact hy.symm)
    have howner : ∀ y ∈ (match owner with | some o => [ownerAtoms o] | none => ([] : List (List Atom))),
        ∀ a ∈ y, StructuralOk a := by
      intro y hy
      cases owner with
      | none => simp at hy
      | some ow => simp at hy; subst hy; exact (spec_atoms_structural .at ow).2
    simp only [directiveTokens, List.mem_append, List.mem_cons, List.not_mem_nil, or_false, List.mem_map] at hx
    rcases hx with ((hx | hx) | rfl) | ⟨f, _, rfl⟩
    · exact howner x hx
    · split at hx
      · exact hmid' x hx
      · exact hmid x hx
    · exact plainAtoms_structural _
    · exact fieldAtoms_structural lv f

/-! ## the simulation relation -/

def frRR (fr : FlatRecord) : RR :=
  { name := fr.owner, rtype := fr.rtype, fields := fr.fields, rclass := 1, ttl := fr.ttl }

/-- the local state of `Zone::deserialise` corresponds to the state of `denote`. -/
structure StRel (dst : DenoteState) (st : DState) : Prop where
  origin : st.origin = dst.origin
  originOk : ∀ on, dst.origin = some on → TextName on
  prevOwner : st.previousDomain = dst.prevOwner.map mwOf
  prevTtl : st.previousTtl = dst.prevTtl
  soa : st.apexAndSoa = dst.soa
  rrs : st.rrs.reverse = dst.records.map frRR
  wrrs : st.wildcardRrs.reverse = dst.wildcards.map frRR

theorem stRel_init : StRel {} {} :=
  ⟨rfl, (fun _ h => by cases h), rfl, rfl, rfl, rfl, rfl⟩

theorem soaOf_fields {fields : List FieldVal} {soa : SOA} (h : ZTSpec.soaOf fields = some soa) :
    fields = soa.toFields := by
  unfold ZTSpec.soaOf at h
  split at h
  · cases h; rfl
  · cases h

theorem toRr_soa (w : MaybeWildcard) (soa : SOA) (t : Nat) :
    toRr w ⟨6, soa.toFields⟩ t =
      (match w with
       | .normal name => .rr { name, rtype := 6, fields := soa.toFields, rclass := 1, ttl := soa.minimum }
       | .wildcard name => .wildcardRR { name, rtype := 6, fields := soa.toFields, rclass := 1, ttl := soa.minimum }) := by
  cases w <;> rfl

theorem toRr_plain (w : MaybeWildcard) (rtype : Nat) (fields : List FieldVal) (t : Nat) (h : rtype ≠ 6) :
    toRr w ⟨rtype, fields⟩ t =
      (match w with
       | .normal name => .rr { name, rtype, fields, rclass := 1, ttl := t }
       | .wildcard name => .wildcardRR { name, rtype, fields, rclass := 1, ttl := t }) := by
  cases w <;>
    (unfold toRr
     simp only
     split
     · exact absurd rfl h
     · rfl)

theorem withInheritedTtl_soa' (w : MaybeWildcard) (soa : SOA) (pt : Option Nat) :
    withInheritedTtl w ⟨6, soa.toFields⟩ pt = .ok (toRr w ⟨6, soa.toFields⟩ 0) := by
  unfold withInheritedTtl
  cases pt with
  | none => simp [RData.isSOA, RT_SOA]
  | some t => simp only; rw [toRr_soa, toRr_soa]

/-- the first token of a record line is not a directive keyword. -/
theorem recordTokens_head (lv : LineVar) (r : Rec) (hcls : r.cls = none ∨ r.cls = some clsIN)
    (hknown : KnownCode r.rtype)
    (hown : ∀ ow, r.owner = some ow → ownerChars ow ≠ sORIGIN ∧ ownerChars ow ≠ sINCLUDE) :
    ∃ t0 ts, recordTokens lv r = t0 :: ts ∧ t0.1 ≠ sORIGIN ∧ t0.1 ≠ sINCLUDE := by
  have hdec : ∀ t, (ttlT t).1 ≠ sORIGIN ∧ (ttlT t).1 ≠ sINCLUDE := by
    intro t
    rw [ttlT_fst]
    constructor <;> intro h <;>
      (have := (showDec_digits t).2 '$' (by rw [h]; decide); revert this; decide)
  have htype : (typeT lv r.rtype).1 ≠ sORIGIN ∧ (typeT lv r.rtype).1 ≠ sINCLUDE := by
    obtain ⟨s, htok, hty, -⟩ := typeToken_spec lv.typeNumeric r.rtype hknown
    unfold typeT
    rw [htok]
    simp only
    have n1 : rtypeFromStr sORIGIN = none := by decide
    have n2 : rtypeFromStr sINCLUDE = none := by decide
    constructor <;> intro h <;> rw [h] at hty
    · rw [n1] at hty; cases hty
    · rw [n2] at hty; cases hty
  have hin : tIN.1 ≠ sORIGIN ∧ tIN.1 ≠ sINCLUDE := by decide
  unfold recordTokens
  cases ho : r.owner with
  | some ow => exact ⟨ownerT ow, _, rfl, by rw [ownerT_fst]; exact (hown ow ho).1, by rw [ownerT_fst]; exact (hown ow ho).2⟩
  | none =>
    cases ht : r.ttl with
    | some t =>
      rcases hcls with hc | hc <;> rw [hc] <;> cases lv.classFirst
      all_goals first
        | exact ⟨ttlT t, _, rfl, (hdec t).1, (hdec t).2⟩
        | exact ⟨tIN, _, rfl, hin.1, hin.2⟩
    | none =>
      rcases hcls with hc | hc <;> rw [hc] <;> cases lv.classFirst
      all_goals first
        | exact ⟨typeT lv r.rtype, _, rfl, htype.1, htype.2⟩
        | exact ⟨tIN, _, rfl, hin.1, hin.2⟩

/-! ## one record line in the entry loop -/

theorem directiveOk_record {r : Rec} (h : directiveOk false (.record r) = true) :
    (∀ ow, r.owner = some ow → ownerRefOk false ow = true) ∧ (∀ t, r.ttl = some t → t < 4294967296) ∧
    rdataFits r.rtype r.rdata = true ∧
    (∀ f ∈ r.rdata, fieldOk false {} f = true ∧ fieldOk false { aaaaFull := true } f = true) := by
  simp only [directiveOk, Bool.and_eq_true, List.all_eq_true] at h
  obtain ⟨⟨⟨⟨h1, h2⟩, -⟩, h4⟩, h5⟩ := h
  refine ⟨?_, ?_, h4, h5⟩
  · intro ow ho; rw [ho] at h1; exact h1
  · intro t ht; rw [ht] at h2; simpa using h2

theorem ownerRefOk_chars {ow : OwnerRef} (h : ownerRefOk false ow = true) :
    allDigits (ownerChars ow) = false ∧ ownerChars ow ≠ sIN ∧ ownerChars ow ≠ sORIGIN ∧ ownerChars ow ≠ sINCLUDE := by
  have hstar : ∀ (cs : List Char), allDigits ('*' :: cs) = false ∧ ('*' :: cs) ≠ sIN ∧ ('*' :: cs) ≠ sORIGIN
      ∧ ('*' :: cs) ≠ sINCLUDE := by
    intro cs
    refine ⟨by simp [allDigits, isAsciiDigit], ?_, ?_, ?_⟩ <;> (intro he; simp [sIN, sORIGIN, sINCLUDE] at he)
  cases ow with
  | star => exact hstar []
  | wild n =>
    have : ownerChars (.wild n) = '*' :: ('.' :: nameChars n) := by
      simp [ownerChars, ownerAtoms, nameChars, atomOctets, dot]
      exact ⟨rfl, rfl⟩
    rw [this]; exact hstar _
  | name n =>
    simp only [ownerRefOk, Bool.and_eq_true, Bool.not_eq_true', bne_iff_ne, ne_eq] at h
    obtain ⟨⟨⟨⟨⟨⟨-, -⟩, hIN⟩, hdig⟩, -⟩, hO⟩, hI⟩ := h
    have hch : ownerChars (.name n) = (nameText n).map octetAsChar := rfl
    rw [hch]
    have key : ∀ (s : List Char), (nameText n).map octetAsChar = s → nameText n = asciiOctets s := by
      intro s hs
      have := congrArg (List.map charAsU8) hs
      rw [map_charAsU8_octetAsChar] at this
      exact this
    refine ⟨?_, fun he => hIN (key _ he), fun he => hO (key _ he), fun he => hI (key _ he)⟩
    simp only [allDigitOctets, List.all_eq_false] at hdig
    obtain ⟨b, hb, hnb⟩ := hdig
    simp only [allDigits, List.all_eq_false, List.mem_map]
    refine ⟨octetAsChar b, ⟨b, hb, rfl⟩, ?_⟩
    simp only [isDigitOctet, Bool.and_eq_true, decide_eq_true_eq] at hnb
    simp only [isAsciiDigit, octetAsChar_toNat, Bool.and_eq_true, decide_eq_true_eq]
    exact hnb

theorem directiveTokens_record_ne_nil (lv : LineVar) (r : Rec) :
    ∃ t ts, directiveTokens lv (.record r) = t :: ts := by
  have : directiveTokens lv (.record r) ≠ [] := by
    simp [directiveTokens]
  cases h : directiveTokens lv (.record r) with
  | nil => exact absurd h this
  | cons t ts => exact ⟨t, ts, rfl⟩

/-- tokenisation of a rendered record line. -/
theorem tokenise_record_line (lv : LineVar) (eol : List Char) (heol : IsEol eol) (hc : CommentOk lv)
    (r : Rec) (hcls : r.cls = none ∨ r.cls = some clsIN) (tailE rest : List Char)
    (hle : LineEnd eol tailE rest) :
    tokeniseEntry (renderLine lv eol (.record r) ++ tailE ++ rest) = .ok (recordTokens lv r, rest) := by
  rw [renderLine_eq lv eol (.record r) (fun c h => by cases h)]
  obtain ⟨t, ts, hts⟩ := directiveTokens_record_ne_nil lv r
  rw [hts, tokenise_lineBody_le lv eol heol hc _ t ts
    (by rw [← hts]; exact directiveTokens_structural lv (.record r)) tailE rest hle, ← hts,
    recordTokens_eq lv r hcls]

theorem expectRr_some (pd : Option MaybeWildcard) (pt : Option Nat) (mw : MaybeWildcard) (ttl : Option Nat)
    (rdat : RData) :
    expectRr pd pt (some mw) ttl rdat =
      (match ttl with | some t => .ok (toRr mw rdat t) | none => withInheritedTtl mw rdat pt) := rfl

theorem expectRr_none (pt : Option Nat) (mw : MaybeWildcard) (ttl : Option Nat) (rdat : RData) :
    expectRr (some mw) pt none ttl rdat =
      (match ttl with | some t => .ok (toRr mw rdat t) | none => withInheritedTtl mw rdat pt) := rfl

/-- **a record line, in the entry loop**: if the specification accepts the record in the state that
    corresponds to the parser's, the loop consumes the rendered line and arrives in the
    corresponding next state. -/
theorem record_step (dst : DenoteState) (st : DState) (hrel : StRel dst st) (r : Rec)
    (hok : directiveOk false (.record r) = true) (dst' : DenoteState) (hden : denoteRecord dst r = .ok dst')
    (lv : LineVar) (eol : List Char) (heol : IsEol eol) (hc : CommentOk lv) (tailE rest : List Char)
    (hle : LineEnd eol tailE rest) :
    ∃ st', loopStep st (renderLine lv eol (.record r) ++ tailE ++ rest) = some (.cont st' rest) ∧ StRel dst' st' := by
  obtain ⟨hownOk, httl, hfits, hfields⟩ := directiveOk_record hok
  -- class
  have hcls : r.cls = none ∨ r.cls = some clsIN := by
    unfold denoteRecord at hden
    cases hcl : r.cls with
    | none => exact Or.inl rfl
    | some c =>
      rw [hcl] at hden
      simp only at hden
      split at hden
      · cases hden
      · rename_i hne; simp only [ne_eq, Decidable.not_not] at hne; rw [hne]; exact Or.inr rfl
  have hden' : denoteRecord.denoteRecordIN dst r = .ok dst' := by
    unfold denoteRecord at hden
    rcases hcls with h | h <;> rw [h] at hden
    · exact hden
    · simpa [clsIN] using hden
  unfold denoteRecord.denoteRecordIN at hden'
  simp only at hden'
  -- owner
  have hoOk : ∀ on, st.origin = some on → TextName on := fun on h => hrel.originOk on (by rw [← hrel.origin]; exact h)
  split at hden'
  · cases hden'
  · rename_i wild name howner
    simp only [hfits, Bool.not_true, Bool.false_eq_true, if_false] at hden'
    split at hden'
    · cases hden'
    · rename_i fields hres
      have hspec := specRdata_of_fits r.rtype r.rdata hfits
      have hnames : RdataNamesOk r.rdata := by
        intro f hf
        cases f with
        | name n => have := (hfields _ hf).1; simp only [fieldOk, Bool.and_eq_true] at this; exact this.1
        | _ => trivial
      have hty := tryParse_spec st.origin hoOk lv r.rtype r.rdata hspec hnames fields (by rw [hrel.origin]; exact hres)
      have hnt := noType_rdata lv r.rdata hfields
      -- what the parser reads
      obtain ⟨w, hw1, hw2⟩ : ∃ w : Option MaybeWildcard,
          (∀ ow, r.owner = some ow → w = some (mwOf (wild, name))) ∧ (r.owner = none → w = none) := by
        cases r.owner with
        | some ow => exact ⟨some _, (fun _ _ => rfl), (fun h => by cases h)⟩
        | none => exact ⟨none, (fun _ h => by cases h), (fun _ => rfl)⟩
      have hparse : parseRr st.origin st.previousDomain st.previousTtl (recordTokens lv r)
          = expectRr st.previousDomain st.previousTtl w r.ttl ⟨r.rtype, fields⟩ := by
        apply parseRr_record st.origin _ _ lv r hcls ⟨r.rtype, fields⟩ hty hnt httl w
        · intro ow ho
          rw [ho] at howner
          simp only at howner
          have hp := parseOwner_spec dst.origin hrel.originOk ow (hownOk ow ho)
          rw [howner] at hp
          obtain ⟨hd1, hd2, -, -⟩ := ownerRefOk_chars (hownOk ow ho)
          exact ⟨mwOf (wild, name), hw1 ow ho, by rw [hrel.origin]; exact hp, hd1, hd2⟩
        · exact hw2
      -- the previous owner, when the owner is omitted
      have hprev : r.owner = none → st.previousDomain = some (mwOf (wild, name)) := by
        intro ho
        rw [ho] at howner
        simp only at howner
        rw [hrel.prevOwner]
        cases hpo : dst.prevOwner with
        | none => rw [hpo] at howner; cases howner
        | some p => rw [hpo] at howner; cases howner; rfl
      have hexp : expectRr st.previousDomain st.previousTtl w r.ttl ⟨r.rtype, fields⟩ =
          (match r.ttl with
           | some t => .ok (toRr (mwOf (wild, name)) ⟨r.rtype, fields⟩ t)
           | none => withInheritedTtl (mwOf (wild, name)) ⟨r.rtype, fields⟩ st.previousTtl) := by
        cases ho : r.owner with
        | some ow => rw [hw1 ow ho, expectRr_some]
        | none => rw [hw2 ho, hprev ho, expectRr_none]
      -- tokens and the first of them
      obtain ⟨t0, ts, htoks, hnO, hnI⟩ := recordTokens_head lv r hcls hspec.known
        (fun ow ho => ⟨(ownerRefOk_chars (hownOk ow ho)).2.2.1, (ownerRefOk_chars (hownOk ow ho)).2.2.2⟩)
      have hentry : ∀ e, parseRr st.origin st.previousDomain st.previousTtl (recordTokens lv r) = .ok e →
          loopStep st (renderLine lv eol (.record r) ++ tailE ++ rest) = some (entryStep st e rest) := by
        intro e he
        unfold loopStep
        simp only [parseEntry, tokenise_record_line lv eol heol hc r hcls tailE rest hle]
        rw [htoks] at he ⊢
        simp only [hnO, hnI, if_false, he]
      split at hden'
      · -- SOA
        rename_i h6
        split at hden'
        · cases hden'
        · rename_i soa hso
          split at hden'
          · cases hden'
          · rename_i hwild
            have hwf : wild = false := by simpa using hwild
            subst hwf
            split at hden'
            · cases hden'
            · rename_i hsoa
              have hds : dst.soa = none := by
                cases h : dst.soa with
                | none => rfl
                | some _ => rw [h] at hsoa; simp at hsoa
              simp only [Except.ok.injEq] at hden'
              have hf := soaOf_fields hso
              have hres' : parseRr st.origin st.previousDomain st.previousTtl (recordTokens lv r)
                  = .ok (.rr { name, rtype := 6, fields := soa.toFields, rclass := 1, ttl := soa.minimum }) := by
                rw [hparse, hexp, h6, hf]
                cases r.ttl with
                | some t => simp only; rw [toRr_soa]; rfl
                | none => simp only; rw [withInheritedTtl_soa', toRr_soa]; rfl
              rw [hentry _ hres']
              have : st.apexAndSoa.isSome = false := by rw [hrel.soa, hds]; rfl
              simp only [entryStep, soaOfRR_toFields, this, Bool.false_eq_true, if_false]
              subst hden'
              exact ⟨_, rfl, hrel.origin, hrel.originOk, rfl, rfl, rfl, hrel.rrs, hrel.wrrs⟩
      · -- any other type
        rename_i h6
        split at hden'
        · cases hden'
        · rename_i ttl httlv
          simp only [Except.ok.injEq] at hden'
          have hres' : parseRr st.origin st.previousDomain st.previousTtl (recordTokens lv r)
              = .ok (toRr (mwOf (wild, name)) ⟨r.rtype, fields⟩ ttl) := by
            rw [hparse, hexp]
            cases hrt : r.ttl with
            | some t => rw [hrt] at httlv; cases httlv; rfl
            | none =>
              rw [hrt] at httlv
              simp only at httlv ⊢
              rw [hrel.prevTtl]
              cases hpt : dst.prevTtl with
              | none => rw [hpt] at httlv; cases httlv
              | some t => rw [hpt] at httlv; cases httlv; rfl
          rw [hentry _ hres', toRr_plain _ _ _ _ h6]
          cases wild with
          | false =>
            have : soaOfRR { name, rtype := r.rtype, fields, rclass := 1, ttl } = none :=
              soaOfRR_none_of_ne (by simpa using h6)
            simp only [mwOf, Bool.false_eq_true, if_false, entryStep, this]
            simp only [Bool.false_eq_true, if_false] at hden'
            subst hden'
            refine ⟨_, rfl, hrel.origin, hrel.originOk, rfl, rfl, hrel.soa, ?_, hrel.wrrs⟩
            simp [hrel.rrs, frRR]
          | true =>
            have : (r.rtype == RT_SOA) = false := by simpa [RT_SOA] using h6
            simp only [mwOf, if_true, entryStep, this, Bool.false_eq_true, if_false]
            simp only [if_true] at hden'
            subst hden'
            refine ⟨_, rfl, hrel.origin, hrel.originOk, rfl, rfl, hrel.soa, hrel.rrs, ?_⟩
            simp [hrel.wrrs, frRR]

end Resolved.ZoneText
