/-
  C15: the two loops of `prune` keep the invariant and terminate within their fuel.
-/
import Resolved.Proofs.CacheOps

namespace Resolved

open PCache

/-! ## The loops, one unfolding step -/

theorem removeExpiredLoop_succ (fuel : Nat) (c : PCache) (now acc : Nat) :
    removeExpiredLoop (fuel + 1) c now acc =
      if (c.removeExpiredStep now).2 = 0 then some ((c.removeExpiredStep now).1, acc)
      else removeExpiredLoop fuel (c.removeExpiredStep now).1 now (acc + (c.removeExpiredStep now).2) := rfl

theorem pruneLoop_succ (fuel : Nat) (c : PCache) (acc : Nat) :
    pruneLoop (fuel + 1) c acc =
      if c.currentSize > c.desiredSize then pruneLoop fuel c.removeLRU.1 (acc + c.removeLRU.2)
      else some (c, acc) := rfl

/-! ## Counters under the invariant -/

theorem Inv.totalTuples_eq {c : PCache} (h : Inv c) : totalTuples c = c.currentSize := by
  rw [h.size_eq]
  unfold totalTuples sizeSum
  congr 1
  apply List.map_congr_left
  intro kp hkp
  exact (h.parts kp hkp).size_eq.symm

/-- each `remove_expired_step` takes exactly the number it reports off the counter -/
theorem Inv.removeExpiredStep_size {c : PCache} (h : Inv c) (now : Nat) :
    (c.removeExpiredStep now).1.currentSize + (c.removeExpiredStep now).2 = c.currentSize := by
  cases hm : PQ.minEntry c.expiryPriority with
  | none => rw [removeExpiredStep_empty now (PQ.minEntry_eq_none.mp hm)]; rfl
  | some ke =>
    obtain ⟨k, e⟩ := ke
    obtain ⟨p, hp, hpe⟩ := h.minEntry_eq hm
    have hpi := h.pinv_of_get hp
    by_cases he : e > now
    · rw [removeExpiredStep_live hm he]; rfl
    · have he' : e ≤ now := by omega
      have hcnt := expiredIn_add_live p.records now
      have hsz := hpi.size_eq
      have hle := h.size_le hp
      cases hn : (retainLive p.records now).2.2 with
      | some n => rw [removeExpiredStep_some hm he' hp hn]; simp only; omega
      | none => rw [removeExpiredStep_none hm he' hp hn]; simp only; omega

theorem Inv.removeLRU_size {c : PCache} (h : Inv c) :
    c.removeLRU.1.currentSize + c.removeLRU.2 = c.currentSize := by
  cases hm : PQ.minEntry c.accessPriority with
  | none => rw [removeLRU_empty (PQ.minEntry_eq_none.mp hm)]; rfl
  | some kx =>
    obtain ⟨k, x⟩ := kx
    obtain ⟨p, hp, _⟩ := h.minEntry_aq hm
    rw [removeLRU_some hm hp]
    have := h.size_le hp
    simp only; omega

/-! ## `remove_expired` -/

theorem Inv.removeExpiredLoop {fuel : Nat} {c c' : PCache} {now acc n : Nat} (h : Inv c)
    (hl : PCache.removeExpiredLoop fuel c now acc = some (c', n)) : Inv c' := by
  induction fuel generalizing c acc with
  | zero => simp [PCache.removeExpiredLoop] at hl
  | succ fuel ih =>
    rw [removeExpiredLoop_succ] at hl
    split at hl
    · cases hl; exact h.removeExpiredStep now
    · exact ih (h.removeExpiredStep now) hl

theorem Inv.removeExpiredLoop_terminates {fuel : Nat} {c : PCache} (h : Inv c) (now acc : Nat)
    (hf : c.currentSize + 1 ≤ fuel) : ∃ r, PCache.removeExpiredLoop fuel c now acc = some r := by
  induction fuel generalizing c acc with
  | zero => omega
  | succ fuel ih =>
    rw [removeExpiredLoop_succ]
    split
    · exact ⟨_, rfl⟩
    · have := h.removeExpiredStep_size now
      exact ih (h.removeExpiredStep now) _ (by omega)

theorem Inv.removeExpired_terminates {c : PCache} (h : Inv c) (now : Nat) :
    ∃ r, c.removeExpired now = some r := by
  unfold PCache.removeExpired
  exact h.removeExpiredLoop_terminates now 0 (by rw [h.totalTuples_eq]; omega)

theorem Inv.removeExpired {c c' : PCache} {now n : Nat} (h : Inv c)
    (hl : c.removeExpired now = some (c', n)) : Inv c' :=
  h.removeExpiredLoop hl

/-! ## the eviction loop -/

theorem Inv.pruneLoop {fuel : Nat} {c c' : PCache} {acc n : Nat} (h : Inv c)
    (hl : PCache.pruneLoop fuel c acc = some (c', n)) : Inv c' := by
  induction fuel generalizing c acc with
  | zero =>
    simp only [PCache.pruneLoop] at hl
    split at hl
    · cases hl
    · cases hl; exact h
  | succ fuel ih =>
    rw [pruneLoop_succ] at hl
    split at hl
    · exact ih h.removeLRU hl
    · cases hl; exact h

theorem Inv.partitions_nil_size {c : PCache} (h : Inv c) (hp : c.partitions = []) : c.currentSize = 0 := by
  rw [h.size_eq, hp]; rfl

theorem Inv.aq_length {c : PCache} (h : Inv c) : c.accessPriority.length = c.partitions.length := by
  -- both key lists are duplicate-free and have the same members
  have hmem : ∀ k, k ∈ AL.keys c.accessPriority ↔ k ∈ AL.keys c.partitions := by
    intro k
    have := h.aq_get k
    constructor
    · intro hk
      cases hg : AL.get c.partitions k with
      | none =>
        rw [hg] at this
        exact absurd hk (AL.get_eq_none_iff.mp this)
      | some p => exact AL.mem_keys_of_get hg
    · intro hk
      cases hg : AL.get c.accessPriority k with
      | none =>
        rw [hg] at this
        have : AL.get c.partitions k = none := by
          cases hg' : AL.get c.partitions k with
          | none => rfl
          | some p => rw [hg'] at this; cases this
        exact absurd hk (AL.get_eq_none_iff.mp this)
      | some x => exact AL.mem_keys_of_get hg
  have := ((List.perm_ext_iff_of_nodup h.aqNodup h.keysNodup).mpr hmem).length_eq
  simpa [AL.keys] using this

theorem removeLRU_partitions_length {c : PCache} (h : Inv c) (hne : c.partitions ≠ []) :
    c.removeLRU.1.partitions.length + 1 = c.partitions.length := by
  cases hm : PQ.minEntry c.accessPriority with
  | none =>
    have := PQ.minEntry_eq_none.mp hm
    have hl := h.aq_length
    rw [this] at hl
    exact absurd (List.length_eq_zero_iff.mp hl.symm) hne
  | some kx =>
    obtain ⟨k, x⟩ := kx
    obtain ⟨p, hp, _⟩ := h.minEntry_aq hm
    rw [removeLRU_some hm hp]
    obtain ⟨a, b, hab, hka, hkb⟩ := AL.get_split_nodup h.keysNodup hp
    simp only
    rw [hab, AL.erase_split hka hkb]
    simp; omega

theorem Inv.pruneLoop_terminates {fuel : Nat} {c : PCache} (h : Inv c) (acc : Nat)
    (hf : c.partitions.length ≤ fuel) : ∃ r, PCache.pruneLoop fuel c acc = some r := by
  induction fuel generalizing c acc with
  | zero =>
    have hp : c.partitions = [] := List.length_eq_zero_iff.mp (by omega)
    have := h.partitions_nil_size hp
    simp only [PCache.pruneLoop]
    split
    · omega
    · exact ⟨_, rfl⟩
  | succ fuel ih =>
    rw [pruneLoop_succ]
    split
    · rename_i hover
      have hne : c.partitions ≠ [] := by
        intro hp; have := h.partitions_nil_size hp; omega
      have := removeLRU_partitions_length h hne
      exact ih h.removeLRU _ (by omega)
    · exact ⟨_, rfl⟩

/-! ## `prune` -/

theorem prune_eq_some {c c' : PCache} {now : Nat} {r : Bool × Nat × Nat × Nat}
    (h : c.prune now = some (c', r)) :
    ∃ c1 e p, c.removeExpired now = some (c1, e) ∧
      pruneLoop (c1.accessPriority.length + c1.partitions.length + 1) c1 0 = some (c', p) ∧
      r = (decide (c.currentSize > c.desiredSize), c'.currentSize, e, p) := by
  unfold PCache.prune at h
  simp only at h
  split at h
  · cases h
  · rename_i c1 e he
    split at h
    · cases h
    · rename_i c2 p hp
      cases h
      exact ⟨c1, e, p, he, hp, rfl⟩

theorem Inv.prune {c c' : PCache} {now : Nat} {r : Bool × Nat × Nat × Nat} (h : Inv c)
    (hp : c.prune now = some (c', r)) : Inv c' := by
  obtain ⟨c1, e, p, h1, h2, _⟩ := prune_eq_some hp
  exact (h.removeExpired h1).pruneLoop h2

theorem Inv.prune_terminates {c : PCache} (h : Inv c) (now : Nat) : ∃ r, c.prune now = some r := by
  obtain ⟨⟨c1, e⟩, h1⟩ := h.removeExpired_terminates now
  have hi := h.removeExpired h1
  obtain ⟨⟨c2, p⟩, h2⟩ :=
    hi.pruneLoop_terminates (fuel := c1.accessPriority.length + c1.partitions.length + 1) 0 (by omega)
  refine ⟨(c2, (decide (c.currentSize > c.desiredSize), c2.currentSize, e, p)), ?_⟩
  unfold PCache.prune
  simp only [h1, h2]

end Resolved
