/-
  Concrete fixtures for the non-vacuity examples of C01 / C10 (local resolver): a tiny
  authoritative zone `e.`, a hosts-like non-authoritative root zone, three caches.
-/
import Resolved.Proofs.ResolverLocalTyped
import Resolved.Proofs.ResolverLocalChain

namespace Resolved

open Gen

/-! ## a checkable sufficient condition for `ZNode.Typed` -/

theorem recMapTyped_of_all {m : RecMap} (h : ∀ kv ∈ m, ∀ zr ∈ kv.2, zr.rtype = kv.1) : RecMapTyped m := by
  intro k zrs hg zr hzr
  exact h (k, zrs) (RecMap.get_mem hg) zr hzr

theorem ZNode.childGet_mem {cs : List (Label × ZNode)} {l : Label} {c : ZNode}
    (h : ZNode.childGet cs l = some c) : (l, c) ∈ cs := by
  induction cs with
  | nil => simp [ZNode.childGet] at h
  | cons kv rest ih =>
    obtain ⟨k, v⟩ := kv
    simp only [ZNode.childGet] at h
    split at h
    · rename_i hk; cases h; subst hk; simp
    · exact List.mem_cons_of_mem _ (ih h)

theorem ZNode.typed_mk (nsd : Name) (t : RecMap) (w : Option RecMap) (ch : List (Label × ZNode))
    (ht : RecMapTyped t) (hw : ∀ ws, w = some ws → RecMapTyped ws) (hc : ∀ kv ∈ ch, kv.2.Typed) :
    (ZNode.mk nsd t w ch).Typed := by
  intro p n hp
  cases p with
  | nil => simp at hp; subst hp; exact ⟨ht, hw⟩
  | cons l rest =>
    simp only [ZNode.descend_cons, ZNode.children_mk] at hp
    cases hcg : ZNode.childGet ch l with
    | none => simp [hcg] at hp
    | some c =>
      simp only [hcg, Option.bind_some] at hp
      exact hc (l, c) (ZNode.childGet_mem hcg) rest n hp

namespace Ex

def nRoot : Name := ⟨[[]], 1⟩
def nE : Name := ⟨[[101], []], 3⟩                    -- e.
def nWE : Name := ⟨[[119], [101], []], 5⟩            -- w.e.
def nCE : Name := ⟨[[99], [101], []], 5⟩             -- c.e.
def nDE : Name := ⟨[[100], [101], []], 5⟩            -- d.e.
def nXE : Name := ⟨[[120], [101], []], 5⟩            -- x.e.   (absent)
def nSE : Name := ⟨[[115], [101], []], 5⟩            -- s.e.   (delegated)
def nXSE : Name := ⟨[[120], [115], [101], []], 7⟩    -- x.s.e.
def nPE : Name := ⟨[[112], [101], []], 5⟩            -- p.e.   (alias loop p.e. → q.e. → p.e.)
def nQE : Name := ⟨[[113], [101], []], 5⟩            -- q.e.
def nO : Name := ⟨[[111], []], 3⟩                    -- o.     (outside `e.`)
def nNO : Name := ⟨[[110], [111], []], 5⟩            -- n.o.
def nH : Name := ⟨[[104], []], 3⟩                    -- h.     (hosts entry)
def nA : Name := ⟨[[97], []], 3⟩                     -- a.     (alias in the SOA-less zone)
def nK : Name := ⟨[[107], []], 3⟩                    -- k.     (alias known to the cache only)

def soaE : SOA := ⟨nE, nE, 1, 2, 3, 4, 5⟩
def soaRRE : RR := ⟨nE, 6, soaE.toFields, 1, 5⟩

/-- authoritative zone `e.`: `w.e. A 1`, `c.e. CNAME w.e.`, `d.e. CNAME o.`, `s.e. NS n.o.`,
    and the alias loop `p.e. CNAME q.e.`, `q.e. CNAME p.e.` -/
def zoneE : Zone :=
  { apex := nE, soa := some soaE,
    records := ZNode.mk nE [(6, [⟨6, soaE.toFields, 5⟩])] none
      [([119], ZNode.mk nWE [(1, [⟨1, [.a 1], 300⟩])] none []),
       ([99], ZNode.mk nCE [(5, [⟨5, [.name nWE], 300⟩])] none []),
       ([100], ZNode.mk nDE [(5, [⟨5, [.name nO], 300⟩])] none []),
       ([115], ZNode.mk nSE [(2, [⟨2, [.name nNO], 300⟩])] none []),
       ([112], ZNode.mk nPE [(5, [⟨5, [.name nQE], 300⟩])] none []),
       ([113], ZNode.mk nQE [(5, [⟨5, [.name nPE], 300⟩])] none [])] }

/-- hosts-like zone: apex `.`, no SOA: `h. A 9`, `a. CNAME w.e.` -/
def zoneH : Zone :=
  { apex := nRoot, soa := none,
    records := ZNode.mk nRoot [] none
      [([104], ZNode.mk nH [(1, [⟨1, [.a 9], 5⟩])] none []),
       ([97], ZNode.mk nA [(5, [⟨5, [.name nWE], 5⟩])] none [])] }

def zones : Zones := (Zones.empty.insert zoneE).insert zoneH

def rrW : RR := ⟨nWE, 1, [.a 1], 1, 300⟩
def rrC : RR := ⟨nCE, 5, [.name nWE], 1, 300⟩
def rrD : RR := ⟨nDE, 5, [.name nO], 1, 300⟩
def rrS : RR := ⟨nSE, 2, [.name nNO], 1, 300⟩
def rrP : RR := ⟨nPE, 5, [.name nQE], 1, 300⟩
def rrQ : RR := ⟨nQE, 5, [.name nPE], 1, 300⟩
def rrH : RR := ⟨nH, 1, [.a 9], 1, 5⟩
def rrA : RR := ⟨nA, 5, [.name nWE], 1, 5⟩
def rrO : RR := ⟨nO, 1, [.a 7], 1, 100⟩
def rrK : RR := ⟨nK, 5, [.name nO], 1, 100⟩

def cache0 : PCache := PCache.new 10
/-- cache holding `o. A 7`, `k. CNAME o.`, and (conflicting with local data) `h. A 8`, `w.e. A 66`. -/
def cache1 : PCache :=
  sharedInsertAll cache0 [rrO, rrK, ⟨nH, 1, [.a 8], 1, 100⟩, ⟨nWE, 1, [.a 66], 1, 100⟩] 0

def ctx0 : Ctx := { zones := zones, cache := cache0, now := 0, stack := [] }
def ctx1 : Ctx := { zones := zones, cache := cache1, now := 0, stack := [] }

def qA (n : Name) : Question := ⟨n, RT_A, 1⟩

theorem zones_keyed : ZonesKeyed zones := zonesKeyed_insert (zonesKeyed_insert zonesKeyed_empty _) _

theorem zoneE_typed : zoneE.records.Typed := by
  refine ZNode.typed_mk _ _ _ _ (recMapTyped_of_all (by decide)) (by simp) ?_
  intro kv hkv
  simp only [List.mem_cons, List.not_mem_nil, or_false] at hkv
  rcases hkv with rfl | rfl | rfl | rfl | rfl | rfl <;>
    exact ZNode.typed_mk _ _ _ _ (recMapTyped_of_all (by decide)) (by simp) (by simp)

theorem zoneH_typed : zoneH.records.Typed := by
  refine ZNode.typed_mk _ _ _ _ (recMapTyped_of_all (by decide)) (by simp) ?_
  intro kv hkv
  simp only [List.mem_cons, List.not_mem_nil, or_false] at hkv
  rcases hkv with rfl | rfl <;>
    exact ZNode.typed_mk _ _ _ _ (recMapTyped_of_all (by decide)) (by simp) (by simp)

theorem zones_typed : ZonesTyped zones := by
  apply zonesTyped_of_all
  intro k z hl
  simp only [zones, Zones.insert, Zones.lookup_setZone] at hl
  split at hl
  · cases hl; exact zoneH_typed
  · split at hl
    · cases hl; exact zoneE_typed
    · simp [Zones.empty, Zones.lookup] at hl

theorem zones_answers_typed : ZoneAnswersTyped zones := zoneAnswersTyped_of_typed zones_typed

theorem cache1_typed : CacheTyped cache1 := sharedInsertAll_typed _ _ (cacheTyped_new _)

/-! ## zone verdicts -/

theorem resolve_w : zones.resolve nWE RT_A = some (zoneE, some (.answer [rrW])) := by
  simp only [Zones.resolve, Zone.resolve, ZNode.resolve_eq_rev]; rfl
theorem resolve_c : zones.resolve nCE RT_A = some (zoneE, some (.cname nWE rrC)) := by
  simp only [Zones.resolve, Zone.resolve, ZNode.resolve_eq_rev]; rfl
theorem resolve_d : zones.resolve nDE RT_A = some (zoneE, some (.cname nO rrD)) := by
  simp only [Zones.resolve, Zone.resolve, ZNode.resolve_eq_rev]; rfl
theorem resolve_x : zones.resolve nXE RT_A = some (zoneE, some .nameError) := by
  simp only [Zones.resolve, Zone.resolve, ZNode.resolve_eq_rev]; rfl
theorem resolve_xs : zones.resolve nXSE RT_A = some (zoneE, some (.delegation [rrS])) := by
  simp only [Zones.resolve, Zone.resolve, ZNode.resolve_eq_rev]; rfl
theorem resolve_h : zones.resolve nH RT_A = some (zoneH, some (.answer [rrH])) := by
  simp only [Zones.resolve, Zone.resolve, ZNode.resolve_eq_rev]; rfl
theorem resolve_a : zones.resolve nA RT_A = some (zoneH, some (.cname nWE rrA)) := by
  simp only [Zones.resolve, Zone.resolve, ZNode.resolve_eq_rev]; rfl
theorem resolve_p : zones.resolve nPE RT_A = some (zoneE, some (.cname nQE rrP)) := by
  simp only [Zones.resolve, Zone.resolve, ZNode.resolve_eq_rev]; rfl
theorem resolve_q : zones.resolve nQE RT_A = some (zoneE, some (.cname nPE rrQ)) := by
  simp only [Zones.resolve, Zone.resolve, ZNode.resolve_eq_rev]; rfl
theorem get_w : zones.get nWE = some zoneE := rfl
theorem get_o : zones.get nO = some zoneH := rfl

theorem resolve_h_any : zones.resolve nH QTYPE_WILDCARD = some (zoneH, some (.answer [rrH])) := by
  simp only [Zones.resolve, Zone.resolve, ZNode.resolve_eq_rev]; rfl
theorem resolve_o : zones.resolve nO RT_A = some (zoneH, some .nameError) := by
  simp only [Zones.resolve, Zone.resolve, ZNode.resolve_eq_rev]; rfl
theorem resolve_k : zones.resolve nK RT_A = some (zoneH, some .nameError) := by
  simp only [Zones.resolve, Zone.resolve, ZNode.resolve_eq_rev]; rfl

/-! ## evaluation lemmas for the cache stage (zone says "name error" without authority) -/

/-- a question the zones leave to the cache, answered by the cache directly. -/
theorem local_cache_answer (n : Nat) (c : Ctx) (q : Question) (z : Zone) (rrs : List RR)
    (hl : c.stack.length ≠ RECURSION_LIMIT) (hd : q ∉ c.stack)
    (hz : c.zones.resolve q.name q.qtype = some (z, some .nameError)) (hs : z.soaRR = none)
    (hq : q.qtype ≠ QTYPE_WILDCARD)
    (hc : (c.cacheGet q.name q.qtype).2 = rrs) (hne : rrs ≠ []) :
    (resolveLocal (n + 1) c q).2 = .ok (.done (.nonAuthoritative rrs none)) := by
  rw [resolveLocal_succ, localStep_of_zone hl hd hz]
  simp only [zoneResultPart, hs, cacheStage, cachePart, hc]
  have : rrs.isEmpty = false := by cases rrs <;> simp_all
  simp only [this, Bool.false_and, Bool.false_eq_true, if_false, finishPart, prioritisingMerge_nil]
  have hq' : (q.qtype == QTYPE_WILDCARD) = false := by simp [hq]
  simp [hq']

/-- … with nothing in the cache either: a dead end. -/
theorem local_cache_dead_end (n : Nat) (c : Ctx) (q : Question) (z : Zone)
    (hl : c.stack.length ≠ RECURSION_LIMIT) (hd : q ∉ c.stack)
    (hz : c.zones.resolve q.name q.qtype = some (z, some .nameError)) (hs : z.soaRR = none)
    (hc : (c.cacheGet q.name q.qtype).2 = [])
    (hc1 : ((c.cacheGet q.name q.qtype).1.cacheGet q.name CNAME_QTYPE).2 = []) :
    (resolveLocal (n + 1) c q).2 = .error (.deadEnd q) := by
  rw [resolveLocal_succ, localStep_of_zone hl hd hz]
  simp only [zoneResultPart, hs, cacheStage, cachePart, hc, cacheCnamePart, hc1]
  split <;> simp [finishPart, prioritisingMerge_nil]

/-- … answered through an alias the cache knows, the target then resolving to `res`. -/
theorem local_cache_cname (n : Nat) (c : Ctx) (q : Question) (z : Zone) (cnameRR : RR) (rest : List RR)
    (cname : Name) (res : ResolvedRecord)
    (hl : c.stack.length ≠ RECURSION_LIMIT) (hd : q ∉ c.stack)
    (hz : c.zones.resolve q.name q.qtype = some (z, some .nameError)) (hs : z.soaRR = none)
    (hq : q.qtype ≠ QTYPE_WILDCARD) (h5 : q.qtype ≠ RT_CNAME)
    (hc0 : (c.cacheGet q.name q.qtype).2 = [])
    (hc1 : ((c.cacheGet q.name q.qtype).1.cacheGet q.name CNAME_QTYPE).2 = cnameRR :: rest)
    (ht : cnameTarget cnameRR = some cname)
    (hsub : (resolveLocal n (((c.cacheGet q.name q.qtype).1.cacheGet q.name CNAME_QTYPE).1.push q)
      { name := cname, qtype := q.qtype, qclass := q.qclass }).2 = .ok (.done res)) :
    (resolveLocal (n + 1) c q).2 = .ok (.done (.nonAuthoritative ([cnameRR] ++ res.rrs) none)) := by
  rw [resolveLocal_succ, localStep_of_zone hl hd hz]
  have h5' : (q.qtype != CNAME_QTYPE) = true := by simp [CNAME_QTYPE, h5]
  have hq' : (q.qtype == QTYPE_WILDCARD) = false := by simp [hq]
  simp only [zoneResultPart, hs, cacheStage, cachePart, hc0, List.isEmpty_nil, h5', Bool.and_self, if_true,
    cacheCnamePart, hc1, ht, cacheCnameFinish, hsub, finishPart, prioritisingMerge_nil]
  simp [hq']

/-! ## concrete runs -/

/-- `c.e. A`: alias and target both in the authoritative zone. -/
theorem run_c (c : Ctx) (hz : c.zones = zones) (hs : c.stack = []) :
    (resolveLocal 33 c (qA nCE)).2 = .ok (.done (.authoritative [rrC, rrW] soaRRE)) := by
  have h2 : resolveLocal 32 (c.push (qA nCE)) (qA nWE) =
      (c.push (qA nCE), .ok (.done (.authoritative [rrW] soaRRE))) := by
    rw [resolveLocal_succ]
    exact localStep_zone_answer_auth (by simp [Ctx.push, hs, RECURSION_LIMIT]) (by simp [Ctx.push, hs]; decide)
      (by simp only [Ctx.push, hz]; exact resolve_w) rfl
  rw [resolveLocal_succ, localStep_of_zone (by simp [hs, RECURSION_LIMIT]) (by simp [hs])
    (by rw [hz]; exact resolve_c)]
  simp only [zoneResultPart]
  show Except.ok (zoneCnameAnswer rrC (qA nWE) (resolveLocal 32 (c.push (qA nCE)) (qA nWE)).2) = _
  rw [h2]; rfl

/-- `d.e. A` with an empty cache: the alias of the authoritative zone points outside, nothing is
    known about the target: an unfinished walk, which converts into a NON-authoritative reply. -/
theorem run_d_cold : (resolveLocal 33 ctx0 (qA nDE)).2 = .ok (.cname [rrD] (qA nO)) := by
  have h2 : (resolveLocal 32 (ctx0.push (qA nDE)) (qA nO)).2 = .error (.deadEnd (qA nO)) :=
    local_cache_dead_end 31 _ _ zoneH (by decide) (by decide) resolve_o rfl rfl rfl
  rw [resolveLocal_succ, localStep_of_zone (by decide) (by decide) resolve_d]
  simp only [zoneResultPart]
  show Except.ok (zoneCnameAnswer rrD (qA nO) (resolveLocal 32 (ctx0.push (qA nDE)) (qA nO)).2) = _
  rw [h2]; rfl

/-- `d.e. A` with `o. A 7` cached: the reply is complete but NOT authoritative. -/
theorem run_d_warm : (resolveLocal 33 ctx1 (qA nDE)).2 = .ok (.done (.nonAuthoritative [rrD, rrO] none)) := by
  have h2 : (resolveLocal 32 (ctx1.push (qA nDE)) (qA nO)).2 = .ok (.done (.nonAuthoritative [rrO] none)) :=
    local_cache_answer 31 _ _ zoneH [rrO] (by decide) (by decide) resolve_o rfl (by decide)
      (by decide +kernel) (by simp)
  rw [resolveLocal_succ, localStep_of_zone (by decide) (by decide) resolve_d]
  simp only [zoneResultPart]
  show Except.ok (zoneCnameAnswer rrD (qA nO) (resolveLocal 32 (ctx1.push (qA nDE)) (qA nO)).2) = _
  rw [h2]; rfl

/-- `k. A`: both links come from the cache. -/
theorem run_k : (resolveLocal 33 ctx1 (qA nK)).2 = .ok (.done (.nonAuthoritative [rrK, rrO] none)) := by
  have := local_cache_cname 32 ctx1 (qA nK) zoneH rrK [] nO (.nonAuthoritative [rrO] none)
    (by decide) (by decide) resolve_k rfl (by decide) (by decide) (by decide +kernel) (by decide +kernel) rfl
    (local_cache_answer 31 _ _ zoneH [rrO] (by decide) (by decide) resolve_o rfl (by decide)
      (by decide +kernel) (by simp))
  exact this

/-- `a. A`: the alias comes from the SOA-less zone, its target from the authoritative zone `e.`:
    the reply is marked authoritative (with the SOA of `e.`). -/
theorem run_a : (resolveLocal 33 ctx1 (qA nA)).2 = .ok (.done (.authoritative [rrA, rrW] soaRRE)) := by
  have h2 : resolveLocal 32 (ctx1.push (qA nA)) (qA nWE) =
      (ctx1.push (qA nA), .ok (.done (.authoritative [rrW] soaRRE))) := by
    rw [resolveLocal_succ]
    exact localStep_zone_answer_auth (by decide) (by decide) resolve_w rfl
  rw [resolveLocal_succ, localStep_of_zone (by decide) (by decide) resolve_a]
  simp only [zoneResultPart]
  show Except.ok (zoneCnameAnswer rrA (qA nWE) (resolveLocal 32 (ctx1.push (qA nA)) (qA nWE)).2) = _
  rw [h2]; rfl

/-- `p.e. A`: the alias loop `p.e. → q.e. → p.e.` is cut by the duplicate-question guard after each
    alias was followed once; the partial chain is returned with the question to go on with. -/
theorem run_p : (resolveLocal 33 ctx1 (qA nPE)).2 = .ok (.cname [rrP, rrQ] (qA nPE)) := by
  have h3 : (resolveLocal 31 ((ctx1.push (qA nPE)).push (qA nQE)) (qA nPE)).2 =
      .error (.duplicateQuestion (qA nPE)) := by
    rw [resolveLocal_succ]
    simp [localStep, Ctx.atRecursionLimit, Ctx.isDuplicate, Ctx.push, ctx1, RECURSION_LIMIT]
  have h2 : (resolveLocal 32 (ctx1.push (qA nPE)) (qA nQE)).2 = .ok (.cname [rrQ] (qA nPE)) := by
    rw [resolveLocal_succ, localStep_of_zone (by decide) (by decide) resolve_q]
    simp only [zoneResultPart]
    show Except.ok (zoneCnameAnswer rrQ (qA nPE)
      (resolveLocal 31 ((ctx1.push (qA nPE)).push (qA nQE)) (qA nPE)).2) = _
    rw [h3]; rfl
  rw [resolveLocal_succ, localStep_of_zone (by decide) (by decide) resolve_p]
  simp only [zoneResultPart]
  show Except.ok (zoneCnameAnswer rrP (qA nQE) (resolveLocal 32 (ctx1.push (qA nPE)) (qA nQE)).2) = _
  rw [h2]; rfl

end Ex

end Resolved
