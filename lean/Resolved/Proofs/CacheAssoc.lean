/-
  Generic association-list theory used by the cache proofs (C05, C15).
  The model (`Resolved/Model/Cache.lean`) uses three first-match association lists
  (partitions, per-partition record lists, priority queues) with the same four operations;
  they are identified here with one generic copy (`AL.get/set/change/erase`) and all lemmas are
  proved once.
-/
import Resolved.Model.Cache

set_option linter.unusedSectionVars false

namespace Resolved

namespace AL

variable {κ : Type} [DecidableEq κ] {α : Type}

/-- first-match lookup -/
def get : List (κ × α) → κ → Option α
  | [], _ => none
  | (k', v) :: rest, k => if k' = k then some v else get rest k

/-- replace the first match, or append -/
def set : List (κ × α) → κ → α → List (κ × α)
  | [], k, v => [(k, v)]
  | (k', v') :: rest, k, v => if k' = k then (k, v) :: rest else (k', v') :: set rest k v

/-- replace the first match, or do nothing -/
def change : List (κ × α) → κ → α → List (κ × α)
  | [], _, _ => []
  | (k', v') :: rest, k, v => if k' = k then (k, v) :: rest else (k', v') :: change rest k v

/-- remove every match -/
def erase (l : List (κ × α)) (k : κ) : List (κ × α) := l.filter (fun kv => kv.1 != k)

/-- the keys, in order -/
def keys (l : List (κ × α)) : List κ := l.map (·.1)

@[simp] theorem keys_nil : keys ([] : List (κ × α)) = [] := rfl
@[simp] theorem keys_cons (x : κ × α) (l : List (κ × α)) : keys (x :: l) = x.1 :: keys l := rfl
@[simp] theorem keys_append (a b : List (κ × α)) : keys (a ++ b) = keys a ++ keys b := by
  simp [keys]

@[simp] theorem get_nil (k : κ) : get ([] : List (κ × α)) k = none := rfl
theorem get_cons (x : κ × α) (l : List (κ × α)) (k : κ) :
    get (x :: l) k = if x.1 = k then some x.2 else get l k := by
  cases x; rfl

theorem get_eq_none_iff {l : List (κ × α)} {k : κ} : get l k = none ↔ k ∉ keys l := by
  induction l with
  | nil => simp
  | cons x l ih =>
    rw [get_cons]
    by_cases h : x.1 = k
    · simp [h]
    · have h2 : ¬ k = x.1 := fun e => h e.symm
      simp [h, h2, ih]

theorem mem_of_get {l : List (κ × α)} {k : κ} {v : α} (h : get l k = some v) : (k, v) ∈ l := by
  induction l with
  | nil => simp at h
  | cons x l ih =>
    rw [get_cons] at h
    by_cases hx : x.1 = k
    · simp [hx] at h; subst h; subst hx; simp
    · simp [hx] at h; exact List.mem_cons_of_mem _ (ih h)

theorem mem_keys_of_get {l : List (κ × α)} {k : κ} {v : α} (h : get l k = some v) : k ∈ keys l := by
  have := mem_of_get h
  exact List.mem_map.mpr ⟨_, this, rfl⟩

theorem mem_keys_of_mem {l : List (κ × α)} {k : κ} {v : α} (h : (k, v) ∈ l) : k ∈ keys l :=
  List.mem_map.mpr ⟨_, h, rfl⟩

theorem get_of_mem {l : List (κ × α)} {k : κ} {v : α} (hn : (keys l).Nodup) (h : (k, v) ∈ l) :
    get l k = some v := by
  induction l with
  | nil => simp at h
  | cons x l ih =>
    rw [get_cons]
    simp only [keys_cons, List.nodup_cons] at hn
    rcases List.mem_cons.mp h with h | h
    · subst h; simp
    · have : x.1 ≠ k := by
        intro e; subst e; exact hn.1 (mem_keys_of_mem h)
      simp [this, ih hn.2 h]

theorem mem_iff_get {l : List (κ × α)} {k : κ} {v : α} (hn : (keys l).Nodup) :
    (k, v) ∈ l ↔ get l k = some v := ⟨get_of_mem hn, mem_of_get⟩

/-- the decomposition around the first match -/
theorem get_split {l : List (κ × α)} {k : κ} {v : α} (h : get l k = some v) :
    ∃ a b, l = a ++ (k, v) :: b ∧ k ∉ keys a := by
  induction l with
  | nil => simp at h
  | cons x l ih =>
    rw [get_cons] at h
    by_cases hx : x.1 = k
    · simp [hx] at h
      refine ⟨[], l, ?_, by simp⟩
      cases x; simp_all
    · simp [hx] at h
      obtain ⟨a, b, rfl, hk⟩ := ih h
      refine ⟨x :: a, b, rfl, ?_⟩
      simp [hk]; exact fun e => hx e.symm

theorem get_append_of_notin {a : List (κ × α)} {k : κ} (h : k ∉ keys a) (b : List (κ × α)) :
    get (a ++ b) k = get b k := by
  induction a with
  | nil => rfl
  | cons x a ih =>
    simp only [keys_cons, List.mem_cons, not_or] at h
    rw [List.cons_append, get_cons]
    have : x.1 ≠ k := fun e => h.1 e.symm
    simp [this, ih h.2]

theorem get_append (a b : List (κ × α)) (k : κ) :
    get (a ++ b) k = (get a k).or (get b k) := by
  induction a with
  | nil => simp
  | cons x a ih =>
    rw [List.cons_append, get_cons, get_cons]
    by_cases h : x.1 = k <;> simp [h, ih]

theorem set_split {a : List (κ × α)} {k : κ} (h : k ∉ keys a) (v v' : α) (b : List (κ × α)) :
    set (a ++ (k, v) :: b) k v' = a ++ (k, v') :: b := by
  induction a with
  | nil => simp [set]
  | cons x a ih =>
    simp only [keys_cons, List.mem_cons, not_or] at h
    have : x.1 ≠ k := fun e => h.1 e.symm
    obtain ⟨x1, x2⟩ := x
    simp only [List.cons_append, set]
    simp only at this
    simp [this, ih h.2]

theorem set_of_get_none {l : List (κ × α)} {k : κ} (h : get l k = none) (v : α) :
    set l k v = l ++ [(k, v)] := by
  induction l with
  | nil => rfl
  | cons x l ih =>
    rw [get_cons] at h
    obtain ⟨x1, x2⟩ := x
    by_cases hx : x1 = k
    · simp [hx] at h
    · simp [hx] at h
      simp [set, hx, ih h]

theorem change_split {a : List (κ × α)} {k : κ} (h : k ∉ keys a) (v v' : α) (b : List (κ × α)) :
    change (a ++ (k, v) :: b) k v' = a ++ (k, v') :: b := by
  induction a with
  | nil => simp [change]
  | cons x a ih =>
    simp only [keys_cons, List.mem_cons, not_or] at h
    have : x.1 ≠ k := fun e => h.1 e.symm
    obtain ⟨x1, x2⟩ := x
    simp only [List.cons_append, change]
    simp only at this
    simp [this, ih h.2]

theorem change_of_get_none {l : List (κ × α)} {k : κ} (h : get l k = none) (v : α) :
    change l k v = l := by
  induction l with
  | nil => rfl
  | cons x l ih =>
    rw [get_cons] at h
    obtain ⟨x1, x2⟩ := x
    by_cases hx : x1 = k
    · simp [hx] at h
    · simp [hx] at h
      simp [change, hx, ih h]

theorem change_eq_set {l : List (κ × α)} {k : κ} {w : α} (h : get l k = some w) (v : α) :
    change l k v = set l k v := by
  obtain ⟨a, b, rfl, hk⟩ := get_split h
  rw [change_split hk, set_split hk]

theorem erase_of_notin {l : List (κ × α)} {k : κ} (h : k ∉ keys l) : erase l k = l := by
  unfold erase
  rw [List.filter_eq_self]
  intro x hx
  simp only [bne_iff_ne, ne_eq]
  intro e
  exact h (List.mem_map.mpr ⟨x, hx, e⟩)

theorem erase_append (a b : List (κ × α)) (k : κ) : erase (a ++ b) k = erase a k ++ erase b k := by
  simp [erase]

theorem erase_cons_self (k : κ) (v : α) (b : List (κ × α)) : erase ((k, v) :: b) k = erase b k := by
  simp [erase]

theorem erase_split {a b : List (κ × α)} {k : κ} (ha : k ∉ keys a) (hb : k ∉ keys b) (v : α) :
    erase (a ++ (k, v) :: b) k = a ++ b := by
  rw [erase_append, erase_cons_self, erase_of_notin ha, erase_of_notin hb]

theorem keys_erase (l : List (κ × α)) (k : κ) : keys (erase l k) = (keys l).filter (· != k) := by
  simp [keys, erase, List.filter_map]; rfl

theorem mem_keys_erase {l : List (κ × α)} {k k' : κ} : k' ∈ keys (erase l k) ↔ k' ∈ keys l ∧ k' ≠ k := by
  rw [keys_erase]; simp

theorem nodup_keys_erase {l : List (κ × α)} (h : (keys l).Nodup) (k : κ) : (keys (erase l k)).Nodup := by
  rw [keys_erase]; exact h.filter _

theorem get_erase (l : List (κ × α)) (k k' : κ) :
    get (erase l k) k' = if k' = k then none else get l k' := by
  induction l with
  | nil => simp [erase]
  | cons x l ih =>
    unfold erase at ih ⊢
    rw [List.filter_cons]
    by_cases hx : x.1 = k
    · simp only [hx, bne_self_eq_false, Bool.false_eq_true, ↓reduceIte, ih, get_cons]
      by_cases hk : k' = k
      · simp [hk]
      · have : k ≠ k' := fun e => hk e.symm
        simp [hk, this]
    · have : (x.1 != k) = true := by simp [hx]
      simp only [this, ↓reduceIte, get_cons, ih]
      by_cases hk : k' = k
      · subst hk; simp [hx]
      · simp [hk]

theorem get_set (l : List (κ × α)) (k k' : κ) (v : α) :
    get (set l k v) k' = if k' = k then some v else get l k' := by
  induction l with
  | nil =>
    simp only [set, get_cons, get_nil]
    by_cases h : k' = k
    · simp [h]
    · have : k ≠ k' := fun e => h e.symm
      simp [h, this]
  | cons x l ih =>
    obtain ⟨x1, x2⟩ := x
    simp only [set]
    by_cases hx : x1 = k
    · subst hx
      simp only [↓reduceIte, get_cons]
      by_cases hk : k' = x1
      · simp [hk]
      · have : x1 ≠ k' := fun e => hk e.symm
        simp [hk, this]
    · simp only [hx, ↓reduceIte, get_cons, ih]
      by_cases hk : k' = k
      · subst hk; simp [hx]
      · simp [hk]

theorem get_change (l : List (κ × α)) (k k' : κ) (v : α) :
    get (change l k v) k' = if k' = k ∧ (get l k).isSome then some v else get l k' := by
  cases h : get l k with
  | none => simp [change_of_get_none h]
  | some w =>
    rw [change_eq_set h, get_set]; simp

theorem keys_set_of_get_some {l : List (κ × α)} {k : κ} {w : α} (h : get l k = some w) (v : α) :
    keys (set l k v) = keys l := by
  obtain ⟨a, b, rfl, hk⟩ := get_split h
  rw [set_split hk]; simp

theorem keys_set_of_get_none {l : List (κ × α)} {k : κ} (h : get l k = none) (v : α) :
    keys (set l k v) = keys l ++ [k] := by
  rw [set_of_get_none h]; simp

theorem keys_change (l : List (κ × α)) (k : κ) (v : α) : keys (change l k v) = keys l := by
  cases h : get l k with
  | none => rw [change_of_get_none h]
  | some w => rw [change_eq_set h, keys_set_of_get_some h]

theorem mem_keys_set {l : List (κ × α)} {k k' : κ} {v : α} :
    k' ∈ keys (set l k v) ↔ k' = k ∨ k' ∈ keys l := by
  cases h : get l k with
  | none => rw [keys_set_of_get_none h]; simp [or_comm]
  | some w =>
    rw [keys_set_of_get_some h]
    constructor
    · exact Or.inr
    · rintro (rfl | h')
      · exact mem_keys_of_get h
      · exact h'

theorem nodup_keys_set {l : List (κ × α)} (hn : (keys l).Nodup) (k : κ) (v : α) :
    (keys (set l k v)).Nodup := by
  cases h : get l k with
  | none =>
    rw [keys_set_of_get_none h]
    rw [List.nodup_append]
    refine ⟨hn, by simp, ?_⟩
    intro a ha b hb
    simp at hb; subst hb
    intro e; subst e
    exact get_eq_none_iff.mp h ha
  | some w => rw [keys_set_of_get_some h]; exact hn

theorem length_change (l : List (κ × α)) (k : κ) (v : α) : (change l k v).length = l.length := by
  have := congrArg List.length (keys_change l k v)
  simpa [keys] using this

/-- with distinct keys, a split is unique enough: the tail has no `k` either -/
theorem notin_tail_of_nodup {a b : List (κ × α)} {k : κ} {v : α}
    (hn : (keys (a ++ (k, v) :: b)).Nodup) : k ∉ keys a ∧ k ∉ keys b := by
  simp only [keys_append, keys_cons] at hn
  rw [List.nodup_append] at hn
  obtain ⟨_, h2, h3⟩ := hn
  simp only [List.nodup_cons] at h2
  refine ⟨fun h => h3 _ h _ (by simp) rfl, h2.1⟩

/-- the full decomposition under distinct keys -/
theorem get_split_nodup {l : List (κ × α)} {k : κ} {v : α} (hn : (keys l).Nodup) (h : get l k = some v) :
    ∃ a b, l = a ++ (k, v) :: b ∧ k ∉ keys a ∧ k ∉ keys b := by
  obtain ⟨a, b, rfl, hk⟩ := get_split h
  exact ⟨a, b, rfl, hk, (notin_tail_of_nodup hn).2⟩

theorem mem_set_of_ne {l : List (κ × α)} {k k' : κ} {v v' : α} (hne : k' ≠ k) :
    (k', v') ∈ set l k v ↔ (k', v') ∈ l := by
  induction l with
  | nil => simp [set, hne]
  | cons x l ih =>
    obtain ⟨x1, x2⟩ := x
    simp only [set]
    by_cases hx : x1 = k
    · subst hx; simp [hne]
    · simp [hx, ih]

theorem mem_erase {l : List (κ × α)} {k : κ} {x : κ × α} : x ∈ erase l k ↔ x ∈ l ∧ x.1 ≠ k := by
  simp [erase]

end AL

/-! ## The model's association lists are instances of `AL` -/

@[simp] theorem getPartition_eq (ps : List (Name × Partition)) (k : Name) :
    PCache.getPartition ps k = AL.get ps k := by
  induction ps with
  | nil => rfl
  | cons x ps ih => obtain ⟨a, b⟩ := x; simp only [PCache.getPartition, AL.get, ih]

@[simp] theorem setPartition_eq (ps : List (Name × Partition)) (k : Name) (p : Partition) :
    PCache.setPartition ps k p = AL.set ps k p := by
  induction ps with
  | nil => rfl
  | cons x ps ih => obtain ⟨a, b⟩ := x; simp only [PCache.setPartition, AL.set, ih]

@[simp] theorem removePartition_eq (ps : List (Name × Partition)) (k : Name) :
    PCache.removePartition ps k = AL.erase ps k := rfl

@[simp] theorem getTuples_eq (rs : List (Nat × Tuples)) (k : Nat) :
    PCache.getTuples rs k = AL.get rs k := by
  induction rs with
  | nil => rfl
  | cons x rs ih => obtain ⟨a, b⟩ := x; simp only [PCache.getTuples, AL.get, ih]

@[simp] theorem setTuples_eq (rs : List (Nat × Tuples)) (k : Nat) (t : Tuples) :
    PCache.setTuples rs k t = AL.set rs k t := by
  induction rs with
  | nil => rfl
  | cons x rs ih => obtain ⟨a, b⟩ := x; simp only [PCache.setTuples, AL.set, ih]

@[simp] theorem PQ_push_eq (q : PQ) (k : Name) (p : Nat) : PQ.push q k p = AL.set q k p := by
  induction q with
  | nil => rfl
  | cons x q ih => obtain ⟨a, b⟩ := x; simp only [PQ.push, AL.set, ih]

@[simp] theorem PQ_change_eq (q : PQ) (k : Name) (p : Nat) : PQ.change q k p = AL.change q k p := by
  induction q with
  | nil => rfl
  | cons x q ih => obtain ⟨a, b⟩ := x; simp only [PQ.change, AL.change, ih]

@[simp] theorem PQ_remove_eq (q : PQ) (k : Name) : PQ.remove q k = AL.erase q k := rfl

/-! ## `PQ.minEntry` -/

theorem PQ.minEntry_eq_none {q : PQ} : PQ.minEntry q = none ↔ q = [] := by
  cases q with
  | nil => simp [PQ.minEntry]
  | cons x q =>
    obtain ⟨k, p⟩ := x
    simp only [PQ.minEntry]
    split <;> simp
    split <;> simp

theorem PQ.minEntry_mem {q : PQ} {k : Name} {p : Nat} (h : PQ.minEntry q = some (k, p)) : (k, p) ∈ q := by
  induction q generalizing k p with
  | nil => simp [PQ.minEntry] at h
  | cons x q ih =>
    obtain ⟨k0, p0⟩ := x
    simp only [PQ.minEntry] at h
    split at h
    · cases h; simp
    · rename_i k' p' hm
      split at h
      · cases h; simp
      · cases h; exact List.mem_cons_of_mem _ (ih hm)

theorem PQ.minEntry_le {q : PQ} {k : Name} {p : Nat} (h : PQ.minEntry q = some (k, p)) :
    ∀ x ∈ q, p ≤ x.2 := by
  induction q generalizing k p with
  | nil => simp
  | cons x q ih =>
    obtain ⟨k0, p0⟩ := x
    simp only [PQ.minEntry] at h
    split at h
    · rename_i hm
      cases h
      have := PQ.minEntry_eq_none.mp hm
      subst this; simp
    · rename_i k' p' hm
      have ih' := ih hm
      split at h
      · rename_i hle
        cases h
        intro x hx
        rcases List.mem_cons.mp hx with rfl | hx
        · exact Nat.le_refl _
        · exact Nat.le_trans hle (ih' x hx)
      · rename_i hle
        cases h
        intro x hx
        rcases List.mem_cons.mp hx with rfl | hx
        · simp only; omega
        · exact ih' x hx

end Resolved
