/-
  Model of the upstream-reply filter:
    crates/dns-resolver/src/util/nameserver.rs  response_matches_request, get_nxdomain_nodata_soa
    crates/dns-resolver/src/recursive.rs        follow_cnames, get_better_ns_names,
                                                validate_nameserver_response, get_record, get_ip
  `HashMap<DomainName, DomainName>` = association list where a later insert overwrites;
  `HashSet<DomainName>` = duplicate-free list (its iteration order is not observable: the harness
  sorts `hostnames`).
-/
import Resolved.Model.Zone

namespace Resolved

open Gen

def RCODE_NOERROR : Nat := 0
def RCODE_NAMEERROR : Nat := 3

/-- `response_matches_request`. -/
def responseMatchesRequest (request response : Message) : Bool :=
  if request.header.id != response.header.id then false
  else if !response.header.isResponse then false
  else if request.header.opcode != response.header.opcode then false
  else if response.header.isTruncated then false
  else if !(response.header.rcode == RCODE_NOERROR || response.header.rcode == RCODE_NAMEERROR) then false
  else if request.questions != response.questions then false
  else true

/-- `get_nxdomain_nodata_soa`. -/
def getNxdomainNodataSoa (question : Question) (response : Message) (currentMatchCount : Nat) : Option RR :=
  if !response.answers.isEmpty then none
  else if !(response.header.rcode == RCODE_NAMEERROR || response.header.rcode == RCODE_NOERROR) then none
  else
    match response.authority.filter (fun rr => rr.rtype == RT_SOA) with
    | [rr] =>
      if !question.name.isSubdomainOf rr.name then none
      else if rr.name.labels.length < currentMatchCount then none
      else some rr
    | _ => none      -- none, or "multiple SOAs: abort, abort!"

abbrev NameMap := List (Name × Name)

def nmGet (m : NameMap) (k : Name) : Option Name :=
  match m with
  | [] => none
  | (k', v) :: rest => if k' = k then some v else nmGet rest k

/-- `HashMap::insert` (overwrites). -/
def nmInsert (m : NameMap) (k v : Name) : NameMap :=
  match m with
  | [] => [(k, v)]
  | (k', v') :: rest => if k' = k then (k, v) :: rest else (k', v') :: nmInsert rest k v

/-- the target of a CNAME record (`RecordTypeWithData::CNAME { cname }`). -/
def cnameTarget (rr : RR) : Option Name :=
  if rr.rtype == RT_CNAME then
    match rr.fields with
    | [.name t] => some t
    | _ => none
  else none

def nsTarget (rr : RR) : Option Name :=
  if rr.rtype == RT_NS then
    match rr.fields with
    | [.name t] => some t
    | _ => none
  else none

/-- the `while let Some(target) = cname_map.get(&final_name)` loop; fuel = |map| + 1 always suffices
    (every iteration adds a new value of the map to `seen`). `none` = loop detected. -/
def followLoop (cnameMap : NameMap) : Nat → Name → List Name → NameMap → Option (Name × List Name × NameMap)
  | 0, _, _, _ => none
  | fuel + 1, finalName, seen, followed =>
    match nmGet cnameMap finalName with
    | none => some (finalName, seen, followed)
    | some target =>
      if seen.contains target then none
      else followLoop cnameMap fuel target (seen ++ [target]) (nmInsert followed finalName target)

/-- `follow_cnames`. -/
def followCnames (rrs : List RR) (target : Name) (qtype : Nat) : Option (Name × NameMap) :=
  let gotMatch := rrs.any (fun rr => rr.name == target && rtypeMatches rr.rtype qtype)
  -- a question for the CNAME type itself is answered by the alias record, which is not followed
  let cnameMap := if qtype == RT_CNAME then ([] : NameMap) else rrs.foldl (fun m rr =>
    match cnameTarget rr with
    | some t => nmInsert m rr.name t
    | none => m) ([] : NameMap)
  match followLoop cnameMap (cnameMap.length + 1) target [] [] with
  | none => none
  | some (finalName, seen, followed) =>
    if gotMatch || !seen.isEmpty then some (finalName, followed) else none

def insertSet (s : List Name) (n : Name) : List Name := if s.contains n then s else s ++ [n]

/-- `get_better_ns_names`. -/
def getBetterNsNames (rrs : List RR) (target : Name) (currentMatchCount : Nat) : Option (Name × List Name) :=
  let step (st : List Name × Nat × Option Name) (rr : RR) : List Name × Nat × Option Name :=
    let (nsNames, matchCount, matchName) := st
    match nsTarget rr with
    | some nsdname =>
      if target.isSubdomainOf rr.name then
        if rr.name.labels.length > matchCount then ([nsdname], rr.name.labels.length, some rr.name)
        else if rr.name.labels.length = matchCount then (insertSet nsNames nsdname, matchCount, matchName)
        else st
      else st
    | none => st
  let (nsNames, _, matchName) := rrs.foldl step ([], currentMatchCount, none)
  matchName.map (fun mn => (mn, nsNames))

/-- `NameserverResponse`. -/
inductive NameserverResponse where
  | answer (rrs : List RR) (soaRR : Option RR)
  | cname (rrs : List RR) (cname : Name)
  | delegation (rrs : List RR) (hostnames : List Name) (name : Name)
deriving DecidableEq, Repr, Inhabited

def rrIsUnknown (rr : RR) : Bool := rtypeIsUnknown rr.rtype || rclassIsUnknown rr.rclass

/-- `validate_nameserver_response`. -/
def validateNameserverResponse (question : Question) (response : Message) (currentMatchCount : Nat) :
    Option NameserverResponse :=
  match followCnames response.answers question.name question.qtype with
  | some (finalName, cnameMap) =>
    let known := response.answers.filter (fun an => !rrIsUnknown an)
    let allUnknown := known.isEmpty
    let rrsForQuery := known.filter (fun an =>
      (rtypeMatches an.rtype question.qtype && an.name == finalName) ||
      (match cnameTarget an with
       | some t => nmGet cnameMap an.name == some t
       | none => false))
    let seenFinal := known.any (fun an => rtypeMatches an.rtype question.qtype && an.name == finalName)
    if allUnknown then none
    else if rrsForQuery.isEmpty then none
    else if seenFinal then some (.answer rrsForQuery none)
    else some (.cname rrsForQuery finalName)
  | none =>
    let fromAnswers := getBetterNsNames response.answers question.name currentMatchCount
    let fromAuthority := getBetterNsNames response.authority question.name currentMatchCount
    let chosen : Option (Name × List Name) :=
      match fromAnswers, fromAuthority with
      | some (mn1, nss1), some (mn2, nss2) =>
        if mn1.labels.length > mn2.labels.length then some (mn1, nss1)
        else if mn1.labels.length = mn2.labels.length then some (mn1, nss2.foldl insertSet nss1)
        else some (mn2, nss2)
      | some x, none => some x
      | none, some x => some x
      | none, none => none
    match chosen with
    | none => (getNxdomainNodataSoa question response currentMatchCount).map (fun soa => .answer [] (some soa))
    | some (matchName, nsNames) =>
      let isNs (rr : RR) : Bool :=
        match nsTarget rr with
        | some t => rr.name == matchName && nsNames.contains t
        | none => false
      let isGlue (rr : RR) : Bool := (rr.rtype == RT_A || rr.rtype == RT_AAAA) && nsNames.contains rr.name
      let rrs := response.answers.filter (fun rr => isNs rr || isGlue rr)
                 ++ response.authority.filter isNs
                 ++ response.additional.filter isGlue
      some (.delegation rrs nsNames matchName)

/-- `get_record`. -/
def getRecord (rrs : List RR) (target : Name) (rtype : Nat) : Option RR :=
  rrs.find? (fun rr => rr.rtype == rtype && rr.name == target)

/-- `get_ip`: the address as (family, value). -/
def getIp (rrs : List RR) (target : Name) (rtype : Nat) : Option FieldVal :=
  match followCnames rrs target QTYPE_WILDCARD with
  | some (finalName, _) =>
    match getRecord rrs finalName rtype with
    | some rr =>
      match rr.fields with
      | [.a x] => if rr.rtype == RT_A then some (.a x) else none
      | [.aaaa x] => if rr.rtype == RT_AAAA then some (.aaaa x) else none
      | _ => none
    | none => none
  | none => none

end Resolved
