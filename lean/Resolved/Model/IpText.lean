/-
  Model of the parts of Rust `core` that the zone-file parser / serialiser calls on text:
    core::net::parser   `Ipv4Addr::from_str`, `Ipv6Addr::from_str`   (library/core/src/net/parser.rs)
    core::net::ip_addr  `Display for Ipv4Addr`, `Display for Ipv6Addr` (library/core/src/net/ip_addr.rs)
    core::num           `u32::from_str`, `u16::from_str`               (from_ascii_radix, radix 10)
    core::char          `to_digit`, `is_ascii`, `is_ascii_digit`, `is_whitespace`
    core::fmt           `{}` of an unsigned integer
  One Lean function per Rust function, same order of checks.
  The IP address parser and printer themselves live in Model/Hosts.lean (namespace `Resolved.Ip`,
  one std model for both the hosts and the zone-file component); this file adds the char classes,
  the integer parser / printer and the `&str`-level entry points.  Core Lean only.
-/
import Resolved.Model.Hosts

namespace Resolved.IpText

/-! ## chars and UTF-8 -/

/-- `str::as_bytes`: the UTF-8 encoding (`Resolved.utf8Encode` of Model/Hosts.lean). -/
def utf8Encode (s : List Char) : List UInt8 := Resolved.utf8Encode s

/-- `char::is_ascii`. -/
def isAscii (c : Char) : Bool := c.toNat < 128

/-- `char::is_ascii_digit`. -/
def isAsciiDigit (c : Char) : Bool := 48 ≤ c.toNat && c.toNat ≤ 57

/-- `char::to_digit(10)` (ASCII `0`-`9` only). -/
def toDigit10 (c : Char) : Option Nat :=
  if 48 ≤ c.toNat ∧ c.toNat ≤ 57 then some (c.toNat - 48) else none

/-- `char::is_whitespace`: the Unicode `White_Space` property. -/
def isWhitespace (c : Char) : Bool :=
  let n := c.toNat
  (9 ≤ n && n ≤ 13) || n == 0x20 || n == 0x85 || n == 0xA0 || n == 0x1680
    || (0x2000 ≤ n && n ≤ 0x200A) || n == 0x2028 || n == 0x2029 || n == 0x202F || n == 0x205F
    || n == 0x3000

/-! ## `u32::from_str` / `u16::from_str` -/

/-- the digit loop of `from_ascii_radix` (radix 10): `none` = `InvalidDigit`.  Overflow is checked by
    the caller against the accumulated (unbounded) value, which gives the same `Ok`/`Err` outcome as
    the checked arithmetic of the Rust loop. -/
def decLoop : List Char → Nat → Option Nat
  | [], acc => some acc
  | c :: cs, acc =>
    match toDigit10 c with
    | some d => decLoop cs (acc * 10 + d)
    | none => none

/-- `<unsigned>::from_str` with `MAX = max`: empty ⇒ Err, a lone `+`/`-` ⇒ Err, one leading `+` is
    skipped, every remaining char must be an ASCII digit, the value must fit.  (The Rust works on
    the UTF-8 octets; an octet ≥ 128 is never a digit, so working on chars is the same function.) -/
def parseUnsigned (max : Nat) (s : List Char) : Option Nat :=
  match s with
  | [] => none
  | [c] =>
    if c = '+' ∨ c = '-' then none
    else match decLoop [c] 0 with
      | some v => if v ≤ max then some v else none
      | none => none
  | c :: rest =>
    let digits := if c = '+' then rest else c :: rest
    match decLoop digits 0 with
    | some v => if v ≤ max then some v else none
    | none => none

def parseU32 (s : List Char) : Option Nat := parseUnsigned 4294967295 s
def parseU16 (s : List Char) : Option Nat := parseUnsigned 65535 s

/-! ## integer `Display` -/

def digitChar (d : Nat) : Char := Char.ofNat (48 + d)

/-- most significant digit first; `fuel` bounds the number of digits. -/
def decAux : Nat → Nat → List Char → List Char
  | 0, _, acc => acc
  | fuel + 1, n, acc =>
    if n < 10 then digitChar n :: acc else decAux fuel (n / 10) (digitChar (n % 10) :: acc)

/-- `format!("{n}")` for an unsigned integer. -/
def showDec (n : Nat) : List Char := decAux (n + 1) n []

/-! ## `Ipv4Addr` / `Ipv6Addr`: `from_str` and `Display`

The std parser (`core::net::parser`) and printer (`core::net::ip_addr`) are modelled ONCE, in
namespace `Resolved.Ip` of Model/Hosts.lean (hosts component); here are only the entry points the
zone-file code calls, on `&str` / `String` as char lists. -/

/-- a `String` made of the given (ASCII) octets. -/
def bytesAsChars (bs : List UInt8) : List Char := bs.map (fun b => Char.ofNat b.toNat)

/-- `Ipv4Addr::from_str` (`parse_ascii` on the UTF-8 octets; longer than 15 octets ⇒ Err; the whole
    input must be consumed). -/
def ipv4FromStr (s : List Char) : Option Nat :=
  let b := utf8Encode s
  if b.length > 15 then none
  else
    match Ip.readIpv4Addr b with
    | some (a, []) => some a
    | _ => none

/-- `Ipv6Addr::from_str`. -/
def ipv6FromStr (s : List Char) : Option (List Nat) :=
  match Ip.readIpv6Addr (utf8Encode s) with
  | some (gs, []) => some gs
  | _ => none

/-- `Display for Ipv4Addr` (no width / precision). -/
def showIpv4 (a : Nat) : List Char := bytesAsChars (Ip.showIpv4 a)

/-- `Display for Ipv6Addr` (no width / precision) on the eight segments. -/
def showIpv6 (segs : List Nat) : List Char := bytesAsChars (Ip.showIpv6 segs)

end Resolved.IpText
