/-
  Model of crates/dns-resolver/src/cache.rs: `PartitionedCache<DomainName, RecordType,
  RecordTypeWithData>`, `Cache`, `SharedCache`.  Time is `Nat` nanoseconds of a virtual clock; every
  operation takes the clock reading `now` (each Rust method reads `Instant::now()` once or reads
  it again without the clock moving under the verification hook).
  `priority_queue::PriorityQueue<K, Reverse<Instant>>` is modelled abstractly as a key → priority
  association list with arg-min pop (ties: first inserted) — its contract is assumed (trusted base).
-/
import Resolved.Model.Wire

namespace Resolved

/-- `RecordTypeWithData` as stored in the cache. -/
structure CRec where
  rtype : Nat
  fields : List FieldVal
deriving DecidableEq, Repr, Inhabited

abbrev Tuples := List (CRec × Nat)          -- Vec<(V, Instant)>

/-- `Partition<K2, V>`. -/
structure Partition where
  lastRead : Nat
  nextExpiry : Nat
  size : Nat
  records : List (Nat × Tuples)             -- HashMap<K2, Vec<(V, Instant)>>
deriving DecidableEq, Repr, Inhabited

abbrev PQ := List (Name × Nat)              -- PriorityQueue<K1, Reverse<Instant>>

/-- `PartitionedCache`. -/
structure PCache where
  partitions : List (Name × Partition)
  accessPriority : PQ
  expiryPriority : PQ
  currentSize : Nat
  desiredSize : Nat
deriving DecidableEq, Repr, Inhabited

namespace PQ

/-- `PriorityQueue::push`: insert, or replace the priority of an existing key. -/
def push (q : PQ) (k : Name) (p : Nat) : PQ :=
  match q with
  | [] => [(k, p)]
  | (k', p') :: rest => if k' = k then (k, p) :: rest else (k', p') :: push rest k p

/-- `PriorityQueue::change_priority`: no-op when the key is absent. -/
def change (q : PQ) (k : Name) (p : Nat) : PQ :=
  match q with
  | [] => []
  | (k', p') :: rest => if k' = k then (k, p) :: rest else (k', p') :: change rest k p

/-- `PriorityQueue::remove`. -/
def remove (q : PQ) (k : Name) : PQ := q.filter (fun kv => kv.1 != k)

/-- the entry with the smallest instant (greatest `Reverse` priority); first one on ties. -/
def minEntry : PQ → Option (Name × Nat)
  | [] => none
  | (k, p) :: rest =>
    match minEntry rest with
    | none => some (k, p)
    | some (k', p') => if p ≤ p' then some (k, p) else some (k', p')

/-- `PriorityQueue::pop`. -/
def pop (q : PQ) : Option ((Name × Nat) × PQ) :=
  match minEntry q with
  | none => none
  | some (k, p) => some ((k, p), remove q k)

end PQ

namespace PCache

/-- `PartitionedCache::with_desired_size`. -/
def new (desired : Nat) : PCache :=
  { partitions := [], accessPriority := [], expiryPriority := [], currentSize := 0, desiredSize := desired }

def getPartition (ps : List (Name × Partition)) (k : Name) : Option Partition :=
  match ps with
  | [] => none
  | (k', p) :: rest => if k' = k then some p else getPartition rest k

def setPartition (ps : List (Name × Partition)) (k : Name) (p : Partition) : List (Name × Partition) :=
  match ps with
  | [] => [(k, p)]
  | (k', p') :: rest => if k' = k then (k, p) :: rest else (k', p') :: setPartition rest k p

def removePartition (ps : List (Name × Partition)) (k : Name) : List (Name × Partition) :=
  ps.filter (fun kv => kv.1 != k)

def getTuples (rs : List (Nat × Tuples)) (k : Nat) : Option Tuples :=
  match rs with
  | [] => none
  | (k', t) :: rest => if k' = k then some t else getTuples rest k

def setTuples (rs : List (Nat × Tuples)) (k : Nat) (t : Tuples) : List (Nat × Tuples) :=
  match rs with
  | [] => [(k, t)]
  | (k', t') :: rest => if k' = k then (k, t) :: rest else (k', t') :: setTuples rest k t

/-- `get_partition_without_checking_expiration`: touches `last_read`. -/
def getPartitionTouch (c : PCache) (k : Name) (now : Nat) : PCache × Option (List (Nat × Tuples)) :=
  match getPartition c.partitions k with
  | some p =>
    ({ c with partitions := setPartition c.partitions k { p with lastRead := now }
              accessPriority := c.accessPriority.change k now }, some p.records)
  | none => (c, none)

/-- `get_without_checking_expiration`: touches `last_read` only when the record key exists. -/
def getTouch (c : PCache) (k : Name) (rk : Nat) (now : Nat) : PCache × Option Tuples :=
  match getPartition c.partitions k with
  | some p =>
    match getTuples p.records rk with
    | some t =>
      ({ c with partitions := setPartition c.partitions k { p with lastRead := now }
                accessPriority := c.accessPriority.change k now }, some t)
    | none => (c, none)
  | none => (c, none)

/-- index of the first tuple whose value equals `v`. -/
def findDup (ts : Tuples) (v : CRec) : Option (Nat × Nat) :=
  let rec go : Tuples → Nat → Option (Nat × Nat)
    | [], _ => none
    | (v', e) :: rest, i => if v' = v then some (i, e) else go rest (i + 1)
  go ts 0

/-- `Vec::swap_remove(i)`. -/
def swapRemove (ts : Tuples) (i : Nat) : Tuples :=
  match ts.getLast? with
  | none => ts
  | some last => if i + 1 = ts.length then ts.dropLast else (ts.set i last).dropLast

/-- smallest expiry over all tuples of a partition's records, starting from `init`. -/
def minExpiry (rs : List (Nat × Tuples)) (init : Nat) : Nat :=
  (rs.flatMap (·.2)).foldl (fun m t => if t.2 < m then t.2 else m) init

/-- `PartitionedCache::upsert` (`ttl` in nanoseconds). -/
def upsert (c : PCache) (k : Name) (rk : Nat) (v : CRec) (ttl : Nat) (now : Nat) : PCache :=
  let expiry := now + ttl
  match getPartition c.partitions k with
  | some p =>
    -- (partition after the record-level update, current_size after it, expiry queue after it)
    let (p1, cs1, eq1) : Partition × Nat × PQ :=
      match getTuples p.records rk with
      | some ts =>
        match findDup ts v with
        | some (i, dupExpiry) =>
          let ts' := swapRemove ts i ++ [(v, expiry)]
          let recs := setTuples p.records rk ts'
          let pA := { p with records := recs, size := p.size - 1 }
          if dupExpiry = p.nextExpiry then
            let ne := minExpiry recs expiry
            ({ pA with nextExpiry := ne }, c.currentSize - 1, c.expiryPriority.change k ne)
          else (pA, c.currentSize - 1, c.expiryPriority)
        | none => ({ p with records := setTuples p.records rk (ts ++ [(v, expiry)]) }, c.currentSize, c.expiryPriority)
      | none => ({ p with records := setTuples p.records rk [(v, expiry)] }, c.currentSize, c.expiryPriority)
    let p2 := { p1 with lastRead := now, size := p1.size + 1 }
    let aq := c.accessPriority.change k now
    let (p3, eq2) :=
      if expiry < p2.nextExpiry then ({ p2 with nextExpiry := expiry }, eq1.change k expiry) else (p2, eq1)
    { c with partitions := setPartition c.partitions k p3, accessPriority := aq, expiryPriority := eq2,
             currentSize := cs1 + 1 }
  | none =>
    let p : Partition := { lastRead := now, nextExpiry := expiry, size := 1, records := [(rk, [(v, expiry)])] }
    { c with partitions := setPartition c.partitions k p
             accessPriority := c.accessPriority.push k now
             expiryPriority := c.expiryPriority.push k expiry
             currentSize := c.currentSize + 1 }

/-- the per-record-key loop of `remove_expired_step`: retain live tuples, count the pruned ones,
    track the minimum remaining expiry. -/
def retainLive (rs : List (Nat × Tuples)) (now : Nat) : List (Nat × Tuples) × Nat × Option Nat :=
  match rs with
  | [] => ([], 0, none)
  | (k, ts) :: rest =>
    let kept := ts.filter (fun t => t.2 > now)
    let (rest', pruned, ne) := retainLive rest now
    let neHere := kept.foldl (fun (m : Option Nat) t =>
      match m with
      | none => some t.2
      | some x => if t.2 < x then some t.2 else some x) none
    let ne' := match neHere, ne with
      | none, x => x
      | some a, none => some a
      | some a, some b => some (min a b)
    ((k, kept) :: rest', (ts.length - kept.length) + pruned, ne')

/-- `remove_expired_step`. -/
def removeExpiredStep (c : PCache) (now : Nat) : PCache × Nat :=
  match c.expiryPriority.pop with
  | none => (c, 0)
  | some ((k, expiry), q') =>
    if expiry > now then ({ c with expiryPriority := q'.push k expiry }, 0)
    else
      match getPartition c.partitions k with
      | some p =>
        let (recs, pruned, ne) := retainLive p.records now
        match ne with
        | some n =>
          ({ c with partitions := setPartition c.partitions k { p with records := recs, size := p.size - pruned, nextExpiry := n }
                    expiryPriority := q'.push k n
                    currentSize := c.currentSize - pruned }, pruned)
        | none =>
          ({ c with partitions := removePartition c.partitions k
                    accessPriority := c.accessPriority.remove k
                    expiryPriority := q'
                    currentSize := c.currentSize - pruned }, pruned)
      | none => ({ c with accessPriority := c.accessPriority.remove k, expiryPriority := q' }, 0)

/-- `remove_expired`: `loop { pruned += step; if before == pruned { break } }`, with explicit fuel;
    `none` = the fuel ran out (would be a hang). -/
def removeExpiredLoop : Nat → PCache → Nat → Nat → Option (PCache × Nat)
  | 0, _, _, _ => none
  | fuel + 1, c, now, acc =>
    let (c', n) := removeExpiredStep c now
    if n = 0 then some (c', acc) else removeExpiredLoop fuel c' now (acc + n)

def totalTuples (c : PCache) : Nat :=
  ((c.partitions.map (fun kv => (kv.2.records.map (fun r => r.2.length)).sum))).sum

def removeExpired (c : PCache) (now : Nat) : Option (PCache × Nat) :=
  removeExpiredLoop (totalTuples c + 2) c now 0

/-- `remove_least_recently_used`. -/
def removeLRU (c : PCache) : PCache × Nat :=
  match c.accessPriority.pop with
  | none => (c, 0)
  | some ((k, _), q') =>
    let eq' := c.expiryPriority.remove k
    match getPartition c.partitions k with
    | some p =>
      ({ c with partitions := removePartition c.partitions k, accessPriority := q', expiryPriority := eq'
                currentSize := c.currentSize - p.size }, p.size)
    | none => ({ c with accessPriority := q', expiryPriority := eq' }, 0)

/-- the `while self.current_size > self.desired_size` loop of `prune`, with explicit fuel. -/
def pruneLoop : Nat → PCache → Nat → Option (PCache × Nat)
  | 0, c, acc => if c.currentSize > c.desiredSize then none else some (c, acc)
  | fuel + 1, c, acc =>
    if c.currentSize > c.desiredSize then
      let (c', n) := removeLRU c
      pruneLoop fuel c' (acc + n)
    else some (c, acc)

/-- `PartitionedCache::prune` → `(has_overflowed, current_size, num_expired, num_pruned)`;
    `none` = one of the loops would not terminate. -/
def prune (c : PCache) (now : Nat) : Option (PCache × (Bool × Nat × Nat × Nat)) :=
  let over := decide (c.currentSize > c.desiredSize)
  match removeExpired c now with
  | none => none
  | some (c1, expired) =>
    match pruneLoop (c1.accessPriority.length + c1.partitions.length + 1) c1 0 with
    | none => none
    | some (c2, pruned) => some (c2, (over, c2.currentSize, expired, pruned))

end PCache

/-! ## `Cache` / `SharedCache` -/

def NANOS : Nat := 1000000000
def U32_MAX : Nat := 4294967295

/-- `to_rrs`. -/
def toRRs (name : Name) (now : Nat) (ts : Tuples) : List RR :=
  ts.map (fun t =>
    { name, rtype := t.1.rtype, fields := t.1.fields, rclass := 1,
      ttl := min ((t.2 - now) / NANOS) U32_MAX })

/-- `Cache::get_without_checking_expiration`. -/
def cacheGetUnchecked (c : PCache) (name : Name) (qtype : Nat) (now : Nat) : PCache × List RR :=
  match lookupNat Gen.queryTypeFromU16 qtype with
  | some "Wildcard" =>
    match c.getPartitionTouch name now with
    | (c', some recs) => (c', recs.flatMap (fun r => toRRs name now r.2))
    | (c', none) => (c', [])
  | some _ => (c, [])
  | none =>
    match c.getTouch name qtype now with
    | (c', some ts) => (c', toRRs name now ts)
    | (c', none) => (c', [])

/-- `Cache::get`. -/
def cacheGet (c : PCache) (name : Name) (qtype : Nat) (now : Nat) : PCache × List RR :=
  let (c', rrs) := cacheGetUnchecked c name qtype now
  (c', rrs.filter (fun rr => rr.ttl > 0))

/-- `Cache::insert`. -/
def cacheInsert (c : PCache) (rr : RR) (now : Nat) : PCache :=
  c.upsert rr.name rr.rtype ⟨rr.rtype, rr.fields⟩ (rr.ttl * NANOS) now

/-- `SharedCache::insert`. -/
def sharedInsert (c : PCache) (rr : RR) (now : Nat) : PCache :=
  if rr.ttl > 0 then cacheInsert c rr now else c

/-- `SharedCache::insert_all`. -/
def sharedInsertAll (c : PCache) (rrs : List RR) (now : Nat) : PCache :=
  rrs.foldl (fun c rr => sharedInsert c rr now) c

end Resolved
