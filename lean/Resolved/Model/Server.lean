/-
  Model of the server front end:
    crates/resolved/src/main.rs          triage, resolve_and_build_response, handle_raw_message,
                                         serialise_response, the reply paths of listen_udp_task / listen_tcp_task, reload_task
    crates/dns-types/src/protocol/types.rs   Message::make_response, make_format_error_response
    crates/dns-resolver/src/util/net.rs  send_udp_bytes_to, send_tcp_bytes, read_tcp_bytes
    crates/resolved/src/fs.rs            load_zone_configuration (pure part)
  The resolver is a parameter (any function from a question to a result), so the theorems hold
  for every resolver; the streams instantiate it with the authoritative-only resolver.
-/
import Resolved.Model.Resolver

namespace Resolved

def RCODE_FORMERR : Nat := 1
def RCODE_SERVFAIL : Nat := 2
def RCODE_NOTIMP : Nat := 4
def RCODE_REFUSED : Nat := 5
def OPCODE_STANDARD : Nat := 0

/-- `Message::make_response`. -/
def makeResponse (q : Message) : Message :=
  { header := { id := q.header.id, isResponse := true, opcode := q.header.opcode, isAuthoritative := false,
                isTruncated := false, recursionDesired := q.header.recursionDesired,
                recursionAvailable := true, rcode := RCODE_NOERROR }
    questions := q.questions, answers := [], authority := [], additional := [] }

/-- `Message::make_format_error_response`. -/
def makeFormatErrorResponse (id : Nat) : Message :=
  { header := { id, isResponse := true, opcode := OPCODE_STANDARD, isAuthoritative := false, isTruncated := false,
                recursionDesired := false, recursionAvailable := true, rcode := RCODE_FORMERR }
    questions := [], answers := [], authority := [], additional := [] }

def questionIsUnknown (q : Question) : Bool := qtypeIsUnknown q.qtype || qclassIsUnknown q.qclass

/-- `triage`: `.error ()` = refused, `.ok none` = no question, `.ok (some q)` = the question. -/
def triage (query : Message) : Except Unit (Option Question) :=
  match query.questions with
  | [] => .ok none
  | [q] => if questionIsUnknown q then .error () else .ok (some q)
  | _ => .error ()

/-- the resolver as the server sees it: question, "recursive?" flag → result -/
abbrev ServerResolver := Question → Bool → Except ResolutionError ResolvedRecord

/-- `resolve_and_build_response`. -/
def resolveAndBuildResponse (authoritativeOnly : Bool) (resolver : ServerResolver) (query : Message) : Message :=
  let r0 := makeResponse query
  let r1 := { r0 with header := { r0.header with recursionAvailable := !authoritativeOnly } }
  let r2 : Message :=
    match triage query with
    | .error _ => { r1 with header := { r1.header with rcode := RCODE_REFUSED } }
    | .ok none => r1
    | .ok (some question) =>
      match resolver question (query.header.recursionDesired && r1.header.recursionAvailable) with
      | .ok (.authoritative rrs soa) =>
        { r1 with answers := r1.answers ++ rrs, authority := r1.authority ++ [soa]
                  header := { r1.header with isAuthoritative := true } }
      | .ok (.authoritativeNameError soa) =>
        { r1 with authority := r1.authority ++ [soa]
                  header := { r1.header with rcode := RCODE_NAMEERROR, isAuthoritative := true } }
      | .ok (.nonAuthoritative rrs soa) =>
        { r1 with answers := r1.answers ++ rrs
                  authority := match soa with | some s => r1.authority ++ [s] | none => r1.authority
                  header := { r1.header with isAuthoritative := false } }
      | .error _ => r1
  if r2.answers.isEmpty && r2.authority.isEmpty && r2.header.rcode == RCODE_NOERROR then
    { r2 with header := { r2.header with rcode := RCODE_SERVFAIL, isAuthoritative := false } }
  else r2

/-- `handle_raw_message`. -/
def handleRawMessage (authoritativeOnly : Bool) (resolver : ServerResolver) (buf : List UInt8) : Option Message :=
  match decodeMessage buf with
  | .ok msg =>
    if msg.header.isResponse then none
    else if msg.header.opcode == OPCODE_STANDARD then some (resolveAndBuildResponse authoritativeOnly resolver msg)
    else
      let r := makeResponse msg
      some { r with header := { r.header with rcode := RCODE_NOTIMP } }
  | .error e => e.id.map makeFormatErrorResponse

def setTcBit (bytes : List UInt8) (on : Bool) : List UInt8 :=
  match bytes[2]? with
  | some b => bytes.set 2 (if on then UInt8.ofNat (b.toNat ||| 2) else UInt8.ofNat (b.toNat &&& 253))
  | none => bytes

/-- `send_udp_bytes_to`: what goes on the wire (`none` = the `< 12 octets` panic). -/
def udpFrame (bytes : List UInt8) : Option (List UInt8) :=
  if bytes.length < 12 then none
  else if bytes.length > Gen.UDP_MAX then some ((setTcBit bytes true).take Gen.UDP_MAX)
  else some (setTcBit bytes false)

/-- `send_tcp_bytes`: length prefix + message, cut at 65 535 with TC. -/
def tcpFrame (bytes : List UInt8) : Option (List UInt8) :=
  if bytes.length < 12 then none
  else if bytes.length ≤ 65535 then some (u16Bytes bytes.length ++ setTcBit bytes false)
  else some (u16Bytes 65535 ++ (setTcBit bytes true).take 65535)

/-- the SERVFAIL fallback of `serialise_response`: same header and question, no records. -/
def servfailFallback (m : Message) : Message :=
  { m with answers := [], authority := [], additional := []
           header := { m.header with rcode := RCODE_SERVFAIL, isAuthoritative := false } }

/-- `serialise_response`: the message that goes out with its octets.  A response that cannot be
    serialised (a counter that does not fit 16 bits) is replaced by its SERVFAIL fallback; `none`
    only if even that cannot be serialised. -/
def serialiseResponse (m : Message) : Option (Message × List UInt8) :=
  match encodeMessage m with
  | .ok bs => some (m, bs)
  | .error _ =>
    match encodeMessage (servfailFallback m) with
    | .ok bs => some (servfailFallback m, bs)
    | .error _ => none

/-- the UDP reply path: handle, serialise, frame.  `none` = nothing is sent. -/
def serveUdp (authoritativeOnly : Bool) (resolver : ServerResolver) (datagram : List UInt8) : Option (List UInt8) :=
  match handleRawMessage authoritativeOnly resolver datagram with
  | none => none
  | some m =>
    match serialiseResponse m with
    | some (_, bs) => udpFrame bs
    | none => none

/-- `read_tcp_bytes` on a stream that delivers `received` (everything after the 2-octet prefix
    announcing `expected`) and then ends: the message, or the ID for the FORMERR. -/
def tcpRead (expected : Nat) (received : List UInt8) : Except (Option Nat) (List UInt8) :=
  -- the buffer is allocated with exactly the announced capacity and `read_buf` fills spare capacity
  -- only: the message is the first `expected` octets, whatever else is queued on the connection
  if received.length ≥ expected then .ok (received.take expected)
  else
    .error (match received with
            | a :: b :: _ => some (a.toNat * 256 + b.toNat)
            | _ => none)

/-- the TCP reply path for one connection. -/
def serveTcp (authoritativeOnly : Bool) (resolver : ServerResolver) (expected : Nat) (received : List UInt8) :
    Option (List UInt8) :=
  let response : Option Message :=
    match tcpRead expected received with
    | .ok bytes => handleRawMessage authoritativeOnly resolver bytes
    | .error id => id.map makeFormatErrorResponse
  match response with
  | none => none
  | some m =>
    match serialiseResponse m with
    | some (_, bs) => tcpFrame bs
    | none => none

/-! ## Configuration loading and reload (C12 / C19) -/

/-- the pure part of `load_zone_configuration`: zone files in load order (each `none` = unreadable
    or unparsable), then the (possibly empty) hosts zone merged into the root zone.  All or nothing. -/
def loadConfiguration (zoneFiles : List (Option Zone)) (hostsZone : Option Zone) : Option Zones :=
  if zoneFiles.any Option.isNone || hostsZone.isNone then none
  else
    let zs := zoneFiles.filterMap id
    let merged := zs.foldl (fun acc z => acc.bind (·.insertMerge z)) (some Zones.empty)
    match merged, hostsZone with
    | some m, some h => m.insertMerge h
    | _, _ => none

/-- `reload_task` on SIGUSR1: swap in the new configuration if every file loaded, else keep the old. -/
def reload (live : Zones) (loaded : Option Zones) : Zones × Bool :=
  match loaded with
  | some z => (z, true)
  | none => (live, false)

/-- the authoritative-only resolver the server uses over a given configuration. -/
def authOnlyResolver (zones : Zones) : ServerResolver := fun q _ =>
  (resolveAuthoritativeOnly { zones, cache := PCache.new 512, now := 0, stack := [] } q).2

end Resolved
