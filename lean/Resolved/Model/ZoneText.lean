/-
  Model of the zone-file (RFC 1035 §5 master file) parser and serialiser:
    crates/dns-types/src/zones/deserialise.rs  `Zone::deserialise`, `parse_entry`, `parse_origin`,
        `parse_include`, `parse_rr`, `try_parse_rtype_with_data`, `parse_domain_or_wildcard`,
        `parse_domain`, `parse_u32`, `to_rr`, `tokenise_entry`, `tokenise_escape`, `Error`
    crates/dns-types/src/zones/serialise.rs    `Zone::serialise`, `serialise_domain`,
        `serialise_rdata`, `serialise_octets`
    crates/dns-types/src/protocol/types.rs     `RecordType::from_str`, `Display for RecordType`
  Input text is `List Char` (Unicode scalar values, what `str::chars()` yields); a token is the pair
  `(String, Bytes)` of the Rust, i.e. `(List Char × List UInt8)`.
  `RecordTypeWithData` is the flattened `(type code, field values)` of Model/Wire.lean.
  Every index / slice of the Rust (`tokens[0]`, `tokens[3..]`, `dotted_string_vec[len - 1]` …) is a
  pattern match on the list shape here, under the same length guard as in the Rust, so that a
  missing guard would show up as a missing case.
-/
import Resolved.Model.Zone
import Resolved.Model.IpText

namespace Resolved.ZoneText

open Resolved Resolved.IpText Gen

/-! ## Types -/

/-- `zones::deserialise::Error` (payloads dropped, constructors kept). -/
inductive Error where
  | tokeniserUnexpected
  | tokeniserUnexpectedEscape
  | includeNotSupported
  | multipleSOA
  | wildcardSOA
  | notSubdomainOfApex
  | unexpected
  | expectedU32
  | expectedOrigin
  | expectedDomainName
  | wrongLen
  | missingType
  | missingTTL
  | missingDomainName
deriving DecidableEq, Repr, Inhabited

/-- `(String, Bytes)`. -/
abbrev Token := List Char × List UInt8

/-- `State` of the tokeniser. -/
inductive TState where
  | initial
  | skipToEndOfComment
  | unquotedString
  | quotedString
deriving DecidableEq, Repr, Inhabited

/-- `MaybeWildcard`. -/
inductive MaybeWildcard where
  | normal (name : Name)
  | wildcard (name : Name)
deriving DecidableEq, Repr, Inhabited

/-- `RecordTypeWithData`, flattened: type code and field values (layout of Model/Wire.lean). -/
structure RData where
  rtype : Nat
  fields : List FieldVal
deriving DecidableEq, Repr, Inhabited

/-- `Entry`. -/
inductive Entry where
  | origin (name : Name)
  | include (path : List Char) (origin : Option Name)
  | rr (rr : RR)
  | wildcardRR (rr : RR)
deriving DecidableEq, Repr, Inhabited

/-- `octet as char`. -/
def octetAsChar (b : UInt8) : Char := Char.ofNat b.toNat

/-- `c as u8` (only used on ASCII chars). -/
def charAsU8 (c : Char) : UInt8 := UInt8.ofNat c.toNat

/-! ## Tokeniser -/

/-- `tokenise_escape`.  Returns the octet and the number of chars it took from the stream
    (1 for `\X`, 3 for `\DDD`); on an error the stream position does not matter any more. -/
def tokeniseEscape : List Char → Except Error (UInt8 × Nat)
  | [] => .error .tokeniserUnexpectedEscape
  | c1 :: r1 =>
    match toDigit10 c1 with
    | some d1 =>
      match r1 with
      | [] => .error .tokeniserUnexpectedEscape
      | c2 :: r2 =>
        match toDigit10 c2 with
        | some d2 =>
          match r2 with
          | [] => .error .tokeniserUnexpectedEscape
          | c3 :: _ =>
            match toDigit10 c3 with
            | some d3 =>
              -- `u8::try_from(d1 * 100 + d2 * 10 + d3)`: the `u32` sum is at most 999
              if d1 * 100 + d2 * 10 + d3 ≤ 255 then .ok (UInt8.ofNat (d1 * 100 + d2 * 10 + d3), 3)
              else .error .tokeniserUnexpectedEscape
            | none => .error .tokeniserUnexpectedEscape
        | none => .error .tokeniserUnexpectedEscape
    | none =>
      if isAscii c1 then .ok (charAsU8 c1, 1) else .error .tokeniserUnexpected

/-- `if !token_string.is_empty() { tokens.push((token_string, token_octets.freeze())) }`.
    The accumulators of the loop are kept in reverse (`rtokens` = tokens pushed so far, last first;
    `rstr` / `roct` = the current token's chars / octets, last first), so that a push is a cons. -/
def pushNonEmpty (rtokens : List Token) (rstr : List Char) (roct : List UInt8) : List Token :=
  if rstr.isEmpty then rtokens else (rstr.reverse, roct.reverse) :: rtokens

/-- The `while let Some(c) = stream.next()` loop of `tokenise_entry`, followed by the final
    `if !token_string.is_empty() { push }`.  Structural on the stream: every iteration takes one
    char; `skip` counts the chars that `tokenise_escape` already took from the shared iterator.
    Result: the tokens and the rest of the stream (what the next `tokenise_entry` call will see). -/
def tokLoop : Nat → List Char → List Token → List Char → List UInt8 → TState → Bool →
    Except Error (List Token × List Char)
  | _, [], rtokens, rstr, roct, _, _ => .ok ((pushNonEmpty rtokens rstr roct).reverse, [])
  | skip + 1, _ :: cs, rtokens, rstr, roct, st, lc => tokLoop skip cs rtokens rstr roct st lc
  | 0, c :: cs, rtokens, rstr, roct, st, lc =>
    match st with
    | .initial =>
      if c = '\n' then
        if lc then tokLoop 0 cs rtokens rstr roct .initial lc
        else .ok ((pushNonEmpty rtokens rstr roct).reverse, cs)
      else if c = ';' then tokLoop 0 cs rtokens rstr roct .skipToEndOfComment lc
      else if c = '(' then
        if lc then .error .tokeniserUnexpected
        else tokLoop 0 cs rtokens rstr roct .initial true
      else if c = ')' then
        if lc then tokLoop 0 cs rtokens rstr roct .initial false
        else .error .tokeniserUnexpected
      else if c = '"' then tokLoop 0 cs rtokens rstr roct .quotedString lc
      else if c = '\\' then
        match tokeniseEscape cs with
        | .error e => .error e
        | .ok (octet, n) =>
          tokLoop n cs rtokens (octetAsChar octet :: rstr) (octet :: roct) .unquotedString lc
      else if isWhitespace c then tokLoop 0 cs rtokens rstr roct .initial lc
      else if isAscii c then
        tokLoop 0 cs rtokens (c :: rstr) (charAsU8 c :: roct) .unquotedString lc
      else .error .tokeniserUnexpected
    | .unquotedString =>
      if c = '\n' then
        if lc then tokLoop 0 cs (pushNonEmpty rtokens rstr roct) [] [] .initial lc
        else .ok ((pushNonEmpty rtokens rstr roct).reverse, cs)
      else if c = ';' then tokLoop 0 cs (pushNonEmpty rtokens rstr roct) [] [] .skipToEndOfComment lc
      else if c = '\\' then
        match tokeniseEscape cs with
        | .error e => .error e
        | .ok (octet, n) =>
          tokLoop n cs rtokens (octetAsChar octet :: rstr) (octet :: roct) .unquotedString lc
      else if isWhitespace c then tokLoop 0 cs (pushNonEmpty rtokens rstr roct) [] [] .initial lc
      else if isAscii c then
        tokLoop 0 cs rtokens (c :: rstr) (charAsU8 c :: roct) .unquotedString lc
      else .error .tokeniserUnexpected
    | .skipToEndOfComment =>
      if c = '\n' then
        if lc then tokLoop 0 cs rtokens rstr roct .initial lc
        else .ok ((pushNonEmpty rtokens rstr roct).reverse, cs)
      else tokLoop 0 cs rtokens rstr roct .skipToEndOfComment lc
    | .quotedString =>
      if c = '"' then tokLoop 0 cs ((rstr.reverse, roct.reverse) :: rtokens) [] [] .initial lc
      else if c = '\\' then
        match tokeniseEscape cs with
        | .error e => .error e
        | .ok (octet, n) =>
          tokLoop n cs rtokens (octetAsChar octet :: rstr) (octet :: roct) .quotedString lc
      else if isAscii c then
        tokLoop 0 cs rtokens (c :: rstr) (charAsU8 c :: roct) .quotedString lc
      else .error .tokeniserUnexpected

/-- `tokenise_entry`. -/
def tokeniseEntry (stream : List Char) : Except Error (List Token × List Char) :=
  tokLoop 0 stream [] [] [] .initial false

/-! ## Names, numbers, record types -/

def sORIGIN : List Char := ['$', 'O', 'R', 'I', 'G', 'I', 'N']
def sINCLUDE : List Char := ['$', 'I', 'N', 'C', 'L', 'U', 'D', 'E']
def sIN : List Char := ['I', 'N']
def sTYPE : List Char := ['T', 'Y', 'P', 'E']

/-- `parse_u32`. -/
def parseU32E (digits : List Char) : Except Error Nat :=
  match parseU32 digits with
  | some v => .ok v
  | none => .error .expectedU32

/-- `parse_domain`.  After the `all(char::is_ascii)` check the `&str` and its octets coincide, so
    `from_dotted_string` / `from_relative_dotted_string` (Model/Name.lean, on UTF-8 octets) apply to
    `s.map charAsU8`. -/
def parseDomain (origin : Option Name) (s : List Char) : Except Error Name :=
  if s.isEmpty then .error .expectedDomainName
  else if !s.all isAscii then .error .expectedDomainName
  else if s = ['@'] then
    match origin with
    | some name => .ok name
    | none => .error .expectedOrigin
  else
    -- `dotted_string_vec[dotted_string_vec.len() - 1]`: guarded by the emptiness check above
    match s.getLast? with
    | none => .error .expectedDomainName
    | some last =>
      if last = '.' then
        match Name.fromDotted (s.map charAsU8) with
        | some d => .ok d
        | none => .error .expectedDomainName
      else
        match origin with
        | some name =>
          match Name.fromRelativeDotted name (s.map charAsU8) with
          | some d => .ok d
          | none => .error .expectedDomainName
        | none => .error .expectedOrigin

/-- `parse_domain_or_wildcard`. -/
def parseDomainOrWildcard (origin : Option Name) (s : List Char) : Except Error MaybeWildcard :=
  let normal : Except Error MaybeWildcard :=
    match parseDomain origin s with
    | .ok name => .ok (.normal name)
    | .error e => .error e
  if s.isEmpty then .error .expectedDomainName
  else if s = ['*'] then
    match origin with
    | some name => .ok (.wildcard name)
    | none => .error .expectedOrigin
  else
    match s with
    | c0 :: c1 :: rest =>
      -- `len >= 2 && v[0] == '*' && v[1] == '.'`
      if c0 = '*' ∧ c1 = '.' then
        if rest.isEmpty then .ok (.wildcard Name.root)      -- `len == 2`
        else
          match parseDomain origin rest with                -- `v[2..]`
          | .ok name => .ok (.wildcard name)
          | .error e => .error e
      else normal
    | _ => normal

/-- the 18 named record types: `(code, name)`; checked against `Gen.recordTypeFromU16` by the
    driver's self-check and by `Proofs/ZoneTextBasics.lean`. -/
def rtypeNames : List (Nat × List Char) :=
  [(1, ['A']), (2, ['N', 'S']), (3, ['M', 'D']), (4, ['M', 'F']), (5, ['C', 'N', 'A', 'M', 'E']),
   (6, ['S', 'O', 'A']), (7, ['M', 'B']), (8, ['M', 'G']), (9, ['M', 'R']), (10, ['N', 'U', 'L', 'L']),
   (11, ['W', 'K', 'S']), (12, ['P', 'T', 'R']), (13, ['H', 'I', 'N', 'F', 'O']),
   (14, ['M', 'I', 'N', 'F', 'O']), (15, ['M', 'X']), (16, ['T', 'X', 'T']), (28, ['A', 'A', 'A', 'A']),
   (33, ['S', 'R', 'V'])]

def lookupByName : List (Nat × List Char) → List Char → Option Nat
  | [], _ => none
  | (c, n) :: rest, s => if s = n then some c else lookupByName rest s

def lookupByCode : List (Nat × List Char) → Nat → Option (List Char)
  | [], _ => none
  | (c, n) :: rest, k => if k = c then some n else lookupByCode rest k

/-- `RecordType::from_str`, as the `u16` code of the result (`none` = `Err`).  `TYPE<n>` goes
    through `RecordType::from(n)`, so `TYPE1` *is* `A`. -/
def rtypeFromStr (s : List Char) : Option Nat :=
  match lookupByName rtypeNames s with
  | some c => some c
  | none =>
    if s.take 4 = sTYPE then parseU16 (s.drop 4)     -- `strip_prefix("TYPE")`, `u16::from_str`
    else none

/-- `Display for RecordType`. -/
def showRtype (code : Nat) : List Char :=
  match lookupByCode rtypeNames code with
  | some name => name
  | none => sTYPE ++ showDec code

def optName (origin : Option Name) (s : List Char) : Option Name :=
  match parseDomain origin s with
  | .ok n => some n
  | .error _ => none

/-- `try_parse_rtype_with_data`. -/
def tryParseRtypeWithData (origin : Option Name) (tokens : List Token) : Option RData :=
  match tokens with
  | [] => none
  | t0 :: args =>
    match rtypeFromStr t0.1 with
    | none => none
    | some code =>
      let oneName (c : Nat) : Option RData :=
        match args with
        | [t1] => (optName origin t1.1).map (fun n => ⟨c, [.name n]⟩)
        | _ => none
      let oneOctets (c : Nat) : Option RData :=
        match args with
        | [t1] => some ⟨c, [.opaque t1.2]⟩
        | _ => none
      if code = 1 then
        match args with
        | [t1] => (ipv4FromStr t1.1).map (fun a => ⟨1, [.a a]⟩)
        | _ => none
      else if code = 2 then oneName 2
      else if code = 3 then oneName 3
      else if code = 4 then oneName 4
      else if code = 5 then oneName 5
      else if code = 6 then
        match args with
        | [t1, t2, t3, t4, t5, t6, t7] =>
          match optName origin t1.1, optName origin t2.1, parseU32 t3.1, parseU32 t4.1,
                parseU32 t5.1, parseU32 t6.1, parseU32 t7.1 with
          | some mname, some rname, some serial, some refresh, some retry, some expire, some minimum =>
            some ⟨6, [.name mname, .name rname, .u32 serial, .u32 refresh, .u32 retry, .u32 expire,
                      .u32 minimum]⟩
          | _, _, _, _, _, _, _ => none
        | _ => none
      else if code = 7 then oneName 7
      else if code = 8 then oneName 8
      else if code = 9 then oneName 9
      else if code = 10 then oneOctets 10
      else if code = 11 then oneOctets 11
      else if code = 12 then oneName 12
      else if code = 13 then oneOctets 13
      else if code = 14 then
        match args with
        | [t1, t2] =>
          match optName origin t1.1, optName origin t2.1 with
          | some r, some e => some ⟨14, [.name r, .name e]⟩
          | _, _ => none
        | _ => none
      else if code = 15 then
        match args with
        | [t1, t2] =>
          match parseU16 t1.1, optName origin t2.1 with
          | some p, some e => some ⟨15, [.u16 p, .name e]⟩
          | _, _ => none
        | _ => none
      else if code = 16 then oneOctets 16
      else if code = 28 then
        match args with
        | [t1] => (ipv6FromStr t1.1).map (fun gs => ⟨28, [.aaaa gs]⟩)
        | _ => none
      else if code = 33 then
        match args with
        | [t1, t2, t3, t4] =>
          match parseU16 t1.1, parseU16 t2.1, parseU16 t3.1, optName origin t4.1 with
          | some p, some w, some port, some target => some ⟨33, [.u16 p, .u16 w, .u16 port, .name target]⟩
          | _, _, _, _ => none
        | _ => none
      else none

/-- `rtype_with_data.rtype() == RecordType::SOA`. -/
def RData.isSOA (rd : RData) : Bool := rd.rtype == RT_SOA

/-- `to_rr`.  (`if let SOA { minimum, .. }`: a SOA `RData` always has the seven-field shape, it is
    only built by `tryParseRtypeWithData`.) -/
def toRr (wname : MaybeWildcard) (rd : RData) (ttl : Nat) : Entry :=
  let ttl :=
    match rd.rtype, rd.fields with
    | 6, [_, _, _, _, _, _, .u32 minimum] => minimum
    | _, _ => ttl
  match wname with
  | .normal name => .rr { name, rtype := rd.rtype, fields := rd.fields, rclass := CLASS_IN, ttl }
  | .wildcard name => .wildcardRR { name, rtype := rd.rtype, fields := rd.fields, rclass := CLASS_IN, ttl }

/-- `tokens[0].0.chars().all(|c| c.is_ascii_digit())`. -/
def allDigits (s : List Char) : Bool := s.all isAsciiDigit

/-! ## `parse_rr` -/

/-- the "previous TTL, or 0 for a SOA, else MissingTTL" tail shared by several shapes. -/
def withInheritedTtl (wname : MaybeWildcard) (rd : RData) (previousTtl : Option Nat) : Except Error Entry :=
  match previousTtl with
  | some ttl => .ok (toRr wname rd ttl)
  | none => if rd.isSOA then .ok (toRr wname rd 0) else .error .missingTTL

/-- the `if tokens.len() >= 4 { if let Some(..) = try_parse(&tokens[3..]) {…} }` block;
    `none` = fall through. -/
def parseRr4 (origin : Option Name) (tokens : List Token) : Option (Except Error Entry) :=
  match tokens with
  | t0 :: t1 :: t2 :: t3 :: rest =>
    match tryParseRtypeWithData origin (t3 :: rest) with
    | none => none
    | some rd =>
      some (
        match parseDomainOrWildcard origin t0.1 with
        | .error e => .error e
        | .ok wname =>
          if t2.1 = sIN then
            match parseU32E t1.1 with
            | .error e => .error e
            | .ok ttl => .ok (toRr wname rd ttl)
          else if t1.1 = sIN then
            match parseU32E t2.1 with
            | .error e => .error e
            | .ok ttl => .ok (toRr wname rd ttl)
          else .error .unexpected)
  | _ => none

/-- the `tokens.len() >= 3` block (`&tokens[2..]`). -/
def parseRr3 (origin : Option Name) (previousDomain : Option MaybeWildcard) (previousTtl : Option Nat)
    (tokens : List Token) : Option (Except Error Entry) :=
  match tokens with
  | t0 :: t1 :: t2 :: rest =>
    match tryParseRtypeWithData origin (t2 :: rest) with
    | none => none
    | some rd =>
      some (
        if t1.1 = sIN then
          if allDigits t0.1 then
            match parseU32E t0.1 with
            | .error e => .error e
            | .ok ttl =>
              match previousDomain with
              | some wname => .ok (toRr wname rd ttl)
              | none => .error .missingDomainName
          else
            match parseDomainOrWildcard origin t0.1 with
            | .error e => .error e
            | .ok wname => withInheritedTtl wname rd previousTtl
        else if t0.1 = sIN then
          match parseU32E t1.1 with
          | .error e => .error e
          | .ok ttl =>
            match previousDomain with
            | some wname => .ok (toRr wname rd ttl)
            | none => .error .missingDomainName
        else
          match parseDomainOrWildcard origin t0.1 with
          | .error e => .error e
          | .ok wname =>
            match parseU32E t1.1 with
            | .error e => .error e
            | .ok ttl => .ok (toRr wname rd ttl))
  | _ => none

/-- the `tokens.len() >= 2` block (`&tokens[1..]`). -/
def parseRr2 (origin : Option Name) (previousDomain : Option MaybeWildcard) (previousTtl : Option Nat)
    (tokens : List Token) : Option (Except Error Entry) :=
  match tokens with
  | t0 :: t1 :: rest =>
    match tryParseRtypeWithData origin (t1 :: rest) with
    | none => none
    | some rd =>
      some (
        if t0.1 = sIN then
          match previousDomain with
          | some wname => withInheritedTtl wname rd previousTtl
          | none => .error .missingDomainName
        else if allDigits t0.1 then
          match parseU32E t0.1 with
          | .error e => .error e
          | .ok ttl =>
            match previousDomain with
            | some wname => .ok (toRr wname rd ttl)
            | none => .error .missingDomainName
        else
          match parseDomainOrWildcard origin t0.1 with
          | .error e => .error e
          | .ok wname => withInheritedTtl wname rd previousTtl)
  | _ => none

/-- the `!tokens.is_empty()` block (`&tokens[0..]`). -/
def parseRr1 (origin : Option Name) (previousDomain : Option MaybeWildcard) (previousTtl : Option Nat)
    (tokens : List Token) : Option (Except Error Entry) :=
  match tokens with
  | _ :: _ =>
    match tryParseRtypeWithData origin tokens with
    | none => none
    | some rd =>
      some (
        match previousDomain with
        | some wname => withInheritedTtl wname rd previousTtl
        | none => .error .missingDomainName)
  | [] => none

/-- `parse_rr`. -/
def parseRr (origin : Option Name) (previousDomain : Option MaybeWildcard) (previousTtl : Option Nat)
    (tokens : List Token) : Except Error Entry :=
  if tokens.isEmpty then .error .wrongLen
  else
    match parseRr4 origin tokens with
    | some r => r
    | none =>
    match parseRr3 origin previousDomain previousTtl tokens with
    | some r => r
    | none =>
    match parseRr2 origin previousDomain previousTtl tokens with
    | some r => r
    | none =>
    match parseRr1 origin previousDomain previousTtl tokens with
    | some r => r
    | none => .error .missingType

/-- `parse_origin`. -/
def parseOrigin (origin : Option Name) (tokens : List Token) : Except Error Entry :=
  match tokens with
  | [t0, t1] =>
    if t0.1 ≠ sORIGIN then .error .unexpected
    else
      match parseDomain origin t1.1 with
      | .ok name => .ok (.origin name)
      | .error e => .error e
  | _ => .error .wrongLen

/-- `parse_include`. -/
def parseInclude (origin : Option Name) (tokens : List Token) : Except Error Entry :=
  match tokens with
  | [t0, t1] =>
    if t0.1 ≠ sINCLUDE then .error .unexpected else .ok (.include t1.1 none)
  | [t0, t1, t2] =>
    if t0.1 ≠ sINCLUDE then .error .unexpected
    else
      match parseDomain origin t2.1 with
      | .ok name => .ok (.include t1.1 (some name))
      | .error e => .error e
  | _ => .error .wrongLen

/-- result of one `parse_entry` call: the `Result<Option<Entry>, Error>` together with the rest of
    the stream; `outOfFuel` is the artefact of the fuel parameter (never returned when
    `fuel > stream.length`, theorem `C17_parse_entry_fuel_suffices`). -/
inductive PEResult where
  | ok (entry : Option Entry) (rest : List Char)
  | err (e : Error)
  | outOfFuel
deriving DecidableEq, Repr, Inhabited

/-- `parse_entry`: the `loop` re-tokenises until an entry has tokens or the stream is empty. -/
def parseEntry : Nat → Option Name → Option MaybeWildcard → Option Nat → List Char → PEResult
  | 0, _, _, _, _ => .outOfFuel
  | fuel + 1, origin, previousDomain, previousTtl, stream =>
    match tokeniseEntry stream with
    | .error e => .err e
    | .ok (tokens, rest) =>
      match tokens with
      | [] =>
        if rest.isEmpty then .ok none rest          -- `stream.peek().is_none()`
        else parseEntry fuel origin previousDomain previousTtl rest
      | t0 :: _ =>                                  -- `tokens[0]`
        let r :=
          if t0.1 = sORIGIN then parseOrigin origin tokens
          else if t0.1 = sINCLUDE then parseInclude origin tokens
          else parseRr origin previousDomain previousTtl tokens
        match r with
        | .ok e => .ok (some e) rest
        | .error e => .err e

/-! ## `Zone::deserialise` -/

/-- the local variables of `Zone::deserialise` (`rrs` / `wildcardRrs` in reverse: last pushed first). -/
structure DState where
  rrs : List RR := []
  wildcardRrs : List RR := []
  apexAndSoa : Option (Name × SOA) := none
  origin : Option Name := none
  previousDomain : Option MaybeWildcard := none
  previousTtl : Option Nat := none
deriving Repr, Inhabited

/-- the destructuring `if let RecordTypeWithData::SOA { … } = rr.rtype_with_data`. -/
def soaOfRR (rr : RR) : Option SOA :=
  match rr.rtype, rr.fields with
  | 6, [.name mname, .name rname, .u32 serial, .u32 refresh, .u32 retry, .u32 expire, .u32 minimum] =>
    some { mname, rname, serial, refresh, retry, expire, minimum }
  | _, _ => none

/-- outcome of `Zone::deserialise`; `panic` = an `unwrap` inside `ZoneRecords::insert`
    (Model/Zone.lean), `outOfFuel` = artefact of the fuel parameter (unreachable, theorem
    `C17_deserialise_fuel_suffices`). -/
inductive DResult where
  | ok (zone : Zone)
  | err (e : Error)
  | panic
  | outOfFuel
deriving Repr, Inhabited

/-- the `while let Some(entry) = parse_entry(..)?` loop: `Except.ok st` at the end of the stream. -/
def deserialiseLoop : Nat → DState → List Char → Option (Except Error DState)
  | 0, _, _ => none
  | fuel + 1, st, stream =>
    match parseEntry (stream.length + 1) st.origin st.previousDomain st.previousTtl stream with
    | .outOfFuel => none
    | .err e => some (.error e)
    | .ok none _ => some (.ok st)
    | .ok (some entry) rest =>
      match entry with
      | .origin name => deserialiseLoop fuel { st with origin := some name } rest
      | .include _ _ => some (.error .includeNotSupported)
      | .rr rr =>
        let st := { st with previousDomain := some (.normal rr.name), previousTtl := some rr.ttl }
        match soaOfRR rr with
        | some soa =>
          if st.apexAndSoa.isSome then some (.error .multipleSOA)
          else deserialiseLoop fuel { st with apexAndSoa := some (rr.name, soa) } rest
        | none => deserialiseLoop fuel { st with rrs := rr :: st.rrs } rest
      | .wildcardRR rr =>
        let st := { st with previousDomain := some (.wildcard rr.name), previousTtl := some rr.ttl }
        if rr.rtype == RT_SOA then some (.error .wildcardSOA)
        else deserialiseLoop fuel { st with wildcardRrs := rr :: st.wildcardRrs } rest

/-- the `for rr in rrs` / `for rr in wildcard_rrs` loops. -/
def insertAll (wild : Bool) : Zone → List RR → DResult
  | zone, [] => .ok zone
  | zone, rr :: rest =>
    if !rr.name.isSubdomainOf zone.apex then .err .notSubdomainOfApex
    else
      match zone.insert rr.name rr.rtype rr.fields rr.ttl wild with
      | none => .panic
      | some zone' => insertAll wild zone' rest

/-- the part of `Zone::deserialise` after the entry loop. -/
def buildZone (st : DState) : DResult :=
  let zone :=
    match st.apexAndSoa with
    | some (apex, soa) => Zone.new apex (some soa)
    | none => Zone.default
  match insertAll false zone st.rrs.reverse with
  | .ok zone => insertAll true zone st.wildcardRrs.reverse
  | r => r

/-- `Zone::deserialise`. -/
def deserialise (data : List Char) : DResult :=
  match deserialiseLoop (data.length + 1) {} data with
  | none => .outOfFuel
  | some (.error e) => .err e
  | some (.ok st) => buildZone st

/-! ## Serialiser -/

/-- `serialise_octets`. -/
def serialiseOctet (quoted : Bool) (octet : UInt8) : List Char :=
  if zoneEscapeBackslash.contains octet.toNat then ['\\', octetAsChar octet]
  else if octet.toNat < 32 || octet.toNat > 126 || (octet.toNat == 32 && !quoted) then
    let digit3 := octet.toNat % 10
    let digit2 := octet.toNat / 10 % 10
    let digit1 := octet.toNat / 100 % 10
    ['\\', Char.ofNat (digit1 + 48), Char.ofNat (digit2 + 48), Char.ofNat (digit3 + 48)]
  else [octetAsChar octet]

def serialiseOctets (octets : List UInt8) (quoted : Bool) : List Char :=
  (if quoted then ['"'] else []) ++ octets.flatMap (serialiseOctet quoted) ++ (if quoted then ['"'] else [])

/-- the label loop of `to_dotted_string`, as chars (`out.push(*octet as char)`). -/
def dottedLabelsChars : List Label → Bool → List Char
  | [], _ => []
  | l :: ls, first => (if first then [] else ['.']) ++ l.map octetAsChar ++ dottedLabelsChars ls false

/-- `DomainName::to_dotted_string` as chars; `utf8Encode (toDottedChars n) = n.toDotted`
    (Proofs/ZoneTextBasics.lean). -/
def toDottedChars (n : Name) : List Char :=
  if n.isRoot then ['.'] else dottedLabelsChars n.labels true

/-- the `domain_str` of `Zone::serialise_domain`, as the UTF-8 octets (`.bytes()`) of the `String`:
    `Name.toDotted` of Model/Name.lean.  (`name.len - apex.len`, `name.labels.len() -
    apex.labels.len()`: `usize` subtractions that cannot underflow for names built by
    `from_labels` once `is_subdomain_of` holds; the model uses truncated subtraction.) -/
def domainStr (z : Zone) (name : Name) : List UInt8 :=
  let apex := z.apex
  if apex.isRoot || !z.isAuthoritative || !name.isSubdomainOf apex then name.toDotted
  else if name = apex then [64]
  else
    let labelsToKeep := name.labels.length - apex.labels.length
    let relative := (Name.mk (name.labels.take labelsToKeep) (name.len - apex.len)).toDotted
    -- a relative name which is literally "@" would be read back as the origin
    if relative = [64] then name.toDotted else relative

/-- `Zone::serialise_domain`. -/
def serialiseDomain (z : Zone) (name : Name) : List Char :=
  serialiseOctets (domainStr z name) false

def sp : List Char := [' ']

/-- `Zone::serialise_rdata`.  Field lists that do not fit the type's layout cannot be built in Rust
    (the enum is typed); they are written as nothing here. -/
def serialiseRdata (z : Zone) (rtype : Nat) (fields : List FieldVal) : List Char :=
  match fields with
  | [.a addr] => if rtype = 1 then showIpv4 addr else []
  | [.aaaa gs] => if rtype = 28 then showIpv6 gs else []
  | [.name mname, .name rname, .u32 serial, .u32 refresh, .u32 retry, .u32 expire, .u32 minimum] =>
    if rtype = 6 then
      serialiseDomain z mname ++ sp ++ serialiseDomain z rname ++ sp ++ showDec serial ++ sp
        ++ showDec refresh ++ sp ++ showDec retry ++ sp ++ showDec expire ++ sp ++ showDec minimum
    else []
  | [.name r, .name e] => if rtype = 14 then serialiseDomain z r ++ sp ++ serialiseDomain z e else []
  | [.u16 p, .name e] => if rtype = 15 then showDec p ++ sp ++ serialiseDomain z e else []
  | [.u16 p, .u16 w, .u16 port, .name t] =>
    if rtype = 33 then showDec p ++ sp ++ showDec w ++ sp ++ showDec port ++ sp ++ serialiseDomain z t
    else []
  | [.name n] => serialiseDomain z n               -- NS MD MF CNAME MB MG MR PTR
  | [.opaque octets] => serialiseOctets octets true -- NULL WKS HINFO TXT Unknown
  | _ => []

/-- insertion sort by `Name.cmp` (`vec.sort()` on `&DomainName`; keys are distinct). -/
def insertSorted (n : Name) : List Name → List Name
  | [] => [n]
  | m :: ms => if Name.cmp n m == .gt then m :: insertSorted n ms else n :: m :: ms

def sortNames (ns : List Name) : List Name := ns.foldr insertSorted []

def lookupOwner (m : List (Name × List ZoneRecord)) (n : Name) : Option (List ZoneRecord) :=
  match m with
  | [] => none
  | (k, v) :: rest => if k = n then some v else lookupOwner rest n

def nl : List Char := ['\n']

/-- one `writeln!` of the ordinary-record loop. -/
def serialiseRecordLine (z : Zone) (domain : Name) (hasWildcards : Bool) (zr : ZoneRecord) : List Char :=
  serialiseDomain z domain ++ (if hasWildcards then [' ', ' '] else []) ++ sp ++ showDec zr.ttl
    ++ sp ++ sIN ++ sp ++ showRtype zr.rtype ++ sp ++ serialiseRdata z zr.rtype zr.fields ++ nl

/-- one `writeln!` of the wildcard-record loop. -/
def serialiseWildcardLine (z : Zone) (domain : Name) (zr : ZoneRecord) : List Char :=
  ['*', '.'] ++ serialiseDomain z domain ++ sp ++ showDec zr.ttl ++ sp ++ sIN ++ sp
    ++ showRtype zr.rtype ++ sp ++ serialiseRdata z zr.rtype zr.fields ++ nl

/-- the lines of one owner block, in model order (ordinary records then wildcard records; inside
    each the order of the association lists standing for the Rust hash maps). -/
def ownerBlockLines (z : Zone) (allRecords allWildcards : List (Name × List ZoneRecord)) (domain : Name) :
    List (List Char) :=
  (match lookupOwner allRecords domain with
   | some zrs =>
     let hasWildcards := (lookupOwner allWildcards domain).isSome
     (zrs.filter (fun zr => zr.rtype != RT_SOA)).map (serialiseRecordLine z domain hasWildcards)
   | none => [])
  ++ (match lookupOwner allWildcards domain with
      | some zrs => zrs.map (serialiseWildcardLine z domain)
      | none => [])

/-- the header written for an authoritative zone. -/
def serialiseHeader (z : Zone) : List Char :=
  match z.soa with
  | none => []
  | some soa =>
    let showOrigin := !z.apex.isRoot
    let serialisedApex := serialiseOctets z.apex.toDotted false
    (if showOrigin then ['$', 'O', 'R', 'I', 'G', 'I', 'N', ' '] ++ serialisedApex ++ nl ++ nl else [])
      ++ (if showOrigin then ['@'] else serialisedApex) ++ sp ++ sIN ++ sp ++ ['S', 'O', 'A'] ++ sp
      ++ serialiseRdata z RT_SOA soa.toFields ++ nl ++ nl

/-- owners of the zone in the order `Zone::serialise` visits them. -/
def sortedDomains (z : Zone) : List Name :=
  let keys := (z.allRecords.map (·.1) ++ z.allWildcardRecords.map (·.1)).eraseDups
  sortNames keys

/-- `Zone::serialise`.  The order of the owner blocks is the Rust's (sorted by `Ord for DomainName`);
    the order of the lines inside one owner block comes out of hash maps in the Rust and is the
    association-list order here — comparisons are made up to that order (the driver sorts the lines
    of each block, see `serialiseCanonical`). -/
def serialise (z : Zone) : List Char :=
  let allRecords := z.allRecords
  let allWildcards := z.allWildcardRecords
  serialiseHeader z
    ++ (sortedDomains z).flatMap (fun d => (ownerBlockLines z allRecords allWildcards d).flatten ++ nl)

end Resolved.ZoneText
