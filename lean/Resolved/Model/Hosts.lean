/-
  Model of crates/dns-types/src/hosts/{deserialise.rs, serialise.rs, types.rs}:
    `parse_line` (five-state machine over `char_indices`), `Hosts::deserialise` (`str::lines`),
    `Hosts::serialise`, `Hosts::merge`, `From<Hosts> for Zone`, `TryFrom<Zone> for Hosts`,
    `Hosts::from_zone_lossy`;
  and of the std functions they call (namespace `Ip`, written after
  library/core/src/net/{parser.rs, ip_addr.rs} of the pinned nightly):
    `IpAddr::from_str`, `Display for Ipv4Addr`, `Display for Ipv6Addr`.
  The model of the std functions is part of the trusted base; it is validated against std by the
  `ip` stream (all 256 zero-group patterns x boundary values, random strings over `[0-9a-f:.%]`).

  Lines are `List Char` (the Rust iterates `char_indices`); byte offsets are kept as in the Rust and
  every `&line[a..b]` is the explicit, partial `strSlice` (a panic when not on a char boundary).
  `HashMap<DomainName, _>` = association list with overwrite-in-place insert.
  IPv4 value = `Nat` < 2^32, IPv6 value = list of 8 groups (as `FieldVal.a` / `FieldVal.aaaa`).
-/
import Resolved.Model.Zone

namespace Resolved

open Gen

/-! ## std::net: parser.rs -/

namespace Ip

/-- `char::to_digit(radix)` on `char::from(b)` (radix 10 or 16 here).  Current std:
    `if self > '9' && radix > 10 { ((c - 'A') & !0x20) + 10 } else { c - '0' }`, then `< radix`. -/
def toDigit (radix : Nat) (b : UInt8) : Option Nat :=
  let n := b.toNat
  if n > 57 ∧ radix > 10 then
    if 65 ≤ n ∧ n ≤ 90 then (if n - 55 < radix then some (n - 55) else none)
    else if 97 ≤ n ∧ n ≤ 122 then (if n - 87 < radix then some (n - 87) else none)
    else none
  else if 48 ≤ n ∧ n - 48 < radix then some (n - 48) else none

/-- `Parser::read_given_char`. -/
def readGivenChar (target : UInt8) : List UInt8 → Option (List UInt8)
  | [] => none
  | b :: rest => if b = target then some rest else none

/-- `Parser::read_separator`. -/
def readSeparator {α : Type} (sep : UInt8) (index : Nat)
    (inner : List UInt8 → Option (α × List UInt8)) (s : List UInt8) : Option (α × List UInt8) :=
  if index > 0 then
    match readGivenChar sep s with
    | some s' => inner s'
    | none => none
  else inner s

/-- the `while let Some(digit) = …` loop of `read_number` (the `max_digits = Some(_)` branch):
    `(result, digit_count, rest)`; `none` = the early `return None` on too many digits. -/
def readDigits (radix maxDigits : Nat) : List UInt8 → Nat → Nat → Option (Nat × Nat × List UInt8)
  | [], r, c => some (r, c, [])
  | b :: rest, r, c =>
    match toDigit radix b with
    | some d =>
      if c + 1 > maxDigits then none else readDigits radix maxDigits rest (r * radix + d) (c + 1)
    | none => some (r, c, b :: rest)

/-- `Parser::read_number::<T>(radix, Some(max_digits), allow_zero_prefix)`; `maxVal = T::MAX`
    (`result.try_into().ok()`). -/
def readNumber (radix maxDigits : Nat) (allowZeroPrefix : Bool) (maxVal : Nat) (s : List UInt8) :
    Option (Nat × List UInt8) :=
  let hasLeadingZero := s.head? == some 48
  match readDigits radix maxDigits s 0 0 with
  | none => none
  | some (r, c, rest) =>
    if c = 0 then none
    else if !allowZeroPrefix && hasLeadingZero && c > 1 then none
    else if r ≤ maxVal then some (r, rest) else none

/-- the `for (i, slot) in groups.iter_mut().enumerate()` loop of `read_ipv4_addr`
    (`n` iterations left, at index `i`). -/
def readIpv4Loop : Nat → Nat → List UInt8 → Option (List Nat × List UInt8)
  | 0, _, s => some ([], s)
  | n + 1, i, s =>
    match readSeparator 46 i (readNumber 10 3 false 255) s with
    | none => none
    | some (g, s') =>
      match readIpv4Loop n (i + 1) s' with
      | none => none
      | some (gs, s'') => some (g :: gs, s'')

/-- `[u8; 4]` → the `u32` value of the address. -/
def octetsToU32 : List Nat → Nat
  | [a, b, c, d] => a * 16777216 + b * 65536 + c * 256 + d
  | _ => 0

/-- `Parser::read_ipv4_addr`. -/
def readIpv4Addr (s : List UInt8) : Option (Nat × List UInt8) :=
  match readIpv4Loop 4 0 s with
  | some (gs, s') => some (octetsToU32 gs, s')
  | none => none

/-- `read_groups(p, groups)` with `limit = groups.len()`: (groups read, embedded IPv4 seen, rest).
    `n` = iterations left, `i` = index. -/
def readGroups (limit : Nat) : Nat → Nat → List UInt8 → List Nat × Bool × List UInt8
  | 0, _, s => ([], false, s)
  | n + 1, i, s =>
    let v4 := if i + 1 < limit then readSeparator 58 i readIpv4Addr s else none
    match v4 with
    | some (a, s') => ([a / 65536, a % 65536], true, s')
    | none =>
      match readSeparator 58 i (readNumber 16 4 true 65535) s with
      | some (g, s') =>
        match readGroups limit n (i + 1) s' with
        | (gs, f, s'') => (g :: gs, f, s'')
      | none => ([], false, s)

/-- `Parser::read_ipv6_addr`. -/
def readIpv6Addr (s : List UInt8) : Option (List Nat × List UInt8) :=
  match readGroups 8 8 0 s with
  | (head, headV4, s1) =>
    if head.length = 8 then some (head, s1)
    else if headV4 then none
    else
      match readGivenChar 58 s1 with
      | none => none
      | some s2 =>
        match readGivenChar 58 s2 with
        | none => none
        | some s3 =>
          let limit := 8 - (head.length + 1)
          match readGroups limit limit 0 s3 with
          | (tail, _, s4) =>
            -- `head[(8 - tail_size)..8].copy_from_slice(&tail[..tail_size])` over the zeroed array
            some (head ++ List.replicate (8 - head.length - tail.length) 0 ++ tail, s4)

end Ip

/-- `std::net::IpAddr`: `V4(u32 value)` / `V6(8 groups)`. -/
inductive IpAddr where
  | v4 (a : Nat)
  | v6 (gs : List Nat)
deriving DecidableEq, Repr, Inhabited

namespace Ip

/-- `Parser::read_ip_addr`. -/
def readIpAddr (s : List UInt8) : Option (IpAddr × List UInt8) :=
  match readIpv4Addr s with
  | some (a, s') => some (.v4 a, s')
  | none =>
    match readIpv6Addr s with
    | some (gs, s') => some (.v6 gs, s')
    | none => none

/-- `IpAddr::from_str` = `Parser::new(b).parse_with(|p| p.read_ip_addr(), _)`: the whole input
    must be consumed. -/
def parseIpAddr (s : List UInt8) : Option IpAddr :=
  match readIpAddr s with
  | some (a, []) => some a
  | _ => none

/-! ## std::net: ip_addr.rs `Display` -/

def decDigit (d : Nat) : UInt8 := UInt8.ofNat (48 + d)

/-- `Display for u8` (`n < 256`). -/
def showOctet (n : Nat) : List UInt8 :=
  if n < 10 then [decDigit n]
  else if n < 100 then [decDigit (n / 10), decDigit (n % 10)]
  else [decDigit (n / 100), decDigit (n / 10 % 10), decDigit (n % 10)]

/-- `Display for Ipv4Addr`: `"{}.{}.{}.{}"` of the octets. -/
def showIpv4 (a : Nat) : List UInt8 :=
  showOctet (a / 16777216 % 256) ++ [46] ++ showOctet (a / 65536 % 256) ++ [46]
    ++ showOctet (a / 256 % 256) ++ [46] ++ showOctet (a % 256)

def hexDigit (d : Nat) : UInt8 := if d < 10 then UInt8.ofNat (48 + d) else UInt8.ofNat (87 + d)

/-- `LowerHex for u16` (`{:x}`, `n < 65536`). -/
def showHex16 (n : Nat) : List UInt8 :=
  if n < 16 then [hexDigit n]
  else if n < 256 then [hexDigit (n / 16), hexDigit (n % 16)]
  else if n < 4096 then [hexDigit (n / 256), hexDigit (n / 16 % 16), hexDigit (n % 16)]
  else [hexDigit (n / 4096), hexDigit (n / 256 % 16), hexDigit (n / 16 % 16), hexDigit (n % 16)]

/-- `fmt_subslice`: colon-separated `{:x}` groups. -/
def fmtSubslice : List Nat → List UInt8
  | [] => []
  | [g] => showHex16 g
  | g :: gs => showHex16 g ++ [58] ++ fmtSubslice gs

/-- `Span { start, len }`. -/
structure Span where
  start : Nat
  len : Nat
deriving DecidableEq, Repr, Inhabited

/-- the "find the inner 0 span" loop: first longest run of zero groups. -/
def zeroSpan : List Nat → Nat → Span → Span → Span
  | [], _, longest, _ => longest
  | g :: gs, i, longest, current =>
    if g = 0 then
      let current' : Span := ⟨if current.len = 0 then i else current.start, current.len + 1⟩
      zeroSpan gs (i + 1) (if current'.len > longest.len then current' else longest) current'
    else zeroSpan gs (i + 1) longest ⟨0, 0⟩

/-- `Ipv6Addr::to_ipv4_mapped` (as the `u32` value). -/
def toIpv4Mapped : List Nat → Option Nat
  | [0, 0, 0, 0, 0, 65535, a, b] => some (a * 65536 + b)
  | _ => none

/-- `Display for Ipv6Addr` (no width/precision). -/
def showIpv6 (gs : List Nat) : List UInt8 :=
  match toIpv4Mapped gs with
  | some a => [58, 58, 102, 102, 102, 102, 58] ++ showIpv4 a
  | none =>
    let z := zeroSpan gs 0 ⟨0, 0⟩ ⟨0, 0⟩
    if z.len > 1 then fmtSubslice (gs.take z.start) ++ [58, 58] ++ fmtSubslice (gs.drop (z.start + z.len))
    else fmtSubslice gs

/-- `Display for IpAddr`. -/
def showIpAddr : IpAddr → List UInt8
  | .v4 a => showIpv4 a
  | .v6 gs => showIpv6 gs

end Ip

/-! ## UTF-8 bookkeeping of `&str` slicing -/

/-- `char::len_utf8`. -/
def utf8Len (c : Char) : Nat :=
  if c.toNat < 0x80 then 1 else if c.toNat < 0x800 then 2 else if c.toNat < 0x10000 then 3 else 4

/-- UTF-8 encoding of a char (`str::as_bytes`). -/
def utf8EncodeChar (c : Char) : List UInt8 :=
  let n := c.toNat
  if n < 0x80 then [UInt8.ofNat n]
  else if n < 0x800 then [UInt8.ofNat (0xC0 + n / 64), UInt8.ofNat (0x80 + n % 64)]
  else if n < 0x10000 then
    [UInt8.ofNat (0xE0 + n / 4096), UInt8.ofNat (0x80 + n / 64 % 64), UInt8.ofNat (0x80 + n % 64)]
  else
    [UInt8.ofNat (0xF0 + n / 262144), UInt8.ofNat (0x80 + n / 4096 % 64),
     UInt8.ofNat (0x80 + n / 64 % 64), UInt8.ofNat (0x80 + n % 64)]

def utf8Encode (s : List Char) : List UInt8 := s.flatMap utf8EncodeChar

/-- `&s[n..]`: `none` = panic (offset past the end or inside a char). -/
def dropBytes : List Char → Nat → Option (List Char)
  | cs, 0 => some cs
  | [], _ + 1 => none
  | c :: cs, n + 1 => if utf8Len c ≤ n + 1 then dropBytes cs (n + 1 - utf8Len c) else none

/-- `&s[..n]`: `none` = panic. -/
def takeBytes : List Char → Nat → Option (List Char)
  | _, 0 => some []
  | [], _ + 1 => none
  | c :: cs, n + 1 =>
    if utf8Len c ≤ n + 1 then (takeBytes cs (n + 1 - utf8Len c)).map (c :: ·) else none

/-- `&line[a..b]`: `none` = panic (`a > b`, `b > len`, or not on char boundaries). -/
def strSlice (line : List Char) (a b : Nat) : Option (List Char) :=
  if a ≤ b then
    match dropBytes line a with
    | some r => takeBytes r (b - a)
    | none => none
  else none

/-! ## hosts/deserialise.rs -/

namespace HostsM

/-- `hosts::deserialise::Error`, plus `panic` for the slice sites of `parse_line` (not a Rust
    variant: the model's explicit panic result). -/
inductive HErr where
  | expectedAscii (octet : Char)
  | couldNotParseAddress (address : List Char)
  | couldNotParseName (name : List Char)
  | panic
deriving DecidableEq, Repr, Inhabited

/-- `State`. -/
inductive PState where
  | skipToAddress
  | readingAddress (start : Nat)
  | skipToName
  | readingName (start : Nat)
  | commentToEndOfLine
deriving DecidableEq, Repr, Inhabited

/-- `char::is_ascii`. -/
def isAscii (c : Char) : Bool := c.toNat < 128

/-- `char::is_whitespace` on an ASCII char: `' ' | '\x09'..='\x0d'`. -/
def isWs (c : Char) : Bool := c.toNat == 32 || (9 ≤ c.toNat && c.toNat ≤ 13)

def isHash (c : Char) : Bool := c.toNat == 35
def isPercent (c : Char) : Bool := c.toNat == 37

/-- `HashSet::insert` on the list of names read so far. -/
def nameSetInsert (names : List Name) (n : Name) : List Name :=
  if names.contains n then names else names ++ [n]

/-- `DomainName::from_relative_dotted_string(&DomainName::root_domain(), name_str)` followed by the
    `Some => insert / None => return Err(CouldNotParseName)` match. -/
def addName (names : List Name) (nameStr : List Char) : Except HErr (List Name) :=
  match Name.fromRelativeDotted Name.root (utf8Encode nameStr) with
  | some n => .ok (nameSetInsert names n)
  | none => .error (.couldNotParseName nameStr)

/-- what the `for` loop hands to the code after it: the state, `address`, `new_names`. -/
structure LoopOut where
  state : PState
  address : IpAddr
  names : List Name
deriving Repr

/-- the `for (i, octet) in line.char_indices()` loop of `parse_line`; `rest` = chars not yet
    visited, `i` = byte offset of the head of `rest`. -/
def lineLoop (line : List Char) : List Char → Nat → PState → IpAddr → List Name → Except HErr LoopOut
  | [], _, st, addr, names => .ok ⟨st, addr, names⟩
  | c :: cs, i, st, addr, names =>
    if !isAscii c then .error (.expectedAscii c)
    else if isHash c then
      match st with
      | .readingName start =>
        -- a comment can start directly after a name: the name still counts
        match strSlice line start i with
        | none => .error .panic
        | some nameStr =>
          match addName names nameStr with
          | .error e => .error e
          | .ok names' => lineLoop line cs (i + utf8Len c) .commentToEndOfLine addr names'
      | _ => lineLoop line cs (i + utf8Len c) .commentToEndOfLine addr names
    else
      match st with
      | .commentToEndOfLine => .ok ⟨st, addr, names⟩                       -- break
      | .skipToAddress =>
        if isWs c then lineLoop line cs (i + utf8Len c) st addr names
        else lineLoop line cs (i + utf8Len c) (.readingAddress i) addr names
      | .readingAddress start =>
        if isPercent c then .ok ⟨st, addr, names⟩                          -- break
        else if isWs c then
          match strSlice line start i with
          | none => .error .panic
          | some addrStr =>
            match Ip.parseIpAddr (utf8Encode addrStr) with
            | some a => lineLoop line cs (i + utf8Len c) .skipToName a names
            | none => .error (.couldNotParseAddress addrStr)
        else lineLoop line cs (i + utf8Len c) st addr names
      | .skipToName =>
        if isWs c then lineLoop line cs (i + utf8Len c) st addr names
        else lineLoop line cs (i + utf8Len c) (.readingName i) addr names
      | .readingName start =>
        if isWs c then
          match strSlice line start i with
          | none => .error .panic
          | some nameStr =>
            match addName names nameStr with
            | .error e => .error e
            | .ok names' => lineLoop line cs (i + utf8Len c) .skipToName addr names'
        else lineLoop line cs (i + utf8Len c) st addr names

/-- `Ipv4Addr::LOCALHOST`, the initial value of `address`. -/
def LOCALHOST : IpAddr := .v4 2130706433

/-- the code of `parse_line` after the loop: the pending name (`&line[start..]`), then
    `if new_names.is_empty() { Ok(None) } else { Ok(Some((address, new_names))) }`. -/
def finishLine (line : List Char) (out : LoopOut) : Except HErr (Option (IpAddr × List Name)) :=
  let names? : Except HErr (List Name) :=
    match out.state with
    | .readingName start =>
      match dropBytes line start with          -- `&line[start..]`
      | none => .error .panic
      | some nameStr => addName out.names nameStr
    | _ => .ok out.names
  match names? with
  | .error e => .error e
  | .ok names => if names.isEmpty then .ok none else .ok (some (out.address, names))

/-- `parse_line`. -/
def parseLine (line : List Char) : Except HErr (Option (IpAddr × List Name)) :=
  match lineLoop line line 0 .skipToAddress LOCALHOST [] with
  | .error e => .error e
  | .ok out => finishLine line out

end HostsM

/-! ## `str::lines` -/

/-- `str::split_inclusive('\n')`. -/
def splitInclusiveNl : List Char → List (List Char)
  | [] => []
  | c :: cs =>
    if c.toNat = 10 then [c] :: splitInclusiveNl cs
    else
      match splitInclusiveNl cs with
      | [] => [[c]]
      | p :: ps => (c :: p) :: ps

/-- `LinesMap`: strip one trailing `'\n'`, then one `'\r'` directly before it. -/
def linesMap (piece : List Char) : List Char :=
  match piece.getLast? with
  | some c =>
    if c.toNat = 10 then
      let p := piece.dropLast
      match p.getLast? with
      | some d => if d.toNat = 13 then p.dropLast else p
      | none => p
    else piece
  | none => piece

/-- `str::lines`. -/
def strLines (s : List Char) : List (List Char) := (splitInclusiveNl s).map linesMap

/-! ## hosts/types.rs -/

/-- `HashMap<DomainName, V>` as an association list. -/
abbrev AddrMap (α : Type) := List (Name × α)

namespace AddrMap

def get {α : Type} (m : AddrMap α) (k : Name) : Option α :=
  match m with
  | [] => none
  | (k', v) :: rest => if k' = k then some v else get rest k

/-- `HashMap::insert`: overwrite, else add. -/
def insert {α : Type} (m : AddrMap α) (k : Name) (v : α) : AddrMap α :=
  match m with
  | [] => [(k, v)]
  | (k', v') :: rest => if k' = k then (k', v) :: rest else (k', v') :: insert rest k v

end AddrMap

/-- `Hosts { v4, v6 }`: addresses are the `u32` value / the 8 groups. -/
structure Hosts where
  v4 : AddrMap Nat
  v6 : AddrMap (List Nat)
deriving DecidableEq, Repr, Inhabited

namespace Hosts

open HostsM

/-- `Hosts::new`. -/
def new : Hosts := ⟨[], []⟩

/-- the `for name in new_names { match address … insert }` loop of `deserialise`. -/
def insertAll (h : Hosts) (address : IpAddr) : List Name → Hosts
  | [] => h
  | n :: ns =>
    match address with
    | .v4 ip => insertAll { h with v4 := h.v4.insert n ip } address ns
    | .v6 ip => insertAll { h with v6 := h.v6.insert n ip } address ns

/-- the `for line in data.lines()` loop of `deserialise`. -/
def deserialiseLines (h : Hosts) : List (List Char) → Except HErr Hosts
  | [] => .ok h
  | line :: rest =>
    match parseLine line with
    | .error e => .error e
    | .ok none => deserialiseLines h rest
    | .ok (some (address, names)) => deserialiseLines (h.insertAll address names) rest

/-- `Hosts::deserialise`. -/
def deserialise (data : List Char) : Except HErr Hosts := deserialiseLines new (strLines data)

/-- `Hosts::merge`: entries of `other` overwrite. -/
def merge (h other : Hosts) : Hosts :=
  { v4 := other.v4.foldl (fun m kv => m.insert kv.1 kv.2) h.v4,
    v6 := other.v6.foldl (fun m kv => m.insert kv.1 kv.2) h.v6 }

/-- chars of `DomainName::to_dotted_string` (`octet as char`): the label loop. -/
def dottedLabelsChars : List Label → Bool → List Char
  | [], _ => []
  | l :: ls, first =>
    (if first then [] else [Char.ofNat 46]) ++ l.map (fun b => Char.ofNat b.toNat)
      ++ dottedLabelsChars ls false

/-- `domain_str` of `serialise`: `"."` for the root, else `to_dotted_string()` minus its last char.
    `none` = the `labels[0]` index of `is_root` panicked. -/
def domainStr (n : Name) : Option (List Char) :=
  match n.isRoot? with
  | none => none
  | some true => some [Char.ofNat 46]
  | some false => some (dottedLabelsChars n.labels true).dropLast

def insertNodup (ns : List Name) (n : Name) : List Name := if ns.contains n then ns else ns ++ [n]

/-- `sorted_domains`: keys of both maps, as a set, sorted by the derived `Ord`. -/
def sortedDomains (h : Hosts) : List Name :=
  let set := (h.v6.map (·.1)).foldl insertNodup ((h.v4.map (·.1)).foldl insertNodup [])
  set.mergeSort (fun a b => Name.cmp a b != .gt)

def asciiChars (bs : List UInt8) : List Char := bs.map (fun b => Char.ofNat b.toNat)

/-- the body of the `for domain in sorted_domains` loop. -/
def serialiseDomain (h : Hosts) (n : Name) : Option (List Char) :=
  match domainStr n with
  | none => none
  | some ds =>
    let l4 := match h.v4.get n with
      | some a => asciiChars (Ip.showIpv4 a) ++ [Char.ofNat 32] ++ ds ++ [Char.ofNat 10]
      | none => []
    let l6 := match h.v6.get n with
      | some g => asciiChars (Ip.showIpv6 g) ++ [Char.ofNat 32] ++ ds ++ [Char.ofNat 10]
      | none => []
    some (l4 ++ l6 ++ [Char.ofNat 10])

def serialiseLoop (h : Hosts) : List Name → Option (List Char)
  | [] => some []
  | n :: ns =>
    match serialiseDomain h n, serialiseLoop h ns with
    | some a, some b => some (a ++ b)
    | _, _ => none

/-- `Hosts::serialise`; `none` = panic (`is_root` on a name without labels). -/
def serialise (h : Hosts) : Option (List Char) := serialiseLoop h (sortedDomains h)

/-- `impl From<Hosts> for Zone`; `none` = a panic inside `Zone::insert`. -/
def toZone (h : Hosts) : Option Zone :=
  let z4 := h.v4.foldl (fun acc kv =>
    match acc with
    | none => none
    | some z => z.insert kv.1 RT_A [.a kv.2] HOSTS_TTL false) (some Zone.default)
  h.v6.foldl (fun acc kv =>
    match acc with
    | none => none
    | some z => z.insert kv.1 RT_AAAA [.aaaa kv.2] HOSTS_TTL false) z4

/-- `TryFromZoneError`. -/
inductive TryFromZoneError where
  | hasWildcardRecords
  | hasRecordTypesOtherThanA
deriving DecidableEq, Repr, Inhabited

/-- the two nested loops shared by `try_from` and `from_zone_lossy` over `zone.all_records()`;
    `strict` = return `Err(HasRecordTypesOtherThanA)` on another type instead of skipping it. -/
def collectRecords (strict : Bool) : List (Name × ZoneRecord) → Hosts → Except TryFromZoneError Hosts
  | [], h => .ok h
  | (name, zr) :: rest, h =>
    let rr := zr.toRR name
    match rr.rtype, rr.fields with
    | 1, [.a address] => collectRecords strict rest { h with v4 := h.v4.insert rr.name address }
    | 28, [.aaaa address] => collectRecords strict rest { h with v6 := h.v6.insert rr.name address }
    | _, _ => if strict then .error .hasRecordTypesOtherThanA else collectRecords strict rest h

def flattenRecords (recs : List (Name × List ZoneRecord)) : List (Name × ZoneRecord) :=
  recs.flatMap (fun nz => nz.2.map (fun zr => (nz.1, zr)))

/-- `impl TryFrom<Zone> for Hosts`. -/
def tryFromZone (z : Zone) : Except TryFromZoneError Hosts :=
  if !z.allWildcardRecords.isEmpty then .error .hasWildcardRecords
  else collectRecords true (flattenRecords z.allRecords) new

/-- `Hosts::from_zone_lossy`. -/
def fromZoneLossy (z : Zone) : Hosts :=
  match collectRecords false (flattenRecords z.allRecords) new with
  | .ok h => h
  | .error _ => new        -- unreachable: the non-strict loop never fails

end Hosts

end Resolved
