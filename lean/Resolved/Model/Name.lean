/-
  Model of `dns_types::protocol::types::{Label, DomainName}` (crates/dns-types/src/protocol/types.rs).
  One Lean function per Rust function, same case structure.  Strings are their UTF-8 octets.
  Import-free apart from the generated constants, so that the driver links.
-/
import Resolved.Generated

namespace Resolved

open Gen

/-- A label: its octets (already lower-cased when it came out of `Label::try_from`). -/
abbrev Label := List UInt8

/-- `u8::to_ascii_lowercase`. -/
def lowerByte (b : UInt8) : UInt8 :=
  if 65 ≤ b.toNat ∧ b.toNat ≤ 90 then UInt8.ofNat (b.toNat + 32) else b

/-- `impl TryFrom<&[u8]> for Label`. -/
def Label.tryFrom (bs : List UInt8) : Option Label :=
  if bs.length > LABEL_MAX_LEN then none else some (bs.map lowerByte)

/-- `DomainName { labels, len }`. -/
structure Name where
  labels : List Label
  len : Nat
deriving DecidableEq, Repr, Inhabited

namespace Name

/-- `DomainName::root_domain`. -/
def root : Name := ⟨[[]], 1⟩

/-- `DomainName::is_root`: `self.len == 1 && self.labels[0].is_empty()`.
    The index `labels[0]` is a panic site when `labels` is empty; `isRoot?` returns `none` there. -/
def isRoot? (n : Name) : Option Bool :=
  if n.len == 1 then
    match n.labels with
    | [] => none
    | l :: _ => some l.isEmpty
  else some false

/-- Total version used where well-formedness (non-empty `labels`) is known; `[]` ↦ `false`. -/
def isRoot (n : Name) : Bool :=
  n.len == 1 && (match n.labels with | [] => false | l :: _ => l.isEmpty)

/-- The `for label in &labels` loop of `from_labels`: returns `none` on the early `return None`,
    otherwise the final `(blank_label, len)`. -/
def fromLabelsLoop : List Label → Bool → Nat → Option (Bool × Nat)
  | [], blank, len => some (blank, len)
  | l :: ls, blank, len =>
    if blank then none else fromLabelsLoop ls (blank || l.isEmpty) (len + l.length)

/-- `DomainName::from_labels`. -/
def fromLabels (labels : List Label) : Option Name :=
  if labels.isEmpty then none
  else
    match fromLabelsLoop labels false labels.length with
    | none => none
    | some (blank, len) =>
      if blank && decide (len ≤ DOMAINNAME_MAX_LEN) then some ⟨labels, len⟩ else none

/-- `str::split('.')` on the UTF-8 octets: always at least one chunk. -/
def splitDot : List UInt8 → List (List UInt8)
  | [] => [[]]
  | b :: bs =>
    if b = 46 then [] :: splitDot bs
    else
      match splitDot bs with
      | [] => [[b]]          -- unreachable: `splitDot` is never empty
      | c :: cs => (b :: c) :: cs

/-- The `for (i, label_chars) in chunks.iter().enumerate()` loop of `from_dotted_string`. -/
def dottedChunksToLabels : List (List UInt8) → Option (List Label)
  | [] => some []
  | [c] => (Label.tryFrom c).map (fun l => [l])
  | c :: cs =>
    if c.isEmpty then none
    else
      match Label.tryFrom c with
      | none => none
      | some l => (dottedChunksToLabels cs).map (fun ls => l :: ls)

/-- `DomainName::from_dotted_string` (argument: the UTF-8 octets of the `&str`). -/
def fromDotted (s : List UInt8) : Option Name :=
  if s = [46] then some root
  else
    match dottedChunksToLabels (splitDot s) with
    | none => none
    | some labels => fromLabels labels

/-- `octet as char` pushed onto a `String`: the UTF-8 encoding of U+0000..U+00FF. -/
def octetAsCharUtf8 (b : UInt8) : List UInt8 :=
  if b.toNat < 128 then [b]
  else [UInt8.ofNat (0xC0 + b.toNat / 64), UInt8.ofNat (0x80 + b.toNat % 64)]

/-- the label loop of `to_dotted_string`. -/
def dottedLabels : List Label → Bool → List UInt8
  | [], _ => []
  | l :: ls, first =>
    (if first then [] else [46]) ++ (l.flatMap octetAsCharUtf8) ++ dottedLabels ls false

/-- `DomainName::to_dotted_string` (UTF-8 octets of the result). -/
def toDotted (n : Name) : List UInt8 :=
  if n.isRoot then [46] else dottedLabels n.labels true

/-- `DomainName::from_relative_dotted_string`. -/
def fromRelativeDotted (origin : Name) (s : List UInt8) : Option Name :=
  if s.isEmpty then some origin
  else if s.getLast? = some 46 then fromDotted s
  else
    let suffix := origin.toDotted
    if suffix.head? = some 46 then fromDotted (s ++ suffix)
    else fromDotted (s ++ [46] ++ suffix)

/-- `DomainName::make_subdomain_of`. -/
def makeSubdomainOf (n origin : Name) : Option Name :=
  fromLabels (n.labels.dropLast ++ origin.labels)

/-- `DomainName::is_subdomain_of`: `self.labels.ends_with(&other.labels)`. -/
def isSubdomainOf (n other : Name) : Bool :=
  other.labels.isSuffixOf n.labels

/-- derived `Ord for Bytes` / `[u8]`: lexicographic. -/
def cmpBytes : List UInt8 → List UInt8 → Ordering
  | [], [] => .eq
  | [], _ :: _ => .lt
  | _ :: _, [] => .gt
  | a :: as, b :: bs =>
    if a.toNat < b.toNat then .lt else if a.toNat > b.toNat then .gt else cmpBytes as bs

/-- derived `Ord for Vec<Label>`. -/
def cmpLabels : List Label → List Label → Ordering
  | [], [] => .eq
  | [], _ :: _ => .lt
  | _ :: _, [] => .gt
  | a :: as, b :: bs =>
    match cmpBytes a b with
    | .eq => cmpLabels as bs
    | o => o

/-- derived `Ord for DomainName` (labels, then len). -/
def cmp (a b : Name) : Ordering :=
  match cmpLabels a.labels b.labels with
  | .eq => compare a.len b.len
  | o => o

end Name

end Resolved
