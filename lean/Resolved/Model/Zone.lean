/-
  Model of crates/dns-types/src/zones/types.rs: `ZoneRecords` (the label tree), `Zone`, `Zones`,
  `zone_result_helper`, `merge_zrs_helper`, `SOA`, `ZoneRecord`.
  Rust `HashMap`s are association lists in first-insertion order; wherever the Rust iteration order
  is observable (ANY answers, `all_records`) the harness canonicalises by sorting and theorems are
  stated up to permutation.  Rust panic sites are the explicit `panic` result.
-/
import Resolved.Model.Wire

namespace Resolved

open Gen

def RT_A : Nat := 1
def RT_NS : Nat := 2
def RT_CNAME : Nat := 5
def RT_SOA : Nat := 6
def RT_AAAA : Nat := 28
def CLASS_IN : Nat := 1

/-- `ZoneRecord { rtype_with_data, ttl }`. -/
structure ZoneRecord where
  rtype : Nat
  fields : List FieldVal
  ttl : Nat
deriving DecidableEq, Repr, Inhabited

/-- `ZoneRecord::to_rr`. -/
def ZoneRecord.toRR (zr : ZoneRecord) (name : Name) : RR :=
  { name, rtype := zr.rtype, fields := zr.fields, rclass := CLASS_IN, ttl := zr.ttl }

/-- `HashMap<RecordType, Vec<ZoneRecord>>`. -/
abbrev RecMap := List (Nat × List ZoneRecord)

def RecMap.get (m : RecMap) (k : Nat) : Option (List ZoneRecord) :=
  match m with
  | [] => none
  | (k', v) :: rest => if k' = k then some v else RecMap.get rest k

def RecMap.set (m : RecMap) (k : Nat) (v : List ZoneRecord) : RecMap :=
  match m with
  | [] => [(k, v)]
  | (k', v') :: rest => if k' = k then (k, v) :: rest else (k', v') :: RecMap.set rest k v

/-- the `if let Some(entries) … any(|e| e == &new) … push / insert(rtype, vec![new])` block shared by
    `insert` and `insert_wildcard`. -/
def RecMap.insertRecord (m : RecMap) (zr : ZoneRecord) : RecMap :=
  match m.get zr.rtype with
  | some entries => if entries.contains zr then m else m.set zr.rtype (entries ++ [zr])
  | none => m.set zr.rtype [zr]

/-- the inner `for new in other_zrs` loop of `merge_zrs_helper`. -/
def mergeEntries (mine : List ZoneRecord) : List ZoneRecord → List ZoneRecord
  | [] => mine
  | n :: rest => mergeEntries (if mine.contains n then mine else mine ++ [n]) rest

/-- `merge_zrs_helper`. -/
def mergeZrs (this : RecMap) : RecMap → RecMap
  | [] => this
  | (k, otherZrs) :: rest =>
    mergeZrs (match this.get k with
              | some mine => this.set k (mergeEntries mine otherZrs)
              | none => this.set k otherZrs) rest

/-- `ZoneRecords`: the tree of records of a zone. -/
inductive ZNode where
  | mk (nsdname : Name) (this : RecMap) (wildcards : Option RecMap) (children : List (Label × ZNode))
deriving Repr, Inhabited

namespace ZNode

def nsdname : ZNode → Name | mk n _ _ _ => n
def this : ZNode → RecMap | mk _ t _ _ => t
def wildcards : ZNode → Option RecMap | mk _ _ w _ => w
def children : ZNode → List (Label × ZNode) | mk _ _ _ c => c

/-- `ZoneRecords::new`. -/
def new (nsdname : Name) : ZNode := mk nsdname [] none []

def childGet (cs : List (Label × ZNode)) (l : Label) : Option ZNode :=
  match cs with
  | [] => none
  | (k, v) :: rest => if k = l then some v else childGet rest l

def childSet (cs : List (Label × ZNode)) (l : Label) (n : ZNode) : List (Label × ZNode) :=
  match cs with
  | [] => [(l, n)]
  | (k, v) :: rest => if k = l then (k, n) :: rest else (k, v) :: childSet rest l n

end ZNode

/-- `ZoneResult`, plus `panic` for the Rust panic sites reachable in this module
    (`from_labels(..).unwrap()`, the `panic!` in `zone_result_helper`). -/
inductive ZoneResult where
  | answer (rrs : List RR)
  | cname (cname : Name) (rr : RR)
  | delegation (nsRrs : List RR)
  | nameError
  | panic
deriving DecidableEq, Repr, Inhabited

/-- `zone_result_helper`.  `canDelegate` is false only for the zone's apex node: the apex's own NS
    records describe the zone itself and never delegate it away. -/
def zoneResultHelper (name : Name) (qtype : Nat) (records : RecMap) (nsdname : Name)
    (canDelegate : Bool) : ZoneResult :=
  let deleg : Option ZoneResult :=
    if canDelegate && qtype != RT_NS then
      match records.get RT_NS with
      | some (z :: zs) => some (.delegation ((z :: zs).map (·.toRR nsdname)))
      | _ => none
    else none
  match deleg with
  | some r => r
  | none =>
    let cn : Option ZoneResult :=
      if !rtypeMatches RT_CNAME qtype then
        match records.get RT_CNAME with
        | some (z :: _) =>
          match z.fields with
          | [.name cname] => some (.cname cname (z.toRR name))
          | _ => some .panic
        | _ => none
      else none
    match cn with
    | some r => r
    | none =>
      match lookupNat queryTypeFromU16 qtype with
      | some "Wildcard" => .answer (records.flatMap (fun kv => kv.2.map (·.toRR name)))
      | some _ => .answer []
      | none =>
        match records.get qtype with
        | some zrs => .answer (zrs.map (·.toRR name))
        | none => .answer []

/-- `ZoneRecords::resolve`; `isApex` is true for the root node of the tree only. -/
def ZNode.resolve (node : ZNode) (name : Name) (qtype : Nat) (rel : List Label) (isApex : Bool) :
    ZoneResult :=
  match h : rel.getLast? with
  | none => zoneResultHelper name qtype node.this node.nsdname (!isApex)
  | some lbl =>
    match ZNode.childGet node.children lbl with
    | some child => child.resolve name qtype rel.dropLast false
    | none =>
      match node.wildcards with
      | some ws =>
        match Name.fromLabels (lbl :: node.nsdname.labels) with
        | some nsd => zoneResultHelper name qtype ws nsd true
        | none => .panic
      | none =>
        if isApex then .nameError
        else
          match node.this.get RT_NS with
          | some (z :: zs) => .delegation ((z :: zs).map (·.toRR node.nsdname))
          | _ => .nameError
termination_by rel.length
decreasing_by
  simp only [List.length_dropLast]
  cases rel with
  | nil => simp at h
  | cons _ _ => simp

/-- `ZoneRecords::insert` / `insert_wildcard` (`wild` selects which). `none` = the
    `from_labels(..).unwrap()` panicked. -/
def ZNode.insert (node : ZNode) (rel : List Label) (zr : ZoneRecord) (wild : Bool) : Option ZNode :=
  match h : rel.getLast? with
  | none =>
    if wild then
      match node.wildcards with
      | some ws => some (.mk node.nsdname node.this (some (ws.insertRecord zr)) node.children)
      | none => some (.mk node.nsdname node.this (some [(zr.rtype, [zr])]) node.children)
    else some (.mk node.nsdname (node.this.insertRecord zr) node.wildcards node.children)
  | some lbl =>
    match ZNode.childGet node.children lbl with
    | some child =>
      match child.insert rel.dropLast zr wild with
      | some child' =>
        some (.mk node.nsdname node.this node.wildcards (ZNode.childSet node.children lbl child'))
      | none => none
    | none =>
      match Name.fromLabels (lbl :: node.nsdname.labels) with
      | none => none
      | some nsd =>
        match (ZNode.new nsd).insert rel.dropLast zr wild with
        | some child' =>
          some (.mk node.nsdname node.this node.wildcards (ZNode.childSet node.children lbl child'))
        | none => none
termination_by rel.length
decreasing_by
  all_goals
    simp only [List.length_dropLast]
    cases rel with
    | nil => simp at h
    | cons _ _ => simp

mutual
/-- `ZoneRecords::merge`. -/
def ZNode.merge : ZNode → ZNode → ZNode
  | .mk nsd this wild ch, .mk _ othis owild och =>
    .mk nsd (mergeZrs this othis)
      (match owild with
       | some ow =>
         match wild with
         | some mw => some (mergeZrs mw ow)
         | none => some ow
       | none => wild)
      (mergeChildren ch och)
/-- the `for (k, other_zrs) in other.children` loop. -/
def mergeChildren : List (Label × ZNode) → List (Label × ZNode) → List (Label × ZNode)
  | ch, [] => ch
  | ch, (k, o) :: rest =>
    mergeChildren
      (match ZNode.childGet ch k with
       | some mine => ZNode.childSet ch k (ZNode.merge mine o)
       | none => ZNode.childSet ch k o) rest
end

mutual
/-- `ZoneRecords::all_records` as a list of (owner, records) (a `HashMap` in Rust). -/
def ZNode.allRecords : ZNode → List (Name × List ZoneRecord)
  | .mk nsd this _ ch =>
    let zrs := this.flatMap (·.2)
    (if zrs.isEmpty then [] else [(nsd, zrs)]) ++ allRecordsChildren ch
def allRecordsChildren : List (Label × ZNode) → List (Name × List ZoneRecord)
  | [] => []
  | (_, c) :: rest => ZNode.allRecords c ++ allRecordsChildren rest
end

mutual
/-- `ZoneRecords::all_wildcard_records`. -/
def ZNode.allWildcardRecords : ZNode → List (Name × List ZoneRecord)
  | .mk nsd _ wild ch =>
    (match wild with
     | some ws =>
       let zrs := ws.flatMap (·.2)
       if zrs.isEmpty then [] else [(nsd, zrs)]
     | none => []) ++ allWildcardChildren ch
def allWildcardChildren : List (Label × ZNode) → List (Name × List ZoneRecord)
  | [] => []
  | (_, c) :: rest => ZNode.allWildcardRecords c ++ allWildcardChildren rest
end

/-- `SOA`. -/
structure SOA where
  mname : Name
  rname : Name
  serial : Nat
  refresh : Nat
  retry : Nat
  expire : Nat
  minimum : Nat
deriving DecidableEq, Repr, Inhabited

/-- `SOA::to_rdata`. -/
def SOA.toFields (s : SOA) : List FieldVal :=
  [.name s.mname, .name s.rname, .u32 s.serial, .u32 s.refresh, .u32 s.retry, .u32 s.expire, .u32 s.minimum]

/-- `SOA::to_rr`. -/
def SOA.toRR (s : SOA) (name : Name) : RR :=
  { name, rtype := RT_SOA, fields := s.toFields, rclass := CLASS_IN, ttl := s.minimum }

/-- `Zone`. -/
structure Zone where
  apex : Name
  soa : Option SOA
  records : ZNode
deriving Repr, Inhabited

namespace Zone

/-- `Zone::new`. -/
def new (apex : Name) (soa : Option SOA) : Zone :=
  let records := ZNode.new apex
  match soa with
  | some s =>
    match records.insert [] ⟨RT_SOA, s.toFields, s.minimum⟩ false with
    | some r => { apex, soa, records := r }
    | none => { apex, soa, records }      -- unreachable: inserting at `[]` never builds a name
  | none => { apex, soa, records }

/-- `Zone::default`. -/
def default : Zone := new Name.root none

def isAuthoritative (z : Zone) : Bool := z.soa.isSome

/-- `Zone::soa_rr`. -/
def soaRR (z : Zone) : Option RR := z.soa.map (·.toRR z.apex)

/-- `Zone::relative_domain`. -/
def relativeDomain (z : Zone) (name : Name) : Option (List Label) :=
  if name.isSubdomainOf z.apex then
    some (name.labels.take (name.labels.length - z.apex.labels.length))
  else none

/-- `Zone::actual_ttl`. -/
def actualTtl (z : Zone) (ttl : Nat) : Nat :=
  match z.soa with
  | some s => max s.minimum ttl
  | none => ttl

/-- `Zone::resolve`. -/
def resolve (z : Zone) (name : Name) (qtype : Nat) : Option ZoneResult :=
  (z.relativeDomain name).map (fun rel => z.records.resolve name qtype rel true)

/-- `Zone::insert` / `Zone::insert_wildcard`.  `none` = a panic inside `ZoneRecords::insert`. -/
def insert (z : Zone) (name : Name) (rtype : Nat) (fields : List FieldVal) (ttl : Nat) (wild : Bool) :
    Option Zone :=
  match z.relativeDomain name with
  | some rel =>
    match z.records.insert rel ⟨rtype, fields, z.actualTtl ttl⟩ wild with
    | some r => some { z with records := r }
    | none => none
  | none => some z

/-- drop the SOA record set of the apex node (used when the merged-in zone brings its own SOA). -/
def dropApexSoa : ZNode → ZNode
  | .mk nsd this wild ch => .mk nsd (this.filter (fun kv => kv.1 != RT_SOA)) wild ch

/-- `Zone::merge`; `none` = `Err((self.apex, other.apex))`. -/
def merge (z other : Zone) : Option Zone :=
  if z.apex ≠ other.apex then none
  else if other.soa.isSome then
    some { apex := z.apex, soa := other.soa, records := (dropApexSoa z.records).merge other.records }
  else
    some { apex := z.apex, soa := z.soa, records := z.records.merge other.records }

def allRecords (z : Zone) : List (Name × List ZoneRecord) := z.records.allRecords
def allWildcardRecords (z : Zone) : List (Name × List ZoneRecord) := z.records.allWildcardRecords

end Zone

/-- `Zones`: `HashMap<DomainName, Zone>`. -/
structure Zones where
  zones : List (Name × Zone)
deriving Repr, Inhabited

namespace Zones

def empty : Zones := ⟨[]⟩

def lookup (zs : List (Name × Zone)) (n : Name) : Option Zone :=
  match zs with
  | [] => none
  | (k, v) :: rest => if k = n then some v else lookup rest n

def setZone (zs : List (Name × Zone)) (n : Name) (z : Zone) : List (Name × Zone) :=
  match zs with
  | [] => [(n, z)]
  | (k, v) :: rest => if k = n then (k, z) :: rest else (k, v) :: setZone rest n z

/-- the `for i in 0..name.labels.len()` loop of `Zones::get` over the suffixes of `labels`. -/
def getLoop (zs : Zones) : List Label → Option Zone
  | [] => none
  | l :: ls =>
    match (Name.fromLabels (l :: ls)).bind (lookup zs.zones) with
    | some z => some z
    | none => getLoop zs ls

/-- `Zones::get`. -/
def get (zs : Zones) (name : Name) : Option Zone := getLoop zs name.labels

/-- `Zones::resolve`; the inner `unwrap()` is a panic site (`some none`). -/
def resolve (zs : Zones) (name : Name) (qtype : Nat) : Option (Zone × Option ZoneResult) :=
  (zs.get name).map (fun z => (z, z.resolve name qtype))

/-- `Zones::insert`. -/
def insert (zs : Zones) (z : Zone) : Zones := ⟨setZone zs.zones z.apex z⟩

/-- `Zones::insert_merge`; `none` = the `unwrap()` on `merge` panicked. -/
def insertMerge (zs : Zones) (other : Zone) : Option Zones :=
  match lookup zs.zones other.apex with
  | some mine =>
    match mine.merge other with
    | some m => some ⟨setZone zs.zones other.apex m⟩
    | none => none
  | none => some (zs.insert other)

end Zones

end Resolved
