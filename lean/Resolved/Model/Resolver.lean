/-
  Model of the resolvers:
    crates/dns-resolver/src/local.rs      resolve_local, LocalResolutionResult, From<…> for ResolvedRecord
    crates/dns-resolver/src/context.rs    Context (question stack, recursion limit)
    crates/dns-resolver/src/util/types.rs ResolvedRecord, ResolutionError, Nameservers, prioritising_merge
    crates/dns-resolver/src/util/nameserver.rs query_nameserver (UDP then TCP, 5 s each, matching)
    crates/dns-resolver/src/recursive.rs  resolve_recursive(_notimeout), resolve_with_nameserver_response,
                                          resolve_combined_recursive, resolve_hostname_to_ip,
                                          candidate_nameservers
    crates/dns-resolver/src/forwarding.rs resolve_forwarding(_notimeout)
    crates/dns-resolver/src/lib.rs        resolve
  Upstream is an ORACLE (any function from an exchange to what the network does); time is virtual
  milliseconds.  The async recursion is structural recursion on an explicit nesting-depth fuel;
  `Props/C08` proves that the fuel given by `resolve` suffices under explicit size bounds on what
  upstream, zones and cache hold (`C08_resolve_fuel_suffices`), that the fuel is unobservable once
  it suffices (`C08_fuel_monotone`), and that no fixed fuel suffices without such bounds.
-/
import Resolved.Model.Upstream
import Resolved.Model.Cache

namespace Resolved

open Gen

/-- `ResolvedRecord`. -/
inductive ResolvedRecord where
  | authoritative (rrs : List RR) (soaRR : RR)
  | authoritativeNameError (soaRR : RR)
  | nonAuthoritative (rrs : List RR) (soaRR : Option RR)
deriving DecidableEq, Repr, Inhabited

def ResolvedRecord.rrs : ResolvedRecord → List RR
  | .authoritative rrs _ => rrs
  | .authoritativeNameError _ => []
  | .nonAuthoritative rrs _ => rrs

def ResolvedRecord.soaRR : ResolvedRecord → Option RR
  | .authoritative _ s => some s
  | .authoritativeNameError s => some s
  | .nonAuthoritative _ s => s

/-- `ResolutionError` (payloads that the properties do not speak about are dropped). -/
inductive ResolutionError where
  | timeout
  | recursionLimit
  | duplicateQuestion (q : Question)
  | deadEnd (q : Question)
  | localDelegationMissingNS
  | cacheTypeMismatch
  | outOfFuel                      -- model only: unreachable under the size bounds of C08_resolve_fuel_suffices
deriving DecidableEq, Repr, Inhabited

/-- `Nameservers`. -/
structure Nameservers where
  hostnames : List Name
  name : Name
deriving DecidableEq, Repr, Inhabited

def Nameservers.matchCount (n : Nameservers) : Nat := n.name.labels.length

/-- `LocalResolutionResult`. -/
inductive LocalResult where
  | done (resolved : ResolvedRecord)
  | partialAnswer (rrs : List RR)
  | delegation (rrs : List RR) (soaRR : Option RR) (delegation : Nameservers)
  | cname (rrs : List RR) (cnameQuestion : Question)
deriving DecidableEq, Repr, Inhabited

/-- `impl From<LocalResolutionResult> for ResolvedRecord`. -/
def LocalResult.toResolved : LocalResult → ResolvedRecord
  | .done r => r
  | .partialAnswer rrs => .nonAuthoritative rrs none
  | .delegation rrs (some soa) _ => .authoritative rrs soa
  | .delegation rrs none _ => .nonAuthoritative rrs none
  | .cname rrs _ => .nonAuthoritative rrs none

/-- `prioritising_merge`. -/
def prioritisingMerge (priority new : List RR) : List RR :=
  priority ++ new.filter (fun rr => !(priority.any (fun p => p.name == rr.name && p.rtype == rr.rtype)))

/-- The part of `Context` the resolvers read and write. -/
structure Ctx where
  zones : Zones
  cache : PCache
  now : Nat                       -- cache clock (ns); constant during one resolution in the streams
  stack : List Question
deriving Inhabited

def Ctx.atRecursionLimit (c : Ctx) : Bool := c.stack.length == RECURSION_LIMIT
def Ctx.isDuplicate (c : Ctx) (q : Question) : Bool := c.stack.contains q
def Ctx.push (c : Ctx) (q : Question) : Ctx := { c with stack := c.stack ++ [q] }
def Ctx.pop (c : Ctx) : Ctx := { c with stack := c.stack.dropLast }

def Ctx.cacheGet (c : Ctx) (name : Name) (qtype : Nat) : Ctx × List RR :=
  let (cache', rrs) := Resolved.cacheGet c.cache name qtype c.now
  ({ c with cache := cache' }, rrs)

def Ctx.cacheInsertAll (c : Ctx) (rrs : List RR) : Ctx :=
  { c with cache := sharedInsertAll c.cache rrs c.now }

def CNAME_QTYPE : Nat := RT_CNAME

/-- `resolve_local`.  Fuel: one unit per (recursive) call; the question stack bounds the depth at
    `RECURSION_LIMIT`, so `RECURSION_LIMIT + 1` units always suffice. -/
def resolveLocal : Nat → Ctx → Question → Ctx × Except ResolutionError LocalResult
  | 0, ctx, _ => (ctx, .error .outOfFuel)
  | fuel + 1, ctx, question =>
    if ctx.atRecursionLimit then (ctx, .error .recursionLimit)
    else if ctx.isDuplicate question then (ctx, .error (.duplicateQuestion question))
    else
      -- the zone part; `none` = fall through to the cache with these rrs_from_zone
      let zonePart : Ctx × (Except ResolutionError LocalResult ⊕ List RR) :=
        match ctx.zones.resolve question.name question.qtype with
        | none => (ctx, .inr [])
        | some (_, none) => (ctx, .inr [])        -- `unwrap()` panic site: unreachable (Zones.get ⇒ subdomain)
        | some (zone, some zr) =>
          match zr with
          | .answer rrs =>
            match zone.soaRR with
            | some soaRR => (ctx, .inl (.ok (.done (.authoritative rrs soaRR))))
            | none =>
              if question.qtype != QTYPE_WILDCARD && !rrs.isEmpty then
                (ctx, .inl (.ok (.done (.nonAuthoritative rrs none))))
              else (ctx, .inr rrs)
          | .cname cname rr =>
            let cnameQuestion : Question := { name := cname, qtype := question.qtype, qclass := question.qclass }
            let (ctx1, sub) := resolveLocal fuel (ctx.push question) cnameQuestion
            let answer : LocalResult :=
              match sub with
              | .ok (.done (.authoritative cnameRrs soaRR)) => .done (.authoritative ([rr] ++ cnameRrs) soaRR)
              | .ok (.done (.authoritativeNameError soaRR)) => .done (.authoritative [rr] soaRR)
              | .ok (.done (.nonAuthoritative cnameRrs soaRR)) => .done (.nonAuthoritative ([rr] ++ cnameRrs) soaRR)
              | .ok (.partialAnswer cnameRrs) => .partialAnswer ([rr] ++ cnameRrs)
              | .ok (.cname cnameRrs cq) => .cname ([rr] ++ cnameRrs) cq
              | _ => .cname [rr] cnameQuestion
            (ctx1.pop, .inl (.ok answer))
          | .delegation nsRrs =>
            match zone.soaRR with
            | some soaRR =>
              match nsRrs with
              | [] => (ctx, .inl (.error .localDelegationMissingNS))
              | first :: _ =>
                (ctx, .inl (.ok (.delegation nsRrs (some soaRR)
                  { hostnames := nsRrs.filterMap nsTarget, name := first.name })))
            | none => (ctx, .inr [])
          | .nameError =>
            match zone.soaRR with
            | some soaRR => (ctx, .inl (.ok (.done (.authoritativeNameError soaRR))))
            | none => (ctx, .inr [])
          | .panic => (ctx, .inr [])      -- modelled panic site; excluded by C08_no_panic
      match zonePart with
      | (ctx, .inl r) => (ctx, r)
      | (ctx, .inr rrsFromZone) =>
        let (ctx2, rrsFromCache0) := ctx.cacheGet question.name question.qtype
        -- the CNAME-from-cache part
        let cachePart : Ctx × Except ResolutionError (List RR × Option Name) :=
          if rrsFromCache0.isEmpty && question.qtype != CNAME_QTYPE then
            let (ctx3, cacheCnameRrs) := ctx2.cacheGet question.name CNAME_QTYPE
            match cacheCnameRrs with
            | [] => (ctx3, .ok ([], none))
            | cnameRR :: _ =>
              match cnameTarget cnameRR with
              | some cname =>
                let (ctx4, sub) := resolveLocal fuel (ctx3.push question)
                  { name := cname, qtype := question.qtype, qclass := question.qclass }
                let ctx5 := ctx4.pop
                match sub with
                | .ok (.done resolved) => (ctx5, .ok ([cnameRR] ++ resolved.rrs, none))
                | .ok (.partialAnswer rrs) => (ctx5, .ok ([cnameRR] ++ rrs, none))
                | .ok (.cname rrs cq) => (ctx5, .ok ([cnameRR] ++ rrs, some cq.name))
                | _ => (ctx5, .ok ([cnameRR], some cname))
              | none => (ctx3, .error .cacheTypeMismatch)
          else (ctx2, .ok (rrsFromCache0, none))
        match cachePart with
        | (ctx6, .error e) => (ctx6, .error e)
        | (ctx6, .ok (rrsFromCache, finalCname)) =>
          let rrs := prioritisingMerge rrsFromZone rrsFromCache
          if rrs.isEmpty then (ctx6, .error (.deadEnd question))
          else
            match finalCname with
            | some cname =>
              (ctx6, .ok (.cname rrs { name := cname, qtype := question.qtype, qclass := question.qclass }))
            | none =>
              if question.qtype == QTYPE_WILDCARD then (ctx6, .ok (.partialAnswer rrs))
              else (ctx6, .ok (.done (.nonAuthoritative rrs none)))

/-! ## Upstream exchanges -/

/-- `ProtocolMode`. -/
inductive ProtocolMode where
  | onlyV4 | preferV4 | preferV6 | onlyV6
deriving DecidableEq, Repr, Inhabited

/-- What the network does with one transport attempt: how long it takes (ms) and the reply, if
    any (a `Message` that already went through the wire decoder; `none` = silence, garbage, or an
    undecodable reply). -/
structure Attempt where
  delayMs : Nat
  reply : Option Message
deriving Repr, Inhabited

/-- The upstream world: for a server address, port, transport and question, what happens.
    The reply's ID is made relative to the request's by the `fixId` the resolver applies
    (`sameId = false` models a reply with a wrong ID). -/
structure Exchange where
  addr : FieldVal                 -- `.a v4` or `.aaaa groups`
  port : Nat
  tcp : Bool
  question : Question
  recursionDesired : Bool
deriving DecidableEq, Repr, Inhabited

abbrev Oracle := Exchange → Attempt

/-- Running state of one resolution: exchange log (for C18/C08/C07) and elapsed virtual time. -/
structure Run where
  log : List Exchange
  elapsedMs : Nat
  timedOut : Bool
deriving Repr, Inhabited

def Run.empty : Run := { log := [], elapsedMs := 0, timedOut := false }

def EXCHANGE_TIMEOUT_MS : Nat := EXCHANGE_TIMEOUT_SECS * 1000
def RESOLVE_TIMEOUT_MS : Nat := RESOLVE_TIMEOUT_SECS * 1000

/-- one transport attempt under its 5 s timeout, inside the 60 s budget. -/
def attempt (oracle : Oracle) (run : Run) (ex : Exchange) : Run × Option Message :=
  if run.timedOut then (run, none)
  else
    let a := oracle ex
    let cost := min a.delayMs EXCHANGE_TIMEOUT_MS
    let run1 := { run with log := run.log ++ [ex] }
    if run1.elapsedMs + cost ≥ RESOLVE_TIMEOUT_MS then
      ({ run1 with elapsedMs := RESOLVE_TIMEOUT_MS, timedOut := true }, none)
    else
      let run2 := { run1 with elapsedMs := run1.elapsedMs + cost }
      if a.delayMs ≥ EXCHANGE_TIMEOUT_MS then (run2, none) else (run2, a.reply)

/-- the request `query_nameserver` builds (ID abstracted to 0: replies are matched relatively). -/
def requestFor (question : Question) (rd : Bool) : Message :=
  { header := { id := 0, isResponse := false, opcode := 0, isAuthoritative := false, isTruncated := false,
                recursionDesired := rd, recursionAvailable := false, rcode := 0 }
    questions := [question], answers := [], authority := [], additional := [] }

/-- `query_nameserver`: UDP (requests ≤ 512 octets), then TCP; each reply must match the request. -/
def queryNameserver (oracle : Oracle) (run : Run) (addr : FieldVal) (port : Nat) (question : Question)
    (rd : Bool) : Run × Option Message :=
  let request := requestFor question rd
  let fits : Bool := match encodeMessage request with
    | .ok bs => bs.length ≤ UDP_MAX
    | .error _ => false
  let (run1, udp) :=
    if fits then attempt oracle run { addr, port, tcp := false, question, recursionDesired := rd }
    else (run, none)
  match udp.bind (fun r => if responseMatchesRequest request r then some r else none) with
  | some r => (run1, some r)
  | none =>
    let (run2, tcp) := attempt oracle run1 { addr, port, tcp := true, question, recursionDesired := rd }
    (run2, tcp.bind (fun r => if responseMatchesRequest request r then some r else none))

/-! ## Recursive resolution -/

structure RecCfg where
  mode : ProtocolMode
  port : Nat
  oracle : Oracle
  /-- order in which the hosts of a referral are tried (the Rust order comes out of a `HashSet`):
      any permutation-valued function. -/
  hostOrder : List Name → List Name

def rtypesFor : ProtocolMode → List Nat
  | .onlyV4 => [RT_A]
  | .preferV4 => [RT_A, RT_AAAA]
  | .preferV6 => [RT_AAAA, RT_A]
  | .onlyV6 => [RT_AAAA]

structure St where
  ctx : Ctx
  run : Run
deriving Inhabited

/-- `candidate_nameservers`. -/
def candidateNameservers (st : St) : List Label → St × Option Nameservers
  | [] => (st, none)
  | l :: ls =>
    match Name.fromLabels (l :: ls) with
    | none => candidateNameservers st ls
    | some name =>
      let nsQ : Question := { name, qtype := RT_NS, qclass := CLASS_IN }
      let (ctx1, r) := resolveLocal (RECURSION_LIMIT + 1) st.ctx nsQ
      let st1 := { st with ctx := ctx1 }
      let hostnames :=
        match r with
        | .ok (.done resolved) => resolved.rrs.filterMap nsTarget
        | _ => []
      if !hostnames.isEmpty then (st1, some { hostnames, name })
      else candidateNameservers st1 ls

mutual

/-- `resolve_recursive_notimeout`. -/
def resolveRec (cfg : RecCfg) : Nat → St → Question → St × Except ResolutionError ResolvedRecord
  | 0, st, _ => (st, .error .outOfFuel)
  | fuel + 1, st, question =>
    if st.run.timedOut then (st, .error .timeout)
    else if st.ctx.atRecursionLimit then (st, .error .recursionLimit)
    else if st.ctx.isDuplicate question then (st, .error (.duplicateQuestion question))
    else
      let (ctx1, loc) := resolveLocal (RECURSION_LIMIT + 1) st.ctx question
      let st1 := { st with ctx := ctx1 }
      match loc with
      | .ok (.done resolved) => (st1, .ok resolved)
      | .ok (.cname rrs cq) =>
        let (st2, r) := resolveCombined cfg fuel { st1 with ctx := st1.ctx.push question } rrs cq
        ({ st2 with ctx := st2.ctx.pop }, r)
      | other =>
        let combined : List RR := match other with | .ok (.partialAnswer rrs) => rrs | _ => []
        let cand0 : Option Nameservers := match other with | .ok (.delegation _ _ d) => some d | _ => none
        let st2 := { st1 with ctx := st1.ctx.push question }
        let (st3, cand) :=
          match cand0 with
          | some d => (st2, some d)
          | none => candidateNameservers st2 question.name.labels
        match cand with
        | none => ({ st3 with ctx := st3.ctx.pop }, .error (.deadEnd question))
        | some c =>
          let (st4, r) := candidateLoop cfg fuel st3 question combined c.matchCount c.hostnames [] true
          ({ st4 with ctx := st4.ctx.pop }, r)

/-- the `while let Some(candidate) = candidate_hostnames.pop()` loop. -/
def candidateLoop (cfg : RecCfg) : Nat → St → Question → List RR → Nat → List Name → List Name → Bool →
    St × Except ResolutionError ResolvedRecord
  | 0, st, _, _, _, _, _, _ => (st, .error .outOfFuel)
  | fuel + 1, st, question, combined, matchCount, candidates, next, locally =>
    if st.run.timedOut then (st, .error .timeout)
    else
    match candidates.getLast? with
    | none => (st, .error (.deadEnd question))
    | some candidate =>
      let rest := candidates.dropLast
      let (st1, ip) := tryTypes cfg fuel st locally candidate (rtypesFor cfg.mode)
      if st1.run.timedOut then (st1, .error .timeout)
      else
      match ip with
      | some addr =>
        let (run2, reply) := queryNameserver cfg.oracle st1.run addr cfg.port question false
        let st2 := { st1 with run := run2 }
        if run2.timedOut then (st2, .error .timeout)
        else
        match reply.bind (fun res => validateNameserverResponse question res matchCount) with
        | some nsResp =>
          match nsResp with
          | .answer rrs soaRR =>
            let st3 := { st2 with ctx := st2.ctx.cacheInsertAll rrs }
            (st3, .ok (.nonAuthoritative (prioritisingMerge combined rrs) soaRR))
          | .delegation rrs hostnames name =>
            let st3 := { st2 with ctx := st2.ctx.cacheInsertAll rrs }
            let glue : Option RR :=
              if question.qtype == RT_A then getRecord rrs question.name RT_A
              else if question.qtype == RT_AAAA then getRecord rrs question.name RT_AAAA
              else none
            match glue with
            | some rr => (st3, .ok (.nonAuthoritative (prioritisingMerge combined [rr]) none))
            | none =>
              candidateLoop cfg fuel st3 question combined name.labels.length (cfg.hostOrder hostnames) [] true
          | .cname rrs cname =>
            let st3 := { st2 with ctx := st2.ctx.cacheInsertAll rrs }
            resolveCombined cfg fuel st3 (prioritisingMerge combined rrs)
              { name := cname, qclass := question.qclass, qtype := question.qtype }
        | none => (st2, .error (.deadEnd question))
      | none =>
        if locally then
          let next' := next ++ [candidate]
          if rest.isEmpty then candidateLoop cfg fuel st1 question combined matchCount next' [] false
          else candidateLoop cfg fuel st1 question combined matchCount rest next' true
        else candidateLoop cfg fuel st1 question combined matchCount rest next false

/-- `resolve_combined_recursive`. -/
def resolveCombined (cfg : RecCfg) : Nat → St → List RR → Question → St × Except ResolutionError ResolvedRecord
  | 0, st, _, _ => (st, .error .outOfFuel)
  | fuel + 1, st, rrs, question =>
    match resolveRec cfg fuel st question with
    | (st1, .ok resolved) => (st1, .ok (.nonAuthoritative (rrs ++ resolved.rrs) resolved.soaRR))
    | (st1, .error .timeout) => (st1, .error .timeout)
    | (st1, .error .outOfFuel) => (st1, .error .outOfFuel)
    | (st1, .error _) => (st1, .error (.deadEnd question))

/-- `resolve_hostname_to_ip`: the `for rtype in rtypes` loop (`types` = the remaining types). -/
def tryTypes (cfg : RecCfg) : Nat → St → Bool → Name → List Nat → St × Option FieldVal
  | 0, st, _, _, _ => (st, none)
  | _ + 1, st, _, _, [] => (st, none)
  | fuel + 1, st, locally, hostname, rtype :: more =>
    if st.run.timedOut then (st, none)
    else
    let q : Question := { name := hostname, qclass := CLASS_IN, qtype := rtype }
    if locally then
      let (ctx1, r) := resolveLocal (RECURSION_LIMIT + 1) st.ctx q
      let st1 := { st with ctx := ctx1 }
      match r with
      | .ok (.done resolved) =>
        match getIp resolved.rrs hostname rtype with
        | some a => (st1, some a)
        | none => tryTypes cfg fuel st1 locally hostname more
      | _ => tryTypes cfg fuel st1 locally hostname more
    else
      match resolveRec cfg fuel st q with
      | (st1, .ok result) =>
        match getIp result.rrs hostname rtype with
        | some a => (st1, some a)
        | none => tryTypes cfg fuel st1 locally hostname more
      | (st1, .error _) => tryTypes cfg fuel st1 locally hostname more

end

/-- the nesting-depth fuel `resolve` starts with.  `Props/C08` proves that `FUEL_BOUND H L =
    32·((L+1)(2H+2)+3)+1` units suffice when delegations name at most `H` hosts and names have at
    most `L` labels (`C08_fuel_suffices_bounded`); 1 000 000 covers `H = 64, L = 128`
    (`FUEL_BOUND 64 128 = 536 737`; a wire-format name has at most 128 labels).  Without such
    bounds no fixed fuel suffices (`C08_fuel_suffices_statement` is false: an adversarial oracle
    naming ever more hosts makes the call tree as deep as it likes; in the Rust the same oracle makes
    the async recursion as deep as it likes within the 60 s budget). -/
def REC_FUEL : Nat := 1000000

/-- `resolve_recursive`: the 60 s wrapper. -/
def resolveRecursive (cfg : RecCfg) (ctx : Ctx) (question : Question) : St × Except ResolutionError ResolvedRecord :=
  let (st, r) := resolveRec cfg REC_FUEL { ctx, run := Run.empty } question
  if st.run.timedOut then (st, .error .timeout) else (st, r)

/-! ## Forwarding resolution -/

structure FwdCfg where
  addr : FieldVal
  port : Nat
  oracle : Oracle

/-- `resolve_forwarding_notimeout`. -/
def resolveFwd (cfg : FwdCfg) : Nat → St → Question → St × Except ResolutionError ResolvedRecord
  | 0, st, _ => (st, .error .outOfFuel)
  | fuel + 1, st, question =>
    if st.run.timedOut then (st, .error .timeout)
    else if st.ctx.atRecursionLimit then (st, .error .recursionLimit)
    else if st.ctx.isDuplicate question then (st, .error (.duplicateQuestion question))
    else
      let (ctx1, loc) := resolveLocal (RECURSION_LIMIT + 1) st.ctx question
      let st1 := { st with ctx := ctx1 }
      match loc with
      | .ok (.done resolved) => (st1, .ok resolved)
      | .ok (.cname rrs cq) =>
        let (st2, r) := resolveFwd cfg fuel { st1 with ctx := st1.ctx.push question } cq
        let st3 := { st2 with ctx := st2.ctx.pop }
        match r with
        | .ok resolved => (st3, .ok (.nonAuthoritative (rrs ++ resolved.rrs) resolved.soaRR))
        | .error .timeout => (st3, .error .timeout)
        | .error .outOfFuel => (st3, .error .outOfFuel)
        | .error _ => (st3, .error (.deadEnd cq))
      | other =>
        let combined : List RR := match other with | .ok (.partialAnswer rrs) => rrs | _ => []
        let (run2, reply) := queryNameserver cfg.oracle st1.run cfg.addr cfg.port question true
        let st2 := { st1 with run := run2 }
        if run2.timedOut then (st2, .error .timeout)
        else
        match reply with
        | some response =>
          let soaRR := getNxdomainNodataSoa question response 0
          let rrs := response.answers
          let st3 := { st2 with ctx := st2.ctx.cacheInsertAll rrs }
          (st3, .ok (.nonAuthoritative (prioritisingMerge combined rrs) soaRR))
        | none => (st2, .error (.deadEnd question))

def resolveForwarding (cfg : FwdCfg) (ctx : Ctx) (question : Question) : St × Except ResolutionError ResolvedRecord :=
  let (st, r) := resolveFwd cfg REC_FUEL { ctx, run := Run.empty } question
  if st.run.timedOut then (st, .error .timeout) else (st, r)

/-- `dns_resolver::resolve` in authoritative-only mode (`is_recursive = false`). -/
def resolveAuthoritativeOnly (ctx : Ctx) (question : Question) : Ctx × Except ResolutionError ResolvedRecord :=
  let (ctx1, r) := resolveLocal (RECURSION_LIMIT + 1) ctx question
  (ctx1, r.map LocalResult.toResolved)

end Resolved
