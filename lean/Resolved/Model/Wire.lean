/-
  Model of the RFC 1035 wire codec:
    crates/dns-types/src/protocol/deserialise.rs  (ConsumableBuffer, *::deserialise, Error)
    crates/dns-types/src/protocol/serialise.rs    (WritableBuffer, *::serialise, usize_to_u16)
  Record/query types and classes are their u16 codes (the `From<u16>`/`Into<u16>` pairs are
  bijections; `Props/Tables.lean` re-checks that against the generated tables, and the harness
  compares all 65 536 codes with the running crate).  RDATA is a list of field values laid out by
  the *generated* per-type layout table, so editing a `match` arm in Rust changes this model.
-/
import Resolved.Model.Name

namespace Resolved

open Gen

/-! ## Types -/

/-- One RDATA field value. -/
inductive FieldVal where
  | u16 (n : Nat)
  | u32 (n : Nat)
  | a (addr : Nat)               -- `Ipv4Addr::from(u32)`
  | aaaa (groups : List Nat)     -- `Ipv6Addr::new(g0..g7)`
  | opaque (octets : List UInt8)
  | name (n : Name)
deriving DecidableEq, Repr, Inhabited

/-- `ResourceRecord` (with `RecordTypeWithData` flattened to type code + field values). -/
structure RR where
  name : Name
  rtype : Nat
  fields : List FieldVal
  rclass : Nat
  ttl : Nat
deriving DecidableEq, Repr, Inhabited

structure Question where
  name : Name
  qtype : Nat
  qclass : Nat
deriving DecidableEq, Repr, Inhabited

structure Header where
  id : Nat
  isResponse : Bool
  opcode : Nat
  isAuthoritative : Bool
  isTruncated : Bool
  recursionDesired : Bool
  recursionAvailable : Bool
  rcode : Nat
deriving DecidableEq, Repr, Inhabited

structure Message where
  header : Header
  questions : List Question
  answers : List RR
  authority : List RR
  additional : List RR
deriving DecidableEq, Repr, Inhabited

/-- `protocol::deserialise::Error` — every variant but the first carries the header ID. -/
inductive DErr where
  | completelyBusted
  | headerTooShort (id : Nat)
  | questionTooShort (id : Nat)
  | resourceRecordTooShort (id : Nat)
  | resourceRecordInvalid (id : Nat)
  | domainTooShort (id : Nat)
  | domainTooLong (id : Nat)
  | domainPointerInvalid (id : Nat)
  | domainLabelInvalid (id : Nat)
deriving DecidableEq, Repr, Inhabited

/-- `Error::id`. -/
def DErr.id : DErr → Option Nat
  | .completelyBusted => none
  | .headerTooShort i | .questionTooShort i | .resourceRecordTooShort i
  | .resourceRecordInvalid i | .domainTooShort i | .domainTooLong i
  | .domainPointerInvalid i | .domainLabelInvalid i => some i

/-! ## Code tables -/

def lookupNat (tbl : List (Nat × String)) (k : Nat) : Option String :=
  match tbl with
  | [] => none
  | (k', v) :: rest => if k = k' then some v else lookupNat rest k

def lookupStr {α} (tbl : List (String × α)) (k : String) : Option α :=
  match tbl with
  | [] => none
  | (k', v) :: rest => if k = k' then some v else lookupStr rest k

/-- Name of the `RecordType` variant that `RecordType::from(code)` yields. -/
def rtypeVariant (code : Nat) : String :=
  match lookupNat recordTypeFromU16 code with
  | some v => v
  | none => "Unknown"

/-- `RecordType::is_unknown` on `RecordType::from(code)`. -/
def rtypeIsUnknown (code : Nat) : Bool := (lookupNat recordTypeFromU16 code).isNone

/-- `RecordClass::is_unknown`. -/
def rclassIsUnknown (code : Nat) : Bool := (lookupNat recordClassFromU16 code).isNone

/-- `QueryType::is_unknown` on `QueryType::from(code)`. -/
def qtypeIsUnknown (code : Nat) : Bool :=
  (lookupNat queryTypeFromU16 code).isNone && rtypeIsUnknown code

/-- `QueryClass::is_unknown`. -/
def qclassIsUnknown (code : Nat) : Bool :=
  (lookupNat queryClassFromU16 code).isNone && rclassIsUnknown code

def QTYPE_WILDCARD : Nat := 255
def QCLASS_WILDCARD : Nat := 255

/-- `RecordType::matches(qtype)`: wildcard matches all; a record query type matches itself;
    AXFR/MAILA/MAILB match nothing. -/
def rtypeMatches (rtype qtype : Nat) : Bool :=
  match lookupNat queryTypeFromU16 qtype with
  | some "Wildcard" => true
  | some _ => false
  | none => rtype == qtype

/-- `RecordClass::matches(qclass)`. -/
def rclassMatches (rclass qclass : Nat) : Bool :=
  match lookupNat queryClassFromU16 qclass with
  | some _ => true
  | none => rclass == qclass

def decodeLayoutOf (code : Nat) : List Field :=
  match lookupStr rdataDecodeLayout (rtypeVariant code) with
  | some l => l
  | none => [.opaque]

def encodeLayoutOf (code : Nat) : List Field :=
  match lookupStr rdataEncodeLayout (rtypeVariant code) with
  | some l => l
  | none => [.opaque]

/-! ## ConsumableBuffer -/

/-- `next_u8`. -/
def nextU8 (buf : List UInt8) (pos : Nat) : Option (Nat × Nat) :=
  if h : buf.length > pos then some ((buf[pos]'h).toNat, pos + 1) else none

/-- `next_u16`. -/
def nextU16 (buf : List UInt8) (pos : Nat) : Option (Nat × Nat) :=
  if h : buf.length > pos + 1 then
    some ((buf[pos]'(by omega)).toNat * 256 + (buf[pos + 1]'h).toNat, pos + 2)
  else none

/-- `next_u32`. -/
def nextU32 (buf : List UInt8) (pos : Nat) : Option (Nat × Nat) :=
  if h : buf.length > pos + 3 then
    some ((((buf[pos]'(by omega)).toNat * 256 + (buf[pos + 1]'(by omega)).toNat) * 256
            + (buf[pos + 2]'(by omega)).toNat) * 256 + (buf[pos + 3]'h).toNat, pos + 4)
  else none

/-- `take`. -/
def takeN (buf : List UInt8) (pos size : Nat) : Option (List UInt8 × Nat) :=
  if buf.length ≥ pos + size then some ((buf.drop pos).take size, pos + size) else none

/-! ## Decoder -/

/-- The tail of `DomainName::deserialise`: `if len <= DOMAINNAME_MAX_LEN { Ok } else { Err }`. -/
def finishName (id : Nat) (labels : List Label) (len pos : Nat) : Except DErr (Name × Nat) :=
  if len ≤ DOMAINNAME_MAX_LEN then .ok (⟨labels, len⟩, pos) else .error (.domainTooLong id)

/-- `DomainName::deserialise`.  `start` is the buffer position at entry of the (recursive) call,
    `pos`/`len`/`labels` the loop state.  Well-founded on `(start, buf.length - pos)`: a pointer
    must satisfy `ptr < start`, and every loop iteration consumes at least one octet. -/
def decodeNameLoop (id : Nat) (buf : List UInt8) (start pos len : Nat) (labels : List Label) :
    Except DErr (Name × Nat) :=
  if h : buf.length > pos then
    let size := (buf[pos]'h).toNat
    let pos1 := pos + 1
    if size ≤ LABEL_MAX_LEN then
      let len1 := len + 1
      if size = 0 then
        finishName id (labels ++ [[]]) len1 pos1
      else if buf.length ≥ pos1 + size then
        let os := (buf.drop pos1).take size
        let len2 := len1 + size
        let labels2 := labels ++ [os.map lowerByte]
        let pos2 := pos1 + size
        if len2 > DOMAINNAME_MAX_LEN then
          finishName id labels2 len2 pos2
        else
          decodeNameLoop id buf start pos2 len2 labels2
      else .error (.domainTooShort id)
    else if size ≥ 192 then
      if h2 : buf.length > pos1 then
        let hi := size % 64
        let lo := (buf[pos1]'h2).toNat
        let ptr := hi * 256 + lo
        if _hp : ptr ≥ start then .error (.domainPointerInvalid id)
        else
          match decodeNameLoop id buf ptr ptr 0 [] with
          | .error e => .error e
          | .ok (other, _) => finishName id (labels ++ other.labels) (len + other.len) (pos1 + 1)
      else .error (.domainTooShort id)
    else .error (.domainLabelInvalid id)
  else .error (.domainTooShort id)
termination_by (start, buf.length - pos)
decreasing_by
  all_goals simp_wf
  · right; omega
  · left; exact Nat.lt_of_not_ge _hp

/-- `DomainName::deserialise(id, buffer)` at buffer position `pos`. -/
def decodeName (id : Nat) (buf : List UInt8) (pos : Nat) : Except DErr (Name × Nat) :=
  decodeNameLoop id buf pos pos 0 []

/-- the `ok_or(Error::ResourceRecordTooShort(id))?` pattern. -/
def orRRShort {α} (id : Nat) : Option α → Except DErr α
  | some x => .ok x
  | none => .error (.resourceRecordTooShort id)

/-- Read the eight groups of `Ipv6Addr::new(...)`. -/
def decodeGroups (id : Nat) (buf : List UInt8) : Nat → Nat → Except DErr (List Nat × Nat)
  | 0, pos => .ok ([], pos)
  | k + 1, pos =>
    match nextU16 buf pos with
    | none => .error (.resourceRecordTooShort id)
    | some (g, pos') =>
      match decodeGroups id buf k pos' with
      | .error e => .error e
      | .ok (gs, pos'') => .ok (g :: gs, pos'')

/-- One field of the `match rtype` in `ResourceRecord::deserialise`. -/
def decodeField (id : Nat) (buf : List UInt8) (rdlength : Nat) (f : Field) (pos : Nat) :
    Except DErr (FieldVal × Nat) :=
  match f with
  | .u16 => (orRRShort id (nextU16 buf pos)).map (fun (n, p) => (.u16 n, p))
  | .u32 => (orRRShort id (nextU32 buf pos)).map (fun (n, p) => (.u32 n, p))
  | .a => (orRRShort id (nextU32 buf pos)).map (fun (n, p) => (.a n, p))
  | .aaaa => (decodeGroups id buf 8 pos).map (fun (gs, p) => (.aaaa gs, p))
  | .opaque => (orRRShort id (takeN buf pos rdlength)).map (fun (bs, p) => (.opaque bs, p))
  | .name _ => (decodeName id buf pos).map (fun (n, p) => (.name n, p))

def decodeFields (id : Nat) (buf : List UInt8) (rdlength : Nat) :
    List Field → Nat → Except DErr (List FieldVal × Nat)
  | [], pos => .ok ([], pos)
  | f :: fs, pos =>
    match decodeField id buf rdlength f pos with
    | .error e => .error e
    | .ok (v, pos') =>
      match decodeFields id buf rdlength fs pos' with
      | .error e => .error e
      | .ok (vs, pos'') => .ok (v :: vs, pos'')

/-- `ResourceRecord::deserialise`. -/
def decodeRR (id : Nat) (buf : List UInt8) (pos : Nat) : Except DErr (RR × Nat) :=
  match decodeName id buf pos with
  | .error e => .error e
  | .ok (name, p1) =>
  match nextU16 buf p1 with
  | none => .error (.resourceRecordTooShort id)
  | some (rtype, p2) =>
  match nextU16 buf p2 with
  | none => .error (.resourceRecordTooShort id)
  | some (rclass, p3) =>
  match nextU32 buf p3 with
  | none => .error (.resourceRecordTooShort id)
  | some (ttl, p4) =>
  match nextU16 buf p4 with
  | none => .error (.resourceRecordTooShort id)
  | some (rdlength, rdataStart) =>
  match decodeFields id buf rdlength (decodeLayoutOf rtype) rdataStart with
  | .error e => .error e
  | .ok (fields, rdataStop) =>
    if rdataStop = rdataStart + rdlength then
      .ok ({ name, rtype, fields, rclass, ttl }, rdataStop)
    else .error (.resourceRecordInvalid id)

/-- `Question::deserialise`. -/
def decodeQuestion (id : Nat) (buf : List UInt8) (pos : Nat) : Except DErr (Question × Nat) :=
  match decodeName id buf pos with
  | .error e => .error e
  | .ok (name, p1) =>
  match nextU16 buf p1 with
  | none => .error (.questionTooShort id)
  | some (qtype, p2) =>
  match nextU16 buf p2 with
  | none => .error (.questionTooShort id)
  | some (qclass, p3) => .ok ({ name, qtype, qclass }, p3)

/-- `for _ in 0..count { v.push(X::deserialise(id, buffer)?) }`. -/
def decodeMany {α} (dec : Nat → Except DErr (α × Nat)) : Nat → Nat → Except DErr (List α × Nat)
  | 0, pos => .ok ([], pos)
  | k + 1, pos =>
    match dec pos with
    | .error e => .error e
    | .ok (x, pos') =>
      match decodeMany dec k pos' with
      | .error e => .error e
      | .ok (xs, pos'') => .ok (x :: xs, pos'')

def testBit (octet mask : Nat) : Bool := (octet &&& mask) != 0

/-- `Opcode::from(u8)` followed by `u8::from(Opcode)`: the low nibble. -/
def opcodeFromU8 (octet : Nat) : Nat := octet &&& Gen.opcodeMask
def rcodeFromU8 (octet : Nat) : Nat := octet &&& Gen.rcodeMask

/-- `Header::deserialise` (flags part). -/
def decodeFlags (id flags1 flags2 : Nat) : Header :=
  { id
    isResponse := testBit flags1 HEADER_MASK_QR
    opcode := opcodeFromU8 ((flags1 &&& HEADER_MASK_OPCODE) >>> HEADER_OFFSET_OPCODE)
    isAuthoritative := testBit flags1 HEADER_MASK_AA
    isTruncated := testBit flags1 HEADER_MASK_TC
    recursionDesired := testBit flags1 HEADER_MASK_RD
    recursionAvailable := testBit flags2 HEADER_MASK_RA
    rcode := rcodeFromU8 ((flags2 &&& HEADER_MASK_RCODE) >>> HEADER_OFFSET_RCODE) }

/-- `Message::from_octets`. -/
def decodeMessage (buf : List UInt8) : Except DErr Message :=
  match nextU16 buf 0 with
  | none => .error .completelyBusted
  | some (id, p1) =>
  match nextU8 buf p1 with
  | none => .error (.headerTooShort id)
  | some (flags1, p2) =>
  match nextU8 buf p2 with
  | none => .error (.headerTooShort id)
  | some (flags2, p3) =>
  let header := decodeFlags id flags1 flags2
  match nextU16 buf p3 with
  | none => .error (.headerTooShort id)
  | some (qdcount, p4) =>
  match nextU16 buf p4 with
  | none => .error (.headerTooShort id)
  | some (ancount, p5) =>
  match nextU16 buf p5 with
  | none => .error (.headerTooShort id)
  | some (nscount, p6) =>
  match nextU16 buf p6 with
  | none => .error (.headerTooShort id)
  | some (arcount, p7) =>
  match decodeMany (decodeQuestion id buf) qdcount p7 with
  | .error e => .error e
  | .ok (questions, p8) =>
  match decodeMany (decodeRR id buf) ancount p8 with
  | .error e => .error e
  | .ok (answers, p9) =>
  match decodeMany (decodeRR id buf) nscount p9 with
  | .error e => .error e
  | .ok (authority, p10) =>
  match decodeMany (decodeRR id buf) arcount p10 with
  | .error e => .error e
  | .ok (additional, _) => .ok { header, questions, answers, authority, additional }

/-! ## Encoder -/

/-- `protocol::serialise::Error::CounterTooLarge { counter, bits }`. -/
inductive EErr where
  | counterTooLarge (counter bits : Nat)
deriving DecidableEq, Repr, Inhabited

/-- `WritableBuffer`: the octets written so far and the name → pointer table
    (a `HashMap` in Rust; first insertion wins because `memoise_name` checks `contains_key`). -/
structure WBuf where
  octets : List UInt8
  namePointers : List (Name × Nat)
deriving Repr, Inhabited

def WBuf.empty : WBuf := ⟨[], []⟩

def WBuf.index (b : WBuf) : Nat := b.octets.length

def lookupName (tbl : List (Name × Nat)) (n : Name) : Option Nat :=
  match tbl with
  | [] => none
  | (k, v) :: rest => if k = n then some v else lookupName rest n

def u8 (n : Nat) : UInt8 := UInt8.ofNat n

def WBuf.writeU8 (b : WBuf) (o : Nat) : WBuf := { b with octets := b.octets ++ [u8 o] }

def u16Bytes (v : Nat) : List UInt8 := [u8 (v / 256 % 256), u8 (v % 256)]

def u32Bytes (v : Nat) : List UInt8 :=
  [u8 (v / 16777216 % 256), u8 (v / 65536 % 256), u8 (v / 256 % 256), u8 (v % 256)]

def WBuf.writeOctets (b : WBuf) (os : List UInt8) : WBuf := { b with octets := b.octets ++ os }
def WBuf.writeU16 (b : WBuf) (v : Nat) : WBuf := b.writeOctets (u16Bytes v)
def WBuf.writeU32 (b : WBuf) (v : Nat) : WBuf := b.writeOctets (u32Bytes v)

/-- `WritableBuffer::memoise_name`.  The pointer value is `index | 0xC000`; it is only recorded
    while the index fits the 14 offset bits of a compression pointer. -/
def WBuf.memoiseName (b : WBuf) (n : Name) : WBuf :=
  if !n.isRoot && (lookupName b.namePointers n).isNone then
    if b.index < 16384 then
      { b with namePointers := b.namePointers ++ [(n, 0xC000 + b.index)] }
    else b
  else b

/-- `WritableBuffer::name_pointer`. -/
def WBuf.namePointer (b : WBuf) (n : Name) : Option Nat := lookupName b.namePointers n

def writeLabels (b : WBuf) : List Label → WBuf
  | [] => b
  | l :: ls => writeLabels ((b.writeU8 l.length).writeOctets l) ls

/-- `DomainName::serialise(buffer, compress)`. -/
def encodeName (b : WBuf) (n : Name) (compress : Bool) : WBuf :=
  match (if compress then b.namePointer n else none) with
  | some ptr => b.writeU16 ptr
  | none => writeLabels (b.memoiseName n) n.labels

/-- `usize_to_u16`. -/
def usizeToU16 (counter : Nat) : Except EErr Nat :=
  if counter < 65536 then .ok counter else .error (.counterTooLarge counter 16)

def writeGroups (b : WBuf) : List Nat → WBuf
  | [] => b
  | g :: gs => writeGroups (b.writeU16 g) gs

/-- One arm-field of the `match &self.rtype_with_data` in `ResourceRecord::serialise`.
    A field value that does not fit the layout cannot be built in Rust (the enum is typed);
    the model writes nothing for it and `WfMsg` excludes it. -/
def encodeField (b : WBuf) (f : Field) (v : FieldVal) : WBuf :=
  match f, v with
  | .u16, .u16 n => b.writeU16 n
  | .u32, .u32 n => b.writeU32 n
  | .a, .a n => b.writeU32 n
  | .aaaa, .aaaa gs => writeGroups b gs
  | .opaque, .opaque bs => b.writeOctets bs
  | .name c, .name n => encodeName b n c
  | _, _ => b

def encodeFields (b : WBuf) : List Field → List FieldVal → WBuf
  | f :: fs, v :: vs => encodeFields (encodeField b f v) fs vs
  | _, _ => b

/-- overwrite two octets at `i` (the RDLENGTH back-patch). -/
def patchU16 (os : List UInt8) (i v : Nat) : List UInt8 :=
  (os.set i (u8 (v / 256 % 256))).set (i + 1) (u8 (v % 256))

/-- `ResourceRecord::serialise`. -/
def encodeRR (b : WBuf) (rr : RR) : Except EErr WBuf :=
  let b := encodeName b rr.name rrNameCompress
  let b := b.writeU16 rr.rtype
  let b := b.writeU16 rr.rclass
  let b := b.writeU32 rr.ttl
  let rdlengthIndex := b.index
  let b := b.writeU16 0
  let b := encodeFields b (encodeLayoutOf rr.rtype) rr.fields
  match usizeToU16 (b.index - rdlengthIndex - 2) with
  | .error e => .error e
  | .ok rdlength => .ok { b with octets := patchU16 b.octets rdlengthIndex rdlength }

/-- `Question::serialise`. -/
def encodeQuestion (b : WBuf) (q : Question) : WBuf :=
  ((encodeName b q.name questionNameCompress).writeU16 q.qtype).writeU16 q.qclass

def flag (set : Bool) (mask : Nat) : Nat := if set then mask else 0

/-- `Header::serialise`. -/
def encodeHeader (b : WBuf) (h : Header) : WBuf :=
  let fieldOpcode := HEADER_MASK_OPCODE &&& ((h.opcode <<< HEADER_OFFSET_OPCODE) % 256)
  let fieldRcode := HEADER_MASK_RCODE &&& ((h.rcode <<< HEADER_OFFSET_RCODE) % 256)
  let b := b.writeU16 h.id
  let b := b.writeU8 (flag h.isResponse HEADER_MASK_QR ||| fieldOpcode
            ||| flag h.isAuthoritative HEADER_MASK_AA ||| flag h.isTruncated HEADER_MASK_TC
            ||| flag h.recursionDesired HEADER_MASK_RD)
  b.writeU8 (flag h.recursionAvailable HEADER_MASK_RA ||| fieldRcode)

def encodeRRs (b : WBuf) : List RR → Except EErr WBuf
  | [] => .ok b
  | rr :: rrs =>
    match encodeRR b rr with
    | .error e => .error e
    | .ok b' => encodeRRs b' rrs

/-- `Message::to_octets`. -/
def encodeMessage (m : Message) : Except EErr (List UInt8) :=
  match usizeToU16 m.questions.length with
  | .error e => .error e
  | .ok qdcount =>
  match usizeToU16 m.answers.length with
  | .error e => .error e
  | .ok ancount =>
  match usizeToU16 m.authority.length with
  | .error e => .error e
  | .ok nscount =>
  match usizeToU16 m.additional.length with
  | .error e => .error e
  | .ok arcount =>
  let b := encodeHeader WBuf.empty m.header
  let b := (((b.writeU16 qdcount).writeU16 ancount).writeU16 nscount).writeU16 arcount
  let b := m.questions.foldl encodeQuestion b
  match encodeRRs b m.answers with
  | .error e => .error e
  | .ok b =>
  match encodeRRs b m.authority with
  | .error e => .error e
  | .ok b =>
  match encodeRRs b m.additional with
  | .error e => .error e
  | .ok b => .ok b.octets

end Resolved
