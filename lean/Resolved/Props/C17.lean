/-
  C17 — Configuration parsers never crash on any text (zone-file part).

  `ZoneText.deserialise : List Char → DResult` (Model/ZoneText.lean) is a TOTAL Lean function on all
  Unicode scalar sequences: Lean accepts only terminating definitions, every recursion in the model
  is structural (the tokeniser: on the stream; `parseEntry` / `deserialiseLoop`: on an explicit
  fuel), and there is no `partial`, `unsafe` or `implemented_by` in it.  So "terminates with a
  result or an error" holds of the model by construction — `C17_zone_parser_total` merely records
  it.  The substantive content is below:
    * the fuel is never exhausted (`C17_parse_entry_fuel_suffices`, `C17_deserialise_no_fuel`),
      which rests on **progress**: each `tokenise_entry` call consumes at least one char
      (`C17_tokenise_progress`), so Rust's `loop` in `parse_entry` and the `while let` in
      `Zone::deserialise` terminate;
    * the escape arithmetic cannot overflow and rejects values above 255 (`C17_escape_no_overflow`);
    * every index / slice of `parse_rr` & co. is a pattern match under the guard of the Rust (the
      model has no index operation at all: `C17_parse_rr_total` is again by construction), and the
      only partial operation reachable from `Zone::deserialise` — `from_labels(..).unwrap()` inside
      `ZoneRecords::insert` — is the `DResult.panic` outcome, compared on every stream case.
  The model is tied to the Rust by the streams `ztext`, `ztext-fuzz`, `ztext-roundtrip` (Impl ≡
  Model on each case, `catch_unwind` around every call), not by proof.
-/
import Resolved.Proofs.ZoneTextBasics

namespace Resolved

open ZoneText IpText

/-- By construction: the model of `Zone::deserialise` returns a value for every input
    (a zone, an `Error`, or the modelled `unwrap` panic of `ZoneRecords::insert`) … -/
theorem C17_zone_parser_total (data : List Char) :
    ∃ r : DResult, deserialise data = r ∧ r.isOutOfFuel = false :=
  ⟨_, rfl, deserialise_not_outOfFuel data⟩

/-- **Progress**: a `tokenise_entry` call on a non-empty stream consumes at least one char
    (and on the empty stream returns no tokens). -/
theorem C17_tokenise_progress (cs : List Char) (toks : List Token) (rest : List Char)
    (h : tokeniseEntry cs = .ok (toks, rest)) :
    (cs ≠ [] → rest.length < cs.length) ∧ (cs = [] → toks = [] ∧ rest = []) := by
  refine ⟨tokeniseEntry_progress h, ?_⟩
  intro hc
  subst hc
  rw [tokeniseEntry_nil] at h
  cases h
  exact ⟨rfl, rfl⟩

/-- the chars `tokenise_escape` takes from the shared iterator are really there (the `skip` counter
    of the structural tokeniser loop never runs past the end of the stream). -/
theorem C17_escape_count (cs : List Char) (o : UInt8) (n : Nat) (h : tokeniseEscape cs = .ok (o, n)) :
    1 ≤ n ∧ n ≤ cs.length := tokeniseEscape_count h

/-- **the `loop` of `parse_entry` terminates**: with more fuel than chars in the stream the model
    never runs out of fuel … -/
theorem C17_parse_entry_fuel_suffices (fuel : Nat) (o : Option Name) (pd : Option MaybeWildcard)
    (pt : Option Nat) (s : List Char) (h : s.length < fuel) : parseEntry fuel o pd pt s ≠ .outOfFuel :=
  parseEntry_fuel_suffices fuel o pd pt s h

/-- … and an entry it returns has consumed at least one char, so the `while let` of
    `Zone::deserialise` terminates as well. -/
theorem C17_parse_entry_progress (fuel : Nat) (o : Option Name) (pd : Option MaybeWildcard)
    (pt : Option Nat) (s : List Char) (e : Entry) (rest : List Char)
    (h : parseEntry fuel o pd pt s = .ok (some e) rest) : rest.length < s.length :=
  (parseEntry_rest fuel o pd pt s _ _ h).2 rfl

theorem C17_deserialise_no_fuel (data : List Char) : (deserialise data).isOutOfFuel = false :=
  deserialise_not_outOfFuel data

/-- **`d1 * 100 + d2 * 10 + d3` cannot overflow** (`u32`; at most 999) and values above 255 are
    rejected with `TokeniserUnexpectedEscape` rather than truncated. -/
theorem C17_escape_no_overflow (c1 c2 c3 : Char) (d1 d2 d3 : Nat) (rest : List Char)
    (h1 : toDigit10 c1 = some d1) (h2 : toDigit10 c2 = some d2) (h3 : toDigit10 c3 = some d3) :
    d1 * 100 + d2 * 10 + d3 ≤ 999 ∧
    (d1 * 100 + d2 * 10 + d3 > 255 →
      tokeniseEscape (c1 :: c2 :: c3 :: rest) = .error .tokeniserUnexpectedEscape) ∧
    (d1 * 100 + d2 * 10 + d3 ≤ 255 →
      tokeniseEscape (c1 :: c2 :: c3 :: rest) = .ok (UInt8.ofNat (d1 * 100 + d2 * 10 + d3), 3)) := by
  have := toDigit10_le h1
  have := toDigit10_le h2
  have := toDigit10_le h3
  refine ⟨by omega, ?_, ?_⟩
  · intro hgt
    simp only [tokeniseEscape, h1, h2, h3]
    rw [if_neg (by omega)]
  · intro hle
    simp only [tokeniseEscape, h1, h2, h3]
    rw [if_pos hle]

/-- a truncated escape (`\`, `\1`, `\12` at the end of the input) is an error, not a panic. -/
theorem C17_escape_truncated :
    tokeniseEscape [] = .error .tokeniserUnexpectedEscape ∧
    tokeniseEscape ['1'] = .error .tokeniserUnexpectedEscape ∧
    tokeniseEscape ['1', '2'] = .error .tokeniserUnexpectedEscape := by
  exact ⟨rfl, rfl, rfl⟩

/-- By construction: `parse_rr` on ANY token vector is an `Ok` or an `Err` — the model has no
    index operation; `tokens[0]`, `tokens[1]`, `tokens[2]`, `tokens[3..]` … are list patterns that
    exist exactly under the Rust's `len() >=` guards.  In particular the empty vector is `WrongLen`. -/
theorem C17_parse_rr_total (o : Option Name) (pd : Option MaybeWildcard) (pt : Option Nat) :
    parseRr o pd pt [] = .error .wrongLen ∧
    ∀ tokens, ∃ r : Except Error Entry, parseRr o pd pt tokens = r :=
  ⟨rfl, fun _ => ⟨_, rfl⟩⟩

/-- `dotted_string_vec[dotted_string_vec.len() - 1]` in `parse_domain` is only reached for a
    non-empty string: the empty string is `ExpectedDomainName`. -/
theorem C17_parse_domain_empty (o : Option Name) : parseDomain o [] = .error .expectedDomainName := rfl

/-- non-vacuity: a concrete record line goes through tokeniser and entry parser
    (`a. 5 IN A 1.2.3.4`). -/
example :
    parseEntry 19 none none none
      ['a', '.', ' ', '5', ' ', 'I', 'N', ' ', 'A', ' ', '1', '.', '2', '.', '3', '.', '4', '\n']
      = .ok (some (.rr { name := ⟨[[97], []], 3⟩, rtype := 1, fields := [.a 16909060], rclass := 1, ttl := 5 })) [] := by
  decide

end Resolved
