/-
  C04 — A message that is serialised and then deserialised comes back unchanged.
  Property theorems only; helper lemmas live in Proofs/WireEncode*.lean.

  `TableInv`/`NameInv` (pointer-table invariants), `EncReach` (encoder states), `LayoutOK`,
  `flagOctet1/2`, `Ext`, `Reads`, `PlainWireName`, `EncReachWF`, `flatLabels` are defined in the Proofs
  files; `WireName`, `NameWF`, `RRWF`,
  `QuestionWF`, `HeaderWF`, `WfMsg` in Spec/Wire.lean.
-/
import Resolved.Proofs.WireEncodeReencode
import Resolved.Proofs.WireEncodeDec

namespace Resolved

open Gen

/-! ### 1. RDATA layouts -/

/-- The generated decode and encode RDATA layout tables are the same table (re-checked by
    `decide` every time `Generated.lean` is regenerated from the Rust source). -/
theorem C04_layout_tables_equal : Gen.rdataDecodeLayout = Gen.rdataEncodeLayout := by decide

/-- For every type code the decoder reads exactly the field list the encoder writes (hence, in
    particular, lists of the same length). -/
theorem C04_layouts_agree (code : Nat) :
    decodeLayoutOf code = encodeLayoutOf code ∧
    (decodeLayoutOf code).length = (encodeLayoutOf code).length := by
  have h := decodeLayoutOf_eq code
  exact ⟨h, by rw [h]⟩

/-- An `.opaque` field (which swallows the whole RDATA on decode) only ever occurs as the single
    field of its layout, for every type code. -/
theorem C04_layout_opaque_alone (code : Nat) :
    encodeLayoutOf code = [.opaque] ∨ Field.opaque ∉ encodeLayoutOf code :=
  encodeLayoutOf_ok code

/-! ### 2. Header -/

/-- The four octets `Header::serialise` writes decode back to the header (ID by `next_u16`, the two
    flag octets by `next_u8` and the mask/shift logic of `Header::deserialise`), for every header
    with a 16-bit ID and 4-bit opcode/rcode. -/
theorem C04_header_roundtrip (h : Header) (hwf : HeaderWF h) :
    ∃ f1 f2,
      (encodeHeader WBuf.empty h).octets.length = 4 ∧
      nextU16 (encodeHeader WBuf.empty h).octets 0 = some (h.id, 2) ∧
      nextU8 (encodeHeader WBuf.empty h).octets 2 = some (f1, 3) ∧
      nextU8 (encodeHeader WBuf.empty h).octets 3 = some (f2, 4) ∧
      decodeFlags h.id f1 f2 = h := by
  have hf1 := (flagOctet1_spec h.isResponse h.isAuthoritative h.isTruncated h.recursionDesired
    h.opcode hwf.2.1).1
  have hf2 := (flagOctet2_spec h.recursionAvailable h.rcode hwf.2.2).1
  refine ⟨flagOctet1 h.isResponse h.opcode h.isAuthoritative h.isTruncated h.recursionDesired,
    flagOctet2 h.recursionAvailable h.rcode, ?_, ?_, ?_, ?_, decodeFlags_flagOctets h hwf⟩
  · rw [encodeHeader_eq]; simp [WBuf.empty, headerBytes]
  · rw [encodeHeader_eq]
    exact nextU16_at' [] [u8 (flagOctet1 h.isResponse h.opcode h.isAuthoritative h.isTruncated
      h.recursionDesired), u8 (flagOctet2 h.recursionAvailable h.rcode)]
      (by simp [WBuf.empty, headerBytes]) rfl hwf.1
  · rw [encodeHeader_eq, ← u8_toNat _ hf1]
    exact nextU8_at' (u16Bytes h.id) [u8 (flagOctet2 h.recursionAvailable h.rcode)]
      (by simp [WBuf.empty, headerBytes]) rfl
  · rw [encodeHeader_eq, ← u8_toNat _ hf2]
    exact nextU8_at' (u16Bytes h.id ++ [u8 (flagOctet1 h.isResponse h.opcode h.isAuthoritative
      h.isTruncated h.recursionDesired)]) [] (by simp [WBuf.empty, headerBytes]) rfl

/-- The flag octets themselves: every bit field survives, for all 2⁵·16·16 combinations. -/
theorem C04_flag_octets (qr aa tc rd ra : Bool) (opcode rcode : Nat) (ho : opcode < 16)
    (hr : rcode < 16) :
    decodeFlags 0 (flagOctet1 qr opcode aa tc rd) (flagOctet2 ra rcode)
      = ⟨0, qr, opcode, aa, tc, rd, ra, rcode⟩ :=
  decodeFlags_flagOctets ⟨0, qr, opcode, aa, tc, rd, ra, rcode⟩ ⟨Nat.zero_lt_succ _, ho, hr⟩

/-! ### 3. Big-endian integers -/

/-- A 16-bit value written big-endian anywhere in a buffer is read back by `next_u16`. -/
theorem C04_u16_roundtrip (pre post : List UInt8) (v : Nat) (h : v < 65536) :
    nextU16 (pre ++ u16Bytes v ++ post) pre.length = some (v, pre.length + 2) :=
  nextU16_at pre post v h

/-- A 32-bit value written big-endian anywhere in a buffer is read back by `next_u32`. -/
theorem C04_u32_roundtrip (pre post : List UInt8) (v : Nat) (h : v < 4294967296) :
    nextU32 (pre ++ u32Bytes v ++ post) pre.length = some (v, pre.length + 4) :=
  nextU32_at pre post v h

/-! ### 4. Compression-pointer table -/

/-- In every state the encoder can reach from the empty buffer (through any sequence of
    `write_*`, `memoise_name`, name/field/question/record/header serialisation steps, including
    the RDLENGTH back-patch), every entry of the name-pointer table is `0xC000 + off` with `off`
    inside the 14 offset bits and not beyond the octets written so far. -/
theorem C04_pointer_table_inv (b : WBuf) (h : EncReach b) :
    ∀ n p, (n, p) ∈ b.namePointers → ∃ off, p = 0xC000 + off ∧ off < 16384 ∧ off ≤ b.octets.length :=
  h.tableInv

/-- Step-wise form of the same fact: the invariant holds of the empty buffer and is preserved by
    each encoder step. -/
theorem C04_pointer_table_inv_steps :
    TableInv WBuf.empty ∧
    (∀ b o, TableInv b → TableInv (b.writeU8 o)) ∧
    (∀ b v, TableInv b → TableInv (b.writeU16 v)) ∧
    (∀ b v, TableInv b → TableInv (b.writeU32 v)) ∧
    (∀ b x, TableInv b → TableInv (b.writeOctets x)) ∧
    (∀ b n, TableInv b → TableInv (b.memoiseName n)) ∧
    (∀ b n c, TableInv b → TableInv (encodeName b n c)) ∧
    (∀ b f v, TableInv b → TableInv (encodeField b f v)) ∧
    (∀ b fs vs, TableInv b → TableInv (encodeFields b fs vs)) ∧
    (∀ b h, TableInv b → TableInv (encodeHeader b h)) ∧
    (∀ b q, TableInv b → TableInv (encodeQuestion b q)) ∧
    (∀ b rr b', TableInv b → encodeRR b rr = .ok b' → TableInv b') ∧
    (∀ b rrs b', TableInv b → encodeRRs b rrs = .ok b' → TableInv b') :=
  ⟨TableInv_empty, fun _ o h => h.writeU8 o, fun _ v h => h.writeU16 v, fun _ v h => h.writeU32 v,
    fun _ x h => h.writeOctets x, fun _ n h => h.memoiseName n, fun _ n c h => h.encodeName n c,
    fun _ f v h => h.encodeField f v, fun _ fs vs h => TableInv.encodeFields fs vs h,
    fun _ hd h => h.encodeHeader hd, fun _ q h => h.encodeQuestion q,
    fun _ rr _ h he => h.encodeRR rr he, fun _ rrs _ h he => TableInv.encodeRRs rrs h he⟩

/-- The arithmetic of a compression pointer: for a 14-bit offset, the two octets of
    `0xC000 + off` are `0xC0 + off / 256` (a valid octet with the two top bits set) and
    `off % 256`, and the decoder's `(b % 64) * 256 + lo` recovers `off`. -/
theorem C04_pointer_arith (off : Nat) (h : off < 16384) :
    (0xC000 + off) / 256 % 256 = 0xC0 + off / 256 ∧ (0xC000 + off) % 256 = off % 256 ∧
    192 ≤ 0xC0 + off / 256 ∧ 0xC0 + off / 256 < 256 ∧
    ((0xC0 + off / 256) % 64) * 256 + off % 256 = off :=
  pointer_arith off h

/-- Every pointer `encodeName` writes fits: in a reachable encoder state, when the table has an
    entry for `n`, the compressed serialisation is exactly the two octets
    `0xC0 + off / 256, off % 256` for some `off < 2¹⁴` already written, and those octets decode to
    `off`. -/
theorem C04_pointers_fit (b : WBuf) (hb : EncReach b) (n : Name) (ptr : Nat)
    (hp : b.namePointer n = some ptr) :
    ∃ off, ptr = 0xC000 + off ∧ off < 16384 ∧ off ≤ b.octets.length ∧
      encodeName b n true = b.writeOctets [u8 (0xC0 + off / 256), u8 (off % 256)] ∧
      192 ≤ (u8 (0xC0 + off / 256)).toNat ∧
      ((u8 (0xC0 + off / 256)).toNat % 64) * 256 + (u8 (off % 256)).toNat = off := by
  obtain ⟨off, h1, h2, h3, h4⟩ := encodeName_pointer b n ptr hb.tableInv hp
  obtain ⟨_, _, e3, e4, e5⟩ := pointer_arith off h2
  refine ⟨off, h1, h2, h3, h4, ?_, ?_⟩
  · rw [u8_toNat _ e4]; exact e3
  · rw [u8_toNat _ e4, u8_toNat _ (by omega)]; exact e5

/-! ### 5. Uncompressed names -/

/-- The octets `writeLabels` appends for a well-formed name are `n.len` octets that form a
    pointer-free `WireName` of the RFC 1035 grammar for `n.labels` (whatever precedes, whatever
    follows, whatever the pointer bound `s`), and `DomainName::deserialise` started there returns
    exactly `n` and stops right after them. -/
theorem C04_name_roundtrip_uncompressed (n : Name) (hwf : NameWF n) (b : WBuf)
    (post : List UInt8) (s id : Nat) :
    ∃ bytes, (writeLabels b n.labels).octets = b.octets ++ bytes ∧ bytes.length = n.len ∧
      WireName (b.octets ++ bytes ++ post) s b.octets.length n.labels n.len
        (b.octets.length + n.len) ∧
      decodeName id (b.octets ++ bytes ++ post) b.octets.length
        = .ok (n, b.octets.length + n.len) := by
  refine ⟨flatLabels n.labels, by rw [writeLabels_eq], hwf.len_eq, ?_, ?_⟩
  · exact wireName_hasAt hwf ⟨b.octets, post, rfl, rfl⟩ s
  · exact decodeNameLoop_hasAt id _ _ _ n hwf ⟨b.octets, post, rfl, rfl⟩

/-! ### 6. Names with compression -/

/-- The strong table invariant (`NameInv`: each entry `(m, 0xC000 + off)` has a well-formed `m`
    and an uncompressed copy of `m` at `off`, `off < 2¹⁴`) holds initially and is preserved by
    serialising a well-formed name, with or without compression. -/
theorem C04_name_inv (b : WBuf) (n : Name) (c : Bool) (hinv : NameInv b) (hwf : NameWF n) :
    NameInv WBuf.empty ∧ NameInv (encodeName b n c) :=
  ⟨NameInv_empty, hinv.encodeName hwf c⟩

/-- Name round trip, compression included: under the table invariant, what
    `DomainName::serialise` appends for a well-formed name (its labels, or a two-octet pointer to an
    earlier copy) is read back by `DomainName::deserialise` as the same name, ending exactly where
    the encoder stopped — on the buffer as it stands and on any extension of it. -/
theorem C04_name_roundtrip (b : WBuf) (n : Name) (c : Bool) (hinv : NameInv b) (hwf : NameWF n)
    (id : Nat) (post : List UInt8) :
    (∃ x, (encodeName b n c).octets = b.octets ++ x) ∧
    decodeName id ((encodeName b n c).octets ++ post) b.octets.length
      = .ok (n, (encodeName b n c).octets.length) :=
  ⟨Ext.encodeName b n c, encodeName_reads b n c hinv hwf id post⟩

/-- … and it is a `WireName` of the declarative grammar whose pointers all point strictly
    backwards. -/
theorem C04_name_wire (b : WBuf) (n : Name) (c : Bool) (hinv : NameInv b) (hwf : NameWF n)
    (post : List UInt8) :
    WireName ((encodeName b n c).octets ++ post) b.octets.length b.octets.length n.labels n.len
      (encodeName b n c).octets.length :=
  encodeName_wireName b n c hinv hwf post

/-! ### 7. Fields, records, questions, sections, message -/

/-- One RDATA field of any kind round-trips (for `.opaque`, given the RDLENGTH the decoder was
    handed is the number of octets written). -/
theorem C04_field_roundtrip (b : WBuf) (f : Field) (v : FieldVal) (hinv : NameInv b)
    (hwf : FieldValWF f v) (id rdl : Nat)
    (hrdl : f = .opaque → rdl = (encodeField b f v).octets.length - b.octets.length)
    (post : List UInt8) :
    NameInv (encodeField b f v) ∧
    decodeField id ((encodeField b f v).octets ++ post) rdl f b.octets.length
      = .ok (v, (encodeField b f v).octets.length) :=
  ⟨(encodeField_spec b f v hinv hwf).2.1, (encodeField_spec b f v hinv hwf).2.2 id rdl hrdl post⟩

/-- The RDATA of any record type round-trips, the decoder being given the true RDATA length. -/
theorem C04_rdata_roundtrip (b : WBuf) (code : Nat) (vs : List FieldVal) (hinv : NameInv b)
    (hwf : FieldsWF (encodeLayoutOf code) vs) (id : Nat) (post : List UInt8) :
    decodeFields id ((encodeFields b (encodeLayoutOf code) vs).octets ++ post)
        ((encodeFields b (encodeLayoutOf code) vs).octets.length - b.octets.length)
        (decodeLayoutOf code) b.octets.length
      = .ok (vs, (encodeFields b (encodeLayoutOf code) vs).octets.length) := by
  rw [decodeLayoutOf_eq]
  exact (encodeFields_spec _ vs b hinv hwf (encodeLayoutOf_ok code)).2.2 id post

/-- The RDLENGTH back-patch is equivalent to writing the final RDLENGTH up front: a successful
    `ResourceRecord::serialise` yields exactly the buffer and table obtained by writing the owner
    name, type, class, TTL, the *final* RDLENGTH and then the RDATA. -/
theorem C04_rdlength_backpatch (b : WBuf) (rr : RR) (b' : WBuf) (h : encodeRR b rr = .ok b') :
    ∃ rdl, rdl < 65536 ∧
      b' = encodeFields
        (((((encodeName b rr.name rrNameCompress).writeU16 rr.rtype).writeU16 rr.rclass).writeU32
          rr.ttl).writeU16 rdl) (encodeLayoutOf rr.rtype) rr.fields ∧
      rdl = b'.octets.length -
        (((((encodeName b rr.name rrNameCompress).writeU16 rr.rtype).writeU16 rr.rclass).writeU32
          rr.ttl).writeU16 rdl).octets.length :=
  encodeRR_eq b rr b' h

/-- Resource-record round trip, including owner-name compression and the RDLENGTH back-patch. -/
theorem C04_rr_roundtrip (b : WBuf) (rr : RR) (b' : WBuf) (hinv : NameInv b) (hwf : RRWF rr)
    (h : encodeRR b rr = .ok b') (id : Nat) (post : List UInt8) :
    NameInv b' ∧ decodeRR id (b'.octets ++ post) b.octets.length = .ok (rr, b'.octets.length) :=
  ⟨(encodeRR_spec b rr b' hinv hwf h).2.1, (encodeRR_spec b rr b' hinv hwf h).2.2 id post⟩

/-- Question round trip. -/
theorem C04_question_roundtrip (b : WBuf) (q : Question) (hinv : NameInv b) (hwf : QuestionWF q)
    (id : Nat) (post : List UInt8) :
    NameInv (encodeQuestion b q) ∧
    decodeQuestion id ((encodeQuestion b q).octets ++ post) b.octets.length
      = .ok (q, (encodeQuestion b q).octets.length) :=
  ⟨(encodeQuestion_spec b q hinv hwf).2.1, (encodeQuestion_spec b q hinv hwf).2.2 id post⟩

/-- A whole section of resource records round-trips. -/
theorem C04_section_roundtrip (b b' : WBuf) (rrs : List RR) (hinv : NameInv b)
    (hwf : ∀ r ∈ rrs, RRWF r) (h : encodeRRs b rrs = .ok b') (id : Nat) (post : List UInt8) :
    NameInv b' ∧
    decodeMany (decodeRR id (b'.octets ++ post)) rrs.length b.octets.length
      = .ok (rrs, b'.octets.length) :=
  ⟨(encodeRRs_spec rrs b b' hinv hwf h).2.1, (encodeRRs_spec rrs b b' hinv hwf h).2.2 id post⟩

/-- **C04.** Every well-formed message that `Message::to_octets` accepts is returned unchanged by
    `Message::from_octets` on the produced octets. -/
theorem C04_roundtrip (m : Message) (bs : List UInt8) (hwf : WfMsg m)
    (h : encodeMessage m = .ok bs) : decodeMessage bs = .ok m :=
  encodeMessage_roundtrip m bs hwf h

/-- The encoder refuses only on a section count that does not fit 16 bits or an RDATA longer than
    65 535 octets; in particular a well-formed message with fewer than 65 536 entries per section
    and no record at all is always accepted (so `C04_roundtrip` is not vacuous for lack of
    successful encodings). -/
theorem C04_encode_questions_only_ok (m : Message) (hq : m.questions.length < 65536)
    (ha : m.answers = []) (hn : m.authority = []) (hr : m.additional = []) :
    ∃ bs, encodeMessage m = .ok bs := by
  unfold encodeMessage
  simp [usizeToU16, hq, ha, hn, hr, encodeRRs]

/-! ### 8. Decoder outputs re-encode -/

/-- Every decoder output is a well-formed message: 16-bit ID and 4-bit opcode/rcode (from the
    mask-and-shift logic), well-formed owner and RDATA names, integer fields within their width,
    eight 16-bit AAAA groups, opaque RDATA shorter than 65 536 octets, and field values matching
    the *encoder's* layout of the record type. -/
theorem C04_decode_wf (bs : List UInt8) (m : Message) (h : decodeMessage bs = .ok m) : WfMsg m :=
  decodeMessage_wf h

/-- `Message::to_octets` succeeds on every well-formed message whose four section counts fit
    16 bits: no RDATA can exceed 65 535 octets (per-layout worst-case bound, names counted
    uncompressed at 255 octets, re-checked by `decide` over the generated layout table). -/
theorem C04_encode_total (m : Message) (hwf : WfMsg m) (hq : m.questions.length < 65536)
    (ha : m.answers.length < 65536) (hn : m.authority.length < 65536)
    (hr : m.additional.length < 65536) : ∃ bs, encodeMessage m = .ok bs :=
  encodeMessage_total m hwf hq ha hn hr

/-- The encoder accepts everything the decoder produces. -/
theorem C04_encode_total_on_decoded (bs : List UInt8) (m : Message)
    (h : decodeMessage bs = .ok m) : ∃ bs', encodeMessage m = .ok bs' := by
  obtain ⟨hq, ha, hn, hr⟩ := decodeMessage_counts h
  exact encodeMessage_total m (decodeMessage_wf h) hq ha hn hr

/-- Decode, re-encode, decode again: the same message (the octets may differ — e.g. other
    compression choices — but not the meaning). -/
theorem C04_reencode (bs : List UInt8) (m : Message) (h : decodeMessage bs = .ok m) :
    ∃ bs', encodeMessage m = .ok bs' ∧ decodeMessage bs' = .ok m := by
  obtain ⟨bs', h'⟩ := C04_encode_total_on_decoded bs m h
  exact ⟨bs', h', C04_roundtrip m bs' (C04_decode_wf bs m h) h'⟩

/-! ### 9. Compression pointers address earlier full copies of the same name -/

/-- In every encoder state reached from the empty buffer by steps on well-formed arguments
    (`EncReachWF`), whenever `DomainName::serialise(compress = true)` finds a table entry for `n`
    (i.e. emits a pointer), then: the pointer is `0xC000 + off`, `off` fits 14 bits and lies
    strictly inside the octets already written; the two octets emitted are
    `0xC0 + off / 256, off % 256`; and the `n.len` octets at `off` are exactly the uncompressed
    encoding `flatLabels n.labels` of the *same* name `n` — a pointer-free name of the grammar
    (`PlainWireName`, root/label constructors only) that the decoder, started at `off` with any
    pointer bound, reads as `n`, on the buffer as it stands and on any extension of it. -/
theorem C04_pointer_targets_are_names (b : WBuf) (hb : EncReachWF b) (n : Name) (p : Nat)
    (hp : b.namePointer n = some p) :
    ∃ off, p = 0xC000 + off ∧ off < 16384 ∧ off < b.octets.length ∧
      off + n.len ≤ b.octets.length ∧ NameWF n ∧
      encodeName b n true = b.writeOctets [u8 (0xC0 + off / 256), u8 (off % 256)] ∧
      (b.octets.drop off).take n.len = flatLabels n.labels ∧
      (∀ post, PlainWireName (b.octets ++ post) off n.labels n.len (off + n.len)) ∧
      (∀ id start post,
        decodeNameLoop id (b.octets ++ post) start off 0 [] = .ok (n, off + n.len)) ∧
      (∀ id post, decodeName id (b.octets ++ post) off = .ok (n, off + n.len)) := by
  obtain ⟨off, h1, h2, h3, h4, h5, h6, h7, h8⟩ := pointer_target b n p hb.nameInv hp
  obtain ⟨off', h1', _, _, h9⟩ := encodeName_pointer b n p hb.nameInv.tableInv hp
  have : off' = off := by omega
  subst this
  exact ⟨off', h1, h2, h4, h3, h5, h9, h6, h7, h8, fun id post => h8 id off' post⟩

/-- The same under the bare invariant `NameInv` (no reachability needed). -/
theorem C04_pointer_targets_of_inv (b : WBuf) (hinv : NameInv b) (n : Name) (p : Nat)
    (hp : b.namePointer n = some p) :
    ∃ off, p = 0xC000 + off ∧ off < 16384 ∧ off < b.octets.length ∧
      off + n.len ≤ b.octets.length ∧ NameWF n ∧
      (b.octets.drop off).take n.len = flatLabels n.labels ∧
      (∀ post, PlainWireName (b.octets ++ post) off n.labels n.len (off + n.len)) ∧
      (∀ id post, decodeName id (b.octets ++ post) off = .ok (n, off + n.len)) := by
  obtain ⟨off, h1, h2, h3, h4, h5, h6, h7, h8⟩ := pointer_target b n p hinv hp
  exact ⟨off, h1, h2, h4, h3, h5, h6, h7, fun id post => h8 id off post⟩

/-- A pointer-free name is a name of the grammar for every pointer bound, and is contiguous. -/
theorem C04_plain_is_wirename (buf : List UInt8) (pos : Nat) (ls : List Label) (l e s : Nat)
    (h : PlainWireName buf pos ls l e) : WireName buf s pos ls l e ∧ e = pos + l :=
  ⟨h.toWireName s, h.end_eq⟩

/-- The strong invariant holds in every `EncReachWF` state … -/
theorem C04_name_inv_reachable (b : WBuf) (h : EncReachWF b) : NameInv b ∧ TableInv b :=
  ⟨h.nameInv, h.nameInv.tableInv⟩

/-- … and the states `Message::to_octets` passes through on a well-formed message are such
    states: after the header and counts (`b0`), after the question section (`bQ`), after each
    record section (`bA`, `bN`, `bR`; the octets returned are those of `bR`). -/
theorem C04_to_octets_states (m : Message) (bs : List UInt8) (hwf : WfMsg m)
    (h : encodeMessage m = .ok bs) :
    ∃ b0 bQ bA bN bR : WBuf,
      b0 = ((((encodeHeader WBuf.empty m.header).writeU16 m.questions.length).writeU16
        m.answers.length).writeU16 m.authority.length).writeU16 m.additional.length ∧
      bQ = m.questions.foldl encodeQuestion b0 ∧
      encodeRRs bQ m.answers = .ok bA ∧ encodeRRs bA m.authority = .ok bN ∧
      encodeRRs bN m.additional = .ok bR ∧ bR.octets = bs ∧
      EncReachWF b0 ∧ EncReachWF bQ ∧ EncReachWF bA ∧ EncReachWF bN ∧ EncReachWF bR :=
  encodeMessage_reach m bs hwf h

/-- Between those: from an `EncReachWF` state, the state in which the question after any prefix
    `qs1` of a well-formed question list is serialised is `EncReachWF`; likewise the state `b1`
    in which the record after any prefix `r1` of a well-formed section is serialised; and inside
    a well-formed record, the (pre-back-patch) state in which the RDATA field after any `k` fields
    is serialised.  Hence `C04_pointer_targets_are_names` applies to every `DomainName::serialise`
    call made by `Message::to_octets` on a well-formed message. -/
theorem C04_to_octets_inner_states (b : WBuf) (hb : EncReachWF b) :
    (∀ (qs qs1 qs2 : List Question) (q : Question), (∀ q ∈ qs, QuestionWF q) →
      qs = qs1 ++ q :: qs2 → EncReachWF (qs1.foldl encodeQuestion b)) ∧
    (∀ (rrs r1 r2 : List RR) (r : RR) (b' : WBuf), (∀ r ∈ rrs, RRWF r) → rrs = r1 ++ r :: r2 →
      encodeRRs b rrs = .ok b' →
      ∃ b1 b2, encodeRRs b r1 = .ok b1 ∧ EncReachWF b1 ∧ encodeRR b1 r = .ok b2 ∧
        encodeRRs b2 r2 = .ok b') ∧
    (∀ (rr : RR) (k : Nat), RRWF rr →
      EncReachWF (encodeFields
        (((((encodeName b rr.name rrNameCompress).writeU16 rr.rtype).writeU16 rr.rclass).writeU32
          rr.ttl).writeU16 0)
        ((encodeLayoutOf rr.rtype).take k) (rr.fields.take k)) ∧
      encodeFields
        (((((encodeName b rr.name rrNameCompress).writeU16 rr.rtype).writeU16 rr.rclass).writeU32
          rr.ttl).writeU16 0) (encodeLayoutOf rr.rtype) rr.fields
        = encodeFields (encodeFields
            (((((encodeName b rr.name rrNameCompress).writeU16 rr.rtype).writeU16
              rr.rclass).writeU32 rr.ttl).writeU16 0)
            ((encodeLayoutOf rr.rtype).take k) (rr.fields.take k))
          ((encodeLayoutOf rr.rtype).drop k) (rr.fields.drop k)) :=
  ⟨fun _ _ _ _ hwf hs => hb.questions_prefix hwf hs,
   fun _ _ _ _ _ hwf hs he => hb.rrs_prefix hwf hs he,
   fun _ k hwf => ⟨hb.rdata_prefix hwf k, encodeFields_take_drop _ _ k _⟩⟩

/-! ### Non-vacuity on concrete values

`C04ex.msg` (Proofs/WireEncodeDec.lean): a response with one question and two answers (A, MX) that
all share the owner name `a.bc.`; `C04ex.bytes`: its 58 octets, in which both answer owner names are
the compression pointer `C0 0C`. -/

example : WfMsg C04ex.msg := by decide
example : encodeMessage C04ex.msg = .ok C04ex.bytes := by decide
/-- the decoder (well-founded recursion, not evaluable by `decide`) is run by the theorem -/
example : decodeMessage C04ex.bytes = .ok C04ex.msg := C04_roundtrip _ _ (by decide) (by decide)

example : (encodeHeader WBuf.empty ⟨0xBEEF, true, 2, false, true, true, false, 5⟩).octets
    = [190, 239, 147, 5] := by decide
example : decodeFlags 0xBEEF 147 5 = ⟨0xBEEF, true, 2, false, true, true, false, 5⟩ := by decide
example : HeaderWF ⟨0xBEEF, true, 2, false, true, true, false, 5⟩ := by decide
example : nextU16 [7, 1, 2, 9] 1 = some (258, 3) := by decide
example : u32Bytes 0x01020304 = [1, 2, 3, 4] := by decide
example : NameWF C04ex.name := by decide
/-- a table entry at offset 12 and the pointer written for it -/
example : (encodeName ⟨List.replicate 12 0 ++ [1, 97, 0], [(⟨[[97], []], 3⟩, 0xC00C)]⟩
    ⟨[[97], []], 3⟩ true).octets = List.replicate 12 0 ++ [1, 97, 0, 192, 12] := by decide
example : encodeLayoutOf 6 = [.name false, .name false, .u32, .u32, .u32, .u32, .u32] := by decide
example : encodeLayoutOf 4711 = [.opaque] := by decide
/-- decode ∘ encode ∘ decode on the concrete message, through `C04_reencode` -/
example : ∃ bs', encodeMessage C04ex.msg = .ok bs' ∧ decodeMessage bs' = .ok C04ex.msg :=
  C04_reencode C04ex.bytes _ (C04_roundtrip _ _ (by decide) (by decide))
/-- a state with a table entry satisfying the strong invariant exists and emits a pointer:
    after serialising `a.` at offset 12, the table maps `a.` to `0xC00C` -/
example : (encodeName ⟨List.replicate 12 0, []⟩ ⟨[[97], []], 3⟩ true).namePointer ⟨[[97], []], 3⟩
    = some 0xC00C := by decide
example : layoutMaxLen (encodeLayoutOf 6) = 530 := by decide
/-- the hypotheses of `C04_pointer_targets_are_names` are satisfiable: a reachable state whose
    table has an entry for the name being serialised -/
example : EncReachWF (encodeName WBuf.empty ⟨[[97], []], 3⟩ true) :=
  .encodeName _ _ (by decide) .empty
example : (encodeName WBuf.empty ⟨[[97], []], 3⟩ true).namePointer ⟨[[97], []], 3⟩
    = some 0xC000 := by decide

end Resolved
