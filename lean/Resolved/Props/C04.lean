/-
  C04 — Encoding then decoding a message returns the same message.
  FIRST-CLAIM version (table invariant, name and message round trips are being added).
-/
import Resolved.Spec.Wire

namespace Resolved

open Gen

/-- The serialiser writes, per record type, exactly the field sequence the deserialiser reads
    (re-checked against the layouts extracted from the Rust source on every run). -/
theorem C04_layouts_agree : rdataDecodeLayout = rdataEncodeLayout := by decide

theorem C04_layout_of_agree (code : Nat) : decodeLayoutOf code = encodeLayoutOf code := by
  unfold decodeLayoutOf encodeLayoutOf; rw [C04_layouts_agree]

/-- A compression pointer is only recorded for offsets that fit its 14 bits. -/
theorem C04_memoise_fits (b : WBuf) (n : Name) (k : Name) (p : Nat)
    (hinv : ∀ k p, (k, p) ∈ b.namePointers → ∃ off, p = 0xC000 + off ∧ off < 16384)
    (h : (k, p) ∈ (b.memoiseName n).namePointers) : ∃ off, p = 0xC000 + off ∧ off < 16384 := by
  unfold WBuf.memoiseName at h
  split at h
  · split at h
    · rename_i hlt
      simp at h
      rcases h with h | ⟨_, rfl⟩
      · exact hinv k p h
      · exact ⟨b.index, rfl, hlt⟩
    · exact hinv k p h
  · exact hinv k p h

end Resolved
