/-
  C09 — The server answers every message correctly framed and never goes down.
  For EVERY resolver (any function from a question and a "recursive?" flag to a result), both
  `authoritative_only` settings and every byte string.  Property theorems only; helper lemmas
  (`srv_…`) and the auxiliary definitions `srvBase`, `srvRcodeReply`, `srvReplyOf`, `srvNotImp`,
  `srvTcOf`, `srvTcOctet`, `srvSendUdp`, `srvSendTcp` (serialise with fallback, then frame),
  `srvResultWF` live in
  Proofs/ServerLemmas.lean.

  What the model (and the Rust it mirrors) does that the prose of the property does not say:
  * an *undecodable* buffer of two or more octets gets FORMERR even when its QR bit is set
    (`C09_formerr` has no "not a response" hypothesis; `C09_reply_iff` is exact);
  * a standard query with zero questions gets SERVFAIL (`C09_no_question`);
  * FORMERR and NOTIMP replies always say RA = 1, also in authoritative-only mode
    (`C09_ra_fixed_replies`, `C09_ra_all_replies_statement` and its refutation); RA reflects the
    configuration on standard queries (`C09_ra`, `C09_ra_all_replies_partial`);
  * over TCP the message is the first `expected` octets delivered (`read_tcp_bytes` allocates
    exactly the announced capacity): `C09_tcp_message_is_the_announced_prefix`,
    `C09_tcp_tiny_prefix_silent`; the statements that handled the whole delivered buffer are kept
    as `…_statement_before_tcpread_fix` with their refutations;
  * a reply that `Message::to_octets` refuses (e.g. 65 536 records from the resolver) is replaced
    by its SERVFAIL fallback (`serialise_response`, fix f78391d; before it nothing was sent):
    `C09_fallback_shape`, `C09_fallback_only_on_encode_error`, `C09_serialise_reply_total`, and
    `C09_every_query_answered` now holds for every resolver.
-/
import Resolved.Props.C03
import Resolved.Props.C04
import Resolved.Proofs.ServerLemmas
import Resolved.GeneratedServer

namespace Resolved

open Gen

/-! ## 0. First-claim theorems (kept) -/

/-- UDP replies never exceed 512 octets. -/
theorem C09_udp_frame_le (bytes out : List UInt8) (h : udpFrame bytes = some out) :
    out.length ≤ 512 := by
  unfold udpFrame at h
  split at h
  · cases h
  · split at h
    · cases h; simp [Gen.UDP_MAX]; omega
    · rename_i h1 h2; cases h
      unfold setTcBit; split <;> simp [Gen.UDP_MAX] at * <;> omega

/-- TCP replies carry their exact length as prefix (messages up to 65 535 octets). -/
theorem C09_tcp_frame_prefix (bytes out : List UInt8) (hlen : bytes.length ≤ 65535)
    (h : tcpFrame bytes = some out) : out.take 2 = u16Bytes bytes.length ∧ out.length = 2 + bytes.length := by
  unfold tcpFrame at h
  split at h
  · cases h
  · cases h
    constructor
    · simp [u16Bytes]
    · unfold setTcBit; split <;> simp [u16Bytes] <;> omega

/-- A message flagged as a response is never answered. -/
theorem C09_no_reply_to_response (authOnly : Bool) (resolver : ServerResolver) (buf : List UInt8) (m : Message)
    (hd : decodeMessage buf = .ok m) (hr : m.header.isResponse = true) :
    handleRawMessage authOnly resolver buf = none := by
  unfold handleRawMessage; rw [hd]; simp [hr]

/-- Every reply to a parseable message echoes its ID and has the response flag set. -/
theorem C09_reply_header (authOnly : Bool) (resolver : ServerResolver) (buf : List UInt8) (m r : Message)
    (hd : decodeMessage buf = .ok m) (h : handleRawMessage authOnly resolver buf = some r) :
    r.header.id = m.header.id ∧ r.header.isResponse = true ∧ r.header.opcode = m.header.opcode ∧
    r.header.recursionDesired = m.header.recursionDesired ∧ r.questions = m.questions := by
  unfold handleRawMessage at h
  rw [hd] at h
  simp only at h
  split at h
  · cases h
  · split at h
    · cases h
      unfold resolveAndBuildResponse
      simp only
      repeat' split
      all_goals simp [makeResponse]
    · cases h; simp [makeResponse]

/-! ## 1. Which buffers get a reply -/

/-- **Silence is exact.**  `handle_raw_message` stays silent exactly on buffers of fewer than two
    octets (no ID to answer to) and on buffers that decode to a message flagged as a response. -/
theorem C09_reply_iff (authOnly : Bool) (resolver : ServerResolver) (buf : List UInt8) :
    handleRawMessage authOnly resolver buf = none ↔
      buf.length < 2 ∨ ∃ m, decodeMessage buf = .ok m ∧ m.header.isResponse = true := by
  cases hd : decodeMessage buf with
  | error e =>
    rw [srv_handle_error hd]
    constructor
    · intro h
      left
      exact (C03_no_id_iff_short buf e hd).mp (by simpa using h)
    · rintro (h | ⟨m, hm, _⟩)
      · simp [(C03_no_id_iff_short buf e hd).mpr h]
      · cases hm
  | ok m =>
    have h12 := srv_decode_ok_len hd
    cases hr : m.header.isResponse with
    | true =>
      rw [srv_handle_response hd hr]
      exact ⟨fun _ => .inr ⟨m, rfl, hr⟩, fun _ => rfl⟩
    | false =>
      constructor
      · intro h
        by_cases ho : m.header.opcode = OPCODE_STANDARD
        · rw [srv_handle_query hd hr ho] at h; cases h
        · rw [srv_handle_notimp hd hr ho] at h; cases h
      · rintro (h | ⟨m', hm', hr'⟩)
        · omega
        · cases hm'; rw [hr] at hr'; cases hr'

/-- Every reply carries the ID found in the first two octets of the buffer and has QR set —
    whether the buffer decoded or not. -/
theorem C09_reply_id (authOnly : Bool) (resolver : ServerResolver) (buf : List UInt8) (reply : Message)
    (h2 : 2 ≤ buf.length) (h : handleRawMessage authOnly resolver buf = some reply) :
    reply.header.id = (buf[0]'(by omega)).toNat * 256 + (buf[1]'(by omega)).toNat ∧
    reply.header.isResponse = true ∧ reply.header.isTruncated = false := by
  cases hd : decodeMessage buf with
  | error e =>
    rw [srv_handle_error hd, C03_id_on_error buf e hd h2] at h
    cases h
    exact ⟨rfl, rfl, rfl⟩
  | ok m =>
    have hid : m.header.id = (buf[0]'(by omega)).toNat * 256 + (buf[1]'(by omega)).toNat := by
      have h1 := (C03_section_counts buf m hd).2.1
      unfold nextU16 at h1
      rw [dif_pos (by omega)] at h1
      simp only [Option.some.injEq, Prod.mk.injEq] at h1
      exact h1.1.symm
    cases hr : m.header.isResponse with
    | true => rw [srv_handle_response hd hr] at h; cases h
    | false =>
      by_cases ho : m.header.opcode = OPCODE_STANDARD
      · rw [srv_handle_query hd hr ho] at h
        cases h
        rcases srv_rabr_cases authOnly resolver m with h' | h' | ⟨q, _, _, h'⟩ <;> rw [h']
        · exact ⟨hid, rfl, rfl⟩
        · exact ⟨hid, rfl, rfl⟩
        · obtain ⟨f1, f2, _, f4, _⟩ := srv_replyOf_fields authOnly m
            (resolver q (m.header.recursionDesired && !authOnly))
          exact ⟨f1.trans hid, f2, f4⟩
      · rw [srv_handle_notimp hd hr ho] at h
        cases h
        exact ⟨hid, rfl, rfl⟩

/-- **Exactly one reply message** for every buffer of two or more octets that is not a decodable
    response: `handle_raw_message` is a function, and it is defined there. -/
theorem C09_one_reply (authOnly : Bool) (resolver : ServerResolver) (buf : List UInt8)
    (h2 : 2 ≤ buf.length) (hq : ∀ m, decodeMessage buf = .ok m → m.header.isResponse = false) :
    ∃ reply, handleRawMessage authOnly resolver buf = some reply ∧
      ∀ reply', handleRawMessage authOnly resolver buf = some reply' → reply' = reply := by
  cases h : handleRawMessage authOnly resolver buf with
  | none =>
    rcases (C09_reply_iff authOnly resolver buf).mp h with h' | ⟨m, hm, hr⟩
    · omega
    · rw [hq m hm] at hr; cases hr
  | some reply => exact ⟨reply, rfl, fun _ h' => by cases h'; rfl⟩

/-! ## 2. FORMERR -/

/-- An undecodable buffer of at least two octets gets the FORMERR reply for the ID in its first
    two octets: RCODE 1, QR set, opcode 0, no flags but RA, all four sections empty. -/
theorem C09_formerr (authOnly : Bool) (resolver : ServerResolver) (buf : List UInt8) (e : DErr)
    (hd : decodeMessage buf = .error e) (h2 : 2 ≤ buf.length) :
    handleRawMessage authOnly resolver buf =
      some (makeFormatErrorResponse ((buf[0]'(by omega)).toNat * 256 + (buf[1]'(by omega)).toNat)) := by
  rw [srv_handle_error hd, C03_id_on_error buf e hd h2]; rfl

/-- the FORMERR message, field by field -/
theorem C09_formerr_shape (id : Nat) :
    (makeFormatErrorResponse id).header.id = id ∧
    (makeFormatErrorResponse id).header.rcode = RCODE_FORMERR ∧ RCODE_FORMERR = 1 ∧
    (makeFormatErrorResponse id).header.isResponse = true ∧
    (makeFormatErrorResponse id).header.opcode = 0 ∧
    (makeFormatErrorResponse id).header.isAuthoritative = false ∧
    (makeFormatErrorResponse id).header.isTruncated = false ∧
    (makeFormatErrorResponse id).header.recursionDesired = false ∧
    (makeFormatErrorResponse id).questions = [] ∧ (makeFormatErrorResponse id).answers = [] ∧
    (makeFormatErrorResponse id).authority = [] ∧ (makeFormatErrorResponse id).additional = [] :=
  ⟨rfl, rfl, rfl, rfl, rfl, rfl, rfl, rfl, rfl, rfl, rfl, rfl⟩

/-- … and on the wire: twelve octets, `ID, 0x80, 0x81, 0 × 8` (QR; RA + RCODE 1; four zero
    counts); they fit every frame unchanged. -/
theorem C09_formerr_wire (id : Nat) :
    encodeMessage (makeFormatErrorResponse id) =
      .ok (u16Bytes id ++ [128, 129, 0, 0, 0, 0, 0, 0, 0, 0]) ∧
    srvSendUdp (some (makeFormatErrorResponse id)) =
      some (u16Bytes id ++ [128, 129, 0, 0, 0, 0, 0, 0, 0, 0]) ∧
    srvSendTcp (some (makeFormatErrorResponse id)) =
      some ([0, 12] ++ (u16Bytes id ++ [128, 129, 0, 0, 0, 0, 0, 0, 0, 0])) := by
  refine ⟨srv_formerr_encode id, ?_, ?_⟩
  · simp only [srvSendUdp, srv_serialise_ok (srv_formerr_encode id)]; rfl
  · simp only [srvSendTcp, srv_serialise_ok (srv_formerr_encode id)]
    simp [tcpFrame, u16Bytes, setTcBit, u8]

/-! ## 3. NOTIMP -/

/-- A decodable query whose opcode is not "standard query" gets NOTIMP: the question section is
    echoed, no records, AA and TC clear, RD echoed, the resolver is not consulted. -/
theorem C09_notimp (authOnly : Bool) (buf : List UInt8) (m : Message)
    (hd : decodeMessage buf = .ok m) (hq : m.header.isResponse = false)
    (ho : m.header.opcode ≠ OPCODE_STANDARD) :
    ∃ reply, (∀ resolver, handleRawMessage authOnly resolver buf = some reply) ∧
      reply.header.rcode = RCODE_NOTIMP ∧ RCODE_NOTIMP = 4 ∧
      reply.header.id = m.header.id ∧ reply.header.isResponse = true ∧
      reply.header.opcode = m.header.opcode ∧ reply.header.isAuthoritative = false ∧
      reply.header.isTruncated = false ∧
      reply.header.recursionDesired = m.header.recursionDesired ∧
      reply.questions = m.questions ∧ reply.answers = [] ∧ reply.authority = [] ∧
      reply.additional = [] ∧
      reply = { makeResponse m with header := { (makeResponse m).header with rcode := RCODE_NOTIMP } } :=
  ⟨srvNotImp m, fun _ => srv_handle_notimp hd hq ho,
    rfl, rfl, rfl, rfl, rfl, rfl, rfl, rfl, rfl, rfl, rfl, rfl, rfl⟩

/-! ## 4. REFUSED and the zero-question case -/

/-- A decodable standard query with two or more questions, or with one question of unknown type
    or class, gets REFUSED with empty record sections and AA clear; the reply is the same for
    every resolver (the resolver is not consulted). -/
theorem C09_refused (authOnly : Bool) (buf : List UInt8) (m : Message)
    (hd : decodeMessage buf = .ok m) (hq : m.header.isResponse = false)
    (ho : m.header.opcode = OPCODE_STANDARD)
    (hbad : 2 ≤ m.questions.length ∨ ∃ q, m.questions = [q] ∧ questionIsUnknown q = true) :
    ∃ reply, (∀ resolver, handleRawMessage authOnly resolver buf = some reply) ∧
      reply.header.rcode = RCODE_REFUSED ∧ RCODE_REFUSED = 5 ∧
      reply.answers = [] ∧ reply.authority = [] ∧ reply.additional = [] ∧
      reply.header.isAuthoritative = false ∧ reply.questions = m.questions ∧
      reply.header.id = m.header.id ∧ reply.header.isResponse = true ∧
      reply.header.opcode = m.header.opcode ∧ reply.header.isTruncated = false ∧
      reply.header.recursionDesired = m.header.recursionDesired ∧
      reply.header.recursionAvailable = !authOnly := by
  have ht : triage m = .error () := by
    rcases hbad with h | ⟨q, h1, h2⟩
    · exact srv_triage_many h
    · exact srv_triage_one_unknown h1 h2
  refine ⟨srvRcodeReply authOnly m RCODE_REFUSED, fun resolver => ?_,
    rfl, rfl, rfl, rfl, rfl, rfl, rfl, rfl, rfl, rfl, rfl, rfl, rfl⟩
  rw [srv_handle_query hd hq ho, srv_rabr_refused authOnly resolver m ht]

/-- A decodable standard query with an empty question section: the model (as the Rust: `triage`
    returns `Ok(None)`, nothing is resolved, and the final "no answer, no authority, NOERROR"
    check fires) yields SERVFAIL with all sections empty, for every resolver. -/
theorem C09_no_question (authOnly : Bool) (buf : List UInt8) (m : Message)
    (hd : decodeMessage buf = .ok m) (hq : m.header.isResponse = false)
    (ho : m.header.opcode = OPCODE_STANDARD) (hz : m.questions = []) :
    ∃ reply, (∀ resolver, handleRawMessage authOnly resolver buf = some reply) ∧
      reply.header.rcode = RCODE_SERVFAIL ∧ RCODE_SERVFAIL = 2 ∧
      reply.questions = [] ∧ reply.answers = [] ∧ reply.authority = [] ∧ reply.additional = [] ∧
      reply.header.isAuthoritative = false ∧
      reply.header.id = m.header.id ∧ reply.header.isResponse = true ∧
      reply.header.opcode = m.header.opcode ∧ reply.header.isTruncated = false ∧
      reply.header.recursionDesired = m.header.recursionDesired ∧
      reply.header.recursionAvailable = !authOnly := by
  refine ⟨srvRcodeReply authOnly m RCODE_SERVFAIL, fun resolver => ?_,
    rfl, rfl, hz, rfl, rfl, rfl, rfl, rfl, rfl, rfl, rfl, rfl, rfl⟩
  rw [srv_handle_query hd hq ho, srv_rabr_no_question authOnly resolver m (srv_triage_nil hz)]

/-! ## 5. RA and the recursion flag handed to the resolver -/

/-- On every standard query RA says whether recursion is offered: RA = ¬ authoritative_only. -/
theorem C09_ra (authOnly : Bool) (resolver : ServerResolver) (m : Message) :
    (resolveAndBuildResponse authOnly resolver m).header.recursionAvailable = !authOnly := by
  rcases srv_rabr_cases authOnly resolver m with h | h | ⟨q, _, _, h⟩ <;> rw [h]
  · rfl
  · rfl
  · exact (srv_replyOf_fields authOnly m _).2.2.2.2.2.1

/-- the same through `handle_raw_message` -/
theorem C09_ra_handle (authOnly : Bool) (resolver : ServerResolver) (buf : List UInt8)
    (m reply : Message) (hd : decodeMessage buf = .ok m) (ho : m.header.opcode = OPCODE_STANDARD)
    (h : handleRawMessage authOnly resolver buf = some reply) :
    reply.header.recursionAvailable = !authOnly := by
  cases hr : m.header.isResponse with
  | true => rw [srv_handle_response hd hr] at h; cases h
  | false =>
    rw [srv_handle_query hd hr ho] at h
    cases h
    exact C09_ra authOnly resolver m

/-- FORMERR and NOTIMP replies say RA = 1 whatever the configuration (so "RA reflects whether
    recursion is offered" holds for standard queries only). -/
theorem C09_ra_fixed_replies (id : Nat) (m : Message) :
    (makeFormatErrorResponse id).header.recursionAvailable = true ∧
    (srvNotImp m).header.recursionAvailable = true := ⟨rfl, rfl⟩

/-- The resolver is consulted at most once, for the single question, with the flag
    `RD ∧ ¬ authoritative_only`: two resolvers that agree on that one input give the same reply.
    In particular an authoritative-only server never asks for recursion. -/
theorem C09_resolver_input (authOnly : Bool) (r1 r2 : ServerResolver) (m : Message)
    (hagree : ∀ q ∈ m.questions,
      r1 q (m.header.recursionDesired && !authOnly) = r2 q (m.header.recursionDesired && !authOnly)) :
    resolveAndBuildResponse authOnly r1 m = resolveAndBuildResponse authOnly r2 m := by
  rcases srv_triage_cases m with h | h | ⟨q, h⟩
  · rw [srv_rabr_refused _ _ _ h, srv_rabr_refused _ _ _ h]
  · rw [srv_rabr_no_question _ _ _ h, srv_rabr_no_question _ _ _ h]
  · rw [srv_rabr_question _ _ _ _ h, srv_rabr_question _ _ _ _ h,
      hagree q (by rw [(srv_triage_some h).1]; simp)]

theorem C09_resolver_input_handle (authOnly : Bool) (r1 r2 : ServerResolver) (buf : List UInt8)
    (hagree : ∀ m, decodeMessage buf = .ok m → ∀ q ∈ m.questions,
      r1 q (m.header.recursionDesired && !authOnly) = r2 q (m.header.recursionDesired && !authOnly)) :
    handleRawMessage authOnly r1 buf = handleRawMessage authOnly r2 buf := by
  unfold handleRawMessage
  cases hd : decodeMessage buf with
  | error e => rfl
  | ok m => simp only [C09_resolver_input authOnly r1 r2 m (hagree m hd)]

/-- an authoritative-only server hands `false` to the resolver -/
theorem C09_auth_only_no_recursion (m : Message) :
    (m.header.recursionDesired && !true) = false := by simp

/-! ## 6. SERVFAIL -/

/-- No reply to a standard query says NOERROR with neither an answer nor an authority record. -/
theorem C09_never_empty_noerror (authOnly : Bool) (resolver : ServerResolver) (m : Message) :
    ¬ ((resolveAndBuildResponse authOnly resolver m).header.rcode = RCODE_NOERROR ∧
        (resolveAndBuildResponse authOnly resolver m).answers = [] ∧
        (resolveAndBuildResponse authOnly resolver m).authority = []) := by
  rcases srv_rabr_cases authOnly resolver m with h | h | ⟨q, _, _, h⟩ <;> rw [h]
  · intro hc; exact absurd hc.1 (by show RCODE_REFUSED ≠ RCODE_NOERROR; decide)
  · intro hc; exact absurd hc.1 (by show RCODE_SERVFAIL ≠ RCODE_NOERROR; decide)
  · exact (srv_replyOf_servfail authOnly m _).1

/-- … nor does any reply of `handle_raw_message` at all. -/
theorem C09_never_empty_noerror_handle (authOnly : Bool) (resolver : ServerResolver)
    (buf : List UInt8) (reply : Message) (h : handleRawMessage authOnly resolver buf = some reply) :
    ¬ (reply.header.rcode = RCODE_NOERROR ∧ reply.answers = [] ∧ reply.authority = []) := by
  cases hd : decodeMessage buf with
  | error e =>
    rw [srv_handle_error hd] at h
    cases hid : e.id with
    | none => rw [hid] at h; cases h
    | some id =>
      rw [hid] at h; cases h
      intro hc; exact absurd hc.1 (by show RCODE_FORMERR ≠ RCODE_NOERROR; decide)
  | ok m =>
    cases hr : m.header.isResponse with
    | true => rw [srv_handle_response hd hr] at h; cases h
    | false =>
      by_cases ho : m.header.opcode = OPCODE_STANDARD
      · rw [srv_handle_query hd hr ho] at h; cases h
        exact C09_never_empty_noerror authOnly resolver m
      · rw [srv_handle_notimp hd hr ho] at h; cases h
        intro hc; exact absurd hc.1 (by show RCODE_NOTIMP ≠ RCODE_NOERROR; decide)

/-- A SERVFAIL reply carries no answer, no authority record and is not authoritative. -/
theorem C09_servfail_empty (authOnly : Bool) (resolver : ServerResolver) (m : Message)
    (h : (resolveAndBuildResponse authOnly resolver m).header.rcode = RCODE_SERVFAIL) :
    (resolveAndBuildResponse authOnly resolver m).answers = [] ∧
    (resolveAndBuildResponse authOnly resolver m).authority = [] ∧
    (resolveAndBuildResponse authOnly resolver m).additional = [] ∧
    (resolveAndBuildResponse authOnly resolver m).header.isAuthoritative = false := by
  rcases srv_rabr_cases authOnly resolver m with h' | h' | ⟨q, _, _, h'⟩ <;> rw [h'] at h ⊢
  · exact ⟨rfl, rfl, rfl, rfl⟩
  · exact ⟨rfl, rfl, rfl, rfl⟩
  · obtain ⟨h1, h2, h3⟩ := (srv_replyOf_servfail authOnly m _).2 h
    exact ⟨h1, h2, (srv_replyOf_fields authOnly m _).2.2.2.2.2.2.2.2.2, h3⟩

/-- SERVFAIL is sent exactly when there is nothing to say: no question, a resolver error, or a
    non-authoritative result with no record and no SOA. -/
theorem C09_servfail_iff (authOnly : Bool) (resolver : ServerResolver) (m : Message) :
    (resolveAndBuildResponse authOnly resolver m).header.rcode = RCODE_SERVFAIL ↔
      (m.questions = [] ∨
       ∃ q, m.questions = [q] ∧ questionIsUnknown q = false ∧
         ((∃ e, resolver q (m.header.recursionDesired && !authOnly) = .error e) ∨
          resolver q (m.header.recursionDesired && !authOnly) = .ok (.nonAuthoritative [] none))) := by
  rcases srv_triage_cases m with h | h | ⟨q, h⟩
  · rw [srv_rabr_refused _ _ _ h]
    constructor
    · intro hc; exact absurd hc (by show RCODE_REFUSED ≠ RCODE_SERVFAIL; decide)
    · rintro (hz | ⟨q, h1, h2, _⟩)
      · rw [srv_triage_nil hz] at h; cases h
      · rw [srv_triage_one_known h1 h2] at h; cases h
  · rw [srv_rabr_no_question _ _ _ h]
    constructor
    · intro _
      left
      match hq : m.questions with
      | [] => rfl
      | [q] =>
        by_cases hk : questionIsUnknown q = true
        · rw [srv_triage_one_unknown hq hk] at h; cases h
        · rw [srv_triage_one_known hq (by simpa using hk)] at h; cases h
      | _ :: _ :: _ => rw [srv_triage_many (by rw [hq]; simp)] at h; cases h
    · intro _; rfl
  · obtain ⟨h1, h2⟩ := srv_triage_some h
    rw [srv_rabr_question _ _ _ _ h, (srv_replyOf_aa_rcode authOnly m _).2.2.1]
    constructor
    · intro hc; exact .inr ⟨q, h1, h2, hc⟩
    · rintro (hz | ⟨q', h1', _, hc⟩)
      · rw [hz] at h1; cases h1
      · rw [h1] at h1'; cases h1'; exact hc

/-! ## 7. The reply to one known question -/

/-- One question of known type and class: the reply is a function of the resolver's result.
    AA is set exactly on authoritative results (answer or name error); RCODE is NXDOMAIN exactly
    on an authoritative name error, and otherwise NOERROR or SERVFAIL; the answer section is
    exactly the resolver's records, the authority section exactly the SOA when there is one, the
    additional section is always empty. -/
theorem C09_aa_iff (authOnly : Bool) (resolver : ServerResolver) (m : Message) (q : Question)
    (hq : m.questions = [q]) (hk : questionIsUnknown q = false) :
    let res := resolver q (m.header.recursionDesired && !authOnly)
    let reply := resolveAndBuildResponse authOnly resolver m
    (reply.header.isAuthoritative = true ↔
      ((∃ rrs soa, res = .ok (.authoritative rrs soa)) ∨
       ∃ soa, res = .ok (.authoritativeNameError soa))) ∧
    (reply.header.rcode = RCODE_NAMEERROR ↔ ∃ soa, res = .ok (.authoritativeNameError soa)) ∧
    (reply.header.rcode = RCODE_SERVFAIL ↔
      ((∃ e, res = .error e) ∨ res = .ok (.nonAuthoritative [] none))) ∧
    (reply.header.rcode = RCODE_NOERROR ∨ reply.header.rcode = RCODE_NAMEERROR ∨
      reply.header.rcode = RCODE_SERVFAIL) ∧
    reply.answers = (match res with | .ok rec => rec.rrs | .error _ => []) ∧
    reply.authority = (match res with | .ok rec => rec.soaRR.toList | .error _ => []) ∧
    reply.additional = [] ∧ reply.questions = [q] := by
  intro res reply
  have hr : reply = srvReplyOf authOnly m res :=
    srv_rabr_question authOnly resolver m q (srv_triage_one_known hq hk)
  obtain ⟨a1, a2, a3, a4⟩ := srv_replyOf_aa_rcode authOnly m res
  obtain ⟨_, _, _, _, _, _, f7, f8, f9, f10⟩ := srv_replyOf_fields authOnly m res
  rw [hr]
  refine ⟨a1, a2, a3, a4, ?_, ?_, f10, f7.trans hq⟩
  · rw [f8]; cases res <;> rfl
  · rw [f9]; cases res <;> rfl

/-! ## 8. UDP framing -/

/-- **UDP replies: at most 512 octets, TC set exactly when cut short.**  For what
    `send_udp_bytes_to` puts on the wire (`out`) given the serialised reply (`bytes`):
    a reply longer than 512 octets is cut to exactly 512 with the TC bit (bit 1 of octet 2) set;
    a reply of at most 512 octets keeps its length and has the TC bit cleared; in both cases
    every octet but octet 2 is unchanged, and octet 2 is unchanged outside the TC bit. -/
theorem C09_udp_tc_iff (bytes out : List UInt8) (h : udpFrame bytes = some out) :
    (bytes.length > 512 →
      out.length = 512 ∧ srvTcOf out = some true ∧ ∀ i, i < 512 → i ≠ 2 → out[i]? = bytes[i]?) ∧
    (bytes.length ≤ 512 →
      out.length = bytes.length ∧ srvTcOf out = some false ∧ ∀ i, i ≠ 2 → out[i]? = bytes[i]?) ∧
    (∃ b b', bytes[2]? = some b ∧ out[2]? = some b' ∧ b'.toNat &&& 253 = b.toNat &&& 253 ∧
      (testBit b'.toNat HEADER_MASK_TC = true ↔ bytes.length > 512)) := by
  have h12 : 12 ≤ bytes.length := by
    apply Classical.byContradiction; intro hn
    rw [(srv_udpFrame_none_iff bytes).mpr (by omega)] at h; cases h
  have hb : bytes[2]? = some (bytes[2]'(by omega)) := List.getElem?_eq_getElem (by omega)
  by_cases hbig : bytes.length > 512
  · rw [srv_udpFrame_big hbig] at h
    cases h
    refine ⟨fun _ => ⟨?_, ?_, ?_⟩, fun hle => absurd hle (by omega), ?_⟩
    · rw [List.length_take, srv_setTcBit_length]; omega
    · rw [srv_tcOf_take _ _ (by omega), srv_setTcBit_tc _ _ (by omega)]
    · intro i hi hne
      rw [srv_take_get, if_pos hi, srv_setTcBit_get, if_neg hne]
    · refine ⟨_, srvTcOctet true (bytes[2]'(by omega)), hb, ?_, srv_tcOctet_others _ _, ?_⟩
      · rw [srv_take_get, if_pos (by omega), srv_setTcBit_get, if_pos rfl, hb]; rfl
      · rw [srv_tcOctet_bit]; simp [hbig]
  · rw [srv_udpFrame_small h12 (by omega)] at h
    cases h
    refine ⟨fun hgt => absurd hgt hbig, fun _ => ⟨srv_setTcBit_length _ _, ?_, ?_⟩, ?_⟩
    · exact srv_setTcBit_tc _ _ (by omega)
    · intro i hne
      rw [srv_setTcBit_get, if_neg hne]
    · refine ⟨_, srvTcOctet false (bytes[2]'(by omega)), hb, ?_, srv_tcOctet_others _ _, ?_⟩
      · rw [srv_setTcBit_get, if_pos rfl, hb]; rfl
      · rw [srv_tcOctet_bit]; simp [hbig]

/-- "cut short" said with lengths: the datagram is shorter than the serialised reply exactly when
    its TC bit is set. -/
theorem C09_udp_cut_iff_tc (bytes out : List UInt8) (h : udpFrame bytes = some out) :
    (out.length < bytes.length ↔ srvTcOf out = some true) ∧ out.length = min bytes.length 512 := by
  obtain ⟨h1, h2, _⟩ := C09_udp_tc_iff bytes out h
  by_cases hbig : bytes.length > 512
  · obtain ⟨a, b, _⟩ := h1 hbig
    exact ⟨⟨fun _ => b, fun _ => by omega⟩, by omega⟩
  · obtain ⟨a, b, _⟩ := h2 (by omega)
    refine ⟨⟨fun hlt => by omega, fun ht => ?_⟩, by omega⟩
    rw [b] at ht; cases ht

/-- What "TC bit" means here (`srvTcOf`): octet 2 exists and its bit of value 2 is set — in the
    mask form, the `/ 2 % 2` form, and as the decoder's `testBit … HEADER_MASK_TC`. -/
theorem C09_tc_bit_def (out : List UInt8) :
    (srvTcOf out = some true ↔ ∃ b, out[2]? = some b ∧ b.toNat &&& 2 ≠ 0) ∧
    (srvTcOf out = some true ↔ ∃ b, out[2]? = some b ∧ b.toNat / 2 % 2 = 1) ∧
    (srvTcOf out = some false ↔ ∃ b, out[2]? = some b ∧ b.toNat &&& 2 = 0) := by
  have key : ∀ x : Fin 256, (x.val &&& 2 ≠ 0 ↔ x.val / 2 % 2 = 1) := by decide +kernel
  unfold srvTcOf
  cases h : out[2]? with
  | none => simp
  | some b =>
    have hk := key ⟨b.toNat, b.toNat_lt⟩
    simp only at hk
    simp only [Option.map_some, Option.some.injEq, exists_eq_left', testBit, HEADER_MASK_TC,
      bne_iff_ne, ne_eq, ← hk, bne_eq_false_iff_eq, and_self]

/-- The TC bit of the datagram is the `isTruncated` the receiver decodes. -/
theorem C09_tc_bit_is_decoded_flag (out : List UInt8) (m : Message)
    (h : decodeMessage out = .ok m) : srvTcOf out = some m.header.isTruncated :=
  srv_decode_tc h

/-! ## 9. TCP framing -/

/-- A reply longer than 65 535 octets is cut to 65 535, announced as such, with TC set. -/
theorem C09_tcp_frame_big (bytes out : List UInt8) (hlen : bytes.length > 65535)
    (h : tcpFrame bytes = some out) :
    out.take 2 = u16Bytes 65535 ∧ u16Bytes 65535 = [255, 255] ∧ out.length = 65537 ∧
    srvTcOf (out.drop 2) = some true ∧
    (∀ i, i < 65535 → i ≠ 2 → (out.drop 2)[i]? = bytes[i]?) ∧
    (∃ b b', bytes[2]? = some b ∧ (out.drop 2)[2]? = some b' ∧
      b'.toNat &&& 253 = b.toNat &&& 253) := by
  rw [srv_tcpFrame_big hlen] at h
  cases h
  have hd : (u16Bytes 65535 ++ List.take 65535 (setTcBit bytes true)).drop 2
      = List.take 65535 (setTcBit bytes true) := by simp [u16Bytes]
  rw [hd]
  have hb : bytes[2]? = some (bytes[2]'(by omega)) := List.getElem?_eq_getElem (by omega)
  refine ⟨by simp [u16Bytes], by decide, ?_, ?_, ?_, ?_⟩
  · rw [List.length_append, List.length_take, srv_setTcBit_length, u16Bytes_length]; omega
  · rw [srv_tcOf_take _ _ (by omega), srv_setTcBit_tc _ _ (by omega)]
  · intro i hi hne
    rw [srv_take_get, if_pos hi, srv_setTcBit_get, if_neg hne]
  · refine ⟨_, srvTcOctet true (bytes[2]'(by omega)), hb, ?_, srv_tcOctet_others _ _⟩
    rw [srv_take_get, if_pos (by omega), srv_setTcBit_get, if_pos rfl, hb]; rfl

/-- A reply of at most 65 535 octets goes out whole behind its exact length, with the TC bit
    cleared and every other bit unchanged. -/
theorem C09_tcp_frame_small (bytes out : List UInt8) (hlen : bytes.length ≤ 65535)
    (h : tcpFrame bytes = some out) :
    out.take 2 = u16Bytes bytes.length ∧ out.length = 2 + bytes.length ∧
    (out.drop 2).length = bytes.length ∧ srvTcOf (out.drop 2) = some false ∧
    (∀ i, i ≠ 2 → (out.drop 2)[i]? = bytes[i]?) ∧
    (∃ b b', bytes[2]? = some b ∧ (out.drop 2)[2]? = some b' ∧
      b'.toNat &&& 253 = b.toNat &&& 253) ∧
    (srvTcOf bytes = some false → out = u16Bytes bytes.length ++ bytes) := by
  have h12 : 12 ≤ bytes.length := by
    apply Classical.byContradiction; intro hn
    rw [(srv_tcpFrame_none_iff bytes).mpr (by omega)] at h; cases h
  rw [srv_tcpFrame_small h12 hlen] at h
  cases h
  have hd : (u16Bytes bytes.length ++ setTcBit bytes false).drop 2 = setTcBit bytes false := by
    simp [u16Bytes]
  rw [hd]
  have hb : bytes[2]? = some (bytes[2]'(by omega)) := List.getElem?_eq_getElem (by omega)
  refine ⟨by simp [u16Bytes], ?_, srv_setTcBit_length _ _, srv_setTcBit_tc _ _ (by omega), ?_, ?_, ?_⟩
  · rw [List.length_append, srv_setTcBit_length, u16Bytes_length]
  · intro i hne
    rw [srv_setTcBit_get, if_neg hne]
  · refine ⟨_, srvTcOctet false (bytes[2]'(by omega)), hb, ?_, srv_tcOctet_others _ _⟩
    rw [srv_setTcBit_get, if_pos rfl, hb]; rfl
  · intro htc; rw [srv_setTcBit_same _ _ htc]

/-- The announced length is the real one: for a reply of at most 65 535 octets the two prefix
    octets read back (big-endian) as the number of octets that follow. -/
theorem C09_tcp_prefix_value (bytes out : List UInt8) (hlen : bytes.length ≤ 65535)
    (h : tcpFrame bytes = some out) :
    nextU16 out 0 = some ((out.drop 2).length, 2) := by
  obtain ⟨h1, h2, h3, _⟩ := C09_tcp_frame_small bytes out hlen h
  have ho : out = u16Bytes bytes.length ++ out.drop 2 := by
    rw [← h1, List.take_append_drop]
  rw [h3, ho]
  exact nextU16_at [] _ _ (by omega)

/-! ## 10. Serialisation, the SERVFAIL fallback, and the senders never panic -/

/-- Every serialised message has at least the twelve header octets. -/
theorem C09_encode_ge_12 (m : Message) (bs : List UInt8) (h : encodeMessage m = .ok bs) :
    12 ≤ bs.length := srv_encodeMessage_len h

/-- **The fallback never replaces a serialisable reply**: when `to_octets` succeeds,
    `serialise_response` returns the reply itself with exactly those octets. -/
theorem C09_fallback_only_on_encode_error (m : Message) (bs : List UInt8)
    (he : encodeMessage m = .ok bs) : serialiseResponse m = some (m, bs) :=
  srv_serialise_ok he

/-- Conversely, whatever `serialise_response` returns is a message with its own serialisation,
    and that message is the reply or — only when the reply does not serialise — its fallback. -/
theorem C09_serialise_result (m m' : Message) (bs : List UInt8)
    (h : serialiseResponse m = some (m', bs)) :
    encodeMessage m' = .ok bs ∧ 12 ≤ bs.length ∧
    (m' = m ∨ (m' = servfailFallback m ∧ ∃ e, encodeMessage m = .error e)) := by
  obtain ⟨h1, h2⟩ := srv_serialise_some h
  exact ⟨h1, srv_encodeMessage_len h1, h2⟩

/-- **Shape of the fallback.**  When `to_octets` fails on the reply `m`, what is serialised and
    framed instead is `servfailFallback m`: RCODE SERVFAIL, the same ID, QR, opcode, TC, RD, RA
    and question section, no record at all, AA clear. -/
theorem C09_fallback_shape (m : Message) (e : EErr) (he : encodeMessage m = .error e) :
    (∀ m' bs, serialiseResponse m = some (m', bs) →
      m' = servfailFallback m ∧ encodeMessage (servfailFallback m) = .ok bs) ∧
    (∀ bs, encodeMessage (servfailFallback m) = .ok bs →
      serialiseResponse m = some (servfailFallback m, bs) ∧
      srvSendUdp (some m) = udpFrame bs ∧ srvSendTcp (some m) = tcpFrame bs) ∧
    (servfailFallback m).header.rcode = RCODE_SERVFAIL ∧
    (servfailFallback m).header.id = m.header.id ∧
    (servfailFallback m).header.isResponse = m.header.isResponse ∧
    (servfailFallback m).header.opcode = m.header.opcode ∧
    (servfailFallback m).header.isAuthoritative = false ∧
    (servfailFallback m).header.isTruncated = m.header.isTruncated ∧
    (servfailFallback m).header.recursionDesired = m.header.recursionDesired ∧
    (servfailFallback m).header.recursionAvailable = m.header.recursionAvailable ∧
    (servfailFallback m).questions = m.questions ∧ (servfailFallback m).answers = [] ∧
    (servfailFallback m).authority = [] ∧ (servfailFallback m).additional = [] := by
  refine ⟨?_, ?_, rfl, rfl, rfl, rfl, rfl, rfl, rfl, rfl, rfl, rfl, rfl, rfl⟩
  · intro m' bs h
    obtain ⟨h1, h2 | ⟨h2, _⟩⟩ := srv_serialise_some h
    · subst h2; rw [he] at h1; cases h1
    · subst h2; exact ⟨rfl, h1⟩
  · intro bs hf
    have hs : serialiseResponse m = some (servfailFallback m, bs) := by
      rw [srv_serialise_err he, hf]
    exact ⟨hs, by simp only [srvSendUdp, hs], by simp only [srvSendTcp, hs]⟩

/-- **Key lemma: every reply goes out.**  For every reply `handle_raw_message` builds — whatever
    the resolver put into it — `serialise_response` yields a message and at least twelve octets:
    the question section is echoed from a decoded query (or empty, FORMERR), so the fallback's
    counts fit 16 bits and `to_octets` cannot fail on it. -/
theorem C09_serialise_reply_total (authOnly : Bool) (resolver : ServerResolver) (buf : List UInt8)
    (reply : Message) (h : handleRawMessage authOnly resolver buf = some reply) :
    (∃ bs, encodeMessage (servfailFallback reply) = .ok bs) ∧
    ∃ m' bs, serialiseResponse reply = some (m', bs) ∧ encodeMessage m' = .ok bs ∧
      12 ≤ bs.length ∧ (m' = reply ∨ (m' = servfailFallback reply ∧ ∃ e, encodeMessage reply = .error e)) := by
  have hq := srv_reply_questions_lt h
  obtain ⟨m', bs, hs⟩ := srv_serialise_total reply hq
  obtain ⟨h1, h2, h3⟩ := C09_serialise_result reply m' bs hs
  exact ⟨srv_fallback_encodes reply hq, m', bs, hs, h1, h2, h3⟩

/-- The `< 12 octets` panic of `send_udp_bytes_to` / `send_tcp_bytes` is unreachable from the
    server, and so is the "could not serialise fallback message" branch: whatever
    `handle_raw_message` returns is serialised (itself or its fallback) and framed. -/
theorem C09_senders_never_panic (authOnly : Bool) (resolver : ServerResolver) (buf : List UInt8)
    (m : Message) (h : handleRawMessage authOnly resolver buf = some m) :
    ∃ m' bs, serialiseResponse m = some (m', bs) ∧
      (udpFrame bs).isSome = true ∧ (tcpFrame bs).isSome = true := by
  obtain ⟨_, m', bs, hs, _, h12, _⟩ := C09_serialise_reply_total authOnly resolver buf m h
  refine ⟨m', bs, hs, ?_, ?_⟩
  · cases hf : udpFrame bs with
    | none => have := (srv_udpFrame_none_iff bs).mp hf; omega
    | some _ => rfl
  · cases hf : tcpFrame bs with
    | none => have := (srv_tcpFrame_none_iff bs).mp hf; omega
    | some _ => rfl

theorem C09_send_some (authOnly : Bool) (resolver : ServerResolver) (buf : List UInt8)
    (m : Message) (h : handleRawMessage authOnly resolver buf = some m) :
    (srvSendUdp (some m)).isSome = true ∧ (srvSendTcp (some m)).isSome = true := by
  obtain ⟨m', bs, hs, hu, ht⟩ := C09_senders_never_panic authOnly resolver buf m h
  simp only [srvSendUdp, srvSendTcp, hs]
  exact ⟨hu, ht⟩

/-- **Nothing goes out exactly when there is no reply message**, i.e. exactly on buffers of fewer
    than two octets and on decodable responses — for every resolver. -/
theorem C09_udp_silent_iff (authOnly : Bool) (resolver : ServerResolver) (buf : List UInt8) :
    (serveUdp authOnly resolver buf = none ↔ handleRawMessage authOnly resolver buf = none) ∧
    (serveUdp authOnly resolver buf = none ↔
      buf.length < 2 ∨ ∃ m, decodeMessage buf = .ok m ∧ m.header.isResponse = true) := by
  have key : serveUdp authOnly resolver buf = none ↔ handleRawMessage authOnly resolver buf = none := by
    rw [srv_serveUdp_eq]
    cases hh : handleRawMessage authOnly resolver buf with
    | none => simp [srvSendUdp]
    | some m =>
      have := (C09_send_some authOnly resolver buf m hh).1
      constructor
      · intro hn; rw [hn] at this; cases this
      · intro hn; cases hn
  exact ⟨key, key.trans (C09_reply_iff authOnly resolver buf)⟩

/-- The fallback of a reply to a standard query is precisely the SERVFAIL reply the server sends
    when the resolver fails: an unserialisable result and a resolver error look the same. -/
theorem C09_fallback_is_servfail_reply (authOnly : Bool) (resolver : ServerResolver) (m : Message) :
    servfailFallback (resolveAndBuildResponse authOnly resolver m)
      = srvRcodeReply authOnly m RCODE_SERVFAIL := by
  rcases srv_rabr_cases authOnly resolver m with h | h | ⟨q, _, _, h⟩ <;> rw [h]
  · rfl
  · rfl
  · exact srv_fallback_replyOf authOnly m _

/-- When the reply does not serialise, the fallback's octets are what is framed; it has TC clear,
    so up to 512 octets (65 535 for TCP) they go out unchanged.  Over TCP the message handled is
    the announced prefix `received.take n` of what the connection delivered. -/
theorem C09_fallback_sent (authOnly : Bool) (resolver : ServerResolver) (buf : List UInt8)
    (m : Message) (e : EErr) (h : handleRawMessage authOnly resolver buf = some m)
    (he : encodeMessage m = .error e) :
    ∃ bs, encodeMessage (servfailFallback m) = .ok bs ∧
      serialiseResponse m = some (servfailFallback m, bs) ∧
      serveUdp authOnly resolver buf = udpFrame bs ∧
      (bs.length ≤ 512 → serveUdp authOnly resolver buf = some bs) ∧
      (bs.length ≤ 65535 → ∀ n received, n ≤ received.length → received.take n = buf →
        serveTcp authOnly resolver n received = some (u16Bytes bs.length ++ bs)) := by
  obtain ⟨⟨bs, hf⟩, _⟩ := C09_serialise_reply_total authOnly resolver buf m h
  obtain ⟨hs, hu, ht⟩ := (C09_fallback_shape m e he).2.1 bs hf
  have h12 := srv_encodeMessage_len hf
  have h2 : 2 ≤ buf.length := by
    apply Classical.byContradiction; intro hn
    rw [(C09_reply_iff authOnly resolver buf).mpr (.inl (by omega))] at h; cases h
  have htc : srvTcOf bs = some false := by
    rw [srv_encodeMessage_tc hf]
    show some m.header.isTruncated = some false
    rw [(C09_reply_id authOnly resolver buf m h2 h).2.2]
  refine ⟨bs, hf, hs, ?_, ?_, ?_⟩
  · rw [srv_serveUdp_eq, h, hu]
  · intro hle
    rw [srv_serveUdp_eq, h, hu, srv_udpFrame_small h12 hle, srv_setTcBit_same _ _ htc]
  · intro hle n received hn htake
    rw [srv_serveTcp_full _ _ hn, htake, h, ht, srv_tcpFrame_small h12 hle,
      srv_setTcBit_same _ _ htc]

/-! ## 11. TCP reads -/

/-- A TCP read that ends before the announced length: FORMERR for the ID in the first two octets
    received when there are two, nothing otherwise; on a complete read the FIRST `expected` octets
    (`read_tcp_bytes` allocates exactly the announced capacity; anything queued behind them is
    not part of the message) are handled like a datagram and framed for TCP. -/
theorem C09_tcp_short_read (authOnly : Bool) (resolver : ServerResolver) (expected : Nat)
    (received : List UInt8) :
    (received.length < expected →
      serveTcp authOnly resolver expected received =
        if h2 : 2 ≤ received.length then
          srvSendTcp (some (makeFormatErrorResponse
            ((received[0]'(by omega)).toNat * 256 + (received[1]'(by omega)).toNat)))
        else none) ∧
    (expected ≤ received.length →
      serveTcp authOnly resolver expected received =
        srvSendTcp (handleRawMessage authOnly resolver (received.take expected))) := by
  constructor
  · intro h
    rw [srv_serveTcp_eq, srv_tcpRead_short h]
    by_cases h2 : 2 ≤ received.length
    · simp only [dif_pos h2]; rfl
    · simp only [dif_neg h2]; rfl
  · intro h
    exact srv_serveTcp_full _ _ h

/-- the short-read FORMERR on the wire: `00 0C`, the ID, `80 81` and eight zero octets -/
theorem C09_tcp_short_read_wire (authOnly : Bool) (resolver : ServerResolver) (expected : Nat)
    (received : List UInt8) (h : received.length < expected) (h2 : 2 ≤ received.length) :
    serveTcp authOnly resolver expected received =
      some (([0, 12] : List UInt8) ++
        (u16Bytes ((received[0]'(by omega)).toNat * 256 + (received[1]'(by omega)).toNat)
          ++ [128, 129, 0, 0, 0, 0, 0, 0, 0, 0])) := by
  rw [(C09_tcp_short_read authOnly resolver expected received).1 h, dif_pos h2]
  exact (C09_formerr_wire _).2.2

/-- `srvSendTcp`/`srvSendUdp` are what `serve_tcp`/`serve_udp` do after the message is chosen;
    over TCP the message is the announced prefix `buf.take n` of the octets delivered. -/
theorem C09_serve_is_send (authOnly : Bool) (resolver : ServerResolver) (buf : List UInt8) :
    serveUdp authOnly resolver buf = srvSendUdp (handleRawMessage authOnly resolver buf) ∧
    ∀ n, n ≤ buf.length →
      serveTcp authOnly resolver n buf =
        srvSendTcp (handleRawMessage authOnly resolver (buf.take n)) :=
  ⟨srv_serveUdp_eq _ _ _, fun n hn => (C09_tcp_short_read authOnly resolver n buf).2 hn⟩

/-- **The TCP message is the announced prefix.**  Octets delivered beyond the announced length
    never influence the reply. -/
theorem C09_tcp_message_is_the_announced_prefix (authOnly : Bool) (resolver : ServerResolver)
    (n : Nat) (buf : List UInt8) (hn : n ≤ buf.length) :
    serveTcp authOnly resolver n buf = serveTcp authOnly resolver n (buf.take n) := by
  have hl : n ≤ (buf.take n).length := by rw [List.length_take]; omega
  rw [srv_serveTcp_full _ _ hn, srv_serveTcp_full _ _ hl, List.take_take, Nat.min_self]

/-- … so two streams that agree on the announced prefix get the same reply. -/
theorem C09_tcp_same_prefix_same_reply (authOnly : Bool) (resolver : ServerResolver) (n : Nat)
    (buf1 buf2 : List UInt8) (h1 : n ≤ buf1.length) (h2 : n ≤ buf2.length)
    (h : buf1.take n = buf2.take n) :
    serveTcp authOnly resolver n buf1 = serveTcp authOnly resolver n buf2 := by
  rw [srv_serveTcp_full _ _ h1, srv_serveTcp_full _ _ h2, h]

/-- An announced length below two octets (with that much delivered): nothing is sent — there is
    no ID to answer to. -/
theorem C09_tcp_tiny_prefix_silent (authOnly : Bool) (resolver : ServerResolver) (n : Nat)
    (buf : List UInt8) (hn : n ≤ buf.length) (h2 : n < 2) :
    serveTcp authOnly resolver n buf = none := by
  have hl : (buf.take n).length < 2 := by rw [List.length_take]; omega
  rw [srv_serveTcp_full _ _ hn,
    (C09_reply_iff authOnly resolver (buf.take n)).mpr (.inl hl)]
  rfl

/-- the statement of `C09_serve_is_send` as it stood before the `tcpRead` correction (the whole
    delivered buffer handled, whatever the announced length) … -/
def C09_serve_is_send_statement_before_tcpread_fix : Prop :=
  ∀ (authOnly : Bool) (resolver : ServerResolver) (buf : List UInt8) (n : Nat), n ≤ buf.length →
    serveTcp authOnly resolver n buf = srvSendTcp (handleRawMessage authOnly resolver buf)

/-- … is false: announce 3 octets and deliver the 12-octet header `AB CD 01 00 …` (a query with
    no question, answered SERVFAIL as a whole): the message is `AB CD 01`, which gets FORMERR. -/
theorem C09_serve_is_send_before_tcpread_fix_false :
    ¬ C09_serve_is_send_statement_before_tcpread_fix := by
  intro hall
  have h := hall false (fun _ _ => .error .timeout)
    [0xAB, 0xCD, 1, 0, 0, 0, 0, 0, 0, 0, 0, 0] 3 (by decide)
  have hd3 : decodeMessage [0xAB, 0xCD, 1] = .error (.headerTooShort 0xABCD) := by decide
  have hd : decodeMessage [0xAB, 0xCD, 1, 0, 0, 0, 0, 0, 0, 0, 0, 0] =
      .ok ⟨⟨0xABCD, false, 0, false, false, true, false, 0⟩, [], [], [], []⟩ := by decide
  rw [srv_serveTcp_full _ _ (by decide)] at h
  rw [show List.take 3 [(0xAB : UInt8), 0xCD, 1, 0, 0, 0, 0, 0, 0, 0, 0, 0] = [0xAB, 0xCD, 1] from rfl,
    C09_formerr false _ _ _ hd3 (by decide), srv_handle_query hd rfl rfl,
    srv_rabr_no_question _ _ _ (srv_triage_nil rfl)] at h
  revert h
  decide

/-! ## 12. One reply, and it reads back as the reply -/

/-- At most one thing is sent per datagram / connection, and it depends on the resolver only
    through its values (extensionally equal resolvers give the same octets). -/
theorem C09_one_reply_function (authOnly : Bool) (r1 r2 : ServerResolver)
    (hext : ∀ q b, r1 q b = r2 q b) (buf : List UInt8) (n : Nat) :
    serveUdp authOnly r1 buf = serveUdp authOnly r2 buf ∧
    serveTcp authOnly r1 n buf = serveTcp authOnly r2 n buf ∧
    (∀ o1 o2, serveUdp authOnly r1 buf = some o1 → serveUdp authOnly r1 buf = some o2 → o1 = o2) := by
  have : r1 = r2 := funext fun q => funext fun b => hext q b
  subst this
  exact ⟨rfl, rfl, fun o1 o2 h1 h2 => by rw [h1] at h2; cases h2; rfl⟩

/-- Every reply message of the server has TC clear, so framing a reply that fits changes nothing:
    up to 512 octets the datagram is the serialisation itself; up to 65 535 octets the TCP
    message is the length prefix followed by the serialisation itself (for every stream
    `received` whose announced prefix `received.take n` is the buffer). -/
theorem C09_frames_of_fitting_reply (authOnly : Bool) (resolver : ServerResolver)
    (buf : List UInt8) (m : Message) (bs : List UInt8)
    (h : handleRawMessage authOnly resolver buf = some m) (he : encodeMessage m = .ok bs) :
    (bs.length ≤ 512 → serveUdp authOnly resolver buf = some bs) ∧
    (bs.length ≤ 65535 → ∀ n received, n ≤ received.length → received.take n = buf →
      serveTcp authOnly resolver n received = some (u16Bytes bs.length ++ bs)) := by
  have h12 := srv_encodeMessage_len he
  have htc : srvTcOf bs = some false := by
    rw [srv_encodeMessage_tc he]
    cases hl : buf.length
    · have := (C09_reply_iff authOnly resolver buf).mpr (.inl (by omega))
      rw [this] at h; cases h
    · rename_i k
      cases k with
      | zero =>
        have := (C09_reply_iff authOnly resolver buf).mpr (.inl (by omega))
        rw [this] at h; cases h
      | succ k => rw [(C09_reply_id authOnly resolver buf m (by omega) h).2.2]
  constructor
  · intro hle
    rw [srv_serveUdp_eq, h]
    simp only [srvSendUdp, srv_serialise_ok he]
    rw [srv_udpFrame_small h12 hle, srv_setTcBit_same _ _ htc]
  · intro hle n received hn htake
    rw [srv_serveTcp_full _ _ hn, htake, h]
    simp only [srvSendTcp, srv_serialise_ok he]
    rw [srv_tcpFrame_small h12 hle, srv_setTcBit_same _ _ htc]

/-- **The datagram reads back as the reply.**  If the resolver's records are serialisable
    (`srvResultWF`: well-formed names, 16/32-bit fields, RDATA matching the type's layout — what
    every decoded or zone-file record satisfies), then a reply that fits 512 octets is received
    by `Message::from_octets` as exactly the message `handle_raw_message` built. -/
theorem C09_udp_reply_decodes (authOnly : Bool) (resolver : ServerResolver)
    (hres : ∀ q b, srvResultWF (resolver q b))
    (buf : List UInt8) (m : Message) (bs : List UInt8)
    (h : handleRawMessage authOnly resolver buf = some m) (he : encodeMessage m = .ok bs)
    (hle : bs.length ≤ 512) :
    serveUdp authOnly resolver buf = some bs ∧ decodeMessage bs = .ok m := by
  refine ⟨(C09_frames_of_fitting_reply authOnly resolver buf m bs h he).1 hle, ?_⟩
  apply C04_roundtrip m bs _ he
  cases hd : decodeMessage buf with
  | error e =>
    rw [srv_handle_error hd] at h
    have h2 : 2 ≤ buf.length := by
      apply Classical.byContradiction; intro hn
      rw [(C03_no_id_iff_short buf e hd).mpr (by omega)] at h; cases h
    rw [C03_id_on_error buf e hd h2] at h
    cases h
    apply srv_formerr_wf
    have := (buf[0]'(by omega)).toNat_lt
    have := (buf[1]'(by omega)).toNat_lt
    omega
  | ok q =>
    have hwf := C04_decode_wf buf q hd
    cases hr : q.header.isResponse with
    | true => rw [srv_handle_response hd hr] at h; cases h
    | false =>
      by_cases ho : q.header.opcode = OPCODE_STANDARD
      · rw [srv_handle_query hd hr ho] at h; cases h
        rcases srv_rabr_cases authOnly resolver q with h' | h' | ⟨qq, _, _, h'⟩ <;> rw [h']
        · exact srv_rcodeReply_wf _ _ _ hwf (by decide)
        · exact srv_rcodeReply_wf _ _ _ hwf (by decide)
        · exact srv_replyOf_wf _ _ _ hwf (hres _ _)
      · rw [srv_handle_notimp hd hr ho] at h; cases h
        exact srv_notImp_wf q hwf

/-! ## 13. Every query is answered — for every resolver -/

/-- a query for the root name, type A, class IN (17 octets) -/
def C09ex.rootQuery : Message :=
  { header := ⟨0x1234, false, 0, false, false, true, false, 0⟩
    questions := [⟨Name.root, 1, 1⟩], answers := [], authority := [], additional := [] }

def C09ex.rootQueryBytes : List UInt8 := [0x12, 0x34, 1, 0, 0, 1, 0, 0, 0, 0, 0, 0, 0, 0, 1, 0, 1]

theorem C09ex.rootQuery_decodes : decodeMessage C09ex.rootQueryBytes = .ok C09ex.rootQuery :=
  C04_roundtrip _ _ (by decide) (by decide)

/-- **Every query is answered.**  For EVERY resolver (no hypothesis on what it returns), both
    settings of `authoritative_only` and every buffer of two or more octets that does not decode
    to a message flagged as a response: a datagram is sent; over TCP a message is sent whenever
    that buffer is the announced prefix of what the connection delivered (`received.take n = buf`
    — anything queued behind it is irrelevant); and a TCP read cut short after two or more
    octets gets its (FORMERR) message too.  (With the SERVFAIL fallback of `serialise_response`;
    before that fix a resolver result with 65 536 records silenced the server.) -/
theorem C09_every_query_answered (authOnly : Bool) (resolver : ServerResolver) (buf : List UInt8)
    (h2 : 2 ≤ buf.length)
    (hq : ∀ m, decodeMessage buf = .ok m → m.header.isResponse = false) :
    (serveUdp authOnly resolver buf).isSome = true ∧
    (∀ n received, n ≤ received.length → received.take n = buf →
      (serveTcp authOnly resolver n received).isSome = true) ∧
    (∀ n, buf.length < n → (serveTcp authOnly resolver n buf).isSome = true) := by
  obtain ⟨reply, hreply, _⟩ := C09_one_reply authOnly resolver buf h2 hq
  obtain ⟨hu, ht⟩ := C09_send_some authOnly resolver buf reply hreply
  refine ⟨?_, ?_, ?_⟩
  · rw [srv_serveUdp_eq, hreply]; exact hu
  · intro n received hn htake
    rw [srv_serveTcp_full _ _ hn, htake, hreply]; exact ht
  · intro n hn
    rw [C09_tcp_short_read_wire authOnly resolver n buf hn h2]; rfl

/-- The TCP clause said from the side of the connection: for every announced length `n` that was
    delivered in full, if the announced prefix `buf.take n` has two or more octets and does not
    decode to a response, a message is sent (`C09_tcp_tiny_prefix_silent`: for `n < 2` nothing
    is). -/
theorem C09_every_query_answered_tcp (authOnly : Bool) (resolver : ServerResolver)
    (buf : List UInt8) (n : Nat) (hn : n ≤ buf.length) (h2 : 2 ≤ (buf.take n).length)
    (hq : ∀ m, decodeMessage (buf.take n) = .ok m → m.header.isResponse = false) :
    (serveTcp authOnly resolver n buf).isSome = true :=
  (C09_every_query_answered authOnly resolver (buf.take n) h2 hq).2.1 n buf hn rfl

/-- the TCP clause of `C09_every_query_answered` as it stood before the `tcpRead` correction
    (hypotheses on the whole delivered buffer, any announced length up to its length) … -/
def C09_every_query_answered_tcp_statement_before_tcpread_fix : Prop :=
  ∀ (authOnly : Bool) (resolver : ServerResolver) (buf : List UInt8), 2 ≤ buf.length →
    (∀ m, decodeMessage buf = .ok m → m.header.isResponse = false) →
    ∀ n, n ≤ buf.length → (serveTcp authOnly resolver n buf).isSome = true

/-- … is false: announce one octet in front of the root query — nothing is sent. -/
theorem C09_every_query_answered_tcp_before_tcpread_fix_false :
    ¬ C09_every_query_answered_tcp_statement_before_tcpread_fix := by
  intro hall
  have h := hall false (fun _ _ => .error .timeout) C09ex.rootQueryBytes (by decide)
    (fun m hm => by rw [C09ex.rootQuery_decodes] at hm; cases hm; rfl) 1 (by decide)
  rw [C09_tcp_tiny_prefix_silent false _ 1 _ (by decide) (by decide)] at h
  cases h

/-- the short-read clause needs no hypothesis on the content at all -/
theorem C09_tcp_short_read_answered (authOnly : Bool) (resolver : ServerResolver) (expected : Nat)
    (received : List UInt8) (h : received.length < expected) (h2 : 2 ≤ received.length) :
    (serveTcp authOnly resolver expected received).isSome = true := by
  rw [C09_tcp_short_read_wire authOnly resolver expected received h h2]; rfl

/-- When the resolver's results are serialisable and stay below 65 536 records the reply itself
    serialises: the fallback is never used. -/
theorem C09_no_fallback_for_serialisable_resolver (authOnly : Bool) (resolver : ServerResolver)
    (hres : ∀ q b, srvResultWF (resolver q b))
    (hcount : ∀ q b rec, resolver q b = .ok rec → rec.rrs.length < 65536)
    (buf : List UInt8) (reply : Message)
    (hreply : handleRawMessage authOnly resolver buf = some reply) :
    ∃ bs, encodeMessage reply = .ok bs ∧ serialiseResponse reply = some (reply, bs) := by
  have henc : ∃ bs, encodeMessage reply = .ok bs := by
    cases hd : decodeMessage buf with
    | error e =>
      rw [srv_handle_error hd] at hreply
      cases hid : e.id with
      | none => rw [hid] at hreply; cases hreply
      | some id => rw [hid] at hreply; cases hreply; exact ⟨_, srv_formerr_encode _⟩
    | ok q =>
      have hwf := C04_decode_wf buf q hd
      obtain ⟨cq, _, _, _⟩ := decodeMessage_counts hd
      cases hr : q.header.isResponse with
      | true => rw [srv_handle_response hd hr] at hreply; cases hreply
      | false =>
      by_cases ho : q.header.opcode = OPCODE_STANDARD
      · rw [srv_handle_query hd hr ho] at hreply; cases hreply
        rcases srv_rabr_cases authOnly resolver q with h' | h' | ⟨qq, _, _, h'⟩ <;> rw [h']
        · exact C04_encode_questions_only_ok _ cq rfl rfl rfl
        · exact C04_encode_questions_only_ok _ cq rfl rfl rfl
        · obtain ⟨_, _, _, _, _, _, f7, f8, f9, f10⟩ := srv_replyOf_fields authOnly q
            (resolver qq (q.header.recursionDesired && !authOnly))
          apply C04_encode_total _ (srv_replyOf_wf _ _ _ hwf (hres _ _))
          · rw [f7]; exact cq
          · rw [f8]
            cases hres' : resolver qq (q.header.recursionDesired && !authOnly) with
            | error _ => simp [srvAnswersOf]
            | ok rec => exact hcount _ _ rec hres'
          · rw [f9]
            cases resolver qq (q.header.recursionDesired && !authOnly) with
            | error _ => simp [srvAuthorityOf]
            | ok rec => simp only [srvAuthorityOf]; cases rec.soaRR <;> simp
          · rw [f10]; simp
      · rw [srv_handle_notimp hd hr ho] at hreply; cases hreply
        exact C04_encode_questions_only_ok _ cq rfl rfl rfl
  obtain ⟨bs, he⟩ := henc
  exact ⟨bs, he, srv_serialise_ok he⟩

/-- The fallback can only be needed for a reply that carries resolver data: FORMERR, NOTIMP,
    REFUSED and the SERVFAIL replies always serialise themselves. -/
theorem C09_fallback_only_with_records (authOnly : Bool) (resolver : ServerResolver)
    (buf : List UInt8) (reply : Message) (e : EErr)
    (h : handleRawMessage authOnly resolver buf = some reply)
    (he : encodeMessage reply = .error e) : reply.answers ≠ [] ∨ reply.authority ≠ [] := by
  apply Classical.byContradiction
  intro hn
  have ha : reply.answers = [] := Classical.byContradiction fun hc => hn (.inl hc)
  have hb : reply.authority = [] := Classical.byContradiction fun hc => hn (.inr hc)
  have hadd : reply.additional = [] := by
    cases hd : decodeMessage buf with
    | error e' =>
      rw [srv_handle_error hd] at h
      cases hid : e'.id with
      | none => rw [hid] at h; cases h
      | some id => rw [hid] at h; cases h; rfl
    | ok q =>
      cases hr : q.header.isResponse with
      | true => rw [srv_handle_response hd hr] at h; cases h
      | false =>
        by_cases ho : q.header.opcode = OPCODE_STANDARD
        · rw [srv_handle_query hd hr ho] at h; cases h
          rcases srv_rabr_cases authOnly resolver q with h' | h' | ⟨qq, _, _, h'⟩ <;> rw [h']
          · rfl
          · rfl
          · exact (srv_replyOf_fields authOnly q _).2.2.2.2.2.2.2.2.2
        · rw [srv_handle_notimp hd hr ho] at h; cases h; rfl
  obtain ⟨bs, hok⟩ := srv_encode_questions_only reply (srv_reply_questions_lt h) ha hb hadd
  rw [hok] at he; cases he

/-- 65 536 (or more) records from the resolver: the reply does not serialise
    (`CounterTooLarge`), and what goes out — over UDP and TCP — is the SERVFAIL fallback
    `12 34 81 82 | 0 1 0 0 0 0 0 0 | 00 0001 0001`: question echoed, no records. -/
theorem C09ex.too_many_records_servfail (rrs : List RR) (hlen : 65536 ≤ rrs.length) :
    (∃ e, encodeMessage (resolveAndBuildResponse false (fun _ _ => .ok (.nonAuthoritative rrs none))
      C09ex.rootQuery) = .error e) ∧
    serveUdp false (fun _ _ => .ok (.nonAuthoritative rrs none)) C09ex.rootQueryBytes =
      some [0x12, 0x34, 0x81, 0x82, 0, 1, 0, 0, 0, 0, 0, 0, 0, 0, 1, 0, 1] ∧
    serveTcp false (fun _ _ => .ok (.nonAuthoritative rrs none)) 17 C09ex.rootQueryBytes =
      some [0, 17, 0x12, 0x34, 0x81, 0x82, 0, 1, 0, 0, 0, 0, 0, 0, 0, 0, 1, 0, 1] := by
  have hq : handleRawMessage false (fun _ _ => .ok (.nonAuthoritative rrs none)) C09ex.rootQueryBytes
      = some (resolveAndBuildResponse false (fun _ _ => .ok (.nonAuthoritative rrs none))
          C09ex.rootQuery) :=
    srv_handle_query C09ex.rootQuery_decodes rfl rfl
  have hr : resolveAndBuildResponse false (fun _ _ => .ok (.nonAuthoritative rrs none)) C09ex.rootQuery
      = srvReplyOf false C09ex.rootQuery (.ok (.nonAuthoritative rrs none)) :=
    srv_rabr_question false _ _ _ (srv_triage_one_known rfl (by decide))
  have hfb := C09_fallback_is_servfail_reply false (fun _ _ => .ok (.nonAuthoritative rrs none))
    C09ex.rootQuery
  obtain ⟨_, _, _, _, _, _, f7, f8, _⟩ :=
    srv_replyOf_fields false C09ex.rootQuery (.ok (.nonAuthoritative rrs none))
  rw [← hr] at f7 f8
  generalize resolveAndBuildResponse false (fun _ _ => .ok (.nonAuthoritative rrs none))
    C09ex.rootQuery = M at hq hfb f7 f8
  have h1 : usizeToU16 M.questions.length = .ok 1 := by rw [f7]; rfl
  have h2 : usizeToU16 M.answers.length = .error (.counterTooLarge rrs.length 16) := by
    rw [f8]
    show usizeToU16 rrs.length = _
    unfold usizeToU16
    rw [if_neg (by omega)]
  have he : encodeMessage M = .error (.counterTooLarge rrs.length 16) := by
    unfold encodeMessage
    rw [h1, h2]
  have hf : encodeMessage (servfailFallback M) =
      .ok [0x12, 0x34, 0x81, 0x82, 0, 1, 0, 0, 0, 0, 0, 0, 0, 0, 1, 0, 1] := by
    rw [hfb]; decide
  obtain ⟨bs, hf', _, _, hu, ht⟩ := C09_fallback_sent false _ _ M _ hq he
  rw [hf] at hf'; cases hf'
  exact ⟨⟨_, he⟩, hu (by decide), ht (by decide) 17 _ (by decide) rfl⟩

/-- the concrete instance: exactly 65 536 copies of one A record -/
example : serveUdp false (fun _ _ => .ok (.nonAuthoritative
      (List.replicate 65536 ⟨Name.root, 1, [.a 0], 1, 0⟩) none)) C09ex.rootQueryBytes =
    some [0x12, 0x34, 0x81, 0x82, 0, 1, 0, 0, 0, 0, 0, 0, 0, 0, 1, 0, 1] :=
  (C09ex.too_many_records_servfail _ (Nat.le_of_eq List.length_replicate.symm)).2.1

/-- The full claim "RA reflects whether recursion is offered" for every reply … -/
def C09_ra_all_replies_statement : Prop :=
  ∀ (authOnly : Bool) (resolver : ServerResolver) (buf : List UInt8) (reply : Message),
    handleRawMessage authOnly resolver buf = some reply →
    reply.header.recursionAvailable = !authOnly

/-- … is false: the FORMERR reply of an authoritative-only server to the three octets
    `AB CD 80` says RA = 1 (and so does every NOTIMP reply, `C09_ra_fixed_replies`). -/
theorem C09_ra_all_replies_false : ¬ C09_ra_all_replies_statement := by
  intro hall
  have hd : decodeMessage [0xAB, 0xCD, 0x80] = .error (.headerTooShort 0xABCD) := by decide
  have h := hall true (fun _ _ => .error .timeout) [0xAB, 0xCD, 0x80] _
    (C09_formerr true _ _ _ hd (by decide))
  cases h

/-- The true part: on every decodable standard query RA = ¬ authoritative_only. -/
theorem C09_ra_all_replies_partial (authOnly : Bool) (resolver : ServerResolver) (buf : List UInt8)
    (m reply : Message) (hd : decodeMessage buf = .ok m) (ho : m.header.opcode = OPCODE_STANDARD)
    (h : handleRawMessage authOnly resolver buf = some reply) :
    reply.header.recursionAvailable = !authOnly :=
  C09_ra_handle authOnly resolver buf m reply hd ho h


/-! ## 14. Non-vacuity: concrete buffers through the theorems -/

namespace C09ex

/-- a 12-octet header, ID 0xABCD, RD set, QDCOUNT 0 -/
def emptyQueryBytes : List UInt8 := [0xAB, 0xCD, 1, 0, 0, 0, 0, 0, 0, 0, 0, 0]
def emptyQuery : Message :=
  { header := ⟨0xABCD, false, 0, false, false, true, false, 0⟩
    questions := [], answers := [], authority := [], additional := [] }

/-- a 12-octet header with opcode 2 (STATUS) -/
def statusBytes : List UInt8 := [0, 5, 0x10, 0, 0, 0, 0, 0, 0, 0, 0, 0]
/-- a 12-octet header flagged as a response -/
def responseBytes : List UInt8 := [0, 1, 0x80, 0, 0, 0, 0, 0, 0, 0, 0, 0]
/-- a query for the root name with the unassigned type 0xFF00 -/
def oddTypeBytes : List UInt8 := [0x12, 0x34, 1, 0, 0, 1, 0, 0, 0, 0, 0, 0, 0, 0xFF, 0, 0, 1]
def oddTypeQuery : Message :=
  { header := ⟨0x1234, false, 0, false, false, true, false, 0⟩
    questions := [⟨Name.root, 0xFF00, 1⟩], answers := [], authority := [], additional := [] }

def soa : RR := ⟨Name.root, 6, [.name Name.root, .name Name.root, .u32 1, .u32 2, .u32 3, .u32 4, .u32 5], 1, 300⟩
def aRec : RR := ⟨Name.root, 1, [.a 0x7F000001], 1, 300⟩
/-- a resolver that is authoritative for the root name -/
def authResolver : ServerResolver := fun _ _ => .ok (.authoritative [aRec] soa)
def failResolver : ServerResolver := fun _ _ => .error .timeout

theorem emptyQuery_decodes : decodeMessage emptyQueryBytes = .ok emptyQuery := by decide
theorem oddType_decodes : decodeMessage oddTypeBytes = .ok oddTypeQuery :=
  C04_roundtrip _ _ (by decide) (by decide)

end C09ex

/-- zero questions: SERVFAIL `AB CD 81 82 0…` on the wire, for every resolver -/
example (r : ServerResolver) :
    serveUdp false r C09ex.emptyQueryBytes = some [0xAB, 0xCD, 0x81, 0x82, 0, 0, 0, 0, 0, 0, 0, 0] := by
  obtain ⟨reply, h, _⟩ := C09_no_question false _ _ C09ex.emptyQuery_decodes rfl rfl rfl
  have h' : handleRawMessage false r C09ex.emptyQueryBytes =
      some (srvRcodeReply false C09ex.emptyQuery RCODE_SERVFAIL) := by
    rw [srv_handle_query C09ex.emptyQuery_decodes rfl rfl,
      srv_rabr_no_question _ _ _ (srv_triage_nil rfl)]
  rw [srv_serveUdp_eq, h']
  decide

/-- the same query to an authoritative-only server: RA clear (`02` instead of `82`) -/
example (r : ServerResolver) :
    serveUdp true r C09ex.emptyQueryBytes = some [0xAB, 0xCD, 0x81, 0x02, 0, 0, 0, 0, 0, 0, 0, 0] := by
  have h' : handleRawMessage true r C09ex.emptyQueryBytes =
      some (srvRcodeReply true C09ex.emptyQuery RCODE_SERVFAIL) := by
    rw [srv_handle_query C09ex.emptyQuery_decodes rfl rfl,
      srv_rabr_no_question _ _ _ (srv_triage_nil rfl)]
  rw [srv_serveUdp_eq, h']
  decide

/-- the 17-octet root query, answered authoritatively: ID echoed, `85` = QR AA RD, `80` = RA +
    NOERROR, 1 question / 1 answer / 1 authority record, 65 octets; the datagram decodes back to
    exactly the reply message (through `C09_udp_reply_decodes`) -/
def C09ex.authReplyBytes : List UInt8 :=
  [18, 52, 133, 128, 0, 1, 0, 1, 0, 1, 0, 0, 0, 0, 1, 0, 1, 0, 0, 1, 0, 1, 0, 0, 1, 44, 0, 4, 127, 0,
   0, 1, 0, 0, 6, 0, 1, 0, 0, 1, 44, 0, 22, 0, 0, 0, 0, 0, 1, 0, 0, 0, 2, 0, 0, 0, 3, 0, 0, 0, 4, 0,
   0, 0, 5]

example : serveUdp false C09ex.authResolver C09ex.rootQueryBytes = some C09ex.authReplyBytes ∧
    decodeMessage C09ex.authReplyBytes =
      .ok (srvReplyOf false C09ex.rootQuery (.ok (.authoritative [C09ex.aRec] C09ex.soa))) := by
  have hq : handleRawMessage false C09ex.authResolver C09ex.rootQueryBytes
      = some (srvReplyOf false C09ex.rootQuery (.ok (.authoritative [C09ex.aRec] C09ex.soa))) := by
    rw [srv_handle_query C09ex.rootQuery_decodes rfl rfl,
      srv_rabr_question false _ _ _ (srv_triage_one_known rfl (by decide))]
    rfl
  have he : encodeMessage (srvReplyOf false C09ex.rootQuery
      (.ok (.authoritative [C09ex.aRec] C09ex.soa))) = .ok C09ex.authReplyBytes := by decide
  exact C09_udp_reply_decodes false C09ex.authResolver
    (fun _ _ => by unfold C09ex.authResolver srvResultWF; decide) _ _ _ hq he (by decide)

/-- … and with a failing resolver: SERVFAIL, question echoed -/
example : serveUdp false C09ex.failResolver C09ex.rootQueryBytes =
    some [0x12, 0x34, 0x81, 0x82, 0, 1, 0, 0, 0, 0, 0, 0, 0, 0, 1, 0, 1] := by
  have hq : handleRawMessage false C09ex.failResolver C09ex.rootQueryBytes
      = some (srvReplyOf false C09ex.rootQuery (.error .timeout)) := by
    rw [srv_handle_query C09ex.rootQuery_decodes rfl rfl,
      srv_rabr_question false _ _ _ (srv_triage_one_known rfl (by decide))]
    rfl
  rw [srv_serveUdp_eq, hq]
  decide

/-- unknown query type: REFUSED (`85` = RA + RCODE 5), whatever the resolver -/
example (r : ServerResolver) : serveUdp false r C09ex.oddTypeBytes =
    some [0x12, 0x34, 0x81, 0x85, 0, 1, 0, 0, 0, 0, 0, 0, 0, 0xFF, 0, 0, 1] := by
  have hq : handleRawMessage false r C09ex.oddTypeBytes
      = some (srvRcodeReply false C09ex.oddTypeQuery RCODE_REFUSED) := by
    rw [srv_handle_query C09ex.oddType_decodes rfl rfl,
      srv_rabr_refused false _ _ (srv_triage_one_unknown rfl (by decide))]
  rw [srv_serveUdp_eq, hq]
  decide
/-- the hypotheses of `C09_refused` are satisfiable -/
example : ∃ q, C09ex.oddTypeQuery.questions = [q] ∧ questionIsUnknown q = true :=
  ⟨_, rfl, by decide⟩

/-- opcode 2: NOTIMP (`10` = opcode echoed; `84` = RA + RCODE 4) -/
example (r : ServerResolver) : serveUdp true r C09ex.statusBytes =
    some [0, 5, 0x90, 0x84, 0, 0, 0, 0, 0, 0, 0, 0] := by
  have hd : decodeMessage C09ex.statusBytes =
      .ok ⟨⟨5, false, 2, false, false, false, false, 0⟩, [], [], [], []⟩ := by decide
  rw [srv_serveUdp_eq, srv_handle_notimp hd rfl (by decide)]
  decide

/-- three octets, QR bit set in the third: undecodable, FORMERR for ID 0xABCD -/
example (a : Bool) (r : ServerResolver) : serveUdp a r [0xAB, 0xCD, 0x80] =
    some [0xAB, 0xCD, 0x80, 0x81, 0, 0, 0, 0, 0, 0, 0, 0] := by
  have hd : decodeMessage [0xAB, 0xCD, 0x80] = .error (.headerTooShort 0xABCD) := by decide
  rw [srv_serveUdp_eq, C09_formerr a r _ _ hd (by decide)]
  exact (C09_formerr_wire _).2.1

/-- one octet: silence; a decodable response: silence -/
example (a : Bool) (r : ServerResolver) : serveUdp a r [7] = none := by
  rw [srv_serveUdp_eq, (C09_reply_iff a r [7]).mpr (.inl (by decide))]; rfl
example (a : Bool) (r : ServerResolver) : serveUdp a r C09ex.responseBytes = none := by
  have hd : decodeMessage C09ex.responseBytes =
      .ok ⟨⟨1, true, 0, false, false, false, false, 0⟩, [], [], [], []⟩ := by decide
  rw [srv_serveUdp_eq, (C09_reply_iff a r _).mpr (.inr ⟨_, hd, rfl⟩)]; rfl

/-- TCP: 17 octets announced, three delivered → FORMERR behind `00 0C`; one delivered → nothing;
    all delivered → the reply behind its length -/
example (a : Bool) (r : ServerResolver) : serveTcp a r 17 [0x12, 0x34, 1] =
    some [0, 12, 0x12, 0x34, 0x80, 0x81, 0, 0, 0, 0, 0, 0, 0, 0] := by
  rw [C09_tcp_short_read_wire a r 17 [0x12, 0x34, 1] (by decide) (by decide)]
  decide
example (a : Bool) (r : ServerResolver) : serveTcp a r 17 [0x12] = none := by
  rw [(C09_tcp_short_read a r 17 [0x12]).1 (by decide)]; rfl
example : serveTcp false C09ex.failResolver 17 C09ex.rootQueryBytes =
    some [0, 17, 0x12, 0x34, 0x81, 0x82, 0, 1, 0, 0, 0, 0, 0, 0, 0, 0, 1, 0, 1] := by
  have hq : handleRawMessage false C09ex.failResolver C09ex.rootQueryBytes
      = some (srvReplyOf false C09ex.rootQuery (.error .timeout)) := by
    rw [srv_handle_query C09ex.rootQuery_decodes rfl rfl,
      srv_rabr_question false _ _ _ (srv_triage_one_known rfl (by decide))]
    rfl
  rw [(C09_tcp_short_read false C09ex.failResolver 17 _).2 (by decide),
    show C09ex.rootQueryBytes.take 17 = C09ex.rootQueryBytes from rfl, hq]
  decide

/-- the announced prefix is the message: 5 octets announced in front of the complete 17-octet
    root query (which as a whole decodes and is answered, see above) — `12 34 01 00 00` is
    undecodable, FORMERR; and the reply is that of the 5 octets alone -/
example (a : Bool) (r : ServerResolver) : serveTcp a r 5 C09ex.rootQueryBytes =
    some [0, 12, 0x12, 0x34, 0x80, 0x81, 0, 0, 0, 0, 0, 0, 0, 0] := by
  have hd : decodeMessage [0x12, 0x34, 1, 0, 0] = .error (.headerTooShort 0x1234) := by decide
  rw [(C09_tcp_short_read a r 5 _).2 (by decide),
    show C09ex.rootQueryBytes.take 5 = [0x12, 0x34, 1, 0, 0] from rfl,
    C09_formerr a r _ _ hd (by decide)]
  exact (C09_formerr_wire _).2.2
example (a : Bool) (r : ServerResolver) :
    serveTcp a r 5 C09ex.rootQueryBytes = serveTcp a r 5 [0x12, 0x34, 1, 0, 0] :=
  C09_tcp_message_is_the_announced_prefix a r 5 _ (by decide)
example : ∃ m, decodeMessage C09ex.rootQueryBytes = .ok m := ⟨_, C09ex.rootQuery_decodes⟩
/-- fewer than two octets announced: silence -/
example (a : Bool) (r : ServerResolver) : serveTcp a r 1 C09ex.rootQueryBytes = none :=
  C09_tcp_tiny_prefix_silent a r 1 _ (by decide) (by decide)

/-- framing hypotheses are satisfiable on both sides of each limit -/
example : ∃ out, udpFrame (List.replicate 600 0) = some out :=
  ⟨_, srv_udpFrame_big (by rw [List.length_replicate]; decide)⟩
example : ∃ out, udpFrame (List.replicate 512 0) = some out :=
  ⟨_, srv_udpFrame_small (by rw [List.length_replicate]; decide) (by rw [List.length_replicate]; decide)⟩
example : ∃ out, tcpFrame (List.replicate 70000 0) = some out :=
  ⟨_, srv_tcpFrame_big (by rw [List.length_replicate]; decide)⟩
example : udpFrame [1, 2, 7, 4, 5, 6, 7, 8, 9, 10, 11, 12] = some [1, 2, 5, 4, 5, 6, 7, 8, 9, 10, 11, 12] := by
  decide
/-- the resolver hypotheses of `C09_udp_reply_decodes` / `C09_no_fallback_for_serialisable_resolver` -/
example : ∀ q b, srvResultWF (C09ex.authResolver q b) := fun _ _ => by
  unfold C09ex.authResolver srvResultWF; decide
example : ∀ q b rec, C09ex.authResolver q b = .ok rec → rec.rrs.length < 65536 := by
  intro q b rec h; cases h; decide

/-! ### The server's decision logic as TRANSLATED FROM THE SOURCE on this run

`bin/extract.py` regenerates `Gen.triageLogic`, `Gen.buildResponseLogic`, `Gen.handleRawMessageLogic`
and `Gen.serialiseResponseLogic` from `crates/resolved/src/main.rs` on every run: the bodies of the
four functions, line by line, with logging and metrics removed.  The theorems below pin them to the
text the hand-written model (`Model/Server.lean`: `triage`, `resolveAndBuildResponse`,
`handleRawMessage`, `serialiseResponse`) was written from, so that an edit of the Rust decision
logic breaks a proof obligation even where no generated datagram reaches the changed branch; the
check then searches model and implementation for a failing input (streams `server`, `server-real`). -/

theorem C09_triage_logic_from_source : Gen.triageLogic = [
  "if query.questions.is_empty() {",
  "Ok(None)",
  "} else if query.questions.len() == 1 {",
  "let question = &query.questions[0];",
  "if question.is_unknown() {",
  "Err(REFUSED_FOR_UNKNOWN_QTYPE_OR_QCLASS)",
  "} else {",
  "Ok(Some(question))",
  "}",
  "} else {",
  "Err(REFUSED_FOR_MULTIPLE_QUESTIONS)",
  "}"] := rfl

theorem C09_build_response_logic_from_source : Gen.buildResponseLogic = [
  "let mut response = query.make_response();",
  "response.header.recursion_available = !args.authoritative_only;",
  "match triage(&query) {",
  "Err(reason) => {",
  "response.header.rcode = Rcode::Refused;",
  "}",
  "Ok(None) => {}",
  "Ok(Some(question)) => {",
  "let zones = args.zones_lock.read().await;",
  "let (metrics, answer) = resolve(",
  "query.header.recursion_desired && response.header.recursion_available,",
  "args.protocol_mode,",
  "args.upstream_dns_port,",
  "args.forward_address,",
  "&zones,",
  "&args.cache,",
  "question,",
  ")",
  ".await;",
  "let message = match answer {",
  "Ok(rr) => {",
  "match rr {",
  "ResolvedRecord::Authoritative { mut rrs, soa_rr } => {",
  "response.answers.append(&mut rrs);",
  "response.authority.push(soa_rr);",
  "response.header.is_authoritative = true;",
  "}",
  "ResolvedRecord::AuthoritativeNameError { soa_rr } => {",
  "response.authority.push(soa_rr);",
  "response.header.rcode = Rcode::NameError;",
  "response.header.is_authoritative = true;",
  "}",
  "ResolvedRecord::NonAuthoritative { mut rrs, soa_rr } => {",
  "response.answers.append(&mut rrs);",
  "if let Some(soa_rr) = soa_rr {",
  "response.authority.push(soa_rr);",
  "}",
  "response.header.is_authoritative = false;",
  "}",
  "}",
  "\"ok\".to_string()",
  "}",
  "Err(err) => format!(\"error: {err}\"),",
  "};",
  "}",
  "}",
  "prune_cache_and_update_metrics(&args.cache);",
  "if response.answers.is_empty()",
  "&& response.authority.is_empty()",
  "&& response.header.rcode == Rcode::NoError",
  "{",
  "response.header.rcode = Rcode::ServerFailure;",
  "response.header.is_authoritative = false;",
  "}",
  "response"] := rfl

theorem C09_handle_raw_message_logic_from_source : Gen.handleRawMessageLogic = [
  "let res = Message::from_octets(buf);",
  "match res {",
  "Ok(msg) => {",
  "if msg.header.is_response {",
  "None",
  "} else if msg.header.opcode == Opcode::Standard {",
  "Some(resolve_and_build_response(args, msg).await)",
  "} else {",
  "let mut response = msg.make_response();",
  "response.header.rcode = Rcode::NotImplemented;",
  "Some(response)",
  "}",
  "}",
  "Err(err) => err.id().map(Message::make_format_error_response),",
  "}"] := rfl

theorem C09_serialise_response_logic_from_source : Gen.serialiseResponseLogic = [
  "match message.to_octets() {",
  "Ok(serialised) => Some((message, serialised)),",
  "Err(error) => {",
  "let mut fallback = message;",
  "fallback.answers.clear();",
  "fallback.authority.clear();",
  "fallback.additional.clear();",
  "fallback.header.rcode = Rcode::ServerFailure;",
  "fallback.header.is_authoritative = false;",
  "match fallback.to_octets() {",
  "Ok(serialised) => Some((fallback, serialised)),",
  "Err(error) => {",
  "None",
  "}",
  "}",
  "}",
  "}"] := rfl

end Resolved
