/-
  C09 — The server answers every message correctly framed and never goes down.
  FIRST-CLAIM version, for EVERY resolver (any function from a question to a result), both
  `authoritative_only` settings and every byte string.
-/
import Resolved.Model.Server

namespace Resolved

/-- UDP replies never exceed 512 octets. -/
theorem C09_udp_frame_le (bytes out : List UInt8) (h : udpFrame bytes = some out) :
    out.length ≤ 512 := by
  unfold udpFrame at h
  split at h
  · cases h
  · split at h
    · cases h; simp [Gen.UDP_MAX]; omega
    · rename_i h1 h2; cases h
      unfold setTcBit; split <;> simp [Gen.UDP_MAX] at * <;> omega

/-- TCP replies carry their exact length as prefix (messages up to 65 535 octets). -/
theorem C09_tcp_frame_prefix (bytes out : List UInt8) (hlen : bytes.length ≤ 65535)
    (h : tcpFrame bytes = some out) : out.take 2 = u16Bytes bytes.length ∧ out.length = 2 + bytes.length := by
  unfold tcpFrame at h
  split at h
  · cases h
  · cases h
    constructor
    · simp [u16Bytes]
    · unfold setTcBit; split <;> simp [u16Bytes] <;> omega

/-- A message flagged as a response is never answered. -/
theorem C09_no_reply_to_response (authOnly : Bool) (resolver : ServerResolver) (buf : List UInt8) (m : Message)
    (hd : decodeMessage buf = .ok m) (hr : m.header.isResponse = true) :
    handleRawMessage authOnly resolver buf = none := by
  unfold handleRawMessage; rw [hd]; simp [hr]

/-- Every reply to a parseable message echoes its ID and has the response flag set. -/
theorem C09_reply_header (authOnly : Bool) (resolver : ServerResolver) (buf : List UInt8) (m r : Message)
    (hd : decodeMessage buf = .ok m) (h : handleRawMessage authOnly resolver buf = some r) :
    r.header.id = m.header.id ∧ r.header.isResponse = true ∧ r.header.opcode = m.header.opcode ∧
    r.header.recursionDesired = m.header.recursionDesired ∧ r.questions = m.questions := by
  unfold handleRawMessage at h
  rw [hd] at h
  simp only at h
  split at h
  · cases h
  · split at h
    · cases h
      unfold resolveAndBuildResponse
      simp only
      repeat' split
      all_goals simp [makeResponse]
    · cases h; simp [makeResponse]

end Resolved
