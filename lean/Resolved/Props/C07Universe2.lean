/-
  C07 — continued: answers already cached from earlier questions, and referrals without glue
  (the two items `Props/C07Universe.lean` leaves open).  Definitions: `Spec/UniverseSpec.lean`
  (appended part); lemmas: `Proofs/UniverseLemmas2.lean`.

  (1) WARM CACHE.  After a first resolution of `q` (hypotheses of `C07_universe_result`, `q` not an NS
      question) at time `now` (`C07_universe_result_cache`: what its final cache holds), a second
      question at time `now' ≥ now` from the state left behind (`laterCtx`):
      * `C07_universe_cached_repeat` (1a): `q` again, every answer record still having a full second
        of TTL left, pairwise different data: no exchange (empty log), the same records in the same
        order with class IN and their remaining TTLs (`cachedRR`); `C07_universe_cached_repeat_same`:
        at the same instant the second answer IS the first;
      * `C07_universe_cached_sibling` (1b): another question answered by the same zone `Z`: exactly
        one exchange, with `Z`'s server, result = what `Z` holds; `C07_universe_second_question`: the
        general form (any set of keys under which earlier answers are cached);
      * what holds instead where (1a) fails: `C07_universe_negative_not_cached` (NODATA / NXDOMAIN are
        not cached: the repeat costs one exchange with `Z`); `C07_cached_partial_rrset_counterexample`
        (an RRset with different TTLs is answered PARTIALLY from the cache once the shortest TTL
        ran out — a finding about the cache, model and Rust alike).
  (2) `C07_universe_glueless_one`: one glueless referral (the name server of the last zone lies in
      another, glue-reachable zone): result and log (root … parent, the nested resolution of the
      host's address from the deepest cached delegation, then the zone's server).
  (3) `C07_universe_glueless`: the general form over resolution WALKS (`UniWalk`): any number of
      glueless referrals, nested to any depth the recursion limit allows.
  Left open: `C07_universe_walk_exists_statement` (existence of a walk from the shape of the
  universe); several name servers per zone together with glueless referrals; NS questions and
  answers with repeated data in (1).
-/
import Resolved.Proofs.UniverseLemmas2
import Resolved.Proofs.ResolverMachineExample

namespace Resolved

open Gen

set_option autoImplicit false

/-! ## (1) Warm cache: a second question -/

/-- C07 (the cache a resolution leaves behind; strengthens `C07_universe_result`).  After the
    resolution of `q` (not an NS question) at time `now` along the path `R :: rest`, the cache of
    the final state holds, for every server `C` of `rest`: under `(C.apex, NS)` nothing but `C`'s NS
    record and under `(C.host, A)` nothing but `C`'s address (at least one tuple each, every one
    alive for at least another second); and under `(q.name, q.qtype)` the records of a positive
    answer (TTL > 0, pairwise different data) in order, each expiring at `now + ttl·10⁹`; the zones
    are unchanged and the question stack is empty. -/
theorem C07_universe_result_cache {U : Universe} {cfg : RecCfg} (h : UniOK U cfg) {q : Question} (hq : QuestionOK q)
    (hk : rtypeIsUnknown q.qtype = false) (hnotNS : q.qtype ≠ RT_NS)
    {R Z : UEntry} {rest : List UEntry} (hp : DelegPath U q R rest Z) (hty : Z.zone.records.Typed)
    {zs : Zones} (hs : UniStart zs q R rest) (d now : Nat) (res : ResolvedRecord)
    (hexp : expectedAt Z q = some res) :
    (resolveRecursive cfg (startCtx zs d now) q).1.ctx.zones = zs ∧
    (resolveRecursive cfg (startCtx zs d now) q).1.ctx.stack = [] ∧
    (∀ C ∈ rest,
      tuplesAt (resolveRecursive cfg (startCtx zs d now) q).1.ctx.cache C.apex RT_NS ≠ [] ∧
      tuplesAt (resolveRecursive cfg (startCtx zs d now) q).1.ctx.cache C.host RT_A ≠ [] ∧
      (∀ t ∈ tuplesAt (resolveRecursive cfg (startCtx zs d now) q).1.ctx.cache C.apex RT_NS,
        t.1 = ⟨RT_NS, [.name C.host]⟩ ∧ now + NANOS ≤ t.2) ∧
      (∀ t ∈ tuplesAt (resolveRecursive cfg (startCtx zs d now) q).1.ctx.cache C.host RT_A,
        t.1 = ⟨RT_A, [.a C.addr]⟩ ∧ now + NANOS ≤ t.2)) ∧
    ((res.rrs.map (·.fields)).Nodup → (∀ rr ∈ res.rrs, 0 < rr.ttl) →
      tuplesAt (resolveRecursive cfg (startCtx zs d now) q).1.ctx.cache q.name q.qtype =
        res.rrs.map (fun rr => (⟨rr.rtype, rr.fields⟩, now + rr.ttl * NANOS))) := by
  have hans := fun rrs hr => uni_answerOK hty q hq.qtype hk rrs hr
  have hpos := uni2_path_ttl_pos hp (uni2_expected_nondeleg hexp)
  have hn : NANOS = 1000000000 := rfl
  have hmem := uni_path_mem hp
  obtain ⟨st1, h1, _, h3, h4, _, c1, h6, h7⟩ := uni2_first (uni2_ok_std h) q hq hnotNS hp _ hexp hans zs d now
    (now + NANOS) hs (uni2_std_glued hp) (Nat.le_refl _)
    (fun E hE => by have := h.glueTtl E hE; have : 1 * NANOS ≤ E.glueTtl * NANOS := Nat.mul_le_mul_right _ this; omega)
    (fun Y hY C ttl hres => by
      have := hpos Y hY C ttl hres
      have : 1 * NANOS ≤ ttl * NANOS := Nat.mul_le_mul_right _ this
      omega)
  rw [h1]
  have hrrs := uni2_expected_rrs hexp hans
  have hcache : uni2_Cache rest rest [(q.name, q.qtype)] st1.ctx.cache (now + NANOS) := by
    rw [h6]
    refine uni2_cache_insertAll h7 (fun _ hC => hC) (fun _ hC => hC) (fun _ hk => nomatch hk) _ ?_
      (fun C hC => Or.inl hC) (fun C hC => Or.inl hC)
    intro rr hrr _
    refine Or.inr (Or.inr (Or.inr ?_))
    rw [(hrrs rr hrr).1, (hrrs rr hrr).2]
    simp
  refine ⟨h4, h3, ?_, ?_⟩
  · intro C hC
    refine ⟨hcache.2.1 C hC, hcache.2.2 C hC, ?_, ?_⟩
    · intro t ht
      rcases hcache.1.2 C.apex RT_NS t ht with ⟨h1, _⟩ | ⟨_, C', hC', hh, ht1, ht2⟩ | ⟨h1, _⟩ | h1
      · exact absurd h1 (by decide)
      · rw [h.apexes C' (hmem.2 C' hC') C (hmem.2 C hC) hh] at ht1
        exact ⟨ht1, ht2⟩
      · exact absurd h1 (by decide)
      · simp only [List.mem_singleton, Prod.mk.injEq] at h1
        exact absurd h1.2.symm hnotNS
    · intro t ht
      rcases hcache.1.2 C.host RT_A t ht with ⟨_, E', hE', hh, ht1, ht2⟩ | ⟨h1, _⟩ | ⟨h1, _⟩ | h1
      · rw [h.hosts E' (hmem.2 E' hE') C (hmem.2 C hC) hh] at ht1
        exact ⟨ht1, ht2⟩
      · exact absurd h1 (by decide)
      · exact absurd h1 (by decide)
      · simp only [List.mem_singleton, Prod.mk.injEq] at h1
        exact absurd h1.1.symm (hs.notHost (Or.inl h1.2.symm) C hC)
  · intro hnd hpos'
    have hempty : tuplesAt c1 q.name q.qtype = [] :=
      uni2_sound_empty h7.1 q.name q.qtype (fun hh E hE he => hs.notHost hh E hE he.symm)
        (fun hh => absurd hh hnotNS) (fun hk => nomatch hk)
    rw [h6, uni2_tuplesAt_insertAll_fresh q.name q.qtype now res.rrs c1 h7.1.1
      (fun rr hr => ⟨(hrrs rr hr).1, (hrrs rr hr).2, hpos' rr hr⟩) hnd (by rw [hempty]; simp), hempty]
    rfl

/-- C07 (1a, REPEATED QUESTION).  After a first resolution of `q` at time `now` (hypotheses of
    `C07_universe_result`; `q` not an NS question) that ended with the records `rrs` of the zone `Z`
    (pairwise different data), the same question asked again at a time `now' ≥ now` at which each record
    still has a full second of its TTL left is answered FROM THE CACHE: no exchange at all (empty
    log, no time spent), and the answer is the first answer up to TTL — the same records in the same
    order, class IN, each with its remaining TTL `⌊(now + ttl·10⁹ − now') / 10⁹⌋` (`cachedRR`). -/
theorem C07_universe_cached_repeat {U : Universe} {cfg : RecCfg} (h : UniOK U cfg) {q : Question} (hq : QuestionOK q)
    (hk : rtypeIsUnknown q.qtype = false) (hnotNS : q.qtype ≠ RT_NS)
    {R Z : UEntry} {rest : List UEntry} (hp : DelegPath U q R rest Z) (hty : Z.zone.records.Typed)
    {zs : Zones} (hs : UniStart zs q R rest) (d now now' : Nat) (rrs : List RR)
    (hexp : expectedAt Z q = some (.nonAuthoritative rrs none))
    (hnd : (rrs.map (·.fields)).Nodup) (hmono : now ≤ now')
    (hleft : ∀ rr ∈ rrs, now' + NANOS ≤ now + rr.ttl * NANOS) :
    (resolveRecursive cfg (startCtx zs d now) q).2 = .ok (.nonAuthoritative rrs none) ∧
    (resolveRecursive cfg (laterCtx (resolveRecursive cfg (startCtx zs d now) q).1 now') q).2 =
      .ok (.nonAuthoritative (rrs.map (cachedRR now now')) none) ∧
    (resolveRecursive cfg (laterCtx (resolveRecursive cfg (startCtx zs d now) q).1 now') q).1.run.log = [] ∧
    (resolveRecursive cfg (laterCtx (resolveRecursive cfg (startCtx zs d now) q).1 now') q).1.run.elapsedMs = 0 := by
  have hans := fun rrs hr => uni_answerOK hty q hq.qtype hk rrs hr
  have hnondeleg := uni2_expected_nondeleg hexp
  have hpos := uni2_path_ttl_pos hp hnondeleg
  have hn : NANOS = 1000000000 := rfl
  obtain ⟨st1, h1, _, h3, h4, _, c1, h6, h7⟩ := uni2_first (uni2_ok_std h) q hq hnotNS hp _ hexp hans zs d now
    (now + NANOS) hs (uni2_std_glued hp) (Nat.le_refl _)
    (fun E hE => by have := h.glueTtl E hE; have : 1 * NANOS ≤ E.glueTtl * NANOS := Nat.mul_le_mul_right _ this; omega)
    (fun Y hY C ttl hres => by
      have := hpos Y hY C ttl hres
      have : 1 * NANOS ≤ ttl * NANOS := Nat.mul_le_mul_right _ this
      omega)
  rw [h1]
  simp only [ResolvedRecord.rrs] at h6
  -- the answer is not empty, its records are the question's
  have hrrs := uni2_expected_rrs hexp hans
  simp only [ResolvedRecord.rrs] at hrrs
  have hne : rrs ≠ [] := by
    intro he
    subst he
    unfold expectedAt at hexp
    split at hexp
    · split at hexp
      · cases hexp
      · rename_i hemp
        cases hexp
        exact hemp rfl
    · cases hexp
    · cases hexp
  have hpos' : ∀ rr ∈ rrs, 0 < rr.ttl := by
    intro rr hr
    have := hleft rr hr
    rcases Nat.eq_zero_or_pos rr.ttl with h0 | h0
    · rw [h0] at this; omega
    · exact h0
  -- nothing was stored under the question's key before the answer came
  have hempty : tuplesAt c1 q.name q.qtype = [] :=
    uni2_sound_empty h7.1 q.name q.qtype (fun hh E hE he => hs.notHost hh E hE he.symm)
      (fun hh => absurd hh hnotNS) (fun hk => nomatch hk)
  have hts : tuplesAt st1.ctx.cache q.name q.qtype = rrs.map (uni2_tupleOf now) := by
    rw [h6, uni2_tuplesAt_insertAll_fresh q.name q.qtype now rrs c1 h7.1.1
      (fun rr hr => ⟨(hrrs rr hr).1, (hrrs rr hr).2, hpos' rr hr⟩) hnd (by rw [hempty]; simp), hempty]
    rfl
  obtain ⟨r1, r2, _⟩ := uni2_repeat cfg q hq.qtype (laterCtx st1 now') rfl
    (by show localMiss st1.ctx.zones q.name q.qtype = true; rw [h4]; exact hs.qmiss) now rrs hne hts
    (fun rr hr => ⟨(hrrs rr hr).1, hleft rr hr⟩)
  refine ⟨rfl, r1, by rw [r2]; rfl, by rw [r2]; rfl⟩

/-- … in particular at the same instant (`now' = now`), for class-IN records with TTLs that fit 32
    bits: the second answer IS the first answer. -/
theorem C07_universe_cached_repeat_same {U : Universe} {cfg : RecCfg} (h : UniOK U cfg) {q : Question}
    (hq : QuestionOK q) (hk : rtypeIsUnknown q.qtype = false) (hnotNS : q.qtype ≠ RT_NS)
    {R Z : UEntry} {rest : List UEntry} (hp : DelegPath U q R rest Z) (hty : Z.zone.records.Typed)
    {zs : Zones} (hs : UniStart zs q R rest) (d now : Nat) (rrs : List RR)
    (hexp : expectedAt Z q = some (.nonAuthoritative rrs none))
    (hnd : (rrs.map (·.fields)).Nodup)
    (hrr : ∀ rr ∈ rrs, 0 < rr.ttl ∧ rr.ttl ≤ U32_MAX ∧ rr.rclass = 1) :
    (resolveRecursive cfg (laterCtx (resolveRecursive cfg (startCtx zs d now) q).1 now) q).2 =
      (resolveRecursive cfg (startCtx zs d now) q).2 ∧
    (resolveRecursive cfg (laterCtx (resolveRecursive cfg (startCtx zs d now) q).1 now) q).1.run.log = [] := by
  have hn : NANOS = 1000000000 := rfl
  obtain ⟨h1, h2, h3, _⟩ := C07_universe_cached_repeat h hq hk hnotNS hp hty hs d now now rrs hexp hnd
    (Nat.le_refl _) (fun rr hr => by
      have := (hrr rr hr).1
      have : 1 * NANOS ≤ rr.ttl * NANOS := Nat.mul_le_mul_right _ this
      omega)
  refine ⟨?_, h3⟩
  rw [h1, h2]
  have : rrs.map (cachedRR now now) = rrs := by
    rw [List.map_congr_left (g := id)]
    · simp
    · intro rr hr
      obtain ⟨_, hb, hc⟩ := hrr rr hr
      have e : (now + rr.ttl * NANOS - now) / NANOS = rr.ttl := by
        rw [Nat.add_sub_cancel_left, Nat.mul_div_cancel _ (by decide)]
      simp only [cachedRR, e, Nat.min_eq_left hb, id]
      rw [← hc]
  rw [this]

/-- C07 (SECOND QUESTION, general form).  After a first resolution of `q` at time `now` (hypotheses
    of `C07_universe_result`; `q` not an NS question), whose answer records (if any) are cached
    under keys of `K`, a question `q2` asked at time `now' ≥ now` that the zone `Z` at the end of the
    first path answers, `q2` not being one of the keys `K`, no deeper cached delegation enclosing
    its name (`UniSibling`), while the NS records and glue cached on the way still have a full second
    left (`UniFresh`): exactly ONE exchange, directly with `Z`'s server, in `Z`'s delay; the result
    is what `Z` holds for `q2`. -/
theorem C07_universe_second_question {U : Universe} {cfg : RecCfg} (h : UniOK U cfg) {q : Question}
    (hq : QuestionOK q) (hk : rtypeIsUnknown q.qtype = false) (hnotNS : q.qtype ≠ RT_NS)
    {R Z : UEntry} {rest : List UEntry} (hp : DelegPath U q R rest Z) (hty : Z.zone.records.Typed)
    {zs : Zones} (hs : UniStart zs q R rest) (d now now' m : Nat) (res : ResolvedRecord)
    (hexp : expectedAt Z q = some res) (hf : UniFresh U q R rest m now now')
    (K : List (Name × Nat)) (hK1 : ∀ rr ∈ res.rrs, (q.name, q.qtype) ∈ K) (hK2 : (Z.apex, RT_NS) ∉ K)
    (hK3 : (Z.host, RT_A) ∉ K)
    {q2 : Question} (hs2 : UniSibling zs K R rest Z q2) (res2 : ResolvedRecord)
    (hexp2 : expectedAt Z q2 = some res2) :
    (resolveRecursive cfg (startCtx zs d now) q).2 = .ok res ∧
    (resolveRecursive cfg (laterCtx (resolveRecursive cfg (startCtx zs d now) q).1 now') q2).2 = .ok res2 ∧
    (resolveRecursive cfg (laterCtx (resolveRecursive cfg (startCtx zs d now) q).1 now') q2).1.run.log =
      [Z.exchange cfg.port q2] ∧
    (resolveRecursive cfg (laterCtx (resolveRecursive cfg (startCtx zs d now) q).1 now') q2).1.run.elapsedMs =
      Z.delayMs := by
  have hans := fun rrs hr => uni_answerOK hty q hq.qtype hk rrs hr
  have hans2 := fun rrs hr => uni_answerOK hty q2 hs2.ok.qtype hs2.known rrs hr
  have hn : NANOS = 1000000000 := rfl
  have hmem := uni_path_mem hp
  have hZ := uni_path_end_mem hp
  have hmono := hf.mono
  have hleft := hf.left
  obtain ⟨st1, h1, _, _, h4, _, c1, h6, h7⟩ := uni2_first (uni2_ok_std h) q hq hnotNS hp _ hexp hans zs d now
    (now + m * NANOS) hs (uni2_std_glued hp) (by omega)
    (fun E hE => Nat.add_le_add_left (Nat.mul_le_mul_right _ (hf.glue E hE)) _)
    (fun Y hY C ttl hres => Nat.add_le_add_left (Nat.mul_le_mul_right _ (uni2_nsTtl (hf.ns Y hY) C ttl hres)) _)
  rw [h1]
  have hrrs := uni2_expected_rrs hexp hans
  -- the cache the first resolution leaves behind
  have hcache : uni2_Cache rest rest K st1.ctx.cache (now + m * NANOS) := by
    rw [h6]
    refine uni2_cache_insertAll h7 (fun _ hC => hC) (fun _ hC => hC) (fun _ hk => nomatch hk) _ ?_
      (fun C hC => Or.inl hC) (fun C hC => Or.inl hC)
    intro rr hrr _
    refine Or.inr (Or.inr (Or.inr ?_))
    rw [(hrrs rr hrr).1, (hrrs rr hrr).2]
    exact hK1 rr hrr
  have hZstart : (Z ∈ rest ∧ localMiss zs Z.apex RT_NS = true ∧ localMiss zs Z.host RT_A = true ∧
      (Z.apex, RT_NS) ∉ K) ∨ (Z.apex = Name.root ∧ RootHints zs Z.host Z.addr) := by
    rcases hs2.start with ⟨h1, h2⟩ | h1
    · exact Or.inl ⟨h1, h2, hs.hostsMiss Z h1, hK2⟩
    · exact Or.inr ⟨by rw [h1]; exact hs.root, by rw [h1]; exact hs.hints⟩
  have hqY : q2 ≠ uniHostQ Z.host := by
    rcases hs2.start with ⟨h1, _⟩ | h1
    · intro he
      exact hs2.notHost (Or.inl (by rw [he]; rfl)) Z h1 (by rw [he]; rfl)
    · rw [h1]; exact (uni_miss_ne_hints hs.hints q2 hs2.qmiss).2
  obtain ⟨st2, g1, g2, _⟩ := uni2_second (uni2_ok_std h) q2 hs2.ok hs2.notNS hZ res2 hexp2 hans2 zs rest hmem.2
    K (now + m * NANOS) (laterCtx st1 now') h4 rfl hcache hleft
    (fun E hE => by
      show now + m * NANOS ≤ now' + E.glueTtl * NANOS
      have := Nat.mul_le_mul_right NANOS (hf.glue E hE)
      omega)
    hZstart hs2.wf hK3 hs2.qmiss hs2.notHost hqY hs2.fresh hs2.warm
  rw [g1]
  refine ⟨rfl, rfl, ?_, ?_⟩
  · rw [g2]; simp [uniRun, Run.empty]
  · rw [g2]; simp [uniRun, Run.empty, totalDelay]

/-- C07 (1b, SIBLING QUESTION).  After a first resolution of `q` at time `now` (hypotheses of
    `C07_universe_result`; `q` not an NS question), a question `q2` asked at time `now' ≥ now` that
    the same zone `Z` answers (a different name, or a different type of the same name), no deeper
    cached delegation enclosing its name, while the NS records and glue cached on the way still
    have a full second left (`UniFresh`: they all have at least `m` seconds of TTL and
    `now' + 1 s ≤ now + m s`): exactly ONE exchange, directly with `Z`'s server — the cached NS set
    and glue of `Z` are the best candidates — in `Z`'s delay; the result is what `Z` holds. -/
theorem C07_universe_cached_sibling {U : Universe} {cfg : RecCfg} (h : UniOK U cfg) {q : Question}
    (hq : QuestionOK q) (hk : rtypeIsUnknown q.qtype = false) (hnotNS : q.qtype ≠ RT_NS)
    {R Z : UEntry} {rest : List UEntry} (hp : DelegPath U q R rest Z) (hty : Z.zone.records.Typed)
    {zs : Zones} (hs : UniStart zs q R rest) (d now now' m : Nat) (res : ResolvedRecord)
    (hexp : expectedAt Z q = some res) (hf : UniFresh U q R rest m now now')
    {q2 : Question} (hs2 : UniSibling zs [(q.name, q.qtype)] R rest Z q2) (res2 : ResolvedRecord)
    (hexp2 : expectedAt Z q2 = some res2) :
    (resolveRecursive cfg (startCtx zs d now) q).2 = .ok res ∧
    (resolveRecursive cfg (laterCtx (resolveRecursive cfg (startCtx zs d now) q).1 now') q2).2 = .ok res2 ∧
    (resolveRecursive cfg (laterCtx (resolveRecursive cfg (startCtx zs d now) q).1 now') q2).1.run.log =
      [Z.exchange cfg.port q2] ∧
    (resolveRecursive cfg (laterCtx (resolveRecursive cfg (startCtx zs d now) q).1 now') q2).1.run.elapsedMs =
      Z.delayMs := by
  refine C07_universe_second_question h hq hk hnotNS hp hty hs d now now' m res hexp hf [(q.name, q.qtype)]
    (fun _ _ => by simp) ?_ ?_ hs2 res2 hexp2
  · simp only [List.mem_singleton, Prod.mk.injEq, not_and]
    exact fun _ he => hnotNS he.symm
  · simp only [List.mem_singleton, Prod.mk.injEq, not_and]
    intro he ht
    rcases hs2.start with ⟨h1, _⟩ | h1
    · exact hs.notHost (Or.inl ht.symm) Z h1 he.symm
    · exact uni2_miss_ne_hints_key hs.hints hs.qmiss ⟨by rw [← he, h1], ht.symm⟩

/-- WHAT HOLDS INSTEAD of (1a) for NODATA / NXDOMAIN: negative answers are NOT cached (neither the
    model nor the Rust code — `resolve_with_nameserver_response` inserts the answer records only,
    the SOA of the authority section is returned but not stored).  A repeated question whose first
    answer was empty is asked again: exactly one exchange, with `Z`'s server (whose NS set and glue
    are cached), and the same empty answer with `Z`'s SOA comes back. -/
theorem C07_universe_negative_not_cached {U : Universe} {cfg : RecCfg} (h : UniOK U cfg) {q : Question}
    (hq : QuestionOK q) (hk : rtypeIsUnknown q.qtype = false)
    {R Z : UEntry} {rest : List UEntry} (hp : DelegPath U q R rest Z) (hty : Z.zone.records.Typed)
    {zs : Zones} (hs : UniStart zs q R rest) (d now now' m : Nat) (soa : RR)
    (hexp : expectedAt Z q = some (.nonAuthoritative [] (some soa))) (hf : UniFresh U q R rest m now now')
    (hs2 : UniSibling zs [] R rest Z q) :
    (resolveRecursive cfg (startCtx zs d now) q).2 = .ok (.nonAuthoritative [] (some soa)) ∧
    (resolveRecursive cfg (laterCtx (resolveRecursive cfg (startCtx zs d now) q).1 now') q).2 =
      .ok (.nonAuthoritative [] (some soa)) ∧
    (resolveRecursive cfg (laterCtx (resolveRecursive cfg (startCtx zs d now) q).1 now') q).1.run.log =
      [Z.exchange cfg.port q] :=
  have key := C07_universe_second_question h hq hk hs2.notNS hp hty hs d now now' m _ hexp hf []
    (fun _ hrr => nomatch hrr) (fun hk => nomatch hk) (fun hk => nomatch hk) hs2 _ hexp
  ⟨key.1, key.2.1, key.2.2.1⟩


/-! ### Non-vacuity: the example universe `UniEx`, `w.x.e. A` asked first -/

open UniEx in
/-- (1a) `w.x.e. A` asked again within 299 s: by the theorem, both records from the cache with their
    remaining TTLs, no exchange. -/
example (d now now' : Nat) (h1 : now ≤ now') (h2 : now' + NANOS ≤ now + 300 * NANOS) :
    (resolveRecursive UniEx.cfg (laterCtx (resolveRecursive UniEx.cfg (startCtx UniEx.zones d now) qA).1 now') qA).2 =
      .ok (.nonAuthoritative [cachedRR now now' rrW1, cachedRR now now' rrW2] none) ∧
    (resolveRecursive UniEx.cfg (laterCtx (resolveRecursive UniEx.cfg (startCtx UniEx.zones d now) qA).1 now') qA).1.run.log
      = [] := by
  obtain ⟨_, r2, r3, _⟩ := C07_universe_cached_repeat uni_ex_ok (uni_ex_question qA (Or.inl rfl)).1
    (uni_ex_question qA (Or.inl rfl)).2 (by decide) (uni_ex_path qA (Or.inl rfl) (Or.inl rfl)) uni_ex_xe_typed
    (uni_ex_start qA (Or.inl rfl)) d now now' [rrW1, rrW2] uni2_ex_expected_A (by decide) h1
    (by
      intro rr hr
      simp only [List.mem_cons, List.not_mem_nil, or_false] at hr
      rcases hr with rfl | rfl <;> exact h2)
  exact ⟨r2, r3⟩

open UniEx in
/-- … as evaluating the model confirms (first question at t = 0, second at t = 5 s: TTL 295). -/
example :
    (resolveRecursive UniEx.cfg (laterCtx (resolveRecursive UniEx.cfg (startCtx UniEx.zones 512 0) qA).1 5000000000) qA).2 =
      .ok (.nonAuthoritative [⟨nWXE, 1, [.a 84281096], 1, 295⟩, ⟨nWXE, 1, [.a 84281097], 1, 295⟩] none) ∧
    (resolveRecursive UniEx.cfg (laterCtx (resolveRecursive UniEx.cfg (startCtx UniEx.zones 512 0) qA).1 5000000000) qA).1.run.log
      = [] ∧
    cachedRR 0 5000000000 rrW1 = ⟨nWXE, 1, [.a 84281096], 1, 295⟩ := by
  decide +kernel

open UniEx in
/-- (1b) after `w.x.e. A`, the question `w.x.e. AAAA` within the hour: one exchange, with the server
    of `x.e.` (3.3.3.3) — NODATA with the SOA of `x.e.`; likewise `y.x.e. A` (NXDOMAIN). -/
example (d now now' : Nat) (h1 : now ≤ now') (h2 : now' + NANOS ≤ now + 3600 * NANOS) (q2 : Question)
    (hq2 : q2 = qAAAA ∨ q2 = qNx) :
    (resolveRecursive UniEx.cfg (laterCtx (resolveRecursive UniEx.cfg (startCtx UniEx.zones d now) qA).1 now') q2).2 =
      .ok (.nonAuthoritative [] (some soaRRXE)) ∧
    (resolveRecursive UniEx.cfg (laterCtx (resolveRecursive UniEx.cfg (startCtx UniEx.zones d now) qA).1 now') q2).1.run.log
      = [eXE.exchange 53 q2] := by
  obtain ⟨_, r2, r3, _⟩ := C07_universe_cached_sibling uni_ex_ok (uni_ex_question qA (Or.inl rfl)).1
    (uni_ex_question qA (Or.inl rfl)).2 (by decide) (uni_ex_path qA (Or.inl rfl) (Or.inl rfl)) uni_ex_xe_typed
    (uni_ex_start qA (Or.inl rfl)) d now now' 3600 _ uni2_ex_expected_A (uni2_ex_fresh qA (Or.inl rfl) now now' h1 h2)
    (uni2_ex_sibling q2 hq2) (.nonAuthoritative [] (some soaRRXE))
    (by rcases hq2 with rfl | rfl; exact uni2_ex_expected_AAAA; exact uni2_ex_expected_nx)
  exact ⟨r2, r3⟩

open UniEx in
/-- … as evaluating the model confirms (second question 100 s later). -/
example :
    (resolveRecursive UniEx.cfg (laterCtx (resolveRecursive UniEx.cfg (startCtx UniEx.zones 512 0) qA).1 100000000000) qAAAA).2 =
      .ok (.nonAuthoritative [] (some soaRRXE)) ∧
    (resolveRecursive UniEx.cfg (laterCtx (resolveRecursive UniEx.cfg (startCtx UniEx.zones 512 0) qA).1 100000000000) qAAAA).1.run.log
      = [eXE.exchange 53 qAAAA] ∧
    (resolveRecursive UniEx.cfg (laterCtx (resolveRecursive UniEx.cfg (startCtx UniEx.zones 512 0) qA).1 100000000000) qNx).1.run.log
      = [eXE.exchange 53 qNx] := by
  decide +kernel

open UniEx in
/-- negative answers are not cached: `y.x.e. A` (NXDOMAIN) asked again costs one more exchange — by
    the theorem and by evaluating the model. -/
example (d now now' : Nat) (h1 : now ≤ now') (h2 : now' + NANOS ≤ now + 3600 * NANOS) :
    (resolveRecursive UniEx.cfg (laterCtx (resolveRecursive UniEx.cfg (startCtx UniEx.zones d now) qNx).1 now') qNx).2 =
      .ok (.nonAuthoritative [] (some soaRRXE)) ∧
    (resolveRecursive UniEx.cfg (laterCtx (resolveRecursive UniEx.cfg (startCtx UniEx.zones d now) qNx).1 now') qNx).1.run.log
      = [eXE.exchange 53 qNx] := by
  obtain ⟨_, r2, r3⟩ := C07_universe_negative_not_cached uni_ex_ok (uni_ex_question qNx (by simp)).1
    (uni_ex_question qNx (by simp)).2 (uni_ex_path qNx (Or.inr (Or.inl rfl)) (Or.inl rfl)) uni_ex_xe_typed
    (uni_ex_start qNx (Or.inr (Or.inr rfl))) d now now' 3600 soaRRXE uni2_ex_expected_nx
    (uni2_ex_fresh qNx (Or.inr (Or.inr rfl)) now now' h1 h2)
    ⟨(uni_ex_question qNx (by simp)).1, (uni_ex_question qNx (by simp)).2, by decide, by decide +kernel,
      (by
        intro _ E hE
        simp only [List.mem_cons, List.not_mem_nil, or_false] at hE
        rcases hE with rfl | rfl <;> decide),
      ⟨(fun hk => nomatch hk), (fun hk => nomatch hk)⟩, Or.inl ⟨by simp, by decide +kernel⟩, by decide,
      by decide +kernel⟩
  exact ⟨r2, r3⟩

open UniEx in
example :
    (resolveRecursive UniEx.cfg (laterCtx (resolveRecursive UniEx.cfg (startCtx UniEx.zones 512 0) qNx).1 1000000000) qNx).1.run.log
      = [eXE.exchange 53 qNx] := by
  decide +kernel


/-! ### A hypothesis of (1a) that cannot be dropped: every record of the answer is still alive

    The cache (model and Rust: `Cache::get` = `get_without_checking_expiration` + `retain(ttl > 0)`)
    keeps one expiry PER RECORD.  If the zone serves an RRset whose records have different TTLs (or
    some with TTL 0, which `SharedCache::insert` never stores), then once the shortest TTL has run
    out a repeated question is answered from the cache with the records that are left — a PARTIAL
    RRset, without any exchange — instead of being asked again.  (RFC 2181 §5.2 deprecates differing
    TTLs inside an RRset and asks resolvers to treat the RRset as a unit; the authoritative side of
    this code base serves such zones as they are.) -/

open UniEx in
/-- `UniEx.uniP`: `w.x.e. A 5.6.7.8` (TTL 300) and `w.x.e. A 5.6.7.9` (TTL 100).  First question at
    t = 0: both records.  The same question at t = 150 s: no exchange, and ONLY the first record. -/
theorem C07_cached_partial_rrset_counterexample :
    Faithful uniP cfgP ∧
    (resolveRecursive cfgP (startCtx UniEx.zones 512 0) qA).2 =
      .ok (.nonAuthoritative [⟨nWXE, 1, [.a 84281096], 1, 300⟩, ⟨nWXE, 1, [.a 84281097], 1, 100⟩] none) ∧
    (resolveRecursive cfgP (laterCtx (resolveRecursive cfgP (startCtx UniEx.zones 512 0) qA).1 150000000000) qA).2 =
      .ok (.nonAuthoritative [⟨nWXE, 1, [.a 84281096], 1, 150⟩] none) ∧
    (resolveRecursive cfgP (laterCtx (resolveRecursive cfgP (startCtx UniEx.zones 512 0) qA).1 150000000000) qA).1.run.log
      = [] :=
  ⟨uni_oracle_faithful uniP 53 (by decide), by decide +kernel, by decide +kernel, by decide +kernel⟩

/-! ## (2), (3) Referrals without glue

    `authReply` (the oracle of `C07_universe_result`) serves glue for every host of the universe a
    referral names.  Here the oracle is `authReplyG gp`: the additional section of a referral is
    chosen by a glue policy `gp` that serves at most that glue (`UniOKG`; `uniGlue U` is the policy
    of `authReply`, `uniGlueB U` serves glue only for name servers inside the delegated zone).  A
    referral to `C` whose glue is empty is GLUELESS: the candidate loop finds no address for `C`'s
    host locally (`locally = true` pass: set aside), comes back with `locally = false`, resolves
    `C.host A` RECURSIVELY — a nested resolution on a longer question stack, starting from the
    deepest cached delegation enclosing the host name — caches the answer, and contacts `C` at the
    address found.  `UniWalk` describes such resolutions: `last` (the server answers), `glued`
    (referral with glue), `glueless` (referral without glue: a nested walk for the host's address,
    itself possibly through glueless referrals, then on). -/

/-- C07 (3, GLUELESS REFERRALS, general form).  For every walk from the root server `R` — any number
    of referrals on the way being glueless, each with its nested walk for the name server's
    address, nested to any depth the recursion limit (`HostUnknown.depth`) allows — from the start
    context (root hints, empty cache), all TTLs being at least `m ≥ 1` s: `resolveRecursive` returns
    the walk's result (what the last zone holds for the question) after exactly the walk's
    exchanges, in order — the root, then for each referral with glue the next server, for each
    glueless referral first the exchanges of the nested resolution of the host's address (question
    `uniHostQ host`), then the server itself — in the sum of the servers' delays. -/
theorem C07_universe_glueless {gp : List RR → List RR} {U : Universe} {cfg : RecCfg} (h : UniOKG gp U cfg)
    {zs : Zones} {m : Nat} (hm : 1 ≤ m ∧ ∀ E ∈ U, m ≤ E.glueTtl) {q : Question} (hq : QuestionOK q)
    (hnotNS : q.qtype ≠ RT_NS) {R : UEntry} (hR : R ∈ U) (hroot : R.apex = Name.root)
    (hints : RootHints zs R.host R.addr) (hqmiss : localMiss zs q.name q.qtype = true)
    (hcand : candMiss zs q.name.labels = true) {ex : List (UEntry × Question)} {f : Nat} {V' G' : List UEntry}
    {res : ResolvedRecord} (hw : UniWalk gp U zs [] m [q] q [] [] R ex f V' G' res)
    (htime : R.delayMs + planDelay ex < RESOLVE_TIMEOUT_MS) (hfuel : f + 3 ≤ REC_FUEL) (d now : Nat) :
    (resolveRecursive cfg (startCtx zs d now) q).2 = .ok res ∧
    (resolveRecursive cfg (startCtx zs d now) q).1.run.log = R.exchange cfg.port q :: planLog cfg.port ex ∧
    (resolveRecursive cfg (startCtx zs d now) q).1.run.elapsedMs = R.delayMs + planDelay ex ∧
    (resolveRecursive cfg (startCtx zs d now) q).1.run.timedOut = false ∧
    (resolveRecursive cfg (startCtx zs d now) q).1.ctx.stack = [] := by
  obtain ⟨st', h1, h2, h3, _⟩ := uni2_walk_start h hm.2 hm.1 hq hnotNS hR hroot hints hqmiss hcand hw htime hfuel d now
  rw [h1]
  simp [h2, h3]

/-- C07 (2, ONE GLUELESS REFERRAL).  The referrals for `q` lead from the root server `R` through the
    servers `rest` (with glue) to a parent `P` that refers to the zone of `Z2` WITHOUT glue: `Z2`'s
    single name server host lies in another zone of the universe.  The address of that host
    (question `uniHostQ Z2.host`) is found along the glued path `Y2 :: rest2` ending at `Z1`, whose
    zone holds it; `Y2` is the deepest server of the first path whose zone encloses the host name,
    or the root (`UniStartGlueless`).  `resolveRecursive` returns what `Z2` holds for `q`, and the
    log is: root … parent (question `q`; the last reply is the referral without glue), then the
    exchanges of the nested resolution of the host's address (`Y2` … `Z1`), then `Z2`'s server. -/
theorem C07_universe_glueless_one {gp : List RR → List RR} {U : Universe} {cfg : RecCfg} (h : UniOKG gp U cfg)
    {zs : Zones} {m : Nat} {q : Question} (hq : QuestionOK q) (hk : rtypeIsUnknown q.qtype = false)
    {R P Z2 Y2 Z1 : UEntry} {rest rest2 : List UEntry} {ttl2 : Nat}
    (hp : DelegPath U q R rest P) (hZ2 : Z2 ∈ U)
    (hres2 : P.zone.resolve q.name q.qtype = some (.delegation [Z2.nsRR ttl2])) (httl2 : 0 < ttl2)
    (hdepth2 : P.apex.labels.length < Z2.apex.labels.length)
    (hp2 : DelegPath U (uniHostQ Z2.host) Y2 rest2 Z1)
    (hty1 : Z1.zone.records.Typed) (hty2 : Z2.zone.records.Typed)
    (hs : UniStartGlueless gp U zs m q R rest Z2 ttl2 Y2 rest2)
    {rrsH : List RR} (hexpH : expectedAt Z1 (uniHostQ Z2.host) = some (.nonAuthoritative rrsH none))
    (haddr : ∀ rr ∈ rrsH, rr.fields = [.a Z2.addr] ∧ m ≤ rr.ttl)
    {res : ResolvedRecord} (hexp : expectedAt Z2 q = some res) (d now : Nat) :
    (resolveRecursive cfg (startCtx zs d now) q).2 = .ok res ∧
    (resolveRecursive cfg (startCtx zs d now) q).1.run.log =
      (R :: rest).map (·.exchange cfg.port q) ++ (Y2 :: rest2).map (·.exchange cfg.port (uniHostQ Z2.host)) ++
        [Z2.exchange cfg.port q] ∧
    (resolveRecursive cfg (startCtx zs d now) q).1.run.elapsedMs =
      totalDelay (R :: rest) + totalDelay (Y2 :: rest2) + Z2.delayMs ∧
    (resolveRecursive cfg (startCtx zs d now) q).1.ctx.stack = [] := by
  obtain ⟨V', G', hw⟩ := uni2_walk_glueless_one hq hk hp hZ2 hres2 httl2 hdepth2 hp2 hty1 hty2 hs hexpH haddr hexp
  have hdelay : planDelay (legExchanges q rest ++
      ((Y2, uniHostQ Z2.host) :: (legExchanges (uniHostQ Z2.host) rest2 ++ []) ++ (Z2, q) :: [])) =
      totalDelay rest + (Y2.delayMs + totalDelay rest2 + Z2.delayMs) := by
    simp only [uni_planDelay_append, uni_planDelay_leg, uni2_planDelay_cons, List.append_nil]
    simp [planDelay, totalDelay]
  have htime := hs.time
  have hfuel := hs.fuel
  simp only [uni_totalDelay_cons] at htime
  obtain ⟨h1, h2, h3, _, h5⟩ := C07_universe_glueless h hs.ttl hq hs.notNS (uni_path_mem hp).1 hs.root hs.hints hs.qmiss
    hs.cand hw (by rw [hdelay]; omega) (by omega) d now
  refine ⟨h1, ?_, ?_, h5⟩
  · rw [h2]
    simp [planLog, legExchanges, List.map_map, Function.comp_def]
  · rw [h3, hdelay]
    simp only [uni_totalDelay_cons]
    omega

/-! ### Non-vacuity: `UniEx.uniG`

    `z.e.` is delegated from `e.` to `k.y.e.` (6.6.6.6), a host in the zone `y.e.`: the referral from
    `e.` carries no glue (in-bailiwick policy).  `w.z.e. A`: root → `e.` (glueless referral to
    `z.e.`), then `k.y.e. A`: `e.` (its NS set and glue are cached: the root is not asked again) →
    `y.e.` (answer 6.6.6.6), then `z.e.` at 6.6.6.6: five exchanges, 110 ms. -/

open UniEx in
/-- the referral is indeed glueless, the other two carry glue. -/
example : authReplyG (uniGlueB uniG) eEG qZ false =
      some { header := replyHeader false false RCODE_NOERROR, questions := [qZ], answers := [],
             authority := [eZE.nsRR 3600], additional := [] } ∧
    uniGlueB uniG [eEG.nsRR 3600] = [eEG.glueRR] ∧ uniGlueB uniG [eYEG.nsRR 3600] = [eYEG.glueRR] := by
  decide +kernel

open UniEx in
/-- by the theorem (all its hypotheses hold: `uni2_ex_startGlueless`, …), for every cache size and
    clock reading … -/
example (d now : Nat) :
    (resolveRecursive cfgG (startCtx UniEx.zones d now) qZ).2 = .ok (.nonAuthoritative [rrWZ] none) ∧
    (resolveRecursive cfgG (startCtx UniEx.zones d now) qZ).1.run.log =
      [eRoot.exchange 53 qZ, eEG.exchange 53 qZ, eEG.exchange 53 (uniHostQ nKYE), eYEG.exchange 53 (uniHostQ nKYE),
       eZE.exchange 53 qZ] ∧
    (resolveRecursive cfgG (startCtx UniEx.zones d now) qZ).1.run.elapsedMs = 110 := by
  obtain ⟨h1, h2, h3, _⟩ := C07_universe_glueless_one uni2_ex_ok (q := qZ) ⟨by decide, by decide +kernel⟩ (by decide)
    uni2_ex_path (by simp [uniG]) uni2_ex_e_refers_z (by decide) (by decide) uni2_ex_path_k
    (uni2_ex_typed eYEG (by simp [uniG])) (uni2_ex_typed eZE (by simp [uniG])) uni2_ex_startGlueless
    uni2_ex_expected_K (by
      intro rr hr
      simp only [List.mem_singleton] at hr
      subst hr; decide)
    uni2_ex_expected_WZ d now
  exact ⟨h1, h2, h3⟩

open UniEx in
/-- … and by evaluating the model. -/
example :
    (resolveRecursive cfgG (startCtx UniEx.zones 512 0) qZ).2 = .ok (.nonAuthoritative [rrWZ] none) ∧
    (resolveRecursive cfgG (startCtx UniEx.zones 512 0) qZ).1.run.log =
      [eRoot.exchange 53 qZ, eEG.exchange 53 qZ, eEG.exchange 53 (uniHostQ nKYE), eYEG.exchange 53 (uniHostQ nKYE),
       eZE.exchange 53 qZ] ∧
    (resolveRecursive cfgG (startCtx UniEx.zones 512 0) qZ).1.run.elapsedMs = 110 := by
  decide +kernel


/-! ### Non-vacuity of the general form: `UniEx.uniG2`, a glueless zone served from another glueless zone

    `v.e.` is delegated (no glue) to `j.z.e.`, a host in `z.e.`, which is itself delegated (no glue) to
    `k.y.e.` in `y.e.`.  `w.v.e. A`: root, `e.` (glueless referral) — nested `j.z.e. A`: `e.` (glueless
    referral) — nested in that `k.y.e. A`: `e.`, `y.e.` — `z.e.` — `v.e.`: seven exchanges, three
    questions on the stack at the deepest point. -/

open UniEx in
/-- by the theorem (a walk exists: `uni2_ex2_walk`) … -/
example (d now : Nat) :
    (resolveRecursive cfgG2 (startCtx UniEx.zones d now) qV).2 = .ok (.nonAuthoritative [rrWV] none) ∧
    (resolveRecursive cfgG2 (startCtx UniEx.zones d now) qV).1.run.log =
      [eRoot.exchange 53 qV, eEG2.exchange 53 qV, eEG2.exchange 53 (uniHostQ nJZE), eEG2.exchange 53 (uniHostQ nKYE),
       eYEG.exchange 53 (uniHostQ nKYE), eZE2.exchange 53 (uniHostQ nJZE), eVE.exchange 53 qV] ∧
    (resolveRecursive cfgG2 (startCtx UniEx.zones d now) qV).1.run.elapsedMs = 135 := by
  obtain ⟨V', G', hw⟩ := uni2_ex2_walk
  obtain ⟨h1, h2, h3, _⟩ := C07_universe_glueless uni2_ex2_ok (m := 300)
    ⟨by decide, by
      intro E hE
      rcases uni2_ex2_mem hE with rfl | rfl | rfl | rfl | rfl | rfl <;> decide⟩
    (q := qV) ⟨by decide, by decide +kernel⟩ (by decide) (by simp [uniG2]) rfl uni_ex_hints (by decide +kernel)
    (by decide +kernel) hw (by decide) (by decide) d now
  exact ⟨h1, h2, h3⟩

open UniEx in
/-- … and by evaluating the model. -/
example :
    (resolveRecursive cfgG2 (startCtx UniEx.zones 512 0) qV).2 = .ok (.nonAuthoritative [rrWV] none) ∧
    (resolveRecursive cfgG2 (startCtx UniEx.zones 512 0) qV).1.run.log =
      [eRoot.exchange 53 qV, eEG2.exchange 53 qV, eEG2.exchange 53 (uniHostQ nJZE), eEG2.exchange 53 (uniHostQ nKYE),
       eYEG.exchange 53 (uniHostQ nKYE), eZE2.exchange 53 (uniHostQ nJZE), eVE.exchange 53 qV] ∧
    (resolveRecursive cfgG2 (startCtx UniEx.zones 512 0) qV).1.run.elapsedMs = 135 := by
  decide +kernel

/-! ## Left open -/

/-- NOT PROVED.  `C07_universe_glueless` asks for a walk; this is the statement that in a consistent
    universe under the in-bailiwick glue policy a walk EXISTS for every question, provided the
    "served from" relation is well founded: there is a rank on the servers such that every server
    whose host is out of bailiwick has its host name answered (an `A` record with its address, TTL
    ≥ `m`) by a zone all of whose servers on the way from the root have a smaller rank — no zone
    needs, directly or indirectly, its own name server's address to be reached — the local zones
    being exactly the root hints, the nesting staying under the recursion limit (`rank < 30`), one
    zone per host name, well-formed names, and the question not being for a server's host name.  (The hypotheses about the walk up from the host
    names — `NestedStart.warm`: the deepest CACHED enclosing delegation is where the nested
    resolution starts — depend on which zones happen to be cached at that moment; deriving them
    from the shape of the universe is what is missing.) -/
def C07_universe_walk_exists_statement : Prop :=
  ∀ (U : Universe) (R : UEntry) (hz : Zone) (ttl m : Nat) (rank : UEntry → Nat) (q : Question),
    Consistent U → R ∈ U → R.apex = Name.root → rootHintsZone R.host R.addr ttl = some hz →
    (∀ E ∈ U, E.zone.records.Typed) → 1 ≤ m → (∀ E ∈ U, m ≤ E.glueTtl ∧ rank E < 30) →
    (∀ E ∈ U, ∀ E' ∈ U, E.host = E'.host → E = E') →
    (∀ E ∈ U, Name.fromLabels E.apex.labels = some E.apex ∧ Name.fromLabels E.host.labels = some E.host ∧
      QuestionOK (uniHostQ E.host)) →
    (∀ E ∈ U, ∀ (name : Name) (t : Nat) (C : UEntry) (ttl' : Nat),
      E.zone.resolve name t = some (.delegation [C.nsRR ttl']) → m ≤ ttl') →
    (∀ C ∈ U, C.host.isSubdomainOf C.apex = false → C.apex ≠ Name.root →
      ∃ Z1 ∈ U, ∃ rrs, expectedAt Z1 (uniHostQ C.host) = some (.nonAuthoritative rrs none) ∧
        (∀ rr ∈ rrs, rr.fields = [.a C.addr] ∧ m ≤ rr.ttl) ∧
        ∀ rest Z, DelegPath U (uniHostQ C.host) R rest Z → Z = Z1 ∧ ∀ D ∈ rest, rank D < rank C) →
    QuestionOK q → q.qtype ≠ RT_NS → Name.fromLabels q.name.labels = some q.name →
    (∀ E ∈ U, q.name ≠ E.host) →
    ∃ ex f V' G' res, UniWalk (uniGlueB U) U (Zones.empty.insert hz) [] m [q] q [] [] R ex f V' G' res

end Resolved
