/-
  C06 — Upstream replies are filtered: only records relevant to the question are used.
  FIRST-CLAIM version.  The full statement `validate q resp mc = some out → USpec.checkValidated …
  = none` (every returned record is allowed: on the CNAME path, of the asked type at its end, NS of
  the deepest enclosing zone below the current delegation, glue for those hosts) is being proved;
  until it closes it is checked on every generated reply by the Impl-vs-Spec oracle.
-/
import Resolved.Spec.UpstreamSpec

namespace Resolved

/-- A reply is accepted only if ID, response flag, opcode and question match the request, it is not
    truncated, and its rcode is NoError or NameError — and it is accepted whenever all of that
    holds (exact characterisation, so any mismatch discards the reply as a whole). -/
theorem C06_mismatch_discarded (req resp : Message) :
    responseMatchesRequest req resp = true ↔
      (req.header.id = resp.header.id ∧ resp.header.isResponse = true ∧
       req.header.opcode = resp.header.opcode ∧ resp.header.isTruncated = false ∧
       (resp.header.rcode = 0 ∨ resp.header.rcode = 3) ∧ req.questions = resp.questions) := by
  unfold responseMatchesRequest RCODE_NOERROR RCODE_NAMEERROR
  constructor
  · intro h
    split at h <;> try (cases h)
    split at h <;> try (cases h)
    split at h <;> try (cases h)
    split at h <;> try (cases h)
    split at h <;> try (cases h)
    split at h <;> try (cases h)
    rename_i h1 h2 h3 h4 h5 h6
    simp_all
    by_cases h0 : resp.header.rcode = 0
    · exact Or.inl h0
    · exact Or.inr (h5 h0)
  · intro ⟨h1, h2, h3, h4, h5, h6⟩
    rcases h5 with h5 | h5 <;> simp [h1, h2, h3, h4, h5, h6]

/-- Whatever the filter returns as an answer or a CNAME step is a sub-list of the reply's answer
    section: nothing from the authority or additional sections, nothing invented. -/
theorem C06_answer_records_from_answer_section (q : Question) (resp : Message) (mc : Nat) :
    (∀ rrs soa, validateNameserverResponse q resp mc = some (.answer rrs soa) → ∀ rr ∈ rrs, rr ∈ resp.answers) ∧
    (∀ rrs c, validateNameserverResponse q resp mc = some (.cname rrs c) → ∀ rr ∈ rrs, rr ∈ resp.answers) := by
  constructor
  · intro rrs soa h rr hrr
    unfold validateNameserverResponse at h
    split at h
    · simp only at h
      split at h <;> try (cases h)
      split at h <;> try (cases h)
      split at h
      · cases h
        exact (List.mem_filter.mp (List.mem_filter.mp hrr).1).1
      · cases h
    · simp only at h
      split at h
      · simp only [Option.map_eq_some_iff] at h
        obtain ⟨_, _, h⟩ := h
        cases h; cases hrr
      · cases h
  · intro rrs c h rr hrr
    unfold validateNameserverResponse at h
    split at h
    · simp only at h
      split at h <;> try (cases h)
      split at h <;> try (cases h)
      split at h
      · cases h
      · cases h
        exact (List.mem_filter.mp (List.mem_filter.mp hrr).1).1
    · simp only at h
      split at h
      · simp only [Option.map_eq_some_iff] at h
        obtain ⟨_, _, h⟩ := h
        cases h
      · cases h

end Resolved
