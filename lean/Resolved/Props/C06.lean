/-
  C06 — Upstream replies are filtered: only records relevant to the question are used.
  FIRST-CLAIM version.  The full statement `validate q resp mc = some out → USpec.checkValidated …
  = none` (every returned record is allowed: on the CNAME path, of the asked type at its end, NS of
  the deepest enclosing zone below the current delegation, glue for those hosts) is being proved;
  until it closes it is checked on every generated reply by the Impl-vs-Spec oracle.
-/
import Resolved.Spec.UpstreamSpec
import Resolved.Proofs.UpstreamLemmas
import Resolved.Proofs.UpstreamFollow
import Resolved.Proofs.UpstreamSpecLemmas

namespace Resolved

/-- A reply is accepted only if ID, response flag, opcode and question match the request, it is not
    truncated, and its rcode is NoError or NameError — and it is accepted whenever all of that
    holds (exact characterisation, so any mismatch discards the reply as a whole). -/
theorem C06_mismatch_discarded (req resp : Message) :
    responseMatchesRequest req resp = true ↔
      (req.header.id = resp.header.id ∧ resp.header.isResponse = true ∧
       req.header.opcode = resp.header.opcode ∧ resp.header.isTruncated = false ∧
       (resp.header.rcode = 0 ∨ resp.header.rcode = 3) ∧ req.questions = resp.questions) := by
  unfold responseMatchesRequest RCODE_NOERROR RCODE_NAMEERROR
  constructor
  · intro h
    split at h <;> try (cases h)
    split at h <;> try (cases h)
    split at h <;> try (cases h)
    split at h <;> try (cases h)
    split at h <;> try (cases h)
    split at h <;> try (cases h)
    rename_i h1 h2 h3 h4 h5 h6
    simp_all
    by_cases h0 : resp.header.rcode = 0
    · exact Or.inl h0
    · exact Or.inr (h5 h0)
  · intro ⟨h1, h2, h3, h4, h5, h6⟩
    rcases h5 with h5 | h5 <;> simp [h1, h2, h3, h4, h5, h6]

/-- Whatever the filter returns as an answer or a CNAME step is a sub-list of the reply's answer
    section: nothing from the authority or additional sections, nothing invented. -/
theorem C06_answer_records_from_answer_section (q : Question) (resp : Message) (mc : Nat) :
    (∀ rrs soa, validateNameserverResponse q resp mc = some (.answer rrs soa) → ∀ rr ∈ rrs, rr ∈ resp.answers) ∧
    (∀ rrs c, validateNameserverResponse q resp mc = some (.cname rrs c) → ∀ rr ∈ rrs, rr ∈ resp.answers) := by
  constructor
  · intro rrs soa h rr hrr
    unfold validateNameserverResponse at h
    split at h
    · simp only at h
      split at h <;> try (cases h)
      split at h <;> try (cases h)
      split at h
      · cases h
        exact (List.mem_filter.mp (List.mem_filter.mp hrr).1).1
      · cases h
    · simp only at h
      split at h
      · simp only [Option.map_eq_some_iff] at h
        obtain ⟨_, _, h⟩ := h
        cases h; cases hrr
      · cases h
  · intro rrs c h rr hrr
    unfold validateNameserverResponse at h
    split at h
    · simp only at h
      split at h <;> try (cases h)
      split at h <;> try (cases h)
      split at h
      · cases h
      · cases h
        exact (List.mem_filter.mp (List.mem_filter.mp hrr).1).1
    · simp only at h
      split at h
      · simp only [Option.map_eq_some_iff] at h
        obtain ⟨_, _, h⟩ := h
        cases h
      · cases h

/-- A referral is used only if it is strictly closer to the question name than the delegation
    already in use: the chosen zone has more labels than `mc`, encloses the question name, and
    comes with at least one name-server host name.  (Also the step lemma of C07.) -/
theorem C06_delegation_closer (q : Question) (resp : Message) (mc : Nat) (rrs : List RR)
    (hs : List Name) (name : Name)
    (h : validateNameserverResponse q resp mc = some (.delegation rrs hs name)) :
    name.labels.length > mc ∧ q.name.isSubdomainOf name = true ∧ hs ≠ [] := by
  obtain ⟨_, hc, _⟩ := validate_delegation h
  have sp := chooseNs_spec hc
  exact ⟨sp.closer, sp.sub, sp.ne⟩

/-- What `getBetterNsNames` returns: a zone deeper than `mc` enclosing the target, owned by an NS
    record of `rrs` for it; no enclosing NS owner in `rrs` is deeper; the host names are exactly the
    targets of the NS records of `rrs` whose owner encloses the target at that depth. -/
theorem C06_getBetterNsNames_spec (rrs : List RR) (target : Name) (mc : Nat) (mn : Name)
    (ns : List Name) (h : getBetterNsNames rrs target mc = some (mn, ns)) :
    mn.labels.length > mc ∧ target.isSubdomainOf mn = true ∧ ns ≠ [] ∧
    (∃ rr ∈ rrs, rr.name = mn ∧ (nsTarget rr).isSome = true) ∧
    (∀ rr ∈ rrs, (nsTarget rr).isSome = true → target.isSubdomainOf rr.name = true →
        rr.name.labels.length ≤ mn.labels.length) ∧
    (∀ n, n ∈ ns ↔ ∃ rr ∈ rrs, nsTarget rr = some n ∧ target.isSubdomainOf rr.name = true ∧
        rr.name.labels.length = mn.labels.length) := by
  have sp := getBetterNsNames_spec h
  obtain ⟨pre1, rr, pre2, hp, hn, hc, _⟩ := sp.first
  refine ⟨sp.closer, sp.sub, sp.ne, ⟨rr, by simp [hp], hn, hc.1⟩, ?_, sp.hosts⟩
  intro r hr h1 h2
  exact sp.maxd r hr ⟨h1, h2⟩

/-- The zone and host names of a referral, over the answer and authority sections together: the
    zone owns an NS record there, is the deepest enclosing NS owner, and the host set is exactly the
    set of targets of the enclosing NS records at that depth. -/
theorem C06_delegation_zone (q : Question) (resp : Message) (mc : Nat) (rrs : List RR)
    (hs : List Name) (name : Name)
    (h : validateNameserverResponse q resp mc = some (.delegation rrs hs name)) :
    (∃ rr ∈ resp.answers ++ resp.authority, rr.name = name ∧ (nsTarget rr).isSome = true) ∧
    (∀ rr ∈ resp.answers ++ resp.authority, (nsTarget rr).isSome = true →
        q.name.isSubdomainOf rr.name = true → rr.name.labels.length ≤ name.labels.length) ∧
    (∀ n, n ∈ hs ↔ ∃ rr ∈ resp.answers ++ resp.authority, nsTarget rr = some n ∧
        q.name.isSubdomainOf rr.name = true ∧ rr.name.labels.length = name.labels.length) := by
  obtain ⟨_, hc, _⟩ := validate_delegation h
  have sp := chooseNs_spec hc
  obtain ⟨pre1, rr, pre2, hp, hn, hcand, _⟩ := sp.first
  refine ⟨⟨rr, by simp [hp], hn, hcand.1⟩, ?_, sp.hosts⟩
  intro r hr h1 h2
  exact sp.maxd r hr ⟨h1, h2⟩

/-- Every record passed on with a referral is either an NS record owned by the chosen delegation
    point whose target is one of the returned host names (taken from the answer or authority
    section), or an A/AAAA record for one of those host names (from the answer or additional
    section).  Nothing else of the reply is used. -/
theorem C06_delegation_records_allowed (q : Question) (resp : Message) (mc : Nat) (rrs : List RR)
    (hs : List Name) (name : Name)
    (h : validateNameserverResponse q resp mc = some (.delegation rrs hs name)) :
    ∀ rr ∈ rrs,
      (∃ t, nsTarget rr = some t ∧ rr.name = name ∧ t ∈ hs ∧ rr ∈ resp.answers ++ resp.authority) ∨
      ((rr.rtype = RT_A ∨ rr.rtype = RT_AAAA) ∧ rr.name ∈ hs ∧ rr ∈ resp.answers ++ resp.additional) := by
  obtain ⟨_, _, hr⟩ := validate_delegation h
  subst hr
  intro rr hrr
  rcases mem_delegRrs.mp hrr with ⟨hm, hk | hk⟩ | ⟨hm, hk⟩ | ⟨hm, hk⟩
  · obtain ⟨t, h1, h2, h3⟩ := isNsOf_iff.mp hk
    exact Or.inl ⟨t, h1, h2, h3, List.mem_append_left _ hm⟩
  · obtain ⟨h1, h2⟩ := isGlueOf_iff.mp hk
    exact Or.inr ⟨h1, h2, List.mem_append_left _ hm⟩
  · obtain ⟨t, h1, h2, h3⟩ := isNsOf_iff.mp hk
    exact Or.inl ⟨t, h1, h2, h3, List.mem_append_right _ hm⟩
  · obtain ⟨h1, h2⟩ := isGlueOf_iff.mp hk
    exact Or.inr ⟨h1, h2, List.mem_append_right _ hm⟩

/-- The fuel `|map| + 1` given to the CNAME-following loop always suffices: any larger fuel gives
    the same result (so the fuel is not observable and the model is faithful to the Rust `while`
    loop). -/
theorem C06_followLoop_fuel_suffices (cnameMap : NameMap) (start : Name) (k : Nat) :
    followLoop cnameMap (cnameMap.length + 1 + k) start [] [] =
      followLoop cnameMap (cnameMap.length + 1) start [] [] :=
  followLoop_fuel_indep (seenOk_nil cnameMap) (by simp) k

/-- With enough fuel the loop gives up (`none`) exactly when a loop was really detected: there
    are pairwise distinct names `t₁ … t_k` with `start ↦ t₁ ↦ … ↦ t_k` in the map, and the
    successor of the last of them (of `start` when `k = 0` — impossible then) is one of the `tᵢ`
    again. -/
theorem C06_followLoop_none_iff_loop (cnameMap : NameMap) (start : Name) (fuel : Nat)
    (hf : cnameMap.length + 1 ≤ fuel) :
    followLoop cnameMap fuel start [] [] = none ↔
      ∃ (path : List Name) (t : Name), path.Nodup ∧
        (∀ p ∈ (start :: path).zip path, nmGet cnameMap p.1 = some p.2) ∧
        (∃ last, (start :: path).getLast? = some last ∧ nmGet cnameMap last = some t) ∧ t ∈ path := by
  constructor
  · intro h
    obtain ⟨path, t, h1, _, h3, h4, h5⟩ :=
      followLoop_none_loop (seenOk_nil cnameMap) (by simpa using hf) h
    exact ⟨path, t, h3, chain_iff_links.mp h1, ⟨_, lastOr_eq_getLast start path, h4⟩, by simpa using h5⟩
  · rintro ⟨path, t, h1, h2, ⟨last, h3, h4⟩, h5⟩
    rw [lastOr_eq_getLast] at h3
    cases h3
    exact followLoop_none_of_loop (chain_iff_links.mpr h2) (by simp) h1 h4 (by simpa using h5) fuel []

/-- The statement of `C06_follow_path` as it stood before the Rust fix 95d17ac (`follow_cnames`
    leaves the CNAME map empty for a question of type CNAME).  Its clause "no record of `rrs` is a
    CNAME owned by `fin`" is FALSE under the corrected model: for a CNAME question the alias record
    owned by the question name is the answer, `fin` is the question name itself, and that record is
    a CNAME owned by `fin` (see `C06_follow_path_statement_before_95d17ac_false`).  The corrected
    statement is `C06_follow_path` below (the clause holds for every other question type; for a
    CNAME question the chain is just `[target]`). -/
def C06_follow_path_statement_before_95d17ac : Prop :=
  ∀ (rrs : List RR) (target : Name) (qtype : Nat) (fin : Name) (followed : NameMap),
    followCnames rrs target qtype = some (fin, followed) →
    ∃ names : List Name,
      names.head? = some target ∧ names.getLast? = some fin ∧ names.Nodup ∧
      followed = names.zip names.tail ∧
      (∀ a b, (a, b) ∈ followed ↔ nmGet followed a = some b) ∧
      (∀ a b, (a, b) ∈ followed → ∃ rr ∈ rrs, rr.name = a ∧ cnameTarget rr = some b) ∧
      (∀ rr ∈ rrs, rr.name = fin → cnameTarget rr = none) ∧
      (names = [target] → ∃ rr ∈ rrs, rr.name = target ∧ rtypeMatches rr.rtype qtype = true)

/-- The old statement fails on the reply `w. CNAME c.` for the question `(w., CNAME)`: the result
    is `(w., [])` and `w.` owns a CNAME record. -/
theorem C06_follow_path_statement_before_95d17ac_false :
    ¬ C06_follow_path_statement_before_95d17ac := by
  intro h
  have hf : followCnames [⟨⟨[[119],[]], 3⟩, 5, [.name ⟨[[99],[]], 3⟩], 1, 60⟩] ⟨[[119],[]], 3⟩ RT_CNAME
      = some (⟨[[119],[]], 3⟩, []) := by decide
  obtain ⟨_, _, _, _, _, _, _, h7, _⟩ := h _ _ _ _ _ hf
  have := h7 ⟨⟨[[119],[]], 3⟩, 5, [.name ⟨[[99],[]], 3⟩], 1, 60⟩ (by simp) rfl
  revert this
  decide

/-- The result `(fin, followed)` of following CNAMEs is one duplicate-free chain: there are
    pairwise distinct names `target = n₀, n₁, …, n_k = fin` such that `followed` is exactly the
    list of links `(nᵢ, nᵢ₊₁)`, looking up `nᵢ` in `followed` gives `nᵢ₊₁`, every link is backed by
    a CNAME record of `rrs` (owner `nᵢ`, target `nᵢ₊₁`), when the chain is empty (`k = 0`) some
    record of `rrs` owned by `target` has the asked type, and
    * for a question type other than CNAME no record of `rrs` is a CNAME owned by `fin` (the chain
      was followed to its end);
    * for the CNAME question type nothing is followed: the chain is `[target]` (Rust fix 95d17ac;
      the alias record is the answer).
    (Statement corrected after 95d17ac; the former one is kept as
    `C06_follow_path_statement_before_95d17ac`.) -/
theorem C06_follow_path (rrs : List RR) (target : Name) (qtype : Nat) (fin : Name) (followed : NameMap)
    (h : followCnames rrs target qtype = some (fin, followed)) :
    ∃ names : List Name,
      names.head? = some target ∧ names.getLast? = some fin ∧ names.Nodup ∧
      followed = names.zip names.tail ∧
      (∀ a b, (a, b) ∈ followed ↔ nmGet followed a = some b) ∧
      (∀ a b, (a, b) ∈ followed → ∃ rr ∈ rrs, rr.name = a ∧ cnameTarget rr = some b) ∧
      (qtype ≠ RT_CNAME → ∀ rr ∈ rrs, rr.name = fin → cnameTarget rr = none) ∧
      (names = [target] → ∃ rr ∈ rrs, rr.name = target ∧ rtypeMatches rr.rtype qtype = true) ∧
      (qtype = RT_CNAME → names = [target]) := by
  obtain ⟨path, h1, h2, h3, h4, h5, h6, h7⟩ := followCnames_some h
  subst h5
  refine ⟨target :: path, rfl, ?_, h2, rfl, ?_, ?_, ?_, ?_, ?_⟩
  · rw [lastOr_eq_getLast, h3]
  · intro a b
    exact ⟨nmGet_of_mem_nodup (linksOf_keys_nodup h2), nmGet_mem⟩
  · intro a b hab
    have := chain_iff_links.mp h1 (a, b) hab
    rw [nmGet_buildMap] at this
    exact lastCname_some this
  · intro hq
    have h4' := h4 hq
    rw [nmGet_buildMap] at h4'
    exact lastCname_none h4'
  · intro hn
    have hp : path = [] := by simpa using hn
    obtain ⟨rr, hr, hk⟩ := List.any_eq_true.mp (h6 hp)
    exact ⟨rr, hr, by simpa using hk⟩
  · intro hq
    rw [h7 hq]

/-- **Rust fix 95d17ac**: a question for the CNAME type is answered by the alias record itself,
    which is not followed: `followCnames` returns the question name with no followed link exactly
    when the records hold a CNAME record owned by it, whatever other CNAME records (chains, loops)
    the reply contains. -/
theorem C06_cname_question_not_followed (rrs : List RR) (target : Name) :
    followCnames rrs target RT_CNAME =
      if rrs.any (fun rr => rr.name == target && rtypeMatches rr.rtype RT_CNAME)
      then some (target, []) else none :=
  followCnames_cname rrs target

/-- The filter on a CNAME question, exactly: if the answer section holds a CNAME record owned by
    the question name, the result is the list of the CNAME records of known class owned by the
    question name, as an answer (nothing when that list is empty); the target of the alias is not
    looked at. -/
theorem C06_cname_question_result (q : Question) (resp : Message) (mc : Nat) (hq : q.qtype = RT_CNAME)
    (hany : resp.answers.any (fun rr => rr.name == q.name && rtypeMatches rr.rtype RT_CNAME) = true) :
    validateNameserverResponse q resp mc =
      if ((resp.answers.filter (fun an => !rrIsUnknown an)).filter
            (fun an => rtypeMatches an.rtype RT_CNAME && an.name == q.name)).isEmpty
      then none
      else some (.answer
        ((resp.answers.filter (fun an => !rrIsUnknown an)).filter
            (fun an => rtypeMatches an.rtype RT_CNAME && an.name == q.name)) none) :=
  validate_cname_question_some hq hany

/-- Consequence of the fix for the filter, for a question of type CNAME: every record of an answer
    is a CNAME record of the answer section owned by the question name (the alias record itself —
    never the records at the alias target), a positive answer (`soa = none`) is not empty, and the
    filter never returns a CNAME step (`.cname ..`): the resolver is never sent after the target
    of the alias. -/
theorem C06_cname_question_answer (q : Question) (resp : Message) (mc : Nat) (hq : q.qtype = RT_CNAME) :
    (∀ rrs soa, validateNameserverResponse q resp mc = some (.answer rrs soa) →
      (∀ rr ∈ rrs, rr ∈ resp.answers ∧ rr.name = q.name ∧ rr.rtype = RT_CNAME) ∧
      (soa = none → rrs ≠ [])) ∧
    (∀ rrs c, validateNameserverResponse q resp mc ≠ some (.cname rrs c)) := by
  cases hany : resp.answers.any (fun rr => rr.name == q.name && rtypeMatches rr.rtype RT_CNAME) with
  | true =>
    rw [validate_cname_question_some hq hany]
    constructor
    · intro rrs soa h
      split at h
      · cases h
      · rename_i hne
        cases h
        refine ⟨?_, fun _ h0 => hne (by rw [h0]; rfl)⟩
        intro rr hrr
        obtain ⟨hm, hk⟩ := List.mem_filter.mp hrr
        rw [rtypeMatches_cname] at hk
        have hk' : rr.rtype = RT_CNAME ∧ rr.name = q.name := by simpa using hk
        exact ⟨(mem_knownOf.mp hm).1, hk'.2, hk'.1⟩
    · intro rrs c h
      split at h <;> cases h
  | false =>
    rw [validate_cname_question_none hq hany]
    constructor
    · intro rrs soa h
      split at h
      · simp only [Option.map_eq_some_iff] at h
        obtain ⟨s, _, h⟩ := h
        cases h
        exact ⟨fun rr hrr => (nomatch hrr), fun h0 => (nomatch h0)⟩
      · cases h
    · intro rrs c h
      split at h
      · simp only [Option.map_eq_some_iff] at h
        obtain ⟨s, _, h⟩ := h
        cases h
      · cases h

/-- Records returned as an answer (`.answer rrs none`) or as a CNAME step (`.cname rrs c`): with
    `(fin, followed)` the result of following the CNAMEs of the answer section from the question
    name, every returned record is a record of the answer section of known type and class, and is
    either of the asked type and owned by the final name `fin`, or a CNAME record that is one of
    the followed links (`followed` maps its owner to its target).  By `C06_follow_path` the
    followed links are the links of one duplicate-free chain from the question name to `fin`.
    An answer contains at least one record of the asked type at `fin`; a CNAME step contains none
    (all its records are links) and its target is `fin`. -/
theorem C06_answer_records_allowed (q : Question) (resp : Message) (mc : Nat) (rrs : List RR) :
    (validateNameserverResponse q resp mc = some (.answer rrs none) →
      ∃ fin followed, followCnames resp.answers q.name q.qtype = some (fin, followed) ∧ rrs ≠ [] ∧
        (∃ rr ∈ rrs, rtypeMatches rr.rtype q.qtype = true ∧ rr.name = fin) ∧
        ∀ rr ∈ rrs, rr ∈ resp.answers ∧ rrIsUnknown rr = false ∧
          ((rtypeMatches rr.rtype q.qtype = true ∧ rr.name = fin) ∨
           (∃ t, cnameTarget rr = some t ∧ nmGet followed rr.name = some t))) ∧
    (∀ c, validateNameserverResponse q resp mc = some (.cname rrs c) →
      ∃ followed, followCnames resp.answers q.name q.qtype = some (c, followed) ∧ rrs ≠ [] ∧
        ∀ rr ∈ rrs, rr ∈ resp.answers ∧ rrIsUnknown rr = false ∧
          ¬ (rtypeMatches rr.rtype q.qtype = true ∧ rr.name = c) ∧
          (∃ t, cnameTarget rr = some t ∧ nmGet followed rr.name = some t)) := by
  constructor
  · intro h
    obtain ⟨fin, cm, hf, hr, hne, hany⟩ := validate_answer h
    subst hr
    refine ⟨fin, cm, hf, hne, ?_, ?_⟩
    · obtain ⟨rr, hrr, hk⟩ := List.any_eq_true.mp hany
      have hk' : rtypeMatches rr.rtype q.qtype = true ∧ rr.name = fin := by simpa using hk
      exact ⟨rr, List.mem_filter.mpr ⟨hrr, ansKeep_iff.mpr (Or.inl hk')⟩, hk'⟩
    · intro rr hrr
      obtain ⟨hm, hk⟩ := List.mem_filter.mp hrr
      obtain ⟨h1, h2⟩ := mem_knownOf.mp hm
      exact ⟨h1, h2, ansKeep_iff.mp hk⟩
  · intro c h
    obtain ⟨cm, hf, hr, hne, hany⟩ := validate_cname h
    subst hr
    refine ⟨cm, hf, hne, ?_⟩
    intro rr hrr
    obtain ⟨hm, hk⟩ := List.mem_filter.mp hrr
    obtain ⟨h1, h2⟩ := mem_knownOf.mp hm
    have hnot : ¬ (rtypeMatches rr.rtype q.qtype = true ∧ rr.name = c) := by
      intro hc
      have : (knownOf resp).any (fun an => rtypeMatches an.rtype q.qtype && an.name == c) = true :=
        List.any_eq_true.mpr ⟨rr, hm, by simpa using hc⟩
      rw [hany] at this
      cases this
    refine ⟨h1, h2, hnot, ?_⟩
    rcases ansKeep_iff.mp hk with h | h
    · exact absurd h hnot
    · exact h

/-- Combination of `C06_answer_records_allowed` and `C06_follow_path`: for an answer or a CNAME
    step there is ONE duplicate-free chain of names starting at the question name, every hop of
    which is backed by a CNAME record of the answer section, such that every returned record is
    either of the asked type and owned by the end of the chain, or a CNAME record that is a hop of
    this chain.  No CNAME that is off the path from the question name is ever returned. -/
theorem C06_returned_cnames_on_chain (q : Question) (resp : Message) (mc : Nat) (rrs : List RR)
    (h : validateNameserverResponse q resp mc = some (.answer rrs none) ∨
         ∃ c, validateNameserverResponse q resp mc = some (.cname rrs c)) :
    ∃ names : List Name,
      names.head? = some q.name ∧ names.Nodup ∧
      (∀ p ∈ names.zip names.tail, ∃ rr ∈ resp.answers, rr.name = p.1 ∧ cnameTarget rr = some p.2) ∧
      ∀ rr ∈ rrs,
        (rtypeMatches rr.rtype q.qtype = true ∧ names.getLast? = some rr.name) ∨
        (∃ t, cnameTarget rr = some t ∧ (rr.name, t) ∈ names.zip names.tail) := by
  have key : ∃ fin followed, followCnames resp.answers q.name q.qtype = some (fin, followed) ∧
      ∀ rr ∈ rrs, (rtypeMatches rr.rtype q.qtype = true ∧ rr.name = fin) ∨
        (∃ t, cnameTarget rr = some t ∧ nmGet followed rr.name = some t) := by
    rcases h with h | ⟨c, h⟩
    · obtain ⟨fin, fol, hf, _, _, hall⟩ := (C06_answer_records_allowed q resp mc rrs).1 h
      exact ⟨fin, fol, hf, fun rr hrr => (hall rr hrr).2.2⟩
    · obtain ⟨fol, hf, _, hall⟩ := (C06_answer_records_allowed q resp mc rrs).2 c h
      exact ⟨c, fol, hf, fun rr hrr => Or.inr (hall rr hrr).2.2.2⟩
  obtain ⟨fin, fol, hf, hall⟩ := key
  obtain ⟨names, h1, h2, h3, h4, h5, h6, _, _⟩ := C06_follow_path _ _ _ _ _ hf
  subst h4
  refine ⟨names, h1, h3, fun p hp => h6 p.1 p.2 hp, ?_⟩
  intro rr hrr
  rcases hall rr hrr with ⟨ha, hb⟩ | ⟨t, ht, hg⟩
  · exact Or.inl ⟨ha, hb ▸ h2⟩
  · exact Or.inr ⟨t, ht, (h5 rr.name t).mpr hg⟩

/-- A negative answer (`.answer [] (some soa)`) is accepted only when the reply has no answers, its
    rcode is NoError or NameError, `soa` is the one and only SOA record of the authority section,
    its owner encloses the question name and is not above the delegation already reached. -/
theorem C06_nodata_soa (q : Question) (resp : Message) (mc : Nat) (rrs : List RR) (soa : RR)
    (h : validateNameserverResponse q resp mc = some (.answer rrs (some soa))) :
    rrs = [] ∧ soa ∈ resp.authority ∧ soa.rtype = RT_SOA ∧ q.name.isSubdomainOf soa.name = true ∧
    soa.name.labels.length ≥ mc ∧ resp.answers = [] ∧
    (resp.header.rcode = 0 ∨ resp.header.rcode = 3) ∧
    resp.authority.filter (fun rr => rr.rtype == RT_SOA) = [soa] ∧
    (∀ rr ∈ resp.authority, rr.rtype = RT_SOA → rr = soa) := by
  obtain ⟨h0, _, _, hs⟩ := validate_nodata h
  obtain ⟨h1, h2, h3, h4, h5⟩ := getNxdomainNodataSoa_some hs
  have hmem : soa ∈ resp.authority.filter (fun rr => rr.rtype == RT_SOA) := by simp [h3]
  have hm := List.mem_filter.mp hmem
  refine ⟨h0, hm.1, by simpa using hm.2, h4, h5, h1, h2, h3, ?_⟩
  intro rr hrr hrt
  have : rr ∈ resp.authority.filter (fun rr => rr.rtype == RT_SOA) :=
    List.mem_filter.mpr ⟨hrr, by simp [hrt]⟩
  rw [h3] at this
  simpa using this

/-! ## The capstone: the filter only returns what the specification allows -/

/-- A negative answer returned by the filter is always accepted by the specification. -/
theorem C06_validate_only_allowed_nodata (q : Question) (mc : Nat) (resp : Message) (rrs : List RR)
    (soa : RR) (h : validateNameserverResponse q resp mc = some (.answer rrs (some soa))) :
    USpec.checkValidated q mc resp (some (.answer rrs (some soa))) = none := by
  obtain ⟨h0, _, _, hs⟩ := validate_nodata h
  subst h0
  exact check_nodata hs

/-- A referral returned by the filter is accepted by the specification (zone = the deepest
    enclosing NS owner below the current delegation, host names = exactly its NS set, records = its
    NS records and glue for those hosts), provided the names of the reply are well-formed
    (`NamesConsistent`: a name is determined by its labels, as in the Rust type). -/
theorem C06_validate_only_allowed_delegation (q : Question) (mc : Nat) (resp : Message)
    (hwf : NamesConsistent (resp.answers ++ resp.authority)) (rrs : List RR) (hs : List Name) (name : Name)
    (h : validateNameserverResponse q resp mc = some (.delegation rrs hs name)) :
    USpec.checkValidated q mc resp (some (.delegation rrs hs name)) = none := by
  obtain ⟨_, hc, hr⟩ := validate_delegation h
  subst hr
  exact check_delegation hwf (chooseNs_spec hc)

/-- A CNAME step returned by the filter is accepted by the specification (all records are CNAMEs
    of the answer section lying on one simple CNAME path from the question name to the returned
    target), provided the answer section has no two different CNAME records with the same owner
    and target (`CnameLinksUnique`). -/
theorem C06_validate_only_allowed_cname (q : Question) (mc : Nat) (resp : Message)
    (huniq : CnameLinksUnique resp.answers) (rrs : List RR) (c : Name)
    (h : validateNameserverResponse q resp mc = some (.cname rrs c)) :
    USpec.checkValidated q mc resp (some (.cname rrs c)) = none := by
  obtain ⟨cm, hf, hr, hne, hany⟩ := validate_cname h
  subst hr
  exact check_cname huniq hf hne hany

/-- An answer returned by the filter is accepted by the specification (the CNAMEs not owned by the
    final name lie on one simple path from the question name to it, everything else is owned by
    the final name and of the asked type), under `CnameLinksUnique`. -/
theorem C06_validate_only_allowed_answer (q : Question) (mc : Nat) (resp : Message)
    (huniq : CnameLinksUnique resp.answers) (rrs : List RR)
    (h : validateNameserverResponse q resp mc = some (.answer rrs none)) :
    USpec.checkValidated q mc resp (some (.answer rrs none)) = none := by
  obtain ⟨fin, cm, hf, hr, _, hany⟩ := validate_answer h
  subst hr
  exact check_answer huniq hf hany

/-- **C06, full statement** (for replies whose names are well-formed and whose answer section
    does not repeat a CNAME link): whatever the filter returns — answer, CNAME step, referral or
    negative answer — passes the executable specification: every returned record is allowed. -/
theorem C06_validate_only_allowed (q : Question) (mc : Nat) (resp : Message)
    (hwf : NamesConsistent (resp.answers ++ resp.authority))
    (huniq : CnameLinksUnique resp.answers) :
    USpec.checkValidated q mc resp (validateNameserverResponse q resp mc) = none := by
  cases h : validateNameserverResponse q resp mc with
  | none => rfl
  | some out =>
    cases out with
    | answer rrs soa =>
      cases soa with
      | none => exact C06_validate_only_allowed_answer q mc resp huniq rrs h
      | some s => exact C06_validate_only_allowed_nodata q mc resp rrs s h
    | cname rrs c => exact C06_validate_only_allowed_cname q mc resp huniq rrs c h
    | delegation rrs hs name => exact C06_validate_only_allowed_delegation q mc resp hwf rrs hs name h

/-- The capstone for decoder outputs: every message produced by the wire decoder satisfies `WfMsg`
    (C03/C04), which gives the well-formedness of names; only the "no repeated CNAME link"
    hypothesis remains. -/
theorem C06_validate_only_allowed_wf (q : Question) (mc : Nat) (resp : Message) (hwf : WfMsg resp)
    (huniq : CnameLinksUnique resp.answers) :
    USpec.checkValidated q mc resp (validateNameserverResponse q resp mc) = none :=
  C06_validate_only_allowed q mc resp (namesConsistent_of_wfMsg hwf) huniq

/-- The unconditional form of the capstone.  It is FALSE as stated (see
    `C06_unconditional_fails_duplicate_cname` and `C06_unconditional_fails_name_len`), which is why
    `C06_validate_only_allowed` carries the two hypotheses. -/
def C06_validate_only_allowed_unconditional_statement : Prop :=
  ∀ (q : Question) (mc : Nat) (resp : Message),
    USpec.checkValidated q mc resp (validateNameserverResponse q resp mc) = none

/-- Counterexample 1 (specification over-strict, not a defect of the filter): the answer section
    holds the same CNAME link `w.e. → n.` twice with different TTLs.  The filter returns both
    records as the CNAME step; `USpec.onPath` wants all links to be records of ONE simple path,
    which contains one record per hop, and rejects. -/
theorem C06_unconditional_fails_duplicate_cname :
    USpec.checkValidated ⟨⟨[[119],[101],[]], 5⟩, 1, 1⟩ 0
      ⟨⟨0, true, 0, false, false, false, false, 0⟩, [],
        [⟨⟨[[119],[101],[]], 5⟩, 5, [.name ⟨[[110],[]], 3⟩], 1, 10⟩,
         ⟨⟨[[119],[101],[]], 5⟩, 5, [.name ⟨[[110],[]], 3⟩], 1, 20⟩], [], []⟩
      (validateNameserverResponse ⟨⟨[[119],[101],[]], 5⟩, 1, 1⟩
        ⟨⟨0, true, 0, false, false, false, false, 0⟩, [],
          [⟨⟨[[119],[101],[]], 5⟩, 5, [.name ⟨[[110],[]], 3⟩], 1, 10⟩,
           ⟨⟨[[119],[101],[]], 5⟩, 5, [.name ⟨[[110],[]], 3⟩], 1, 20⟩], [], []⟩ 0)
      = some "cname-not-on-path-from-question" := by decide

/-- Counterexample 2 (artefact of the model's `Name`, which carries `len` as a free field): two
    NS records for `e.` whose owner names have the same labels but different `len`.  The filter
    collects both hosts (it compares label counts) but keeps only the NS record whose owner is
    equal to the chosen zone; the specification computes the host set from the records owned by
    the zone and rejects.  Impossible in Rust, where `len` is a function of the labels. -/
theorem C06_unconditional_fails_name_len :
    USpec.checkValidated ⟨⟨[[119],[101],[]], 5⟩, 1, 1⟩ 0
      ⟨⟨0, true, 0, false, false, false, false, 0⟩, [], [],
        [⟨⟨[[101],[]], 3⟩, 2, [.name ⟨[[110],[]], 3⟩], 1, 60⟩,
         ⟨⟨[[101],[]], 4⟩, 2, [.name ⟨[[109],[]], 3⟩], 1, 60⟩], []⟩
      (validateNameserverResponse ⟨⟨[[119],[101],[]], 5⟩, 1, 1⟩
        ⟨⟨0, true, 0, false, false, false, false, 0⟩, [], [],
          [⟨⟨[[101],[]], 3⟩, 2, [.name ⟨[[110],[]], 3⟩], 1, 60⟩,
           ⟨⟨[[101],[]], 4⟩, 2, [.name ⟨[[109],[]], 3⟩], 1, 60⟩], []⟩ 0)
      = some "referral-hosts-not-the-ns-set" := by decide

theorem C06_validate_only_allowed_unconditional_false :
    ¬ C06_validate_only_allowed_unconditional_statement := by
  intro h
  have h1 := C06_unconditional_fails_duplicate_cname
  rw [h] at h1
  cases h1

/-! ## Non-vacuity: concrete replies for each result constructor

  Names: `w.e.` = `⟨[[119],[101],[]], 5⟩` (the question name), `e.` = `⟨[[101],[]], 3⟩`,
  `n.` = `⟨[[110],[]], 3⟩`, `c.e.` = `⟨[[99],[101],[]], 5⟩`.  Types: A = 1, NS = 2, CNAME = 5,
  SOA = 6. -/

/-- a referral: NS `e. → n.` in the authority section, glue `n. A` in the additional section. -/
example :
    validateNameserverResponse ⟨⟨[[119],[101],[]], 5⟩, 1, 1⟩
      ⟨⟨0, true, 0, false, false, false, false, 0⟩, [], [],
        [⟨⟨[[101],[]], 3⟩, 2, [.name ⟨[[110],[]], 3⟩], 1, 60⟩],
        [⟨⟨[[110],[]], 3⟩, 1, [.a 7], 1, 60⟩, ⟨⟨[[109],[]], 3⟩, 1, [.a 8], 1, 60⟩]⟩ 0
      = some (.delegation
          [⟨⟨[[101],[]], 3⟩, 2, [.name ⟨[[110],[]], 3⟩], 1, 60⟩, ⟨⟨[[110],[]], 3⟩, 1, [.a 7], 1, 60⟩]
          [⟨[[110],[]], 3⟩] ⟨[[101],[]], 3⟩) := by decide

/-- the same referral is not used when the delegation in use is already that deep (`mc = 2`). -/
example :
    validateNameserverResponse ⟨⟨[[119],[101],[]], 5⟩, 1, 1⟩
      ⟨⟨0, true, 0, false, false, false, false, 0⟩, [], [],
        [⟨⟨[[101],[]], 3⟩, 2, [.name ⟨[[110],[]], 3⟩], 1, 60⟩],
        [⟨⟨[[110],[]], 3⟩, 1, [.a 7], 1, 60⟩]⟩ 2 = none := by decide

/-- an answer through a CNAME: `w.e. CNAME c.e.`, `c.e. A 7`; the unrelated `n. A 9` and the
    off-path `n. CNAME e.` are dropped. -/
example :
    validateNameserverResponse ⟨⟨[[119],[101],[]], 5⟩, 1, 1⟩
      ⟨⟨0, true, 0, false, false, false, false, 0⟩, [],
        [⟨⟨[[119],[101],[]], 5⟩, 5, [.name ⟨[[99],[101],[]], 5⟩], 1, 60⟩,
         ⟨⟨[[110],[]], 3⟩, 5, [.name ⟨[[101],[]], 3⟩], 1, 60⟩,
         ⟨⟨[[99],[101],[]], 5⟩, 1, [.a 7], 1, 60⟩,
         ⟨⟨[[110],[]], 3⟩, 1, [.a 9], 1, 60⟩], [], []⟩ 0
      = some (.answer
          [⟨⟨[[119],[101],[]], 5⟩, 5, [.name ⟨[[99],[101],[]], 5⟩], 1, 60⟩,
           ⟨⟨[[99],[101],[]], 5⟩, 1, [.a 7], 1, 60⟩] none) := by decide

/-- a CNAME step: only `w.e. CNAME c.e.`, no address for `c.e.`. -/
example :
    validateNameserverResponse ⟨⟨[[119],[101],[]], 5⟩, 1, 1⟩
      ⟨⟨0, true, 0, false, false, false, false, 0⟩, [],
        [⟨⟨[[119],[101],[]], 5⟩, 5, [.name ⟨[[99],[101],[]], 5⟩], 1, 60⟩,
         ⟨⟨[[110],[]], 3⟩, 1, [.a 9], 1, 60⟩], [], []⟩ 0
      = some (.cname [⟨⟨[[119],[101],[]], 5⟩, 5, [.name ⟨[[99],[101],[]], 5⟩], 1, 60⟩]
          ⟨[[99],[101],[]], 5⟩) := by decide

/-- a CNAME loop `w.e. → c.e. → w.e.` is detected: no answer and (no NS, no SOA) nothing at all. -/
example :
    validateNameserverResponse ⟨⟨[[119],[101],[]], 5⟩, 1, 1⟩
      ⟨⟨0, true, 0, false, false, false, false, 0⟩, [],
        [⟨⟨[[119],[101],[]], 5⟩, 5, [.name ⟨[[99],[101],[]], 5⟩], 1, 60⟩,
         ⟨⟨[[99],[101],[]], 5⟩, 5, [.name ⟨[[119],[101],[]], 5⟩], 1, 60⟩], [], []⟩ 0
      = none := by decide

/-- a negative answer: NXDOMAIN with the SOA of `e.` in the authority section. -/
example :
    validateNameserverResponse ⟨⟨[[119],[101],[]], 5⟩, 1, 1⟩
      ⟨⟨0, true, 0, false, false, false, false, 3⟩, [], [],
        [⟨⟨[[101],[]], 3⟩, 6, [], 1, 60⟩], []⟩ 0
      = some (.answer [] (some ⟨⟨[[101],[]], 3⟩, 6, [], 1, 60⟩)) := by decide

/-- the two hypotheses of the capstone are satisfiable (and decidable) on concrete sections. -/
example : NamesConsistent ([⟨⟨[[101],[]], 3⟩, 2, [.name ⟨[[110],[]], 3⟩], 1, 60⟩,
    ⟨⟨[[101],[]], 3⟩, 2, [.name ⟨[[109],[]], 3⟩], 1, 60⟩] : List RR) := by
  unfold NamesConsistent; decide

example : CnameLinksUnique ([⟨⟨[[119],[101],[]], 5⟩, 5, [.name ⟨[[99],[101],[]], 5⟩], 1, 60⟩,
    ⟨⟨[[99],[101],[]], 5⟩, 1, [.a 7], 1, 60⟩] : List RR) := by
  unfold CnameLinksUnique; decide

/-- a CNAME question (type 5): the alias record `w.e. CNAME c.e.` is the answer; the address of its
    target is not returned and the alias is not followed (Rust fix 95d17ac). -/
example :
    validateNameserverResponse ⟨⟨[[119],[101],[]], 5⟩, 5, 1⟩
      ⟨⟨0, true, 0, false, false, false, false, 0⟩, [],
        [⟨⟨[[119],[101],[]], 5⟩, 5, [.name ⟨[[99],[101],[]], 5⟩], 1, 60⟩,
         ⟨⟨[[99],[101],[]], 5⟩, 1, [.a 7], 1, 60⟩], [], []⟩ 0
      = some (.answer [⟨⟨[[119],[101],[]], 5⟩, 5, [.name ⟨[[99],[101],[]], 5⟩], 1, 60⟩] none) := by decide

/-- a CNAME question is answered even when the aliases of the reply form a loop
    `w.e. → c.e. → w.e.` (for an address question the same reply is rejected, see above). -/
example :
    validateNameserverResponse ⟨⟨[[119],[101],[]], 5⟩, 5, 1⟩
      ⟨⟨0, true, 0, false, false, false, false, 0⟩, [],
        [⟨⟨[[119],[101],[]], 5⟩, 5, [.name ⟨[[99],[101],[]], 5⟩], 1, 60⟩,
         ⟨⟨[[99],[101],[]], 5⟩, 5, [.name ⟨[[119],[101],[]], 5⟩], 1, 60⟩], [], []⟩ 0
      = some (.answer [⟨⟨[[119],[101],[]], 5⟩, 5, [.name ⟨[[99],[101],[]], 5⟩], 1, 60⟩] none) := by decide

/-- the hypotheses of `C06_cname_question_result` / `C06_cname_question_answer` are satisfiable. -/
example : (⟨⟨[[119],[101],[]], 5⟩, 5, 1⟩ : Question).qtype = RT_CNAME := rfl

/-- `followLoop`: a two-link chain, and the loop case. -/
example :
    followLoop [(⟨[[119],[]], 3⟩, ⟨[[99],[]], 3⟩), (⟨[[99],[]], 3⟩, ⟨[[100],[]], 3⟩)] 3 ⟨[[119],[]], 3⟩ [] []
      = some (⟨[[100],[]], 3⟩, [⟨[[99],[]], 3⟩, ⟨[[100],[]], 3⟩],
          [(⟨[[119],[]], 3⟩, ⟨[[99],[]], 3⟩), (⟨[[99],[]], 3⟩, ⟨[[100],[]], 3⟩)]) := by decide

example :
    followLoop [(⟨[[119],[]], 3⟩, ⟨[[99],[]], 3⟩), (⟨[[99],[]], 3⟩, ⟨[[119],[]], 3⟩)] 3 ⟨[[119],[]], 3⟩ [] []
      = none := by decide

/-- the hypotheses of the capstone hold for the CNAME-answer reply above, so the capstone
    applies to it non-vacuously. -/
example :
    USpec.checkValidated ⟨⟨[[119],[101],[]], 5⟩, 1, 1⟩ 0
      ⟨⟨0, true, 0, false, false, false, false, 0⟩, [],
        [⟨⟨[[119],[101],[]], 5⟩, 5, [.name ⟨[[99],[101],[]], 5⟩], 1, 60⟩,
         ⟨⟨[[99],[101],[]], 5⟩, 1, [.a 7], 1, 60⟩], [], []⟩
      (some (.answer
          [⟨⟨[[119],[101],[]], 5⟩, 5, [.name ⟨[[99],[101],[]], 5⟩], 1, 60⟩,
           ⟨⟨[[99],[101],[]], 5⟩, 1, [.a 7], 1, 60⟩] none)) = none := by decide

end Resolved
