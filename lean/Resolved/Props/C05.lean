/-
  C05 — The cache never serves a record past its TTL.
  FIRST-CLAIM version: the serving-side clauses, for every cache state (reachable or not), every
  name/type and every clock reading.  The refinement of whole histories to the abstract map
  (Spec/CacheSpec.lean: expiry = time of LAST insertion + TTL, no duplicates) is the next theorem;
  until it closes that link is checked by the Impl-vs-Spec oracle on the streams.
-/
import Resolved.Spec.CacheSpec

namespace Resolved

/-- Every record `get` returns has a TTL of at least one second … -/
theorem C05_get_ttl_pos (c : PCache) (name : Name) (qtype now : Nat) :
    ∀ rr ∈ (cacheGet c name qtype now).2, rr.ttl > 0 := by
  intro rr h
  unfold cacheGet at h
  simp only [List.mem_filter, decide_eq_true_eq] at h
  exact h.2

/-- `to_rrs` reports the floor of the remaining seconds: never more than the time left. -/
theorem toRRs_ttl_le (name : Name) (now : Nat) (ts : Tuples) :
    ∀ rr ∈ toRRs name now ts, ∃ t ∈ ts, rr.rtype = t.1.rtype ∧ rr.fields = t.1.fields ∧ rr.name = name ∧
      rr.ttl * NANOS ≤ t.2 - now := by
  intro rr h
  unfold toRRs at h
  simp only [List.mem_map] at h
  obtain ⟨t, ht, rfl⟩ := h
  refine ⟨t, ht, rfl, rfl, rfl, ?_⟩
  simp only
  have : min ((t.2 - now) / NANOS) U32_MAX ≤ (t.2 - now) / NANOS := Nat.min_le_left _ _
  calc min ((t.2 - now) / NANOS) U32_MAX * NANOS ≤ (t.2 - now) / NANOS * NANOS := Nat.mul_le_mul_right _ this
    _ ≤ t.2 - now := Nat.div_mul_le_self _ _

/-- … so a record whose stored expiry is not in the future can never be produced by `to_rrs` with a
    non-zero TTL: `now ≥ expiry → ttl = 0`, and `get` drops TTL-0 records. -/
theorem toRRs_expired_ttl_zero (name : Name) (now : Nat) (ts : Tuples) (h : ∀ t ∈ ts, t.2 ≤ now) :
    ∀ rr ∈ toRRs name now ts, rr.ttl = 0 := by
  intro rr hrr
  obtain ⟨t, ht, _, _, _, hle⟩ := toRRs_ttl_le name now ts rr hrr
  have : t.2 - now = 0 := by have := h t ht; omega
  rw [this] at hle
  have hn : NANOS = 1000000000 := rfl
  rw [hn] at hle
  omega

/-- TTL-0 records are never stored by the shared cache. -/
theorem C05_ttl0_not_stored (c : PCache) (rr : RR) (now : Nat) (h : rr.ttl = 0) :
    sharedInsert c rr now = c := by
  unfold sharedInsert; simp [h]

end Resolved
