/-
  C05 — The cache never serves a record past its TTL.
  FIRST-CLAIM version: the serving-side clauses, for every cache state (reachable or not), every
  name/type and every clock reading.  The refinement of whole histories to the abstract map
  (Spec/CacheSpec.lean: expiry = time of LAST insertion + TTL, no duplicates) is the next theorem;
  until it closes that link is checked by the Impl-vs-Spec oracle on the streams.
-/
import Resolved.Spec.CacheSpec
import Resolved.Proofs.CacheHistory
import Resolved.Proofs.CacheUse

namespace Resolved

/-- Every record `get` returns has a TTL of at least one second … -/
theorem C05_get_ttl_pos (c : PCache) (name : Name) (qtype now : Nat) :
    ∀ rr ∈ (cacheGet c name qtype now).2, rr.ttl > 0 := by
  intro rr h
  unfold cacheGet at h
  simp only [List.mem_filter, decide_eq_true_eq] at h
  exact h.2

/-- `to_rrs` reports the floor of the remaining seconds: never more than the time left. -/
theorem toRRs_ttl_le (name : Name) (now : Nat) (ts : Tuples) :
    ∀ rr ∈ toRRs name now ts, ∃ t ∈ ts, rr.rtype = t.1.rtype ∧ rr.fields = t.1.fields ∧ rr.name = name ∧
      rr.ttl * NANOS ≤ t.2 - now := by
  intro rr h
  unfold toRRs at h
  simp only [List.mem_map] at h
  obtain ⟨t, ht, rfl⟩ := h
  refine ⟨t, ht, rfl, rfl, rfl, ?_⟩
  simp only
  have : min ((t.2 - now) / NANOS) U32_MAX ≤ (t.2 - now) / NANOS := Nat.min_le_left _ _
  calc min ((t.2 - now) / NANOS) U32_MAX * NANOS ≤ (t.2 - now) / NANOS * NANOS := Nat.mul_le_mul_right _ this
    _ ≤ t.2 - now := Nat.div_mul_le_self _ _

/-- … so a record whose stored expiry is not in the future can never be produced by `to_rrs` with a
    non-zero TTL: `now ≥ expiry → ttl = 0`, and `get` drops TTL-0 records. -/
theorem toRRs_expired_ttl_zero (name : Name) (now : Nat) (ts : Tuples) (h : ∀ t ∈ ts, t.2 ≤ now) :
    ∀ rr ∈ toRRs name now ts, rr.ttl = 0 := by
  intro rr hrr
  obtain ⟨t, ht, _, _, _, hle⟩ := toRRs_ttl_le name now ts rr hrr
  have : t.2 - now = 0 := by have := h t ht; omega
  rw [this] at hle
  have hn : NANOS = 1000000000 := rfl
  rw [hn] at hle
  omega

/-- TTL-0 records are never stored by the shared cache. -/
theorem C05_ttl0_not_stored (c : PCache) (rr : RR) (now : Nat) (h : rr.ttl = 0) :
    sharedInsert c rr now = c := by
  unfold sharedInsert; simp [h]

/-! ## Insertion (re)starts the lifetime, without duplicating

`tuplesAt c k rk` is the tuple list filed under name `k`, record type `rk` (empty if none);
`storedExpiry c name rtype fields` is the expiry stored for the key `(name, rtype, fields)`. -/

/-- After `upsert k rk v ttl now` the list under `(k, rk)` holds `v` exactly once, with expiry
    `now + ttl` (whatever expiry `v` had before is gone); every other tuple of that list, and every
    other list of the cache, is unchanged. -/
theorem C05_upsert_expiry (c : PCache) (k : Name) (rk : Nat) (v : CRec) (ttl now : Nat)
    (h : Inv c) (hrt : v.rtype = rk) :
    (∀ e, (v, e) ∈ tuplesAt (c.upsert k rk v ttl now) k rk ↔ e = now + ttl) ∧
    ((tuplesAt (c.upsert k rk v ttl now) k rk).map (·.1)).Nodup ∧
    (∀ w e, w ≠ v → ((w, e) ∈ tuplesAt (c.upsert k rk v ttl now) k rk ↔ (w, e) ∈ tuplesAt c k rk)) ∧
    (∀ k' rk', (k' ≠ k ∨ rk' ≠ rk) → tuplesAt (c.upsert k rk v ttl now) k' rk' = tuplesAt c k' rk') := by
  refine ⟨?_, (h.upsert k ttl now hrt).tuplesAt_nodup k rk, ?_, ?_⟩
  · intro e
    rw [mem_tuplesAt_upsert h k ttl now]
    simp
  · intro w e hw
    rw [mem_tuplesAt_upsert h k ttl now]
    simp [hw]
  · intro k' rk' hne
    exact tuplesAt_upsert_other h k ttl now k' rk' hne

/-- The same in terms of keys: an insertion sets the stored expiry of its own key to
    `now + ttl` and leaves every other key's stored expiry alone. -/
theorem C05_upsert_storedExpiry (c : PCache) (k : Name) (rk : Nat) (v : CRec) (ttl now : Nat)
    (h : Inv c) (hrt : v.rtype = rk) (k' : Name) (rt : Nat) (fs : List FieldVal) :
    storedExpiry (c.upsert k rk v ttl now) k' rt fs =
      if k' = k ∧ (⟨rt, fs⟩ : CRec) = v then some (now + ttl) else storedExpiry c k' rt fs :=
  storedExpiry_upsert h k ttl now hrt k' rt fs

/-- … and for `Cache::insert`: the record's key expires `ttl` seconds after this insertion. -/
theorem C05_insert_storedExpiry (c : PCache) (rr : RR) (now : Nat) (h : Inv c)
    (k' : Name) (rt : Nat) (fs : List FieldVal) :
    storedExpiry (cacheInsert c rr now) k' rt fs =
      if k' = rr.name ∧ rt = rr.rtype ∧ fs = rr.fields then some (now + rr.ttl * NANOS)
      else storedExpiry c k' rt fs := by
  unfold cacheInsert
  rw [storedExpiry_upsert h rr.name (rk := rr.rtype) (v := ⟨rr.rtype, rr.fields⟩) (rr.ttl * NANOS) now rfl]
  simp only [CRec.mk.injEq]

/-! ## Serving -/

/-- C05, safety: every record `get` returns is stored, its stored expiry is strictly in the
    future, the TTL it reports is at least one second and no more than the time left, and it
    answers the question asked. -/
theorem C05_never_stale (c : PCache) (name : Name) (qtype now : Nat) (h : Inv c) :
    ∀ rr ∈ (cacheGet c name qtype now).2,
      ∃ e, storedExpiry c name rr.rtype rr.fields = some e ∧ now < e ∧ 1 ≤ rr.ttl ∧
        rr.ttl * NANOS ≤ e - now ∧ rr.name = name ∧ rtypeMatches rr.rtype qtype = true := by
  intro rr hrr
  obtain ⟨hu, hpos⟩ := (mem_cacheGet_iff name qtype now rr).mp hrr
  obtain ⟨rk, hm, hr⟩ := (mem_cacheGetUnchecked_iff h name qtype now rr).mp hu
  obtain ⟨t, ht, hrt, hfs, hname, hle⟩ := toRRs_ttl_le name now _ rr hr
  have hrk : t.1.rtype = rk := h.tuplesAt_rtype name rk t ht
  have hst : storedExpiry c name rr.rtype rr.fields = some t.2 := by
    rw [storedExpiry_eq, hrt, hfs, hrk]
    apply lookupTuple_of_mem (h.tuplesAt_nodup name rk)
    have : ((⟨rk, t.1.fields⟩ : CRec), t.2) = t := by
      obtain ⟨⟨a, b⟩, e⟩ := t; simp only at hrk; subst hrk; rfl
    rw [this]; exact ht
  refine ⟨t.2, hst, ?_, hpos, hle, hname, by rw [hrt, hrk]; exact hm⟩
  have hn : NANOS = 1000000000 := rfl
  have : 1 * NANOS ≤ rr.ttl * NANOS := Nat.mul_le_mul_right _ hpos
  omega

/-- C05, liveness: a stored record with at least one full second left is returned by every
    lookup whose query type it matches (no invariant needed: the lookup is keyed the same way). -/
theorem C05_live_is_returned (c : PCache) (name : Name) (qtype now : Nat) (rt : Nat)
    (fs : List FieldVal) (e : Nat) (hst : storedExpiry c name rt fs = some e) (hlive : now + NANOS ≤ e)
    (hm : rtypeMatches rt qtype = true) :
    ∃ rr ∈ (cacheGet c name qtype now).2, rr.rtype = rt ∧ rr.fields = fs ∧ rr.name = name := by
  rw [storedExpiry_eq] at hst
  have hmem := lookupTuple_some_mem hst
  refine ⟨mkRR name now (⟨rt, fs⟩, e), ?_, rfl, rfl, rfl⟩
  rw [mem_cacheGet_iff]
  refine ⟨mem_cacheGetUnchecked_of hm ?_, ?_⟩
  · rw [toRRs_eq_map]; exact List.mem_map.mpr ⟨_, hmem, rfl⟩
  · simp only [mkRR]
    have hn : NANOS = 1000000000 := rfl
    have hu : U32_MAX = 4294967295 := rfl
    have : 1 ≤ (e - now) / NANOS := by
      rw [Nat.le_div_iff_mul_le (by omega)]; omega
    rw [hu]; omega

/-- No (type, data) is returned twice by one lookup. -/
theorem C05_get_nodup (c : PCache) (name : Name) (qtype now : Nat) (h : Inv c) :
    ((cacheGet c name qtype now).2.map (fun rr => (rr.rtype, rr.fields))).Nodup ∧
    ((cacheGetUnchecked c name qtype now).2.map (fun rr => (rr.rtype, rr.fields))).Nodup :=
  ⟨h.cacheGet_nodup name qtype now, h.cacheGetUnchecked_nodup name qtype now⟩

/-- The unchecked lookup (which may return expired records, with TTL 0) still never overstates the
    time left and only returns stored records of the right name and type. -/
theorem C05_unchecked_ttl_le (c : PCache) (name : Name) (qtype now : Nat) (h : Inv c) :
    ∀ rr ∈ (cacheGetUnchecked c name qtype now).2,
      ∃ e, storedExpiry c name rr.rtype rr.fields = some e ∧ rr.ttl * NANOS ≤ e - now ∧
        rr.name = name ∧ rtypeMatches rr.rtype qtype = true := by
  intro rr hu
  obtain ⟨rk, hm, hr⟩ := (mem_cacheGetUnchecked_iff h name qtype now rr).mp hu
  obtain ⟨t, ht, hrt, hfs, hname, hle⟩ := toRRs_ttl_le name now _ rr hr
  have hrk : t.1.rtype = rk := h.tuplesAt_rtype name rk t ht
  refine ⟨t.2, ?_, hle, hname, by rw [hrt, hrk]; exact hm⟩
  rw [storedExpiry_eq, hrt, hfs, hrk]
  apply lookupTuple_of_mem (h.tuplesAt_nodup name rk)
  have : ((⟨rk, t.1.fields⟩ : CRec), t.2) = t := by
    obtain ⟨⟨a, b⟩, e⟩ := t; simp only at hrk; subst hrk; rfl
  rw [this]; exact ht

/-- Lookups never change what is stored (values, expiries, the expiry queue, the counters):
    they only refresh `last_read` and its queue priority. -/
theorem C05_get_preserves_store (c : PCache) (name : Name) (qtype now : Nat) :
    (∀ k rt fs, storedExpiry (cacheGet c name qtype now).1 k rt fs = storedExpiry c k rt fs) ∧
    (∀ k rt fs, storedExpiry (cacheGetUnchecked c name qtype now).1 k rt fs = storedExpiry c k rt fs) ∧
    (∀ k rk, tuplesAt (cacheGet c name qtype now).1 k rk = tuplesAt c k rk) ∧
    (cacheGet c name qtype now).1.expiryPriority = c.expiryPriority ∧
    (cacheGet c name qtype now).1.currentSize = c.currentSize := by
  have ht := cacheGetUnchecked_touched c name qtype now
  exact ⟨fun k rt fs => ht.storedExpiry k rt fs, fun k rt fs => ht.storedExpiry k rt fs,
    fun k rk => ht.tuplesAt k rk, ht.rest.1, ht.rest.2.1⟩

/-! ## Pruning and whole histories -/

/-- `prune` and the stored expiries: a key is still stored afterwards iff its partition survived
    and its expiry is in the future, and then with the same expiry — pruning never alters a lifetime. -/
theorem C05_prune_stored (c c' : PCache) (now : Nat) (r : Bool × Nat × Nat × Nat) (h : Inv c)
    (hp : c.prune now = some (c', r)) (k : Name) (rt : Nat) (fs : List FieldVal) :
    storedExpiry c' k rt fs =
      if k ∈ AL.keys c'.partitions then
        (storedExpiry c k rt fs).bind (fun e => if e > now then some e else none)
      else none :=
  h.storedExpiry_prune hp k rt fs

/-- The abstract map (`CSpec.State.entries`) after an insertion: the inserted key maps to
    `now + ttl` seconds (TTL 0: nothing changes), every other key is unchanged — so the abstract
    entry of a key is always the expiry of its LAST insertion. -/
theorem C05_abs_insert (m : List (CSpec.Key × Nat)) (rr : RR) (now : Nat) (k : CSpec.Key) :
    absFind (absInsert m rr now) k =
      if rr.ttl > 0 ∧ k = ⟨rr.name, rr.rtype, rr.fields⟩ then some (now + rr.ttl * NANOS) else absFind m k :=
  absFind_insert m rr now k

/-- C05, history level: run any history from the empty cache, concretely (`run`) and abstractly
    (`runBoth … .2`: insertions overwrite the key's entry with `now + ttl`, lookups change nothing,
    a prune only drops the entries the cache dropped).  Then for every key the cache stores exactly
    the abstract entry: the expiry of the key's last insertion, unless pruned since. -/
theorem C05_history (d : Nat) (ops : List CacheOp) (k : CSpec.Key) :
    (runBoth (PCache.new d) [] ops).1 = run d ops ∧
    storedExpiry (run d ops) k.name k.rtype k.fields = absFind (runBoth (PCache.new d) [] ops).2 k := by
  have h1 := runBoth_fst (PCache.new d) [] ops
  refine ⟨h1, ?_⟩
  have := (CacheSim.new d).runBoth (Inv.new d) ops k
  rw [h1] at this
  exact this

/-- … in particular every record served along a history is served within `ttl` seconds of its
    last insertion (never-stale at history level). -/
theorem C05_history_never_stale (d : Nat) (ops : List CacheOp) (name : Name) (qtype now : Nat) :
    ∀ rr ∈ (cacheGet (run d ops) name qtype now).2,
      ∃ e, absFind (runBoth (PCache.new d) [] ops).2 ⟨name, rr.rtype, rr.fields⟩ = some e ∧ now < e ∧
        rr.ttl * NANOS ≤ e - now := by
  intro rr hrr
  obtain ⟨e, hst, hlt, _, hle, _, _⟩ :=
    C05_never_stale (run d ops) name qtype now ((Inv.new d).runFrom ops) rr hrr
  refine ⟨e, ?_, hlt, hle⟩
  rw [← (C05_history d ops ⟨name, rr.rtype, rr.fields⟩).2]; exact hst

/-! ## Non-vacuity on a concrete state -/

/-- `a.` A 1.2.3.4-like record (empty field list stands for the data) with TTL 5 s inserted at
    t = 0: served at 3.5 s with TTL 1, not served at 4.5 s (less than a second left), and a
    re-insertion at 2 s moves the expiry to 7 s without duplicating. -/
example :
    let rr : RR := ⟨⟨[[97], []], 3⟩, 1, [], 1, 5⟩
    let c := sharedInsert (PCache.new 10) rr 0
    storedExpiry c rr.name 1 [] = some (5 * NANOS) ∧
    ((cacheGet c rr.name 1 (3 * NANOS + NANOS / 2)).2.map (·.ttl)) = [1] ∧
    (cacheGet c rr.name 1 (4 * NANOS + NANOS / 2)).2 = [] ∧
    storedExpiry (sharedInsert c rr (2 * NANOS)) rr.name 1 [] = some (7 * NANOS) ∧
    (sharedInsert c rr (2 * NANOS)).currentSize = 1 := by
  decide

/-- a history with a re-insertion, a lookup and a prune at t = 8 s: the abstract map ends with the
    second record only (the first expired at 7 s and was dropped by the prune) -/
example :
    let a : RR := ⟨⟨[[97], []], 3⟩, 1, [], 1, 5⟩
    let b : RR := ⟨⟨[[98], []], 3⟩, 1, [], 1, 60⟩
    let ops : List CacheOp := [.insert a 0, .insert b NANOS, .insert a (2 * NANOS), .get a.name 1 (3 * NANOS),
      .prune (8 * NANOS)]
    (runBoth (PCache.new 10) [] ops).2 = [(⟨b.name, 1, []⟩, 61 * NANOS)] ∧
    storedExpiry (run 10 ops) b.name 1 [] = some (61 * NANOS) ∧
    storedExpiry (run 10 ops) a.name 1 [] = none := by
  decide

/-! ## The resolver never uses an expired cached record

`resolve_local` reads the cache through `SharedCache::get` only (`Ctx.cacheGet`), at the clock
reading `ctx.now`.  Vocabulary (Proofs/CacheUse.lean):
* `cu_localRrs r` — ALL the records of a local result `r`, whatever its kind (spelled out in
  `C05_local_result_records`);
* `cu_FromZones zs rr` — `rr` stems from the local zones: `∃ k z, Zones.lookup zs.zones k = some z ∧
  (z.soaRR = some rr ∨ cu_NodeStored z.records rr)`, where `cu_NodeStored node rr` says that `rr` is
  `zr.toRR owner` for a zone record `zr` held in the exact-name map or in the wildcard map of a node
  of the tree (`owner` = the query name — exact match or wildcard synthesis — or the node's name);
* `cu_FollowsCachedCname fuel ctx q cnameRR cname` — the level of `resolve_local` at `(ctx, q)`
  follows the cached alias `cnameRR → cname` (`C05_cached_cname_follow_is_the_recursive_call`). -/

/-- the records of each kind of local result: answer, authority (SOA) and referral NS records alike -/
theorem C05_local_result_records :
    (∀ rrs soa, cu_localRrs (.done (.authoritative rrs soa)) = rrs ++ [soa]) ∧
    (∀ soa, cu_localRrs (.done (.authoritativeNameError soa)) = [soa]) ∧
    (∀ rrs soa, cu_localRrs (.done (.nonAuthoritative rrs soa)) = rrs ++ soa.toList) ∧
    (∀ rrs, cu_localRrs (.partialAnswer rrs) = rrs) ∧
    (∀ rrs soa d, cu_localRrs (.delegation rrs soa d) = rrs ++ soa.toList) ∧
    (∀ rrs cq, cu_localRrs (.cname rrs cq) = rrs) :=
  ⟨fun _ _ => rfl, fun _ => rfl, fun _ _ => rfl, fun _ => rfl, fun _ _ _ => rfl, fun _ _ => rfl⟩

/-- B1: every record of every `ok` outcome of `resolve_local` (done / partial answer / alias chain /
    referral) either stems from the local zones, or is a record the cache stores under its own
    `(name, type, data)` with an expiry STRICTLY LATER than the clock, and is reported with a TTL of
    at least one second and of no more than the time it has left.  The cache is the one the
    resolution started with (lookups along the way only refresh `last_read`:
    `C05_resolveLocal_store_unchanged`). -/
theorem C05_resolveLocal_cache_records_live (fuel : Nat) (ctx : Ctx) (q : Question) (hinv : Inv ctx.cache)
    (r : LocalResult) (h : (resolveLocal fuel ctx q).2 = .ok r) :
    ∀ rr ∈ cu_localRrs r,
      cu_FromZones ctx.zones rr ∨
      ∃ e, storedExpiry ctx.cache rr.name rr.rtype rr.fields = some e ∧ ctx.now < e ∧ 1 ≤ rr.ttl ∧
        rr.ttl * NANOS ≤ e - ctx.now := by
  intro rr hrr
  rcases cu_resolveLocal_src fuel ctx q r h rr hrr with hz | hl
  · exact Or.inl hz
  · exact Or.inr (cu_liveIn_stored hinv hl)

/-- B1 without the structural invariant (every cache state, reachable or not): the cache-side
    disjunct then reads "the partition of the record's name holds a tuple with the record's type and
    data whose expiry is strictly later than the clock". -/
theorem C05_resolveLocal_cache_records_live_any_state (fuel : Nat) (ctx : Ctx) (q : Question)
    (r : LocalResult) (h : (resolveLocal fuel ctx q).2 = .ok r) :
    ∀ rr ∈ cu_localRrs r,
      cu_FromZones ctx.zones rr ∨
      ∃ kv ∈ recsAt ctx.cache rr.name, ∃ t ∈ kv.2, t.1.rtype = rr.rtype ∧ t.1.fields = rr.fields ∧
        ctx.now < t.2 ∧ 1 ≤ rr.ttl ∧ rr.ttl * NANOS ≤ t.2 - ctx.now :=
  fun rr hrr => cu_resolveLocal_src fuel ctx q r h rr hrr

/-- Local resolution changes no stored expiry (it only refreshes `last_read`), so "the cache" in
    B1 is unambiguous. -/
theorem C05_resolveLocal_store_unchanged (fuel : Nat) (ctx : Ctx) (q : Question) (k : Name) (rt : Nat)
    (fs : List FieldVal) :
    storedExpiry (resolveLocal fuel ctx q).1.cache k rt fs = storedExpiry ctx.cache k rt fs :=
  cu_resolveLocal_storedExpiry fuel ctx q k rt fs

/-- B1 for the authoritative-only mode of `resolve` (what the server sends when recursion is off). -/
theorem C05_auth_only_records_live (ctx : Ctx) (q : Question) (hinv : Inv ctx.cache) (res : ResolvedRecord)
    (h : (resolveAuthoritativeOnly ctx q).2 = .ok res) :
    ∀ rr ∈ res.rrs ++ res.soaRR.toList,
      cu_FromZones ctx.zones rr ∨
      ∃ e, storedExpiry ctx.cache rr.name rr.rtype rr.fields = some e ∧ ctx.now < e ∧ 1 ≤ rr.ttl ∧
        rr.ttl * NANOS ≤ e - ctx.now := by
  unfold resolveAuthoritativeOnly at h
  simp only at h
  cases hl : (resolveLocal (Gen.RECURSION_LIMIT + 1) ctx q).2 with
  | error e => rw [hl] at h; cases h
  | ok lr =>
    rw [hl] at h
    simp only [Except.map, Except.ok.injEq] at h
    subst h
    intro rr hrr
    have : rr ∈ cu_localRrs lr := by rw [← cu_toResolved_rrs]; exact hrr
    exact C05_resolveLocal_cache_records_live _ ctx q hinv lr hl rr this

/-- B2, adequacy of the vocabulary: `cu_FollowsCachedCname` is exactly the situation in which the
    level makes its recursive call for a cached alias — the outcome is then the wrapped outcome of
    resolving the alias target (same type and class) with the question pushed on the stack. -/
theorem C05_cached_cname_follow_is_the_recursive_call (fuel : Nat) (ctx : Ctx) (q : Question) (cnameRR : RR)
    (cname : Name) (hf : cu_FollowsCachedCname fuel ctx q cnameRR cname) :
    ∃ rz, zonePart (resolveLocal fuel) ctx q = (ctx, .inr rz) ∧
      resolveLocal (fuel + 1) ctx q =
        finishPart q rz (cacheCnameFinish cnameRR cname
          (resolveLocal fuel
            ((((ctx.cacheGet q.name q.qtype).1.cacheGet q.name CNAME_QTYPE).1).push q)
            { name := cname, qtype := q.qtype, qclass := q.qclass })) :=
  cu_follows_unfold hf

/-- B2: if `resolve_local` follows a cached CNAME for `q.name`, that CNAME record is the stored key
    `(q.name, CNAME, data)` and its expiry is strictly later than the clock (and its TTL is ≥ 1 and ≤
    the time left). -/
theorem C05_cached_cname_followed_only_while_live (fuel : Nat) (ctx : Ctx) (q : Question) (cnameRR : RR)
    (cname : Name) (hinv : Inv ctx.cache) (hf : cu_FollowsCachedCname fuel ctx q cnameRR cname) :
    cnameRR.name = q.name ∧ cnameRR.rtype = RT_CNAME ∧
    ∃ e, storedExpiry ctx.cache q.name RT_CNAME cnameRR.fields = some e ∧ ctx.now < e ∧
      1 ≤ cnameRR.ttl ∧ cnameRR.ttl * NANOS ≤ e - ctx.now :=
  cu_followed_cname_stored hinv hf

/-- … and without the invariant: the followed alias is `to_rrs` of a tuple filed under CNAME for the
    question name whose expiry is strictly later than the clock. -/
theorem C05_cached_cname_followed_only_while_live_any_state (fuel : Nat) (ctx : Ctx) (q : Question)
    (cnameRR : RR) (cname : Name) (hf : cu_FollowsCachedCname fuel ctx q cnameRR cname) :
    ∃ t ∈ tuplesAt ctx.cache q.name RT_CNAME, cnameRR = mkRR q.name ctx.now t ∧ ctx.now < t.2 ∧
      1 ≤ cnameRR.ttl ∧ cnameRR.ttl * NANOS ≤ t.2 - ctx.now :=
  cu_followed_cname_live hf

/-- B2, contrapositive: once no CNAME tuple of the question name has a full second left, no cached
    alias is followed (whatever the rest of the cache holds). -/
theorem C05_stale_cached_cname_not_followed (fuel : Nat) (ctx : Ctx) (q : Question)
    (hst : ∀ t ∈ tuplesAt ctx.cache q.name RT_CNAME, t.2 < ctx.now + NANOS) (cnameRR : RR) (cname : Name) :
    ¬ cu_FollowsCachedCname fuel ctx q cnameRR cname :=
  cu_stale_cname_not_followed hst cnameRR cname

/-- non-vacuity (no zones; `k.` CNAME `o.` with TTL 100 s and `o.` A with TTL 50 s cached at t = 0;
    question `k. A`): at 40 s both are live — the alias is followed and the TTLs reported are the
    seconds left; at 70 s only the alias is live — the result is the alias and the question to
    continue with; at 100 s (the alias's expiry reached) nothing is used: dead end. -/
example :
    let nK : Name := ⟨[[107], []], 3⟩
    let nO : Name := ⟨[[111], []], 3⟩
    let rrK : RR := ⟨nK, 5, [.name nO], 1, 100⟩
    let rrO : RR := ⟨nO, 1, [.a 7], 1, 50⟩
    let cache := sharedInsertAll (PCache.new 10) [rrK, rrO] 0
    let q : Question := ⟨nK, 1, 1⟩
    let ctx (now : Nat) : Ctx := { zones := Zones.empty, cache := cache, now := now, stack := [] }
    (resolveLocal 33 (ctx (40 * NANOS)) q).2.toOption =
      some (.done (.nonAuthoritative [{ rrK with ttl := 60 }, { rrO with ttl := 10 }] none)) ∧
    (resolveLocal 33 (ctx (70 * NANOS)) q).2.toOption = some (.cname [{ rrK with ttl := 30 }] ⟨nO, 1, 1⟩) ∧
    (match (resolveLocal 33 (ctx (100 * NANOS)) q).2 with | .error e => some e | .ok _ => none)
      = some (.deadEnd q) := by
  decide +kernel

/-- non-vacuity of the hypothesis of B2: in the state above at 40 s the level does follow the cached
    alias (reported with the 60 s it has left), whose stored expiry is 100 s. -/
example :
    let nK : Name := ⟨[[107], []], 3⟩
    let nO : Name := ⟨[[111], []], 3⟩
    let rrK : RR := ⟨nK, 5, [.name nO], 1, 100⟩
    let rrO : RR := ⟨nO, 1, [.a 7], 1, 50⟩
    let cache := sharedInsertAll (PCache.new 10) [rrK, rrO] 0
    let q : Question := ⟨nK, 1, 1⟩
    let ctx : Ctx := { zones := Zones.empty, cache := cache, now := 40 * NANOS, stack := [] }
    cu_FollowsCachedCname 32 ctx q { rrK with ttl := 60 } nO ∧
    storedExpiry ctx.cache nK 5 [.name nO] = some (100 * NANOS) ∧ Inv ctx.cache := by
  intro nK nO rrK rrO cache q ctx
  exact ⟨⟨by decide, by decide, ⟨[], rfl⟩, by decide +kernel, by decide, ⟨[], by decide +kernel⟩, by decide +kernel⟩,
    by decide +kernel, (Inv.new 10).sharedInsertAll _ _⟩

end Resolved
