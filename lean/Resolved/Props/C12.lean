/-
  C12 — Configuration files compose by union, with the last SOA winning.
  SOA selection and apex-SOA uniqueness of `Zone::merge`; `merge_zrs_helper` is a union per record
  type; `ZoneRecords::merge` is a node-wise union at every owner name (ordinary and wildcard sets,
  children); MAIN: the merged zone represents the united entry list, hence (under D1) resolves as
  the flat specification prescribes for the union (`C12_merge_resolve_refines_union_spec`);
  `Zones::insert_merge` never panics.
  Helper lemmas: Proofs/Zone*.lean.
-/
import Resolved.Spec.ZoneSpec
import Resolved.Proofs.ZoneUnion

namespace Resolved

/-- The merged zone's SOA is the second zone's if it has one, else the first's ("last SOA wins"). -/
theorem C12_merge_soa (z o m : Zone) (h : z.merge o = some m) :
    m.soa = (if o.soa.isSome then o.soa else z.soa) ∧ m.apex = z.apex := by
  unfold Zone.merge at h
  split at h
  · cases h
  · split at h <;> cases h <;> simp_all

/-- Zones with different apexes never merge. -/
theorem C12_merge_apex (z o : Zone) : (z.merge o).isSome ↔ z.apex = o.apex := by
  unfold Zone.merge; split
  · simp_all
  · split <;> simp_all

/-- When the merged-in zone brings an SOA, the receiver's own SOA record set is dropped from the
    apex before the record sets are united — so exactly one SOA record set source remains. -/
theorem C12_dropApexSoa_no_soa (n : ZNode) : (Zone.dropApexSoa n).this.get RT_SOA = none := by
  cases n with
  | mk nsd this wild ch =>
    simp only [Zone.dropApexSoa, ZNode.this]
    induction this with
    | nil => simp
    | cons kv rest ih =>
      simp only [List.filter]
      split
      · rename_i hk
        simp only [RecMap.get]
        split
        · rename_i heq; simp [heq] at hk
        · exact ih
      · exact ih

/-! ## record-set level: `merge_zrs_helper` is a union -/

/-- The inner loop of `merge_zrs_helper` computes the union of the two record lists: same members,
    no duplicate introduced, and the receiver's records stay in front in their original order. -/
theorem C12_mergeEntries_union (mine other : List ZoneRecord) :
    (∀ x, x ∈ mergeEntries mine other ↔ x ∈ mine ∨ x ∈ other) ∧
    (mine.Nodup → (mergeEntries mine other).Nodup) ∧
    mine <+: mergeEntries mine other :=
  ⟨mem_mergeEntries mine other, mergeEntries_nodup mine other, mergeEntries_prefix mine other⟩

/-- … in closed form: the receiver's list followed by the new records of the other, de-duplicated;
    merging into a duplicate-free list is de-duplication of the concatenation. -/
theorem C12_mergeEntries_closed_form (mine other a : List ZoneRecord) :
    mergeEntries mine other = mine ++ (other.removeAll mine).eraseDups ∧
    mergeEntries a.eraseDups other = (a ++ other).eraseDups :=
  ⟨mergeEntries_eq mine other, mergeEntries_eraseDups a other⟩

/-- `merge_zrs_helper` type by type (the merged-in map has distinct keys, as a `HashMap` does). -/
theorem C12_mergeZrs_get (a b : RecMap) (k : Nat) (hb : (b.map (·.1)).Nodup) :
    (mergeZrs a b).get k =
      match a.get k, b.get k with
      | none, none => none
      | some x, none => some x
      | none, some y => some y
      | some x, some y => some (mergeEntries x y) :=
  RecMap.get_mergeZrs a b k hb

/-! ## tree level: `ZoneRecords::merge` is a node-wise union -/

/-- Wildcard record sets are united too — including the case that the receiver has none yet. -/
theorem C12_merge_wildcards (a b : ZNode) :
    (ZNode.merge a b).wildcards =
      match b.wildcards with
      | some ow =>
        (match a.wildcards with
         | some mw => some (mergeZrs mw ow)
         | none => some ow)
      | none => a.wildcards := by
  rw [ZNode.merge_wildcards]; rfl

/-- The node's own record sets are united, and the receiver keeps its name. -/
theorem C12_merge_this (a b : ZNode) :
    (ZNode.merge a b).this = mergeZrs a.this b.this ∧ (ZNode.merge a b).nsdname = a.nsdname :=
  ⟨ZNode.merge_this a b, ZNode.merge_nsdname a b⟩

/-- Children: common labels are merged recursively, the others are taken over unchanged. -/
theorem C12_merge_children_get (a b : ZNode) (l : Label)
    (hb : (b.children.map (·.1)).Nodup) :
    ZNode.childGet (ZNode.merge a b).children l =
      match ZNode.childGet a.children l, ZNode.childGet b.children l with
      | some x, some y => some (ZNode.merge x y)
      | some x, none => some x
      | none, some y => some y
      | none, none => none := by
  rw [ZNode.merge_children]; exact ZNode.childGet_mergeChildren _ _ l hb

/-- `KeysNodup`: every node of the tree has distinct child labels.  It holds for the empty tree and
    is preserved by every insertion — so it holds of every configured zone. -/
theorem C12_keysNodup_new_insert :
    (∀ nsd, ZNode.KeysNodup (ZNode.new nsd)) ∧
    (∀ (node node' : ZNode) (rel : List Label) (zr : ZoneRecord) (wild : Bool),
      ZNode.KeysNodup node → node.insert rel zr wild = some node' → ZNode.KeysNodup node') := by
  refine ⟨ZNode.keysNodup_new, ?_⟩
  intro node node' rel zr wild hk hi
  rw [ZNode.insert_eq_rev] at hi
  exact ZNode.keysNodup_insertRev _ zr wild node node' hk hi

/-- MAIN (tree form): at EVERY owner name, the node of the merged tree is the merge of the two
    nodes owning that name (or the only one that exists) — hence its record sets, wildcard sets and
    children are the unions.  `nodeAt` follows the labels of `rel` from the last one. -/
theorem C12_merge_resolve_union (a b : ZNode) (rel : List Label) (hb : ZNode.KeysNodup b) :
    (ZNode.merge a b).nodeAt rel =
      match a.nodeAt rel, b.nodeAt rel with
      | some x, some y => some (ZNode.merge x y)
      | some x, none => some x
      | none, some y => some y
      | none, none => none :=
  ZNode.descend_merge rel.reverse a b hb

/-- … so the record set of type `k` at an owner name present in both trees is the union of the two
    record sets (receiver's records first), and likewise for the wildcard sets. -/
theorem C12_merge_records_at (a b x y : ZNode) (rel : List Label) (k : Nat) (hb : ZNode.KeysNodup b)
    (hx : a.nodeAt rel = some x) (hy : b.nodeAt rel = some y)
    (hyk : (y.this.map (·.1)).Nodup) :
    ∃ m, (ZNode.merge a b).nodeAt rel = some m ∧
      m.wildcards = ZNode.mergeWild x.wildcards y.wildcards ∧
      m.this.get k =
        match x.this.get k, y.this.get k with
        | none, none => none
        | some u, none => some u
        | none, some v => some v
        | some u, some v => some (mergeEntries u v) := by
  refine ⟨ZNode.merge x y, ?_, ZNode.merge_wildcards x y, ?_⟩
  · rw [C12_merge_resolve_union a b rel hb, hx, hy]
  · rw [ZNode.merge_this]; exact RecMap.get_mergeZrs _ _ k hyk

/-- After merging in a zone that has an SOA (built by `Zone::new` and insertions of non-SOA
    records), the apex holds exactly ONE SOA record: the merged-in zone's. -/
theorem C12_merge_one_soa (z o m : Zone) (apex : Name) (s : SOA) (ops : List ZoneOp)
    (ho : Zone.build apex (some s) ops = some o) (hops : ∀ op ∈ ops, op.rtype ≠ RT_SOA)
    (h : z.merge o = some m) :
    m.soa = some s ∧ m.records.this.get RT_SOA = some [⟨RT_SOA, s.toFields, s.minimum⟩] := by
  have hsoa : o.soa = some s :=
    (Zone.applyOps_apex_soa ops _ o ho).2.trans (Zone.new_apex_soa apex (some s)).2
  have h0 : (Zone.new apex (some s)).records.this = [(RT_SOA, [Zone.soaRecord s])] :=
    Zone.new_apex_this apex (some s)
  obtain ⟨hkeys, hget⟩ := Zone.applyOps_apex_get RT_SOA ops hops _ o ho
    (by rw [h0]; simp [RecMap.keys])
  rw [h0] at hget
  unfold Zone.merge at h
  split at h
  · cases h
  · rw [hsoa] at h
    simp only [Option.isSome_some, if_true, Option.some.injEq] at h
    subst h
    refine ⟨rfl, ?_⟩
    simp only [ZNode.merge_this]
    rw [RecMap.get_mergeZrs _ _ _ hkeys, C12_dropApexSoa_no_soa, hget]
    simp [RecMap.get, Zone.soaRecord]

/-! ## specification level: the merged zone IS the union of the configurations

  `Zone.Repr z apex soa es` (Proofs/ZoneMain.lean) is the representation invariant of C02: zone `z`
  has apex `apex`, SOA `soa`, and its tree stores exactly the flat entry list `es` (a node exists
  exactly where a name exists; record and wildcard sets per owner and type, in configuration order,
  without duplicates).  Every configured zone satisfies it (`Zone.repr_build`), and `Zone::merge`
  preserves it with the entry lists united — so it composes over any number of files. -/

/-- MAIN (entry form): `z.merge o` represents the receiver's entries (minus the receiver's apex SOA
    records when `o` brings an SOA) followed by `o`'s entries; the SOA is `o`'s if it has one. -/
theorem C12_merge_represents_union (z o m : Zone) (apex : Name) (s1 s2 : Option SOA)
    (es1 es2 : List ZSpec.Entry)
    (hz : Zone.Repr z apex s1 es1) (ho : Zone.Repr o apex s2 es2) (hk : ZNode.KeysNodup o.records)
    (hm : z.merge o = some m) :
    Zone.Repr m apex (if s2.isSome then s2 else s1) (unionEntries es1 es2 s2.isSome) :=
  Zone.repr_merge z o m apex s1 s2 es1 es2 hz ho hk hm

/-- the record set at any owner in the united entry list is the receiver's followed by the new
    records of the other (`merge_zrs_helper` on the flat lists). -/
theorem C12_union_recordsAt (es1 es2 : List ZSpec.Entry) (rel : List Label) (wild : Bool) :
    ZSpec.recordsAt (es1 ++ es2) rel wild =
      mergeEntries (ZSpec.recordsAt es1 rel wild) (ZSpec.recordsAt es2 rel wild) :=
  recordsAt_append es1 es2 rel wild

/-- MAIN (lookup form): two configured zones for the same apex, merged: under D1 for the united
    entry list, every valid query name under the apex resolves in the merged tree exactly as the
    flat specification prescribes for the union (ordinary AND wildcard entries). -/
theorem C12_merge_resolve_refines_union_spec (apex : Name) (s1 s2 : Option SOA)
    (ops1 ops2 : List ZoneOp) (z o m : Zone) (qname : Name) (qtype : Nat) (rel : List Label)
    (hapex : NameOK apex) (hq : NameOK qname)
    (hz : Zone.build apex s1 ops1 = some z) (ho : Zone.build apex s2 ops2 = some o)
    (hm : z.merge o = some m)
    (hrel : m.relativeDomain qname = some rel)
    (hd1 : ZSpec.d1 (unionEntries (ZSpec.entriesOf apex s1 ops1) (ZSpec.entriesOf apex s2 ops2)
      s2.isSome) = true) :
    m.soa = (if s2.isSome then s2 else s1) ∧
    ZSpec.sameResult (m.records.resolve qname qtype rel true)
      (ZSpec.lookup (unionEntries (ZSpec.entriesOf apex s1 ops1) (ZSpec.entriesOf apex s2 ops2)
        s2.isSome) apex qname rel qtype) = true := by
  have hr := Zone.repr_merge z o m apex s1 s2 _ _ (Zone.repr_build apex s1 ops1 z hapex hz)
    (Zone.repr_build apex s2 ops2 o hapex ho) (Zone.keysNodup_build apex s2 ops2 o ho) hm
  refine ⟨hr.soa_eq, ?_⟩
  have hl := Zone.relativeDomain_some hrel
  rw [hr.apex_eq] at hl
  exact resolve_refines_lookup hr.tree hr.root_name hq rel hl hd1

/-- merging configured zones with the same apex never fails, and the result can be merged into
    again (it keeps the invariant), so any number of files compose. -/
theorem C12_merge_configured_isSome (apex : Name) (s1 s2 : Option SOA) (es1 es2 : List ZSpec.Entry)
    (z o : Zone) (hz : Zone.Repr z apex s1 es1) (ho : Zone.Repr o apex s2 es2) :
    (z.merge o).isSome := by
  rw [C12_merge_apex, hz.apex_eq, ho.apex_eq]

/-- `Zones::insert_merge` on a zone set keyed by apex (as `Zones::insert`/`insert_merge` keep it,
    starting from the empty set): the `unwrap()` on `merge` never panics, the keying is kept, the
    zone stored under the apex afterwards is the merge of the previous one with the new one (or the
    new one itself), and no other apex is touched. -/
theorem C12_insertMerge_never_panics (zs : Zones) (other : Zone) (h : Zones.KeyedByApex zs) :
    ∃ zs', zs.insertMerge other = some zs' ∧ Zones.KeyedByApex zs' ∧
      (∃ m, Zones.lookup zs'.zones other.apex = some m ∧
        (match Zones.lookup zs.zones other.apex with
         | some mine => mine.merge other = some m
         | none => m = other)) ∧
      ∀ k, k ≠ other.apex → Zones.lookup zs'.zones k = Zones.lookup zs.zones k :=
  Zones.insertMerge_spec zs other h

theorem C12_empty_zones_keyed : Zones.KeyedByApex Zones.empty := Zones.empty_keyed

/-! ## non-vacuity -/

namespace C12Example

def apex : Name := ⟨[[97], []], 3⟩               -- "a."
def w : Name := ⟨[[119], [97], []], 5⟩           -- "w.a."
def ns : Name := ⟨[[110], []], 3⟩                -- "n."
def soa1 : SOA := ⟨ns, ns, 1, 2, 3, 4, 300⟩
def soa2 : SOA := ⟨ns, ns, 7, 2, 3, 4, 100⟩
def r1 : ZoneRecord := ⟨1, [.a 1], 300⟩
def r2 : ZoneRecord := ⟨1, [.a 2], 300⟩
def r3 : ZoneRecord := ⟨1, [.a 3], 300⟩
def t1 : ZoneRecord := ⟨16, [.opaque [1]], 300⟩

example : mergeEntries [r1, r2] [r2, r3, r3, r1] = [r1, r2, r3] := by decide
example : mergeZrs [(1, [r1, r2])] [(16, [t1]), (1, [r2, r3])] = [(1, [r1, r2, r3]), (16, [t1])] := by
  decide

/-- receiver without a wildcard set, merged-in tree with one (and a new child). -/
def ta : ZNode := .mk apex [(1, [r1])] none [([119], .mk w [(1, [r1])] none [])]
def tb : ZNode := .mk apex [(1, [r2])] (some [(1, [r3])]) [([119], .mk w [(1, [r2])] none [])]

example : (ZNode.merge ta tb).wildcards = some [(1, [r3])] := by rw [C12_merge_wildcards]; rfl
example : (ZNode.merge ta tb).this = [(1, [r1, r2])] := by rw [(C12_merge_this ta tb).1]; decide
example : ((ZNode.childGet (ZNode.merge ta tb).children [119]).map (·.this)) = some [(1, [r1, r2])] := by
  rw [C12_merge_children_get ta tb [119] (by decide)]
  simp only [ta, tb, ZNode.children_mk, ZNode.childGet, if_true, Option.map_some, ZNode.merge_this,
    ZNode.this_mk]
  decide

def ops1 : List ZoneOp := [{ name := w, rtype := 1, fields := [.a 1], ttl := 60, wild := false }]
def ops2 : List ZoneOp :=
  [{ name := w, rtype := 1, fields := [.a 2], ttl := 60, wild := false },
   { name := apex, rtype := 1, fields := [.a 3], ttl := 60, wild := true }]

/-- both files build, merge, and the merged apex holds the second file's SOA record only. -/
example : (Zone.build apex (some soa1) ops1).isSome ∧ (Zone.build apex (some soa2) ops2).isSome :=
  ⟨Zone.applyOps_isSome apex _ ops1 (by decide) _ _ (Zone.repr_new apex _ (by decide)),
   Zone.applyOps_isSome apex _ ops2 (by decide) _ _ (Zone.repr_new apex _ (by decide))⟩

example (z o : Zone) (hz : Zone.build apex (some soa1) ops1 = some z)
    (ho : Zone.build apex (some soa2) ops2 = some o) :
    ∃ m, z.merge o = some m ∧ m.soa = some soa2 ∧
      m.records.this.get RT_SOA = some [⟨RT_SOA, soa2.toFields, 100⟩] := by
  have h := C12_merge_configured_isSome apex _ _ _ _ z o
    (Zone.repr_build apex _ ops1 z (by decide) hz) (Zone.repr_build apex _ ops2 o (by decide) ho)
  obtain ⟨m, hm⟩ := Option.isSome_iff_exists.mp h
  exact ⟨m, hm, C12_merge_one_soa z o m apex soa2 ops2 ho (by decide) hm⟩

/-- D1 holds of the union, whose `w.a.` A set is the first file's record then the second's, and the
    receiver's SOA entry is gone. -/
example :
    let es := unionEntries (ZSpec.entriesOf apex (some soa1) ops1) (ZSpec.entriesOf apex (some soa2) ops2) true
    ZSpec.d1 es = true ∧
    ZSpec.recordsAt es [[119]] false = [⟨1, [.a 1], 300⟩, ⟨1, [.a 2], 100⟩] ∧
    ZSpec.recordsAt es [] false = [Zone.soaRecord soa2] ∧
    ZSpec.recordsAt es [] true = [⟨1, [.a 3], 100⟩] := by
  rw [ZSpec.entriesOf_eq, ZSpec.entriesOf_eq]; decide

end C12Example

end Resolved
