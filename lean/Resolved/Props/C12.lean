/-
  C12 — Configuration files compose by union, with the last SOA winning.
  FIRST-CLAIM version: SOA selection and apex-SOA uniqueness of `Zone::merge`; the set-union
  theorem `abs (merge z₁ z₂) = abs z₁ ∪ abs z₂` (ordinary and wildcard entries) is the next
  theorem and is, until it closes, checked by the Impl-vs-Spec oracle on the streams only.
-/
import Resolved.Spec.ZoneSpec

namespace Resolved

/-- The merged zone's SOA is the second zone's if it has one, else the first's ("last SOA wins"). -/
theorem C12_merge_soa (z o m : Zone) (h : z.merge o = some m) :
    m.soa = (if o.soa.isSome then o.soa else z.soa) ∧ m.apex = z.apex := by
  unfold Zone.merge at h
  split at h
  · cases h
  · split at h <;> cases h <;> simp_all

/-- Zones with different apexes never merge. -/
theorem C12_merge_apex (z o : Zone) : (z.merge o).isSome ↔ z.apex = o.apex := by
  unfold Zone.merge; split
  · simp_all
  · split <;> simp_all

/-- When the merged-in zone brings an SOA, the receiver's own SOA record set is dropped from the
    apex before the record sets are united — so exactly one SOA record set source remains. -/
theorem C12_dropApexSoa_no_soa (n : ZNode) : (Zone.dropApexSoa n).this.get RT_SOA = none := by
  cases n with
  | mk nsd this wild ch =>
    simp only [Zone.dropApexSoa, ZNode.this]
    induction this with
    | nil => simp [RecMap.get]
    | cons kv rest ih =>
      simp only [List.filter]
      split
      · rename_i hk
        simp only [RecMap.get]
        split
        · rename_i heq; simp [heq] at hk
        · exact ih
      · exact ih

end Resolved
