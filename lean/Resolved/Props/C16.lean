/-
  C16 — Domain names are always well-formed and compared case-insensitively.
  Property theorems only; helper lemmas live in Proofs/NameLemmas.lean.
-/
import Resolved.Proofs.NameLemmas
import Resolved.Proofs.WireDecodeLemmas
import Resolved.Proofs.MiscName

namespace Resolved

open Gen

/-- The property's notion of a well-formed name: absolute (last label empty), no other empty label,
    labels ≤ 63 octets, ≤ 255 octets in all, recorded length = encoded length, no upper-case ASCII. -/
def WFName (n : Name) : Prop :=
  LabelsShape n.labels ∧ (∀ l ∈ n.labels, LabelOK l) ∧
  n.len = n.labels.length + sumLen n.labels ∧ n.len ≤ DOMAINNAME_MAX_LEN

/-- The limits are the RFC 1035 ones (re-checked against the generated constants on every run). -/
theorem C16_limits : LABEL_MAX_LEN = 63 ∧ DOMAINNAME_MAX_LEN = 255 := by decide

/-- `Label::try_from` rejects exactly the octet strings longer than 63 … -/
theorem C16_label_rejects (bs : List UInt8) : Label.tryFrom bs = none ↔ bs.length > 63 :=
  Label.tryFrom_none_iff bs

/-- … and what it accepts is at most 63 octets with every ASCII letter lower-cased. -/
theorem C16_label_ok (bs : List UInt8) (l : Label) (h : Label.tryFrom bs = some l) :
    LabelOK l ∧ l = bs.map lowerByte := by
  have := Label.tryFrom_some h; exact ⟨this.2.2, this.1⟩

/-- Labels differing only in ASCII letter case become the same label. -/
theorem C16_label_case_insensitive (bs bs' : List UInt8)
    (h : bs.map lowerByte = bs'.map lowerByte) : Label.tryFrom bs = Label.tryFrom bs' := by
  have hl : bs.length = bs'.length := by simpa using congrArg List.length h
  unfold Label.tryFrom; rw [hl, h]

theorem C16_lower_idempotent (b : UInt8) : lowerByte (lowerByte b) = lowerByte b := lowerByte_idem b

/-- `from_labels` accepts exactly the label sequences of the right shape within 255 octets,
    for *every* label sequence (not only at sampled boundaries) … -/
theorem C16_fromLabels_rejects (ls : List Label) :
    Name.fromLabels ls = none ↔ ¬ (LabelsShape ls ∧ ls.length + sumLen ls ≤ 255) := by
  rw [fromLabels_eq]; split <;> simp_all [DOMAINNAME_MAX_LEN]

/-- … and every name it builds is well-formed with `len` = its encoded length. -/
theorem C16_fromLabels_wf (ls : List Label) (n : Name) (hok : ∀ l ∈ ls, LabelOK l)
    (h : Name.fromLabels ls = some n) : WFName n ∧ n.labels = ls := by
  rw [fromLabels_eq] at h
  split at h
  · rename_i hc; cases h; exact ⟨⟨hc.1, hok, rfl, hc.2⟩, rfl⟩
  · cases h

theorem C16_root_wf : WFName Name.root := by
  refine ⟨⟨by simp [Name.root], by simp [Name.root], by simp [Name.root]⟩, ?_, by simp [Name.root], by decide⟩
  intro l hl; simp [Name.root] at hl; subst hl; exact ⟨by decide, by simp⟩

theorem dottedChunksToLabels_ok (cs : List (List UInt8)) (ls : List Label)
    (h : Name.dottedChunksToLabels cs = some ls) : ∀ l ∈ ls, LabelOK l := by
  fun_induction Name.dottedChunksToLabels cs generalizing ls with
  | case1 => simp at h; subst h; simp
  | case2 c =>
    simp only [Option.map_eq_some_iff] at h
    obtain ⟨l, hl, rfl⟩ := h
    intro x hx; simp at hx; subst hx; exact (Label.tryFrom_some hl).2.2
  | case3 c cs hne hempty => simp at h
  | case4 c cs hne hnempty hnone => simp at h
  | case5 c cs hne hnempty l hl ih =>
    simp only [Option.map_eq_some_iff] at h
    obtain ⟨ls', hls', rfl⟩ := h
    intro x hx
    simp at hx
    rcases hx with rfl | hx
    · exact (Label.tryFrom_some hl).2.2
    · exact ih ls' hls' x hx

/-- Names built from dotted text are well-formed. -/
theorem C16_fromDotted_wf (s : List UInt8) (n : Name) (h : Name.fromDotted s = some n) : WFName n := by
  unfold Name.fromDotted at h
  split at h
  · cases h; exact C16_root_wf
  · split at h
    · cases h
    · rename_i ls hls
      exact (C16_fromLabels_wf ls n (dottedChunksToLabels_ok _ ls hls) h).1

/-- Names built by joining a relative name to an origin are well-formed. -/
theorem C16_makeSubdomainOf_wf (a o n : Name) (ha : WFName a) (ho : WFName o)
    (h : a.makeSubdomainOf o = some n) : WFName n := by
  unfold Name.makeSubdomainOf at h
  refine (C16_fromLabels_wf _ n ?_ h).1
  intro l hl
  simp at hl
  rcases hl with hl | hl
  · exact ha.2.1 l (List.dropLast_subset _ hl)
  · exact ho.2.1 l hl

/-- Names built from text relative to an origin are well-formed. -/
theorem C16_fromRelativeDotted_wf (o : Name) (s : List UInt8) (n : Name) (ho : WFName o)
    (h : Name.fromRelativeDotted o s = some n) : WFName n := by
  unfold Name.fromRelativeDotted at h
  split at h
  · cases h; exact ho
  · split at h
    · exact C16_fromDotted_wf _ _ h
    · dsimp only at h
      split at h <;> exact C16_fromDotted_wf _ _ h

/-- The subdomain relation is label-wise suffix. -/
theorem C16_subdomain_iff_suffix (a b : Name) : a.isSubdomainOf b = true ↔ b.labels <:+ a.labels := by
  unfold Name.isSubdomainOf; exact List.isSuffixOf_iff_suffix

/-- Names that come off the wire (with or without compression pointers) are well-formed. -/
theorem C16_wire_wf (id : Nat) (buf : List UInt8) (pos : Nat) (n : Name) (e : Nat)
    (h : decodeName id buf pos = .ok (n, e)) : WFName n := by
  have hw := (decodeName_sound h)
  have := hw.1.wf
  exact ⟨this.1, this.2.1, this.2.2, hw.2⟩

/-- non-vacuity: a concrete mixed-case 3-label name goes through `try_from`/`from_labels`. -/
example : Name.fromDotted [87, 119, 87, 46, 69, 120, 46] =
    some ⟨[[119, 119, 119], [101, 120], []], 8⟩ := by decide

end Resolved

/-! ## exact acceptance of the text form

`dottedOk` (Spec/NameTextSpec.lean) is an independent description of the texts
`DomainName::from_dotted_string` accepts: `.` and the empty text (the root); otherwise the text must
end with a dot and, that dot removed, split at the dots into chunks that are all non-empty, at most 63
octets each, with `Σ (len + 1) + 1 ≤ 255`. -/

namespace Resolved

open Gen

/-- **`from_dotted_string` accepts exactly the texts of the specification.** -/
theorem C16_fromDotted_accepts_iff (s : List UInt8) : (Name.fromDotted s).isSome = dottedOk s := by
  rcases mx_text_cases s with rfl | rfl | ⟨t, ht, rfl⟩ | ⟨t, b, hb, rfl⟩
  · rw [mx_fromDotted_nil]; rfl
  · rw [mx_fromDotted_dot]; rfl
  · rw [mx_fromDotted_snoc_dot t ht, mx_dottedOk_snoc_dot t ht]
    by_cases h : mx_ChunksOk (Name.splitDot t)
    · rw [if_pos h]; simp [h]
    · rw [if_neg h]; simp [h]
  · rw [mx_fromDotted_snoc_other t b hb, mx_dottedOk_snoc_other t b hb]; rfl

/-- **the name an accepted text denotes**: its labels are the lower-cased chunks followed by the root
    label (`dottedSpecLabels`; just the root label for `.` and the empty text), its length is the wire
    length of those labels. -/
theorem C16_fromDotted_labels (s : List UInt8) (n : Name) (h : Name.fromDotted s = some n) :
    n.labels = dottedSpecLabels s ∧ n.len = dottedSpecLen s := by
  rcases mx_text_cases s with rfl | rfl | ⟨t, ht, rfl⟩ | ⟨t, b, hb, rfl⟩
  · rw [mx_fromDotted_nil] at h; cases h; exact ⟨rfl, rfl⟩
  · rw [mx_fromDotted_dot] at h; cases h; exact ⟨rfl, rfl⟩
  · rw [mx_fromDotted_snoc_dot t ht] at h
    split at h
    · cases h
      have hne : (t ++ [46] == [46]) = false := by
        cases t with
        | nil => exact absurd rfl ht
        | cons a as => simp
      have hl : dottedSpecLabels (t ++ [46])
          = (Name.splitDot t).map (fun (c : List UInt8) => c.map lowerByte) ++ [[]] := by
        have hemp : (t ++ [46]).isEmpty = false := by simp
        unfold dottedSpecLabels
        simp only [hne, hemp, Bool.or_false, Bool.false_eq_true, if_false, List.dropLast_concat,
          mx_splitDots_eq_splitDot, mx_asciiLower_fun]
      refine ⟨hl.symm, ?_⟩
      unfold dottedSpecLen
      rw [hl, mx_sum_succ]
      simp [mx_sumLen_map_lower]
    · cases h
  · rw [mx_fromDotted_snoc_other t b hb] at h; cases h

/-- the same with the model's `lowerByte`, for a text other than `.` and the empty one. -/
theorem C16_fromDotted_labels_chunks (s : List UInt8) (n : Name) (h : Name.fromDotted s = some n)
    (h1 : s ≠ [46]) (h2 : s ≠ []) :
    n.labels = (splitDots s.dropLast).map (fun c => c.map lowerByte) ++ [[]] := by
  rw [(C16_fromDotted_labels s n h).1]
  unfold dottedSpecLabels
  have e1 : (s == [46]) = false := by simpa using h1
  have e2 : s.isEmpty = false := by simpa using h2
  simp only [e1, e2, Bool.or_false, Bool.false_eq_true, if_false, mx_asciiLower_fun]

/-- `.` and the empty text are the root. -/
theorem C16_fromDotted_root : Name.fromDotted [46] = some Name.root ∧ Name.fromDotted [] = some Name.root :=
  ⟨mx_fromDotted_dot, mx_fromDotted_nil⟩

/-- a non-empty text without a final dot is rejected. -/
theorem C16_fromDotted_rejects_no_final_dot (s : List UInt8) (hne : s ≠ [])
    (h : s.getLast? ≠ some 46) : Name.fromDotted s = none := by
  rcases mx_text_cases s with rfl | rfl | ⟨t, _, rfl⟩ | ⟨t, b, hb, rfl⟩
  · exact absurd rfl hne
  · exact absurd rfl h
  · exact absurd (by simp) h
  · exact mx_fromDotted_snoc_other t b hb

/-- two consecutive dots anywhere (an empty label inside the name, or two trailing dots): rejected. -/
theorem C16_fromDotted_rejects_double_dot (a b : List UInt8) :
    Name.fromDotted (a ++ 46 :: 46 :: b) = none := by
  apply mx_fromDotted_empty_chunk
  · intro h
    have := congrArg List.length h
    simp at this
    omega
  · rw [mx_splitDot_append_dot, Name.splitDot, if_pos rfl]
    cases hs : Name.splitDot b with
    | nil => exact absurd hs (mx_splitDot_ne_nil b)
    | cons c cs =>
      cases hs2 : Name.splitDot a with
      | nil => exact absurd hs2 (mx_splitDot_ne_nil a)
      | cons d ds =>
        rw [show (d :: ds) ++ [] :: c :: cs = ((d :: ds) ++ [[]]) ++ (c :: cs) by simp,
          List.dropLast_append_of_ne_nil (by simp)]
        simp

/-- a leading dot (other than the text `.` itself): rejected. -/
theorem C16_fromDotted_rejects_leading_dot (t : List UInt8) (ht : t ≠ []) :
    Name.fromDotted (46 :: t) = none := by
  apply mx_fromDotted_empty_chunk
  · intro h; simp at h; exact ht h
  · rw [Name.splitDot, if_pos rfl]
    cases hs : Name.splitDot t with
    | nil => exact absurd hs (mx_splitDot_ne_nil t)
    | cons c cs => simp

/-! ### non-vacuity (`a` = 97, `b` = 98, `.` = 46) -/

/-- `a..` (two trailing dots), `.a.`, `a..b.` and `a.b` (no final dot) are rejected — by the model and
    by the specification. -/
example : Name.fromDotted [97, 46, 46] = none ∧ dottedOk [97, 46, 46] = false := by decide
example : Name.fromDotted [46, 97, 46] = none ∧ dottedOk [46, 97, 46] = false := by decide
example : Name.fromDotted [97, 46, 46, 98, 46] = none ∧ dottedOk [97, 46, 46, 98, 46] = false := by decide
example : Name.fromDotted [97, 46, 98] = none ∧ dottedOk [97, 46, 98] = false := by decide
example : Name.fromDotted [46, 46] = none ∧ dottedOk [46, 46] = false := by decide

/-- `.` and the empty text give the root; `A.b.` gives `a.b.`. -/
example : Name.fromDotted [46] = some Name.root ∧ Name.fromDotted [] = some Name.root ∧
    dottedOk [46] = true ∧ dottedOk [] = true := by decide
example : Name.fromDotted [65, 46, 98, 46] = some ⟨[[97], [98], []], 5⟩ ∧ dottedOk [65, 46, 98, 46] = true ∧
    dottedSpecLabels [65, 46, 98, 46] = [[97], [98], []] ∧ dottedSpecLen [65, 46, 98, 46] = 5 := by decide

/-- the limits are met exactly: a 63-octet label is accepted, a 64-octet one is not. -/
example : dottedOk (List.replicate 63 97 ++ [46]) = true ∧ dottedOk (List.replicate 64 97 ++ [46]) = false := by
  decide

end Resolved
