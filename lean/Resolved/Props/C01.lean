/-
  C01 — Local zone and hosts data always win over cache and upstream.
  FIRST-CLAIM version.  Being proved: authoritative answers / name errors of the owning zone are
  returned independently of the cache and with an empty exchange log in all three modes;
  non-authoritative local records are returned exactly.
-/
import Resolved.Model.Resolver

namespace Resolved

/-- A name error is reported only when local resolution itself ended in an authoritative name
    error: no other local outcome (partial, delegation, CNAME) converts into one. -/
theorem C01_nameerror_only_from_authoritative_local (r : LocalResult) (soa : RR)
    (h : r.toResolved = .authoritativeNameError soa) : r = .done (.authoritativeNameError soa) := by
  cases r with
  | done x => simp [LocalResult.toResolved] at h; rw [h]
  | partialAnswer rrs => simp [LocalResult.toResolved] at h
  | delegation rrs s d => cases s <;> simp [LocalResult.toResolved] at h
  | cname rrs q => simp [LocalResult.toResolved] at h

/-- Records of the first argument of `prioritising_merge` are all kept, in order, and a record of
    the second is added only if the first has none of that name and type: local records are
    never displaced or supplemented by cached/upstream records of the same name and type. -/
theorem C01_prioritising_merge (priority new : List RR) :
    priority <+: prioritisingMerge priority new ∧
    ∀ rr ∈ prioritisingMerge priority new, rr ∈ priority ∨
      (rr ∈ new ∧ ∀ p ∈ priority, ¬ (p.name = rr.name ∧ p.rtype = rr.rtype)) := by
  unfold prioritisingMerge
  refine ⟨List.prefix_append _ _, ?_⟩
  intro rr h
  simp only [List.mem_append, List.mem_filter] at h
  rcases h with h | ⟨h1, h2⟩
  · exact Or.inl h
  · right
    refine ⟨h1, ?_⟩
    intro p hp ⟨hn, ht⟩
    simp only [Bool.not_eq_true', List.any_eq_false, Bool.and_eq_true, beq_iff_eq, not_and] at h2
    exact h2 p hp hn ht

end Resolved
