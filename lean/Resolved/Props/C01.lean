/-
  C01 — Local zone and hosts data always win over cache and upstream.
  FIRST-CLAIM version.  Being proved: authoritative answers / name errors of the owning zone are
  returned independently of the cache and with an empty exchange log in all three modes;
  non-authoritative local records are returned exactly.
-/
import Resolved.Model.Resolver
import Resolved.Proofs.ResolverLocalLemmas
import Resolved.Proofs.ResolverLocalZones
import Resolved.Proofs.ResolverLocalExamples
import Resolved.Proofs.ResolverLocalModes

namespace Resolved

open Gen

/-- A name error is reported only when local resolution itself ended in an authoritative name
    error: no other local outcome (partial, delegation, CNAME) converts into one. -/
theorem C01_nameerror_only_from_authoritative_local (r : LocalResult) (soa : RR)
    (h : r.toResolved = .authoritativeNameError soa) : r = .done (.authoritativeNameError soa) := by
  cases r with
  | done x => simp [LocalResult.toResolved] at h; rw [h]
  | partialAnswer rrs => simp [LocalResult.toResolved] at h
  | delegation rrs s d => cases s <;> simp [LocalResult.toResolved] at h
  | cname rrs q => simp [LocalResult.toResolved] at h

/-- Records of the first argument of `prioritising_merge` are all kept, in order, and a record of
    the second is added only if the first has none of that name and type: local records are
    never displaced or supplemented by cached/upstream records of the same name and type. -/
theorem C01_prioritising_merge (priority new : List RR) :
    priority <+: prioritisingMerge priority new ∧
    ∀ rr ∈ prioritisingMerge priority new, rr ∈ priority ∨
      (rr ∈ new ∧ ∀ p ∈ priority, ¬ (p.name = rr.name ∧ p.rtype = rr.rtype)) := by
  unfold prioritisingMerge
  refine ⟨List.prefix_append _ _, ?_⟩
  intro rr h
  simp only [List.mem_append, List.mem_filter] at h
  rcases h with h | ⟨h1, h2⟩
  · exact Or.inl h
  · right
    refine ⟨h1, ?_⟩
    intro p hp ⟨hn, ht⟩
    simp only [Bool.not_eq_true', List.any_eq_false, Bool.and_eq_true, beq_iff_eq, not_and] at h2
    exact h2 p hp hn ht

/-! ## 1. An authoritative zone's word is final, whatever the cache holds

  Notation of the statements: `ctx.zones.resolve q.name q.qtype = some (z, some zr)` says that `z`
  is the most specific configured zone enclosing `q.name` (`Zones::get`, see `C01_longest_suffix`)
  and `zr` its verdict; `z.soaRR = some soa` says it is authoritative. -/

/-- An authoritative zone's answer is the whole local result: authoritative, carrying the zone's
    SOA, with exactly the zone's records; the context (in particular the cache) is returned
    untouched.  The right-hand side mentions neither the cache nor the clock. -/
theorem C01_auth_answer_independent (fuel : Nat) (ctx : Ctx) (q : Question) (z : Zone) (rrs : List RR)
    (soa : RR) (hl : ctx.stack.length ≠ RECURSION_LIMIT) (hd : q ∉ ctx.stack)
    (hz : ctx.zones.resolve q.name q.qtype = some (z, some (.answer rrs))) (hs : z.soaRR = some soa) :
    resolveLocal (fuel + 1) ctx q = (ctx, .ok (.done (.authoritative rrs soa))) := by
  rw [resolveLocal_succ]; exact localStep_zone_answer_auth hl hd hz hs

/-- … so two contexts that differ only in cache contents and clock reading get the same reply. -/
theorem C01_auth_answer_any_cache (fuel fuel' : Nat) (ctx ctx' : Ctx) (q : Question) (z : Zone)
    (rrs : List RR) (soa : RR) (hl : ctx.stack.length ≠ RECURSION_LIMIT) (hd : q ∉ ctx.stack)
    (hz : ctx.zones.resolve q.name q.qtype = some (z, some (.answer rrs))) (hs : z.soaRR = some soa)
    (hzones : ctx'.zones = ctx.zones) (hstack : ctx'.stack = ctx.stack) :
    (resolveLocal (fuel' + 1) ctx' q).2 = (resolveLocal (fuel + 1) ctx q).2 := by
  rw [C01_auth_answer_independent fuel ctx q z rrs soa hl hd hz hs,
    C01_auth_answer_independent fuel' ctx' q z rrs soa (hstack ▸ hl) (hstack ▸ hd) (hzones ▸ hz) hs]

/-- A name the authoritative zone does not define is a name error carrying the zone's SOA;
    the cache is neither read nor written. -/
theorem C01_auth_nameerror (fuel : Nat) (ctx : Ctx) (q : Question) (z : Zone) (soa : RR)
    (hl : ctx.stack.length ≠ RECURSION_LIMIT) (hd : q ∉ ctx.stack)
    (hz : ctx.zones.resolve q.name q.qtype = some (z, some .nameError)) (hs : z.soaRR = some soa) :
    resolveLocal (fuel + 1) ctx q = (ctx, .ok (.done (.authoritativeNameError soa))) := by
  rw [resolveLocal_succ]; exact localStep_zone_nameError_auth hl hd hz hs

theorem C01_auth_nameerror_any_cache (fuel fuel' : Nat) (ctx ctx' : Ctx) (q : Question) (z : Zone)
    (soa : RR) (hl : ctx.stack.length ≠ RECURSION_LIMIT) (hd : q ∉ ctx.stack)
    (hz : ctx.zones.resolve q.name q.qtype = some (z, some .nameError)) (hs : z.soaRR = some soa)
    (hzones : ctx'.zones = ctx.zones) (hstack : ctx'.stack = ctx.stack) :
    (resolveLocal (fuel' + 1) ctx' q).2 = (resolveLocal (fuel + 1) ctx q).2 := by
  rw [C01_auth_nameerror fuel ctx q z soa hl hd hz hs,
    C01_auth_nameerror fuel' ctx' q z soa (hstack ▸ hl) (hstack ▸ hd) (hzones ▸ hz) hs]

/-- Authoritative-only mode (`is_recursive = false`): the reply is the zone's answer / name error,
    marked authoritative, with the zone's SOA. -/
theorem C01_auth_only_mode (ctx : Ctx) (q : Question) (z : Zone) (soa : RR)
    (hl : ctx.stack.length ≠ RECURSION_LIMIT) (hd : q ∉ ctx.stack) (hs : z.soaRR = some soa) :
    (∀ rrs, ctx.zones.resolve q.name q.qtype = some (z, some (.answer rrs)) →
      resolveAuthoritativeOnly ctx q = (ctx, .ok (.authoritative rrs soa))) ∧
    (ctx.zones.resolve q.name q.qtype = some (z, some .nameError) →
      resolveAuthoritativeOnly ctx q = (ctx, .ok (.authoritativeNameError soa))) := by
  constructor
  · intro rrs hz
    unfold resolveAuthoritativeOnly
    rw [C01_auth_answer_independent _ ctx q z rrs soa hl hd hz hs]; rfl
  · intro hz
    unfold resolveAuthoritativeOnly
    rw [C01_auth_nameerror _ ctx q z soa hl hd hz hs]; rfl

/-! ## 2. Records of a hosts file / non-authoritative zone are returned exactly -/

/-- A non-authoritative zone (hosts file, SOA-less zone file) holding records of the asked name
    and (non-ANY) type: exactly those records are returned; the cache is neither read nor written,
    so cached records of the same name and type are never added or substituted. -/
theorem C01_nonauth_exact (fuel : Nat) (ctx : Ctx) (q : Question) (z : Zone) (rrs : List RR)
    (hl : ctx.stack.length ≠ RECURSION_LIMIT) (hd : q ∉ ctx.stack)
    (hz : ctx.zones.resolve q.name q.qtype = some (z, some (.answer rrs))) (hs : z.soaRR = none)
    (hq : q.qtype ≠ QTYPE_WILDCARD) (hne : rrs ≠ []) :
    resolveLocal (fuel + 1) ctx q = (ctx, .ok (.done (.nonAuthoritative rrs none))) := by
  rw [resolveLocal_succ]; exact localStep_zone_answer_nonauth hl hd hz hs hq hne

/-- For an ANY question the non-authoritative zone's records come first, whole and in order, and
    every record added after them (from the cache, possibly through a cached alias) has a
    (name, type) pair that no zone record has. -/
theorem C01_nonauth_any (fuel : Nat) (ctx : Ctx) (q : Question) (z : Zone) (rrs : List RR)
    (hl : ctx.stack.length ≠ RECURSION_LIMIT) (hd : q ∉ ctx.stack)
    (hz : ctx.zones.resolve q.name q.qtype = some (z, some (.answer rrs))) (hs : z.soaRR = none)
    (hq : q.qtype = QTYPE_WILDCARD) (r : LocalResult)
    (hr : (resolveLocal (fuel + 1) ctx q).2 = .ok r) :
    ∃ extra, r.toResolved.rrs = rrs ++ extra ∧
      ∀ e ∈ extra, ∀ p ∈ rrs, ¬ (p.name = e.name ∧ p.rtype = e.rtype) := by
  rw [resolveLocal_succ, localStep_zone_answer_nonauth_any hl hd hz hs hq] at hr
  unfold cacheStage at hr
  obtain ⟨rc, fc, _, hrrs⟩ := finishPart_ok_rrs hr
  rw [hrrs]
  refine ⟨_, rfl, ?_⟩
  intro e he p hp
  have := (C01_prioritising_merge rrs rc).2 e (by unfold prioritisingMerge; exact List.mem_append_right _ he)
  simp only [List.mem_filter] at he
  intro ⟨hn, ht⟩
  have h2 := he.2
  simp only [Bool.not_eq_true', List.any_eq_false, Bool.and_eq_true, beq_iff_eq, not_and] at h2
  exact h2 p hp hn ht

/-! ## 3. A name error is only ever reported on the word of an authoritative local zone -/

/-- Whatever the fuel, stack, cache and clock: if local resolution ends in a result that converts
    into an authoritative name error, then the most specific zone enclosing the name is
    authoritative (its SOA is the one reported) and itself said "name error".  (An alias whose
    target does not exist yields `.authoritative [cname] soa`, not a name error.) -/
theorem C01_nameerror_only_authoritative (fuel : Nat) (ctx : Ctx) (q : Question) (r : LocalResult)
    (soa : RR) (hr : (resolveLocal fuel ctx q).2 = .ok r)
    (h : r.toResolved = .authoritativeNameError soa) :
    ∃ z, ctx.zones.resolve q.name q.qtype = some (z, some .nameError) ∧ z.soaRR = some soa := by
  have hr' := C01_nameerror_only_from_authoritative_local r soa h
  subst hr'
  cases fuel with
  | zero => rw [resolveLocal_zero] at hr; cases hr
  | succ n => rw [resolveLocal_succ] at hr; exact localStep_nameError hr

/-- the same for authoritative-only mode. -/
theorem C01_nameerror_only_authoritative_mode (ctx : Ctx) (q : Question) (soa : RR)
    (h : (resolveAuthoritativeOnly ctx q).2 = .ok (.authoritativeNameError soa)) :
    ∃ z, ctx.zones.resolve q.name q.qtype = some (z, some .nameError) ∧ z.soaRR = some soa := by
  unfold resolveAuthoritativeOnly at h
  simp only at h
  cases hr : (resolveLocal (RECURSION_LIMIT + 1) ctx q).2 with
  | error e => rw [hr] at h; cases h
  | ok r =>
    rw [hr] at h
    simp only [Except.map, Except.ok.injEq] at h
    exact C01_nameerror_only_authoritative _ ctx q r soa hr h

/-! ## 4. "The most specific configured zone": `Zones::get` picks the longest matching apex

  `ZonesKeyed zs` — every zone is stored under its own apex — holds of `Zones::new()` and is kept
  by `Zones::insert` and `Zones::insert_merge` (`C01_zones_keyed`). -/

theorem C01_zones_keyed :
    ZonesKeyed Zones.empty ∧
    (∀ zs z, ZonesKeyed zs → ZonesKeyed (zs.insert z)) ∧
    (∀ zs other zs', ZonesKeyed zs → zs.insertMerge other = some zs' → ZonesKeyed zs') :=
  ⟨zonesKeyed_empty, fun _ z h => zonesKeyed_insert h z, fun _ other _ h hm => zonesKeyed_insertMerge h other hm⟩

/-- The zone `Zones::get` selects for a name is configured under its apex, its apex is a (label-)
    suffix of the name, and no configured apex (a name `from_labels` builds) that is a suffix of
    the name has more labels: the selected zone is the most specific enclosing one, and less
    specific zones are never consulted (`Zones::resolve` asks only this zone). -/
theorem C01_longest_suffix (zs : Zones) (hk : ZonesKeyed zs) (name : Name) (z : Zone)
    (h : zs.get name = some z) :
    Zones.lookup zs.zones z.apex = some z ∧ z.apex.labels <:+ name.labels ∧
    name.isSubdomainOf z.apex = true ∧
    ∀ k z', Zones.lookup zs.zones k = some z' → Name.fromLabels k.labels = some k →
      k.labels <:+ name.labels → k.labels.length ≤ z.apex.labels.length := by
  obtain ⟨suf, n, hs, _, hf, hl, hmax⟩ := Zones.getLoop_some zs name.labels z h
  have hap : z.apex = n := hk n z hl
  have hlab : n.labels = suf := ZNode.fromLabels_labels hf
  refine ⟨by rw [hap]; exact hl, by rw [hap, hlab]; exact hs, ?_, ?_⟩
  · simp only [Name.isSubdomainOf, List.isSuffixOf_iff_suffix]
    rw [hap, hlab]; exact hs
  · intro k z' hl' hok hsuf
    rw [hap, hlab]
    by_cases hlt : suf.length < k.labels.length
    · have := hmax k.labels hsuf hlt
      rw [hok] at this
      simp only [Option.bind_some] at this
      rw [hl'] at this; cases this
    · omega

/-- the zone `Zones::resolve` asks is the one `Zones::get` selects, and it always has a verdict
    (the `unwrap()` in `Zones::resolve` cannot fail) when zones are keyed by apex. -/
theorem C01_resolve_uses_selected_zone (zs : Zones) (hk : ZonesKeyed zs) (name : Name) (qtype : Nat)
    (z : Zone) (o : Option ZoneResult) (h : zs.resolve name qtype = some (z, o)) :
    zs.get name = some z ∧ ∃ zr, o = some zr := by
  have hg := Zones.resolve_get h
  refine ⟨hg, ?_⟩
  obtain ⟨_, _, hsub, _⟩ := C01_longest_suffix zs hk name z hg
  unfold Zones.resolve at h
  simp only [hg, Option.map_some, Option.some.injEq, Prod.mk.injEq, true_and] at h
  subst h
  unfold Zone.resolve Zone.relativeDomain
  simp [hsub]

/-! ## 6. Local referrals -/

/-- A local referral comes from the delegation verdict of an authoritative zone: it carries that
    zone's SOA, a non-empty set of records all owned by the delegation point `d.name`, and the
    name servers to ask are exactly those records' NS targets.  Under (H-zone) they are NS
    records. -/
theorem C01_delegation_shape (fuel : Nat) (ctx : Ctx) (q : Question) (rrs : List RR) (s : Option RR)
    (d : Nameservers) (h : (resolveLocal fuel ctx q).2 = .ok (.delegation rrs s d)) :
    ∃ z soa, s = some soa ∧ z.soaRR = some soa ∧
      ctx.zones.resolve q.name q.qtype = some (z, some (.delegation rrs)) ∧
      rrs ≠ [] ∧ (∀ rr ∈ rrs, rr.name = d.name) ∧ d.hostnames = rrs.filterMap nsTarget ∧
      (ZoneAnswersTyped ctx.zones → ∀ rr ∈ rrs, rr.rtype = RT_NS) := by
  cases fuel with
  | zero => rw [resolveLocal_zero] at h; cases h
  | succ n =>
    rw [resolveLocal_succ] at h
    obtain ⟨z, soa, first, rest, hs, hrrs, hres, hsoa, hd⟩ := localStep_delegation h
    have hown := (Zones.resolve_owned hres).delegation rrs rfl
    refine ⟨z, soa, hs, hsoa, hres, hown.1, ?_, by rw [hd], ?_⟩
    · intro rr hrr
      rw [hd]
      exact hown.2 rr hrr first (by rw [hrrs]; simp)
    · intro hz rr hrr
      exact (hz _ _ _ _ hres).delegation rrs rfl rr hrr

/-! ## 1'. Everything an authoritative zone says is said by that zone alone

  `authVerdict zr soa` (Proofs/ResolverLocalLemmas.lean) is a function of the zone's verdict and SOA
  only: answer ↦ authoritative answer, name error ↦ authoritative name error, referral ↦ local
  referral carrying the SOA. -/

/-- When the most specific zone enclosing the name is authoritative and its verdict is not an
    alias (and not the modelled panic), the local outcome is `authVerdict` of that verdict: no
    cache read, no cache write, no other zone, for any cache contents and clock reading. -/
theorem C01_auth_zone_alone (fuel : Nat) (ctx : Ctx) (q : Question) (z : Zone) (zr : ZoneResult) (soa : RR)
    (hl : ctx.stack.length ≠ RECURSION_LIMIT) (hd : q ∉ ctx.stack)
    (hz : ctx.zones.resolve q.name q.qtype = some (z, some zr)) (hs : z.soaRR = some soa)
    (hnc : ∀ c rr, zr ≠ .cname c rr) (hnp : zr ≠ .panic) :
    resolveLocal (fuel + 1) ctx q = (ctx, authVerdict zr soa) := by
  rw [resolveLocal_succ]; exact localStep_zone_auth hl hd hz hs hnc hnp

/-- … and every such reply is marked authoritative (answer, empty answer, referral) or is the
    authoritative name error. -/
theorem C01_auth_zone_reply_authoritative (fuel : Nat) (ctx : Ctx) (q : Question) (z : Zone)
    (zr : ZoneResult) (soa : RR) (hl : ctx.stack.length ≠ RECURSION_LIMIT) (hd : q ∉ ctx.stack)
    (hz : ctx.zones.resolve q.name q.qtype = some (z, some zr)) (hs : z.soaRR = some soa)
    (hnc : ∀ c rr, zr ≠ .cname c rr) (hnp : zr ≠ .panic) (r : LocalResult)
    (hr : (resolveLocal (fuel + 1) ctx q).2 = .ok r) :
    (∃ rrs, r.toResolved = .authoritative rrs soa) ∨ r.toResolved = .authoritativeNameError soa := by
  rw [C01_auth_zone_alone fuel ctx q z zr soa hl hd hz hs hnc hnp] at hr
  cases zr with
  | answer rrs => cases hr; exact Or.inl ⟨rrs, rfl⟩
  | cname c rr => exact absurd rfl (hnc c rr)
  | delegation ns =>
    cases ns with
    | nil => cases hr
    | cons f rest => cases hr; exact Or.inl ⟨f :: rest, rfl⟩
  | nameError => cases hr; exact Or.inr rfl
  | panic => exact absurd rfl hnp

/-! ## 1''. The alias branch: authority is inherited from the alias TARGET

  FINDING (model = Rust `resolve_local`, `ZoneResult::CNAME` arm).  When the zone's verdict is an
  alias, the reply always starts with the zone's CNAME record, but whether it is marked
  authoritative — and whose SOA it carries — is decided by the resolution of the target, not by the
  zone owning the alias.  The Rust comment ("authoritative if and only if this starting zone is
  authoritative") describes something else.  Consequences, both exhibited below on concrete data:
  (a) an alias in an AUTHORITATIVE zone whose target is outside every authoritative zone yields a
      NON-authoritative reply (`C01_auth_zone_reply_marked_authoritative_refuted`);
  (b) an alias in a NON-authoritative zone whose target lies in an authoritative zone yields a reply
      marked authoritative with the target zone's SOA (`Ex.run_a`). -/

theorem C01_zone_cname_result (fuel : Nat) (ctx : Ctx) (q : Question) (z : Zone) (c : Name) (rr : RR)
    (hl : ctx.stack.length ≠ RECURSION_LIMIT) (hd : q ∉ ctx.stack)
    (hz : ctx.zones.resolve q.name q.qtype = some (z, some (.cname c rr))) :
    resolveLocal (fuel + 1) ctx q =
      ((resolveLocal fuel (ctx.push q) { name := c, qtype := q.qtype, qclass := q.qclass }).1.pop,
       .ok (zoneCnameAnswer rr { name := c, qtype := q.qtype, qclass := q.qclass }
         (resolveLocal fuel (ctx.push q) { name := c, qtype := q.qtype, qclass := q.qclass }).2)) := by
  rw [resolveLocal_succ]; exact localStep_zone_cname hl hd hz

/-- the reply to an aliased name never fails and starts with the zone's own CNAME record; it is
    authoritative (with SOA `soa`) exactly when following the target ended authoritatively with
    that SOA. -/
theorem C01_zone_cname_head (fuel : Nat) (ctx : Ctx) (q : Question) (z : Zone) (c : Name) (rr : RR)
    (hl : ctx.stack.length ≠ RECURSION_LIMIT) (hd : q ∉ ctx.stack)
    (hz : ctx.zones.resolve q.name q.qtype = some (z, some (.cname c rr))) :
    ∃ r, (resolveLocal (fuel + 1) ctx q).2 = .ok r ∧ (∃ rest, r.toResolved.rrs = rr :: rest) ∧
      ∀ rrs soa, r.toResolved = .authoritative rrs soa ↔
        ((∃ cr, (resolveLocal fuel (ctx.push q) { name := c, qtype := q.qtype, qclass := q.qclass }).2 =
            .ok (.done (.authoritative cr soa)) ∧ rrs = rr :: cr) ∨
         ((resolveLocal fuel (ctx.push q) { name := c, qtype := q.qtype, qclass := q.qclass }).2 =
            .ok (.done (.authoritativeNameError soa)) ∧ rrs = [rr])) := by
  rw [C01_zone_cname_result fuel ctx q z c rr hl hd hz]
  exact ⟨_, rfl, zoneCnameAnswer_head _ _ _, fun rrs soa => zoneCnameAnswer_authoritative_iff _ _ _ rrs soa⟩

/-- NOT PROVED — REFUTED.  "Whenever the most specific zone enclosing the name is authoritative,
    the reply is marked authoritative (or is the authoritative name error)." -/
def C01_auth_zone_reply_marked_authoritative_statement : Prop :=
  ∀ (fuel : Nat) (ctx : Ctx) (q : Question) (z : Zone) (zr : ZoneResult) (soa : RR) (r : LocalResult),
    ctx.stack = [] → ctx.zones.resolve q.name q.qtype = some (z, some zr) → z.soaRR = some soa →
    zr ≠ .panic → (resolveLocal (fuel + 1) ctx q).2 = .ok r →
    (∃ rrs s, r.toResolved = .authoritative rrs s) ∨ (∃ s, r.toResolved = .authoritativeNameError s)

/-- Counterexample: zone `e.` (authoritative) holds `d.e. CNAME o.`; nothing local knows `o.`.
    The reply to `d.e. A` is the CNAME record alone, NOT marked authoritative, without SOA
    (`Ex.run_d_cold`; with `o. A` in the cache the reply is complete and still non-authoritative,
    `Ex.run_d_warm`). -/
theorem C01_auth_zone_reply_marked_authoritative_refuted :
    ¬ C01_auth_zone_reply_marked_authoritative_statement := by
  intro h
  have := h 32 Ex.ctx0 (Ex.qA Ex.nDE) Ex.zoneE _ Ex.soaRRE _ rfl Ex.resolve_d rfl (by simp) Ex.run_d_cold
  rcases this with ⟨rrs, s, h⟩ | ⟨s, h⟩ <;> simp [LocalResult.toResolved] at h

/-! ## 7. No upstream server is contacted for a question local data answers

  `Run.log` lists every exchange with an upstream server; `Run.empty` has the empty log. -/

/-- In recursive and in forwarding mode a finished local result (`.done`) is the reply: same
    records, same authority, the exchange log is still empty and no time has passed — for ANY
    upstream oracle. -/
theorem C01_local_done_no_upstream (rcfg : RecCfg) (fcfg : FwdCfg) (ctx : Ctx) (q : Question)
    (res : ResolvedRecord) (hl : ctx.stack.length ≠ RECURSION_LIMIT) (hd : q ∉ ctx.stack)
    (h : (resolveLocal (RECURSION_LIMIT + 1) ctx q).2 = .ok (.done res)) :
    (resolveRecursive rcfg ctx q).2 = .ok res ∧ (resolveRecursive rcfg ctx q).1.run = Run.empty ∧
    (resolveForwarding fcfg ctx q).2 = .ok res ∧ (resolveForwarding fcfg ctx q).1.run = Run.empty ∧
    (resolveAuthoritativeOnly ctx q).2 = .ok res := by
  rw [resolveRecursive_of_local_done rcfg ctx q res hl hd h,
    resolveForwarding_of_local_done fcfg ctx q res hl hd h]
  refine ⟨rfl, rfl, rfl, rfl, ?_⟩
  unfold resolveAuthoritativeOnly
  simp only [h]; rfl

/-- Authoritative answers, authoritative name errors and exact non-authoritative local records are
    the reply in all three modes, whatever the cache holds and whatever upstream would say; no
    upstream server is contacted. -/
theorem C01_local_data_wins_all_modes (rcfg : RecCfg) (fcfg : FwdCfg) (ctx : Ctx) (q : Question) (z : Zone)
    (hl : ctx.stack.length ≠ RECURSION_LIMIT) (hd : q ∉ ctx.stack) :
    (∀ rrs soa, ctx.zones.resolve q.name q.qtype = some (z, some (.answer rrs)) → z.soaRR = some soa →
      (resolveRecursive rcfg ctx q).2 = .ok (.authoritative rrs soa) ∧
      (resolveRecursive rcfg ctx q).1.run = Run.empty ∧
      (resolveForwarding fcfg ctx q).2 = .ok (.authoritative rrs soa) ∧
      (resolveForwarding fcfg ctx q).1.run = Run.empty) ∧
    (∀ soa, ctx.zones.resolve q.name q.qtype = some (z, some .nameError) → z.soaRR = some soa →
      (resolveRecursive rcfg ctx q).2 = .ok (.authoritativeNameError soa) ∧
      (resolveRecursive rcfg ctx q).1.run = Run.empty ∧
      (resolveForwarding fcfg ctx q).2 = .ok (.authoritativeNameError soa) ∧
      (resolveForwarding fcfg ctx q).1.run = Run.empty) ∧
    (∀ rrs, ctx.zones.resolve q.name q.qtype = some (z, some (.answer rrs)) → z.soaRR = none →
      q.qtype ≠ QTYPE_WILDCARD → rrs ≠ [] →
      (resolveRecursive rcfg ctx q).2 = .ok (.nonAuthoritative rrs none) ∧
      (resolveRecursive rcfg ctx q).1.run = Run.empty ∧
      (resolveForwarding fcfg ctx q).2 = .ok (.nonAuthoritative rrs none) ∧
      (resolveForwarding fcfg ctx q).1.run = Run.empty) := by
  refine ⟨fun rrs soa hz hs => ?_, fun soa hz hs => ?_, fun rrs hz hs hq hne => ?_⟩
  · have h := C01_local_done_no_upstream rcfg fcfg ctx q _ hl hd
      (by rw [C01_auth_answer_independent _ ctx q z rrs soa hl hd hz hs])
    exact ⟨h.1, h.2.1, h.2.2.1, h.2.2.2.1⟩
  · have h := C01_local_done_no_upstream rcfg fcfg ctx q _ hl hd
      (by rw [C01_auth_nameerror _ ctx q z soa hl hd hz hs])
    exact ⟨h.1, h.2.1, h.2.2.1, h.2.2.2.1⟩
  · have h := C01_local_done_no_upstream rcfg fcfg ctx q _ hl hd
      (by rw [C01_nonauth_exact _ ctx q z rrs hl hd hz hs hq hne])
    exact ⟨h.1, h.2.1, h.2.2.1, h.2.2.2.1⟩

/-! ## 3'. … in every mode

  Whatever the upstream oracle answers (including replies with RCODE NameError), a reply produced by
  the recursive or forwarding resolver is either the finished local result or of the
  `NonAuthoritative` kind (RCODE NoError). -/

theorem C01_authoritative_only_from_local (rcfg : RecCfg) (fcfg : FwdCfg) (ctx : Ctx) (q : Question)
    (r : ResolvedRecord) :
    ((resolveRecursive rcfg ctx q).2 = .ok r →
      (resolveLocal (RECURSION_LIMIT + 1) ctx q).2 = .ok (.done r) ∨ r.isNonAuth) ∧
    ((resolveForwarding fcfg ctx q).2 = .ok r →
      (resolveLocal (RECURSION_LIMIT + 1) ctx q).2 = .ok (.done r) ∨ r.isNonAuth) :=
  ⟨resolveRecursive_ok rcfg ctx q r, resolveForwarding_ok fcfg ctx q r⟩

/-- A name error is only ever reported — in authoritative-only, recursive and forwarding mode, for
    any upstream behaviour — when the most specific local zone enclosing the name is authoritative
    and says so; the SOA reported is that zone's. -/
theorem C01_nameerror_only_authoritative_all_modes (rcfg : RecCfg) (fcfg : FwdCfg) (ctx : Ctx)
    (q : Question) (soa : RR)
    (h : (resolveRecursive rcfg ctx q).2 = .ok (.authoritativeNameError soa) ∨
         (resolveForwarding fcfg ctx q).2 = .ok (.authoritativeNameError soa) ∨
         (resolveAuthoritativeOnly ctx q).2 = .ok (.authoritativeNameError soa)) :
    ∃ z, ctx.zones.resolve q.name q.qtype = some (z, some .nameError) ∧ z.soaRR = some soa := by
  rcases h with h | h | h
  · rcases resolveRecursive_ok rcfg ctx q _ h with h | h
    · exact C01_nameerror_only_authoritative _ ctx q _ soa h rfl
    · exact absurd h (by simp [ResolvedRecord.isNonAuth])
  · rcases resolveForwarding_ok fcfg ctx q _ h with h | h
    · exact C01_nameerror_only_authoritative _ ctx q _ soa h rfl
    · exact absurd h (by simp [ResolvedRecord.isNonAuth])
  · exact C01_nameerror_only_authoritative_mode ctx q soa h

/-- Local resolution hands over a *partial* answer — the outcome that makes the recursive and
    forwarding resolvers ask upstream for more records of the same name — only for an ANY question. -/
theorem C01_partial_only_any (fuel : Nat) (ctx : Ctx) (q : Question) (rrs : List RR)
    (hq : q.qtype ≠ QTYPE_WILDCARD) : (resolveLocal fuel ctx q).2 ≠ .ok (.partialAnswer rrs) :=
  resolveLocal_partial_only_any fuel ctx q rrs hq

/-! ## Non-vacuity: the hypotheses of the theorems above are met by concrete data
  (fixtures: Proofs/ResolverLocalExamples.lean — zone `e.` with SOA, a hosts-like SOA-less root zone,
  a cache holding records that conflict with both). -/

/-- `w.e. A`: answered from the authoritative zone although the cache holds `w.e. A 66`. -/
example : resolveLocal 33 Ex.ctx1 (Ex.qA Ex.nWE) =
    (Ex.ctx1, .ok (.done (.authoritative [Ex.rrW] Ex.soaRRE))) :=
  C01_auth_answer_independent 32 Ex.ctx1 (Ex.qA Ex.nWE) Ex.zoneE [Ex.rrW] Ex.soaRRE (by decide) (by decide)
    Ex.resolve_w rfl

example : (resolveLocal 33 Ex.ctx1 (Ex.qA Ex.nWE)).2 = (resolveLocal 33 Ex.ctx0 (Ex.qA Ex.nWE)).2 :=
  C01_auth_answer_any_cache 32 32 Ex.ctx0 Ex.ctx1 (Ex.qA Ex.nWE) Ex.zoneE [Ex.rrW] Ex.soaRRE (by decide)
    (by decide) Ex.resolve_w rfl rfl rfl

/-- `x.e. A`: name error on the word of `e.`. -/
example : resolveLocal 33 Ex.ctx1 (Ex.qA Ex.nXE) =
    (Ex.ctx1, .ok (.done (.authoritativeNameError Ex.soaRRE))) :=
  C01_auth_nameerror 32 Ex.ctx1 (Ex.qA Ex.nXE) Ex.zoneE Ex.soaRRE (by decide) (by decide) Ex.resolve_x rfl

example : resolveAuthoritativeOnly Ex.ctx1 (Ex.qA Ex.nXE) = (Ex.ctx1, .ok (.authoritativeNameError Ex.soaRRE)) :=
  (C01_auth_only_mode Ex.ctx1 (Ex.qA Ex.nXE) Ex.zoneE Ex.soaRRE (by decide) (by decide) rfl).2 Ex.resolve_x

/-- `h. A`: the hosts entry `h. A 9` is returned exactly although the cache holds `h. A 8`. -/
example : resolveLocal 33 Ex.ctx1 (Ex.qA Ex.nH) = (Ex.ctx1, .ok (.done (.nonAuthoritative [Ex.rrH] none))) :=
  C01_nonauth_exact 32 Ex.ctx1 (Ex.qA Ex.nH) Ex.zoneH [Ex.rrH] (by decide) (by decide) Ex.resolve_h rfl
    (by decide) (by simp)

/-- the hypotheses of `C01_nonauth_any` (`h. ANY`) are satisfiable. -/
example : ∃ z rrs, Ex.ctx1.zones.resolve Ex.nH QTYPE_WILDCARD = some (z, some (.answer rrs)) ∧ z.soaRR = none :=
  ⟨Ex.zoneH, [Ex.rrH], Ex.resolve_h_any, rfl⟩

/-- `C01_nameerror_only_authoritative` is not vacuous: a name error does occur. -/
example : ∃ r soa, (resolveLocal 33 Ex.ctx1 (Ex.qA Ex.nXE)).2 = .ok r ∧ r.toResolved = .authoritativeNameError soa :=
  ⟨_, Ex.soaRRE, by rw [C01_auth_nameerror 32 Ex.ctx1 (Ex.qA Ex.nXE) Ex.zoneE Ex.soaRRE (by decide) (by decide)
    Ex.resolve_x rfl], rfl⟩

/-- `ZonesKeyed` holds of the fixture; `w.e.` selects `e.`, not the (also enclosing) root zone. -/
example : Ex.zoneE.apex.labels <:+ Ex.nWE.labels ∧
    ∀ k z', Zones.lookup Ex.zones.zones k = some z' → Name.fromLabels k.labels = some k →
      k.labels <:+ Ex.nWE.labels → k.labels.length ≤ Ex.zoneE.apex.labels.length :=
  ⟨(C01_longest_suffix Ex.zones Ex.zones_keyed Ex.nWE Ex.zoneE Ex.get_w).2.1,
   (C01_longest_suffix Ex.zones Ex.zones_keyed Ex.nWE Ex.zoneE Ex.get_w).2.2.2⟩

/-- `x.s.e. A`: a referral out of `e.` (hypothesis of `C01_delegation_shape` satisfiable). -/
example : (resolveLocal 33 Ex.ctx1 (Ex.qA Ex.nXSE)).2 =
    .ok (.delegation [Ex.rrS] (some Ex.soaRRE) { hostnames := [Ex.nNO], name := Ex.nSE }) := by
  rw [C01_auth_zone_alone 32 Ex.ctx1 (Ex.qA Ex.nXSE) Ex.zoneE _ Ex.soaRRE (by decide) (by decide) Ex.resolve_xs rfl
    (by simp) (by simp)]
  rfl

end Resolved
