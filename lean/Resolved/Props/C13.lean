/-
  C13 — Writing a zone to text and reading it back changes nothing.

  Proved here, on the model of Model/ZoneText.lean (tied to the Rust by the `ztext-roundtrip`
  stream), for EVERY octet string / name — not for samples:
    * octets   `C13_octets_roundtrip_quoted`, `C13_octets_roundtrip_unquoted`, `C13_octets_in_line_*`:
               the tokeniser inverts `serialise_octets` for all 256 octet values, quoted and not;
               `C13_escape_set`: the octets written `\X` are exactly the generated escape set;
    * names    `C13_name_roundtrip`, `C13_owner_roundtrip`, `C13_wildcard_owner_roundtrip`:
               a name with ASCII labels without `.` written by `serialise_domain` (absolute,
               relative, `@`, absolute again when the relative form would be `@`) is read back as
               the same name under the `$ORIGIN` that `Zone::serialise` emits; owners need the
               hypothesis that the first label does not start with `*` — that gap is exactly the
               open finding C13-K1 (`C13_K1_star_owner_reads_back_as_wildcard`).
    * lines    `C13_line_roundtrip`, `C13_wildcard_line_roundtrip`: a record line written by
               `Zone::serialise` (`<owner> <ttl> IN <type> <rdata>`, all 17 non-SOA types) is read back
               by `parse_entry` as exactly that record, whatever precedes and follows it; includes
               `u32::from_str(format!("{n}")) = n` and the `Ipv4Addr` / `Ipv6Addr` text round trips
               (`C13_std_roundtrips`; the address parser / printer is the shared std model
               `Resolved.Ip` of Model/Hosts.lean, its print/parse lemmas are Proofs/IpLemmas.lean).
    * zones    `C13_roundtrip_text_side`: for every zone satisfying `ZoneTextOK`, reading
               `serialise z` back never errs in the entry loop and is EXACTLY the re-insertion, into
               `Zone::new(apex, soa)` with the apex and SOA of `z`, of the records `z` lists (header
               lines `$ORIGIN` / SOA, blank lines, owner blocks, wildcard lines all handled).
               `C13_reinsert`: re-inserting everything a built zone lists rebuilds the same record
               sets (tree invariant `TreeRepr` of C02); hence `C13_roundtrip`:
               `deserialise (serialise z) = Ok z'` with `z'` the same zone up to record order, for
               every zone built through the insertion API that satisfies `ZoneTextOK` and holds no
               stray SOA-typed record.
    * parsed   `C13_parsed_zone_hypotheses`: EVERY zone `Zone::deserialise` returns, for every text,
               is built through the insertion API, holds no stray SOA-typed record and satisfies
               `ZoneTextOK` but for its `NoStar` clause (parsed names are text names, parsed RDATA fits
               its type, TTLs are `u32`); hence `C13_parsed_zone_roundtrips` and the idempotence of
               normalisation `C13_normalise_idempotent` (`ztoz ∘ ztoz = ztoz` up to record order) under
               the explicit premise that no ordinary owner starts with `*` — which cannot be dropped:
               `C13_K1_parsed_zone_breaks_roundtrip` (`$ORIGIN *.e.` + `@ …` parses, is written
               `*.e. …`, and reads back as a wildcard record: open finding C13-K1 at the zone level).
  The `ztext-roundtrip` stream checks the same statement on the Rust (and the model against it) on
  every case.
-/
import Resolved.Proofs.ZoneTextTree
import Resolved.Proofs.ZoneTextParsed

namespace Resolved

open ZoneText IpText Gen

/-! ## octets -/

/-- **The octets written as `\X` are exactly the generated escape set** (`"` `\` `;` `(` `)`),
    whatever the `quoted` flag; all others are written bare or as `\DDD`. -/
theorem C13_escape_set (quoted : Bool) (b : UInt8) :
    serialiseOctet quoted b = ['\\', octetAsChar b] ↔ zoneEscapeBackslash.contains b.toNat = true := by
  unfold serialiseOctet
  constructor
  · intro h
    split at h
    · assumption
    · split at h <;> simp at h
  · intro h
    rw [if_pos h]

theorem C13_escape_set_is : zoneEscapeBackslash = [34, 92, 59, 40, 41] := rfl

/-- **Quoted**: for EVERY octet string `bs` (the empty one included), `serialise_octets(bs, true)`
    alone is read as the single token whose octets are `bs` (and whose string is `bs` as chars). -/
theorem C13_octets_roundtrip_quoted (bs : List UInt8) :
    tokeniseEntry (serialiseOctets bs true) = .ok ([(bs.map octetAsChar, bs)], []) := by
  unfold tokeniseEntry
  have := tokLoop_serialiseOctets_quoted bs [] [] false
  rw [List.append_nil] at this
  rw [this]
  simp [tokLoop, pushNonEmpty]

/-- **Unquoted**: for EVERY non-empty octet string `bs`, `serialise_octets(bs, false)` alone is read
    as the single token whose octets are `bs` … -/
theorem C13_octets_roundtrip_unquoted (bs : List UInt8) (hne : bs ≠ []) :
    tokeniseEntry (serialiseOctets bs false) = .ok ([(bs.map octetAsChar, bs)], []) := by
  unfold tokeniseEntry
  have := tokLoop_serialiseOctets_unquoted bs hne [] [] false
  rw [List.append_nil] at this
  rw [this, tokLoop_unquoted_end]
  · simp
  · cases bs with
    | nil => exact absurd rfl hne
    | cons b bs => simp

/-- … while the empty string, unquoted, is written as nothing and yields NO token (this is why
    `Zone::serialise` never writes an empty domain string, and writes RDATA octets quoted). -/
theorem C13_octets_unquoted_empty :
    serialiseOctets [] false = [] ∧ tokeniseEntry [] = .ok ([], []) := ⟨rfl, tokeniseEntry_nil⟩

/-- Inside a line, between tokens (any tokens `rtoks` already read, inside parentheses or not): a
    quoted string is read as exactly one more token and the tokeniser is between tokens again,
    whatever follows. -/
theorem C13_octets_in_line_quoted (bs : List UInt8) (rest : List Char) (rtoks : List Token) (lc : Bool) :
    tokLoop 0 (serialiseOctets bs true ++ rest) rtoks [] [] .initial lc
      = tokLoop 0 rest ((bs.map octetAsChar, bs) :: rtoks) [] [] .initial lc :=
  tokLoop_serialiseOctets_quoted bs rest rtoks lc

/-- Inside a line, an unquoted non-empty string followed by a space or a tab is read as exactly one
    more token … -/
theorem C13_octets_in_line_unquoted_space (bs : List UInt8) (hne : bs ≠ []) (c : Char)
    (hc : c = ' ' ∨ c = '\t') (rest : List Char) (rtoks : List Token) (lc : Bool) :
    tokLoop 0 (serialiseOctets bs false ++ c :: rest) rtoks [] [] .initial lc
      = tokLoop 0 rest ((bs.map octetAsChar, bs) :: rtoks) [] [] .initial lc := by
  rw [tokLoop_serialiseOctets_unquoted bs hne, tokLoop_unquoted_space c hc]
  · simp
  · cases bs with
    | nil => exact absurd rfl hne
    | cons b bs => simp

/-- … followed by the line feed that ends the line it is the last token of the entry … -/
theorem C13_octets_in_line_unquoted_newline (bs : List UInt8) (hne : bs ≠ []) (rest : List Char)
    (rtoks : List Token) :
    tokLoop 0 (serialiseOctets bs false ++ '\n' :: rest) rtoks [] [] .initial false
      = .ok (((bs.map octetAsChar, bs) :: rtoks).reverse, rest) := by
  rw [tokLoop_serialiseOctets_unquoted bs hne, tokLoop_unquoted_newline]
  · simp
  · cases bs with
    | nil => exact absurd rfl hne
    | cons b bs => simp

/-- … and likewise at the end of the input. -/
theorem C13_octets_in_line_unquoted_end (bs : List UInt8) (hne : bs ≠ []) (rtoks : List Token) (lc : Bool) :
    tokLoop 0 (serialiseOctets bs false) rtoks [] [] .initial lc
      = .ok (((bs.map octetAsChar, bs) :: rtoks).reverse, []) := by
  have := tokLoop_serialiseOctets_unquoted bs hne [] rtoks lc
  rw [List.append_nil] at this
  rw [this, tokLoop_unquoted_end]
  · simp
  · cases bs with
    | nil => exact absurd rfl hne
    | cons b bs => simp

/-! ## names -/

/-- **A name written by `serialise_domain` is read back as the same name.**  For every zone `z`
    whose apex is a text name and every text name `name` (labels ASCII, no `.`; well-formed):
    the token is `serialise_octets` of a non-empty ASCII octet string `domainStr z name` — so by the
    octet theorems it is read as one token with exactly these octets — and `parse_domain` maps that
    token to `name` under the origin that `Zone::serialise` emits (`$ORIGIN <apex>` iff the zone is
    authoritative and its apex is not the root).  Covers the absolute form, the apex-relative form,
    `@` for the apex, and the absolute fallback when the relative form would be the single label `@`. -/
theorem C13_name_roundtrip (z : Zone) (name : Name) (hn : TextName name) (ha : TextName z.apex) :
    serialiseDomain z name = serialiseOctets (domainStr z name) false ∧
    domainStr z name ≠ [] ∧
    tokeniseEntry (serialiseDomain z name)
      = .ok ([((domainStr z name).map octetAsChar, domainStr z name)], []) ∧
    parseDomain (emittedOrigin z) ((domainStr z name).map octetAsChar) = .ok name := by
  obtain ⟨h1, -, h3⟩ := domainStr_roundtrip z name hn ha
  exact ⟨rfl, h1, C13_octets_roundtrip_unquoted _ h1, h3⟩

/-- **Owners**: if moreover the first label of the owner does not start with `*`, the owner field is
    read back as that ordinary (non-wildcard) owner. -/
theorem C13_owner_roundtrip (z : Zone) (name : Name) (hn : TextName name) (ha : TextName z.apex)
    (hs : NoStar name) :
    parseDomainOrWildcard (emittedOrigin z) ((domainStr z name).map octetAsChar) = .ok (.normal name) :=
  owner_roundtrip z name hn ha hs

/-- **Wildcard owners**: `*.` followed by the name is read back as the wildcard beneath it. -/
theorem C13_wildcard_owner_roundtrip (z : Zone) (name : Name) (hn : TextName name) (ha : TextName z.apex) :
    parseDomainOrWildcard (emittedOrigin z) ('*' :: '.' :: (domainStr z name).map octetAsChar)
      = .ok (.wildcard name) :=
  wildcard_owner_roundtrip z name hn ha

/-- The hypothesis `NoStar` cannot be dropped — **open finding C13-K1**: the ordinary owner `*.e.`
    (obtainable by parsing `$ORIGIN *.e.` + `@`) is written `*.e.`, which reads back as the wildcard
    beneath `e.`. -/
theorem C13_K1_star_owner_reads_back_as_wildcard :
    let name : Name := ⟨[[42], [101], []], 5⟩
    TextName name ∧ domainStr Zone.default name = [42, 46, 101, 46] ∧
    parseDomainOrWildcard none ((domainStr Zone.default name).map octetAsChar)
      = .ok (.wildcard ⟨[[101], []], 3⟩) := by
  refine ⟨⟨by decide, ?_⟩, by decide, by rfl⟩
  intro l hl
  simp at hl
  rcases hl with h | h | h <;> subst h <;> refine ⟨by decide, ?_⟩ <;> intro b hb <;> simp at hb
  · subst hb; exact ⟨by decide, by decide, by decide⟩
  · subst hb; exact ⟨by decide, by decide, by decide⟩

/-- non-vacuity of the hypotheses: `www.example.com.` under the apex `example.com.`. -/
example : TextName ⟨[[119, 119, 119], [101], []], 7⟩ ∧ NoStar ⟨[[119, 119, 119], [101], []], 7⟩ := by
  refine ⟨⟨by decide, ?_⟩, ?_⟩
  · intro l hl
    simp at hl
    rcases hl with h | h | h <;> subst h <;> refine ⟨by decide, ?_⟩ <;> intro b hb <;> simp at hb
    · subst hb; exact ⟨by decide, by decide, by decide⟩
    · subst hb; exact ⟨by decide, by decide, by decide⟩
  · intro l ls h
    cases h
    decide

/-! ## lines -/

/-- **A record line is read back as that record.**  `zr` = any record whose RDATA fits its type
    (`RdataOK`: A, NS, MD, MF, CNAME, MB, MG, MR, NULL, WKS, PTR, HINFO, MINFO, MX, TXT, AAAA, SRV —
    names are text names, numbers in range, octets arbitrary), TTL a `u32`; `domain` a text name whose
    first label does not start with `*`; the zone's apex a text name.  Then `parse_entry`, under
    the origin the serialiser emitted and with ANY previous owner / TTL, reads the line
    `<owner>[  ] <ttl> IN <type> <rdata>\n` as `Entry::RR` of exactly that record, leaving `rest`. -/
theorem C13_line_roundtrip (z : Zone) (ha : TextName z.apex) (domain : Name) (hd : TextName domain)
    (hs : NoStar domain) (hasWildcards : Bool) (zr : ZoneRecord) (hzr : RdataOK zr.rtype zr.fields)
    (httl : zr.ttl < 4294967296) (pd : Option MaybeWildcard) (pt : Option Nat) (fuel : Nat)
    (rest : List Char) :
    parseEntry (fuel + 1) (emittedOrigin z) pd pt (serialiseRecordLine z domain hasWildcards zr ++ rest)
      = .ok (some (.rr (zr.toRR domain))) rest :=
  recordLine_roundtrip z ha domain hd hs hasWildcards zr hzr httl pd pt fuel rest

/-- **A wildcard line** `*.<owner> <ttl> IN <type> <rdata>\n` **is read back as that wildcard record**
    (no `NoStar` hypothesis: the `*.` is written by the serialiser itself). -/
theorem C13_wildcard_line_roundtrip (z : Zone) (ha : TextName z.apex) (domain : Name) (hd : TextName domain)
    (zr : ZoneRecord) (hzr : RdataOK zr.rtype zr.fields) (httl : zr.ttl < 4294967296)
    (pd : Option MaybeWildcard) (pt : Option Nat) (fuel : Nat) (rest : List Char) :
    parseEntry (fuel + 1) (emittedOrigin z) pd pt (serialiseWildcardLine z domain zr ++ rest)
      = .ok (some (.wildcardRR (zr.toRR domain))) rest :=
  wildcardLine_roundtrip z ha domain hd zr hzr httl pd pt fuel rest

/-- the std round trips used by the line theorems (std models: Model/IpText.lean, `Resolved.Ip`). -/
theorem C13_std_roundtrips :
    (∀ n, n < 4294967296 → parseU32 (showDec n) = some n) ∧
    (∀ n, n < 65536 → parseU16 (showDec n) = some n) ∧
    (∀ a, a < 4294967296 → ipv4FromStr (showIpv4 a) = some a) ∧
    (∀ gs : List Nat, gs.length = 8 → (∀ g ∈ gs, g < 65536) → ipv6FromStr (showIpv6 gs) = some gs) ∧
    (∀ p ∈ rtypeNames, rtypeFromStr (showRtype p.1) = some p.1) :=
  ⟨parseU32_showDec, parseU16_showDec, ipv4FromStr_showIpv4, ipv6FromStr_showIpv6, rtypeFromStr_showRtype⟩

/-- non-vacuity of `RdataOK` / `FieldOK` for AAAA: `::1`. -/
example : RdataOK 28 [.aaaa [0, 0, 0, 0, 0, 0, 0, 1]] := .aaaa _ ⟨rfl, by decide⟩

/-! ## zones: the text side -/

/-- **Reading `serialise z` back is re-inserting the records of `z` into a fresh zone.**
    `ZoneTextOK z`: the apex is a text name; a non-authoritative zone has the root as apex; the SOA's
    names are text names and its numbers `u32`; every ordinary owner is a text name whose first label
    does not start with `*` and every wildcard owner a text name; every record that is not SOA-typed
    fits one of the 17 non-SOA types (`RdataOK`) with a `u32` TTL (SOA-typed records besides the
    zone's own are not written by `Zone::serialise` at all).
    Then the entry loop of `Zone::deserialise` runs through the whole text of `serialise z` — the
    `$ORIGIN` line, the SOA line, every blank line, every record and wildcard line — without error,
    and the result is the two insertion loops applied to `Zone::new(z.apex, z.soa)` with exactly the
    listed ordinary records (`itemsRRs`) and wildcard records (`itemsWildRRs`) of `z`. -/
theorem C13_roundtrip_text_side (z : Zone) (h : ZoneTextOK z) :
    deserialise (serialise z)
      = insertBoth (Zone.new z.apex z.soa) (itemsRRs (bodyItems z)) (itemsWildRRs (bodyItems z)) :=
  deserialise_serialise_eq_reinsert z h

/-- the records re-inserted are those of `all_records` / `all_wildcard_records`: per owner block
    (owners in `Ord` order), the ordinary records that are not SOA-typed, then the wildcard ones. -/
theorem C13_block_records (z : Zone) (d : Name) :
    itemsRRs (blockItems z d)
      = ((recordsOf z.allRecords d).filter (fun zr => zr.rtype != RT_SOA)).map (fun zr => zr.toRR d) ∧
    itemsWildRRs (blockItems z d) = (recordsOf z.allWildcardRecords d).map (fun zr => zr.toRR d) := by
  have h1 : ∀ (l : List ZoneRecord) (hw : Bool) (rest : List Item),
      itemsRRs (l.map (Item.recLine d hw) ++ rest) = l.map (fun zr => zr.toRR d) ++ itemsRRs rest := by
    intro l hw rest
    induction l with
    | nil => rfl
    | cons x xs ih => simp [itemsRRs, ih]
  have h2 : ∀ (l : List ZoneRecord) (rest : List Item),
      itemsRRs (l.map (Item.wildLine d) ++ rest) = itemsRRs rest := by
    intro l rest
    induction l with
    | nil => rfl
    | cons x xs ih => simp [itemsRRs, ih]
  have h3 : ∀ (l : List ZoneRecord) (hw : Bool) (rest : List Item),
      itemsWildRRs (l.map (Item.recLine d hw) ++ rest) = itemsWildRRs rest := by
    intro l hw rest
    induction l with
    | nil => rfl
    | cons x xs ih => simp [itemsWildRRs, ih]
  have h4 : ∀ (l : List ZoneRecord) (rest : List Item),
      itemsWildRRs (l.map (Item.wildLine d) ++ rest) = l.map (fun zr => zr.toRR d) ++ itemsWildRRs rest := by
    intro l rest
    induction l with
    | nil => rfl
    | cons x xs ih => simp [itemsWildRRs, ih]
  unfold blockItems
  constructor
  · rw [List.append_assoc, h1, h2]; simp [itemsRRs]
  · rw [List.append_assoc, h3, h4]; simp [itemsWildRRs]

/-! ## zones: the tree side, and the round trip -/

/-- two zones with the same apex, the same SOA, and — owner by owner — the same records and the same
    wildcard records (`FlatRec z n zr`: `all_records()` lists record `zr` under owner `n`).  This is
    equality up to the order of the records of an owner, which is a hash-map order in the Rust. -/
def SameZone (z' z : Zone) : Prop :=
  z'.apex = z.apex ∧ z'.soa = z.soa ∧
  (∀ n zr, FlatRec z' n zr ↔ FlatRec z n zr) ∧ (∀ n zr, FlatWild z' n zr ↔ FlatWild z n zr)

/-- **Re-inserting everything a zone lists rebuilds it.**  For every zone built by `Zone::new` and any
    sequence of `insert` / `insert_wildcard` calls (`Zone.build`; the apex a name `from_labels`
    accepts) that holds no SOA-typed record besides its own SOA record (`OnlyOwnSoa`; such records
    are not written by `Zone::serialise`): the two insertion loops of `Zone::deserialise`, fed the
    ordinary and wildcard records `Zone::serialise` writes, succeed (no `NotSubdomainOfApex`, no
    panic) and give the same zone up to record order.  Uses the tree invariant `TreeRepr` of C02
    (Proofs/ZoneRepr.lean). -/
theorem C13_reinsert (apex : Name) (soa : Option SOA) (ops : List ZoneOp) (z : Zone) (hap : NameOK apex)
    (hb : Zone.build apex soa ops = some z) (hsoa : OnlyOwnSoa z) :
    ∃ z', insertBoth (Zone.new z.apex z.soa) (itemsRRs (bodyItems z)) (itemsWildRRs (bodyItems z)) = .ok z' ∧
      SameZone z' z := by
  obtain ⟨z', h1, h2, h3, h4, h5⟩ := reinsert_same apex soa ops z hap hb hsoa
  exact ⟨z', h1, h2, h3, h4, h5⟩

/-- **C13: writing a zone to text and reading it back changes nothing.**  For every zone `z` built
    through the insertion API (`Zone::new` + `insert` / `insert_wildcard`, hence also every zone
    obtained by parsing, which is built that way) such that
      * `ZoneTextOK z`: apex, owners and RDATA names are text names (ASCII labels without `.`), no
        ordinary owner's first label starts with `*` (the gap is open finding C13-K1), records fit
        the 17 non-SOA types with `u32` TTLs, a non-authoritative zone has the root as apex, and
      * `OnlyOwnSoa z`: no SOA-typed record besides the zone's own,
    `Zone::deserialise (Zone::serialise z)` is `Ok z'` with `z'` the same zone up to the order of the
    records of an owner: same apex, same SOA, same records, same wildcard records, same TTLs. -/
theorem C13_roundtrip (apex : Name) (soa : Option SOA) (ops : List ZoneOp) (z : Zone) (hap : NameOK apex)
    (hb : Zone.build apex soa ops = some z) (hok : ZoneTextOK z) (hsoa : OnlyOwnSoa z) :
    ∃ z', deserialise (serialise z) = .ok z' ∧ SameZone z' z := by
  obtain ⟨z', h1, h2⟩ := C13_reinsert apex soa ops z hap hb hsoa
  exact ⟨z', by rw [C13_roundtrip_text_side z hok]; exact h1, h2⟩

/-- normalising twice changes nothing more: the re-read zone is again the same zone (when it again
    satisfies the two conditions — which are properties of the record set only). -/
theorem C13_sameZone_trans {a b c : Zone} (h1 : SameZone a b) (h2 : SameZone b c) : SameZone a c :=
  ⟨h1.1.trans h2.1, h1.2.1.trans h2.2.1, fun n zr => (h1.2.2.1 n zr).trans (h2.2.2.1 n zr),
   fun n zr => (h1.2.2.2 n zr).trans (h2.2.2.2 n zr)⟩

/-! ## zones obtained by parsing: normalising a zone file twice changes nothing more

`C13_roundtrip` is stated for zones satisfying `ZoneTextOK` / `OnlyOwnSoa` / built through the
insertion API.  Here: EVERY zone that `Zone::deserialise` returns, for EVERY text, satisfies all of
these hypotheses except the `NoStar` clause (the gap of open finding C13-K1, which is genuinely
false for some parsed zones: `C13_K1_parsed_zone_breaks_roundtrip`).  Proofs/ZoneTextParsed.lean. -/

/-- `ZoneTextOK` without its `NoStar` clause. -/
abbrev ZoneTextOK' (z : Zone) : Prop := zp_ZoneTextOK z

theorem C13_zoneTextOK_split (z : Zone) :
    ZoneTextOK z ↔ ZoneTextOK' z ∧ ∀ p ∈ z.allRecords, NoStar p.1 :=
  zp_zoneTextOK_iff z

/-- **Every name the parser produces is a text name** (labels ASCII, no `.`, lower-case, ≤ 63 octets;
    well-formed): `parse_domain` rejects non-ASCII strings (so a `\DDD` escape ≥ 128 in a name is an
    error), and `from_dotted_string` splits at EVERY dot — an escaped `\.` included
    (`C11_K2_escaped_dot_splits_label`) — so no label of a parsed name holds a `.`.  `o` = the origin
    in force, itself a parsed name. -/
theorem C13_parsed_names_are_text {o : Option Name} (ho : ∀ on, o = some on → TextName on) {s : List Char} :
    (∀ n, parseDomain o s = .ok n → TextName n) ∧
    (∀ n, parseDomainOrWildcard o s = .ok (.normal n) → TextName n) ∧
    (∀ n, parseDomainOrWildcard o s = .ok (.wildcard n) → TextName n) :=
  ⟨fun _ h => zp_parseDomain_text ho h, fun _ h => zp_parseDomainOrWildcard_text ho h,
   fun _ h => zp_parseDomainOrWildcard_text ho h⟩

/-- **Every RDATA the parser builds fits its type**: one of the 17 non-SOA types with text names,
    in-range numbers, real addresses (`RdataOK`), or a SOA with text names and `u32` numbers. -/
theorem C13_parsed_rdata_ok {o : Option Name} (ho : ∀ on, o = some on → TextName on) {tokens : List Token}
    {rd : RData} (h : tryParseRtypeWithData o tokens = some rd) :
    RdataOK rd.rtype rd.fields ∨ (rd.rtype = 6 ∧ ∃ s : SOA, rd.fields = s.toFields ∧ SoaOK s) :=
  zp_tryParse_ok ho h

/-- **Every entry `parse_entry` returns is well formed**, for every text, fuel, origin / previous owner
    / previous TTL that are themselves well formed: owner a text name, TTL a `u32`, RDATA as above. -/
theorem C13_parsed_entry_ok (fuel : Nat) {o : Option Name} {pd : Option MaybeWildcard} {pt : Option Nat}
    {s : List Char} {e : Entry} {rest : List Char} (ho : zp_OriginOK o) (hpd : zp_PdOK pd) (hpt : zp_PtOK pt)
    (h : parseEntry fuel o pd pt s = .ok (some e) rest) : zp_EntryOK e :=
  zp_parseEntry_ok fuel ho hpd hpt h

/-- **Every zone obtained by parsing satisfies the hypotheses of `C13_roundtrip`, `NoStar` apart.**
    For every text `t` with `Zone::deserialise t = Ok z`:
      * `z` is built through the insertion API: `Zone::new(apex, soa)` + `insert` / `insert_wildcard`
        calls, `apex` a name `from_labels` accepts;
      * `OnlyOwnSoa z`: a second SOA is `MultipleSOA`, a wildcard SOA `WildcardSOA`, so the only
        SOA-typed record is the zone's own at the apex;
      * `ZoneTextOK' z`: apex, owners and RDATA names are text names; every record that is not the
        SOA fits one of the 17 non-SOA types; TTLs (raised to the SOA MINIMUM by `actual_ttl`) are
        `u32`; the SOA's names are text names and its numbers `u32`; a zone without SOA has the root
        as apex. -/
theorem C13_parsed_zone_hypotheses {t : List Char} {z : Zone} (h : deserialise t = .ok z) :
    (∃ apex soa ops, NameOK apex ∧ Zone.build apex soa ops = some z) ∧ OnlyOwnSoa z ∧ ZoneTextOK' z :=
  zp_parsed_props h

/-- **A parsed zone round-trips**, provided no ordinary owner's first label starts with `*` (the
    premise is exactly the gap of open finding C13-K1 and cannot be dropped:
    `C13_K1_parsed_zone_breaks_roundtrip`). -/
theorem C13_parsed_zone_roundtrips {t : List Char} {z : Zone} (h : deserialise t = .ok z)
    (hs : ∀ p ∈ z.allRecords, NoStar p.1) :
    ∃ z', deserialise (serialise z) = .ok z' ∧ SameZone z' z := by
  obtain ⟨⟨apex, soa, ops, hap, hb⟩, hsoa, hok⟩ := C13_parsed_zone_hypotheses h
  exact C13_roundtrip apex soa ops z hap hb ((C13_zoneTextOK_split z).mpr ⟨hok, hs⟩) hsoa

/-- the `NoStar` premise is a property of the record set: it passes along `SameZone` to any parsed
    zone (every owner a parsed zone lists holds at least one record). -/
theorem C13_noStar_of_sameZone {t' : List Char} {z' z : Zone} (h' : deserialise t' = .ok z')
    (hsz : SameZone z' z) (hs : ∀ p ∈ z.allRecords, NoStar p.1) : ∀ p ∈ z'.allRecords, NoStar p.1 := by
  intro p hp
  obtain ⟨n, zrs⟩ := p
  obtain ⟨zr, hzr⟩ := zp_parsed_allRecords_nonempty h' hp
  obtain ⟨zrs', hm, -⟩ := (hsz.2.2.1 n zr).mp ⟨zrs, hp, hzr⟩
  exact hs (n, zrs') hm

/-- **C13, idempotence of normalisation** (`ztoz ∘ ztoz = ztoz` up to record order): for every text
    `t` that parses to a zone `z` without a `*…` ordinary owner, writing `z` and reading it back
    gives `z'`, writing `z'` and reading it back gives `z''`, and all three are the same zone up to
    the order of the records of an owner.  (`z'` needs no premise of its own: it is itself a parsed
    zone, and `NoStar` passes along `SameZone`.) -/
theorem C13_normalise_idempotent {t : List Char} {z : Zone} (h : deserialise t = .ok z)
    (hs : ∀ p ∈ z.allRecords, NoStar p.1) :
    ∃ z' z'', deserialise (serialise z) = .ok z' ∧ deserialise (serialise z') = .ok z'' ∧
      SameZone z' z ∧ SameZone z'' z' ∧ SameZone z'' z := by
  obtain ⟨z', h1, hsz1⟩ := C13_parsed_zone_roundtrips h hs
  obtain ⟨z'', h2, hsz2⟩ := C13_parsed_zone_roundtrips h1 (C13_noStar_of_sameZone h1 hsz1 hs)
  exact ⟨z', z'', h1, h2, hsz1, hsz2, C13_sameZone_trans hsz2 hsz1⟩

/-- the same, for a given first re-read `z'`. -/
theorem C13_normalise_idempotent_given {t : List Char} {z z' : Zone} (h : deserialise t = .ok z)
    (hs : ∀ p ∈ z.allRecords, NoStar p.1) (h' : deserialise (serialise z) = .ok z') :
    (∀ p ∈ z'.allRecords, NoStar p.1) ∧ SameZone z' z ∧
    ∃ z'', deserialise (serialise z') = .ok z'' ∧ SameZone z'' z' ∧ SameZone z'' z := by
  obtain ⟨z1, z'', h1, h2, hsz1, hsz2, hsz3⟩ := C13_normalise_idempotent h hs
  rw [h'] at h1
  cases h1
  exact ⟨C13_noStar_of_sameZone h' hsz1 hs, hsz1, z'', h2, hsz2, hsz3⟩

/-- **when parsing succeeds**: as soon as the entry loop reaches the end of the text and every record
    lies under the apex (the SOA's owner, or the root) — the insertion loops never panic on what the
    parser hands them. -/
theorem C13_parse_succeeds {t : List Char} {st : DState}
    (hl : deserialiseLoop (t.length + 1) {} t = some (.ok st))
    (hsub : ∀ rr, rr ∈ st.rrs ∨ rr ∈ st.wildcardRrs → rr.name.isSubdomainOf st.apex = true) :
    ∃ z, deserialise t = .ok z :=
  zp_deserialise_of_loop hl hsub

/-! ### non-vacuity: a concrete file -/

/-- `$ORIGIN e.` / `@ IN SOA m r 1 2 3 4 5` / `w 9 IN A 1.2.3.4` / `*.x 7 IN TXT "a b"`. -/
def C13_exampleText : List Char :=
  ['$','O','R','I','G','I','N',' ','e','.','\n',
   '@',' ','I','N',' ','S','O','A',' ','m',' ','r',' ','1',' ','2',' ','3',' ','4',' ','5','\n',
   'w',' ','9',' ','I','N',' ','A',' ','1','.','2','.','3','.','4','\n',
   '*','.','x',' ','7',' ','I','N',' ','T','X','T',' ','"','a',' ','b','"','\n']

def C13_exampleSoa : SOA := ⟨⟨[[109], [101], []], 5⟩, ⟨[[114], [101], []], 5⟩, 1, 2, 3, 4, 5⟩

def C13_exampleState : DState :=
  { rrs := [{ name := ⟨[[119], [101], []], 5⟩, rtype := 1, fields := [.a 16909060], rclass := 1, ttl := 9 }],
    wildcardRrs := [{ name := ⟨[[120], [101], []], 5⟩, rtype := 16, fields := [.opaque [97, 32, 98]],
                      rclass := 1, ttl := 7 }],
    apexAndSoa := some (⟨[[101], []], 3⟩, C13_exampleSoa),
    origin := some ⟨[[101], []], 3⟩,
    previousDomain := some (.wildcard ⟨[[120], [101], []], 5⟩),
    previousTtl := some 7 }

def C13_exampleZone : Zone :=
  { apex := ⟨[[101], []], 3⟩, soa := some C13_exampleSoa,
    records := .mk ⟨[[101], []], 3⟩ [(6, [⟨6, C13_exampleSoa.toFields, 5⟩])] none
      [([119], .mk ⟨[[119], [101], []], 5⟩ [(1, [⟨1, [.a 16909060], 9⟩])] none []),
       ([120], .mk ⟨[[120], [101], []], 5⟩ [] (some [(16, [⟨16, [.opaque [97, 32, 98]], 7⟩])]) [])] }

set_option maxRecDepth 8000 in
theorem C13_example_loop :
    deserialiseLoop (C13_exampleText.length + 1) {} C13_exampleText = some (.ok C13_exampleState) := by rfl

/-- the concrete file parses, to the zone written out above. -/
theorem C13_example_parses : deserialise C13_exampleText = .ok C13_exampleZone := by
  rw [zp_deserialise_evalC C13_example_loop]; rfl

theorem C13_example_noStar : ∀ p ∈ C13_exampleZone.allRecords, NoStar p.1 := by
  have : C13_exampleZone.allRecords
      = [(⟨[[101], []], 3⟩, [⟨6, C13_exampleSoa.toFields, 5⟩]),
         (⟨[[119], [101], []], 5⟩, [⟨1, [.a 16909060], 9⟩])] := by rfl
  intro p hp
  rw [this] at hp
  simp only [List.mem_cons, List.not_mem_nil, or_false] at hp
  rcases hp with rfl | rfl <;> (intro l ls h; cases h; decide)

/-- the theorems applied to the concrete file: hypotheses, round trip, idempotence. -/
example :
    ((∃ apex soa ops, NameOK apex ∧ Zone.build apex soa ops = some C13_exampleZone) ∧
      OnlyOwnSoa C13_exampleZone ∧ ZoneTextOK' C13_exampleZone) ∧
    (∃ z', deserialise (serialise C13_exampleZone) = .ok z' ∧ SameZone z' C13_exampleZone) ∧
    (∃ z' z'', deserialise (serialise C13_exampleZone) = .ok z' ∧ deserialise (serialise z') = .ok z'' ∧
      SameZone z' C13_exampleZone ∧ SameZone z'' z' ∧ SameZone z'' C13_exampleZone) :=
  ⟨C13_parsed_zone_hypotheses C13_example_parses,
   C13_parsed_zone_roundtrips C13_example_parses C13_example_noStar,
   C13_normalise_idempotent C13_example_parses C13_example_noStar⟩

/-! ### the `NoStar` premise cannot be dropped (open finding C13-K1, at the zone level) -/

/-- `$ORIGIN *.e.` / `@ 9 IN A 1.2.3.4`. -/
def C13_K1_text : List Char :=
  ['$','O','R','I','G','I','N',' ','*','.','e','.','\n',
   '@',' ','9',' ','I','N',' ','A',' ','1','.','2','.','3','.','4','\n']

def C13_K1_state : DState :=
  { rrs := [{ name := ⟨[[42], [101], []], 5⟩, rtype := 1, fields := [.a 16909060], rclass := 1, ttl := 9 }],
    origin := some ⟨[[42], [101], []], 5⟩,
    previousDomain := some (.normal ⟨[[42], [101], []], 5⟩),
    previousTtl := some 9 }

/-- the zone the text parses to: the ORDINARY owner `*.e.` (labels `*`, `e`) holding one A record. -/
def C13_K1_zone : Zone :=
  { apex := Name.root, soa := none,
    records := .mk Name.root [] none
      [([101], .mk ⟨[[101], []], 3⟩ [] none
         [([42], .mk ⟨[[42], [101], []], 5⟩ [(1, [⟨1, [.a 16909060], 9⟩])] none [])])] }

/-- what comes back after one write / read: the WILDCARD beneath `e.`. -/
def C13_K1_zone' : Zone :=
  { apex := Name.root, soa := none,
    records := .mk Name.root [] none
      [([101], .mk ⟨[[101], []], 3⟩ [] (some [(1, [⟨1, [.a 16909060], 9⟩])]) [])] }

set_option maxRecDepth 8000 in
theorem C13_K1_loop : deserialiseLoop (C13_K1_text.length + 1) {} C13_K1_text = some (.ok C13_K1_state) := by rfl

set_option maxRecDepth 8000 in
/-- **Open finding C13-K1 at the zone level: the `NoStar` premise cannot be dropped.**  The text
    `$ORIGIN *.e.` + `@ 9 IN A 1.2.3.4` parses (so the zone satisfies every other hypothesis,
    `C13_parsed_zone_hypotheses`), its only owner `*.e.` violates `NoStar`, `Zone::serialise` writes
    it as `*.e. 9 IN A 1.2.3.4`, and reading that back SUCCEEDS with a DIFFERENT zone: the record has
    become a wildcard record beneath `e.` — `ztoz` is not idempotent on this file. -/
theorem C13_K1_parsed_zone_breaks_roundtrip :
    deserialise C13_K1_text = .ok C13_K1_zone ∧
    ¬ (∀ p ∈ C13_K1_zone.allRecords, NoStar p.1) ∧
    serialise C13_K1_zone
      = ['*','.','e','.',' ','9',' ','I','N',' ','A',' ','1','.','2','.','3','.','4','\n','\n'] ∧
    deserialise (serialise C13_K1_zone) = .ok C13_K1_zone' ∧
    ¬ SameZone C13_K1_zone' C13_K1_zone ∧
    ¬ ∃ z', deserialise (serialise C13_K1_zone) = .ok z' ∧ SameZone z' C13_K1_zone := by
  have hser : serialise C13_K1_zone
      = ['*','.','e','.',' ','9',' ','I','N',' ','A',' ','1','.','2','.','3','.','4','\n','\n'] := by rfl
  have hl' : deserialiseLoop ((serialise C13_K1_zone).length + 1) {} (serialise C13_K1_zone)
      = some (.ok { wildcardRrs := [{ name := ⟨[[101], []], 3⟩, rtype := 1, fields := [.a 16909060],
                                       rclass := 1, ttl := 9 }],
                    previousDomain := some (.wildcard ⟨[[101], []], 3⟩), previousTtl := some 9 }) := by
    rw [hser]; rfl
  have hback : deserialise (serialise C13_K1_zone) = .ok C13_K1_zone' := by
    rw [zp_deserialise_evalC hl']; rfl
  have hne : ¬ SameZone C13_K1_zone' C13_K1_zone := by
    intro hsz
    have hw : FlatWild C13_K1_zone' ⟨[[101], []], 3⟩ ⟨1, [.a 16909060], 9⟩ :=
      ⟨[⟨1, [.a 16909060], 9⟩], by
        have : C13_K1_zone'.allWildcardRecords = [(⟨[[101], []], 3⟩, [⟨1, [.a 16909060], 9⟩])] := by rfl
        rw [this]; simp, by simp⟩
    obtain ⟨zrs, hm, -⟩ := (hsz.2.2.2 _ _).mp hw
    have : C13_K1_zone.allWildcardRecords = [] := by rfl
    rw [this] at hm
    simp at hm
  refine ⟨by rw [zp_deserialise_evalC C13_K1_loop]; rfl, ?_, hser, hback, hne, ?_⟩
  · intro hs
    have hm : ((⟨[[42], [101], []], 5⟩, [⟨1, [.a 16909060], 9⟩]) : Name × List ZoneRecord)
        ∈ C13_K1_zone.allRecords := by
      have : C13_K1_zone.allRecords = [(⟨[[42], [101], []], 5⟩, [⟨1, [.a 16909060], 9⟩])] := by rfl
      rw [this]; simp
    exact hs _ hm [42] [[101], []] rfl (by decide)
  · rintro ⟨z', h1, hsz⟩
    rw [hback] at h1
    cases h1
    exact hne hsz

end Resolved
