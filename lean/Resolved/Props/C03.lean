/-
  C03 — The wire decoder accepts exactly the RFC 1035 grammar, reads it as the grammar says, and
  every error it reports carries the header ID of the message being decoded.
  Property theorems only; helper lemmas live in Proofs/WireDecodeLemmas.lean, the declarative
  grammar (`WireName`, `WireNameDepth`, `NameWF`) in Spec/Wire.lean.
-/
import Resolved.Proofs.WireDecodeLemmas

namespace Resolved

open Gen

/-! ## 1. Error IDs -/

/-- A buffer shorter than the two ID octets is the only `CompletelyBusted` input … -/
theorem C03_short_is_busted (buf : List UInt8) (h : buf.length < 2) :
    decodeMessage buf = .error .completelyBusted := by
  unfold decodeMessage
  have : nextU16 buf 0 = none := by
    unfold nextU16; rw [dif_neg (by omega)]
  rw [this]

/-- … and every other decoding error carries the header ID, which is the big-endian value of the
    first two octets of the buffer. -/
theorem C03_id_on_error (buf : List UInt8) (e : DErr) (h : decodeMessage buf = .error e)
    (h2 : 2 ≤ buf.length) :
    e.id = some ((buf[0]'(by omega)).toNat * 256 + (buf[1]'(by omega)).toNat) := by
  have hid : nextU16 buf 0 =
      some ((buf[0]'(by omega)).toNat * 256 + (buf[1]'(by omega)).toNat, 2) := by
    unfold nextU16; rw [dif_pos (by omega)]
  exact decodeMessage_err_id_aux hid h

/-- Conversely an error without an ID can only come from a buffer of fewer than two octets. -/
theorem C03_no_id_iff_short (buf : List UInt8) (e : DErr) (h : decodeMessage buf = .error e) :
    e.id = none ↔ buf.length < 2 := by
  constructor
  · intro hnone
    apply Classical.byContradiction
    intro hlen
    have := C03_id_on_error buf e h (by omega)
    rw [hnone] at this
    cases this
  · intro hlen
    rw [C03_short_is_busted buf hlen] at h
    cases h
    rfl

/-- The component decoders only ever fail with the ID they were handed. -/
theorem C03_component_error_ids (id : Nat) (buf : List UInt8) (pos : Nat) (e : DErr) :
    (decodeName id buf pos = .error e → e.id = some id) ∧
    (decodeQuestion id buf pos = .error e → e.id = some id) ∧
    (decodeRR id buf pos = .error e → e.id = some id) :=
  ⟨decodeName_err_id, decodeQuestion_err_id, decodeRR_err_id⟩

/-- … including the name loop in any loop state (start offset, accumulated length and labels) … -/
theorem C03_nameLoop_error_id (id : Nat) (buf : List UInt8) (start pos len : Nat)
    (labels : List Label) (e : DErr)
    (h : decodeNameLoop id buf start pos len labels = .error e) : e.id = some id :=
  decodeNameLoop_err_id id buf start pos len labels e h

/-- … the RDATA field decoders … -/
theorem C03_fields_error_id (id : Nat) (buf : List UInt8) (rdlength : Nat) (fs : List Field)
    (pos : Nat) (e : DErr) (h : decodeFields id buf rdlength fs pos = .error e) :
    e.id = some id :=
  decodeFields_err_id fs h

/-- … and whole sections. -/
theorem C03_section_error_id (id : Nat) (buf : List UInt8) (k pos : Nat) (e : DErr) :
    (decodeMany (decodeQuestion id buf) k pos = .error e → e.id = some id) ∧
    (decodeMany (decodeRR id buf) k pos = .error e → e.id = some id) :=
  ⟨decodeMany_err_id (fun _ _ => decodeQuestion_err_id) k,
   decodeMany_err_id (fun _ _ => decodeRR_err_id) k⟩

/-! ## 2. Positions, section lengths, RDLENGTH -/

/-- A successfully decoded name, question or record consumes at least one octet and ends inside
    the buffer. -/
theorem C03_positions_advance (id : Nat) (buf : List UInt8) (pos e : Nat) :
    (∀ n, decodeName id buf pos = .ok (n, e) → pos < e ∧ e ≤ buf.length) ∧
    (∀ q, decodeQuestion id buf pos = .ok (q, e) → pos < e ∧ e ≤ buf.length) ∧
    (∀ rr, decodeRR id buf pos = .ok (rr, e) → pos < e ∧ e ≤ buf.length) :=
  ⟨fun _ => decodeName_bounds, fun _ => decodeQuestion_bounds, fun _ => decodeRR_bounds⟩

/-- A section decoded with count `k` has exactly `k` entries, whatever the item decoder. -/
theorem C03_many_length {α : Type} (dec : Nat → Except DErr (α × Nat)) (k pos : Nat) (xs : List α)
    (e : Nat) (h : decodeMany dec k pos = .ok (xs, e)) : xs.length = k :=
  decodeMany_length k h

/-- A question section / record section of count `k` starting inside the buffer consumes at least
    `k` octets and ends inside the buffer. -/
theorem C03_section_positions (id : Nat) (buf : List UInt8) (k pos e : Nat) (hpos : pos ≤ buf.length) :
    (∀ qs, decodeMany (decodeQuestion id buf) k pos = .ok (qs, e) → pos + k ≤ e ∧ e ≤ buf.length) ∧
    (∀ rs, decodeMany (decodeRR id buf) k pos = .ok (rs, e) → pos + k ≤ e ∧ e ≤ buf.length) := by
  constructor
  · intro qs h
    have := decodeMany_bounds (N := buf.length) (fun _ _ _ => decodeQuestion_bounds) k h
    exact ⟨this.1, this.2 hpos⟩
  · intro rs h
    have := decodeMany_bounds (N := buf.length) (fun _ _ _ => decodeRR_bounds) k h
    exact ⟨this.1, this.2 hpos⟩

/-- In a decoded message the four sections are exactly as long as the big-endian counts at
    offsets 4, 6, 8 and 10 of the header say, the header ID is the first two octets, and the
    buffer holds at least the 12 header octets. -/
theorem C03_section_counts (buf : List UInt8) (m : Message) (h : decodeMessage buf = .ok m) :
    12 ≤ buf.length ∧
    nextU16 buf 0 = some (m.header.id, 2) ∧
    nextU16 buf 4 = some (m.questions.length, 6) ∧
    nextU16 buf 6 = some (m.answers.length, 8) ∧
    nextU16 buf 8 = some (m.authority.length, 10) ∧
    nextU16 buf 10 = some (m.additional.length, 12) := by
  obtain ⟨id, f1, f2, qd, an, ns, ar, p8, p9, p10, p11, h1, _, _, h4, h5, h6, h7, hh, h8, h9, h10,
    h11⟩ := decodeMessage_ok h
  rw [decodeMany_length _ h8, decodeMany_length _ h9, decodeMany_length _ h10,
    decodeMany_length _ h11, hh]
  obtain ⟨hlt, _, _⟩ := nextU16_some h7
  exact ⟨by omega, h1, h4, h5, h6, h7⟩

/-- A successfully decoded record is NAME, TYPE, CLASS, TTL, RDLENGTH (big-endian, in that order)
    followed by RDATA fields laid out as the type's layout says, and the RDATA fields consumed
    exactly RDLENGTH octets: the record ends at `RDLENGTH-offset + 2 + RDLENGTH`. -/
theorem C03_rdlength_exact (id : Nat) (buf : List UInt8) (pos : Nat) (rr : RR) (e : Nat)
    (h : decodeRR id buf pos = .ok (rr, e)) :
    ∃ p1 rdlength,
      decodeName id buf pos = .ok (rr.name, p1) ∧
      nextU16 buf p1 = some (rr.rtype, p1 + 2) ∧
      nextU16 buf (p1 + 2) = some (rr.rclass, p1 + 4) ∧
      nextU32 buf (p1 + 4) = some (rr.ttl, p1 + 8) ∧
      nextU16 buf (p1 + 8) = some (rdlength, p1 + 8 + 2) ∧
      decodeFields id buf rdlength (decodeLayoutOf rr.rtype) (p1 + 8 + 2) = .ok (rr.fields, e) ∧
      e = p1 + 8 + 2 + rdlength ∧ e ≤ buf.length := by
  obtain ⟨p1, rdlength, h1, h2, h3, h4, h5, h6, h7⟩ := decodeRR_ok h
  exact ⟨p1, rdlength, h1, h2, h3, h4, h5, h6, h7, (decodeRR_bounds h).2⟩

/-- A successfully decoded question is NAME, QTYPE, QCLASS and nothing more. -/
theorem C03_question_layout (id : Nat) (buf : List UInt8) (pos : Nat) (q : Question) (e : Nat)
    (h : decodeQuestion id buf pos = .ok (q, e)) :
    ∃ p1, decodeName id buf pos = .ok (q.name, p1) ∧
      nextU16 buf p1 = some (q.qtype, p1 + 2) ∧
      nextU16 buf (p1 + 2) = some (q.qclass, p1 + 4) ∧ e = p1 + 4 :=
  decodeQuestion_ok h

/-! ## 3. Soundness of the name decoder against the grammar -/

/-- Whatever the loop accepts is a grammatical name: the labels and length it adds to its
    accumulators are those of a `WireName` standing at `pos`, and the total is within 255. -/
theorem C03_name_sound (id : Nat) (buf : List UInt8) (start pos len : Nat) (labels : List Label)
    (n : Name) (e : Nat) (h : decodeNameLoop id buf start pos len labels = .ok (n, e)) :
    ∃ ls l, WireName buf start pos ls l e ∧ n.labels = labels ++ ls ∧ n.len = len + l ∧
      n.len ≤ 255 :=
  decodeNameLoop_sound id buf start pos len labels n e h

/-- `decodeName` returns the labels, the length and the end position the grammar assigns. -/
theorem C03_decodeName_sound (id : Nat) (buf : List UInt8) (pos : Nat) (n : Name) (e : Nat)
    (h : decodeName id buf pos = .ok (n, e)) :
    WireName buf pos pos n.labels n.len e ∧ n.len ≤ 255 :=
  decodeName_sound h

/-! ## 4. Decoded names are well-formed -/

/-- Every name of the grammar has the `from_labels` shape (non-empty, ends in the root label, no
    other empty label), lower-cased labels of at most 63 octets, and `len` = encoded length. -/
theorem C03_wirename_wf (buf : List UInt8) (s p : Nat) (ls : List Label) (l e : Nat)
    (h : WireName buf s p ls l e) :
    LabelsShape ls ∧ (∀ x ∈ ls, LabelOK x) ∧ l = ls.length + sumLen ls :=
  h.wf

/-- Names that come off the wire are well-formed. -/
theorem C03_name_wf (id : Nat) (buf : List UInt8) (pos : Nat) (n : Name) (e : Nat)
    (h : decodeName id buf pos = .ok (n, e)) : NameWF n := by
  obtain ⟨hw, hle⟩ := decodeName_sound h
  obtain ⟨h1, h2, h3⟩ := hw.wf
  exact ⟨h1, h2, h3, by rw [dml]; exact hle⟩

/-- Every name field inside decoded RDATA is well-formed too. -/
theorem C03_field_name_wf (id : Nat) (buf : List UInt8) (rdlength : Nat) (f : Field) (pos : Nat)
    (n : Name) (e : Nat) (h : decodeField id buf rdlength f pos = .ok (.name n, e)) : NameWF n := by
  cases f with
  | name c =>
    obtain ⟨⟨n', p⟩, hx, hv⟩ := Except_map_ok h
    cases hv
    exact C03_name_wf id buf pos _ _ hx
  | u16 => obtain ⟨⟨n', p⟩, _, hv⟩ := Except_map_ok h; cases hv
  | u32 => obtain ⟨⟨n', p⟩, _, hv⟩ := Except_map_ok h; cases hv
  | a => obtain ⟨⟨n', p⟩, _, hv⟩ := Except_map_ok h; cases hv
  | aaaa => obtain ⟨⟨n', p⟩, _, hv⟩ := Except_map_ok h; cases hv
  | «opaque» => obtain ⟨⟨n', p⟩, _, hv⟩ := Except_map_ok h; cases hv

/-- All owner names of a decoded message (question names and record names of the three record
    sections) are well-formed. -/
theorem C03_message_names_wf (buf : List UInt8) (m : Message) (h : decodeMessage buf = .ok m) :
    (∀ q ∈ m.questions, NameWF q.name) ∧ (∀ r ∈ m.answers, NameWF r.name) ∧
    (∀ r ∈ m.authority, NameWF r.name) ∧ (∀ r ∈ m.additional, NameWF r.name) := by
  obtain ⟨id, f1, f2, qd, an, ns, ar, p8, p9, p10, p11, _, _, _, _, _, _, _, _, h8, h9, h10,
    h11⟩ := decodeMessage_ok h
  have hrr : ∀ {k p} {rs : List RR} {e}, decodeMany (decodeRR id buf) k p = .ok (rs, e) →
      ∀ r ∈ rs, NameWF r.name := by
    intro k p rs e hm r hr
    obtain ⟨p0, p', hd⟩ := decodeMany_mem k hm r hr
    obtain ⟨p1, _, hn, _⟩ := decodeRR_ok hd
    exact C03_name_wf id buf p0 r.name p1 hn
  refine ⟨?_, hrr h9, hrr h10, hrr h11⟩
  intro q hq
  obtain ⟨p0, p', hd⟩ := decodeMany_mem qd h8 q hq
  obtain ⟨p1, hn, _⟩ := decodeQuestion_ok hd
  exact C03_name_wf id buf p0 q.name p1 hn

/-! ## 5. Completeness: the decoder accepts every grammatical name within the length limit -/

/-- Every `WireName` whose length keeps the accumulated total within 255 is accepted, with the
    labels, length and end position the grammar assigns. -/
theorem C03_name_complete (id : Nat) (buf : List UInt8) (start pos : Nat) (ls : List Label)
    (l e len : Nat) (labels : List Label) (h : WireName buf start pos ls l e)
    (hle : len + l ≤ 255) :
    decodeNameLoop id buf start pos len labels = .ok (⟨labels ++ ls, len + l⟩, e) :=
  decodeNameLoop_complete id h len labels hle

/-- "Accepts exactly": `decodeName` succeeds with `(n, e)` iff the grammar puts the name `n`
    (labels and length) at `pos`, ending at `e`, and the name is at most 255 octets long. -/
theorem C03_decodeName_iff (id : Nat) (buf : List UInt8) (pos : Nat) (n : Name) (e : Nat) :
    decodeName id buf pos = .ok (n, e) ↔ WireName buf pos pos n.labels n.len e ∧ n.len ≤ 255 := by
  constructor
  · exact decodeName_sound
  · intro ⟨hw, hle⟩
    have := decodeNameLoop_complete id hw 0 [] (by omega)
    rw [List.nil_append, Nat.zero_add] at this
    exact this

/-- A rejected name is not in the grammar (within the 255-octet limit): rejection is never
    spurious. -/
theorem C03_decodeName_rejects (id : Nat) (buf : List UInt8) (pos : Nat) (err : DErr)
    (h : decodeName id buf pos = .error err) :
    ¬ ∃ ls l e, WireName buf pos pos ls l e ∧ l ≤ 255 := by
  intro ⟨ls, l, e, hw, hle⟩
  have := decodeNameLoop_complete id hw 0 [] (by omega)
  unfold decodeName at h
  rw [this] at h
  cases h

/-- Whether and what a name decodes to does not depend on the header ID (the ID only labels
    errors). -/
theorem C03_decodeName_id_irrelevant (id id' : Nat) (buf : List UInt8) (pos : Nat) (n : Name)
    (e : Nat) (h : decodeName id buf pos = .ok (n, e)) : decodeName id' buf pos = .ok (n, e) :=
  (C03_decodeName_iff id' buf pos n e).mpr ((C03_decodeName_iff id buf pos n e).mp h)

/-- "Accepts exactly", question level: a question decodes to `(q, e)` iff NAME, QTYPE, QCLASS
    stand at `pos` in that order and `e` is the offset after QCLASS. -/
theorem C03_question_iff (id : Nat) (buf : List UInt8) (pos : Nat) (q : Question) (e : Nat) :
    decodeQuestion id buf pos = .ok (q, e) ↔
      ∃ p1, decodeName id buf pos = .ok (q.name, p1) ∧
        nextU16 buf p1 = some (q.qtype, p1 + 2) ∧
        nextU16 buf (p1 + 2) = some (q.qclass, p1 + 4) ∧ e = p1 + 4 :=
  ⟨decodeQuestion_ok, fun ⟨_, hn, h2, h3, he⟩ => decodeQuestion_of hn h2 h3 he⟩

/-- "Accepts exactly", record level: a record decodes to `(rr, e)` iff NAME TYPE CLASS TTL RDLENGTH
    stand at `pos`, the RDATA fields of the type's layout decode from there, and they end exactly
    RDLENGTH octets after the RDLENGTH field. -/
theorem C03_rr_iff (id : Nat) (buf : List UInt8) (pos : Nat) (rr : RR) (e : Nat) :
    decodeRR id buf pos = .ok (rr, e) ↔
      ∃ p1 rdlength,
        decodeName id buf pos = .ok (rr.name, p1) ∧
        nextU16 buf p1 = some (rr.rtype, p1 + 2) ∧
        nextU16 buf (p1 + 2) = some (rr.rclass, p1 + 4) ∧
        nextU32 buf (p1 + 4) = some (rr.ttl, p1 + 8) ∧
        nextU16 buf (p1 + 8) = some (rdlength, p1 + 10) ∧
        decodeFields id buf rdlength (decodeLayoutOf rr.rtype) (p1 + 10) = .ok (rr.fields, e) ∧
        e = p1 + 10 + rdlength :=
  ⟨decodeRR_ok, fun ⟨_, _, hn, h2, h3, h4, h5, hf, he⟩ => decodeRR_of hn h2 h3 h4 h5 hf he⟩

/-- "Accepts exactly", message level: a buffer decodes to `m` iff it starts with the 12-octet
    header (ID, two flag octets, four big-endian counts) and the four sections follow back to back,
    each decoded with its count. -/
theorem C03_message_iff (buf : List UInt8) (m : Message) :
    decodeMessage buf = .ok m ↔
      ∃ id f1 f2 qd an ns ar p8 p9 p10 p11,
        nextU16 buf 0 = some (id, 2) ∧ nextU8 buf 2 = some (f1, 3) ∧ nextU8 buf 3 = some (f2, 4) ∧
        nextU16 buf 4 = some (qd, 6) ∧ nextU16 buf 6 = some (an, 8) ∧
        nextU16 buf 8 = some (ns, 10) ∧ nextU16 buf 10 = some (ar, 12) ∧
        m.header = decodeFlags id f1 f2 ∧
        decodeMany (decodeQuestion id buf) qd 12 = .ok (m.questions, p8) ∧
        decodeMany (decodeRR id buf) an p8 = .ok (m.answers, p9) ∧
        decodeMany (decodeRR id buf) ns p9 = .ok (m.authority, p10) ∧
        decodeMany (decodeRR id buf) ar p10 = .ok (m.additional, p11) :=
  ⟨decodeMessage_ok, fun ⟨_, _, _, _, _, _, _, _, _, _, _, h1, h2, h3, h4, h5, h6, h7, hh, h8, h9,
    h10, h11⟩ => decodeMessage_of h1 h2 h3 h4 h5 h6 h7 hh h8 h9 h10 h11⟩

/-! ## 6. Pointer nesting depth -/

/-- Each pointer target is strictly before the start of the name containing the pointer, so the
    nesting depth of pointer expansion is at most the start offset … -/
theorem C03_pointer_depth (buf : List UInt8) (start pos d : Nat)
    (h : WireNameDepth buf start pos d) : d ≤ start :=
  h.le_start

/-- … and a pointer target is a 14-bit offset. -/
theorem C03_pointer_14bit (b lo : UInt8) : (b.toNat % 64) * 256 + lo.toNat < 16384 :=
  ptr_lt_16384 b lo

/-- Every successful run of the name decoder has a pointer-nesting depth (which by
    `C03_pointer_depth` is at most `start`). -/
theorem C03_decoder_depth (id : Nat) (buf : List UInt8) (start pos len : Nat) (labels : List Label)
    (n : Name) (e : Nat) (h : decodeNameLoop id buf start pos len labels = .ok (n, e)) :
    ∃ d, WireNameDepth buf start pos d ∧ d ≤ start := by
  obtain ⟨ls, l, hw, _⟩ := decodeNameLoop_sound id buf start pos len labels n e h
  obtain ⟨d, hd⟩ := hw.depth
  exact ⟨d, hd, hd.le_start⟩

/-! ## 7. The grammar is deterministic -/

/-- At a given offset (and start bound) the grammar assigns at most one name, length and end
    position, so any decoder that follows RFC 1035 §4.1.4 must read what this one reads. -/
theorem C03_name_functional (buf : List UInt8) (s p : Nat) (ls ls' : List Label) (l l' e e' : Nat)
    (h : WireName buf s p ls l e) (h' : WireName buf s p ls' l' e') :
    ls = ls' ∧ l = l' ∧ e = e' :=
  h.functional h'


/-! ## Non-vacuity: concrete buffers

  `decodeNameLoop` is defined by well-founded recursion, which the kernel does not unfold, so the
  decoder examples are closed by `simp` with the defining equations (or by the completeness
  theorem) rather than by `decide`; the grammar examples are explicit derivations. -/

/-- group 1: one octet is `CompletelyBusted` (no ID) … -/
example : decodeMessage [(0x12 : UInt8)] = .error .completelyBusted :=
  C03_short_is_busted _ (by decide)

/-- … a truncated header reports the ID 0x1234 = 4660 … -/
example : decodeMessage [(0x12 : UInt8), 0x34, 0] = .error (.headerTooShort 4660) := by
  simp [decodeMessage, nextU16, nextU8]

/-- … and so does a name error deep inside the question section (label of 3 octets, 1 present). -/
example : decodeMessage [(0x12 : UInt8), 0x34, 1, 0, 0, 1, 0, 0, 0, 0, 0, 0, 3, 97] =
    .error (.domainTooShort 4660) := by
  simp [decodeMessage, nextU16, nextU8, decodeMany, decodeQuestion, decodeName, decodeNameLoop, lml]

/-- group 1: the hypothesis and conclusion of `C03_id_on_error` are met together. -/
example : (DErr.domainTooShort 4660).id = some ((0x12 : UInt8).toNat * 256 + (0x34 : UInt8).toNat) := by
  decide

/-- groups 3/5/7: "A." at offset 0 is the name `a.` (lower-cased), 3 octets, ending at 3 … -/
example : WireName [(1 : UInt8), 65, 0, 1, 66, 192, 0] 0 0 [[97], []] 3 3 :=
  WireName.label (sz := 1) (by decide) (by decide) (by decide) (by decide) (WireName.root (by decide))

/-- … and at offset 3 stands "B" followed by a pointer to offset 0: the name `b.a.`, 5 octets,
    whose in-place encoding ends at 7. -/
example : WireName [(1 : UInt8), 65, 0, 1, 66, 192, 0] 3 3 [[98], [97], []] 5 7 :=
  WireName.label (sz := 1) (by decide) (by decide) (by decide) (by decide)
    (WireName.ptr (b := 192) (lo := 0) (by decide) (by decide) (by decide) (by decide)
      (WireName.label (sz := 1) (by decide) (by decide) (by decide) (by decide)
        (WireName.root (by decide))))

/-- groups 3/5: the decoder reads exactly that (via the completeness theorem) … -/
example : decodeName 7 [(1 : UInt8), 65, 0, 1, 66, 192, 0] 3 = .ok (⟨[[98], [97], []], 5⟩, 7) :=
  (C03_decodeName_iff 7 _ 3 ⟨[[98], [97], []], 5⟩ 7).mpr
    ⟨WireName.label (sz := 1) (by decide) (by decide) (by decide) (by decide)
      (WireName.ptr (b := 192) (lo := 0) (by decide) (by decide) (by decide) (by decide)
        (WireName.label (sz := 1) (by decide) (by decide) (by decide) (by decide)
          (WireName.root (by decide)))), by decide⟩

/-- … and directly from the defining equations. -/
example : decodeName 7 [(1 : UInt8), 65, 0, 1, 66, 192, 0] 3 = .ok (⟨[[98], [97], []], 5⟩, 7) := by
  simp [decodeName, decodeNameLoop, finishName, lml, dml, lowerByte]

/-- group 4: the decoded name is well-formed (instance of `C03_name_wf`, checked independently). -/
example : NameWF ⟨[[98], [97], []], 5⟩ := by
  refine ⟨by decide, ?_, by decide, by decide⟩
  intro l hl
  simp only [List.mem_cons, List.not_mem_nil, or_false] at hl
  rcases hl with rfl | rfl | rfl <;> exact ⟨by decide, by decide⟩

/-- group 6: that derivation has pointer depth 1 ≤ start = 3. -/
example : WireNameDepth [(1 : UInt8), 65, 0, 1, 66, 192, 0] 3 3 1 :=
  WireNameDepth.label (sz := 1) (by decide) (by decide) (by decide)
    (WireNameDepth.ptr (b := 192) (lo := 0) (by decide) (by decide) (by decide) (by decide)
      (WireNameDepth.label (sz := 1) (by decide) (by decide) (by decide)
        (WireNameDepth.root (by decide))))

/-- groups 3/6: a pointer to itself (or forwards) is rejected, not followed. -/
example : decodeName 7 [(192 : UInt8), 0] 0 = .error (.domainPointerInvalid 7) := by
  simp [decodeName, decodeNameLoop, lml]

/-- group 3: octets 64..191 are not a label length. -/
example : decodeName 7 [(64 : UInt8), 0] 0 = .error (.domainLabelInvalid 7) := by
  simp [decodeName, decodeNameLoop, lml]

/-- group 2: a whole response (ID 0x1234, QR RD RA, one question `A. IN A`, one answer whose name
    is a pointer to offset 12, TTL 60, RDLENGTH 4, address 10.0.0.1) decodes to one question and
    one answer, as the counts say. -/
example : decodeMessage
    [(0x12 : UInt8), 0x34, 0x81, 0x80, 0, 1, 0, 1, 0, 0, 0, 0,
     1, 65, 0, 0, 1, 0, 1,
     192, 12, 0, 1, 0, 1, 0, 0, 0, 60, 0, 4, 10, 0, 0, 1] =
    .ok { header := { id := 4660, isResponse := true, opcode := 0, isAuthoritative := false,
                      isTruncated := false, recursionDesired := true, recursionAvailable := true,
                      rcode := 0 }
          questions := [{ name := ⟨[[97], []], 3⟩, qtype := 1, qclass := 1 }]
          answers := [{ name := ⟨[[97], []], 3⟩, rtype := 1, fields := [.a 167772161],
                        rclass := 1, ttl := 60 }]
          authority := [], additional := [] } := by
  simp [decodeMessage, nextU16, nextU8, nextU32, decodeMany, decodeQuestion, decodeRR, decodeName,
    decodeNameLoop, finishName, lml, dml, lowerByte, decodeFields, decodeField, decodeLayoutOf,
    rtypeVariant, lookupNat, lookupStr, recordTypeFromU16, rdataDecodeLayout, orRRShort, Except.map,
    decodeFlags, testBit, opcodeFromU8, rcodeFromU8, HEADER_MASK_QR, HEADER_MASK_OPCODE,
    HEADER_OFFSET_OPCODE, HEADER_MASK_AA, HEADER_MASK_TC, HEADER_MASK_RD, HEADER_MASK_RA,
    HEADER_MASK_RCODE, HEADER_OFFSET_RCODE, opcodeMask, rcodeMask]

/-- group 2 (`C03_rdlength_exact`): the same record with RDLENGTH 5 (one octet more than an
    address occupies) is rejected even though the octet is there. -/
example : decodeRR 4660
    [(1 : UInt8), 65, 0, 0, 1, 0, 1, 0, 0, 0, 60, 0, 5, 10, 0, 0, 1, 0] 0 =
    .error (.resourceRecordInvalid 4660) := by
  simp [nextU16, nextU32, decodeRR, decodeName, decodeNameLoop, finishName, lml, dml, lowerByte,
    decodeFields, decodeField, decodeLayoutOf, rtypeVariant, lookupNat, lookupStr,
    recordTypeFromU16, rdataDecodeLayout, orRRShort, Except.map]

end Resolved
