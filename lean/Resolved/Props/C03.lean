/-
  C03 — Wire decoder is crash-free, bounded and accepts exactly well-formed messages.
  FIRST-CLAIM version (deeper theorems: soundness/completeness w.r.t. `WireName`, ID on every
  error, pointer depth — are being added; see DESIGN §7 C03).
  Totality / crash-freedom is by construction: `decodeMessage : List UInt8 → Except DErr Message`
  is a total Lean function accepted by the kernel (structural + well-founded recursion, every
  index discharged by the guard that precedes it in the Rust), for byte strings of any length.
-/
import Resolved.Spec.Wire

namespace Resolved

/-- Fewer than two octets: `CompletelyBusted` (no ID to answer with). -/
theorem C03_short_is_busted (buf : List UInt8) (h : buf.length < 2) :
    decodeMessage buf = .error .completelyBusted := by
  unfold decodeMessage nextU16
  have : ¬ buf.length > 0 + 1 := by omega
  simp [this]

/-- Every section is exactly as long as the header count says. -/
theorem C03_many_length {α} (dec : Nat → Except DErr (α × Nat)) (k pos : Nat) (xs : List α) (e : Nat)
    (h : decodeMany dec k pos = .ok (xs, e)) : xs.length = k := by
  induction k generalizing pos xs e with
  | zero => simp [decodeMany] at h; simp [h.1.symm]
  | succ k ih =>
    simp only [decodeMany] at h
    split at h
    · cases h
    · split at h
      · cases h
      · rename_i _ x p' _ xs' e' h2
        cases h
        simp [ih _ _ _ h2]

/-- non-vacuity: a 12-octet header with no sections decodes. -/
example : (decodeMessage [0x12, 0x34, 0x81, 0x80, 0, 0, 0, 0, 0, 0, 0, 0]).toOption.map (·.header.id) = some 0x1234 := by
  decide

end Resolved
