/-
  C08 — Every resolution terminates in bounded time whatever upstream servers do.

  The recursive and forwarding machines are total Lean functions over an ARBITRARY oracle
  (`Exchange → Attempt`): whatever upstream does — silence, lateness, garbage, mismatches,
  circular referrals, alias loops — they return a value (an answer or an error; there is no
  panic constructor in their result type).  Proved here for every oracle, zones, cache, question:
  * time: the virtual clock of a resolution never passes the 60 s budget, each logged transport
    attempt accounts for at most 5 s, the clock and the log only grow, nothing is sent after the
    deadline, a timed-out run yields `Timeout`, and an answer is only returned strictly before
    the deadline (`C08_time_budget`, `C08_exchange_cost`, `C08_log_monotone`,
    `C08_no_exchange_after_timeout`, `C08_timeout_result`, `C08_answer_before_deadline`);
  * provenance: every record of an `ok` result (answer records and the SOA alike) occurs in the
    oracle's reply to an exchange of the final log, or was returned by a local lookup
    (`resolveLocal`: zones + cache) on a state the machine reaches — whose zones are the initial
    ones and into whose cache only records of logged replies were inserted
    (`C08_provenance`, `C08_provenance_forwarding`; `C08_provenance_generic` is the same for any
    source predicate that `resolveLocal` is shown to respect);
  * fuel (the model's stand-in for the unbounded async recursion of the Rust): NOT everything
    wanted is true of the model — see the section "Fuel" at the end: the plain fuel-monotonicity
    statement and the unconditional "REC_FUEL always suffices" are both FALSE for the model
    (counterexamples given); what is proved is fuel-independence under the ghost condition
    `okRec` ("no call of the call tree ran with fuel 0"): `C08_fuel_monotone`,
    `C08_fuel_independent`, `C08_fuel_ok_no_outOfFuel`, and the iteration bound of the candidate
    loop `C08_loop_iteration_bound`; and, under explicit size bounds (at most `H` name-server
    hosts per delegation, names of at most `L` labels, in zones, cache and upstream replies), the
    closed statement that `FUEL_BOUND H L = 32·((L+1)(2H+2)+3)+1` units of fuel suffice
    (`C08_fuel_suffices_bounded`), hence that the fuel given by `resolve` suffices whenever
    `FUEL_BOUND H L ≤ REC_FUEL` (`C08_resolve_fuel_suffices`; numeric instances at the end).
-/
import Resolved.Model.Resolver
import Resolved.Proofs.ResolverMachineInv
import Resolved.Proofs.ResolverMachineSrc
import Resolved.Proofs.ResolverMachineFuel
import Resolved.Proofs.ResolverMachineLoop
import Resolved.Proofs.ResolverMachineExample
import Resolved.Proofs.ResolverFuelBound
import Resolved.Proofs.C08Attempts

namespace Resolved

open Gen

set_option autoImplicit false

/-- One transport attempt costs at most its 5 s timeout and never pushes the clock past the 60 s
    budget; the exchange log grows by at most this one exchange. -/
theorem C08_attempt_time (oracle : Oracle) (run : Run) (ex : Exchange)
    (h : run.elapsedMs ≤ RESOLVE_TIMEOUT_MS) :
    (attempt oracle run ex).1.elapsedMs ≤ RESOLVE_TIMEOUT_MS ∧
    (attempt oracle run ex).1.elapsedMs ≤ run.elapsedMs + EXCHANGE_TIMEOUT_MS ∧
    run.elapsedMs ≤ (attempt oracle run ex).1.elapsedMs :=
  attempt_time oracle run ex h

/-- A reply that arrives at or after the 5 s timeout is never used. -/
theorem C08_late_reply_dropped (oracle : Oracle) (run : Run) (ex : Exchange)
    (h : (oracle ex).delayMs ≥ EXCHANGE_TIMEOUT_MS) : (attempt oracle run ex).2 = none := by
  unfold attempt
  split
  · rfl
  · simp only
    split
    · rfl
    · rfl

/-- The budgets are the ones the source states (re-extracted on every run). -/
theorem C08_budgets : RESOLVE_TIMEOUT_SECS = 60 ∧ EXCHANGE_TIMEOUT_SECS = 5 ∧ RECURSION_LIMIT = 32 := by decide

theorem C08_budgets_ms : RESOLVE_TIMEOUT_MS = 60000 ∧ EXCHANGE_TIMEOUT_MS = 5000 := by decide

/-- `query_nameserver` (UDP then TCP) started within the budget costs at most two exchange
    time-outs and stays within the budget. -/
theorem C08_query_time (oracle : Oracle) (run : Run) (addr : FieldVal) (port : Nat) (q : Question) (rd : Bool)
    (h : run.elapsedMs ≤ RESOLVE_TIMEOUT_MS) :
    (queryNameserver oracle run addr port q rd).1.elapsedMs ≤ RESOLVE_TIMEOUT_MS ∧
    (queryNameserver oracle run addr port q rd).1.elapsedMs ≤ run.elapsedMs + 2 * EXCHANGE_TIMEOUT_MS ∧
    run.elapsedMs ≤ (queryNameserver oracle run addr port q rd).1.elapsedMs :=
  queryNameserver_time oracle run addr port q rd h

/-- Every function of the recursive machine keeps the clock within the 60 s budget (any fuel, any
    arguments, any oracle). -/
theorem C08_machine_time_inv (cfg : RecCfg) (fuel : Nat) :
    (∀ st q, RunOK st.run → RunOK (resolveRec cfg fuel st q).1.run) ∧
    (∀ st q combined mc cands next locally, RunOK st.run →
      RunOK (candidateLoop cfg fuel st q combined mc cands next locally).1.run) ∧
    (∀ st rrs q, RunOK st.run → RunOK (resolveCombined cfg fuel st rrs q).1.run) ∧
    (∀ st locally host types, RunOK st.run → RunOK (tryTypes cfg fuel st locally host types).1.run) := by
  obtain ⟨h1, h2, h3, h4⟩ := machine_good cfg fuel
  exact ⟨fun st q h => ((h1 st q).1.runOK h).1, fun st q c m cs n l h => ((h2 st q c m cs n l).1.runOK h).1,
    fun st r q h => ((h3 st r q).1.runOK h).1, fun st l ho t h => ((h4 st l ho t).1.runOK h).1⟩

/-- Each resolution finishes within its 60-second budget: the clock of the final run of a
    recursive or a forwarding resolution is at most 60 000 ms, whatever upstream does. -/
theorem C08_time_budget (cfg : RecCfg) (ctx : Ctx) (q : Question) :
    (resolveRecursive cfg ctx q).1.run.elapsedMs ≤ 60000 :=
  ((resolveRecursive_reach cfg ctx q).1.runOK RunOK.empty).1

theorem C08_time_budget_forwarding (cfg : FwdCfg) (ctx : Ctx) (q : Question) :
    (resolveForwarding cfg ctx q).1.run.elapsedMs ≤ 60000 :=
  ((resolveForwarding_reach cfg ctx q).1.runOK RunOK.empty).1

/-- Each upstream exchange takes at most 5 seconds per transport: the whole clock of a resolution
    is bounded by 5 s per logged transport attempt. -/
theorem C08_exchange_cost (cfg : RecCfg) (ctx : Ctx) (q : Question) :
    (resolveRecursive cfg ctx q).1.run.elapsedMs ≤ 5000 * (resolveRecursive cfg ctx q).1.run.log.length := by
  have h := (resolveRecursive_reach cfg ctx q).1.cost
  simp only [CostLe, Run.empty, List.length_nil, Nat.mul_zero, Nat.add_zero, Nat.zero_add] at h
  exact h

theorem C08_exchange_cost_forwarding (cfg : FwdCfg) (ctx : Ctx) (q : Question) :
    (resolveForwarding cfg ctx q).1.run.elapsedMs ≤ 5000 * (resolveForwarding cfg ctx q).1.run.log.length := by
  have h := (resolveForwarding_reach cfg ctx q).1.cost
  simp only [CostLe, Run.empty, List.length_nil, Nat.mul_zero, Nat.add_zero, Nat.zero_add] at h
  exact h

/-- If the final run is timed out the wrapper returns `Timeout` (and nothing else). -/
theorem C08_timeout_result (cfg : RecCfg) (ctx : Ctx) (q : Question)
    (h : (resolveRecursive cfg ctx q).1.run.timedOut = true) :
    (resolveRecursive cfg ctx q).2 = .error .timeout := by
  unfold resolveRecursive at h ⊢
  simp only [] at h ⊢
  split
  · rfl
  · rename_i hn; rw [if_neg hn] at h; exact absurd h hn

theorem C08_timeout_result_forwarding (cfg : FwdCfg) (ctx : Ctx) (q : Question)
    (h : (resolveForwarding cfg ctx q).1.run.timedOut = true) :
    (resolveForwarding cfg ctx q).2 = .error .timeout := by
  unfold resolveForwarding at h ⊢
  simp only [] at h ⊢
  split
  · rfl
  · rename_i hn; rw [if_neg hn] at h; exact absurd h hn

/-- The run is timed out exactly when its clock stands at the 60 s mark; so any result other than
    `Timeout` (in particular any answer) is produced strictly before the deadline. -/
theorem C08_answer_before_deadline (cfg : RecCfg) (ctx : Ctx) (q : Question)
    (h : (resolveRecursive cfg ctx q).2 ≠ .error .timeout) :
    (resolveRecursive cfg ctx q).1.run.elapsedMs < 60000 := by
  have hd := (resolveRecursive_reach cfg ctx q).1.deadline Deadline.empty
  cases ht : (resolveRecursive cfg ctx q).1.run.timedOut with
  | true => exact absurd (C08_timeout_result cfg ctx q ht) h
  | false => exact hd.2 ht

theorem C08_answer_before_deadline_forwarding (cfg : FwdCfg) (ctx : Ctx) (q : Question)
    (h : (resolveForwarding cfg ctx q).2 ≠ .error .timeout) :
    (resolveForwarding cfg ctx q).1.run.elapsedMs < 60000 := by
  have hd := (resolveForwarding_reach cfg ctx q).1.deadline Deadline.empty
  cases ht : (resolveForwarding cfg ctx q).1.run.timedOut with
  | true => exact absurd (C08_timeout_result_forwarding cfg ctx q ht) h
  | false => exact hd.2 ht

/-- The log only grows (the old log is a prefix of the new one) and the clock only advances, in
    every function of the machine. -/
theorem C08_log_monotone (cfg : RecCfg) (fuel : Nat) :
    (∀ st q, st.run.log <+: (resolveRec cfg fuel st q).1.run.log ∧
      (RunOK st.run → st.run.elapsedMs ≤ (resolveRec cfg fuel st q).1.run.elapsedMs)) ∧
    (∀ st q combined mc cands next locally,
      st.run.log <+: (candidateLoop cfg fuel st q combined mc cands next locally).1.run.log ∧
      (RunOK st.run →
        st.run.elapsedMs ≤ (candidateLoop cfg fuel st q combined mc cands next locally).1.run.elapsedMs)) ∧
    (∀ st rrs q, st.run.log <+: (resolveCombined cfg fuel st rrs q).1.run.log ∧
      (RunOK st.run → st.run.elapsedMs ≤ (resolveCombined cfg fuel st rrs q).1.run.elapsedMs)) ∧
    (∀ st locally host types, st.run.log <+: (tryTypes cfg fuel st locally host types).1.run.log ∧
      (RunOK st.run → st.run.elapsedMs ≤ (tryTypes cfg fuel st locally host types).1.run.elapsedMs)) := by
  obtain ⟨h1, h2, h3, h4⟩ := machine_good cfg fuel
  exact ⟨fun st q => ⟨(h1 st q).1.log_prefix, fun h => ((h1 st q).1.runOK h).2⟩,
    fun st q c m cs n l => ⟨(h2 st q c m cs n l).1.log_prefix, fun h => ((h2 st q c m cs n l).1.runOK h).2⟩,
    fun st r q => ⟨(h3 st r q).1.log_prefix, fun h => ((h3 st r q).1.runOK h).2⟩,
    fun st l ho t => ⟨(h4 st l ho t).1.log_prefix, fun h => ((h4 st l ho t).1.runOK h).2⟩⟩

theorem C08_log_monotone_forwarding (cfg : FwdCfg) (fuel : Nat) (st : St) (q : Question) :
    st.run.log <+: (resolveFwd cfg fuel st q).1.run.log ∧
    (RunOK st.run → st.run.elapsedMs ≤ (resolveFwd cfg fuel st q).1.run.elapsedMs) :=
  ⟨(resolveFwd_good cfg fuel st q).1.log_prefix, fun h => ((resolveFwd_good cfg fuel st q).1.runOK h).2⟩

/-- Once the 60 s deadline has passed no function of the machine sends anything any more: the run
    (log and clock) comes back unchanged. -/
theorem C08_no_exchange_after_timeout (cfg : RecCfg) (fuel : Nat) (st : St) (q : Question)
    (h : st.run.timedOut = true) :
    (resolveRec cfg fuel st q).1.run = st.run ∧
    (∀ combined mc cands next locally,
      (candidateLoop cfg fuel st q combined mc cands next locally).1.run = st.run) ∧
    (∀ rrs, (resolveCombined cfg fuel st rrs q).1.run = st.run) ∧
    (∀ locally host types, (tryTypes cfg fuel st locally host types).1.run = st.run) := by
  obtain ⟨h1, h2, h3, h4⟩ := machine_good cfg fuel
  exact ⟨(h1 st q).1.timedOut_frozen h, fun c m cs n l => (h2 st q c m cs n l).1.timedOut_frozen h,
    fun r => (h3 st r q).1.timedOut_frozen h, fun l ho t => (h4 st l ho t).1.timedOut_frozen h⟩

/-- The machines never touch the zones or the cache clock. -/
theorem C08_zones_untouched (cfg : RecCfg) (ctx : Ctx) (q : Question) :
    (resolveRecursive cfg ctx q).1.ctx.zones = ctx.zones ∧ (resolveRecursive cfg ctx q).1.ctx.now = ctx.now :=
  (resolveRecursive_reach cfg ctx q).1.ctx_same

/-- Provenance, generic form: let `P log r` ("`r` is accounted for by the exchanges of `log`") be
    monotone in the log, hold of every record of a logged reply, and hold of every record
    `resolveLocal` returns on a reachable state.  Then it holds of every record — answer and SOA —
    of an `ok` result of the recursive resolver, at the final log. -/
theorem C08_provenance_generic (cfg : RecCfg) (ctx : Ctx) (q : Question) (P : List Exchange → RR → Prop)
    (hP : SrcHyp cfg.net ⟨ctx, Run.empty⟩ P) (res : ResolvedRecord)
    (h : (resolveRecursive cfg ctx q).2 = .ok res) :
    ∀ r ∈ res.rrs ++ res.soaRR.toList, P (resolveRecursive cfg ctx q).1.run.log r := by
  have hm := (machine_src cfg ⟨ctx, Run.empty⟩ P hP REC_FUEL).1 ⟨ctx, Run.empty⟩ q (Reach.refl _)
  unfold resolveRecursive at h ⊢
  simp only [] at h ⊢
  split at h
  · cases h
  · rename_i hn
    rw [if_neg hn]
    exact hm res h

theorem C08_provenance_generic_forwarding (cfg : FwdCfg) (ctx : Ctx) (q : Question)
    (P : List Exchange → RR → Prop) (hP : SrcHyp cfg.net ⟨ctx, Run.empty⟩ P) (res : ResolvedRecord)
    (h : (resolveForwarding cfg ctx q).2 = .ok res) :
    ∀ r ∈ res.rrs ++ res.soaRR.toList, P (resolveForwarding cfg ctx q).1.run.log r := by
  have hm := fwd_src cfg ⟨ctx, Run.empty⟩ P hP REC_FUEL ⟨ctx, Run.empty⟩ q (Reach.refl _)
  unfold resolveForwarding at h ⊢
  simp only [] at h ⊢
  split at h
  · cases h
  · rename_i hn
    rw [if_neg hn]
    exact hm res h

/-- The resolver never returns a record that neither an upstream reply nor local data supplied:
    every record of an `ok` result either occurs in the reply the oracle gave to an exchange of
    the final log (`FromLog`), or was returned by a local lookup on a reachable state
    (`LocalSrc`; the TTL of a cache-served record is the one the cache lookup computed). -/
theorem C08_provenance (cfg : RecCfg) (ctx : Ctx) (q : Question) (res : ResolvedRecord)
    (h : (resolveRecursive cfg ctx q).2 = .ok res) :
    ∀ r ∈ res.rrs ++ res.soaRR.toList,
      FromLog cfg.oracle (resolveRecursive cfg ctx q).1.run.log r ∨
      LocalSrc cfg.net ⟨ctx, Run.empty⟩ (resolveRecursive cfg ctx q).1.run.log r :=
  C08_provenance_generic cfg ctx q (Src cfg.net ⟨ctx, Run.empty⟩) (src_hyp _ _) res h

theorem C08_provenance_forwarding (cfg : FwdCfg) (ctx : Ctx) (q : Question) (res : ResolvedRecord)
    (h : (resolveForwarding cfg ctx q).2 = .ok res) :
    ∀ r ∈ res.rrs ++ res.soaRR.toList,
      FromLog cfg.oracle (resolveForwarding cfg ctx q).1.run.log r ∨
      LocalSrc cfg.net ⟨ctx, Run.empty⟩ (resolveForwarding cfg ctx q).1.run.log r :=
  C08_provenance_generic_forwarding cfg ctx q (Src cfg.net ⟨ctx, Run.empty⟩) (src_hyp _ _) res h

/-- What enters the cache during a resolution: only records of replies to logged exchanges (the
    `cache` step of `Reach` carries exactly this guard), so the "local data" of `LocalSrc` is the
    initial zones and cache plus logged upstream records. -/
theorem C08_cache_inserts_from_replies (cfg : RecCfg) (ctx : Ctx) (q : Question) :
    Reach cfg.net ⟨ctx, Run.empty⟩ (resolveRecursive cfg ctx q).1 :=
  (resolveRecursive_reach cfg ctx q).1

/-! ### Non-vacuity -/

/-- an upstream that never answers: two attempts (UDP, TCP) of 5 s each, then a dead end — an
    error, not a hang, after 10 s of virtual time. -/
example : (resolveRecursive exCfgSilent exCtx exQ).1.run.elapsedMs = 10000 ∧
    (resolveRecursive exCfgSilent exCtx exQ).1.run.log.length = 2 ∧
    (resolveRecursive exCfgSilent exCtx exQ).2 = .error (.deadEnd exQ) := by decide +kernel

/-- an upstream that answers: the answer comes back after 20 ms. -/
example : (resolveRecursive exCfg exCtx exQ).2 = .ok (.nonAuthoritative [exAnswer] none) ∧
    (resolveRecursive exCfg exCtx exQ).1.run.elapsedMs = 20 := by decide +kernel

/-- provenance, concretely: the answer record of the example run occurs in the oracle's reply to
    the one exchange of its log. -/
example : FromLog exCfg.oracle (resolveRecursive exCfg exCtx exQ).1.run.log exAnswer := by
  have h : (resolveRecursive exCfg exCtx exQ).1.run.log =
      [{ addr := .a 16909060, port := 53, tcp := false, question := exQ, recursionDesired := false }] := by
    decide +kernel
  rw [h]
  exact ⟨_, List.mem_singleton.mpr rfl, _, rfl, by simp [Message.allRrs, exReply]⟩

/-! ## Fuel

  The Rust recursion is unbounded; the model recurses on a fuel (`REC_FUEL = 1000000` in the
  wrappers) and returns the model-only error `outOfFuel` at fuel 0.  Two facts about the model as
  it stands (both model artefacts, not Rust behaviour):

  1. `tryTypes` (`resolve_hostname_to_ip`) treats every error of the nested `resolveRec` alike, so
     a fuel exhaustion inside a name-server address lookup is MASKED: the result is then a
     `deadEnd`, not `outOfFuel`.  Hence "a run that does not end in `outOfFuel` gives the same
     result with more fuel" is false — counterexample below (`exCfgRef`: fuel 5 ↦ `deadEnd`,
     fuel 8 ↦ an answer).
  2. Every iteration of the candidate loop costs one unit of fuel while virtual time need not
     advance (an oracle may answer in 0 ms), and the number of iterations grows with
     (labels of the question) × (name servers per referral): `outOfFuel` IS reachable with
     `REC_FUEL` (e.g. a 1001-label question, 1000 referrals of 1000 hosts each with glue for the
     host tried last; `bigCfg 1000 1000` — scaled-down instance proved below).

  What holds: the ghost condition `okRec cfg n st q` (defined in `Proofs/ResolverMachineFuel` by
  mirroring the call tree: no call was made with fuel 0; it is executable, so it can be evaluated
  on every generated case) makes the fuel unobservable. -/

/-- Counterexample to plain fuel monotonicity: with fuel 5 the run ends in `deadEnd` (not in
    `outOfFuel`: the exhaustion happened inside a masked address lookup), with fuel 8 it answers. -/
example : (resolveRec exCfgRef 5 ⟨exCtx, Run.empty⟩ exQ).2 = .error (.deadEnd exQ) ∧
    (resolveRec exCfgRef 8 ⟨exCtx, Run.empty⟩ exQ).2 = .ok (.nonAuthoritative [exAnswer] none) ∧
    okRec exCfgRef 5 ⟨exCtx, Run.empty⟩ exQ = false ∧ okRec exCfgRef 8 ⟨exCtx, Run.empty⟩ exQ = true := by
  decide +kernel

/-- Scaled-down instance of the fuel-exhaustion scenario: 3 referral levels × 4 hosts; fuel 14 is
    exhausted (`outOfFuel`), fuel 16 answers.  The same universe with 1000 levels × 1000 hosts
    exhausts `REC_FUEL`. -/
example : (resolveRec (bigCfg 3 4) 14 ⟨bigCtx, Run.empty⟩ (bigQ 3)).2 = .error .outOfFuel ∧
    okRec (bigCfg 3 4) 16 ⟨bigCtx, Run.empty⟩ (bigQ 3) = true := by
  decide +kernel

/-- FALSE for the model (see 2. above; kept as a statement, not a theorem). -/
def C08_fuel_suffices_statement : Prop :=
  ∀ (cfg : RecCfg) (ctx : Ctx) (q : Question), (resolveRecursive cfg ctx q).2 ≠ .error .outOfFuel

/-- FALSE for the model (see 1. above; kept as a statement, not a theorem). -/
def C08_fuel_monotone_naive_statement : Prop :=
  ∀ (cfg : RecCfg) (n m : Nat) (st : St) (q : Question), n ≤ m →
    (resolveRec cfg n st q).2 ≠ .error .outOfFuel → resolveRec cfg m st q = resolveRec cfg n st q

/-- the naive monotonicity statement is refuted by the counterexample above. -/
theorem C08_fuel_monotone_naive_false : ¬ C08_fuel_monotone_naive_statement := by
  intro h
  have h1 := h exCfgRef 5 8 ⟨exCtx, Run.empty⟩ exQ (by decide) (by decide +kernel)
  have h2 : (resolveRec exCfgRef 8 ⟨exCtx, Run.empty⟩ exQ).2 ≠ (resolveRec exCfgRef 5 ⟨exCtx, Run.empty⟩ exQ).2 := by
    decide +kernel
  exact h2 (by rw [h1])

/-- Fuel monotonicity (corrected): if no call of the call tree of `resolveRec cfg n st q` ran out
    of fuel, then any larger fuel gives exactly the same state and result (and again no
    exhaustion) — the fuel is unobservable once it suffices. -/
theorem C08_fuel_monotone (cfg : RecCfg) (n m : Nat) (hm : n ≤ m) (st : St) (q : Question)
    (h : okRec cfg n st q = true) :
    resolveRec cfg m st q = resolveRec cfg n st q ∧ okRec cfg m st q = true :=
  fuel_stable_le cfg n m hm st q h

/-- One step of it, for all four functions of the mutual block. -/
theorem C08_fuel_stable (cfg : RecCfg) (n : Nat) : FuelStable cfg n := fuel_stable cfg n

/-- Without exhaustion in the call tree the result is not `outOfFuel` (so `outOfFuel` as a
    result always witnesses an exhaustion; the converse fails because of the masking). -/
theorem C08_fuel_ok_no_outOfFuel (cfg : RecCfg) (n : Nat) (st : St) (q : Question)
    (h : okRec cfg n st q = true) : (resolveRec cfg n st q).2 ≠ .error .outOfFuel :=
  (ok_no_outOfFuel cfg n).1 st q h

/-- For a whole resolution: when `REC_FUEL` suffices in the sense of `okRec`, the wrapper's value
    is the value for every larger fuel, and it is not `outOfFuel`. -/
theorem C08_fuel_independent (cfg : RecCfg) (ctx : Ctx) (q : Question)
    (h : okRec cfg REC_FUEL ⟨ctx, Run.empty⟩ q = true) :
    (∀ m, REC_FUEL ≤ m → resolveRec cfg m ⟨ctx, Run.empty⟩ q = resolveRec cfg REC_FUEL ⟨ctx, Run.empty⟩ q) ∧
    (resolveRecursive cfg ctx q).2 ≠ .error .outOfFuel := by
  refine ⟨fun m hm => (fuel_stable_le cfg REC_FUEL m hm _ q h).1, ?_⟩
  have hno := (ok_no_outOfFuel cfg REC_FUEL).1 _ q h
  unfold resolveRecursive
  simp only []
  split
  · intro hh; cases hh
  · exact hno

/-- Iteration bound of the candidate loop: with at most `H` hosts per referral
    (`(cfg.hostOrder hs).length ≤ H`), `k` consecutive iterations starting from loop variables `a`
    whose delegation is at most as deep as the question name satisfy
    `k ≤ (labels − a.mc)·(2H+2) + width a`: the loop itself needs at most that much fuel. -/
theorem C08_loop_iteration_bound (cfg : RecCfg) (q : Question) (a c : LoopArgs) (k H : Nat)
    (hH : ∀ hs, (cfg.hostOrder hs).length ≤ H) (h : LoopChain cfg q a k c) (hmc : a.mc ≤ q.name.labels.length) :
    k ≤ (q.name.labels.length - a.mc) * (2 * H + 2) + a.width := by
  have := h.length_le H hH hmc
  unfold LoopArgs.measure at this
  omega

/-- Partial "fuel suffices": with more fuel than that bound the candidate loop never stops for
    lack of fuel of its own — its value is that of an iteration that ends the loop (time-out, dead
    end, answer, or hand-over to `resolveCombined` for an alias). -/
theorem C08_loop_fuel_suffices (cfg : RecCfg) (q : Question) (combined : List RR) (n H : Nat) (a : LoopArgs)
    (hH : ∀ hs, (cfg.hostOrder hs).length ≤ H) (hmc : a.mc ≤ q.name.labels.length)
    (hn : (q.name.labels.length - a.mc) * (2 * H + 2) + a.width < n) :
    ∃ (k m : Nat) (a' : LoopArgs), LoopChain cfg q a k a' ∧ n - k = m + 1 ∧
      candidateLoop cfg n a.st q combined a.mc a.cands a.next a.locally =
        candidateLoop cfg (m + 1) a'.st q combined a'.mc a'.cands a'.next a'.locally ∧
      LoopEnds cfg m q (candidateLoop cfg (m + 1) a'.st q combined a'.mc a'.cands a'.next a'.locally) :=
  candidateLoop_ends cfg q combined n H a hH hmc hn

/-- the hypothesis on `hostOrder` is satisfiable (e.g. a host order that keeps at most 13 hosts). -/
example : ∀ hs : List Name, (({ exCfg with hostOrder := fun l => l.take 13 } : RecCfg).hostOrder hs).length ≤ 13 := by
  intro hs; simp only [List.length_take]; omega

/-! (Superseded by the next section, which proves the theorem sketched here; kept for the record.)
    What is missing for a conditional "fuel suffices" theorem (`okRec cfg F ⟨ctx, Run.empty⟩ q` for
    an explicit `F`): nesting of `resolveRec` is bounded by the question stack (every nested call
    sees a strictly longer stack — `C10_stack_invariant` — and refuses at `RECURSION_LIMIT`), and
    each level costs at most the loop bound `C08_loop_iteration_bound` plus a constant, so
    `F = (RECURSION_LIMIT + 1) · ((L + 1)(2H + 2) + c)` works PROVIDED every question met during
    the resolution has at most `L` labels and every name-server set (local or from a referral)
    at most `H` hosts.  Those are global size invariants on zones, cache contents and oracle
    replies (names ≤ 255 octets, messages ≤ 64 KiB) that the model does not carry (`Name`,
    `Message` are unconstrained structures there); and with realistic sizes (L ≈ 128, H ≈ 4000)
    that `F` is far above the `REC_FUEL = 100000` of that time, so the wrapper's fuel would have to be raised (or
    the loop given its own structural measure) before such a theorem could be about
    `resolveRecursive` itself. -/

/-! ## Fuel sufficiency under explicit size bounds

  The conditional theorem described just above, proved (`Proofs/ResolverFuelBound`).  The fuel is a
  nesting-depth budget; the depth is at most

      FUEL_BOUND H L = RECURSION_LIMIT · ((L + 1)·(2H + 2) + 3) + 1

  when every delegation (local, cached or referred) offers at most `H` name-server hosts and every
  question name has at most `L` labels: `RECURSION_LIMIT` levels of the question stack do work (a
  nested `resolveRec` sees a stack one longer, and refuses at the limit: the `+ 1`), and one level
  costs at most the loop bound `L·(2H+2) + (2H+1)` (`C08_loop_iteration_bound`, initial width
  `2H + 1`) plus 1 frame of `resolveRec` and at most 3 frames of `tryTypes` (|rtypes| ≤ 2, plus the
  frame that sees the exhausted list) — or 1 of `resolveCombined` — before the next level starts.

  Two forms.  `C08_fuel_suffices_of_local_bounds` takes the bound on local lookups as a hypothesis
  over the states the machine can reach (`Reach`); `C08_fuel_suffices_bounded` derives it from
  conditions on the initial zones, the initial cache and the oracle:
  * `fb_zonesOK H L zones` (a Bool, checkable by evaluation): record maps keyed consistently, RDATA
    names of ≤ `L` labels, NS sets of ≤ `H` records, in every node of every zone;
  * `fb_CacheOK L U cache`: the cache is well-formed (`Inv`, C05), RDATA names of ≤ `L` labels, and
    the NS data stored under owner `k` lie in `U k`;
  * `fb_OracleOK L U oracle`: in every reply, RDATA names of ≤ `L` labels and NS data of owner `k`
    in `U k` — with `(U k).length ≤ H`: per owner name there are at most `H` distinct NS data in the
    world (initial cache and all replies together).  A per-reply bound would NOT do: the cache
    merges the NS sets that different replies give for one owner, and `candidate_nameservers`
    takes the merged set without passing it through `hostOrder`.
  The host order must return hosts of the referral (`hsub`), at most `H` of them (`hH`; needed only
  of host sets of actual referrals: `C08_fuel_suffices_bounded_referrals`). -/

/-- fuel that suffices when delegations have ≤ `H` hosts and question names ≤ `L` labels. -/
def FUEL_BOUND (H L : Nat) : Nat := RECURSION_LIMIT * ((L + 1) * (2 * H + 2) + 3) + 1

theorem C08_FUEL_BOUND_eq (H L : Nat) : FUEL_BOUND H L = 32 * ((L + 1) * (2 * H + 2) + 3) + 1 := rfl

/-- the bound grows with both parameters (so "the largest `H` that fits" below makes sense). -/
theorem C08_FUEL_BOUND_mono {H H' L L' : Nat} (hH : H ≤ H') (hL : L ≤ L') : FUEL_BOUND H L ≤ FUEL_BOUND H' L' := by
  unfold FUEL_BOUND
  have h1 : (L + 1) * (2 * H + 2) ≤ (L' + 1) * (2 * H' + 2) := Nat.mul_le_mul (by omega) (by omega)
  have h2 := Nat.mul_le_mul_left RECURSION_LIMIT (Nat.add_le_add_right h1 3)
  omega

/-- Fuel sufficiency, semantic form: if, on every state reachable from `st0`, local lookups hand
    back at most `H` hosts and only NS / alias targets of at most `L` labels (`fb_LocalBounded`),
    upstream replies only carry NS / CNAME targets of at most `L` labels, and the host order tries
    at most `H` hosts of a referral, then on any reachable state with its question stack within
    the limit `FUEL_BOUND H L` units of fuel suffice. -/
theorem C08_fuel_suffices_of_local_bounds (cfg : RecCfg) (H L : Nat) (st0 st : St) (q : Question) (n : Nat)
    (hH : ∀ hs, (cfg.hostOrder hs).length ≤ H)
    (hsub : ∀ hs h, h ∈ cfg.hostOrder hs → h ∈ hs)
    (hO : fb_OracleNames cfg.oracle L)
    (hloc : ∀ st', Reach cfg.net st0 st' → ∀ q',
      fb_LocalBounded H L q' (resolveLocal (RECURSION_LIMIT + 1) st'.ctx q').2)
    (hr : Reach cfg.net st0 st) (hstack : st.ctx.stack.length ≤ RECURSION_LIMIT)
    (hq : q.name.labels.length ≤ L) (hfuel : FUEL_BOUND H L ≤ n) :
    okRec cfg n st q = true :=
  fb_okRec ⟨fun hs _ => hH hs, hsub, hO, hloc⟩ st q n hr hstack hq hfuel

/-- Fuel sufficiency from conditions on the initial data, the host-order bound being asked only of
    the host sets of referrals the oracle can actually produce (`fb_Referral`). -/
theorem C08_fuel_suffices_bounded_referrals (cfg : RecCfg) (H L : Nat) (U : Name → List CRec) (st : St)
    (q : Question) (n : Nat)
    (hH : ∀ hs, fb_Referral cfg.oracle hs → (cfg.hostOrder hs).length ≤ H)
    (hsub : ∀ hs h, h ∈ cfg.hostOrder hs → h ∈ hs)
    (hU : ∀ k, (U k).length ≤ H)
    (hZ : fb_zonesOK H L st.ctx.zones = true)
    (hC : fb_CacheOK L U st.ctx.cache)
    (hO : fb_OracleOK L U cfg.oracle)
    (hstack : st.ctx.stack.length ≤ RECURSION_LIMIT)
    (hq : q.name.labels.length ≤ L) (hfuel : FUEL_BOUND H L ≤ n) :
    okRec cfg n st q = true :=
  fb_okRec_of_invariant st q n hH hsub hU hO ⟨hZ, hC⟩ hstack hq hfuel

/-- **Fuel sufficiency.**  At most `H` hosts tried per referral, all of them hosts of the referral;
    per owner name at most `H` distinct NS data in the initial cache and all upstream replies
    together (`U`); NS sets of at most `H` records in the zones; RDATA names of at most `L` labels
    in zones, cache and replies; a question name of at most `L` labels; the question stack within
    the recursion limit.  Then with `FUEL_BOUND H L` units of fuel or more no call in the call tree
    of `resolveRec` is made with fuel 0. -/
theorem C08_fuel_suffices_bounded (cfg : RecCfg) (H L : Nat) (U : Name → List CRec) (st : St) (q : Question)
    (n : Nat)
    (hH : ∀ hs, (cfg.hostOrder hs).length ≤ H)
    (hsub : ∀ hs h, h ∈ cfg.hostOrder hs → h ∈ hs)
    (hU : ∀ k, (U k).length ≤ H)
    (hZ : fb_zonesOK H L st.ctx.zones = true)
    (hC : fb_CacheOK L U st.ctx.cache)
    (hO : fb_OracleOK L U cfg.oracle)
    (hstack : st.ctx.stack.length ≤ RECURSION_LIMIT)
    (hq : q.name.labels.length ≤ L) (hfuel : FUEL_BOUND H L ≤ n) :
    okRec cfg n st q = true :=
  C08_fuel_suffices_bounded_referrals cfg H L U st q n (fun hs _ => hH hs) hsub hU hZ hC hO hstack hq hfuel

/-- Above the bound the fuel is unobservable: every fuel `n ≥ FUEL_BOUND H L` gives the state and
    result of `FUEL_BOUND H L`, and that result is not `outOfFuel`. -/
theorem C08_fuel_unobservable_above_bound (cfg : RecCfg) (H L : Nat) (U : Name → List CRec) (st : St)
    (q : Question) (n : Nat)
    (hH : ∀ hs, (cfg.hostOrder hs).length ≤ H)
    (hsub : ∀ hs h, h ∈ cfg.hostOrder hs → h ∈ hs)
    (hU : ∀ k, (U k).length ≤ H)
    (hZ : fb_zonesOK H L st.ctx.zones = true)
    (hC : fb_CacheOK L U st.ctx.cache)
    (hO : fb_OracleOK L U cfg.oracle)
    (hstack : st.ctx.stack.length ≤ RECURSION_LIMIT)
    (hq : q.name.labels.length ≤ L) (hfuel : FUEL_BOUND H L ≤ n) :
    resolveRec cfg n st q = resolveRec cfg (FUEL_BOUND H L) st q ∧
    (resolveRec cfg n st q).2 ≠ .error .outOfFuel := by
  have hok := C08_fuel_suffices_bounded cfg H L U st q (FUEL_BOUND H L) hH hsub hU hZ hC hO hstack hq
    (Nat.le_refl _)
  have hm := C08_fuel_monotone cfg (FUEL_BOUND H L) n hfuel st q hok
  exact ⟨hm.1, C08_fuel_ok_no_outOfFuel cfg n st q hm.2⟩

/-- **The fuel given by `resolve` suffices** whenever `FUEL_BOUND H L ≤ REC_FUEL`: under the
    hypotheses of `C08_fuel_suffices_bounded` on the context and the configuration, the value of
    `resolveRecursive` is not `outOfFuel`, no call of its call tree ran out of fuel, and every
    larger fuel gives the same state and result — the fuel of the model is unobservable. -/
theorem C08_resolve_fuel_suffices (cfg : RecCfg) (H L : Nat) (U : Name → List CRec) (ctx : Ctx) (q : Question)
    (hH : ∀ hs, (cfg.hostOrder hs).length ≤ H)
    (hsub : ∀ hs h, h ∈ cfg.hostOrder hs → h ∈ hs)
    (hU : ∀ k, (U k).length ≤ H)
    (hZ : fb_zonesOK H L ctx.zones = true)
    (hC : fb_CacheOK L U ctx.cache)
    (hO : fb_OracleOK L U cfg.oracle)
    (hstack : ctx.stack.length ≤ RECURSION_LIMIT)
    (hq : q.name.labels.length ≤ L) (hfit : FUEL_BOUND H L ≤ REC_FUEL) :
    (resolveRecursive cfg ctx q).2 ≠ .error .outOfFuel ∧
    okRec cfg REC_FUEL ⟨ctx, Run.empty⟩ q = true ∧
    ∀ m, REC_FUEL ≤ m → resolveRec cfg m ⟨ctx, Run.empty⟩ q = resolveRec cfg REC_FUEL ⟨ctx, Run.empty⟩ q := by
  have hok := C08_fuel_suffices_bounded cfg H L U ⟨ctx, Run.empty⟩ q REC_FUEL hH hsub hU hZ hC hO hstack hq hfit
  obtain ⟨h1, h2⟩ := C08_fuel_independent cfg ctx q hok
  exact ⟨h2, hok, h1⟩

/-! ### Numeric instances (a wire-format name has at most 127 labels + the root: `L = 128`) -/

/-- `REC_FUEL = 1 000 000` (raised from 100 000 once this bound was known: 13 hosts per delegation —
    the root servers — need 115 681) covers 13 hosts per delegation … -/
theorem C08_fuel_bound_13_128 : FUEL_BOUND 13 128 = 115681 ∧ FUEL_BOUND 13 128 ≤ REC_FUEL := by decide

/-- … and 64; for `L = 128` the largest `H` covered by `REC_FUEL = 1 000 000` is 120. -/
theorem C08_fuel_bound_64_128 : FUEL_BOUND 64 128 = 536737 ∧ FUEL_BOUND 64 128 ≤ REC_FUEL := by decide

theorem C08_fuel_bound_largest_H : FUEL_BOUND 120 128 ≤ REC_FUEL ∧ ¬ FUEL_BOUND 121 128 ≤ REC_FUEL := by decide

/-! ### Non-vacuity: the example universe satisfies the hypotheses -/

/-- the example configuration with a host order that keeps at most 11 hosts, the example context
    and question satisfy every hypothesis of `C08_resolve_fuel_suffices` for `H = 11`, `L = 128`
    (empty NS universe: the example upstream never sends an NS record) — so its conclusion holds. -/
example :
    let cfg : RecCfg := { exCfg with hostOrder := fun l => l.take 11 }
    (resolveRecursive cfg exCtx exQ).2 ≠ .error .outOfFuel ∧
    okRec cfg REC_FUEL ⟨exCtx, Run.empty⟩ exQ = true ∧
    ∀ m, REC_FUEL ≤ m → resolveRec cfg m ⟨exCtx, Run.empty⟩ exQ = resolveRec cfg REC_FUEL ⟨exCtx, Run.empty⟩ exQ := by
  intro cfg
  refine C08_resolve_fuel_suffices cfg 11 128 (fun _ => []) exCtx exQ ?_ ?_ ?_ ?_ ?_ ?_ ?_ ?_ ?_
  · intro hs; simp only [cfg, List.length_take]; omega
  · intro hs h hm; exact List.mem_of_mem_take hm
  · intro k; simp
  · decide +kernel
  · exact fb_cacheOK_new _ _ _
  · exact fb_exOracle_ok _ _
  · decide
  · decide
  · decide

/-- the unmodified example configuration (`hostOrder := id`) satisfies the hypotheses of
    `C08_fuel_suffices_bounded_referrals` (its upstream never sends a referral), even for `H = 1`,
    `L = 2`. -/
example : okRec exCfg (FUEL_BOUND 1 2) ⟨exCtx, Run.empty⟩ exQ = true :=
  C08_fuel_suffices_bounded_referrals exCfg 1 2 (fun _ => []) ⟨exCtx, Run.empty⟩ exQ _
    (fun hs h => absurd h (fb_exOracle_no_referral hs)) (fun _ _ h => h) (fun _ => by simp)
    (by decide +kernel) (fb_cacheOK_new _ _ _) (fb_exOracle_ok _ _) (by decide) (by decide) (Nat.le_refl _)

/-! ### The bounds are needed (scaled-down instances, as for `bigCfg` above)

  In the `bigCfg levels hosts` universe (a chain of `levels` referrals with `hosts` name servers
  each, question name of `levels + 2` labels, all replies at zero virtual time) the least fuel for
  which `okRec` holds was `levels · hosts + 3` in every instance evaluated: it grows with the number
  of hosts per referral at a fixed name length, and with the name length at a fixed number of hosts.  So neither
  the bound `H` on hosts per delegation nor the bound `L` on labels can be dropped, whatever fuel the
  wrapper is given (evaluated: 623 for `bigCfg 1 620`, where `FUEL_BOUND 1 3 = 609`; kernel
  evaluation of that instance is too slow to be stored as a theorem — the instances below are). -/

/-- more hosts per referral, same names: more fuel needed. -/
example : okRec (bigCfg 1 4) 7 ⟨bigCtx, Run.empty⟩ (bigQ 1) = true ∧
    okRec (bigCfg 1 8) 7 ⟨bigCtx, Run.empty⟩ (bigQ 1) = false ∧
    okRec (bigCfg 1 8) 11 ⟨bigCtx, Run.empty⟩ (bigQ 1) = true ∧
    okRec (bigCfg 1 16) 11 ⟨bigCtx, Run.empty⟩ (bigQ 1) = false := by decide +kernel

/-- longer names (more referral levels), same number of hosts: more fuel needed. -/
example : okRec (bigCfg 2 4) 7 ⟨bigCtx, Run.empty⟩ (bigQ 2) = false ∧
    okRec (bigCfg 2 4) 11 ⟨bigCtx, Run.empty⟩ (bigQ 2) = true ∧
    okRec (bigCfg 3 4) 11 ⟨bigCtx, Run.empty⟩ (bigQ 3) = false := by decide +kernel

/-- **One attempt per transport in one exchange.**  `query_nameserver` adds to the exchange log at most
    one UDP attempt followed by at most one TCP attempt for the same address and question - never two
    attempts on one transport (a seeded change that made a truncated UDP reply try TCP twice, doubling
    the time one exchange may take on that transport, is what asked for this to be a theorem). -/
theorem C08_one_attempt_per_transport (oracle : Oracle) (run : Run) (addr : FieldVal) (port : Nat)
    (q : Question) (rd : Bool) :
    ∃ l, (queryNameserver oracle run addr port q rd).1.log = run.log ++ l ∧
      (l = [] ∨ l = [mx_udpEx addr port q rd] ∨ l = [mx_tcpEx addr port q rd] ∨
       l = [mx_udpEx addr port q rd, mx_tcpEx addr port q rd]) :=
  c08_query_attempts oracle run addr port q rd

end Resolved
