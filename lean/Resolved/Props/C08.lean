/-
  C08 — Every resolution terminates in bounded time whatever upstream servers do.
  FIRST-CLAIM version.  The recursive and forwarding machines are total Lean functions over an
  ARBITRARY oracle (`Exchange → Attempt`): whatever upstream does — silence, lateness, garbage,
  mismatches, circular referrals, alias loops — they return a value.  Proved here: the time
  accounting of a single exchange.  Being proved: `outOfFuel` unreachable (the given fuel always
  suffices), total elapsed ≤ 60 s on every path, provenance of every returned record.
-/
import Resolved.Model.Resolver

namespace Resolved

open Gen

/-- One transport attempt costs at most its 5 s timeout and never pushes the clock past the 60 s
    budget; the exchange log grows by at most this one exchange. -/
theorem C08_attempt_time (oracle : Oracle) (run : Run) (ex : Exchange)
    (h : run.elapsedMs ≤ RESOLVE_TIMEOUT_MS) :
    (attempt oracle run ex).1.elapsedMs ≤ RESOLVE_TIMEOUT_MS ∧
    (attempt oracle run ex).1.elapsedMs ≤ run.elapsedMs + EXCHANGE_TIMEOUT_MS ∧
    run.elapsedMs ≤ (attempt oracle run ex).1.elapsedMs := by
  unfold attempt
  split
  · simp only; exact ⟨h, by omega, by omega⟩
  · simp only
    split
    · simp only; refine ⟨Nat.le_refl _, ?_, h⟩
      rename_i hge
      have : min (oracle ex).delayMs EXCHANGE_TIMEOUT_MS ≤ EXCHANGE_TIMEOUT_MS := Nat.min_le_right _ _
      omega
    · rename_i hlt
      have hm : min (oracle ex).delayMs EXCHANGE_TIMEOUT_MS ≤ EXCHANGE_TIMEOUT_MS := Nat.min_le_right _ _
      split <;> simp only <;> refine ⟨by omega, by omega, by omega⟩

/-- A reply that arrives at or after the 5 s timeout is never used. -/
theorem C08_late_reply_dropped (oracle : Oracle) (run : Run) (ex : Exchange)
    (h : (oracle ex).delayMs ≥ EXCHANGE_TIMEOUT_MS) : (attempt oracle run ex).2 = none := by
  unfold attempt
  split
  · rfl
  · simp only
    split
    · rfl
    · rename_i h1 h2; simp [h]

/-- The budgets are the ones the source states (re-extracted on every run). -/
theorem C08_budgets : RESOLVE_TIMEOUT_SECS = 60 ∧ EXCHANGE_TIMEOUT_SECS = 5 ∧ RECURSION_LIMIT = 32 := by decide

end Resolved
