/-
  C14 — Hosts files are read as hosts(5) describes and convert losslessly
  (and the hosts part of C17 — the reader never panics).

  Model: Model/Hosts.lean (`parse_line`, `Hosts::deserialise`, `serialise`, `merge`,
  `From<Hosts> for Zone`, `TryFrom<Zone> for Hosts`, std `IpAddr::from_str` / `Display`).
  Specification: Spec/HostsSpec.lean (`HSpec.parseLine`, `HSpec.parse`: cut at `#`, split on blanks).
  Property theorems only; the proofs live in Proofs/{HostsLemmas, IpLemmas, HostsZoneLemmas}.lean.
-/
import Resolved.Proofs.HostsLemmas
import Resolved.Proofs.IpLemmas
import Resolved.Proofs.HostsZoneLemmas
import Resolved.Proofs.HostsTextLemmas

/-
  Deviations / silent points (see Spec/HostsSpec.lean): D-H1 a lone malformed field followed by a
  blank is an error; D-H2 `%` after the first character of the first field skips the line unexamined;
  D-H3 one character behind the `#`s is examined for ASCII; D-H4 `serialise` is faithful only for
  names representable in a hosts file (`HostsWF`).
-/

namespace Resolved

open HostsM

/-! ## (a) `#` starts a comment wherever it appears -/

/-- Appending `#…` to ANY line `pre` (ASCII or not, with or without a comment of its own, in the
    middle of a name, directly after the address, …) leaves the meaning of the line unchanged:
    same mappings, same error.  Side condition `HSpec.afterHash rest = none`: the first character
    behind the run of `#`s is ASCII or absent (D-H3: the implementation examines that one character).
    This is the clause the fixed defect F5 broke (`1.2.3.4 foo#bar` lost `foo`). -/
theorem C14_comment_anywhere (pre rest : List Char) (c : Char) (hc : isHash c = true)
    (hr : HSpec.afterHash rest = none) : parseLine (pre ++ c :: rest) = parseLine pre :=
  comment_anywhere pre rest c hc hr

/-- the side condition is satisfiable (`bar` behind the `#`) … -/
example : HSpec.afterHash [Char.ofNat 98, Char.ofNat 97, Char.ofNat 114] = none := by decide

/-- … and the regression input reads as intended: `1.2.3.4 foo#bar` maps `foo.` to 1.2.3.4
    (the fixed defect F5 returned no mapping here). -/
example : parseLine ([49, 46, 50, 46, 51, 46, 52, 32, 102, 111, 111, 35, 98, 97, 114].map Char.ofNat) =
    .ok (some (.v4 16909060, [⟨[[102, 111, 111], []], 5⟩])) := by rfl

/-- The side condition cannot be dropped: `1.2.3.4 a#é` is an error (D-H3), `1.2.3.4 a` is not. -/
example : parseLine ([49, 46, 50, 46, 51, 46, 52, 32, 97, 35, 233].map Char.ofNat) =
    .error (.expectedAscii (Char.ofNat 233)) := by rfl

/-! ## (d) the state machine IS the split-based reading of hosts(5) -/

/-- For every line — ASCII or not — `parse_line` returns exactly what the specification says:
    the same mappings, or the same error with the same payload. -/
theorem C14_parse_refines_spec (l : List Char) : parseLine l = HSpec.parseLine l :=
  parseLine_refines_spec l

/-- For every text, `Hosts::deserialise` returns the specification's reading of the file: the error
    of the first bad line, or the same hosts data (as maps). -/
theorem C14_deserialise_refines_spec (s : List Char) :
    match HSpec.parse s with
    | .error e => Hosts.deserialise s = .error e
    | .ok h' => ∃ h, Hosts.deserialise s = .ok h ∧ Hosts.Equiv h h' :=
  deserialise_refines_spec s

/-- `str::lines` as modelled = the specification's notion of a line. -/
theorem C14_lines (s : List Char) : strLines s = HSpec.lines s := strLines_eq_spec s

/-! ### the clauses of the property text, read off the refinement -/

/-- blank lines (any mix of space, tab, VT, FF, CR) are ignored. -/
theorem C14_blank_ignored (l : List Char) (h : ∀ c ∈ l, isWs c = true) : parseLine l = .ok none := by
  rw [parseLine_refines_spec]
  induction l with
  | nil => exact parseLine_nil
  | cons c cs ih =>
    rw [parseLine_ws_cons c cs (h c (by simp))]
    exact ih (fun d hd => h d (by simp [hd]))

/-- an address-only line — one field (ASCII, no blank, no `#`, no `%` behind its first character)
    and nothing else — is ignored, whatever the field is. -/
theorem C14_address_only_ignored (f : List Char) (h : FieldOK f) (hne : f ≠ [])
    (hp : NoPct (f.drop 1)) : parseLine f = .ok none := by
  rw [parseLine_refines_spec]; exact parseLine_addr_end f h hne hp

/-- a line whose first field carries an interface suffix `%…` is skipped, whatever follows the `%`
    (names, malformed text, non-ASCII text). -/
theorem C14_iface_line_skipped (f rest : List Char) (c : Char) (h : FieldOK f) (hne : f ≠ [])
    (hp : NoPct (f.drop 1)) (hc : isPercent c = true) : parseLine (f ++ c :: rest) = .ok none := by
  rw [parseLine_refines_spec]; exact parseLine_addr_percent f rest c h hne hp hc

/-- a line that maps names (white space follows the first field) must have an address in its first
    field: otherwise `CouldNotParseAddress` with that field, whatever follows. -/
theorem C14_bad_address_is_error (f rest : List Char) (w : Char) (h : FieldOK f) (hne : f ≠ [])
    (hp : NoPct (f.drop 1)) (hw : isWs w = true) (hbad : Ip.parseIpAddr (utf8Encode f) = none) :
    parseLine (f ++ w :: rest) = .error (.couldNotParseAddress f) := by
  rw [parseLine_refines_spec, parseLine_addr_ws f rest w h hne hp hw, hbad]

/-! ## (c) a later mapping for the same name and family replaces an earlier one -/

/-- The `for line in data.lines()` loop yields, for every name and family, the address of the LAST
    mapping (in file order) for that name and family, and nothing for names never mapped.
    `HSpec.mappings` lists the mappings of all lines in file order. -/
theorem C14_last_wins (ls : List (List Char)) (h : Hosts)
    (hd : Hosts.deserialiseLines Hosts.new ls = .ok h) :
    ∃ ms, HSpec.mappings ls = .ok ms ∧
      (∀ n, h.v4.get n = v4Of (HSpec.lastMapping ms n true)) ∧
      (∀ n, h.v6.get n = v6Of (HSpec.lastMapping ms n false)) := by
  rw [deserialiseLines_eq] at hd
  cases hm : HSpec.mappings ls with
  | error e => rw [hm] at hd; cases hd
  | ok ms =>
    rw [hm] at hd
    injection hd with hd
    subst hd
    refine ⟨ms, rfl, ?_, ?_⟩
    · intro n
      rw [foldl_applyMapping_v4]
      cases HSpec.lastMapping ms n true <;> rfl
    · intro n
      rw [foldl_applyMapping_v6]
      cases HSpec.lastMapping ms n false <;> rfl

/-- … and an error of the loop is the error of the first bad line. -/
theorem C14_first_error (ls : List (List Char)) (e : HErr)
    (hd : Hosts.deserialiseLines Hosts.new ls = .error e) : HSpec.mappings ls = .error e := by
  rw [deserialiseLines_eq] at hd
  cases hm : HSpec.mappings ls with
  | error e' => rw [hm] at hd; injection hd with hd; rw [hd]
  | ok ms => rw [hm] at hd; cases hd

/-- `Hosts::merge` (several hosts files, C12): the entry of the file merged in later wins per
    (name, family), every other entry stays. -/
theorem C14_merge_later_wins (h o : Hosts) (n4 : o.v4.KeysNodup) (n6 : o.v6.KeysNodup) (n : Name) :
    (h.merge o).v4.get n = (o.v4.get n).or (h.v4.get n) ∧
    (h.merge o).v6.get n = (o.v6.get n).or (h.v6.get n) :=
  merge_get h o n4 n6 n

/-! ## C17: the hosts reader never panics -/

/-- No `&line[a..b]` of `parse_line` can panic: every slice the loop takes lies in the ASCII-checked
    prefix of the line (the model's explicit `panic` result is unreachable), for every line. -/
theorem C17_parse_line_total (l : List Char) : parseLine l ≠ .error .panic := parseLine_ne_panic l

/-- … hence `Hosts::deserialise` never panics either, on any text. -/
theorem C17_hosts_deserialise_total (s : List Char) : Hosts.deserialise s ≠ .error .panic := by
  have := deserialise_refines_spec s
  intro hp
  cases hs : HSpec.parse s with
  | ok h' => rw [hs] at this; obtain ⟨h, hh, _⟩ := this; rw [hp] at hh; cases hh
  | error e =>
    rw [hs] at this
    rw [this] at hp
    injection hp with hp
    subst hp
    -- the specification never says `panic`
    unfold HSpec.parse at hs
    cases hm : HSpec.mappings (HSpec.lines s) with
    | ok ms => rw [hm] at hs; cases hs
    | error e' =>
      rw [hm] at hs
      injection hs with hs
      subst hs
      have : ∀ ls, HSpec.mappings ls ≠ .error .panic := by
        intro ls
        induction ls with
        | nil => simp [HSpec.mappings]
        | cons l ls ih =>
          rw [HSpec.mappings]
          cases hl : HSpec.parseLine l with
          | error e'' =>
            intro h; injection h with h; subst h
            exact spec_parseLine_ne_panic l hl
          | ok r =>
            simp only
            cases hms : HSpec.mappings ls with
            | error e'' => intro h; injection h with h; subst h; exact ih hms
            | ok ms => cases r <;> simp
      exact this _ hm

/-! ## (b) hosts data ⇄ zone -/

/-- Converting hosts data with well-formed names never panics (`from_labels(..).unwrap()` inside
    `ZoneRecords::insert` always succeeds). -/
theorem C14_toZone_total (h : Hosts) (wf : HostsNamesWF h) : ∃ z, h.toZone = some z :=
  toZone_isSome h wf

/-- The zone of hosts data (well-formed names, no key twice — the `HashMap` invariant) holds exactly
    one record per mapping — `|v4| + |v6|` records, no wildcard records — each an A / AAAA record with
    TTL `HOSTS_TTL` carrying the mapped address of its owner. -/
theorem C14_zone_records (h : Hosts) (wf : HostsNamesWF h) (n4 : h.v4.KeysNodup) (n6 : h.v6.KeysNodup)
    (z : Zone) (hz : h.toZone = some z) :
    (Hosts.flattenRecords z.allRecords).length = h.v4.length + h.v6.length ∧
    z.allWildcardRecords = [] ∧
    ∀ nz ∈ Hosts.flattenRecords z.allRecords, nz.2.ttl = Gen.HOSTS_TTL ∧
      ((nz.2.rtype = RT_A ∧ ∃ a, nz.2.fields = [.a a] ∧ h.v4.get nz.1 = some a) ∨
       (nz.2.rtype = RT_AAAA ∧ ∃ g, nz.2.fields = [.aaaa g] ∧ h.v6.get nz.1 = some g)) :=
  toZone_records h wf n4 n6 z hz

/-- … which converts back to the same hosts data (same lookup for every name) … -/
theorem C14_zone_roundtrip (h : Hosts) (wf : HostsNamesWF h) (n4 : h.v4.KeysNodup) (n6 : h.v6.KeysNodup)
    (z : Zone) (hz : h.toZone = some z) :
    ∃ h', Hosts.tryFromZone z = .ok h' ∧ Hosts.Equiv h' h :=
  zone_roundtrip h wf n4 n6 z hz

/-- … and resolves every mapping to its address: the hosts zone has neither NS nor CNAME records, so
    the answer is the single A (AAAA) record, TTL 5, class IN — also for the root name. -/
theorem C14_resolves (h : Hosts) (wf : HostsNamesWF h) (n4 : h.v4.KeysNodup) (n6 : h.v6.KeysNodup)
    (z : Zone) (hz : h.toZone = some z) (n : Name) :
    (∀ a, h.v4.get n = some a →
      z.resolve n RT_A = some (.answer [⟨n, RT_A, [.a a], CLASS_IN, Gen.HOSTS_TTL⟩])) ∧
    (∀ g, h.v6.get n = some g →
      z.resolve n RT_AAAA = some (.answer [⟨n, RT_AAAA, [.aaaa g], CLASS_IN, Gen.HOSTS_TTL⟩])) :=
  ⟨fun a hm => resolves_v4 h wf n4 n6 z hz n a hm, fun g hm => resolves_v6 h wf n4 n6 z hz n g hm⟩

/-- The hypotheses of the zone theorems hold for EVERYTHING `Hosts::deserialise` returns: names
    come out of `from_relative_dotted_string` (C16) and `HashMap::insert` keeps keys distinct.  So every
    hosts file that is read converts to a zone, back, and resolves. -/
theorem C14_read_data_converts (s : List Char) (h : Hosts) (hd : Hosts.deserialise s = .ok h) :
    HostsNamesWF h ∧ h.v4.KeysNodup ∧ h.v6.KeysNodup ∧
    ∃ z, h.toZone = some z ∧ (∃ h', Hosts.tryFromZone z = .ok h' ∧ Hosts.Equiv h' h) := by
  obtain ⟨wf, n4, n6⟩ := deserialise_good s h hd
  obtain ⟨z, hz⟩ := toZone_isSome h wf
  exact ⟨wf, n4, n6, z, hz, zone_roundtrip h wf n4 n6 z hz⟩

/-! ## (e) writing hosts data out and reading it back -/

instance (n : Name) : Decidable (WFName n) := by unfold WFName LabelOK; infer_instance
instance (n : Name) : Decidable (NameTextOK n) := by unfold NameTextOK; infer_instance
/-- `HostsWF` (Proofs/HostsTextLemmas.lean) is decidable: names well formed with labels made of
    ASCII octets other than white space, `#`, `.` (and upper case, by `WFName`); IPv4 values below
    2^32; IPv6 values eight groups below 2^16. -/
instance (h : Hosts) : Decidable (HostsWF h) := by unfold HostsWF; infer_instance

/-- `Hosts::deserialise(&hosts.serialise()) == Ok(hosts)` for all hosts data satisfying `HostsWF`:
    `serialise` does not panic, the text it writes is read without error, and the data read has the
    same lookup as `h` for every name in both families. -/
theorem C14_text_roundtrip (h : Hosts) (wf : HostsWF h) :
    ∃ text h', h.serialise = some text ∧ Hosts.deserialise text = .ok h' ∧ Hosts.Equiv h' h :=
  text_roundtrip h wf

/-- `HostsWF` is satisfiable (two names, the root among them; IPv4, `::1`, `fe80::1`). -/
example : HostsWF ⟨[(⟨[[97], [98], []], 5⟩, 16909060)],
    [(⟨[[97], [98], []], 5⟩, [0, 0, 0, 0, 0, 0, 0, 1]), (Name.root, [65152, 0, 0, 0, 0, 0, 0, 1])]⟩ := by
  decide

/-- The precondition is needed — D-H4: hosts data whose labels hold white space, `#`, `.` or octets
    ≥ 0x80 (such names can come from a zone file through `ztoh`, never from a hosts file) are
    written by `serialise` as text that reads back differently or not at all.  Here the label
    `a b` (one label) is read back as the two names `a.` and `b.` (`serialiseLoop` over the single
    domain = `serialise`, whose sort is a well-founded definition the kernel does not unfold). -/
example : ∃ text,
    Hosts.serialiseLoop ⟨[(⟨[[97, 32, 98], []], 5⟩, 1)], []⟩ [⟨[[97, 32, 98], []], 5⟩] = some text ∧
    Hosts.deserialise text = .ok ⟨[(⟨[[97], []], 3⟩, 1), (⟨[[98], []], 3⟩, 1)], []⟩ := by
  refine ⟨_, rfl, ?_⟩
  rfl

/-! ## print-then-parse of addresses (std model) -/

/-- `Ipv4Addr`: `from_str (to_string a) = a` for every address. -/
theorem C14_ipv4_print_parse (a : Nat) (h : a < 4294967296) :
    Ip.parseIpAddr (Ip.showIpv4 a) = some (.v4 a) := ipv4_print_parse a h

/-- `Ipv6Addr`: `from_str (to_string a) = a` for every address (all zero-group patterns, the
    `::ffff:a.b.c.d` form, `::`, …). -/
theorem C14_ipv6_print_parse (gs : List Nat) (hl : gs.length = 8) (hg : ∀ g ∈ gs, g < 65536) :
    Ip.parseIpAddr (Ip.showIpv6 gs) = some (.v6 gs) := ipv6_print_parse gs hl hg

/-- what `Display` writes for an address is a hosts-file field: digits, `a`–`f`, `:` and `.` only
    (ASCII, no blank, no `#`, no `%`), and not empty. -/
theorem C14_address_text_is_a_field (x : IpAddr) (h : Ip.WF x) :
    (∀ b ∈ Ip.showIpAddr x, Ip.isAddrByte b = true) ∧ Ip.showIpAddr x ≠ [] := showIpAddr_bytes x h

end Resolved
