/-
  C02 — Zone lookup follows the standard authoritative-server algorithm.
  A. the clauses the property singles out, proved directly on the tree model for every node / name /
     type (`zone_result_helper`: answer / CNAME / referral clauses, CNAME precedence; `resolve`:
     existing names never yield a name error, a name error only where the path stops).
  B. MAIN: the whole lookup of every zone built by `Zone::new` + any insertions refines the flat,
     tree-free specification `ZSpec.lookup` (Spec/ZoneSpec.lean) under hypothesis D1
     (`C02_resolve_refines_spec`); insertion and lookup never panic.
  Helper lemmas: Proofs/Zone*.lean.
-/
import Resolved.Spec.ZoneSpec
import Resolved.Proofs.ZoneLemmas
import Resolved.Proofs.ZoneMain

namespace Resolved

open Gen

/-- `zone_result_helper` never produces a referral when delegation is switched off (the apex). -/
theorem zoneResultHelper_no_deleg (name : Name) (qtype : Nat) (records : RecMap) (nsd : Name) :
    ∀ rrs, zoneResultHelper name qtype records nsd false ≠ .delegation rrs := by
  intro rrs
  unfold zoneResultHelper
  simp only [Bool.false_and, Bool.false_eq_true, if_false]
  split
  · rename_i r h
    split at h <;> try (cases h)
    all_goals (split at h <;> (try split at h) <;> cases h <;> simp)
  · split <;> (try split) <;> simp

/-- The apex, whatever NS records it carries, never yields a referral, for any query type. -/
theorem C02_apex_never_referral (node : ZNode) (name : Name) (qtype : Nat) :
    ∀ rrs, node.resolve name qtype [] true ≠ .delegation rrs := by
  intro rrs
  rw [ZNode.resolve]
  split
  · exact zoneResultHelper_no_deleg _ _ _ _ rrs
  · rename_i h; simp at h

/-- A name missing directly beneath the apex (no such child, no wildcard at the apex) is a name
    error — never a referral to the zone's own name servers. -/
theorem C02_missing_beneath_apex_is_nameerror (node : ZNode) (name : Name) (qtype : Nat)
    (rel : List Label) (lbl : Label) (h : rel.getLast? = some lbl)
    (hc : ZNode.childGet node.children lbl = none) (hw : node.wildcards = none) :
    node.resolve name qtype rel true = .nameError := by
  rw [ZNode.resolve]
  split
  · rename_i h'; rw [h] at h'; cases h'
  · rename_i l h'
    rw [h] at h'; cases h'
    simp [hc, hw]

/-- An existing name with no data at all (an empty non-terminal) yields an empty answer. -/
theorem C02_ent_empty_answer (nsd : Name) (wild : Option RecMap) (ch : List (Label × ZNode))
    (name : Name) (qtype : Nat) (isApex : Bool) :
    (ZNode.mk nsd [] wild ch).resolve name qtype [] isApex = .answer [] := by
  rw [ZNode.resolve]
  split
  · unfold zoneResultHelper
    simp only [ZNode.this, RecMap.get]
    cases hq : lookupNat queryTypeFromU16 qtype with
    | none => simp
    | some s => simp; split <;> simp
  · rename_i h; simp at h

/-! ## A. clause theorems on the tree model -/

/-- A1 (answer): every record of an answer is a record stored at the node (with the query's owner
    name), and for an ordinary (non-QTYPE) query type it is stored under exactly that type. -/
theorem C02_answer_records_are_zone_records (name : Name) (qtype : Nat) (records : RecMap)
    (nsd : Name) (cd : Bool) (rrs : List RR)
    (h : zoneResultHelper name qtype records nsd cd = .answer rrs) :
    ∀ rr ∈ rrs, ∃ k zrs zr, (k, zrs) ∈ records ∧ zr ∈ zrs ∧ rr = zr.toRR name ∧
      (lookupNat queryTypeFromU16 qtype = none → k = qtype) := by
  rw [zoneResultHelper_eq] at h
  split at h
  · cases h
  · exact helperData_answer name qtype records rrs h

/-- A1 (cname): a CNAME result is the FIRST stored CNAME record, `c` is its target, and the query
    type is neither CNAME nor ANY. -/
theorem C02_cname_result_is_first_cname (name : Name) (qtype : Nat) (records : RecMap)
    (nsd : Name) (cd : Bool) (c : Name) (rr : RR)
    (h : zoneResultHelper name qtype records nsd cd = .cname c rr) :
    ∃ z zs, records.get RT_CNAME = some (z :: zs) ∧ z.fields = [.name c] ∧ rr = z.toRR name ∧
      rtypeMatches RT_CNAME qtype = false := by
  rw [zoneResultHelper_eq] at h
  split at h
  · cases h
  · exact helperData_cname name qtype records c rr h

/-- A1 (delegation): a referral is exactly the (non-empty) NS record set, owned by `nsd`; it is only
    produced where delegation is allowed and never for an NS query. -/
theorem C02_delegation_result_is_ns_set (name : Name) (qtype : Nat) (records : RecMap)
    (nsd : Name) (cd : Bool) (rrs : List RR)
    (h : zoneResultHelper name qtype records nsd cd = .delegation rrs) :
    cd = true ∧ qtype ≠ RT_NS ∧ rrs ≠ [] ∧
      ∃ z zs, records.get RT_NS = some (z :: zs) ∧ rrs = (z :: zs).map (·.toRR nsd) := by
  obtain ⟨h1, h2, z, zs, h3, h4⟩ := (zoneResultHelper_delegation_iff _ _ _ _ _ _).mp h
  exact ⟨h1, h2, by simp [h4], z, zs, h3, h4⟩

/-- A2: where no delegation applies, a stored CNAME takes precedence over data for every query
    type other than CNAME and ANY … -/
theorem C02_cname_precedence (name : Name) (qtype : Nat) (records : RecMap) (nsd : Name) (cd : Bool)
    (z : ZoneRecord) (zs : List ZoneRecord) (c : Name)
    (hcn : records.get RT_CNAME = some (z :: zs)) (hf : z.fields = [.name c])
    (hnd : cd = false ∨ qtype = RT_NS ∨ records.get RT_NS = none ∨ records.get RT_NS = some [])
    (hq : rtypeMatches RT_CNAME qtype = false) :
    zoneResultHelper name qtype records nsd cd = .cname c (z.toRR name) := by
  rw [zoneResultHelper_no_deleg_eq, helperData_cname_of name qtype records z zs c hcn hf hq]
  rcases hnd with h | h | h | h
  · exact Or.inl h
  · exact Or.inr (Or.inl h)
  · exact Or.inr (Or.inr (by simp [nsOf, h]))
  · exact Or.inr (Or.inr (by simp [nsOf, h]))

/-- … and a CNAME or ANY query is never answered with a CNAME indirection. -/
theorem C02_cname_query_never_cname_result (name : Name) (qtype : Nat) (records : RecMap) (nsd : Name)
    (cd : Bool) (hq : rtypeMatches RT_CNAME qtype = true) :
    ∀ c rr, zoneResultHelper name qtype records nsd cd ≠ .cname c rr := by
  intro c rr h
  obtain ⟨_, _, _, _, _, hm⟩ := C02_cname_result_is_first_cname _ _ _ _ _ _ _ h
  rw [hq] at hm; cases hm

/-- `rtypeMatches RT_CNAME qtype` holds exactly for CNAME (5) and ANY (255). -/
theorem C02_cname_matches_iff (qtype : Nat) :
    rtypeMatches RT_CNAME qtype = true ↔ qtype = 5 ∨ qtype = 255 := by
  unfold rtypeMatches
  rw [lookupNat_qt]
  by_cases h1 : qtype = 252
  · subst h1; simp
  by_cases h2 : qtype = 253
  · subst h2; simp
  by_cases h3 : qtype = 254
  · subst h3; simp
  by_cases h4 : qtype = 255
  · subst h4; simp
  simp only [h1, h2, h3, h4, if_false, RT_CNAME, or_false]
  rw [beq_iff_eq]; exact eq_comm

/-- A3: a name whose full path exists in the tree never yields a name error; the result is
    `zone_result_helper` on the record sets of the node owning the name, and delegation is switched
    off exactly when that node is the apex. -/
theorem C02_existing_name_never_nameerror (node : ZNode) (name : Name) (qtype : Nat)
    (rel : List Label) (isApex : Bool) (h : PathExists node rel) :
    node.resolve name qtype rel isApex ≠ .nameError ∧
    ∃ n, node.nodeAt rel = some n ∧
      node.resolve name qtype rel isApex =
        zoneResultHelper name qtype n.this n.nsdname (!(isApex && rel.isEmpty)) := by
  obtain ⟨n, hn⟩ := (pathExists_iff_nodeAt node rel).mp h
  have := resolve_of_nodeAt node n name qtype rel isApex hn
  exact ⟨by rw [this]; exact zoneResultHelper_ne_nameError _ _ _ _ _, n, hn, this⟩

/-- A3: a name error is only produced when the path does not exist: the descent stopped at an
    existing node (owner `suf`) that has no child for the next label, no wildcard set, and is either
    the apex or carries no NS records. -/
theorem C02_nameerror_only_when_absent (node : ZNode) (name : Name) (qtype : Nat)
    (rel : List Label) (isApex : Bool) (h : node.resolve name qtype rel isApex = .nameError) :
    ¬ PathExists node rel ∧
    ∃ pre lbl suf n, rel = pre ++ lbl :: suf ∧ node.nodeAt suf = some n ∧
      ZNode.childGet n.children lbl = none ∧ n.wildcards = none ∧
      ((isApex = true ∧ suf = []) ∨ nsOf n.this = []) := by
  have hne : ¬ PathExists node rel := fun hp =>
    (C02_existing_name_never_nameerror node name qtype rel isApex hp).1 h
  refine ⟨hne, ?_⟩
  obtain ⟨pre, lbl, suf, n, hrel, hn, hc, hres⟩ :=
    resolve_of_not_pathExists node name qtype rel isApex hne
  rw [hres] at h
  obtain ⟨hw, hor⟩ := stopResult_nameError _ _ _ _ _ h
  refine ⟨pre, lbl, suf, n, hrel, hn, hc, hw, ?_⟩
  rcases hor with ha | hns
  · left; simpa using ha
  · exact Or.inr hns

/-- A3 (converse direction at a non-apex node): an absent name beneath a node with NS records and no
    wildcard set is referred, not denied. -/
theorem C02_absent_beneath_ns_is_referral (node n : ZNode) (name : Name) (qtype : Nat)
    (pre suf : List Label) (lbl : Label) (z : ZoneRecord) (zs : List ZoneRecord)
    (hn : node.nodeAt suf = some n) (hsuf : suf ≠ [])
    (hc : ZNode.childGet n.children lbl = none) (hw : n.wildcards = none)
    (hns : n.this.get RT_NS = some (z :: zs)) :
    node.resolve name qtype (pre ++ lbl :: suf) true =
      .delegation ((z :: zs).map (·.toRR n.nsdname)) := by
  have hd : node.descend suf.reverse = some n := hn
  rw [ZNode.resolve_eq_rev]
  have : (pre ++ lbl :: suf).reverse = suf.reverse ++ lbl :: pre.reverse := by simp
  rw [this, ZNode.resolveRev_descend name qtype _ _ node n true hd, ZNode.resolveRev_stop _ _ _ _ _ _ hc]
  simp [ZNode.stopResult, hw, hns, hsuf]

/-! ## B. refinement of the tree to the flat specification `ZSpec.lookup`

  Definitions used in the statements (Proofs/ZoneOps.lean, Proofs/ZoneMain.lean):
  * `ZoneOp` — one `Zone::insert` / `Zone::insert_wildcard` call;
  * `Zone.build apex soa ops` — `Zone::new` followed by the calls (`none` = a modelled panic);
    `Zone.Reachable apex soa ops z` is the same as an inductive predicate;
  * `ZSpec.entriesOf apex soa ops` — the flat entry list of the configuration (SOA entry first, one
    entry per insertion, TTL clamped by `actual_ttl`, names outside the apex skipped) — the same
    list as `entriesOf` of Driver/ZoneCmds.lean;
  * `NameOK n` — `n` is a name `from_labels` builds (`from_labels n.labels = some n`). -/

/-- names satisfying C16's well-formedness are `NameOK`. -/
theorem nameOK_of_shape (n : Name) (h1 : LabelsShape n.labels)
    (h2 : n.len = n.labels.length + sumLen n.labels) (h3 : n.len ≤ DOMAINNAME_MAX_LEN) : NameOK n := by
  unfold NameOK
  rw [fromLabels_eq, if_pos ⟨h1, by omega⟩]
  cases n; simp_all

/-- MAIN THEOREM (C02): for every zone built by any sequence of insertions, every well-formed query
    name under the apex and every query type, under hypothesis D1 the tree lookup returns what the
    flat RFC 1034 §4.3.2 / RFC 4592 specification prescribes (up to the order of the records inside
    an answer). -/
theorem C02_resolve_refines_spec (apex : Name) (soa : Option SOA) (ops : List ZoneOp) (z : Zone)
    (qname : Name) (qtype : Nat) (rel : List Label)
    (hapex : NameOK apex) (hq : NameOK qname)
    (hb : Zone.build apex soa ops = some z)
    (hrel : z.relativeDomain qname = some rel)
    (hd1 : ZSpec.d1 (ZSpec.entriesOf apex soa ops) = true) :
    ZSpec.sameResult (z.records.resolve qname qtype rel true)
      (ZSpec.lookup (ZSpec.entriesOf apex soa ops) apex qname rel qtype) = true := by
  have hr := Zone.repr_build apex soa ops z hapex hb
  have hl := Zone.relativeDomain_some hrel
  rw [hr.apex_eq] at hl
  exact resolve_refines_lookup hr.tree hr.root_name hq rel hl hd1

/-- The same for `Zone::resolve`: a name under the apex always gets a result, and it is the
    specification's; a name outside the apex gets none. -/
theorem C02_zone_resolve_refines_spec (apex : Name) (soa : Option SOA) (ops : List ZoneOp) (z : Zone)
    (qname : Name) (qtype : Nat)
    (hapex : NameOK apex) (hq : NameOK qname)
    (hb : Zone.build apex soa ops = some z)
    (hd1 : ZSpec.d1 (ZSpec.entriesOf apex soa ops) = true) :
    (qname.isSubdomainOf apex = true →
      ∃ rel r, rel ++ apex.labels = qname.labels ∧ z.resolve qname qtype = some r ∧
        ZSpec.sameResult r (ZSpec.lookup (ZSpec.entriesOf apex soa ops) apex qname rel qtype) = true) ∧
    (qname.isSubdomainOf apex = false → z.resolve qname qtype = none) := by
  have hr := Zone.repr_build apex soa ops z hapex hb
  constructor
  · intro hsub
    obtain ⟨rel, hrel⟩ := Zone.relativeDomain_isSome (z := z) (by rw [hr.apex_eq]; exact hsub)
    refine ⟨rel, z.records.resolve qname qtype rel true, ?_, ?_, ?_⟩
    · have := Zone.relativeDomain_some hrel; rwa [hr.apex_eq] at this
    · simp [Zone.resolve, hrel]
    · exact C02_resolve_refines_spec apex soa ops z qname qtype rel hapex hq hb hrel hd1
  · intro hsub
    simp [Zone.resolve, Zone.relativeDomain, hr.apex_eq, hsub]

/-- The same phrased with the inductive reachability predicate. -/
theorem C02_reachable_refines_spec (apex : Name) (soa : Option SOA) (ops : List ZoneOp) (z : Zone)
    (qname : Name) (qtype : Nat) (rel : List Label)
    (hapex : NameOK apex) (hq : NameOK qname)
    (hb : Zone.Reachable apex soa ops z)
    (hrel : z.relativeDomain qname = some rel)
    (hd1 : ZSpec.d1 (ZSpec.entriesOf apex soa ops) = true) :
    ZSpec.sameResult (z.records.resolve qname qtype rel true)
      (ZSpec.lookup (ZSpec.entriesOf apex soa ops) apex qname rel qtype) = true :=
  C02_resolve_refines_spec apex soa ops z qname qtype rel hapex hq
    ((Zone.reachable_iff_build apex soa ops z).mp hb) hrel hd1

/-- The representation invariant behind the main theorem, for use by other properties: a node
    exists exactly at the names that exist in the specification's sense, and the record sets /
    wildcard sets of the node at `rel` are the entries owned at `rel`, per type in configuration
    order without duplicates. -/
theorem C02_tree_represents_entries (apex : Name) (soa : Option SOA) (ops : List ZoneOp) (z : Zone)
    (hapex : NameOK apex) (hb : Zone.build apex soa ops = some z) (rel : List Label) :
    (PathExists z.records rel ↔ ZSpec.existsNode (ZSpec.entriesOf apex soa ops) rel = true) ∧
    (∀ n, z.records.nodeAt rel = some n →
      (∀ k, (n.this.get k).getD [] =
          ZSpec.ofType (ZSpec.recordsAt (ZSpec.entriesOf apex soa ops) rel false) k) ∧
      (∀ k, ((n.wildcards.getD []).get k).getD [] =
          ZSpec.ofType (ZSpec.recordsAt (ZSpec.entriesOf apex soa ops) rel true) k) ∧
      (n.wildcards = none ↔ ZSpec.recordsAt (ZSpec.entriesOf apex soa ops) rel true = []) ∧
      ZSpec.absName rel apex = some n.nsdname) := by
  have hr := Zone.repr_build apex soa ops z hapex hb
  constructor
  · rw [pathExists_iff_descend, hr.tree.exist, List.reverse_reverse]
  · intro n hn
    have hv := hr.tree.recs rel.reverse
    have hn' : z.records.descend rel.reverse = some n := hn
    simp only [ZNode.baseView, hn', List.reverse_reverse, ZNode.view] at hv
    have hname := hr.tree.names rel.reverse n hn'
    rw [List.reverse_reverse, hr.root_name] at hname
    refine ⟨fun k => hv.1.get_eq k, ?_, ?_, hname⟩
    · intro k
      cases hw : n.wildcards with
      | none =>
        have := hv.2; rw [hw] at this; simp only [WildRepr] at this
        simp [this, ZSpec.ofType]
      | some ws =>
        have := hv.2; rw [hw] at this
        exact this.2.get_eq k
    · cases hw : n.wildcards with
      | none => have := hv.2; rw [hw] at this; simpa [WildRepr] using this
      | some ws =>
        have := hv.2; rw [hw] at this
        simp only [reduceCtorEq, false_iff]; exact this.1

/-- `Zone::insert` / `insert_wildcard` never panic on a configured zone: the `from_labels(..)
    .unwrap()` inside `ZoneRecords::insert` cannot fail, because the labels it is given are a suffix
    of the (valid) name being inserted. -/
theorem C02_insert_never_panics (apex : Name) (soa : Option SOA) (ops : List ZoneOp) (z : Zone)
    (name : Name) (rtype : Nat) (fields : List FieldVal) (ttl : Nat) (wild : Bool)
    (hapex : NameOK apex) (hb : Zone.build apex soa ops = some z) (hname : NameOK name) :
    (z.insert name rtype fields ttl wild).isSome := by
  have hr := Zone.repr_build apex soa ops z hapex hb
  exact Zone.insert_isSome z name rtype fields ttl wild hr.tree.names
    (hr.root_name.trans hr.apex_eq.symm) hname

/-- … hence building a zone from valid names never panics. -/
theorem C02_build_never_panics (apex : Name) (soa : Option SOA) (ops : List ZoneOp)
    (hapex : NameOK apex) (hops : ∀ op ∈ ops, NameOK op.name) :
    (Zone.build apex soa ops).isSome :=
  Zone.applyOps_isSome apex soa ops hops _ _ (Zone.repr_new apex soa hapex)

/-- tree-level form: on a tree whose node names spell their paths (`NamesOK`), inserting at a
    relative name that spells a valid name below the root succeeds. -/
theorem C02_node_insert_never_panics (node : ZNode) (rel : List Label) (zr : ZoneRecord) (wild : Bool)
    (hn : ZNode.NamesOK node) (hv : (Name.fromLabels (rel ++ node.nsdname.labels)).isSome) :
    (node.insert rel zr wild).isSome := by
  rw [ZNode.insert_eq_rev]
  exact ZNode.insertRev_isSome zr wild rel.reverse node hn (by simpa using hv)

/-- `Zone::resolve` never panics on a configured zone for a valid query name, provided every
    configured CNAME record carries a single name (`CnameFieldsOK`; the `panic!` of
    `zone_result_helper` guards exactly that) — D1 is NOT needed. -/
theorem C02_resolve_never_panics (apex : Name) (soa : Option SOA) (ops : List ZoneOp) (z : Zone)
    (qname : Name) (qtype : Nat)
    (hapex : NameOK apex) (hq : NameOK qname)
    (hb : Zone.build apex soa ops = some z)
    (hok : CnameFieldsOK (ZSpec.entriesOf apex soa ops)) :
    z.resolve qname qtype ≠ some .panic := by
  have hr := Zone.repr_build apex soa ops z hapex hb
  unfold Zone.resolve
  cases hrel : z.relativeDomain qname with
  | none => simp
  | some rel =>
    simp only [Option.map_some, ne_eq, Option.some.injEq]
    have hl := Zone.relativeDomain_some hrel
    rw [hr.apex_eq] at hl
    exact resolve_ne_panic qtype hr.tree hr.root_name hq rel hl hok

/-! ## non-vacuity: a concrete zone with a wildcard, a delegation, a duplicate and an out-of-zone
    record satisfies every hypothesis of the main theorem -/

namespace C02Example

def apex : Name := ⟨[[97], []], 3⟩               -- "a."
def w : Name := ⟨[[119], [97], []], 5⟩           -- "w.a."
def d : Name := ⟨[[100], [97], []], 5⟩           -- "d.a."
def xd : Name := ⟨[[120], [100], [97], []], 7⟩   -- "x.d.a."
def zz : Name := ⟨[[122], [97], []], 5⟩          -- "z.a."
def yw : Name := ⟨[[121], [119], [97], []], 7⟩   -- "y.w.a."
def ns : Name := ⟨[[110], []], 3⟩                -- "n."   (outside the zone)
def ca : Name := ⟨[[99], [97], []], 5⟩           -- "c.a."
def soa : SOA := ⟨ns, ns, 1, 2, 3, 4, 300⟩
def ops : List ZoneOp :=
  [ { name := w, rtype := 1, fields := [.a 1], ttl := 60, wild := false },
    { name := apex, rtype := 1, fields := [.a 9], ttl := 600, wild := true },       -- *.a. A
    { name := d, rtype := 2, fields := [.name ns], ttl := 600, wild := false },     -- d.a. NS n.
    { name := w, rtype := 1, fields := [.a 2], ttl := 600, wild := false },
    { name := w, rtype := 1, fields := [.a 1], ttl := 60, wild := false },          -- duplicate
    { name := ns, rtype := 1, fields := [.a 1], ttl := 60, wild := false },         -- outside: skipped
    { name := ca, rtype := 5, fields := [.name w], ttl := 900, wild := false } ]    -- c.a. CNAME w.a.

def es : List ZSpec.Entry := ZSpec.entriesOf apex (some soa) ops

theorem names_ok : NameOK apex ∧ NameOK w ∧ NameOK d ∧ NameOK xd ∧ NameOK zz ∧ NameOK yw ∧ NameOK ns := by
  decide
theorem ops_ok : ∀ op ∈ ops, NameOK op.name := by decide
theorem d1_ok : ZSpec.d1 es = true := by unfold es; rw [ZSpec.entriesOf_eq]; decide
theorem es_len : es.length = 7 := by unfold es; rw [ZSpec.entriesOf_eq]; decide
theorem cname_ok : CnameFieldsOK es := by
  have h : es.all (fun e => e.zr.rtype != RT_CNAME ||
      (match e.zr.fields with | [.name _] => true | _ => false)) = true := by
    unfold es; rw [ZSpec.entriesOf_eq]; decide
  intro e he hr
  have := List.all_eq_true.mp h e he
  simp only [hr, bne_self_eq_false, Bool.false_or] at this
  split at this
  · rename_i c hc; exact ⟨c, hc⟩
  · cases this

/-- the zone builds (no panic) … -/
example : (Zone.build apex (some soa) ops).isSome :=
  C02_build_never_panics apex (some soa) ops names_ok.1 ops_ok

/-- for this zone a non-answer result of the specification is the result of `Zone::resolve`. -/
theorem resolve_eq_of_lookup (z : Zone) (hb : Zone.build apex (some soa) ops = some z) (q : Name)
    (qtype : Nat) (rel : List Label) (r : ZoneResult) (hq : NameOK q)
    (hrel : rel ++ apex.labels = q.labels) (hl : ZSpec.lookup es apex q rel qtype = r)
    (hna : ∀ x, r ≠ .answer x) : z.resolve q qtype = some r := by
  obtain ⟨h, _⟩ := C02_zone_resolve_refines_spec apex (some soa) ops z q qtype names_ok.1 hq hb d1_ok
  obtain ⟨rel', r', hrel', hres, hsame⟩ := h (by
    unfold Name.isSubdomainOf; rw [List.isSuffixOf_iff_suffix]; exact ⟨rel, hrel⟩)
  have : rel' = rel := List.append_cancel_right (hrel'.trans hrel.symm)
  subst this
  rw [show ZSpec.entriesOf apex (some soa) ops = es from rfl, hl] at hsame
  rw [hres]
  cases r' <;> cases r <;> simp_all [ZSpec.sameResult]

/-- … whatever tree the insertions produced, a query beneath the delegation point `d.a.` is
    referred to `n.` with the NS set owned by `d.a.` … -/
example (z : Zone) (hb : Zone.build apex (some soa) ops = some z) :
    z.resolve xd 1 = some (.delegation [⟨d, 2, [.name ns], 1, 600⟩]) :=
  resolve_eq_of_lookup z hb xd 1 [[120], [100]] _ names_ok.2.2.2.1 rfl
    (by unfold es; rw [ZSpec.entriesOf_eq]; decide) (by simp)

/-- … a name beneath the existing name `w.a.` (an existing name blocks the wildcard) is a name
    error … -/
example (z : Zone) (hb : Zone.build apex (some soa) ops = some z) :
    z.resolve yw 1 = some .nameError :=
  resolve_eq_of_lookup z hb yw 1 [[121], [119]] _ names_ok.2.2.2.2.2.1 rfl
    (by unfold es; rw [ZSpec.entriesOf_eq]; decide) (by simp)

/-- … an A query at the alias `c.a.` yields the CNAME indirection … -/
example (z : Zone) (hb : Zone.build apex (some soa) ops = some z) :
    z.resolve ca 1 = some (.cname w ⟨ca, 5, [.name w], 1, 900⟩) :=
  resolve_eq_of_lookup z hb ca 1 [[99]] _ (by decide) rfl
    (by unfold es; rw [ZSpec.entriesOf_eq]; decide) (by simp)

/-- … and the specification synthesises `z.a. A` from `*.a.` (TTL as configured, above the SOA
    minimum) and answers `w.a. A` with the two distinct records, the first TTL clamped to 300. -/
example :
    ZSpec.lookup es apex zz [[122]] 1 = .answer [⟨zz, 1, [.a 9], 1, 600⟩] ∧
    ZSpec.lookup es apex w [[119]] 1 = .answer [⟨w, 1, [.a 1], 1, 300⟩, ⟨w, 1, [.a 2], 1, 600⟩] := by
  unfold es; rw [ZSpec.entriesOf_eq]; decide

/-- `Zone::resolve` never panics here. -/
example (z : Zone) (hb : Zone.build apex (some soa) ops = some z) (qtype : Nat) :
    z.resolve zz qtype ≠ some .panic :=
  C02_resolve_never_panics apex (some soa) ops z zz qtype names_ok.1 names_ok.2.2.2.2.1 hb cname_ok

/-- clause theorems on a literal tree: `w.a.` under the apex `a.`, with a CNAME at `c.a.`. -/
def tree : ZNode :=
  .mk apex [(6, [Zone.soaRecord soa])] none
    [([119], .mk w [(1, [⟨1, [.a 1], 300⟩])] none []),
     ([99], .mk ca [(5, [⟨5, [.name w], 300⟩])] none []),
     ([100], .mk d [(2, [⟨2, [.name ns], 600⟩])] none [])]

example : PathExists tree [[119]] :=
  PathExists.step tree _ [] [119] rfl (PathExists.here _)

example : tree.resolve w 1 [[119]] true = .answer [⟨w, 1, [.a 1], 1, 300⟩] := by
  rw [ZNode.resolve_eq_rev]; rfl

example : tree.resolve ca 1 [[99]] true = .cname w ⟨ca, 5, [.name w], 1, 300⟩ := by
  rw [ZNode.resolve_eq_rev]; rfl

example : tree.resolve xd 1 [[120], [100]] true = .delegation [⟨d, 2, [.name ns], 1, 600⟩] := by
  rw [ZNode.resolve_eq_rev]; rfl

example : tree.resolve zz 1 [[122]] true = .nameError := by
  rw [ZNode.resolve_eq_rev]; rfl

/-- D1 is NECESSARY: with a record beneath the delegation point `d.a.` (so D1 fails) the tree
    answers `x.d.a. A` authoritatively, whereas the specification refers the query to `n.`. -/
def opsNonD1 : List ZoneOp :=
  [ { name := d, rtype := 2, fields := [.name ns], ttl := 600, wild := false },
    { name := xd, rtype := 1, fields := [.a 5], ttl := 600, wild := false } ]

def treeNonD1 : ZNode :=
  .mk apex [] none
    [([100], .mk d [(2, [⟨2, [.name ns], 600⟩])] none
       [([120], .mk xd [(1, [⟨1, [.a 5], 600⟩])] none [])])]

example :
    Zone.build apex none opsNonD1 = some ⟨apex, none, treeNonD1⟩ ∧
    treeNonD1.resolve xd 1 [[120], [100]] true = .answer [⟨xd, 1, [.a 5], 1, 600⟩] ∧
    ZSpec.d1 (ZSpec.entriesOf apex none opsNonD1) = false ∧
    ZSpec.lookup (ZSpec.entriesOf apex none opsNonD1) apex xd [[120], [100]] 1 =
      .delegation [⟨d, 2, [.name ns], 1, 600⟩] := by
  refine ⟨?_, ?_, ?_, ?_⟩
  · simp only [Zone.build, opsNonD1, Zone.applyOps, Zone.applyOp, Zone.insert_eq_insertRev]
    rfl
  · rw [ZNode.resolve_eq_rev]; rfl
  · rw [ZSpec.entriesOf_eq]; decide
  · rw [ZSpec.entriesOf_eq]; decide

end C02Example

end Resolved
