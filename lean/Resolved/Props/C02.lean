/-
  C02 — Zone lookup follows the standard authoritative-server algorithm.
  FIRST-CLAIM version: the clauses the property singles out, proved directly on the tree model for
  every node / name / type.  The refinement of the whole lookup to the flat specification
  `ZSpec.lookup` (Spec/ZoneSpec.lean) under D1 is the next theorem (see DESIGN §7 C02); until it
  closes, that statement is checked by the Impl-vs-Spec oracle on the streams only.
-/
import Resolved.Spec.ZoneSpec

namespace Resolved

open Gen

/-- `zone_result_helper` never produces a referral when delegation is switched off (the apex). -/
theorem zoneResultHelper_no_deleg (name : Name) (qtype : Nat) (records : RecMap) (nsd : Name) :
    ∀ rrs, zoneResultHelper name qtype records nsd false ≠ .delegation rrs := by
  intro rrs
  unfold zoneResultHelper
  simp only [Bool.false_and, Bool.false_eq_true, if_false]
  split
  · rename_i r h
    split at h <;> try (cases h)
    all_goals (split at h <;> (try split at h) <;> cases h <;> simp)
  · split <;> (try split) <;> simp

/-- The apex, whatever NS records it carries, never yields a referral, for any query type. -/
theorem C02_apex_never_referral (node : ZNode) (name : Name) (qtype : Nat) :
    ∀ rrs, node.resolve name qtype [] true ≠ .delegation rrs := by
  intro rrs
  rw [ZNode.resolve]
  split
  · exact zoneResultHelper_no_deleg _ _ _ _ rrs
  · rename_i h; simp at h

/-- A name missing directly beneath the apex (no such child, no wildcard at the apex) is a name
    error — never a referral to the zone's own name servers. -/
theorem C02_missing_beneath_apex_is_nameerror (node : ZNode) (name : Name) (qtype : Nat)
    (rel : List Label) (lbl : Label) (h : rel.getLast? = some lbl)
    (hc : ZNode.childGet node.children lbl = none) (hw : node.wildcards = none) :
    node.resolve name qtype rel true = .nameError := by
  rw [ZNode.resolve]
  split
  · rename_i h'; rw [h] at h'; cases h'
  · rename_i l h'
    rw [h] at h'; cases h'
    simp [hc, hw]

/-- An existing name with no data at all (an empty non-terminal) yields an empty answer. -/
theorem C02_ent_empty_answer (nsd : Name) (wild : Option RecMap) (ch : List (Label × ZNode))
    (name : Name) (qtype : Nat) (isApex : Bool) :
    (ZNode.mk nsd [] wild ch).resolve name qtype [] isApex = .answer [] := by
  rw [ZNode.resolve]
  split
  · unfold zoneResultHelper
    simp only [ZNode.this, RecMap.get]
    cases hq : lookupNat queryTypeFromU16 qtype with
    | none => simp
    | some s => simp; split <;> simp
  · rename_i h; simp at h

end Resolved
