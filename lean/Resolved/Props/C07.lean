/-
  C07 — Recursive resolution finds the authoritative answer in any delegation tree.

  "Each referral it follows is strictly closer to the question name than the previous one."
  Proved here over the machine, for every oracle, zones, cache, question, mode and host order:
  * the candidates the loop starts with are the name servers of a zone that encloses the
    question name (`C07_candidates_enclose`);
  * every iteration of the candidate loop either ends the loop or goes on with loop variables
    related by `LoopNext`, whose only step that changes the delegation in use is `referral`: to a
    zone that encloses the question name and has strictly more labels
    (`C07_candidateLoop_step`, `C07_referrals_strictly_closer`, `candidateLoop_referral_step`);
  * hence along any run of the loop the depth of the delegation in use never decreases, strictly
    increases at each referral followed, and never exceeds the number of labels of the question
    name (`C07_match_count_increases`) — so at most `labels` referrals are followed per question.
  The correctness statement over consistent universes is checked by the Impl-vs-Spec oracle on
  generated universes (expected answer computed from the authoritative data directly).
-/
import Resolved.Model.Resolver
import Resolved.Proofs.ResolverMachineLoop
import Resolved.Proofs.ResolverMachineExample

namespace Resolved

open Gen

set_option autoImplicit false

/-- The glue short-cut (an A/AAAA question answered from a referral) only ever returns a record
    of that referral, owned by the question name and of the asked type. -/
theorem C07_glue_shortcut_record (rrs : List RR) (target : Name) (rtype : Nat) (rr : RR)
    (h : getRecord rrs target rtype = some rr) : rr ∈ rrs ∧ rr.name = target ∧ rr.rtype = rtype := by
  unfold getRecord at h
  have h1 := List.find?_some h
  have h2 := List.mem_of_find?_eq_some h
  simp at h1
  exact ⟨h2, h1.2, h1.1⟩

/-- `candidate_nameservers` walks up from the given labels: the zone whose name servers it returns
    is an ancestor-or-self of the name (its labels are a suffix), and it comes with at least one
    host name. -/
theorem C07_candidates_enclose (st st' : St) (labels : List Label) (ns : Nameservers)
    (h : candidateNameservers st labels = (st', some ns)) :
    ns.name.labels <:+ labels ∧ ns.hostnames ≠ [] :=
  candidateNameservers_suffix labels st st' ns h

/-- … so the candidates `resolveRec` starts from (when local data holds no delegation) are for a
    zone enclosing the question name, at most as deep as the question name. -/
theorem C07_initial_candidates_enclose (st st' : St) (q : Question) (ns : Nameservers)
    (h : candidateNameservers st q.name.labels = (st', some ns)) :
    q.name.isSubdomainOf ns.name = true ∧ ns.matchCount ≤ q.name.labels.length := by
  obtain ⟨h1, _⟩ := candidateNameservers_suffix _ st st' ns h
  exact ⟨List.isSuffixOf_iff_suffix.mpr h1, h1.length_le⟩

/-- The referral step of the loop, unfolded: when the queried name server's reply validates as a
    delegation (and the glue short-cut does not apply), the loop goes on with the referral's hosts
    and `match_count` = the label count of the referral's zone, which is STRICTLY larger than the
    previous `match_count`, for a zone that encloses the question name. -/
theorem candidateLoop_referral_step (cfg : RecCfg) (fuel : Nat) (st1 : St) (q : Question) (combined : List RR)
    (mc : Nat) (addr : FieldVal) (rrs : List RR) (hosts : List Name) (zone : Name)
    (hlive : (queryNameserver cfg.oracle st1.run addr cfg.port q false).1.timedOut = false)
    (hresp : (queryNameserver cfg.oracle st1.run addr cfg.port q false).2.bind
        (fun res => validateNameserverResponse q res mc) = some (.delegation rrs hosts zone))
    (hglue : glueFor q rrs = none) :
    loopQuery cfg fuel st1 q combined mc addr =
      candidateLoop cfg fuel
        ⟨st1.ctx.cacheInsertAll rrs, (queryNameserver cfg.oracle st1.run addr cfg.port q false).1⟩
        q combined zone.labels.length (cfg.hostOrder hosts) [] true ∧
    zone.labels.length > mc ∧ q.name.isSubdomainOf zone = true ∧ hosts ≠ [] := by
  constructor
  · unfold loopQuery
    rw [hlive, hresp]
    simp only [Bool.false_eq_true, if_false, loopAfterReply, hglue]
  · cases hm : (queryNameserver cfg.oracle st1.run addr cfg.port q false).2 with
    | none => rw [hm] at hresp; cases hresp
    | some m =>
      rw [hm] at hresp
      exact C06_delegation_closer q m mc rrs hosts zone hresp

/-- Every iteration of the candidate loop either ends it (error, answer, or hand-over to
    `resolveCombined` for an alias) or goes on with loop variables related by `LoopNext`. -/
theorem C07_candidateLoop_step (cfg : RecCfg) (fuel : Nat) (q : Question) (combined : List RR) (a : LoopArgs) :
    LoopEnds cfg fuel q (candidateLoop cfg (fuel + 1) a.st q combined a.mc a.cands a.next a.locally) ∨
    ∃ a', LoopNext cfg q a a' ∧
      candidateLoop cfg (fuel + 1) a.st q combined a.mc a.cands a.next a.locally =
        candidateLoop cfg fuel a'.st q combined a'.mc a'.cands a'.next a'.locally :=
  candidateLoop_next cfg fuel q combined a

/-- Each referral followed is strictly closer to the question name than the delegation in use
    before it; every other step of the loop keeps the delegation. -/
theorem C07_referrals_strictly_closer (cfg : RecCfg) (q : Question) (a a' : LoopArgs)
    (h : LoopNext cfg q a a') :
    a'.mc = a.mc ∨
    (a.mc < a'.mc ∧ ∃ zone : Name, a'.mc = zone.labels.length ∧ q.name.isSubdomainOf zone = true) := by
  cases h with
  | skipFast | switchSlow | dropSlow => exact Or.inl rfl
  | referral st3 zone hosts h1 h2 h3 => exact Or.inr ⟨h1, zone, rfl, h2⟩

/-- Over a whole run of the loop (any number of iterations): the depth of the delegation in use
    never decreases and, started at most as deep as the question name (which the initial
    candidates are, `C07_initial_candidates_enclose`), never exceeds the question name's depth.
    Since each referral strictly increases it, at most `labels(question) − initial depth`
    referrals are followed for one question. -/
theorem C07_match_count_increases (cfg : RecCfg) (q : Question) (a b : LoopArgs) (h : LoopSteps cfg q a b) :
    a.mc ≤ b.mc ∧ (a.mc ≤ q.name.labels.length → b.mc ≤ q.name.labels.length) :=
  h.mc_mono

/-- The loop's value IS the value of the last iteration of a chain of `LoopNext` steps from its
    arguments (so everything the loop does happens at loop variables reached through steps whose
    only change of delegation is a strictly closer referral); that last iteration ends the loop
    unless the fuel is used up. -/
theorem C07_candidateLoop_run (cfg : RecCfg) (q : Question) (combined : List RR) (n : Nat) (a : LoopArgs) :
    ∃ (k : Nat) (a' : LoopArgs), k ≤ n ∧ LoopChain cfg q a k a' ∧
      candidateLoop cfg n a.st q combined a.mc a.cands a.next a.locally =
        candidateLoop cfg (n - k) a'.st q combined a'.mc a'.cands a'.next a'.locally ∧
      (n - k = 0 ∨ ∃ m, n - k = m + 1 ∧
        LoopEnds cfg m q (candidateLoop cfg (m + 1) a'.st q combined a'.mc a'.cands a'.next a'.locally)) :=
  candidateLoop_chain cfg q combined n a

/-- The loop cannot go on forever: with at most `H` hosts per referral, the natural number
    `(labels − match_count)·(2H+2) + width` strictly decreases at every iteration. -/
theorem C07_loop_measure_decreases (cfg : RecCfg) (q : Question) (a a' : LoopArgs) (H : Nat)
    (hH : ∀ hs, (cfg.hostOrder hs).length ≤ H) (h : LoopNext cfg q a a') (hmc : a.mc ≤ q.name.labels.length) :
    a'.measure q.name.labels.length H < a.measure q.name.labels.length H :=
  h.measure_lt H hH hmc

/-! ### Non-vacuity: the root hints of the example universe are found as candidates for `x.`,
    they enclose it, and a `referral` step exists. -/

example : ∃ st' ns, candidateNameservers ⟨exCtx, Run.empty⟩ exQ.name.labels = (st', some ns) ∧
    ns.name = Name.root ∧ ns.hostnames = [exRootNs] := by
  refine ⟨(candidateNameservers ⟨exCtx, Run.empty⟩ exQ.name.labels).1, ⟨[exRootNs], Name.root⟩, ?_, rfl, rfl⟩
  have h : (candidateNameservers ⟨exCtx, Run.empty⟩ exQ.name.labels).2 = some ⟨[exRootNs], Name.root⟩ := by
    decide +kernel
  rw [← h]

example : LoopNext exCfg exQ ⟨⟨exCtx, Run.empty⟩, 0, [exRootNs], [], true⟩
    ⟨⟨exCtx, Run.empty⟩, 2, exCfg.hostOrder [exRootNs], [], true⟩ :=
  LoopNext.referral _ _ exQName [exRootNs] (by decide) (by decide) (by decide)

end Resolved
