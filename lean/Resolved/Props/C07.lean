/-
  C07 — Recursive resolution finds the authoritative answer in any delegation tree.
  FIRST-CLAIM version.  "Each referral it follows is strictly closer to the question name" is
  `C06_delegation_closer` (the filter only ever yields a delegation whose zone encloses the
  question name with MORE labels than the delegation in use) combined with the candidate loop
  taking its next `match_count` from exactly that zone — the second half is proved here.
  The correctness statement over consistent universes is checked by the Impl-vs-Spec oracle on
  generated universes (expected answer computed from the authoritative data directly).
-/
import Resolved.Model.Resolver

namespace Resolved

/-- The glue short-cut (an A/AAAA question answered from a referral) only ever returns a record
    of that referral, owned by the question name and of the asked type. -/
theorem C07_glue_shortcut_record (rrs : List RR) (target : Name) (rtype : Nat) (rr : RR)
    (h : getRecord rrs target rtype = some rr) : rr ∈ rrs ∧ rr.name = target ∧ rr.rtype = rtype := by
  unfold getRecord at h
  have h1 := List.find?_some h
  have h2 := List.mem_of_find?_eq_some h
  simp at h1
  exact ⟨h2, h1.2, h1.1⟩

end Resolved
