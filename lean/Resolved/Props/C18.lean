/-
  C18 — The resolver honours the configured address family and upstream port.

  The recursive and forwarding machines run over an ARBITRARY upstream oracle and log every
  transport attempt (`Run.log`).  Proved here, for every oracle, zones, cache, question, mode,
  host order and fuel:
  * every logged exchange of the recursive resolver goes to the configured port with RD clear and,
    under only-v4 / only-v6, to an address of that family (`C18_machine_log_inv`, `C18_only`,
    `C18_port`) — there is no fallback to the other family because the only addresses the loop
    ever queries come out of `tryTypes`, which under only-vX looks up the single type X
    (`C18_tryTypes_family`);
  * under prefer-vX the address lookup asks for X's type first and yields an address of the other
    family only if the X lookup produced no address (`C18_prefer_order_v4/v6`,
    `C18_prefer_first_v4/v6`);
  * the forwarding resolver contacts only the configured forwarder, on the configured port, with
    RD set (`C18_forward_only`);
  * a question local data answers causes no exchange at all (`C18_local_answer_no_exchange`,
    `C18_local_answer_recursive`); authoritative-only mode (`resolveAuthoritativeOnly`) has no
    oracle and no `Run` in its type: it cannot contact anything.
-/
import Resolved.Model.Resolver
import Resolved.Proofs.ResolverMachineInv
import Resolved.Proofs.ResolverMachineExample

namespace Resolved

open Gen

set_option autoImplicit false

/-- only-v4 asks for A only, only-v6 for AAAA only; prefer-vX asks for X's type first. -/
theorem C18_lookup_types :
    rtypesFor .onlyV4 = [RT_A] ∧ rtypesFor .onlyV6 = [RT_AAAA] ∧
    rtypesFor .preferV4 = [RT_A, RT_AAAA] ∧ rtypesFor .preferV6 = [RT_AAAA, RT_A] := by
  refine ⟨rfl, rfl, rfl, rfl⟩

/-- `get_ip` for type A yields only IPv4 addresses and for AAAA only IPv6 addresses. -/
theorem C18_getIp_family (rrs : List RR) (target : Name) (rtype : Nat) (addr : FieldVal)
    (h : getIp rrs target rtype = some addr) :
    (rtype = RT_A → ∃ x, addr = .a x) ∧ (rtype = RT_AAAA → ∃ x, addr = .aaaa x) :=
  getIp_family rrs target rtype addr h

/-- What C18 demands of the exchange log of the recursive resolver. -/
def RecLogOK (cfg : RecCfg) (log : List Exchange) : Prop :=
  ∀ e ∈ log, e.port = cfg.port ∧ e.recursionDesired = false ∧
    (cfg.mode = .onlyV4 → ∃ x, e.addr = .a x) ∧ (cfg.mode = .onlyV6 → ∃ x, e.addr = .aaaa x)

theorem RecLogOK_iff (cfg : RecCfg) (log : List Exchange) : RecLogOK cfg log ↔ LogOK cfg.net log :=
  Iff.rfl

/-- The address a nameserver is contacted at always comes out of `tryTypes`; under only-v4 that
    is an IPv4 address and under only-v6 an IPv6 address, whatever zones, cache and upstream hold
    (an AAAA record for the host is simply never looked up under only-v4, and vice versa). -/
theorem C18_tryTypes_family (cfg : RecCfg) (fuel : Nat) (st : St) (locally : Bool) (hostname : Name)
    (addr : FieldVal) (h : (tryTypes cfg fuel st locally hostname (rtypesFor cfg.mode)).2 = some addr) :
    (cfg.mode = .onlyV4 → ∃ x, addr = .a x) ∧ (cfg.mode = .onlyV6 → ∃ x, addr = .aaaa x) :=
  tryTypes_family cfg fuel st locally hostname addr h

/-- `machine_log_inv`: each of the four mutually recursive functions of the recursive resolver
    preserves the log invariant, for any fuel and any arguments. -/
theorem C18_machine_log_inv (cfg : RecCfg) (fuel : Nat) :
    (∀ st q, RecLogOK cfg st.run.log → RecLogOK cfg (resolveRec cfg fuel st q).1.run.log) ∧
    (∀ st q combined mc cands next locally, RecLogOK cfg st.run.log →
      RecLogOK cfg (candidateLoop cfg fuel st q combined mc cands next locally).1.run.log) ∧
    (∀ st rrs q, RecLogOK cfg st.run.log → RecLogOK cfg (resolveCombined cfg fuel st rrs q).1.run.log) ∧
    (∀ st locally host types, RecLogOK cfg st.run.log →
      RecLogOK cfg (tryTypes cfg fuel st locally host types).1.run.log) := by
  obtain ⟨h1, h2, h3, h4⟩ := machine_good cfg fuel
  exact ⟨fun st q => (h1 st q).1.logOK, fun st q c m cs n l => (h2 st q c m cs n l).1.logOK,
    fun st r q => (h3 st r q).1.logOK, fun st l h t => (h4 st l h t).1.logOK⟩

/-- Every exchange of a whole recursive resolution satisfies the log invariant. -/
theorem C18_recursive_log (cfg : RecCfg) (ctx : Ctx) (q : Question) :
    RecLogOK cfg (resolveRecursive cfg ctx q).1.run.log :=
  (resolveRecursive_reach cfg ctx q).1.logOK (LogOK.nil _)

/-- Under only-v4 the recursive resolver contacts upstream nameservers solely at IPv4 addresses,
    under only-v6 solely at IPv6 addresses — for any upstream behaviour, zones and cache. -/
theorem C18_only (cfg : RecCfg) (ctx : Ctx) (q : Question) :
    ∀ e ∈ (resolveRecursive cfg ctx q).1.run.log,
      (cfg.mode = .onlyV4 → ∃ x, e.addr = .a x) ∧ (cfg.mode = .onlyV6 → ∃ x, e.addr = .aaaa x) :=
  fun e he => (C18_recursive_log cfg ctx q e he).2.2

/-- Every upstream query of the recursive resolver goes to the configured upstream port (and is
    an iterative query: RD clear). -/
theorem C18_port (cfg : RecCfg) (ctx : Ctx) (q : Question) :
    ∀ e ∈ (resolveRecursive cfg ctx q).1.run.log, e.port = cfg.port ∧ e.recursionDesired = false :=
  fun e he => ⟨(C18_recursive_log cfg ctx q e he).1, (C18_recursive_log cfg ctx q e he).2.1⟩

/-- In forwarding mode every exchange goes to the configured forwarder, on the configured port,
    with RD set — any fuel, any state with a conforming log. -/
theorem C18_forward_inv (cfg : FwdCfg) (fuel : Nat) (st : St) (q : Question)
    (h : ∀ e ∈ st.run.log, e.addr = cfg.addr ∧ e.port = cfg.port ∧ e.recursionDesired = true) :
    ∀ e ∈ (resolveFwd cfg fuel st q).1.run.log,
      e.addr = cfg.addr ∧ e.port = cfg.port ∧ e.recursionDesired = true := by
  have h0 : LogOK cfg.net st.run.log := fun e he => ⟨(h e he).2.1, (h e he).2.2, (h e he).1⟩
  intro e he
  obtain ⟨h1, h2, h3⟩ := (resolveFwd_good cfg fuel st q).1.logOK h0 e he
  exact ⟨h3, h1, h2⟩

theorem C18_forward_only (cfg : FwdCfg) (ctx : Ctx) (q : Question) :
    ∀ e ∈ (resolveForwarding cfg ctx q).1.run.log,
      e.addr = cfg.addr ∧ e.port = cfg.port ∧ e.recursionDesired = true := by
  intro e he
  obtain ⟨h1, h2, h3⟩ := (resolveForwarding_reach cfg ctx q).1.logOK (LogOK.nil _) e he
  exact ⟨h3, h1, h2⟩

/-- A question that local data (zones + cache) answers is answered without any upstream exchange:
    `resolveRec` returns with the run (log, clock) exactly as it got it. -/
theorem C18_local_answer_no_exchange (cfg : RecCfg) (fuel : Nat) (st : St) (q : Question) (r : ResolvedRecord)
    (h : (resolveLocal (RECURSION_LIMIT + 1) st.ctx q).2 = .ok (.done r)) :
    (resolveRec cfg (fuel + 1) st q).1.run = st.run ∧
    (st.run.timedOut = false → (resolveRec cfg (fuel + 1) st q).2 = .ok r) := by
  rw [resolveRec_succ]
  split
  · rename_i ht; exact ⟨rfl, fun hh => by rw [hh] at ht; cases ht⟩
  -- `resolveLocal` itself checks the two stack guards first, so they pass here
  have hl : st.ctx.atRecursionLimit = false := by
    cases hh : st.ctx.atRecursionLimit with
    | false => rfl
    | true => rw [resolveLocal] at h; simp [hh] at h
  have hd : st.ctx.isDuplicate q = false := by
    cases hh : st.ctx.isDuplicate q with
    | false => rfl
    | true => rw [resolveLocal] at h; simp [hl, hh] at h
  simp only [hl, hd, Bool.false_eq_true, if_false]
  rw [h]
  exact ⟨rfl, fun _ => rfl⟩

/-- … and so for a whole resolution: no exchange is logged, no time passes, the local answer is
    the result.  (Also C01: no upstream server is contacted for a question local data answers.) -/
theorem C18_local_answer_recursive (cfg : RecCfg) (ctx : Ctx) (q : Question) (r : ResolvedRecord)
    (h : (resolveLocal (RECURSION_LIMIT + 1) ctx q).2 = .ok (.done r)) :
    (resolveRecursive cfg ctx q).1.run = Run.empty ∧ (resolveRecursive cfg ctx q).2 = .ok r := by
  have h1 := C18_local_answer_no_exchange cfg (REC_FUEL - 1) ⟨ctx, Run.empty⟩ q r h
  have hf : REC_FUEL - 1 + 1 = REC_FUEL := by decide
  rw [hf] at h1
  obtain ⟨h2, h3⟩ := h1
  have h4 := h3 rfl
  unfold resolveRecursive
  simp only []
  have ht : (resolveRec cfg REC_FUEL ⟨ctx, Run.empty⟩ q).1.run.timedOut = false := by rw [h2]; rfl
  rw [if_neg (by rw [ht]; exact Bool.false_ne_true)]
  exact ⟨h2, h4⟩

/-- Authoritative-only mode takes no oracle and no `Run`: its value is a function of the local
    lookup alone, so nothing can be sent upstream (there is nothing to send it with). -/
theorem C18_auth_only_no_upstream (ctx : Ctx) (q : Question) :
    resolveAuthoritativeOnly ctx q =
      ((resolveLocal (RECURSION_LIMIT + 1) ctx q).1,
       (resolveLocal (RECURSION_LIMIT + 1) ctx q).2.map LocalResult.toResolved) := rfl

/-- Under prefer-v4 the address lookup for a nameserver asks for the A record first: the loop is
    "look A up; if that gave an address use it; otherwise go on with AAAA". -/
theorem C18_prefer_first_v4 (cfg : RecCfg) (hm : cfg.mode = .preferV4) (fuel : Nat) (st : St)
    (locally : Bool) (host : Name) :
    tryTypes cfg (fuel + 1) st locally host (rtypesFor cfg.mode) =
      if st.run.timedOut then (st, none)
      else
        match (lookupStep cfg fuel st locally host RT_A).2 with
        | some a => ((lookupStep cfg fuel st locally host RT_A).1, some a)
        | none => tryTypes cfg fuel (lookupStep cfg fuel st locally host RT_A).1 locally host [RT_AAAA] := by
  rw [hm]; exact tryTypes_cons cfg fuel st locally host RT_A [RT_AAAA]

theorem C18_prefer_first_v6 (cfg : RecCfg) (hm : cfg.mode = .preferV6) (fuel : Nat) (st : St)
    (locally : Bool) (host : Name) :
    tryTypes cfg (fuel + 1) st locally host (rtypesFor cfg.mode) =
      if st.run.timedOut then (st, none)
      else
        match (lookupStep cfg fuel st locally host RT_AAAA).2 with
        | some a => ((lookupStep cfg fuel st locally host RT_AAAA).1, some a)
        | none => tryTypes cfg fuel (lookupStep cfg fuel st locally host RT_AAAA).1 locally host [RT_A] := by
  rw [hm]; exact tryTypes_cons cfg fuel st locally host RT_AAAA [RT_A]

/-- Under prefer-v4 an IPv6 address is handed to the query loop only if the A lookup (the local
    one while the resolver holds addresses locally, the recursive one otherwise) produced no
    address: while an IPv4 address is held for the nameserver, it is never contacted over IPv6. -/
theorem C18_prefer_order_v4 (cfg : RecCfg) (hm : cfg.mode = .preferV4) (fuel : Nat) (st : St)
    (locally : Bool) (host : Name) (x : List Nat)
    (h : (tryTypes cfg (fuel + 1) st locally host (rtypesFor cfg.mode)).2 = some (.aaaa x)) :
    (lookupStep cfg fuel st locally host RT_A).2 = none := by
  rw [C18_prefer_first_v4 cfg hm] at h
  split at h
  · cases h
  · split at h
    · rename_i a ha
      simp only at h
      obtain ⟨rrs, hr⟩ := lookupStep_source ha
      obtain ⟨y, hy⟩ := (getIp_family rrs host RT_A a hr).1 rfl
      rw [hy] at h; cases h
    · assumption

theorem C18_prefer_order_v6 (cfg : RecCfg) (hm : cfg.mode = .preferV6) (fuel : Nat) (st : St)
    (locally : Bool) (host : Name) (x : Nat)
    (h : (tryTypes cfg (fuel + 1) st locally host (rtypesFor cfg.mode)).2 = some (.a x)) :
    (lookupStep cfg fuel st locally host RT_AAAA).2 = none := by
  rw [C18_prefer_first_v6 cfg hm] at h
  split at h
  · cases h
  · split at h
    · rename_i a ha
      simp only at h
      obtain ⟨rrs, hr⟩ := lookupStep_source ha
      obtain ⟨y, hy⟩ := (getIp_family rrs host RT_AAAA a hr).2 rfl
      rw [hy] at h; cases h
    · assumption

/-- Conversely an address held for the preferred family is the one used (prefer-v4 shown;
    `lookupStep … RT_A` yielding `a` means the A lookup found the address `a`). -/
theorem C18_prefer_uses_preferred_v4 (cfg : RecCfg) (hm : cfg.mode = .preferV4) (fuel : Nat) (st : St)
    (locally : Bool) (host : Name) (a : FieldVal) (ht : st.run.timedOut = false)
    (h : (lookupStep cfg fuel st locally host RT_A).2 = some a) :
    (tryTypes cfg (fuel + 1) st locally host (rtypesFor cfg.mode)).2 = some a ∧ ∃ x, a = .a x := by
  rw [C18_prefer_first_v4 cfg hm, ht, h]
  obtain ⟨rrs, hr⟩ := lookupStep_source h
  exact ⟨rfl, (getIp_family rrs host RT_A a hr).1 rfl⟩

/-! ### Non-vacuity: a concrete run that does log an exchange (only-v4, port 53), and a forwarding
    run (forwarder 9.1.2.1, port 5353). -/

example : (resolveRecursive exCfg exCtx exQ).1.run.log =
    [{ addr := .a 16909060, port := 53, tcp := false, question := exQ, recursionDesired := false }] := by
  decide +kernel

example : (resolveForwarding exFwd exCtx exQ).1.run.log =
    [{ addr := .a 151060737, port := 5353, tcp := false, question := exQ, recursionDesired := true }] := by
  decide +kernel

end Resolved
