/-
  C18 — The resolver honours the configured address family and upstream port.
  FIRST-CLAIM version: the record types a nameserver's address is looked up with, per mode, and
  the family of what `get_ip` can return for each.  Being proved over the whole machine (any
  oracle, zones, cache): every logged exchange carries the configured port and, under only-vX, an
  address of family X; forwarding mode only ever contacts the forwarder.
-/
import Resolved.Model.Resolver

namespace Resolved

/-- only-v4 asks for A only, only-v6 for AAAA only; prefer-vX asks for X's type first. -/
theorem C18_lookup_types :
    rtypesFor .onlyV4 = [RT_A] ∧ rtypesFor .onlyV6 = [RT_AAAA] ∧
    rtypesFor .preferV4 = [RT_A, RT_AAAA] ∧ rtypesFor .preferV6 = [RT_AAAA, RT_A] := by
  refine ⟨rfl, rfl, rfl, rfl⟩

/-- `get_ip` for type A yields only IPv4 addresses and for AAAA only IPv6 addresses. -/
theorem C18_getIp_family (rrs : List RR) (target : Name) (rtype : Nat) (addr : FieldVal)
    (h : getIp rrs target rtype = some addr) :
    (rtype = RT_A → ∃ x, addr = .a x) ∧ (rtype = RT_AAAA → ∃ x, addr = .aaaa x) := by
  unfold getIp at h
  split at h
  · split at h
    · rename_i rr hrec
      have hrt : rr.rtype = rtype := by
        unfold getRecord at hrec
        have := List.find?_some hrec
        simp at this
        exact this.1
      split at h
      · split at h
        · cases h; constructor
          · intro _; exact ⟨_, rfl⟩
          · intro h2; rename_i h3; rw [hrt, h2] at h3; simp [RT_A, RT_AAAA] at h3
        · cases h
      · split at h
        · cases h; constructor
          · intro h2; rename_i h3; rw [hrt, h2] at h3; simp [RT_A, RT_AAAA] at h3
          · intro _; exact ⟨_, rfl⟩
        · cases h
      · cases h
    · cases h
  · cases h

end Resolved
