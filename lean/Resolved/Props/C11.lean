/-
  C11 — A zone file means what RFC 1035 §5 says it means.

  The specification is Spec/ZoneTextSpec.lean: abstract syntax `Directive`, `render ds v` (the text of
  `ds` in lexical variant `v`), `denote ds` (the meaning), `Unambiguous ds` (side condition).
  Proved here on the model of Model/ZoneText.lean, for every input:
    * the ten field shapes of `parse_rr` (`C11_shape_*`): each documented shape gets the documented
      reading — owner / TTL / class taken from the line or inherited, in either TTL–class order;
    * the rejections (`C11_reject_*`), each in EVERY context (`Reach data st s`: any position of the
      file, after anything): `$INCLUDE`, a second SOA, a wildcard SOA, a record outside the apex,
      a relative name with no origin, no TTL to inherit, a class other than IN in an explicit class
      position — the result of the whole file is an `Err`, nothing is loaded in part;
    * `C11_tokenise_render_*`: the tokeniser inverts every token rendering of the specification
      (bare / `\X` / `\DDD` per octet in any mixture, quoted or not, all 256 octet values).
    * `C11_parse_render_accepted`: **for every accepted file, `parse (render ds v)` is `denote ds`** —
      whole files, every lexical variant (`C11_tokenise_render_line`: the tokeniser inverts the line
      renderings incl. parentheses and comments; names, numbers, addresses, types field by field).
    * `C11_parse_render_rejected`: **for every rejected file, `parse (render ds v)` is an `Err`** —
      except in the situation of the open finding C11-K1; `C11_parse_render` states both directions.
  Nothing is left as a `_statement`.  The `ztext` stream checks both directions on every rendered
  case against the Rust (this ties the MODEL to the implementation; the theorems are about the model).
  Known gaps — open finding C11-K1 (`C11_K1_class_read_as_owner`): with the owner omitted, a class
  token other than `IN` standing first on the line is read as an owner name; open finding C11-K2
  (`C11_K2_escaped_dot_splits_label`): `\.` / `\046` / `\@` inside a name keep their special meaning
  (outside `Unambiguous`, inside `UnambiguousRelaxed`).
-/
import Resolved.Proofs.ZoneTextSpecReject
import Resolved.Proofs.MiscZoneText

namespace Resolved

open ZoneText IpText Gen

/-! ## the ten shapes of `parse_rr`

`o` = current origin, `pd` / `pt` = previous owner / TTL; `ty :: rd` = the `<type> <rdata>` tokens,
which parse to `rdat`; `NoType rd` = no RDATA token spells a record type (the parser finds the type
from the right, so such a token would be taken for the type: excluded by `Unambiguous`). -/

section shapes
variable (o : Option Name) (pd : Option MaybeWildcard) (pt : Option Nat)
variable (d t ty : Token) (rd : List Token) (rdat : RData)

/-- 1. `<domain-name> <ttl> <class> <type> <rdata>` -/
theorem C11_shape_domain_ttl_class (w : MaybeWildcard) (n : Nat)
    (hty : tryParseRtypeWithData o (ty :: rd) = some rdat)
    (hd : parseDomainOrWildcard o d.1 = .ok w) (ht : parseU32 t.1 = some n) :
    parseRr o pd pt (d :: t :: tIN :: ty :: rd) = .ok (toRr w rdat n) :=
  shape_domain_ttl_class o pd pt d t ty rd rdat w n hty hd ht

/-- 2. `<domain-name> <class> <ttl> <type> <rdata>` -/
theorem C11_shape_domain_class_ttl (w : MaybeWildcard) (n : Nat)
    (hty : tryParseRtypeWithData o (ty :: rd) = some rdat)
    (hd : parseDomainOrWildcard o d.1 = .ok w) (ht : parseU32 t.1 = some n) (htIN : t.1 ≠ sIN) :
    parseRr o pd pt (d :: tIN :: t :: ty :: rd) = .ok (toRr w rdat n) :=
  shape_domain_class_ttl o pd pt d t ty rd rdat w n hty hd ht htIN

/-- 3. `<domain-name> <ttl> <type> <rdata>` (class omitted) -/
theorem C11_shape_domain_ttl (w : MaybeWildcard) (n : Nat)
    (hty : tryParseRtypeWithData o (ty :: rd) = some rdat) (hrd : NoType rd)
    (hd : parseDomainOrWildcard o d.1 = .ok w) (ht : parseU32 t.1 = some n)
    (htIN : t.1 ≠ sIN) (hdIN : d.1 ≠ sIN) :
    parseRr o pd pt (d :: t :: ty :: rd) = .ok (toRr w rdat n) :=
  shape_domain_ttl o pd pt d t ty rd rdat w n hty hrd hd ht htIN hdIN

/-- 4. `<domain-name> <class> <type> <rdata>`: the TTL is the previous record's
    (`withInheritedTtl`: a SOA needs none, otherwise `MissingTTL` when there is none). -/
theorem C11_shape_domain_class (w : MaybeWildcard)
    (hty : tryParseRtypeWithData o (ty :: rd) = some rdat) (hrd : NoType rd)
    (hd : parseDomainOrWildcard o d.1 = .ok w) (hdig : allDigits d.1 = false) :
    parseRr o pd pt (d :: tIN :: ty :: rd) = withInheritedTtl w rdat pt :=
  shape_domain_class o pd pt d ty rd rdat w hty hrd hd hdig

/-- 5. `<domain-name> <type> <rdata>` -/
theorem C11_shape_domain (w : MaybeWildcard)
    (hty : tryParseRtypeWithData o (ty :: rd) = some rdat) (hrd : NoType rd)
    (hd : parseDomainOrWildcard o d.1 = .ok w) (hdig : allDigits d.1 = false) (hdIN : d.1 ≠ sIN) :
    parseRr o pd pt (d :: ty :: rd) = withInheritedTtl w rdat pt :=
  shape_domain o pd pt d ty rd rdat w hty hrd hd hdig hdIN

/-- 6. `<ttl> <class> <type> <rdata>`: the owner is the previous record's
    (`withPreviousDomain`: `MissingDomainName` when there is none). -/
theorem C11_shape_ttl_class (n : Nat)
    (hty : tryParseRtypeWithData o (ty :: rd) = some rdat) (hrd : NoType rd)
    (hdig : allDigits t.1 = true) (ht : parseU32 t.1 = some n) :
    parseRr o pd pt (t :: tIN :: ty :: rd) = withPreviousDomain pd (fun w => .ok (toRr w rdat n)) :=
  shape_ttl_class o pd pt t ty rd rdat n hty hrd hdig ht

/-- 7. `<class> <ttl> <type> <rdata>` -/
theorem C11_shape_class_ttl (n : Nat)
    (hty : tryParseRtypeWithData o (ty :: rd) = some rdat) (hrd : NoType rd)
    (ht : parseU32 t.1 = some n) (htIN : t.1 ≠ sIN) :
    parseRr o pd pt (tIN :: t :: ty :: rd) = withPreviousDomain pd (fun w => .ok (toRr w rdat n)) :=
  shape_class_ttl o pd pt t ty rd rdat n hty hrd ht htIN

/-- 8. `<ttl> <type> <rdata>` -/
theorem C11_shape_ttl (n : Nat)
    (hty : tryParseRtypeWithData o (ty :: rd) = some rdat) (hrd : NoType rd)
    (hdig : allDigits t.1 = true) (ht : parseU32 t.1 = some n) (htIN : t.1 ≠ sIN) :
    parseRr o pd pt (t :: ty :: rd) = withPreviousDomain pd (fun w => .ok (toRr w rdat n)) :=
  shape_ttl o pd pt t ty rd rdat n hty hrd hdig ht htIN

/-- 9. `<class> <type> <rdata>` -/
theorem C11_shape_class
    (hty : tryParseRtypeWithData o (ty :: rd) = some rdat) (hrd : NoType rd) :
    parseRr o pd pt (tIN :: ty :: rd) = withPreviousDomain pd (fun w => withInheritedTtl w rdat pt) :=
  shape_class o pd pt ty rd rdat hty hrd

/-- 10. `<type> <rdata>`: owner, TTL and class all inherited. -/
theorem C11_shape_bare
    (hty : tryParseRtypeWithData o (ty :: rd) = some rdat) (hrd : NoType rd) :
    parseRr o pd pt (ty :: rd) = withPreviousDomain pd (fun w => withInheritedTtl w rdat pt) :=
  shape_bare o pd pt ty rd rdat hty hrd

end shapes

/-- The record built: class IN, the owner as ordinary or wildcard entry, the TTL given — except that
    a SOA always carries its own MINIMUM (D9), which is also what the next record inherits. -/
theorem C11_toRr_soa_ttl (name mname rname : Name) (serial refresh retry expire minimum ttl : Nat) :
    toRr (.normal name)
        ⟨6, [.name mname, .name rname, .u32 serial, .u32 refresh, .u32 retry, .u32 expire, .u32 minimum]⟩ ttl
      = .rr { name, rtype := 6, rclass := 1, ttl := minimum,
              fields := [.name mname, .name rname, .u32 serial, .u32 refresh, .u32 retry, .u32 expire, .u32 minimum] } :=
  rfl

theorem C11_toRr_other (name : Name) (rd : RData) (ttl : Nat) (h : rd.rtype ≠ 6) :
    toRr (.normal name) rd ttl = .rr { name, rtype := rd.rtype, fields := rd.fields, rclass := 1, ttl } ∧
    toRr (.wildcard name) rd ttl = .wildcardRR { name, rtype := rd.rtype, fields := rd.fields, rclass := 1, ttl } := by
  obtain ⟨rt, fs⟩ := rd
  simp only at h
  unfold toRr
  constructor <;> (simp only; split <;> first | exact absurd rfl h | rfl)

/-! ## wildcard owners, `@`, relative names -/

/-- an owner `*` is the wildcard beneath the origin, `*.<name>` the wildcard beneath `<name>`
    (resolved like any name), `*.` the wildcard beneath the root. -/
theorem C11_wildcard_owner (origin : Name) :
    parseDomainOrWildcard (some origin) ['*'] = .ok (.wildcard origin) ∧
    parseDomainOrWildcard (some origin) ['*', '.'] = .ok (.wildcard Name.root) ∧
    parseDomainOrWildcard (some origin) ['*', '.', '@'] = .ok (.wildcard origin) :=
  ⟨rfl, rfl, rfl⟩

/-- `@` is the current origin. -/
theorem C11_at_is_origin (origin : Name) : parseDomain (some origin) ['@'] = .ok origin := rfl

/-! ## rejections, each in every context -/

/-- **`$INCLUDE` anywhere in the file ⇒ the file is rejected.** -/
theorem C11_reject_include (data : List Char) (st : DState) (s : List Char) (hr : Reach data st s)
    (t0 : Token) (ts : List Token) (rest : List Char)
    (htok : tokeniseEntry s = .ok (t0 :: ts, rest)) (h0 : t0.1 = sINCLUDE) :
    ∃ e, deserialise data = .err e := by
  obtain ⟨e, he⟩ := loopStep_include st s t0 ts rest htok h0
  obtain ⟨e', h, _⟩ := reach_error hr he
  exact ⟨e', h⟩

/-- **A second SOA anywhere ⇒ `MultipleSOA`.** -/
theorem C11_reject_second_soa (data : List Char) (st : DState) (s : List Char) (hr : Reach data st s)
    (rest : List Char) (rr : RR) (soa : SOA)
    (hp : parseEntry (s.length + 1) st.origin st.previousDomain st.previousTtl s = .ok (some (.rr rr)) rest)
    (hsoa : soaOfRR rr = some soa) (hhave : st.apexAndSoa.isSome = true) :
    deserialise data = .err .multipleSOA := by
  obtain ⟨e', h, he⟩ := reach_error hr (loopStep_second_soa st s rest rr soa hp hsoa hhave)
  rw [h, he]

/-- **A wildcard SOA anywhere ⇒ `WildcardSOA`.** -/
theorem C11_reject_wildcard_soa (data : List Char) (st : DState) (s : List Char) (hr : Reach data st s)
    (rest : List Char) (rr : RR)
    (hp : parseEntry (s.length + 1) st.origin st.previousDomain st.previousTtl s = .ok (some (.wildcardRR rr)) rest)
    (hsoa : rr.rtype = RT_SOA) :
    deserialise data = .err .wildcardSOA := by
  obtain ⟨e', h, he⟩ := reach_error hr (loopStep_wildcard_soa st s rest rr hp hsoa)
  rw [h, he]

/-- **Any error of any entry anywhere is the result of the whole file** (an `Except`: nothing is
    loaded in part). -/
theorem C11_reject_entry_error (data : List Char) (st : DState) (s : List Char) (hr : Reach data st s)
    (e : Error) (hp : parseEntry (s.length + 1) st.origin st.previousDomain st.previousTtl s = .err e) :
    deserialise data = .err e := by
  have : loopStep st s = some (.stop (.error e)) := by unfold loopStep; rw [hp]
  obtain ⟨e', h, he⟩ := reach_error hr this
  rw [h, he]

/-- **A record — ordinary or wildcard — whose owner is outside the apex ⇒ no zone**: when the end of
    the file is reached with such a record collected, the result is not `Ok` (it is
    `NotSubdomainOfApex`: `C11_reject_outside_apex_error`), whatever else the file holds.  The apex is
    the owner of the SOA, or the root when there is none (then nothing is outside). -/
theorem C11_reject_outside_apex (data : List Char) (st : DState) (s : List Char) (hr : Reach data st s)
    (hend : loopStep st s = some (.stop (.ok st)))
    (h : ∃ rr, (rr ∈ st.rrs ∨ rr ∈ st.wildcardRrs) ∧ rr.name.isSubdomainOf st.apex = false) :
    ∀ z, deserialise data ≠ .ok z := by
  rw [reach_end hr hend]
  exact buildZone_outside st h

theorem C11_reject_outside_apex_error (wild : Bool) (z : Zone) (rr : RR) (rest : List RR)
    (h : rr.name.isSubdomainOf z.apex = false) :
    (match insertAll wild z (rr :: rest) with | .err .notSubdomainOfApex => True | _ => False) :=
  insertAll_first_outside wild z rr rest h

/-- **A relative name (or `@`, or the owner `*`) with no origin ⇒ `ExpectedOrigin`.** -/
theorem C11_reject_relative_no_origin (s : List Char) (hne : s ≠ []) (hascii : s.all isAscii = true)
    (hrel : s.getLast? ≠ some '.') :
    parseDomain none s = .error .expectedOrigin ∧
    parseDomainOrWildcard none ['*'] = .error .expectedOrigin :=
  ⟨parseDomain_no_origin s hne hascii hrel, rfl⟩

/-- **No TTL to inherit for a record that is not a SOA ⇒ `MissingTTL`** (shapes 4, 5, 9, 10 with no
    previous TTL); a SOA needs none. -/
theorem C11_reject_no_ttl (w : MaybeWildcard) (rd : RData) :
    (rd.isSOA = false → withInheritedTtl w rd none = .error .missingTTL) ∧
    (rd.isSOA = true → withInheritedTtl w rd none = .ok (toRr w rd 0)) :=
  ⟨withInheritedTtl_none w rd, withInheritedTtl_soa w rd⟩

/-- **No owner to inherit ⇒ `MissingDomainName`** (shapes 6–10 on the first record). -/
theorem C11_reject_no_owner (f : MaybeWildcard → Except Error Entry) :
    withPreviousDomain none f = .error .missingDomainName := rfl

/-- **A class other than `IN` in an explicit class position ⇒ error**: between owner/TTL and type in
    either order, and directly after the owner. -/
theorem C11_reject_class_not_IN (o : Option Name) (pd : Option MaybeWildcard) (pt : Option Nat)
    (d a b ty : Token) (rd : List Token) (rdat : RData)
    (hty : tryParseRtypeWithData o (ty :: rd) = some rdat) :
    (a.1 ≠ sIN → b.1 ≠ sIN → ∃ e, parseRr o pd pt (d :: a :: b :: ty :: rd) = .error e) ∧
    (NoType rd → a.1 ≠ sIN → parseU32 a.1 = none → d.1 ≠ sIN →
      ∃ e, parseRr o pd pt (d :: a :: ty :: rd) = .error e) :=
  ⟨fun ha hb => class_not_IN_four o pd pt d a b ty rd rdat hty ha hb,
   fun hrd ha hnum hd => class_not_IN_three o pd pt d a ty rd rdat hty hrd ha hnum hd⟩

/-- **Open finding C11-K1.**  The owner omitted and the class token first on the line: `CH A 1.2.3.4`
    after a previous record is NOT rejected — `CH` is read as the owner `ch.<origin>`
    (here origin `e.`, previous TTL 7). -/
theorem C11_K1_class_read_as_owner :
    parseRr (some ⟨[[101], []], 3⟩) (some (.normal ⟨[[120], [101], []], 5⟩)) (some 7)
      [(['C', 'H'], [67, 72]), (['A'], [65]), (['1', '.', '2', '.', '3', '.', '4'], [49, 46, 50, 46, 51, 46, 52])]
      = .ok (.rr { name := ⟨[[99, 104], [101], []], 6⟩, rtype := 1, fields := [.a 16909060], rclass := 1, ttl := 7 }) := by
  rfl

/-! ## the tokeniser inverts the token renderings of the specification -/

/-- **Quoted rendering** (chosen by the variant, or forced for the empty token), any mixture of bare /
    `\X` / `\DDD` forms: between tokens it is read as exactly one token whose octets are the atoms'
    octets, and the tokeniser is between tokens again — whatever follows, inside parentheses or not. -/
theorem C11_tokenise_render_quoted (tv : ZTSpec.TokVar) (atoms : List ZTSpec.Atom)
    (hq : tv.quoted = true ∨ atoms = []) (hs : ∀ a ∈ atoms, StructuralOk a)
    (rest : List Char) (rtoks : List Token) (lc : Bool) :
    tokLoop 0 (ZTSpec.renderToken tv atoms ++ rest) rtoks [] [] .initial lc
      = tokLoop 0 rest (((ZTSpec.atomOctets atoms).map octetAsChar, ZTSpec.atomOctets atoms) :: rtoks) [] []
          .initial lc :=
  tokLoop_renderToken_quoted tv atoms hq hs rest rtoks lc

/-- **Unquoted rendering** of a non-empty token, any mixture of forms: it starts a token whose octets
    are exactly the atoms' octets; a following blank, line end or end of input finishes it
    (`C13_octets_in_line_*` show the three endings for the serialiser's own renderings; the same
    lemmas `tokLoop_unquoted_space / _newline / _end` apply here). -/
theorem C11_tokenise_render_unquoted (tv : ZTSpec.TokVar) (atoms : List ZTSpec.Atom)
    (hq : tv.quoted = false) (hne : atoms ≠ []) (hs : ∀ a ∈ atoms, StructuralOk a)
    (rest : List Char) (rtoks : List Token) (lc : Bool) :
    tokLoop 0 (ZTSpec.renderToken tv atoms ++ rest) rtoks [] [] .initial lc
      = tokLoop 0 rest rtoks ((ZTSpec.atomOctets atoms).map octetAsChar).reverse
          (ZTSpec.atomOctets atoms).reverse .unquotedString lc :=
  tokLoop_renderToken_unquoted tv atoms hq hne hs rest rtoks lc

/-- **Every rendering of a token, alone, is read back as that token** (all variants). -/
theorem C11_tokenise_render (tv : ZTSpec.TokVar) (atoms : List ZTSpec.Atom)
    (hs : ∀ a ∈ atoms, StructuralOk a) :
    tokeniseEntry (ZTSpec.renderToken tv atoms)
      = .ok ([((ZTSpec.atomOctets atoms).map octetAsChar, ZTSpec.atomOctets atoms)], []) := by
  unfold tokeniseEntry
  by_cases hq : tv.quoted = true ∨ atoms = []
  · have := tokLoop_renderToken_quoted tv atoms hq hs [] [] false
    rw [List.append_nil] at this
    rw [this]
    simp [tokLoop, pushNonEmpty]
  · have hq1 : tv.quoted = false := by
      cases h : tv.quoted with
      | false => rfl
      | true => exact absurd (Or.inl h) hq
    have hne : atoms ≠ [] := fun h => hq (Or.inr h)
    have := tokLoop_renderToken_unquoted tv atoms hq1 hne hs [] [] false
    rw [List.append_nil] at this
    rw [this, tokLoop_unquoted_end]
    · simp
    · cases atoms with
      | nil => exact absurd rfl hne
      | cons a as => simp [ZTSpec.atomOctets]

/-- the atoms the specification renders are well-formed: structural atoms are only `.`, `@`, `*`. -/
theorem C11_spec_atoms_structural (n : ZTSpec.NameRef) (o : ZTSpec.OwnerRef) :
    (∀ a ∈ ZTSpec.nameAtoms n, StructuralOk a) ∧ (∀ a ∈ ZTSpec.ownerAtoms o, StructuralOk a) :=
  spec_atoms_structural n o

/-- **The tokeniser inverts the LINE renderings of the specification.**  `lineBody lv eol omitted toks`
    is what `ZTSpec.renderLine` writes for a directive with tokens `toks` (`C11_renderLine_eq`) in the
    lexical variant `lv`: leading blank when the owner is omitted, any separators, every token bare /
    `\X` / `\DDD` / quoted in any mixture, one line or parenthesised across lines (with or without a
    comment before each line break), an optional trailing comment; `eol` is `\n` or `\r\n`.
    Followed by the line end it is read as exactly the directive's tokens, and the entry ends there
    (`C11_tokenise_render_line_eof`: likewise at the end of the input without a final line end). -/
theorem C11_tokenise_render_line (lv : ZTSpec.LineVar) (eol : List Char) (heol : IsEol eol)
    (hc : CommentOk lv) (omitted : Bool) (t : List ZTSpec.Atom) (ts : List (List ZTSpec.Atom))
    (hs : ∀ x ∈ t :: ts, ∀ a ∈ x, StructuralOk a) (rest : List Char) :
    tokeniseEntry (lineBody lv eol omitted (t :: ts) ++ eol ++ rest) = .ok ((t :: ts).map tokenOf, rest) :=
  tokenise_lineBody lv eol heol hc omitted t ts hs rest

theorem C11_tokenise_render_line_eof (lv : ZTSpec.LineVar) (eol : List Char) (heol : IsEol eol)
    (hc : CommentOk lv) (omitted : Bool) (t : List ZTSpec.Atom) (ts : List (List ZTSpec.Atom))
    (hs : ∀ x ∈ t :: ts, ∀ a ∈ x, StructuralOk a) :
    tokeniseEntry (lineBody lv eol omitted (t :: ts)) = .ok ((t :: ts).map tokenOf, []) :=
  tokenise_lineBody_eof lv eol heol hc omitted t ts hs

theorem C11_renderLine_eq (lv : ZTSpec.LineVar) (eol : List Char) (d : ZTSpec.Directive)
    (h : ∀ c, d ≠ .blank c) :
    ZTSpec.renderLine lv eol d = lineBody lv eol (ZTSpec.ownerOmitted d) (ZTSpec.directiveTokens lv d) :=
  renderLine_eq lv eol d h

/-- a blank or comment-only line is read as no token at all (the entry loop then goes on). -/
theorem C11_tokenise_blank_line (eol : List Char) (heol : IsEol eol) (c : Option (List Char))
    (hc : ∀ x, c = some x → '\n' ∉ x) (rest : List Char) :
    tokeniseEntry (ZTSpec.renderLine {} eol (.blank c) ++ eol ++ rest) = .ok ([], rest) :=
  tokenise_blank_line {} eol heol c hc rest

/-- **names**: the text of a name of the specification — absolute, relative or `@` — is read by
    `parse_domain` as the specification resolves it (same name, or the corresponding error). -/
theorem C11_parse_domain_spec (o : Option Name) (ho : ∀ on, o = some on → TextName on) (n : ZTSpec.NameRef)
    (hn : ZTSpec.nameRefOk false n = true) :
    parseDomain o (nameChars n) = nameResult (ZTSpec.resolve o n) :=
  parseDomain_spec o ho n hn

/-- **owners**: likewise for the owner field, `*` and `*.name` giving wildcard owners. -/
theorem C11_parse_owner_spec (o : Option Name) (ho : ∀ on, o = some on → TextName on) (ow : ZTSpec.OwnerRef)
    (hok : ZTSpec.ownerRefOk false ow = true) :
    parseDomainOrWildcard o (ownerChars ow) = ownerResult (ZTSpec.resolveOwner o ow) :=
  parseOwner_spec o ho ow hok

/-- **Open finding C11-K2.**  RFC 1035 §5.1: `\X` quotes a character "so that its special meaning
    does not apply" — `\.` places a dot INSIDE a label.  The tokeniser un-escapes before the name
    parser splits at dots: the token `a\.b` (relative to the origin `e.`) is handed over as the string
    `a.b` and read as the three-label name `a.b.e.`, whereas it denotes the two-label name whose first
    label is `a.b` (`ZTSpec.resolve`); the same for `a\046b`; and `\@` is still taken for the origin. -/
theorem C11_K2_escaped_dot_splits_label :
    let origin : Name := ⟨[[101], []], 3⟩
    tokeniseEntry ['a', '\\', '.', 'b'] = .ok ([(['a', '.', 'b'], [97, 46, 98])], []) ∧
    tokeniseEntry ['a', '\\', '0', '4', '6', 'b'] = .ok ([(['a', '.', 'b'], [97, 46, 98])], []) ∧
    parseDomain (some origin) ['a', '.', 'b'] = .ok ⟨[[97], [98], [101], []], 7⟩ ∧
    ZTSpec.resolve (some origin) (.rel [[97, 46, 98]]) = .ok ⟨[[97, 46, 98], [101], []], 7⟩ ∧
    tokeniseEntry ['\\', '@'] = .ok ([(['@'], [64])], []) ∧
    parseDomain (some origin) ['@'] = .ok origin ∧
    ZTSpec.resolve (some origin) (.rel [[64]]) = .ok ⟨[[64], [101], []], 5⟩ := by
  refine ⟨by rfl, by rfl, by rfl, by rfl, by rfl, by rfl, by rfl⟩

/-! ## whole files -/

/-- **C11, accepted files: `parse (render ds v)` is `denote ds`.**  For every directive list `ds`
    satisfying the side condition `Unambiguous` to which the specification gives a meaning `m`
    (`denote ds = .ok m`), and every lexical variant `v` (field order, every token bare / `\X` / `\DDD`
    / quoted, separators, parenthesised multi-line layout with or without comments, trailing
    comments, blank and comment lines, `\n` or `\r\n`, with or without a final line end) whose comments
    hold no line feed (`VariantOk`): parsing the text `render ds v` SUCCEEDS, and the zone has exactly
    the apex, the SOA, the records and the wildcard records of `m` — origin-relative names and `@`
    resolved, omitted owners / TTLs / classes inherited, `*` owners as wildcards, the SOA's owner as
    apex, every TTL raised to the SOA minimum and the SOA record carrying its MINIMUM. -/
theorem C11_parse_render_accepted (ds : List ZTSpec.Directive) (v : ZTSpec.FileVar)
    (hu : ZTSpec.Unambiguous ds = true) (hv : VariantOk v) (m : ZTSpec.Meaning) (hm : ZTSpec.denote ds = .ok m) :
    ∃ z, deserialise (ZTSpec.render ds v) = .ok z ∧ z.apex = m.apex ∧ z.soa = m.soa ∧
      (∀ r, r ∈ zoneFlat z.allRecords ↔ r ∈ m.records) ∧
      (∀ r, r ∈ zoneFlat z.allWildcardRecords ↔ r ∈ m.wildcards) :=
  parse_render_accepted ds v hu hv m hm

/-- the text side alone, for any directive list the specification runs through without error (also
    when the final apex check then fails): the entry loop reads the whole rendering and ends in the
    state corresponding to the specification's. -/
theorem C11_parse_render_text_side (ds : List ZTSpec.Directive) (v : ZTSpec.FileVar) (hv : VariantOk v)
    (hok : ∀ d ∈ ds, ZTSpec.directiveOk false d = true) (dstF : ZTSpec.DenoteState)
    (hden : ZTSpec.denoteAll {} ds = .ok dstF) :
    ∃ stF, deserialise (ZTSpec.render ds v) = buildZone stF ∧ StRel dstF stF :=
  deserialise_render ds v hv hok dstF hden

/-- **`parse (render ds v)` on rejected files**: for `Unambiguous ds` with `denote ds = .error e`,
    `Zone::deserialise` of every rendering `render ds v` is an `Err` — except in the situation of the
    open finding C11-K1 (`ZTSpec.isK1`: at the first rejected directive, class other than `IN`, owner
    omitted, class token first on the line).  Which `Err` is not claimed (the parser may meet a
    different fault of the same line first, e.g. `MissingType` for an unresolvable RDATA name). -/
theorem C11_parse_render_rejected (ds : List ZTSpec.Directive) (v : ZTSpec.FileVar)
    (hu : ZTSpec.Unambiguous ds = true) (hv : VariantOk v) (e : ZTSpec.SpecError)
    (he : ZTSpec.denote ds = .error e) :
    ZTSpec.isK1 ds v = true ∨ ∃ e', deserialise (ZTSpec.render ds v) = .err e' :=
  parse_render_rejected ds v hu hv e he

/-- **`parse (render ds v) = denote ds`**, both directions in one statement. -/
theorem C11_parse_render (ds : List ZTSpec.Directive) (v : ZTSpec.FileVar)
    (hu : ZTSpec.Unambiguous ds = true) (hv : VariantOk v) :
    match ZTSpec.denote ds with
    | .ok m =>
      ∃ z, deserialise (ZTSpec.render ds v) = .ok z ∧ z.apex = m.apex ∧ z.soa = m.soa ∧
        (∀ r, r ∈ zoneFlat z.allRecords ↔ r ∈ m.records) ∧
        (∀ r, r ∈ zoneFlat z.allWildcardRecords ↔ r ∈ m.wildcards)
    | .error _ => ZTSpec.isK1 ds v = true ∨ ∃ e', deserialise (ZTSpec.render ds v) = .err e' := by
  cases h : ZTSpec.denote ds with
  | ok m => exact parse_render_accepted ds v hu hv m h
  | error e => exact parse_render_rejected ds v hu hv e h

/-- a record outside the apex (the specification's final check) ⇒ exactly `NotSubdomainOfApex`. -/
theorem C11_parse_render_outside_apex (ds : List ZTSpec.Directive) (v : ZTSpec.FileVar)
    (hu : ZTSpec.Unambiguous ds = true) (hv : VariantOk v) (dstF : ZTSpec.DenoteState)
    (hall : ZTSpec.denoteAll {} ds = .ok dstF)
    (hout : ((dstF.records ++ dstF.wildcards).all (fun r => ZTSpec.isSuffix (apexOf dstF) r.owner)) = false) :
    deserialise (ZTSpec.render ds v) = .err .notSubdomainOfApex :=
  parse_render_outside ds v hu hv dstF hall hout

/-- **`<type> <rdata>` unreadable ⇒ `MissingType`**: when the RDATA does not parse for the type
    written (e.g. a relative name with no origin) and no other token of the line spells a type. -/
theorem C11_reject_unreadable_rdata (o : Option Name) (pd : Option MaybeWildcard) (pt : Option Nat)
    (pre : List Token) (ty : Token) (rd : List Token) (hpre : NoType pre) (hrd : NoType rd)
    (hty : tryParseRtypeWithData o (ty :: rd) = none) :
    parseRr o pd pt (pre ++ ty :: rd) = .error .missingType :=
  parseRr_missingType o pd pt pre ty rd hpre hrd hty

/-- **a rejected record line anywhere in a file** (state corresponding to the specification's):
    the entry loop stops with an error, unless the situation is that of C11-K1. -/
theorem C11_record_rejected (dst : ZTSpec.DenoteState) (st : DState) (hrel : StRel dst st) (r : ZTSpec.Rec)
    (hok : ZTSpec.directiveOk false (.record r) = true) (e : ZTSpec.SpecError)
    (hden : ZTSpec.denoteRecord dst r = .error e) (hnb : e ≠ .badRdata) (lv : ZTSpec.LineVar)
    (hk1 : ¬ (e = .classNotIN ∧ r.owner = none ∧ (r.ttl = none ∨ lv.classFirst = true)))
    (eol : List Char) (heol : IsEol eol) (hc : CommentOk lv) (tailE rest : List Char)
    (hle : LineEnd eol tailE rest) :
    ∃ e', loopStep st (ZTSpec.renderLine lv eol (.record r) ++ tailE ++ rest) = some (.stop (.error e')) :=
  record_err_step dst st hrel r hok e hden hnb lv hk1 eol heol hc tailE rest hle

end Resolved

/-! ## a comment may follow a token directly

`tok;comment` is read exactly like `tok ;comment`: `;` needs no blank before it.  In the tokeniser's
state machine: in `unquotedString`, `;` pushes the token and enters `skipToEndOfComment`, which is what
a blank (push, `initial`) followed by `;` does; in `initial` (between tokens, in particular right after
the closing quote of a quoted token) a blank changes nothing.

`mx_TokAt pre rtoks rstr roct st lc` (Proofs/MiscZoneText.lean): after reading `pre` from the start of
an entry, whatever follows, the tokeniser stands in state `st` with finished tokens `rtoks` and the token
under construction `rstr` / `roct` (`mx_TokAt_nil`: the start of the entry; `mx_TokAt.append`
composes).  "Plain token characters" are `plainUnq` / `plainInit` / `plainQ` of
Proofs/ZoneTextOctets.lean; `ZTSpec.renderToken` covers every rendering (escapes, quoted). -/

namespace Resolved

open ZoneText IpText Gen

/-- **the state-machine fact**: in the initial or the unquoted-string state, `;` and ` ;` lead to the
    same configuration — for any accumulators, inside or outside parentheses, whatever follows. -/
theorem C11_comment_directly_after_token_loop (st : TState) (hst : st = .initial ∨ st = .unquotedString)
    (cs : List Char) (rtoks : List Token) (rstr : List Char) (roct : List UInt8) (lc : Bool) :
    tokLoop 0 (';' :: cs) rtoks rstr roct st lc = tokLoop 0 (' ' :: ';' :: cs) rtoks rstr roct st lc :=
  mx_glue st hst cs rtoks rstr roct lc

/-- **gluing the comment onto an unquoted token changes nothing.**  `pre` is what precedes the token
    in the entry; the tokeniser is there in its unquoted-string state (the token continues one already
    begun) or in its initial state (then the token's first char must be able to begin a token:
    not `(`, `)`, `"`); `tok` is a non-empty run of plain token characters.  The comment text `c` and
    what follows are arbitrary (`c` need not even be free of line feeds). -/
theorem C11_comment_directly_after_token (pre tok c rest : List Char) (rtoks : List Token)
    (rstr : List Char) (roct : List UInt8) (st : TState) (lc : Bool)
    (hpre : mx_TokAt pre rtoks rstr roct st lc)
    (hst : st = .unquotedString ∨ (st = .initial ∧ ∀ h ∈ tok.head?, plainInit h = true))
    (hne : tok ≠ []) (hplain : tok.all plainUnq = true) :
    tokeniseEntry (pre ++ tok ++ [';'] ++ c ++ ['\n'] ++ rest)
      = tokeniseEntry (pre ++ tok ++ [' '] ++ [';'] ++ c ++ ['\n'] ++ rest) := by
  have hat : mx_TokAt (pre ++ tok) rtoks (tok.reverse ++ rstr) ((tok.map charAsU8).reverse ++ roct)
      .unquotedString lc := by
    rcases hst with h | ⟨h, hh⟩
    · subst h
      exact hpre.append (fun tail => mx_plain_unquoted tok hplain tail _ _ _ _)
    · subst h
      cases tok with
      | nil => exact absurd rfl hne
      | cons a as =>
        simp only [List.all_cons, Bool.and_eq_true] at hplain
        exact hpre.append (fun tail => mx_plain_initial a as (hh a (by simp)) hplain.2 tail _ _ _ _)
  have e1 : pre ++ tok ++ [';'] ++ c ++ ['\n'] ++ rest = (pre ++ tok) ++ ';' :: (c ++ '\n' :: rest) := by simp
  have e2 : pre ++ tok ++ [' '] ++ [';'] ++ c ++ ['\n'] ++ rest
      = (pre ++ tok) ++ ' ' :: ';' :: (c ++ '\n' :: rest) := by simp
  rw [e1, e2, hat, hat]
  exact mx_glue_unquoted _ _ _ _ _

/-- what both readings are, outside parentheses with a one-line comment: the token is finished with
    exactly its chars, the comment is dropped, the entry ends at the line feed. -/
theorem C11_glued_comment_reading (pre tok c rest : List Char) (rtoks : List Token)
    (rstr : List Char) (roct : List UInt8)
    (hpre : mx_TokAt pre rtoks rstr roct .unquotedString false)
    (hplain : tok.all plainUnq = true) (hc : '\n' ∉ c) :
    tokeniseEntry (pre ++ tok ++ [';'] ++ c ++ ['\n'] ++ rest)
      = .ok ((pushNonEmpty rtoks (tok.reverse ++ rstr) ((tok.map charAsU8).reverse ++ roct)).reverse, rest) := by
  have hat := hpre.append (fun tail => mx_plain_unquoted tok hplain tail rtoks rstr roct false)
  have e1 : pre ++ tok ++ [';'] ++ c ++ ['\n'] ++ rest = (pre ++ tok) ++ (';' :: c ++ '\n' :: rest) := by simp
  rw [e1, hat]
  exact mx_glued_comment_ends_entry c hc rest _ _ _

/-- **every rendering of a token** (`ZTSpec.renderToken`: unquoted or quoted, bare / `\X` / `\DDD`
    octets in any mixture) standing between tokens: the comment may be glued onto it.  For a quoted
    token this is `"…";comment`. -/
theorem C11_comment_directly_after_rendered_token (tv : ZTSpec.TokVar) (atoms : List ZTSpec.Atom)
    (hs : ∀ a ∈ atoms, StructuralOk a) (pre c rest : List Char) (rtoks : List Token) (lc : Bool)
    (hpre : mx_TokAt pre rtoks [] [] .initial lc) :
    tokeniseEntry (pre ++ ZTSpec.renderToken tv atoms ++ [';'] ++ c ++ ['\n'] ++ rest)
      = tokeniseEntry (pre ++ ZTSpec.renderToken tv atoms ++ [' '] ++ [';'] ++ c ++ ['\n'] ++ rest) := by
  have e1 : pre ++ ZTSpec.renderToken tv atoms ++ [';'] ++ c ++ ['\n'] ++ rest
      = pre ++ (ZTSpec.renderToken tv atoms ++ ';' :: (c ++ '\n' :: rest)) := by simp
  have e2 : pre ++ ZTSpec.renderToken tv atoms ++ [' '] ++ [';'] ++ c ++ ['\n'] ++ rest
      = pre ++ (ZTSpec.renderToken tv atoms ++ ' ' :: ';' :: (c ++ '\n' :: rest)) := by simp
  rw [e1, e2, hpre, hpre]
  by_cases hq : tv.quoted = true ∨ atoms = []
  · rw [tokLoop_renderToken_quoted tv atoms hq hs, tokLoop_renderToken_quoted tv atoms hq hs]
    exact mx_glue_initial _ _ _ _ _
  · have hq1 : tv.quoted = false := by
      cases h : tv.quoted with
      | false => rfl
      | true => exact absurd (Or.inl h) hq
    have hne : atoms ≠ [] := fun h => hq (Or.inr h)
    rw [tokLoop_renderToken_unquoted tv atoms hq1 hne hs, tokLoop_renderToken_unquoted tv atoms hq1 hne hs]
    exact mx_glue_unquoted _ _ _ _ _

/-- **the quoted case** on raw text: `"body"` of plain quoted characters standing between tokens,
    immediately followed by `;`. -/
theorem C11_comment_directly_after_quoted (pre body c rest : List Char) (rtoks : List Token) (lc : Bool)
    (hpre : mx_TokAt pre rtoks [] [] .initial lc) (hbody : body.all plainQ = true) :
    tokeniseEntry (pre ++ ['"'] ++ body ++ ['"'] ++ [';'] ++ c ++ ['\n'] ++ rest)
      = tokeniseEntry (pre ++ ['"'] ++ body ++ ['"'] ++ [' '] ++ [';'] ++ c ++ ['\n'] ++ rest) := by
  have e1 : pre ++ ['"'] ++ body ++ ['"'] ++ [';'] ++ c ++ ['\n'] ++ rest
      = pre ++ ('"' :: body ++ '"' :: (';' :: (c ++ '\n' :: rest))) := by simp
  have e2 : pre ++ ['"'] ++ body ++ ['"'] ++ [' '] ++ [';'] ++ c ++ ['\n'] ++ rest
      = pre ++ ('"' :: body ++ '"' :: (' ' :: ';' :: (c ++ '\n' :: rest))) := by simp
  rw [e1, e2, hpre, hpre, mx_plain_quoted body hbody, mx_plain_quoted body hbody]
  exact mx_glue_initial _ _ _ _ _

/-- two texts with the same tokenisation of their first entry are the same to `parse_entry`. -/
theorem C11_glued_comment_same_entry (s1 s2 : List Char) (h : tokeniseEntry s1 = tokeniseEntry s2)
    (fuel : Nat) (o : Option Name) (pd : Option MaybeWildcard) (pt : Option Nat) :
    parseEntry fuel o pd pt s1 = parseEntry fuel o pd pt s2 :=
  mx_parseEntry_congr h fuel o pd pt

/-- **the same zone**: two files in which the entry loop arrives with the same local state `st`
    (`Reach`: anywhere in the file, after anything) in front of two texts `s1`, `s2` whose next entry
    tokenises alike — e.g. `s1 = pre ++ tok ++ ";…"`, `s2 = pre ++ tok ++ " ;…"` by the theorems above —
    have the same result: the same zone, or the same error. -/
theorem C11_glued_comment_same_zone (data1 data2 s1 s2 : List Char) (st : DState)
    (h1 : Reach data1 st s1) (h2 : Reach data2 st s2) (h : tokeniseEntry s1 = tokeniseEntry s2) :
    deserialise data1 = deserialise data2 := by
  unfold deserialise
  rw [mx_deserialise_congr h1 h2 h]

/-- … in particular when the glued comment stands in the first entry of the file. -/
theorem C11_glued_comment_same_zone_first_entry (tok c rest : List Char) (hne : tok ≠ [])
    (hhead : ∀ h ∈ tok.head?, plainInit h = true) (hplain : tok.all plainUnq = true) :
    deserialise (tok ++ [';'] ++ c ++ ['\n'] ++ rest)
      = deserialise (tok ++ [' '] ++ [';'] ++ c ++ ['\n'] ++ rest) := by
  have h := C11_comment_directly_after_token [] tok c rest [] [] [] .initial false mx_TokAt_nil
    (Or.inr ⟨rfl, hhead⟩) hne hplain
  simp only [List.nil_append] at h
  exact C11_glued_comment_same_zone _ _ _ _ {} .start .start h

/-! ### non-vacuity

`a;x⏎b` and `a ;x⏎b`; `"a";x⏎`; a position in the middle of an entry (`mx_TokAt` after `a `). -/

example : tokeniseEntry ['a', ';', 'x', '\n', 'b'] = .ok ([(['a'], [97])], ['b']) ∧
    tokeniseEntry ['a', ' ', ';', 'x', '\n', 'b'] = .ok ([(['a'], [97])], ['b']) := by
  constructor <;> simp [tokeniseEntry, tokLoop, pushNonEmpty, isWhitespace, isAscii, charAsU8] <;> decide

example : tokeniseEntry ['"', 'a', '"', ';', 'x', '\n'] = .ok ([(['a'], [97])], []) ∧
    tokeniseEntry ['"', 'a', '"', ' ', ';', 'x', '\n'] = .ok ([(['a'], [97])], []) := by
  constructor <;> simp [tokeniseEntry, tokLoop, pushNonEmpty, isWhitespace, isAscii, charAsU8] <;> decide

/-- the hypotheses of `C11_comment_directly_after_token` hold after `a ` (one finished token, between
    tokens) for the token `IN`. -/
example : mx_TokAt ['a', ' '] [(['a'], [97])] [] [] .initial false ∧
    (∀ h ∈ ['I', 'N'].head?, plainInit h = true) ∧ ['I', 'N'].all plainUnq = true := by
  refine ⟨?_, by decide, by decide⟩
  intro tail
  simp [tokeniseEntry, tokLoop, pushNonEmpty, isWhitespace, isAscii, charAsU8]

/-- a whole file: `$ORIGIN e.;x⏎` and `$ORIGIN e. ;x⏎` followed by the same record line. -/
example :
    deserialise (['$','O','R','I','G','I','N',' ','e','.'] ++ [';'] ++ ['x'] ++ ['\n'] ++ ['a',' ','5',' ','A',' ','1','.','2','.','3','.','4','\n'])
      = deserialise (['$','O','R','I','G','I','N',' ','e','.'] ++ [' '] ++ [';'] ++ ['x'] ++ ['\n'] ++ ['a',' ','5',' ','A',' ','1','.','2','.','3','.','4','\n']) := by
  have h := C11_comment_directly_after_token ['$','O','R','I','G','I','N',' '] ['e','.'] ['x']
    ['a',' ','5',' ','A',' ','1','.','2','.','3','.','4','\n']
    [(['$','O','R','I','G','I','N'], [36,79,82,73,71,73,78])] [] [] .initial false
    (by intro tail
        simp [tokeniseEntry, tokLoop, pushNonEmpty, isWhitespace, isAscii, charAsU8])
    (Or.inr ⟨rfl, by decide⟩) (by simp) (by decide)
  exact C11_glued_comment_same_zone _ _ _ _ {} .start .start (by simpa using h)

/-- … and that file is accepted (a zone with `a.e. 5 A 1.2.3.4`), so the equation above is not one
    between two errors. -/
example :
    (match deserialise (['$','O','R','I','G','I','N',' ','e','.'] ++ [';'] ++ ['x'] ++ ['\n'] ++ ['a',' ','5',' ','A',' ','1','.','2','.','3','.','4','\n']) with
      | .ok z => z.soa.isNone && z.apex == Name.root
      | _ => false) = true := by decide +kernel

end Resolved
