/-
  C10 — CNAME chains are returned whole, in order, and loops end safely.
  FIRST-CLAIM version: the two guards that stop every alias walk, for any zones/cache/question.
  Being proved: any `ok` result of the local / recursive / forwarding machine is ChainShaped.
-/
import Resolved.Model.Resolver
import Resolved.Proofs.ResolverLocalChain
import Resolved.Proofs.ResolverLocalExamples

namespace Resolved

open Gen

/-- With the question stack at the recursion limit no further alias is followed. -/
theorem C10_limit_stops (fuel : Nat) (ctx : Ctx) (q : Question) (h : ctx.stack.length = RECURSION_LIMIT) :
    (resolveLocal (fuel + 1) ctx q).2 = .error .recursionLimit := by
  simp [resolveLocal, Ctx.atRecursionLimit, h]

/-- A question already on the stack (an alias loop) is refused instead of being followed again. -/
theorem C10_no_alias_twice (fuel : Nat) (ctx : Ctx) (q : Question)
    (hl : ctx.stack.length ≠ RECURSION_LIMIT) (h : q ∈ ctx.stack) :
    (resolveLocal (fuel + 1) ctx q).2 = .error (.duplicateQuestion q) := by
  simp [resolveLocal, Ctx.atRecursionLimit, Ctx.isDuplicate, hl, h]

/-! ## Loops end safely: depth and fuel of the local resolver

  `resolveLocal (fuel + 1) = localStep (resolveLocal fuel)` (`resolveLocal_succ`, by `rfl`): one
  unit of fuel per native recursion level.  `localStep rec ctx q` is `resolve_local`'s body with
  the recursive call abstracted as `rec`. -/

/-- Depth bound.  Started with at most `RECURSION_LIMIT` stacked questions, a level calls itself
    only with the question pushed on the stack — which therefore still holds at most
    `RECURSION_LIMIT` questions — never with a question already on it, and with the same zones,
    clock, type and class asked (`IsSubcall`): its outcome is a function of the values of the
    recursive function at such arguments alone.  The stack never exceeds `RECURSION_LIMIT`. -/
theorem C10_depth_bound (ctx : Ctx) (q : Question) (hlen : ctx.stack.length ≤ RECURSION_LIMIT)
    (r1 r2 : Ctx → Question → LocalOut)
    (h : ∀ c' q', IsSubcall ctx q c' q' → r1 c' q' = r2 c' q') :
    localStep r1 ctx q = localStep r2 ctx q :=
  localStep_congr hlen h

/-- … so the native recursion is at most `RECURSION_LIMIT + 1 - stack length` levels deep: that
    much fuel never runs out (`outOfFuel` is not returned) and any larger amount gives the very
    same context and result. -/
theorem C10_local_fuel_suffices (fuel : Nat) (ctx : Ctx) (q : Question)
    (hlen : ctx.stack.length ≤ RECURSION_LIMIT)
    (hfuel : RECURSION_LIMIT + 1 - ctx.stack.length ≤ fuel) :
    (resolveLocal fuel ctx q).2 ≠ .error .outOfFuel ∧
    ∀ fuel', fuel ≤ fuel' → resolveLocal fuel' ctx q = resolveLocal fuel ctx q := by
  constructor
  · obtain ⟨n, rfl⟩ : ∃ n, fuel = n + 1 := ⟨fuel - 1, by omega⟩
    exact resolveLocal_succ_ne_outOfFuel n ctx q
  · exact resolveLocal_fuel_mono fuel ctx q hlen (by omega)

/-- the fuel the callers pass (`RECURSION_LIMIT + 1`) suffices for every stack within the limit. -/
theorem C10_local_fuel_default (ctx : Ctx) (q : Question) (hlen : ctx.stack.length ≤ RECURSION_LIMIT)
    (fuel : Nat) (hf : RECURSION_LIMIT + 1 ≤ fuel) :
    resolveLocal fuel ctx q = resolveLocal (RECURSION_LIMIT + 1) ctx q :=
  (C10_local_fuel_suffices (RECURSION_LIMIT + 1) ctx q hlen (by omega)).2 fuel hf

/-- With at least one unit of fuel local resolution ends in a result or in one of five errors —
    never in `outOfFuel`, whatever the recursive calls did (their failures are absorbed into a
    partial chain). -/
theorem C10_local_errors (fuel : Nat) (ctx : Ctx) (q : Question) (e : ResolutionError)
    (h : (resolveLocal (fuel + 1) ctx q).2 = .error e) :
    e = .recursionLimit ∨ e = .duplicateQuestion q ∨ e = .localDelegationMissingNS ∨
    e = .cacheTypeMismatch ∨ e = .deadEnd q := by
  rw [resolveLocal_succ] at h; exact localStep_error h

/-- The question stack is restored, zones and clock are untouched (only the cache's bookkeeping
    may change), however the walk ends. -/
theorem C10_stack_restored (fuel : Nat) (ctx : Ctx) (q : Question) :
    (resolveLocal fuel ctx q).1.stack = ctx.stack ∧ (resolveLocal fuel ctx q).1.zones = ctx.zones ∧
    (resolveLocal fuel ctx q).1.now = ctx.now := by
  obtain ⟨h1, h2, h3⟩ := resolveLocal_frame fuel ctx q
  exact ⟨h3, h1, h2⟩

/-- The questions on the stack stay pairwise distinct along a walk (the duplicate guard). -/
theorem C10_stack_distinct (ctx : Ctx) (q : Question) (c' : Ctx) (q' : Question)
    (h : IsSubcall ctx q c' q') (hn : ctx.stack.Nodup) : c'.stack.Nodup := by
  obtain ⟨hs, _, hq, _⟩ := h
  rw [hs]
  exact List.nodup_append.mpr ⟨hn, by simp, by
    intro a ha b hb
    simp only [List.mem_singleton] at hb
    subst hb
    intro hab; subst hab; exact hq ha⟩

/-! ## CNAME chains are returned whole and in order (local resolver)

  `ChainShaped qn qtype rrs` (Proofs/ResolverLocalChain.lean): `rrs = cs ++ fs` where `cs` is an
  alias chain from `qn` (`IsChain qn cs e`: each record is a CNAME record, the first owned by `qn`,
  each next one owned by its predecessor's target, the last pointing at `e`; see `IsChain.link`,
  `IsChain.last`, `IsChain.all_cname` for the index form), the owners of `cs` are pairwise distinct,
  and every record of `fs` has the asked type, is owned by `e` and is not an alias.

  Hypotheses on the data sources:
  * (H-zone) `ZoneAnswersTyped ctx.zones`: zone answers carry records of the asked type and alias
    verdicts carry a record of type CNAME.  It follows (`zoneAnswersTyped_of_typed`) from the
    structural invariant `ZonesTyped` (record maps keyed by their records' type).  That zone
    records are owned by the query name needs no hypothesis (`Zones.resolve_owned`, from C02).
  * (H-cache) `CacheTyped ctx.cache`: cache invariant I6 (tuples under key `rk` have type `rk`);
    it is preserved by cache reads (`cacheGet_typed`) and holds of the empty cache.  That cached
    records are owned by the looked-up name needs no hypothesis (`cacheGet_owner`).
  `LocalResult.answerRrs`: the records of `.done` / `.partialAnswer` / `.cname` outcomes (`none` for a
  referral, which carries NS records). -/

/-- MAIN (local): for a question of a type other than CNAME and ANY, the records of every `ok`
    outcome are an alias chain from the question name, without repeated owner, followed only by
    records of the asked type owned by the final target; no link's owner is a question already on
    the stack. -/
theorem C10_local_chain (fuel : Nat) (ctx : Ctx) (q : Question)
    (hzone : ZoneAnswersTyped ctx.zones) (hcache : CacheTyped ctx.cache)
    (h5 : q.qtype ≠ RT_CNAME) (h255 : q.qtype ≠ QTYPE_WILDCARD)
    (r : LocalResult) (hr : (resolveLocal fuel ctx q).2 = .ok r) (rrs : List RR)
    (hrrs : r.answerRrs = some rrs) :
    ChainShaped q.name q.qtype rrs ∧ ChainShapedOff ctx.stack q rrs := by
  have h := resolveLocal_chain fuel ctx q hzone hcache h5 h255 r hr
  cases r with
  | done res => cases hrrs; exact ⟨h.shaped, h⟩
  | partialAnswer rs => cases hrrs; exact ⟨h.shaped, h⟩
  | delegation rs s d => cases hrrs
  | cname rs cq =>
    cases hrrs
    obtain ⟨e, _, hd, _⟩ := h
    have : ChainShapedOff ctx.stack q rrs := ⟨rrs, [], e, by simp, hd⟩
    exact ⟨this.shaped, this⟩

/-- An unfinished walk (`.cname rrs cq`) hands over a non-empty pure alias chain from the question
    name, and the question to continue with asks the same type and class about the chain's end. -/
theorem C10_local_cname_continuation (fuel : Nat) (ctx : Ctx) (q : Question)
    (hzone : ZoneAnswersTyped ctx.zones) (hcache : CacheTyped ctx.cache)
    (h5 : q.qtype ≠ RT_CNAME) (h255 : q.qtype ≠ QTYPE_WILDCARD)
    (rrs : List RR) (cq : Question) (hr : (resolveLocal fuel ctx q).2 = .ok (.cname rrs cq)) :
    rrs ≠ [] ∧ IsChain q.name rrs cq.name ∧ (rrs.map (·.name)).Nodup ∧
      cq.qtype = q.qtype ∧ cq.qclass = q.qclass := by
  obtain ⟨e, hne, hd, hcq⟩ := resolveLocal_chain fuel ctx q hzone hcache h5 h255 _ hr
  subst hcq
  exact ⟨hne, hd.chain, hd.nodup, rfl, rfl⟩

/-- In authoritative-only mode the whole reply has the shape. -/
theorem C10_auth_only_chain (ctx : Ctx) (q : Question)
    (hzone : ZoneAnswersTyped ctx.zones) (hcache : CacheTyped ctx.cache)
    (h5 : q.qtype ≠ RT_CNAME) (h255 : q.qtype ≠ QTYPE_WILDCARD) (soa : RR) (rrs : List RR)
    (hr : (resolveAuthoritativeOnly ctx q).2 = .ok (.authoritative rrs soa))
    (hnd : ∀ rs s d, (resolveLocal (RECURSION_LIMIT + 1) ctx q).2 ≠ .ok (.delegation rs s d)) :
    ChainShaped q.name q.qtype rrs := by
  unfold resolveAuthoritativeOnly at hr
  simp only at hr
  cases hl : (resolveLocal (RECURSION_LIMIT + 1) ctx q).2 with
  | error e => rw [hl] at hr; cases hr
  | ok r =>
    rw [hl] at hr
    simp only [Except.map, Except.ok.injEq] at hr
    cases r with
    | delegation rs s d => exact absurd hl (hnd rs s d)
    | done res =>
      simp only [LocalResult.toResolved] at hr; subst hr
      exact (C10_local_chain _ ctx q hzone hcache h5 h255 _ hl rrs rfl).1
    | partialAnswer rs => simp [LocalResult.toResolved] at hr
    | cname rs cq => simp [LocalResult.toResolved] at hr

/-! ## The hypotheses are established by the constructors (Proofs/ResolverLocalTyped.lean)

  * every zone built by `Zone::new` and insertions is consistently keyed (`Zone.typed_of_reachable`),
    hence any `Zones` all of whose zones are so built satisfies (H-zone) (`zonesTyped_of_all`,
    `zoneAnswersTyped_of_typed`); so does every `Zones.Configured` — `Zones::new()` followed by
    `insert_merge` of built zones (apexes being names `from_labels` builds), merges included
    (`Zones.Configured.answersTyped`, through the C02/C12 representation invariant).
  * the empty cache satisfies I6 and `SharedCache::insert_all` and cache reads keep it
    (`cacheTyped_new`, `sharedInsertAll_typed`, `cacheGet_typed`). -/

theorem C10_hypotheses_established :
    (∀ apex soa ops z, Zone.Reachable apex soa ops z → z.records.Typed) ∧
    (∀ zs : Zones, (∀ k z, Zones.lookup zs.zones k = some z → z.records.Typed) → ZoneAnswersTyped zs) ∧
    (∀ zs : Zones, Zones.Configured zs → ZoneAnswersTyped zs ∧ ZonesKeyed zs) ∧
    (∀ n, CacheTyped (PCache.new n)) ∧
    (∀ c rrs now, CacheTyped c → CacheTyped (sharedInsertAll c rrs now)) ∧
    (∀ c name qtype now, CacheTyped c → CacheTyped (cacheGet c name qtype now).1) :=
  ⟨fun _ _ _ _ h => Zone.typed_of_reachable h,
   fun _ h => zoneAnswersTyped_of_typed (zonesTyped_of_all h),
   fun _ h => ⟨h.answersTyped, h.repr.1⟩,
   cacheTyped_new,
   fun _ rrs now h => sharedInsertAll_typed rrs now h,
   fun _ name qtype now h => (cacheGet_typed h name qtype now).1⟩

/-- MAIN, hypotheses discharged for the server's own data: zones as configured (merges included),
    any cache satisfying I6 (the empty cache, and whatever insertions and reads make of it). -/
theorem C10_local_chain_configured (fuel : Nat) (ctx : Ctx) (q : Question)
    (hzone : Zones.Configured ctx.zones) (hcache : CacheTyped ctx.cache)
    (h5 : q.qtype ≠ RT_CNAME) (h255 : q.qtype ≠ QTYPE_WILDCARD)
    (r : LocalResult) (hr : (resolveLocal fuel ctx q).2 = .ok r) (rrs : List RR)
    (hrrs : r.answerRrs = some rrs) : ChainShaped q.name q.qtype rrs :=
  (C10_local_chain fuel ctx q hzone.answersTyped hcache h5 h255 r hr rrs hrrs).1

/-! ## Non-vacuity (fixtures: Proofs/ResolverLocalExamples.lean) -/

/-- `Zones.Configured` is inhabited beyond the empty configuration. -/
example : Zones.Configured (Zones.empty.insert (Zone.new Ex.nE none)) :=
  .merge Zones.empty _ Ex.nE none [] _ .empty (by decide) rfl rfl

/-- the fixture satisfies (H-zone) and (H-cache). -/
example : ZoneAnswersTyped Ex.ctx1.zones ∧ CacheTyped Ex.ctx1.cache := ⟨Ex.zones_answers_typed, Ex.cache1_typed⟩

/-- `c.e. A`: alias and target from the zone — a chain of one link followed by the address. -/
example : (resolveLocal 33 Ex.ctx1 (Ex.qA Ex.nCE)).2 = .ok (.done (.authoritative [Ex.rrC, Ex.rrW] Ex.soaRRE)) ∧
    ChainShaped Ex.nCE RT_A [Ex.rrC, Ex.rrW] :=
  ⟨Ex.run_c Ex.ctx1 rfl rfl,
   (C10_local_chain 33 Ex.ctx1 (Ex.qA Ex.nCE) Ex.zones_answers_typed Ex.cache1_typed (by decide) (by decide) _
     (Ex.run_c Ex.ctx1 rfl rfl) _ rfl).1⟩

/-- `k. A`: both the alias `k. CNAME o.` and the address `o. A 7` come from the cache. -/
example : (resolveLocal 33 Ex.ctx1 (Ex.qA Ex.nK)).2 = .ok (.done (.nonAuthoritative [Ex.rrK, Ex.rrO] none)) ∧
    ChainShaped Ex.nK RT_A [Ex.rrK, Ex.rrO] :=
  ⟨Ex.run_k,
   (C10_local_chain 33 Ex.ctx1 (Ex.qA Ex.nK) Ex.zones_answers_typed Ex.cache1_typed (by decide) (by decide) _
     Ex.run_k _ rfl).1⟩

/-- `d.e. A`, cold cache: an unfinished walk handing over the chain and the question to go on with. -/
example : (resolveLocal 33 Ex.ctx0 (Ex.qA Ex.nDE)).2 = .ok (.cname [Ex.rrD] (Ex.qA Ex.nO)) ∧
    IsChain Ex.nDE [Ex.rrD] Ex.nO :=
  ⟨Ex.run_d_cold,
   (C10_local_cname_continuation 33 Ex.ctx0 (Ex.qA Ex.nDE) Ex.zones_answers_typed (cacheTyped_new _) (by decide)
     (by decide) _ _ Ex.run_d_cold).2.1⟩

/-- `p.e. A`: the alias loop `p.e. → q.e. → p.e.` ends in a partial chain in which each alias occurs
    once (owners pairwise distinct), never in a hang or a repeated record. -/
example : (resolveLocal 33 Ex.ctx1 (Ex.qA Ex.nPE)).2 = .ok (.cname [Ex.rrP, Ex.rrQ] (Ex.qA Ex.nPE)) ∧
    IsChain Ex.nPE [Ex.rrP, Ex.rrQ] Ex.nPE ∧ ([Ex.rrP, Ex.rrQ].map (·.name)).Nodup :=
  have h := C10_local_cname_continuation 33 Ex.ctx1 (Ex.qA Ex.nPE) Ex.zones_answers_typed Ex.cache1_typed
    (by decide) (by decide) _ _ Ex.run_p
  ⟨Ex.run_p, h.2.1, h.2.2.1⟩

/-- the two guards do fire: a question already on the stack, and a full stack. -/
example : (resolveLocal 5 { Ex.ctx0 with stack := [Ex.qA Ex.nCE] } (Ex.qA Ex.nCE)).2 =
    .error (.duplicateQuestion (Ex.qA Ex.nCE)) :=
  C10_no_alias_twice 4 _ _ (by decide) (by simp)

example : (resolveLocal 5 { Ex.ctx0 with stack := List.replicate 32 (Ex.qA Ex.nCE) } (Ex.qA Ex.nWE)).2 =
    .error .recursionLimit :=
  C10_limit_stops 4 _ _ (by simp [RECURSION_LIMIT])

end Resolved
