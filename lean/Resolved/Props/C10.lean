/-
  C10 — CNAME chains are returned whole, in order, and loops end safely.
  FIRST-CLAIM version: the two guards that stop every alias walk, for any zones/cache/question.
  Being proved: any `ok` result of the local / recursive / forwarding machine is ChainShaped.
-/
import Resolved.Model.Resolver

namespace Resolved

open Gen

/-- With the question stack at the recursion limit no further alias is followed. -/
theorem C10_limit_stops (fuel : Nat) (ctx : Ctx) (q : Question) (h : ctx.stack.length = RECURSION_LIMIT) :
    (resolveLocal (fuel + 1) ctx q).2 = .error .recursionLimit := by
  simp [resolveLocal, Ctx.atRecursionLimit, h]

/-- A question already on the stack (an alias loop) is refused instead of being followed again. -/
theorem C10_no_alias_twice (fuel : Nat) (ctx : Ctx) (q : Question)
    (hl : ctx.stack.length ≠ RECURSION_LIMIT) (h : q ∈ ctx.stack) :
    (resolveLocal (fuel + 1) ctx q).2 = .error (.duplicateQuestion q) := by
  simp [resolveLocal, Ctx.atRecursionLimit, Ctx.isDuplicate, hl, h]

end Resolved
