/-
  C07 — Recursive resolution finds the authoritative answer in any delegation tree: the
  correctness theorems over consistent universes (`Spec/UniverseSpec.lean`).

  Setting (all hypotheses explicit; decidable ones are discharged by `decide` in the examples):
  * a universe `U` of authoritative servers (zone, host name, IPv4 address, optional IPv6 address,
    glue TTL, delay): one name server per zone, glue-complete referrals.  `UniOK U cfg`: the
    resolver `cfg` runs in only-v4 or prefer-v4 mode, its oracle is FAITHFUL to the universe
    (`authReply`: `Zone.resolve`-based answers, NODATA / NXDOMAIN with SOA, referrals with `A` — and
    for dual-stack hosts `AAAA` — glue, alias records), one address per host, one host per apex,
    delays under 5 s, glue TTL > 0 (necessary: `C07_glue_ttl0_counterexample`);
  * `DelegPath U q R rest Z`: the referrals for `q` lead from the root server `R` through `rest`
    to `Z`, each referral a single NS record (TTL > 0) for a strictly deeper zone; in a
    `Consistent` universe (decidable check `universeConsistent`) such a path exists for every
    question (`C07_universe_path_exists`);
  * `UniStart zs q R rest`: the local zones `zs` hold the root hints for `R` and nothing else that
    matters (`localMiss`, `candMiss`); the cache is empty (`startCtx`); the delays sum up to less
    than 60 s.  With `zs` = exactly the root hints zone `Zone::insert` builds, these reduce to facts
    about names (`C07_universe_root_hints`);
  * `QuestionOK q`: an ordinary record type (not AXFR/MAILA/MAILB/ANY; CNAME and NS questions are
    included in the theorems without aliases), request fits UDP.
  Theorems:
  * `C07_universe_answer` / `_nodata` / `_nxdomain` / `_result`: `resolveRecursive` returns exactly
    the records the last zone of the path holds for the name and type, or an empty answer with
    that zone's SOA; `C07_universe_exchanges`: after exactly one UDP exchange with each server of
    the path, in order, in the sum of their delays; `C07_universe_strictly_deeper`;
  * `C07_universe_consistent`, `C07_universe_root_hints`: the same without a path in the hypotheses;
  * extension (a) `C07_universe_cname(_answer)`: one alias crossing zones; `C07_universe_plan`: alias
    chains of any length (`UniPlan`), the cached referrals being re-used for each target;
  * extension (b), first half `C07_universe_multi`: several name servers per zone (glue-complete),
    any `hostOrder`; referrals without glue are left open;
  * extension (c): prefer-v4 mode and dual-stack glue are covered by the same theorems;
  * the single steps in general form: `C07_filter_accepts_answer` / `_nodata` / `_referral` /
    `_multi_referral` (completeness of the reply filter), `C07_answer_step`,
    `C07_referral_accept_step` and their several-candidates versions (extension (b), steps only).
-/
import Resolved.Proofs.UniverseLemmas
import Resolved.Proofs.ResolverLocalExamples
import Resolved.Proofs.ResolverMachineExample

namespace Resolved

open Gen

set_option autoImplicit false

/-- The general form: the result is the expected result of the last server of the path
    (`expectedAt`), the log is one exchange per server of the path, the clock shows the sum of the
    delays, and the question stack is empty again. -/
theorem C07_universe_result {U : Universe} {cfg : RecCfg} (h : UniOK U cfg) {q : Question} (hq : QuestionOK q)
    (hk : rtypeIsUnknown q.qtype = false)
    {R Z : UEntry} {rest : List UEntry} (hp : DelegPath U q R rest Z) (hty : Z.zone.records.Typed)
    {zs : Zones} (hs : UniStart zs q R rest) (d now : Nat) (res : ResolvedRecord)
    (hexp : expectedAt Z q = some res) :
    (resolveRecursive cfg (startCtx zs d now) q).2 = .ok res ∧
    (resolveRecursive cfg (startCtx zs d now) q).1.run.log = (R :: rest).map (·.exchange cfg.port q) ∧
    (resolveRecursive cfg (startCtx zs d now) q).1.run.elapsedMs = totalDelay (R :: rest) ∧
    (resolveRecursive cfg (startCtx zs d now) q).1.run.timedOut = false ∧
    (resolveRecursive cfg (startCtx zs d now) q).1.ctx.stack = [] := by
  obtain ⟨st', h1, h2, h3⟩ := uni_resolveRecursive h q hq hp res hexp
    (fun rrs hr => uni_answerOK hty q hq.qtype hk rrs hr) zs d now hs.root hs.hints hs.qmiss hs.cand
    hs.notHost hs.hostsMiss hs.time hs.fuel
  rw [h1]
  simp [h2, h3, uniRun, Run.empty]

/-- C07 (happy path).  The zone `Z` at the end of the referrals holds the records `rrs ≠ []` for
    the question's name and type: the resolver returns exactly these records (same owners, types,
    data, TTLs as served), as a non-authoritative answer without SOA. -/
theorem C07_universe_answer {U : Universe} {cfg : RecCfg} (h : UniOK U cfg) {q : Question} (hq : QuestionOK q)
    (hk : rtypeIsUnknown q.qtype = false)
    {R Z : UEntry} {rest : List UEntry} (hp : DelegPath U q R rest Z) (hty : Z.zone.records.Typed)
    {zs : Zones} (hs : UniStart zs q R rest) (d now : Nat) (rrs : List RR) (soa : RR)
    (hres : Z.zone.resolve q.name q.qtype = some (.answer rrs)) (hne : rrs ≠ [])
    (hsoa : Z.zone.soaRR = some soa) :
    (resolveRecursive cfg (startCtx zs d now) q).2 = .ok (.nonAuthoritative rrs none) := by
  refine (C07_universe_result h hq hk hp hty hs d now _ ?_).1
  unfold expectedAt
  rw [hres, hsoa]
  have : rrs.isEmpty = false := by cases rrs with | nil => exact absurd rfl hne | cons _ _ => rfl
  simp [this]

/-- C07 (NODATA).  The name exists in `Z` but holds no record of the asked type: an empty answer
    with `Z`'s SOA record. -/
theorem C07_universe_nodata {U : Universe} {cfg : RecCfg} (h : UniOK U cfg) {q : Question} (hq : QuestionOK q)
    (hk : rtypeIsUnknown q.qtype = false)
    {R Z : UEntry} {rest : List UEntry} (hp : DelegPath U q R rest Z) (hty : Z.zone.records.Typed)
    {zs : Zones} (hs : UniStart zs q R rest) (d now : Nat) (soa : RR)
    (hres : Z.zone.resolve q.name q.qtype = some (.answer [])) (hsoa : Z.zone.soaRR = some soa) :
    (resolveRecursive cfg (startCtx zs d now) q).2 = .ok (.nonAuthoritative [] (some soa)) := by
  refine (C07_universe_result h hq hk hp hty hs d now _ ?_).1
  unfold expectedAt
  rw [hres, hsoa]
  simp

/-- C07 (NXDOMAIN).  The name does not exist in `Z`: an empty answer with `Z`'s SOA record. -/
theorem C07_universe_nxdomain {U : Universe} {cfg : RecCfg} (h : UniOK U cfg) {q : Question} (hq : QuestionOK q)
    (hk : rtypeIsUnknown q.qtype = false)
    {R Z : UEntry} {rest : List UEntry} (hp : DelegPath U q R rest Z) (hty : Z.zone.records.Typed)
    {zs : Zones} (hs : UniStart zs q R rest) (d now : Nat) (soa : RR)
    (hres : Z.zone.resolve q.name q.qtype = some .nameError) (hsoa : Z.zone.soaRR = some soa) :
    (resolveRecursive cfg (startCtx zs d now) q).2 = .ok (.nonAuthoritative [] (some soa)) := by
  refine (C07_universe_result h hq hk hp hty hs d now _ ?_).1
  unfold expectedAt
  rw [hres, hsoa]

/-- C07 (exchanges).  Whatever the last zone says (answer, NODATA or NXDOMAIN), the log of
    exchanges is exactly: the root server, then each server on the path down to `Z` — one UDP
    exchange each, with the question itself, RD = 0, on the configured port — and the resolution
    takes the sum of the servers' delays. -/
theorem C07_universe_exchanges {U : Universe} {cfg : RecCfg} (h : UniOK U cfg) {q : Question} (hq : QuestionOK q)
    (hk : rtypeIsUnknown q.qtype = false)
    {R Z : UEntry} {rest : List UEntry} (hp : DelegPath U q R rest Z) (hty : Z.zone.records.Typed)
    {zs : Zones} (hs : UniStart zs q R rest) (d now : Nat) (hexp : (expectedAt Z q).isSome = true) :
    (resolveRecursive cfg (startCtx zs d now) q).1.run.log =
      (R :: rest).map (fun E => { addr := .a E.addr, port := cfg.port, tcp := false, question := q,
                                  recursionDesired := false }) ∧
    (resolveRecursive cfg (startCtx zs d now) q).1.run.log.length = rest.length + 1 ∧
    (resolveRecursive cfg (startCtx zs d now) q).1.run.elapsedMs = totalDelay (R :: rest) := by
  cases he : expectedAt Z q with
  | none => rw [he] at hexp; cases hexp
  | some res =>
    obtain ⟨_, h2, h3, _, _⟩ := C07_universe_result h hq hk hp hty hs d now res he
    refine ⟨h2, by rw [h2]; simp, h3⟩

/-- … and along the path each server's zone is strictly deeper than the previous one's and encloses
    the question name (when the last zone has an answer for the question at all). -/
theorem C07_universe_strictly_deeper {U : Universe} {q : Question} {Y Z : UEntry} {rest : List UEntry}
    (hp : DelegPath U q Y rest Z) (hz : (Z.zone.resolve q.name q.qtype).isSome = true) :
    List.Pairwise (fun (A B : UEntry) => A.apex.labels.length < B.apex.labels.length) (Y :: rest) ∧
    ∀ E ∈ Y :: rest, q.name.isSubdomainOf E.apex = true := by
  induction hp with
  | here Z _ => exact ⟨by simp, by intro E hE; simp at hE; subst hE; exact uni_resolve_sub hz⟩
  | down Y C Z rest ttl hY hC hres _ hd hpath ih =>
    obtain ⟨ih1, ih2⟩ := ih hz
    constructor
    · rw [List.pairwise_cons]
      refine ⟨?_, ih1⟩
      intro B hB
      rcases List.mem_cons.mp hB with rfl | hB
      · exact hd
      · exact Nat.lt_trans hd ((List.pairwise_cons.mp ih1).1 B hB)
    · intro E hE
      rcases List.mem_cons.mp hE with rfl | hE
      · exact uni_resolve_sub (by rw [hres]; rfl)
      · exact ih2 E hE

/-! ## The single steps, in general form (any oracle, any universe) -/

/-- Completeness of the reply filter for answers (the converse direction of C06's soundness): a
    non-empty answer section made of records owned by the question name, of the asked (ordinary)
    type, of known type and class, is accepted unchanged. -/
theorem C07_filter_accepts_answer (q : Question) (m : Message) (mc : Nat)
    (hq : lookupNat queryTypeFromU16 q.qtype = none) (hne : m.answers ≠ [])
    (hall : ∀ rr ∈ m.answers, rr.name = q.name ∧ rr.rtype = q.qtype ∧ rrIsUnknown rr = false) :
    validateNameserverResponse q m mc = some (.answer m.answers none) :=
  uni_validate_answer q m mc hq hne hall

/-- … for NODATA / NXDOMAIN replies: empty answer, the SOA of a zone enclosing the question name,
    at least as deep as the delegation in use, as the only authority record. -/
theorem C07_filter_accepts_nodata (q : Question) (m : Message) (mc : Nat) (soa : RR)
    (hans : m.answers = []) (hauth : m.authority = [soa]) (hsoa : soa.rtype = RT_SOA)
    (hrc : m.header.rcode = RCODE_NOERROR ∨ m.header.rcode = RCODE_NAMEERROR)
    (hsub : q.name.isSubdomainOf soa.name = true) (hmc : mc ≤ soa.name.labels.length) :
    validateNameserverResponse q m mc = some (.answer [] (some soa)) :=
  uni_validate_nodata q m mc soa hans hauth hsoa hrc hsub hmc

/-- … for referrals: one NS record for a zone enclosing the question name, strictly deeper than the
    delegation in use, with `A` and/or `AAAA` glue for its host: accepted whole (NS + glue), host
    and zone extracted. -/
theorem C07_filter_accepts_referral (q : Question) (m : Message) (mc : Nat) (ns : RR) (zone host : Name)
    (hans : m.answers = []) (hauth : m.authority = [ns])
    (hnsn : ns.name = zone) (hnst : ns.rtype = RT_NS) (hnsf : ns.fields = [.name host])
    (hglue : ∀ g ∈ m.additional, (g.rtype = RT_A ∨ g.rtype = RT_AAAA) ∧ g.name = host)
    (hsub : q.name.isSubdomainOf zone = true) (hmc : mc < zone.labels.length) :
    validateNameserverResponse q m mc = some (.delegation ([ns] ++ m.additional) [host] zone) :=
  uni_validate_referral q m mc ns zone host hans hauth hnsn hnst hnsf hglue hsub hmc

/-- `C07_answer_step` / `C07_nodata_step`: the candidate loop with the single candidate `host`
    whose address `addr` the local lookup knows, the server answering in time with a matching
    reply `m` that the filter accepts as an answer (`rrs`, `soa`): the loop ends with exactly these
    records (and SOA), which are cached; one exchange is logged. -/
theorem C07_answer_step (cfg : RecCfg) (f : Nat) (st : St) (q : Question) (mc : Nat) (E : UEntry)
    (m : Message) (rrs : List RR) (soa : Option RR)
    (hmode : cfg.mode = .onlyV4 ∨ cfg.mode = .preferV4) (hlive : st.run.timedOut = false) (hk : UniAddrKnown st.ctx E.host E.addr)
    (ho : cfg.oracle { addr := .a E.addr, port := cfg.port, tcp := false, question := q, recursionDesired := false } =
      { delayMs := E.delayMs, reply := some m })
    (hfit : udpFits q = true) (hd : E.delayMs < EXCHANGE_TIMEOUT_MS)
    (ht : st.run.elapsedMs + E.delayMs < RESOLVE_TIMEOUT_MS)
    (hm : responseMatchesRequest (requestFor q false) m = true)
    (hv : validateNameserverResponse q m mc = some (.answer rrs soa)) :
    candidateLoop cfg (f + 2) st q [] mc [E.host] [] true =
      (⟨((resolveLocal (RECURSION_LIMIT + 1) st.ctx (uniHostQ E.host)).1).cacheInsertAll rrs,
        { log := st.run.log ++ [E.exchange cfg.port q], elapsedMs := st.run.elapsedMs + E.delayMs,
          timedOut := false }⟩, .ok (.nonAuthoritative rrs soa)) := by
  rw [uni_loop_query cfg f st q mc E m hmode hlive hk ho hfit hd ht hm, hv]
  simp only [uni_afterReply, prioritisingMerge_nil]

/-- `C07_referral_accept_step`: … the filter accepts the reply as a referral (no glue short-cut):
    its records are cached and the next iteration runs with the referral's hosts as candidates and
    the referral zone's depth as `match_count`. -/
theorem C07_referral_accept_step (cfg : RecCfg) (f : Nat) (st : St) (q : Question) (mc : Nat)
    (E : UEntry) (m : Message) (rrs : List RR) (hosts : List Name) (zone : Name)
    (hmode : cfg.mode = .onlyV4 ∨ cfg.mode = .preferV4) (hlive : st.run.timedOut = false) (hk : UniAddrKnown st.ctx E.host E.addr)
    (ho : cfg.oracle { addr := .a E.addr, port := cfg.port, tcp := false, question := q, recursionDesired := false } =
      { delayMs := E.delayMs, reply := some m })
    (hfit : udpFits q = true) (hd : E.delayMs < EXCHANGE_TIMEOUT_MS)
    (ht : st.run.elapsedMs + E.delayMs < RESOLVE_TIMEOUT_MS)
    (hm : responseMatchesRequest (requestFor q false) m = true)
    (hv : validateNameserverResponse q m mc = some (.delegation rrs hosts zone))
    (hg : uni_glueFor q rrs = none) :
    candidateLoop cfg (f + 2) st q [] mc [E.host] [] true =
      candidateLoop cfg (f + 1)
        ⟨((resolveLocal (RECURSION_LIMIT + 1) st.ctx (uniHostQ E.host)).1).cacheInsertAll rrs,
          { log := st.run.log ++ [E.exchange cfg.port q], elapsedMs := st.run.elapsedMs + E.delayMs,
            timedOut := false }⟩ q [] zone.labels.length (cfg.hostOrder hosts) [] true := by
  rw [uni_loop_query cfg f st q mc E m hmode hlive hk ho hfit hd ht hm, hv]
  simp only [uni_afterReply, hg]

/-! ## Extension (a): an alias crossing zones -/

/-- C07 (CNAME chains crossing zones, one alias).  The referrals for `q` end at a zone `Z` where
    `q`'s name is an alias (`CNAME` record `rr`) for `tn`; the target's own delegation path starts
    at `Y'` — the deepest zone of the first path whose cached NS set encloses the target, or the
    root — and ends at `Z'`.  The resolver returns the alias record followed by exactly what `Z'`
    holds for the target (its records, or nothing and `Z'`'s SOA), after one UDP exchange with each
    server of the first path (question `q`) and then each server of the second (question
    `aliasQ q tn`: the same type and class for the target name) — the cached referrals are
    re-used, the root is not asked again unless `Y'` is the root. -/
theorem C07_universe_cname {U : Universe} {cfg : RecCfg} (h : UniOK U cfg) {q : Question} (hq : QuestionOK q)
    {R Z : UEntry} {rest : List UEntry} (hp : DelegPath U q R rest Z) (hty : Z.zone.records.Typed)
    {tn : Name} {rr : RR} (hcres : Z.zone.resolve q.name q.qtype = some (.cname tn rr))
    (hq' : QuestionOK (aliasQ q tn)) (hk : rtypeIsUnknown q.qtype = false)
    {Y' Z' : UEntry} {rest' : List UEntry} (hp' : DelegPath U (aliasQ q tn) Y' rest' Z')
    (hty' : Z'.zone.records.Typed) {res' : ResolvedRecord} (hexp' : expectedAt Z' (aliasQ q tn) = some res')
    {zs : Zones} (hs : UniStartAlias U zs q tn R rest Y' rest') (d now : Nat) :
    (resolveRecursive cfg (startCtx zs d now) q).2 = .ok (.nonAuthoritative ([rr] ++ res'.rrs) res'.soaRR) ∧
    (resolveRecursive cfg (startCtx zs d now) q).1.run.log =
      (R :: rest).map (·.exchange cfg.port q) ++ (Y' :: rest').map (·.exchange cfg.port (aliasQ q tn)) ∧
    (resolveRecursive cfg (startCtx zs d now) q).1.run.elapsedMs =
      totalDelay (R :: rest) + totalDelay (Y' :: rest') := by
  obtain ⟨hrr, hcn⟩ := uni_cnameOK hty q tn rr hcres
  obtain ⟨st', h1, h2, _⟩ := uni_resolveRecursive_cname h q hq hcn hp tn rr hcres hrr hq' hp' res' hexp'
    (fun rrs hr => uni_answerOK hty' (aliasQ q tn) hq'.qtype hk rrs hr) zs d now hs
  rw [h1]
  simp [h2, uniRun, Run.empty]

/-- … in particular when `Z'` holds records `rrs' ≠ []` for the target: the result is the alias
    record followed by exactly these records. -/
theorem C07_universe_cname_answer {U : Universe} {cfg : RecCfg} (h : UniOK U cfg) {q : Question} (hq : QuestionOK q)
    {R Z : UEntry} {rest : List UEntry} (hp : DelegPath U q R rest Z) (hty : Z.zone.records.Typed)
    {tn : Name} {rr : RR} (hcres : Z.zone.resolve q.name q.qtype = some (.cname tn rr))
    (hq' : QuestionOK (aliasQ q tn)) (hk : rtypeIsUnknown q.qtype = false)
    {Y' Z' : UEntry} {rest' : List UEntry} (hp' : DelegPath U (aliasQ q tn) Y' rest' Z')
    (hty' : Z'.zone.records.Typed) {rrs' : List RR} {soa' : RR}
    (hres' : Z'.zone.resolve tn q.qtype = some (.answer rrs')) (hne : rrs' ≠ []) (hsoa' : Z'.zone.soaRR = some soa')
    {zs : Zones} (hs : UniStartAlias U zs q tn R rest Y' rest') (d now : Nat) :
    (resolveRecursive cfg (startCtx zs d now) q).2 = .ok (.nonAuthoritative (rr :: rrs') none) := by
  have hexp' : expectedAt Z' (aliasQ q tn) = some (.nonAuthoritative rrs' none) := by
    unfold expectedAt
    show (match Z'.zone.resolve tn q.qtype, Z'.zone.soaRR with
      | some (.answer rrs), some soa =>
        if rrs.isEmpty then some (ResolvedRecord.nonAuthoritative [] (some soa)) else some (.nonAuthoritative rrs none)
      | some .nameError, some soa => some (.nonAuthoritative [] (some soa))
      | _, _ => none) = _
    rw [hres', hsoa']
    have : rrs'.isEmpty = false := by cases rrs' with | nil => exact absurd rfl hne | cons _ _ => rfl
    simp [this]
  exact (C07_universe_cname h hq hp hty hcres hq' hk hp' hty' hexp' hs d now).1

/-- C07 (CNAME chains crossing zones, any length).  A resolution PLAN (`UniPlan`) describes how a
    question is resolved leg by leg: each leg follows the referrals for its question from the
    deepest zone whose NS set is cached by then (the root hints for the first leg) down to a zone
    that either holds the answer / NODATA / NXDOMAIN (last leg) or an alias, whose target is the
    question of the next leg (same type and class).  For every plan from the start state (root
    hints, empty cache, empty stack) that fits the fuel and the 60 s budget, `resolveRecursive`
    returns the plan's result — the alias records in order followed by what the last zone holds
    for the final target — after exactly the plan's exchanges, in order, in the plan's time. -/
theorem C07_universe_plan {U : Universe} {cfg : RecCfg} (h : UniOK U cfg) {zs : Zones} {q : Question}
    {ex : List (UEntry × Question)} {n : Nat} {res : ResolvedRecord}
    (hplan : UniPlan U zs [] [] [] q ex n res) (hn : n ≤ REC_FUEL) (ht : planDelay ex < RESOLVE_TIMEOUT_MS)
    (d now : Nat) :
    (resolveRecursive cfg (startCtx zs d now) q).2 = .ok res ∧
    (resolveRecursive cfg (startCtx zs d now) q).1.run.log = planLog cfg.port ex ∧
    (resolveRecursive cfg (startCtx zs d now) q).1.run.elapsedMs = planDelay ex ∧
    (resolveRecursive cfg (startCtx zs d now) q).1.ctx.stack = [] := by
  obtain ⟨st', h1, h2, h3⟩ := uni_plan h hplan ⟨startCtx zs d now, Run.empty⟩ REC_FUEL hn rfl rfl
    (uni_cache_new U d now) (by intro C hC; cases hC) rfl (by simpa [Run.empty] using ht)
  unfold resolveRecursive
  rw [h1]
  simp only [h2, Bool.false_eq_true, if_false, Run.empty, List.nil_append, Nat.zero_add, true_and]
  exact h3

/-- every leg's well-formedness condition on what the last zone says holds for zones whose record
    maps are keyed consistently. -/
theorem C07_zone_says_wf {z : Zone} (ht : z.records.Typed) (q : Question)
    (hq : lookupNat queryTypeFromU16 q.qtype = none) (hk : rtypeIsUnknown q.qtype = false) : ZoneSaysWF z q :=
  uni_zoneSaysWF_of_typed ht q hq hk

/-! ## Extension (b): several name servers per zone

    First the two steps that change with several name servers, in general form; then the theorem
    (`C07_universe_multi`). -/

/-- Completeness of the filter for referrals naming SEVERAL name servers: the NS set of a zone that
    encloses the question name and is strictly deeper than the delegation in use, with `A` / `AAAA`
    glue for hosts it names, is accepted whole; the candidates are all the hosts named (`nsHosts`:
    in order of first occurrence, without duplicates). -/
theorem C07_filter_accepts_multi_referral (q : Question) (m : Message) (mc : Nat) (zone : Name)
    (hans : m.answers = []) (hne : m.authority ≠ [])
    (hns : ∀ rr ∈ m.authority, rr.name = zone ∧ (nsTarget rr).isSome = true)
    (hglue : ∀ g ∈ m.additional, (g.rtype = RT_A ∨ g.rtype = RT_AAAA) ∧ g.name ∈ nsHosts m.authority)
    (hsub : q.name.isSubdomainOf zone = true) (hmc : mc < zone.labels.length) :
    validateNameserverResponse q m mc =
      some (.delegation (m.authority ++ m.additional) (nsHosts m.authority) zone) :=
  uni_validate_referral_multi q m mc zone hans hne hns hglue hsub hmc

/-- One iteration of the candidate loop with SEVERAL candidates: the loop tries the LAST one first;
    if its address is known locally (glue cached) and its server answers in time with a reply the
    filter accepts as an answer, the loop ends there — the other candidates are never contacted. -/
theorem C07_answer_step_multi (cfg : RecCfg) (f : Nat) (st : St) (q : Question) (mc : Nat) (E : UEntry)
    (cands : List Name) (hlast : cands.getLast? = some E.host) (m : Message) (rrs : List RR) (soa : Option RR)
    (hmode : cfg.mode = .onlyV4 ∨ cfg.mode = .preferV4) (hlive : st.run.timedOut = false)
    (hk : UniAddrKnown st.ctx E.host E.addr)
    (ho : cfg.oracle { addr := .a E.addr, port := cfg.port, tcp := false, question := q, recursionDesired := false } =
      { delayMs := E.delayMs, reply := some m })
    (hfit : udpFits q = true) (hd : E.delayMs < EXCHANGE_TIMEOUT_MS)
    (ht : st.run.elapsedMs + E.delayMs < RESOLVE_TIMEOUT_MS)
    (hm : responseMatchesRequest (requestFor q false) m = true)
    (hv : validateNameserverResponse q m mc = some (.answer rrs soa)) :
    candidateLoop cfg (f + 2) st q [] mc cands [] true =
      (⟨((resolveLocal (RECURSION_LIMIT + 1) st.ctx (uniHostQ E.host)).1).cacheInsertAll rrs,
        { log := st.run.log ++ [E.exchange cfg.port q], elapsedMs := st.run.elapsedMs + E.delayMs,
          timedOut := false }⟩, .ok (.nonAuthoritative rrs soa)) := by
  rw [uni_loop_query_cands cfg f st q mc E cands hlast m hmode hlive hk ho hfit hd ht hm, hv]
  simp only [uni_afterReply, prioritisingMerge_nil]

/-- … and if the filter accepts the reply as a referral (no glue short-cut), the next iteration
    runs with the referral's hosts, in the order `cfg.hostOrder` gives them, as candidates. -/
theorem C07_referral_accept_step_multi (cfg : RecCfg) (f : Nat) (st : St) (q : Question) (mc : Nat)
    (E : UEntry) (cands : List Name) (hlast : cands.getLast? = some E.host) (m : Message) (rrs : List RR)
    (hosts : List Name) (zone : Name)
    (hmode : cfg.mode = .onlyV4 ∨ cfg.mode = .preferV4) (hlive : st.run.timedOut = false)
    (hk : UniAddrKnown st.ctx E.host E.addr)
    (ho : cfg.oracle { addr := .a E.addr, port := cfg.port, tcp := false, question := q, recursionDesired := false } =
      { delayMs := E.delayMs, reply := some m })
    (hfit : udpFits q = true) (hd : E.delayMs < EXCHANGE_TIMEOUT_MS)
    (ht : st.run.elapsedMs + E.delayMs < RESOLVE_TIMEOUT_MS)
    (hm : responseMatchesRequest (requestFor q false) m = true)
    (hv : validateNameserverResponse q m mc = some (.delegation rrs hosts zone))
    (hg : uni_glueFor q rrs = none) :
    candidateLoop cfg (f + 2) st q [] mc cands [] true =
      candidateLoop cfg (f + 1)
        ⟨((resolveLocal (RECURSION_LIMIT + 1) st.ctx (uniHostQ E.host)).1).cacheInsertAll rrs,
          { log := st.run.log ++ [E.exchange cfg.port q], elapsedMs := st.run.elapsedMs + E.delayMs,
            timedOut := false }⟩ q [] zone.labels.length (cfg.hostOrder hosts) [] true := by
  rw [uni_loop_query_cands cfg f st q mc E cands hlast m hmode hlive hk ho hfit hd ht hm, hv]
  simp only [uni_afterReply, hg]

/-- C07 with SEVERAL NAME SERVERS PER ZONE (extension (b), glue-complete).  Zones may be served by
    several servers (entries with the same zone); referrals carry the whole NS set and glue for all
    of it; nothing is assumed about the order `cfg.hostOrder` in which the resolver tries the hosts
    of a referral (a Rust `HashSet` iteration order): at each level the server contacted is the
    one whose host comes last in that order (`DelegPathM`).  The resolver returns what the last
    zone holds for the question, after exactly one UDP exchange per level — the other name servers
    of a zone are never contacted. -/
theorem C07_universe_multi {U : Universe} {cfg : RecCfg} (h : UniOKM U cfg) {q : Question} (hq : QuestionOK q)
    (hk : rtypeIsUnknown q.qtype = false)
    {R Z : UEntry} {rest vis : List UEntry} (hp : DelegPathM U cfg.hostOrder q R rest vis Z)
    (hty : Z.zone.records.Typed) {zs : Zones} (hs : UniStartM zs q R rest vis) (d now : Nat)
    (res : ResolvedRecord) (hexp : expectedAt Z q = some res) :
    (resolveRecursive cfg (startCtx zs d now) q).2 = .ok res ∧
    (resolveRecursive cfg (startCtx zs d now) q).1.run.log = (R :: rest).map (·.exchange cfg.port q) ∧
    (resolveRecursive cfg (startCtx zs d now) q).1.run.elapsedMs = totalDelay (R :: rest) ∧
    (resolveRecursive cfg (startCtx zs d now) q).1.ctx.stack = [] := by
  obtain ⟨st', h1, h2, h3⟩ := uni_resolveRecursiveM h q hq hp res hexp
    (fun rrs hr => uni_answerOK hty q hq.qtype hk rrs hr) zs d now hs
  rw [h1]
  simp [h2, h3, uniRun, Run.empty]

/-! ## Consistent universes: no path in the hypotheses -/

/-- In a consistent universe (every referral of every zone is the single NS record of a strictly
    deeper zone of the universe, naming that zone's host — `Consistent`, for which
    `universeConsistent` is a decidable check: `C07_universe_consistent_check`) the referrals for
    any question, followed from any server, end at a server of the universe that does not refer
    further. -/
theorem C07_universe_path_exists {U : Universe} (hU : Consistent U) (q : Question) (Y : UEntry) (hY : Y ∈ U) :
    ∃ rest Z, DelegPath U q Y rest Z ∧ ∀ ns, Z.zone.resolve q.name q.qtype ≠ some (.delegation ns) :=
  uni_path_exists hU q Y hY

theorem C07_universe_consistent_check (U : Universe) (fuel : Nat) (h : universeConsistent U fuel = true) :
    Consistent U :=
  uni_consistent_of_check U fuel h

/-- C07 over consistent universes.  Root hints for the root server `R`, empty cache, a faithful
    IPv4 resolver, zones keyed consistently, every server answering within `D` ms with
    `D · labels(q) < 60 s`: the referrals for `q` from the root end at a zone `Z` of the universe
    that does not refer further, and whatever `Z` holds for the question — its records for the name
    and type, or nothing (then: empty answer with `Z`'s SOA) — is what `resolveRecursive` returns,
    after exactly one UDP exchange with each server on the way. -/
theorem C07_universe_consistent {U : Universe} {cfg : RecCfg} (h : UniOK U cfg) (hc : Consistent U)
    {q : Question} (hq : QuestionOK q) (hk : rtypeIsUnknown q.qtype = false)
    {R : UEntry} (hR : R ∈ U) (hty : ∀ E ∈ U, E.zone.records.Typed)
    {zs : Zones} {D : Nat} (hs : UniStartAll U zs q R D) (d now : Nat) :
    ∃ rest Z, DelegPath U q R rest Z ∧ Z ∈ U ∧
      (∀ ns, Z.zone.resolve q.name q.qtype ≠ some (.delegation ns)) ∧
      ∀ res, expectedAt Z q = some res →
        (resolveRecursive cfg (startCtx zs d now) q).2 = .ok res ∧
        (resolveRecursive cfg (startCtx zs d now) q).1.run.log = (R :: rest).map (·.exchange cfg.port q) := by
  obtain ⟨rest, Z, hp, hz⟩ := uni_path_exists hc q R hR
  have hZ : Z ∈ U := uni_path_end_mem hp
  refine ⟨rest, Z, hp, hZ, hz, ?_⟩
  intro res hexp
  have hs' := uni_start_of_all hs hp (uni_expected_isSome hexp)
  obtain ⟨h1, h2, _⟩ := C07_universe_result h hq hk hp (hty Z hZ) hs' d now res hexp
  exact ⟨h1, h2⟩

/-- C07 over consistent universes, with the LOCAL ZONES BEING EXACTLY THE ROOT HINTS as
    `Zone::insert` builds them (`. NS host`, `host A addr` for the root server `R`): all hypotheses
    about the local zones reduce to facts about names — the names involved are well-formed
    (`from_labels` accepts them), the question is not one the hints answer (`. NS`, `host A`), no
    other server is called like the root server, and (for `A` questions) the question name is not
    a server's host name. -/
theorem C07_universe_root_hints {U : Universe} {cfg : RecCfg} (h : UniOK U cfg) (hc : Consistent U)
    {q : Question} (hq : QuestionOK q) (hk : rtypeIsUnknown q.qtype = false)
    {R : UEntry} (hR : R ∈ U) (hroot : R.apex = Name.root) (hty : ∀ E ∈ U, E.zone.records.Typed)
    {ttl : Nat} {hz : Zone} (hb : rootHintsZone R.host R.addr ttl = some hz)
    (hRwf : Name.fromLabels R.host.labels = some R.host) (hRne : R.host ≠ Name.root)
    (hqwf : Name.fromLabels q.name.labels = some q.name)
    (hq1 : ¬ (q.name = Name.root ∧ q.qtype = RT_NS)) (hq2 : ¬ (q.name = R.host ∧ q.qtype = RT_A))
    (hhosts : ∀ C ∈ U, C.apex.labels.length ≠ 1 → Name.fromLabels C.host.labels = some C.host ∧ C.host ≠ R.host)
    (hnot : isAddrQ q → ∀ C ∈ U, C.apex.labels.length ≠ 1 → q.name ≠ C.host)
    {D : Nat} (hdelay : ∀ E ∈ U, E.delayMs ≤ D) (htime : D * q.name.labels.length < RESOLVE_TIMEOUT_MS)
    (hfuel : q.name.labels.length + 2 ≤ REC_FUEL) (d now : Nat) :
    ∃ rest Z, DelegPath U q R rest Z ∧ Z ∈ U ∧
      (∀ ns, Z.zone.resolve q.name q.qtype ≠ some (.delegation ns)) ∧
      ∀ res, expectedAt Z q = some res →
        (resolveRecursive cfg (startCtx (Zones.empty.insert hz) d now) q).2 = .ok res ∧
        (resolveRecursive cfg (startCtx (Zones.empty.insert hz) d now) q).1.run.log =
          (R :: rest).map (·.exchange cfg.port q) :=
  C07_universe_consistent h hc hq hk hR hty
    (uni_startAll_of_hints hb hroot hRwf hRne hq hqwf hq1 hq2 hhosts hnot hdelay htime hfuel) d now

/-! ## A hypothesis that cannot be dropped: glue with TTL 0

    `UniOK.glueTtl` asks for glue records with a non-zero TTL.  Without it the statement is FALSE for
    the model — and for the Rust code: the referral branch of `resolve_with_nameserver_response`
    hands the glue to the next iteration only through `context.cache.insert_all(&rrs)`, and
    `SharedCache::insert` drops records with TTL 0; `resolve_hostname_to_ip` then finds no address
    for the in-bailiwick name server locally, tries to resolve it recursively, is referred to the
    very same name server again (duplicate question) and gives up.  (RFC 1035 §3.2.1 / RFC 2181 §8:
    a zero TTL means "use for the transaction in progress, do not cache".) -/

open UniEx in
/-- the example universe with the glue of `n.e.` served with TTL 0 — everything else unchanged, the
    oracle still faithful: `w.x.e. A` is NOT resolved; a dead end after one exchange (the root). -/
theorem C07_glue_ttl0_counterexample :
    Faithful uni0 cfg0 ∧
    (resolveRecursive cfg0 (startCtx UniEx.zones 512 0) qA).2 = .error (.deadEnd qA) ∧
    (resolveRecursive cfg0 (startCtx UniEx.zones 512 0) qA).1.run.log = [eRoot.exchange 53 qA] :=
  ⟨uni_oracle_faithful uni0 53 (by decide), by decide +kernel, by decide +kernel⟩

/-! ## Left open

    * Extension (b), second half: referrals WITHOUT glue (the candidate is set aside, then resolved
      recursively: a nested `UniPlan` for the host's address, from the warm state — `uni_plan` is
      stated for arbitrary warm states and question stacks for that reason, but does not yet export
      the cache invariant of the state it ends in); several name servers per zone are covered for
      plain resolutions (`C07_universe_multi`), not yet inside alias chains (the restart after an
      alias uses the cached NS set of a zone, whose order in the cache is not tracked: `UniPlan`
      asks for one host per apex).
    * ANY / AXFR / MAILA / MAILB questions, NS questions through aliases, truncated UDP replies with
      TCP retry, more than one question on the stack at the start. -/

/-- NOT PROVED (no lemma about the size of `encodeMessage` is available to this file): the request
    for a question with a well-formed name (`from_labels` accepts it: at most 255 octets) always
    fits a UDP datagram (12 + 255 + 4 ≤ 512), i.e. the hypothesis `QuestionOK.fits` follows from
    the well-formedness of the question name.  It is decidable for every concrete question
    (`decide +kernel` in the examples). -/
def C07_request_fits_udp_statement : Prop :=
  ∀ q : Question, Name.fromLabels q.name.labels = some q.name → udpFits q = true


/-! ## Non-vacuity: the three-level universe `UniEx`

    `.` (server `a.` 1.2.3.4) → `e.` (server `n.e.` 2.2.2.2) → `x.e.` (server `m.x.e.` 3.3.3.3): two
    referrals.  All hypotheses of the theorems hold for the questions `w.x.e. A` (answer: two
    records), `w.x.e. AAAA` (NODATA) and `y.x.e. A` (NXDOMAIN); the theorems' conclusions are
    moreover re-checked by evaluating the model in the kernel. -/

open UniEx in
/-- the hypotheses are satisfiable (all of them, simultaneously, for each of the three questions);
    the root hints zone is the one `Zone::insert` builds. -/
example : UniOK uni UniEx.cfg ∧ rootHintsZone nA 16909060 3600 = some hintsZone ∧
    ∀ q, q = qA ∨ q = qAAAA ∨ q = qNx →
      QuestionOK q ∧ rtypeIsUnknown q.qtype = false ∧ DelegPath uni q eRoot [eE, eXE] eXE ∧
      eXE.zone.records.Typed ∧ UniStart UniEx.zones q eRoot [eE, eXE] := by
  refine ⟨uni_ex_ok, uni_ex_hints_built, ?_⟩
  intro q hq
  have hq5 : q = qA ∨ q = qAAAA ∨ q = qNx ∨ q = qC ∨ q = aliasQ qC nWYE ∨ q = qD := by
    rcases hq with h | h | h <;> simp [h]
  refine ⟨(uni_ex_question q hq5).1, (uni_ex_question q hq5).2, ?_, uni_ex_xe_typed, uni_ex_start q hq⟩
  apply uni_ex_path
  · rcases hq with rfl | rfl | rfl <;> simp [qA, qAAAA, qNx]
  · rcases hq with rfl | rfl | rfl <;> simp [qA, qAAAA, qNx]

open UniEx in
/-- `w.x.e. A`: by the theorem, exactly the two records of the zone `x.e.` … -/
example (d now : Nat) : (resolveRecursive UniEx.cfg (startCtx UniEx.zones d now) qA).2 =
    .ok (.nonAuthoritative [rrW1, rrW2] none) :=
  C07_universe_answer uni_ex_ok (uni_ex_question qA (Or.inl rfl)).1 (uni_ex_question qA (Or.inl rfl)).2
    (uni_ex_path qA (Or.inl rfl) (Or.inl rfl)) uni_ex_xe_typed (uni_ex_start qA (Or.inl rfl)) d now
    [rrW1, rrW2] soaRRXE uni_ex_resolve_A (by simp) rfl

open UniEx in
/-- … `w.x.e. AAAA`: NODATA with the SOA of `x.e.` … -/
example (d now : Nat) : (resolveRecursive UniEx.cfg (startCtx UniEx.zones d now) qAAAA).2 =
    .ok (.nonAuthoritative [] (some soaRRXE)) :=
  C07_universe_nodata uni_ex_ok (uni_ex_question qAAAA (Or.inr (Or.inl rfl))).1
    (uni_ex_question qAAAA (Or.inr (Or.inl rfl))).2
    (uni_ex_path qAAAA (Or.inl rfl) (Or.inr rfl)) uni_ex_xe_typed (uni_ex_start qAAAA (Or.inr (Or.inl rfl))) d now
    soaRRXE uni_ex_resolve_AAAA rfl

open UniEx in
/-- … `y.x.e. A`: NXDOMAIN with the SOA of `x.e.` … -/
example (d now : Nat) : (resolveRecursive UniEx.cfg (startCtx UniEx.zones d now) qNx).2 =
    .ok (.nonAuthoritative [] (some soaRRXE)) :=
  C07_universe_nxdomain uni_ex_ok (uni_ex_question qNx (Or.inr (Or.inr (Or.inl rfl)))).1
    (uni_ex_question qNx (Or.inr (Or.inr (Or.inl rfl)))).2
    (uni_ex_path qNx (Or.inr (Or.inl rfl)) (Or.inl rfl)) uni_ex_xe_typed (uni_ex_start qNx (Or.inr (Or.inr rfl))) d now
    soaRRXE uni_ex_resolve_nx rfl

open UniEx in
/-- … and the same three results, the three exchanges (1.2.3.4, 2.2.2.2, 3.3.3.3: d + 1 = 3) and
    the 60 ms of virtual time, by evaluating the model. -/
example :
    (resolveRecursive UniEx.cfg (startCtx UniEx.zones 512 0) qA).2 = .ok (.nonAuthoritative [rrW1, rrW2] none) ∧
    (resolveRecursive UniEx.cfg (startCtx UniEx.zones 512 0) qAAAA).2 = .ok (.nonAuthoritative [] (some soaRRXE)) ∧
    (resolveRecursive UniEx.cfg (startCtx UniEx.zones 512 0) qNx).2 = .ok (.nonAuthoritative [] (some soaRRXE)) ∧
    (resolveRecursive UniEx.cfg (startCtx UniEx.zones 512 0) qA).1.run.log =
      [⟨.a 16909060, 53, false, qA, false⟩, ⟨.a 33686018, 53, false, qA, false⟩, ⟨.a 50529027, 53, false, qA, false⟩] ∧
    (resolveRecursive UniEx.cfg (startCtx UniEx.zones 512 0) qA).1.run.elapsedMs = 60 := by
  decide +kernel

open UniEx in
/-- the hypotheses of `C07_universe_consistent` hold for the example universe (checked by
    `universeConsistent`, `decide`) and the three questions. -/
example : universeConsistent uni 2 = true ∧ Consistent uni ∧ (∀ E ∈ uni, E.zone.records.Typed) ∧ eRoot ∈ uni ∧
    ∀ q, q = qA ∨ q = qAAAA ∨ q = qNx → UniStartAll uni UniEx.zones q eRoot 30 :=
  ⟨by decide, uni_ex_consistent, uni_ex_typed, by simp [uni], uni_ex_startAll⟩

open UniEx in
/-- the alias `c.x.e. CNAME w.y.e.` crossing from `x.e.` into `y.e.`: all hypotheses of
    `C07_universe_cname_answer` hold; the result is the alias record followed by `w.y.e. A 9.9.9.9` … -/
example (d now : Nat) : (resolveRecursive UniEx.cfg (startCtx UniEx.zones d now) qC).2 =
    .ok (.nonAuthoritative [rrC, rrWY] none) :=
  C07_universe_cname_answer uni_ex_ok (uni_ex_question qC (by simp)).1
    (uni_ex_path qC (Or.inr (Or.inr rfl)) (Or.inl rfl)) uni_ex_xe_typed uni_ex_resolve_C
    (uni_ex_question (aliasQ qC nWYE) (by simp)).1 (by decide) uni_ex_path_y (uni_ex_typed eYE (by simp [uni]))
    uni_ex_resolve_WY (by simp) (soa' := ⟨nYE, 6, soaYE.toFields, 1, 60⟩) rfl uni_ex_startAlias d now

open UniEx in
/-- … after five exchanges: root, `e.`, `x.e.` for `c.x.e.`, then `e.` (its NS set and glue are
    cached: the root is not asked again) and `y.e.` for `w.y.e.`; checked by evaluating the model. -/
example :
    (resolveRecursive UniEx.cfg (startCtx UniEx.zones 512 0) qC).2 = .ok (.nonAuthoritative [rrC, rrWY] none) ∧
    (resolveRecursive UniEx.cfg (startCtx UniEx.zones 512 0) qC).1.run.log =
      [⟨.a 16909060, 53, false, qC, false⟩, ⟨.a 33686018, 53, false, qC, false⟩, ⟨.a 50529027, 53, false, qC, false⟩,
       ⟨.a 33686018, 53, false, aliasQ qC nWYE, false⟩, ⟨.a 67372036, 53, false, aliasQ qC nWYE, false⟩] := by
  decide +kernel

open UniEx in
/-- the name-level hypotheses of `C07_universe_root_hints` hold for the example universe and
    `w.x.e. A` (the local zones of the example ARE `Zones.empty.insert hintsZone`). -/
example (d now : Nat) : ∃ rest Z, DelegPath uni qA eRoot rest Z ∧ Z ∈ uni ∧
    (∀ ns, Z.zone.resolve qA.name qA.qtype ≠ some (.delegation ns)) ∧
    ∀ res, expectedAt Z qA = some res →
      (resolveRecursive UniEx.cfg (startCtx UniEx.zones d now) qA).2 = .ok res ∧
      (resolveRecursive UniEx.cfg (startCtx UniEx.zones d now) qA).1.run.log =
        (eRoot :: rest).map (·.exchange UniEx.cfg.port qA) :=
  C07_universe_root_hints uni_ex_ok uni_ex_consistent (uni_ex_question qA (by simp)).1 (by decide)
    (by simp [uni]) rfl uni_ex_typed uni_ex_hints_built (by decide) (by decide) (by decide) (by decide) (by decide)
    (by
      intro C hC
      rcases uni_ex_mem hC with rfl | rfl | rfl | rfl <;> decide)
    (by
      intro _ C hC
      rcases uni_ex_mem hC with rfl | rfl | rfl | rfl <;> decide)
    (D := 30)
    (by
      intro E hE
      rcases uni_ex_mem hE with rfl | rfl | rfl | rfl <;> decide)
    (by decide) (by decide) d now

open UniEx in
/-- an alias of an alias: `d.x.e. CNAME c.x.e.`, `c.x.e. CNAME w.y.e.`, `w.y.e. A 9.9.9.9` — a plan
    of three legs exists, so by `C07_universe_plan` the result is the two alias records followed by
    the address record, after six exchanges … -/
example (d now : Nat) :
    (resolveRecursive UniEx.cfg (startCtx UniEx.zones d now) qD).2 = .ok (.nonAuthoritative [rrD, rrC, rrWY] none) ∧
    (resolveRecursive UniEx.cfg (startCtx UniEx.zones d now) qD).1.run.log =
      [eRoot.exchange 53 qD, eE.exchange 53 qD, eXE.exchange 53 qD, eXE.exchange 53 qC,
       eE.exchange 53 (aliasQ qC nWYE), eYE.exchange 53 (aliasQ qC nWYE)] := by
  obtain ⟨ex, n, hplan, hn, ht, hlog⟩ := uni_ex_plan_D
  obtain ⟨h1, h2, _, _⟩ := C07_universe_plan uni_ex_ok hplan hn ht d now
  exact ⟨h1, by rw [h2]; exact hlog⟩

open UniEx in
/-- … as evaluating the model confirms. -/
example :
    (resolveRecursive UniEx.cfg (startCtx UniEx.zones 512 0) qD).2 = .ok (.nonAuthoritative [rrD, rrC, rrWY] none) ∧
    (resolveRecursive UniEx.cfg (startCtx UniEx.zones 512 0) qD).1.run.log.length = 6 := by
  decide +kernel

open UniEx in
/-- extension (c): the same in prefer-v4 mode, the referral to `x.e.` carrying `A` and `AAAA` glue
    (its server is dual-stack): by the theorem, and by evaluating the model — the server is
    contacted over IPv4. -/
example (d now : Nat) : (resolveRecursive cfgPrefer (startCtx UniEx.zones d now) qA).2 =
    .ok (.nonAuthoritative [rrW1, rrW2] none) :=
  C07_universe_answer uni_ex_prefer_ok (uni_ex_question qA (Or.inl rfl)).1 (uni_ex_question qA (Or.inl rfl)).2
    (uni_ex_path qA (Or.inl rfl) (Or.inl rfl)) uni_ex_xe_typed (uni_ex_start qA (Or.inl rfl)) d now
    [rrW1, rrW2] soaRRXE uni_ex_resolve_A (by simp) rfl

open UniEx in
example :
    (resolveRecursive cfgPrefer (startCtx UniEx.zones 512 0) qA).2 = .ok (.nonAuthoritative [rrW1, rrW2] none) ∧
    (resolveRecursive cfgPrefer (startCtx UniEx.zones 512 0) qA).1.run.log =
      [eRoot.exchange 53 qA, eE.exchange 53 qA, eXE.exchange 53 qA] ∧
    eXE.glue6RR [8193, 3512, 0, 0, 0, 0, 0, 3] ∈ uniGlue uni [eXE.nsRR 3600] := by
  decide +kernel

open UniEx in
/-- extension (b): `x.e.` served by `m.x.e.` and `m2.x.e.`; the zone `e.` refers to both, with glue;
    with `hostOrder = id` the loop contacts the host named last, `m2.x.e.` (3.3.3.4), and only that
    one: by the theorem, and by evaluating the model. -/
example (d now : Nat) :
    (resolveRecursive cfgM (startCtx UniEx.zones d now) qA).2 = .ok (.nonAuthoritative [rrW1, rrW2] none) ∧
    (resolveRecursive cfgM (startCtx UniEx.zones d now) qA).1.run.log =
      [eRoot.exchange 53 qA, eEM.exchange 53 qA, eXE2.exchange 53 qA] := by
  obtain ⟨h1, h2, _, _⟩ := C07_universe_multi uni_ex_okM (uni_ex_question qA (Or.inl rfl)).1 (by decide) uni_ex_pathM
    uni_ex_xe_typed uni_ex_startM d now (.nonAuthoritative [rrW1, rrW2] none) (by
      unfold expectedAt
      show (match zoneXE.resolve nWXE RT_A, zoneXE.soaRR with
        | some (.answer rrs), some soa =>
          if rrs.isEmpty then some (ResolvedRecord.nonAuthoritative [] (some soa)) else some (.nonAuthoritative rrs none)
        | some .nameError, some soa => some (.nonAuthoritative [] (some soa))
        | _, _ => none) = _
      rw [uni_ex_resolve_A]; rfl)
  exact ⟨h1, h2⟩

open UniEx in
example :
    (resolveRecursive cfgM (startCtx UniEx.zones 512 0) qA).2 = .ok (.nonAuthoritative [rrW1, rrW2] none) ∧
    (resolveRecursive cfgM (startCtx UniEx.zones 512 0) qA).1.run.log =
      [eRoot.exchange 53 qA, eEM.exchange 53 qA, eXE2.exchange 53 qA] := by
  decide +kernel

end Resolved
