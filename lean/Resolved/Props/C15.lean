/-
  C15 — Cache pruning is exact, bounded and least-recently-used.
  FIRST-CLAIM version: facts about `prune` that hold of every state (the invariant-dependent
  clauses — no expired record left, counts true, LRU order, termination given `Inv` — are being
  proved; until then they are checked on every history by the Impl-vs-Spec oracle
  `CSpec.checkPrune` / `CSpec.dumpInvariant`).
-/
import Resolved.Spec.CacheSpec
import Resolved.Proofs.CachePruneSpec
import Resolved.Proofs.CacheUse

namespace Resolved

/-- The eviction loop stops only when the cache is within its size: whenever `prune` returns, the
    record counter is at most the desired size. -/
theorem pruneLoop_size (fuel : Nat) (c c' : PCache) (acc n : Nat)
    (h : PCache.pruneLoop fuel c acc = some (c', n)) : c'.currentSize ≤ c'.desiredSize := by
  induction fuel generalizing c acc with
  | zero =>
    simp only [PCache.pruneLoop] at h
    split at h
    · cases h
    · cases h; omega
  | succ k ih =>
    simp only [PCache.pruneLoop] at h
    split at h
    · exact ih _ _ h
    · cases h; omega

theorem C15_size_bound (c c' : PCache) (now : Nat) (r : Bool × Nat × Nat × Nat)
    (h : c.prune now = some (c', r)) : c'.currentSize ≤ c'.desiredSize ∧ r.2.1 = c'.currentSize := by
  unfold PCache.prune at h
  simp only at h
  split at h
  · cases h
  · split at h
    · cases h
    · rename_i c2 pruned hp
      cases h
      exact ⟨pruneLoop_size _ _ _ _ _ hp, rfl⟩

/-- The overflow flag is exactly "was over the desired size before pruning". -/
theorem C15_overflow_flag (c c' : PCache) (now : Nat) (r : Bool × Nat × Nat × Nat)
    (h : c.prune now = some (c', r)) : r.1 = decide (c.currentSize > c.desiredSize) := by
  unfold PCache.prune at h
  simp only at h
  split at h
  · cases h
  · split at h
    · cases h
    · cases h; rfl

/-! ## The structural invariant `Inv` (defined in `Proofs/CacheInv.lean`) is inductive

`Inv c` is the conjunction of: I1 distinct partition keys, distinct record keys, every partition
holds at least one tuple; I2 `size`/`current_size` are the tuple counts; I3 `next_expiry` is the
least expiry of the partition; I4 both queues hold exactly the partition keys once, with priorities
`last_read` / `next_expiry`; I5 no value twice in a tuple list; I6 tuples are filed under their own
record type. -/

/-- `Inv` spelled out in the vocabulary of the model alone (no helper definitions). -/
theorem C15_inv_iff (c : PCache) :
    Inv c ↔
      (c.partitions.map (·.1)).Nodup ∧
      (∀ kp ∈ c.partitions,
        (kp.2.records.map (·.1)).Nodup ∧
        kp.2.size = (kp.2.records.map (fun r => r.2.length)).sum ∧
        ((∃ t ∈ kp.2.records.flatMap (·.2), t.2 = kp.2.nextExpiry) ∧
          ∀ t ∈ kp.2.records.flatMap (·.2), kp.2.nextExpiry ≤ t.2) ∧
        (∀ r ∈ kp.2.records, (r.2.map (·.1)).Nodup) ∧
        (∀ r ∈ kp.2.records, ∀ t ∈ r.2, t.1.rtype = r.1)) ∧
      c.currentSize = (c.partitions.map (·.2.size)).sum ∧
      (c.accessPriority.map (·.1)).Nodup ∧
      (∀ k x, (k, x) ∈ c.accessPriority ↔ ∃ p, (k, p) ∈ c.partitions ∧ p.lastRead = x) ∧
      (c.expiryPriority.map (·.1)).Nodup ∧
      (∀ k x, (k, x) ∈ c.expiryPriority ↔ ∃ p, (k, p) ∈ c.partitions ∧ p.nextExpiry = x) := by
  constructor
  · intro h
    refine ⟨h.keysNodup, ?_, h.size_eq, h.aqNodup,
      (queue_get_iff_mem _ h.aqNodup h.keysNodup).mp h.aq_get, h.eqNodup,
      (queue_get_iff_mem _ h.eqNodup h.keysNodup).mp h.eq_get⟩
    intro kp hkp
    have hp := h.parts kp hkp
    exact ⟨hp.keysNodup, hp.size_eq, hp.nextExpiry_min, hp.noDup, hp.rtype_eq⟩
  · rintro ⟨h1, h2, h3, h4, h5, h6, h7⟩
    refine ⟨h1, ?_, h3, h4, (queue_get_iff_mem _ h4 h1).mpr h5, h6, (queue_get_iff_mem _ h6 h1).mpr h7⟩
    intro kp hkp
    obtain ⟨a, b, d, e, f⟩ := h2 kp hkp
    exact ⟨a, b, d, e, f⟩

/-- The empty cache satisfies the invariant. -/
theorem C15_inv_init (d : Nat) : Inv (PCache.new d) := Inv.new d

/-- `upsert` keeps the invariant (regression guard for F14: the recomputation of `next_expiry`
    after a duplicate is replaced must range over the whole partition). -/
theorem C15_inv_upsert (c : PCache) (k : Name) (rk : Nat) (v : CRec) (ttl now : Nat)
    (h : Inv c) (hrt : v.rtype = rk) : Inv (c.upsert k rk v ttl now) :=
  h.upsert k ttl now hrt

theorem C15_inv_getTouch (c : PCache) (k : Name) (rk now : Nat) (h : Inv c) :
    Inv (c.getTouch k rk now).1 := h.getTouch k rk now

theorem C15_inv_getPartitionTouch (c : PCache) (k : Name) (now : Nat) (h : Inv c) :
    Inv (c.getPartitionTouch k now).1 := h.getPartitionTouch k now

theorem C15_inv_removeExpiredStep (c : PCache) (now : Nat) (h : Inv c) :
    Inv (c.removeExpiredStep now).1 := h.removeExpiredStep now

theorem C15_inv_removeLRU (c : PCache) (h : Inv c) : Inv c.removeLRU.1 := h.removeLRU

/-- Every operation of the shared cache keeps the invariant. -/
theorem C15_inv_step (c : PCache) (h : Inv c) :
    (∀ rr now, Inv (sharedInsert c rr now)) ∧
    (∀ rrs now, Inv (sharedInsertAll c rrs now)) ∧
    (∀ name qtype now, Inv (cacheGet c name qtype now).1) ∧
    (∀ name qtype now, Inv (cacheGetUnchecked c name qtype now).1) ∧
    (∀ now c' r, c.prune now = some (c', r) → Inv c') :=
  ⟨h.sharedInsert, h.sharedInsertAll, h.cacheGet, h.cacheGetUnchecked, fun _ _ _ hp => h.prune hp⟩

/-- The invariant holds after any history of operations from the empty cache. -/
theorem C15_inv_reachable (d : Nat) (ops : List CacheOp) : Inv (run d ops) :=
  (Inv.new d).runFrom ops

/-! ## Termination -/

/-- On a state satisfying the invariant both loops of `prune` finish (within the model's fuel):
    `prune` returns. -/
theorem C15_prune_terminates (c : PCache) (now : Nat) (h : Inv c) : ∃ r, c.prune now = some r :=
  h.prune_terminates now

/-- … and along any history `prune` always returns. -/
theorem C15_prune_terminates_reachable (d : Nat) (ops : List CacheOp) (now : Nat) :
    ∃ r, (run d ops).prune now = some r :=
  C15_prune_terminates _ now (C15_inv_reachable d ops)

/-- Without the invariant the eviction loop need not terminate: a counter that claims one record
    while nothing is stored makes `while current_size > desired_size` spin (fuel exhausted). -/
example : ({ partitions := [], accessPriority := [], expiryPriority := [], currentSize := 1,
             desiredSize := 0 } : PCache).prune 0 = none := by decide

/-! ## What `prune` does

Vocabulary (`Proofs/CachePruneSpec.lean`): `liveRecs rs now` = the record map with the tuples of
expiry `≤ now` dropped; `liveCount now p` = number of tuples of `p` with expiry `> now`;
`expiredTotal c now` / `liveTotal c now` = number of tuples of the cache with expiry `≤ now` / `> now`;
`psum f ps` = `Σ f p` over a partition list. -/

/-- Survivors: every partition of the result is a partition of the input, with exactly its live
    tuples (same lists, same order) and the same `last_read` — nothing is invented or altered. -/
theorem C15_survivors (c c' : PCache) (now : Nat) (r : Bool × Nat × Nat × Nat) (h : Inv c)
    (hp : c.prune now = some (c', r)) :
    ∀ kp' ∈ c'.partitions, ∃ kp ∈ c.partitions, kp.1 = kp'.1 ∧
      kp'.2.records = liveRecs kp.2.records now ∧ kp'.2.lastRead = kp.2.lastRead := by
  obtain ⟨c1, hi1, hi2, s1, _, _, _, l7, _⟩ := h.prune_spec hp
  intro kp' hkp'
  rw [l7] at hkp'
  have hk1 := (List.mem_filter.mp hkp').1
  rw [s1] at hk1
  obtain ⟨kp, hkp, hpk⟩ := List.mem_filterMap.mp hk1
  obtain ⟨hk, hpp⟩ := purgeKP_some hpk
  obtain ⟨hrec, hlr, _, _⟩ := purgeP_some (h.parts kp hkp) hpp
  exact ⟨kp, hkp, hk.symm, hrec, hlr⟩

/-- No expired record is left behind. -/
theorem C15_no_expired_left (c c' : PCache) (now : Nat) (r : Bool × Nat × Nat × Nat) (h : Inv c)
    (hp : c.prune now = some (c', r)) :
    ∀ kp ∈ c'.partitions, ∀ t ∈ tuplesOf kp.2.records, t.2 > now := by
  intro kp' hkp' t ht
  obtain ⟨kp, _, _, hrec, _⟩ := C15_survivors c c' now r h hp kp' hkp'
  rw [hrec, tuplesOf_liveRecs] at ht
  simpa using (List.mem_filter.mp ht).2

/-- The reported tuple is true: `has_overflowed` = "was over the desired size", `current_size` =
    the number of records now stored, `num_expired` = the number of records whose expiry was
    `≤ now`, `num_pruned` = the number of live records of the partitions that did not survive. -/
theorem C15_counts_true (c c' : PCache) (now : Nat) (over : Bool) (n e p : Nat) (h : Inv c)
    (hp : c.prune now = some (c', (over, n, e, p))) :
    over = decide (c.currentSize > c.desiredSize) ∧
    n = c'.currentSize ∧ n = PCache.totalTuples c' ∧
    e = expiredTotal c now ∧
    p = psum (liveCount now) (c.partitions.filter (fun kp => !decide (kp.1 ∈ AL.keys c'.partitions))) ∧
    e + p + n = PCache.totalTuples c := by
  obtain ⟨c1, hi1, hi2, s1, scs, _, _, l7, _, _, _, r1, r2, r3, r4⟩ := h.prune_spec hp
  simp only at r1 r2 r3 r4
  have hsurv : c'.currentSize =
      psum (liveCount now) (c.partitions.filter (fun kp => decide (kp.1 ∈ AL.keys c'.partitions))) := by
    rw [← hi2.totalTuples_eq, totalTuples_eq_psum]
    conv => lhs; rw [l7, s1]
    exact psum_filter_purge now (fun k => decide (k ∈ AL.keys c'.partitions)) h.parts
  have hsplit := psum_filter_add (liveCount now) (fun kp => decide (kp.1 ∈ AL.keys c'.partitions)) c.partitions
  have hall := expired_add_live_total c now
  unfold liveTotal at scs hall
  refine ⟨r1, r2, by rw [hi2.totalTuples_eq]; exact r2, r3, ?_, ?_⟩ <;> omega

/-- Least-recently-used order: a partition that still had live records but did not survive was
    last read no later than every survivor. -/
theorem C15_lru (c c' : PCache) (now : Nat) (r : Bool × Nat × Nat × Nat) (h : Inv c)
    (hp : c.prune now = some (c', r)) :
    ∀ kp ∈ c.partitions, liveCount now kp.2 > 0 → kp.1 ∉ AL.keys c'.partitions →
      ∀ kp' ∈ c'.partitions, kp.2.lastRead ≤ kp'.2.lastRead := by
  obtain ⟨c1, hi1, hi2, s1, _, _, _, _, l2, _⟩ := h.prune_spec hp
  intro kp hkp hlive hnot kp' hkp'
  cases hpk : purgeKP now kp with
  | none =>
    have : purgeP now kp.2 = none := by
      unfold purgeKP at hpk
      cases hpp : purgeP now kp.2 with
      | none => rfl
      | some p' => rw [hpp] at hpk; cases hpk
    have := purgeP_none this
    omega
  | some kp1 =>
    obtain ⟨hk, hpp⟩ := purgeKP_some hpk
    obtain ⟨_, hlr, _, _⟩ := purgeP_some (h.parts kp hkp) hpp
    have hmem : (kp.1, kp1.2) ∈ c1.partitions := by
      rw [s1, ← hk]; exact List.mem_filterMap.mpr ⟨kp, hkp, hpk⟩
    have := l2 kp.1 kp1.2 (AL.get_of_mem hi1.keysNodup hmem) (AL.get_eq_none_iff.mpr hnot)
      kp'.1 kp'.2 (AL.get_of_mem hi2.keysNodup hkp')
    omega

/-- Eviction happens only while over size: if the live records alone fit, nothing is evicted
    (the result is exactly the purged input) … -/
theorem C15_evicts_only_while_over (c c' : PCache) (now : Nat) (r : Bool × Nat × Nat × Nat) (h : Inv c)
    (hp : c.prune now = some (c', r)) (hfit : liveTotal c now ≤ c.desiredSize) :
    r.2.2.2 = 0 ∧ c'.partitions = c.partitions.filterMap (purgeKP now) ∧
      ∀ kp ∈ c.partitions, liveCount now kp.2 > 0 → kp.1 ∈ AL.keys c'.partitions := by
  obtain ⟨c1, hi1, hi2, s1, scs, sds, _, _, _, _, l5, _⟩ := h.prune_spec hp
  obtain ⟨rfl, h0⟩ := l5 (by omega)
  refine ⟨h0, s1, ?_⟩
  intro kp hkp hlive
  cases hpk : purgeKP now kp with
  | none =>
    have : purgeP now kp.2 = none := by
      unfold purgeKP at hpk
      cases hpp : purgeP now kp.2 with
      | none => rfl
      | some p' => rw [hpp] at hpk; cases hpk
    have := purgeP_none this
    omega
  | some kp1 =>
    obtain ⟨hk, _⟩ := purgeKP_some hpk
    rw [s1, ← hk]
    exact AL.mem_keys_of_mem (List.mem_filterMap.mpr ⟨kp, hkp, hpk⟩)

/-- … and no more than needed: if anything was evicted, then putting back (the live records of)
    one of the evicted partitions — the last one evicted — would exceed the desired size. -/
theorem C15_evicts_no_more_than_needed (c c' : PCache) (now : Nat) (r : Bool × Nat × Nat × Nat) (h : Inv c)
    (hp : c.prune now = some (c', r)) (hev : r.2.2.2 ≠ 0) :
    ∃ kp ∈ c.partitions, kp.1 ∉ AL.keys c'.partitions ∧ liveCount now kp.2 > 0 ∧
      c'.currentSize + liveCount now kp.2 > c'.desiredSize := by
  obtain ⟨c1, hi1, hi2, s1, _, _, _, _, _, l4, _⟩ := h.prune_spec hp
  obtain ⟨k, p1, hg1, hg2, hsz⟩ := l4 hev
  have hm := AL.mem_of_get hg1
  rw [s1] at hm
  obtain ⟨kp, hkp, hpk⟩ := List.mem_filterMap.mp hm
  obtain ⟨hk, hpp⟩ := purgeKP_some hpk
  simp only at hk hpp
  obtain ⟨hrec, _, _, _⟩ := purgeP_some (h.parts kp hkp) hpp
  have hp1 := hi1.pinv_of_get hg1
  have hcnt : p1.size = liveCount now kp.2 := by rw [hp1.size_eq, hrec]; rfl
  have := hp1.one_le_size
  refine ⟨kp, hkp, ?_, by omega, by omega⟩
  rw [← hk]; exact AL.get_eq_none_iff.mp hg2

/-- non-vacuity: a two-record history, its invariant, and a prune that evicts -/
example : (run 1 [.insert ⟨⟨[[97], []], 3⟩, 1, [], 1, 5⟩ 0, .insert ⟨⟨[[98], []], 3⟩, 1, [], 1, 7⟩ 1]).currentSize = 2 := by
  decide

example : ((run 1 [.insert ⟨⟨[[97], []], 3⟩, 1, [], 1, 5⟩ 0, .insert ⟨⟨[[98], []], 3⟩, 1, [], 1, 7⟩ 1]).prune 2).map (·.2)
    = some (true, 1, 0, 1) := by decide

/-- non-vacuity of the `prune` theorems: three names, desired size 1; at t = 8 s the first record
    (TTL 5 s) has expired, the two live ones exceed the size, the older-read one is evicted:
    `(has_overflowed, current_size, num_expired, num_pruned) = (true, 1, 1, 1)` and the survivor
    is the most recently used name. -/
example :
    let a : RR := ⟨⟨[[97], []], 3⟩, 1, [], 1, 5⟩
    let b : RR := ⟨⟨[[98], []], 3⟩, 1, [], 1, 60⟩
    let d : RR := ⟨⟨[[99], []], 3⟩, 1, [], 1, 60⟩
    let st := run 1 [.insert a 0, .insert b NANOS, .insert d (2 * NANOS)]
    (st.prune (8 * NANOS)).map (·.2) = some (true, 1, 1, 1) ∧
    (st.prune (8 * NANOS)).map (·.1.partitions.map (·.1)) = some [d.name] ∧
    expiredTotal st (8 * NANOS) = 1 ∧ liveTotal st (8 * NANOS) = 2 := by
  decide

/-! ## What counts as a use

"Least recently USED" is about `last_read`.  Which lookups refresh it (and the access queue that
`prune` pops from) is part of the property: a lookup that finds nothing under the asked type must
not make the name look recently used.  The model mirrors `get_without_checking_expiration`
(touches only when the record key exists — emptied per-type vectors are kept by
`remove_expired_step`, so an emptied vector still counts as a key) and
`get_partition_without_checking_expiration` (touches whenever the partition exists). -/

/-- A1: a typed lookup (`SharedCache::get` and `get_without_checking_expiration` alike) for a type
    whose key the name's partition does not hold — or for a name without a partition — leaves the
    WHOLE cache unchanged (`last_read`, both queues, counters) and returns nothing. -/
theorem C15_typed_miss_is_not_a_use (c : PCache) (name : Name) (t now : Nat) (ht : t ≠ QTYPE_WILDCARD)
    (hmiss : ∀ p, PCache.getPartition c.partitions name = some p → PCache.getTuples p.records t = none) :
    (cacheGet c name t now).1 = c ∧ (cacheGet c name t now).2 = [] ∧
    (cacheGetUnchecked c name t now).1 = c ∧ (cacheGetUnchecked c name t now).2 = [] ∧
    c.getTouch name t now = (c, none) := by
  have h1 := cu_cacheGet_miss (c := c) (name := name) now ht hmiss
  have h2 := cu_cacheGetUnchecked_miss (c := c) (name := name) now ht hmiss
  rw [h1, h2]
  exact ⟨rfl, rfl, rfl, rfl, cu_getTouch_miss now hmiss⟩

/-- … likewise for a name the cache holds nothing about, whatever is asked (ANY included). -/
theorem C15_absent_name_is_not_a_use (c : PCache) (name : Name) (t now : Nat)
    (habs : PCache.getPartition c.partitions name = none) :
    cacheGet c name t now = (c, []) ∧ cacheGetUnchecked c name t now = (c, []) ∧
    c.getPartitionTouch name now = (c, none) := by
  have hu : cacheGetUnchecked c name t now = (c, []) := by
    by_cases ht : t = QTYPE_WILDCARD
    · subst ht; exact cu_cacheGetUnchecked_any_absent now habs
    · exact cu_cacheGetUnchecked_miss now ht (cu_noKey_of_absent habs t)
  refine ⟨?_, hu, cu_getPartitionTouch_absent now habs⟩
  unfold cacheGet; rw [hu]; rfl

/-- The query-only types `AXFR`, `MAILB`, `MAILA` never touch the cache. -/
theorem C15_query_only_types_are_not_a_use (c : PCache) (name : Name) (t now : Nat)
    (ht : t = 252 ∨ t = 253 ∨ t = 254) :
    cacheGet c name t now = (c, []) ∧ cacheGetUnchecked c name t now = (c, []) := by
  have hu := cu_cacheGetUnchecked_queryOnly (c := c) (name := name) now ht
  refine ⟨?_, hu⟩
  unfold cacheGet; rw [hu]; rfl

/-- A2: a typed lookup for a record type whose key the partition holds — even with an empty or
    fully expired list — IS a use: `last_read` of that partition becomes `now`, the access-queue
    priority of the name is changed to `now`, and nothing else changes (records, `size`,
    `next_expiry` of the partition; every other partition; every other queue entry; the expiry queue;
    the counters).  The records returned are the `to_rrs` image of the stored list. -/
theorem C15_typed_hit_is_a_use (c : PCache) (name : Name) (t now : Nat) (p : Partition) (ts : Tuples)
    (ht : t ≠ 252 ∧ t ≠ 253 ∧ t ≠ 254 ∧ t ≠ 255)
    (hp : PCache.getPartition c.partitions name = some p) (hts : PCache.getTuples p.records t = some ts) :
    (cacheGetUnchecked c name t now).1 = (cacheGet c name t now).1 ∧
    (cacheGet c name t now).1 =
      { c with partitions := PCache.setPartition c.partitions name { p with lastRead := now }
               accessPriority := c.accessPriority.change name now } ∧
    PCache.getPartition (cacheGet c name t now).1.partitions name =
      some { lastRead := now, nextExpiry := p.nextExpiry, size := p.size, records := p.records } ∧
    (∀ k, k ≠ name →
      PCache.getPartition (cacheGet c name t now).1.partitions k = PCache.getPartition c.partitions k ∧
      AL.get (cacheGet c name t now).1.accessPriority k = AL.get c.accessPriority k) ∧
    (Inv c → AL.get (cacheGet c name t now).1.accessPriority name = some now) ∧
    (cacheGet c name t now).1.expiryPriority = c.expiryPriority ∧
    (cacheGet c name t now).1.currentSize = c.currentSize ∧
    (cacheGet c name t now).1.desiredSize = c.desiredSize ∧
    (cacheGetUnchecked c name t now).2 = toRRs name now ts := by
  have hq := (cu_lookup_none_iff t).mpr ht
  have h1 := cu_cacheGet_hit (c := c) (name := name) now hq hp hts
  have h2 := cu_cacheGetUnchecked_hit (c := c) (name := name) now hq hp hts
  rw [h1, h2]
  refine ⟨rfl, rfl, ?_, ?_, ?_, rfl, rfl, rfl, rfl⟩
  · rw [cu_touch_get]; simp
  · intro k hk
    rw [cu_touch_get, cu_touch_queue]; simp [hk]
  · intro hinv
    rw [cu_touch_queue]
    have := hinv.aq_get name
    simp only [getPartition_eq] at hp
    rw [hp] at this
    simp [this]

/-- A3: the ANY path (`get_partition_without_checking_expiration`, reached through a lookup with
    query type `*`) is a use whenever the partition exists, whatever it holds. -/
theorem C15_any_lookup_is_a_use (c : PCache) (name : Name) (now : Nat) (p : Partition)
    (hp : PCache.getPartition c.partitions name = some p) :
    c.getPartitionTouch name now =
      ({ c with partitions := PCache.setPartition c.partitions name { p with lastRead := now }
                accessPriority := c.accessPriority.change name now }, some p.records) ∧
    (cacheGet c name QTYPE_WILDCARD now).1 = (c.getPartitionTouch name now).1 ∧
    (cacheGetUnchecked c name QTYPE_WILDCARD now).1 = (c.getPartitionTouch name now).1 ∧
    PCache.getPartition (c.getPartitionTouch name now).1.partitions name =
      some { lastRead := now, nextExpiry := p.nextExpiry, size := p.size, records := p.records } ∧
    (∀ k, k ≠ name →
      PCache.getPartition (c.getPartitionTouch name now).1.partitions k = PCache.getPartition c.partitions k ∧
      AL.get (c.getPartitionTouch name now).1.accessPriority k = AL.get c.accessPriority k) ∧
    (Inv c → AL.get (c.getPartitionTouch name now).1.accessPriority name = some now) := by
  have h0 := cu_getPartitionTouch_hit (c := c) (k := name) now hp
  have h2 := cu_cacheGetUnchecked_any_hit (c := c) (name := name) now hp
  rw [cu_cacheGet_fst, h2, h0]
  refine ⟨rfl, rfl, rfl, ?_, ?_, ?_⟩
  · rw [cu_touch_get]; simp
  · intro k hk
    rw [cu_touch_get, cu_touch_queue]; simp [hk]
  · intro hinv
    rw [cu_touch_queue]
    have := hinv.aq_get name
    simp only [getPartition_eq] at hp
    rw [hp] at this
    simp [this]

/-- A4, history form.  `cu_Misses c k op` (Proofs/CacheUse.lean): `op` is a lookup of another name,
    a typed (non-ANY) lookup of `k` for a type key `k`'s partition does not hold, or an insertion
    under another name.  A history of such operations leaves the partition of `k` — `last_read`
    included — and `k`'s access-queue entry exactly as they were. -/
theorem C15_misses_leave_last_read (c : PCache) (k : Name) (ops : List CacheOp)
    (hops : ∀ op ∈ ops, cu_Misses c k op) :
    PCache.getPartition (runFrom c ops).partitions k = PCache.getPartition c.partitions k ∧
    AL.get (runFrom c ops).accessPriority k = AL.get c.accessPriority k := by
  have := cu_run_misses k ops c hops
  exact ⟨congrArg Prod.fst this, congrArg Prod.snd this⟩

/-- … in particular for a list of typed lookups of `k` itself (checked or unchecked, at any clock
    readings) for types it does not hold: folded over the cache they change NOTHING at all. -/
theorem C15_typed_misses_fold (c : PCache) (k : Name) (lookups : List (Nat × Nat))
    (hl : ∀ l ∈ lookups, l.1 ≠ QTYPE_WILDCARD ∧
      ∀ p, PCache.getPartition c.partitions k = some p → PCache.getTuples p.records l.1 = none) :
    lookups.foldl (fun c l => (cacheGet c k l.1 l.2).1) c = c ∧
    lookups.foldl (fun c l => (cacheGetUnchecked c k l.1 l.2).1) c = c := by
  induction lookups with
  | nil => exact ⟨rfl, rfl⟩
  | cons l ls ih =>
    obtain ⟨h1, h2⟩ := hl l (by simp)
    obtain ⟨a, _, b, _⟩ := C15_typed_miss_is_not_a_use c k l.1 l.2 h1 h2
    simp only [List.foldl_cons, a, b]
    exact ih (fun l' hl' => hl l' (by simp [hl']))

/-- A4, consequence for the eviction order (with `C15_lru`): misses do not protect a name.  Let `k`
    hold partition `p`, let any history of operations that only MISS `k` follow, then a `prune`.
    `k`'s `last_read` is still `p.lastRead`, and every name that was used later than that — however
    long before the misses — outlives `k`: if such a name is evicted (with live records), `k` is
    gone too. -/
theorem C15_misses_do_not_protect_from_eviction (c : PCache) (h : Inv c) (k : Name) (p : Partition)
    (ops : List CacheOp) (hp : PCache.getPartition c.partitions k = some p)
    (hops : ∀ op ∈ ops, cu_Misses c k op)
    (now : Nat) (c' : PCache) (r : Bool × Nat × Nat × Nat)
    (hprune : (runFrom c ops).prune now = some (c', r)) :
    PCache.getPartition (runFrom c ops).partitions k = some p ∧
    ∀ kp2 ∈ (runFrom c ops).partitions, p.lastRead < kp2.2.lastRead → liveCount now kp2.2 > 0 →
      kp2.1 ∉ AL.keys c'.partitions → k ∉ AL.keys c'.partitions := by
  have hpk : PCache.getPartition (runFrom c ops).partitions k = some p := by
    rw [← hp]; exact (C15_misses_leave_last_read c k ops hops).1
  refine ⟨hpk, ?_⟩
  intro kp2 hkp2 hlt hlive hnot hk
  have hi := h.runFrom ops
  obtain ⟨kp', hkp', hk'⟩ := List.mem_map.mp hk
  obtain ⟨kp, hkp, hkeq, _, hlr⟩ := C15_survivors _ c' now r hi hprune kp' hkp'
  have hkp2eq : kp.2 = p := by
    have h1 := AL.get_of_mem hi.keysNodup (show (kp.1, kp.2) ∈ (runFrom c ops).partitions from hkp)
    rw [hkeq, hk'] at h1
    simp only [getPartition_eq] at hpk
    rw [hpk] at h1
    cases h1; rfl
  have hle := C15_lru _ c' now r hi hprune kp2 hkp2 hlive hnot kp' hkp'
  rw [hlr, hkp2eq] at hle
  omega

/-- non-vacuity of A1–A3 on a concrete cache: `a.` holds one A record inserted at t = 0.  An AAAA
    lookup at 5 s changes nothing; an A lookup, and an ANY lookup, set `last_read` to 5 s. -/
example :
    let a : RR := ⟨⟨[[97], []], 3⟩, 1, [], 1, 60⟩
    let c := sharedInsert (PCache.new 10) a 0
    (cacheGet c a.name 28 (5 * NANOS)).1 = c ∧ (cacheGetUnchecked c a.name 28 (5 * NANOS)).1 = c ∧
    (c.partitions.map (·.2.lastRead)) = [0] ∧
    ((cacheGet c a.name 1 (5 * NANOS)).1.partitions.map (·.2.lastRead)) = [5 * NANOS] ∧
    ((cacheGet c a.name 1 (5 * NANOS)).1.accessPriority.map (·.2)) = [5 * NANOS] ∧
    ((cacheGet c a.name 255 (5 * NANOS)).1.partitions.map (·.2.lastRead)) = [5 * NANOS] ∧
    ((cacheGet c a.name 252 (5 * NANOS)).1.partitions.map (·.2.lastRead)) = [0] := by
  decide

/-- an emptied per-type list still counts as a key: `a.` holds A (TTL 5 s) and MX (TTL 60 s); the
    prune at 8 s empties the A list but keeps the key, so the A lookup at 9 s returns nothing and
    yet refreshes `last_read` (as the Rust does). -/
example :
    let a1 : RR := ⟨⟨[[97], []], 3⟩, 1, [], 1, 5⟩
    let a2 : RR := ⟨⟨[[97], []], 3⟩, 15, [], 1, 60⟩
    let c := run 10 [.insert a1 0, .insert a2 0, .prune (8 * NANOS)]
    (c.partitions.map (·.2.records)) = [[(1, []), (15, [(⟨15, []⟩, 60 * NANOS)])]] ∧
    (cacheGet c a1.name 1 (9 * NANOS)).2 = [] ∧
    ((cacheGet c a1.name 1 (9 * NANOS)).1.partitions.map (·.2.lastRead)) = [9 * NANOS] := by
  decide

/-- non-vacuity of A4: `a.` inserted at 0 s, `b.` at 1 s, desired size 1.  AAAA lookups of `a.` (which
    holds only A) at 2 s and 3 s are misses, so the prune at 4 s evicts `a.` and keeps `b.`; had the
    lookup at 2 s been for A (a hit), `b.` would have been evicted instead. -/
example :
    let a : RR := ⟨⟨[[97], []], 3⟩, 1, [], 1, 60⟩
    let b : RR := ⟨⟨[[98], []], 3⟩, 1, [], 1, 60⟩
    let c := run 1 [.insert a 0, .insert b NANOS]
    let misses : List CacheOp := [.get a.name 28 (2 * NANOS), .getUnchecked a.name 28 (3 * NANOS)]
    runFrom c misses = c ∧
    ((runFrom c misses).prune (4 * NANOS)).map (·.1.partitions.map (·.1)) = some [b.name] ∧
    ((runFrom c [.get a.name 1 (2 * NANOS)]).prune (4 * NANOS)).map (·.1.partitions.map (·.1)) = some [a.name] := by
  decide

/-- the hypothesis `cu_Misses` of the history theorems is satisfiable by exactly such lookups -/
example :
    let a : RR := ⟨⟨[[97], []], 3⟩, 1, [], 1, 60⟩
    let b : RR := ⟨⟨[[98], []], 3⟩, 1, [], 1, 60⟩
    let c := run 1 [.insert a 0, .insert b NANOS]
    ∀ op ∈ ([.get a.name 28 (2 * NANOS), .getUnchecked a.name 28 (3 * NANOS), .get b.name 1 (3 * NANOS),
        .insert b (3 * NANOS)] : List CacheOp), cu_Misses c a.name op := by
  intro a b c op hop
  simp only [List.mem_cons, List.not_mem_nil, or_false] at hop
  rcases hop with rfl | rfl | rfl | rfl
  · exact Or.inr ⟨by decide, by decide⟩
  · exact Or.inr ⟨by decide, by decide⟩
  · exact Or.inl (by decide)
  · show b.name ≠ a.name; decide

end Resolved
