/-
  C15 — Cache pruning is exact, bounded and least-recently-used.
  FIRST-CLAIM version: facts about `prune` that hold of every state (the invariant-dependent
  clauses — no expired record left, counts true, LRU order, termination given `Inv` — are being
  proved; until then they are checked on every history by the Impl-vs-Spec oracle
  `CSpec.checkPrune` / `CSpec.dumpInvariant`).
-/
import Resolved.Spec.CacheSpec

namespace Resolved

/-- The eviction loop stops only when the cache is within its size: whenever `prune` returns, the
    record counter is at most the desired size. -/
theorem pruneLoop_size (fuel : Nat) (c c' : PCache) (acc n : Nat)
    (h : PCache.pruneLoop fuel c acc = some (c', n)) : c'.currentSize ≤ c'.desiredSize := by
  induction fuel generalizing c acc with
  | zero =>
    simp only [PCache.pruneLoop] at h
    split at h
    · cases h
    · cases h; omega
  | succ k ih =>
    simp only [PCache.pruneLoop] at h
    split at h
    · exact ih _ _ h
    · cases h; omega

theorem C15_size_bound (c c' : PCache) (now : Nat) (r : Bool × Nat × Nat × Nat)
    (h : c.prune now = some (c', r)) : c'.currentSize ≤ c'.desiredSize ∧ r.2.1 = c'.currentSize := by
  unfold PCache.prune at h
  simp only at h
  split at h
  · cases h
  · split at h
    · cases h
    · rename_i c2 pruned hp
      cases h
      exact ⟨pruneLoop_size _ _ _ _ _ hp, rfl⟩

/-- The overflow flag is exactly "was over the desired size before pruning". -/
theorem C15_overflow_flag (c c' : PCache) (now : Nat) (r : Bool × Nat × Nat × Nat)
    (h : c.prune now = some (c', r)) : r.1 = decide (c.currentSize > c.desiredSize) := by
  unfold PCache.prune at h
  simp only at h
  split at h
  · cases h
  · split at h
    · cases h
    · cases h; rfl

end Resolved
