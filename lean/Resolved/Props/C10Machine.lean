/-
  C10 (machine part) — CNAME chains are returned whole, in order, and loops end safely.

  For the recursive and the forwarding machine, any oracle, zones, cache, question:
  * bounded depth: with the question stack at the recursion limit `resolveRec` / `resolveFwd`
    refuse (`RecursionLimit`) without touching anything; a question is only ever pushed while
    the stack is below the limit and does not contain it, so a stack that is within the limit
    and duplicate-free stays so through every primitive step (`C10_recursive_depth_bound`,
    `C10_stack_discipline`, `C10_stack_invariant`);
  * no alias is followed twice: a question already on the stack is refused
    (`C10_recursive_no_alias_twice`, `C10_forwarding_no_alias_twice`);
  * every function returns with the stack exactly as it got it (`C10_stack_restored`);
  * order: across resolution steps the records of the alias come first, then those of the alias target
    (`C10_combined_order`, `C10_recursive_local_alias_order`, `C10_upstream_alias_order`,
    `C10_forwarding_local_alias_order`).
-/
import Resolved.Model.Resolver
import Resolved.Proofs.ResolverMachineInv
import Resolved.Proofs.ResolverMachineExample

namespace Resolved

open Gen

set_option autoImplicit false

/-- With the question stack at the recursion limit the recursive resolver refuses, leaving its
    state (context, log, clock) untouched. -/
theorem C10_recursive_depth_bound (cfg : RecCfg) (fuel : Nat) (st : St) (q : Question)
    (ht : st.run.timedOut = false) (h : st.ctx.stack.length = RECURSION_LIMIT) :
    resolveRec cfg (fuel + 1) st q = (st, .error .recursionLimit) := by
  rw [resolveRec_succ]
  simp [ht, Ctx.atRecursionLimit, h]

theorem C10_forwarding_depth_bound (cfg : FwdCfg) (fuel : Nat) (st : St) (q : Question)
    (ht : st.run.timedOut = false) (h : st.ctx.stack.length = RECURSION_LIMIT) :
    resolveFwd cfg (fuel + 1) st q = (st, .error .recursionLimit) := by
  rw [resolveFwd]
  simp [ht, Ctx.atRecursionLimit, h]

/-- A question already on the stack (an alias loop, or a name server whose address depends on
    the question being resolved) is refused instead of being followed again. -/
theorem C10_recursive_no_alias_twice (cfg : RecCfg) (fuel : Nat) (st : St) (q : Question)
    (ht : st.run.timedOut = false) (hl : st.ctx.stack.length ≠ RECURSION_LIMIT) (h : q ∈ st.ctx.stack) :
    resolveRec cfg (fuel + 1) st q = (st, .error (.duplicateQuestion q)) := by
  rw [resolveRec_succ]
  simp [ht, Ctx.atRecursionLimit, hl, Ctx.isDuplicate, h]

theorem C10_forwarding_no_alias_twice (cfg : FwdCfg) (fuel : Nat) (st : St) (q : Question)
    (ht : st.run.timedOut = false) (hl : st.ctx.stack.length ≠ RECURSION_LIMIT) (h : q ∈ st.ctx.stack) :
    resolveFwd cfg (fuel + 1) st q = (st, .error (.duplicateQuestion q)) := by
  rw [resolveFwd]
  simp [ht, Ctx.atRecursionLimit, hl, Ctx.isDuplicate, h]

/-- Every function of the machine returns with the question stack exactly as it got it (every
    push is matched by a pop on every path, including all error paths). -/
theorem C10_stack_restored (cfg : RecCfg) (fuel : Nat) :
    (∀ st q, (resolveRec cfg fuel st q).1.ctx.stack = st.ctx.stack) ∧
    (∀ st q combined mc cands next locally,
      (candidateLoop cfg fuel st q combined mc cands next locally).1.ctx.stack = st.ctx.stack) ∧
    (∀ st rrs q, (resolveCombined cfg fuel st rrs q).1.ctx.stack = st.ctx.stack) ∧
    (∀ st locally host types, (tryTypes cfg fuel st locally host types).1.ctx.stack = st.ctx.stack) := by
  obtain ⟨h1, h2, h3, h4⟩ := machine_good cfg fuel
  exact ⟨fun st q => (h1 st q).2, fun st q c m cs n l => (h2 st q c m cs n l).2,
    fun st r q => (h3 st r q).2, fun st l ho t => (h4 st l ho t).2⟩

theorem C10_stack_restored_forwarding (cfg : FwdCfg) (fuel : Nat) (st : St) (q : Question) :
    (resolveFwd cfg fuel st q).1.ctx.stack = st.ctx.stack :=
  (resolveFwd_good cfg fuel st q).2

/-- The stack discipline of every primitive step (`Reach` lists them: a question is pushed only
    under the guards "stack below the limit" and "question not on the stack"): a stack within the
    recursion limit and without repeated question stays so. -/
theorem C10_stack_discipline (n : Net) (a b : St) (h : Reach n a b)
    (hs : a.ctx.stack.length ≤ RECURSION_LIMIT ∧ a.ctx.stack.Nodup) :
    b.ctx.stack.length ≤ RECURSION_LIMIT ∧ b.ctx.stack.Nodup :=
  h.stackOK hs

/-- … and every function of the machine only makes such steps: the state it returns is reached
    from the one it was given through guarded primitive steps only. -/
theorem C10_stack_invariant (cfg : RecCfg) (fuel : Nat) :
    (∀ st q, Reach cfg.net st (resolveRec cfg fuel st q).1) ∧
    (∀ st q combined mc cands next locally,
      Reach cfg.net st (candidateLoop cfg fuel st q combined mc cands next locally).1) ∧
    (∀ st rrs q, Reach cfg.net st (resolveCombined cfg fuel st rrs q).1) ∧
    (∀ st locally host types, Reach cfg.net st (tryTypes cfg fuel st locally host types).1) := by
  obtain ⟨h1, h2, h3, h4⟩ := machine_good cfg fuel
  exact ⟨fun st q => (h1 st q).1, fun st q c m cs n l => (h2 st q c m cs n l).1,
    fun st r q => (h3 st r q).1, fun st l ho t => (h4 st l ho t).1⟩

/-- `resolve_combined_recursive`: the records given (the alias chain so far) come first, then the
    records of the rest of the resolution, with its SOA; `Timeout` is passed on, every other
    failure of the rest becomes a dead end for the alias target. -/
theorem C10_combined_order (cfg : RecCfg) (fuel : Nat) (st : St) (rrs : List RR) (q : Question) :
    (∀ st1 resolved, resolveRec cfg fuel st q = (st1, .ok resolved) →
      resolveCombined cfg (fuel + 1) st rrs q = (st1, .ok (.nonAuthoritative (rrs ++ resolved.rrs) resolved.soaRR))) ∧
    (∀ st1 e, resolveRec cfg fuel st q = (st1, .error e) →
      (resolveCombined cfg (fuel + 1) st rrs q).2 = .error .timeout ∨
      (resolveCombined cfg (fuel + 1) st rrs q).2 = .error .outOfFuel ∨
      (resolveCombined cfg (fuel + 1) st rrs q).2 = .error (.deadEnd q)) := by
  constructor
  · intro st1 resolved h
    rw [resolveCombined_succ, h]
  · intro st1 e h
    rw [resolveCombined_succ, h]
    cases e <;> simp

/-- An alias found in local data: the result is the local alias records followed by the records
    the resolution of the alias target returns. -/
theorem C10_recursive_local_alias_order (cfg : RecCfg) (fuel : Nat) (st : St) (q : Question)
    (rrs : List RR) (cq : Question) (st1 : St) (resolved : ResolvedRecord)
    (ht : st.run.timedOut = false)
    (hloc : (resolveLocal (RECURSION_LIMIT + 1) st.ctx q).2 = .ok (.cname rrs cq))
    (hrest : resolveRec cfg fuel ⟨(resolveLocal (RECURSION_LIMIT + 1) st.ctx q).1.push q, st.run⟩ cq
      = (st1, .ok resolved)) :
    (resolveRec cfg (fuel + 2) st q).2 = .ok (.nonAuthoritative (rrs ++ resolved.rrs) resolved.soaRR) := by
  have hl : st.ctx.atRecursionLimit = false := by
    cases hh : st.ctx.atRecursionLimit with
    | false => rfl
    | true => rw [resolveLocal] at hloc; simp [hh] at hloc
  have hd : st.ctx.isDuplicate q = false := by
    cases hh : st.ctx.isDuplicate q with
    | false => rfl
    | true => rw [resolveLocal] at hloc; simp [hl, hh] at hloc
  rw [resolveRec_succ]
  simp only [ht, hl, hd, Bool.false_eq_true, if_false]
  rw [hloc]
  simp only
  rw [(C10_combined_order cfg fuel _ rrs cq).1 st1 resolved hrest]

/-- An alias learnt from an upstream reply: `combined_rrs` merged with the reply's alias records
    come first, then the records of the alias target's resolution. -/
theorem C10_upstream_alias_order (cfg : RecCfg) (fuel : Nat) (st2 : St) (q : Question) (combined rrs : List RR)
    (cname : Name) (st1 : St) (resolved : ResolvedRecord)
    (hrest : resolveRec cfg fuel ⟨st2.ctx.cacheInsertAll rrs, st2.run⟩
      { name := cname, qclass := q.qclass, qtype := q.qtype } = (st1, .ok resolved)) :
    loopAfterReply cfg (fuel + 1) st2 q combined (some (.cname rrs cname)) =
      (st1, .ok (.nonAuthoritative (prioritisingMerge combined rrs ++ resolved.rrs) resolved.soaRR)) := by
  unfold loopAfterReply
  exact (C10_combined_order cfg fuel _ _ _).1 st1 resolved hrest

/-- Forwarding mode, alias found in local data: local alias records first, then the rest. -/
theorem C10_forwarding_local_alias_order (cfg : FwdCfg) (fuel : Nat) (st : St) (q : Question)
    (rrs : List RR) (cq : Question) (st1 : St) (resolved : ResolvedRecord)
    (ht : st.run.timedOut = false)
    (hloc : (resolveLocal (RECURSION_LIMIT + 1) st.ctx q).2 = .ok (.cname rrs cq))
    (hrest : resolveFwd cfg fuel ⟨(resolveLocal (RECURSION_LIMIT + 1) st.ctx q).1.push q, st.run⟩ cq
      = (st1, .ok resolved)) :
    (resolveFwd cfg (fuel + 1) st q).2 = .ok (.nonAuthoritative (rrs ++ resolved.rrs) resolved.soaRR) := by
  have hl : st.ctx.atRecursionLimit = false := by
    cases hh : st.ctx.atRecursionLimit with
    | false => rfl
    | true => rw [resolveLocal] at hloc; simp [hh] at hloc
  have hd : st.ctx.isDuplicate q = false := by
    cases hh : st.ctx.isDuplicate q with
    | false => rfl
    | true => rw [resolveLocal] at hloc; simp [hl, hh] at hloc
  rw [resolveFwd]
  simp only [ht, hl, hd, Bool.false_eq_true, if_false]
  rw [hloc]
  simp only
  rw [hrest]

/-! ### Non-vacuity -/

/-- a stack at the limit / a repeated question do occur as inputs: -/
example : (resolveRec exCfg 1 ⟨{ exCtx with stack := List.replicate 32 exQ }, Run.empty⟩ exQ).2
    = .error .recursionLimit := by decide +kernel

example : (resolveRec exCfg 1 ⟨{ exCtx with stack := [exQ] }, Run.empty⟩ exQ).2
    = .error (.duplicateQuestion exQ) := by decide +kernel

/-- COUNTEREXAMPLE to "chains are returned in order" for upstream-supplied chains: the records of
    ONE upstream reply are passed on in the order of the reply's answer section (the filter
    `validate_nameserver_response` keeps that order; forwarding passes `response.answers` on
    verbatim).  An upstream that lists `y. A` before `x. CNAME y.` gets exactly that order back:
    the alias record comes AFTER the record of its target.  (Order is by chain only across
    separate resolution steps: `C10_combined_order` and the `…_alias_order` theorems.) -/
example : (resolveRecursive exCfgUnordered exCtx exQ).2 = .ok (.nonAuthoritative [exTargetRR, exCnameRR] none) ∧
    (resolveForwarding exFwdUnordered exCtx exQ).2 = .ok (.nonAuthoritative [exTargetRR, exCnameRR] none) := by
  decide +kernel

/-- the empty stack the wrappers start from satisfies the stack invariant. -/
example : exCtx.stack.length ≤ RECURSION_LIMIT ∧ exCtx.stack.Nodup := by
  constructor
  · decide
  · exact List.nodup_nil

end Resolved
