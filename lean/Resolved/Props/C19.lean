/-
  C19 — Reload swaps the whole configuration or none of it.
  FIRST-CLAIM version: the reload state machine (pure part of `load_zone_configuration` +
  `reload_task`).  Signal delivery, the tokio RwLock and the file system are observed on the real
  binary by the reload stream, not modelled.
-/
import Resolved.Model.Server

namespace Resolved

/-- One unreadable or invalid file (zone or hosts) makes the whole load fail … -/
theorem C19_one_bad_file_fails_load (zoneFiles : List (Option Zone)) (hosts : Option Zone)
    (h : none ∈ zoneFiles ∨ hosts = none) : loadConfiguration zoneFiles hosts = none := by
  unfold loadConfiguration
  rcases h with h | h
  · have : zoneFiles.any Option.isNone = true := by
      simp only [List.any_eq_true]; exact ⟨none, h, rfl⟩
    simp [this]
  · simp [h]

/-- … and a failed load leaves the live configuration exactly as it was; a successful one
    replaces it as a whole. -/
theorem C19_all_or_nothing (live : Zones) (loaded : Option Zones) :
    (loaded = none → reload live loaded = (live, false)) ∧
    (∀ z, loaded = some z → reload live loaded = (z, true)) := by
  constructor
  · intro h; subst h; rfl
  · intro z h; subst h; rfl

/-- A query is answered from exactly one configuration value: the server's answer is a function
    of the `Zones` value it read, so with a reload in progress it is the answer under the old or
    under the new configuration, entirely. -/
theorem C19_snapshot (old new : Zones) (loaded : Option Zones) (buf : List UInt8) (swapped : Bool) :
    let live := if swapped then (reload old loaded).1 else old
    serveUdp true (authOnlyResolver live) buf = serveUdp true (authOnlyResolver old) buf ∨
    serveUdp true (authOnlyResolver live) buf = serveUdp true (authOnlyResolver (reload old loaded).1) buf := by
  cases swapped <;> simp

end Resolved
